import Cfdm.Lemmas.EqualitySpec
/-
Helper lemmas for C05: `Constructs.equals` (axis maps, cell methods, coordinate references).
-/
namespace Cfdm.Equality
open Cfdm.Equality.Spec

/-! ### cell-method loops: the indices stay inside the axes tuple -/

theorem idxOf_lt_of_mem {a : Nat} {l : List Nat} (h : a ∈ l) : l.idxOf a < l.length :=
  List.idxOf_lt_length_iff.mpr h

theorem cmInner_inv (in0 : Bool) (tgt : Option Nat) (axis0 : Nat) (m10 : AMap) (full1 : List Nat) :
    ∀ (fuel : Nat) (axes1 : List Nat) (i : Nat) (ind : List Nat) (axes1' ind' : List Nat),
      cmInner in0 tgt axis0 m10 full1 fuel axes1 i ind = some (axes1', ind') →
      (∀ a ∈ axes1, a ∈ full1) → (∀ j ∈ ind, j < full1.length) →
      (∀ a ∈ axes1', a ∈ full1) ∧ (∀ j ∈ ind', j < full1.length) := by
  intro fuel
  induction fuel with
  | zero =>
    intro axes1 i ind axes1' ind' h h1 h2
    simp only [cmInner, Option.some.injEq, Prod.mk.injEq] at h
    obtain ⟨rfl, rfl⟩ := h
    exact ⟨h1, h2⟩
  | succ fuel ih =>
    intro axes1 i ind axes1' ind' h h1 h2
    simp only [cmInner] at h
    cases hget : axes1[i]? with
    | none =>
      simp only [hget, Option.some.injEq, Prod.mk.injEq] at h
      obtain ⟨rfl, rfl⟩ := h
      exact ⟨h1, h2⟩
    | some axis1 =>
      have hmem : axis1 ∈ axes1 := List.mem_of_getElem? hget
      have hfull : axis1 ∈ full1 := h1 _ hmem
      have herase : ∀ a ∈ axes1.erase axis1, a ∈ full1 := fun a ha => h1 a (List.mem_of_mem_erase ha)
      have hind : ∀ j ∈ ind ++ [full1.idxOf axis1], j < full1.length := by
        intro j hj
        rcases List.mem_append.mp hj with hj | hj
        · exact h2 j hj
        · simp only [List.mem_singleton] at hj; subst hj; exact idxOf_lt_of_mem hfull
      simp only [hget] at h
      split at h
      · split at h
        · simp only [Option.some.injEq, Prod.mk.injEq] at h
          obtain ⟨rfl, rfl⟩ := h
          exact ⟨herase, hind⟩
        · exact ih _ _ _ _ _ h h1 h2
      · split at h
        · exact absurd h (by simp)
        · split at h
          · exact ih _ _ _ _ _ h herase hind
          · exact ih _ _ _ _ _ h h1 h2

theorem cmOuter_inv (m01 m10 : AMap) (full1 : List Nat) :
    ∀ (axes0 axes1 ind ind' : List Nat), cmOuter m01 m10 full1 axes0 axes1 ind = some ind' →
      (∀ a ∈ axes1, a ∈ full1) → (∀ j ∈ ind, j < full1.length) → ∀ j ∈ ind', j < full1.length := by
  intro axes0
  induction axes0 with
  | nil =>
    intro axes1 ind ind' h _ h2
    simp only [cmOuter, Option.some.injEq] at h
    subst h; exact h2
  | cons a rest ih =>
    intro axes1 ind ind' h h1 h2
    simp only [cmOuter] at h
    split at h
    · exact absurd h (by simp)
    · rename_i axes1' ind1 heq
      obtain ⟨g1, g2⟩ := cmInner_inv _ _ _ _ _ _ _ _ _ _ _ heq h1 h2
      exact ih _ _ _ h g1 g2

/-- Cell methods as CF writes them: no interval, one interval, or one per axis. -/
def CMIntervalsWF (m : CellMethod) : Prop := m.intervals.length ≤ 1 ∨ m.intervals.length = m.axes.length

theorem mapM_getElem?_isSome {α} (iv : List α) (indices : List Nat) (h : ∀ j ∈ indices, j < iv.length) :
    ∃ l, indices.mapM (fun i => iv[i]?) = some l := by
  induction indices with
  | nil => exact ⟨[], rfl⟩
  | cons i rest ih =>
    obtain ⟨l, hl⟩ := ih (fun j hj => h j (by simp [hj]))
    have hi : i < iv.length := h i (by simp)
    refine ⟨iv[i] :: l, ?_⟩
    simp [List.mapM_cons, hl, List.getElem?_eq_getElem hi]

theorem cmPairEquals_total (close : Int → Int → Bool) (m01 m10 : AMap) (cm0 cm1 : CellMethod)
    (h1 : CMIntervalsWF cm1) : ∃ b, cmPairEquals close m01 m10 cm0 cm1 = .ok b := by
  unfold cmPairEquals
  split
  · exact ⟨_, rfl⟩
  · split
    · exact ⟨_, rfl⟩
    · rename_i indices hidx
      split
      · exact ⟨_, rfl⟩
      · rename_i hlen
        have hlt := cmOuter_inv m01 m10 cm1.axes cm0.axes cm1.axes [] indices hidx (fun a ha => ha) (by simp)
        have : ∃ iv, sortedIntervals cm1.axes.length indices cm1.intervals = .ok iv := by
          unfold sortedIntervals
          split
          · exact ⟨_, rfl⟩
          · split
            · exact ⟨_, rfl⟩
            · rename_i hgt
              have hl : cm1.intervals.length = cm1.axes.length := by
                rcases h1 with h | h
                · omega
                · exact h
              obtain ⟨l, hl'⟩ := mapM_getElem?_isSome cm1.intervals indices (fun j hj => hl ▸ hlt j hj)
              simp [hl']
        obtain ⟨iv, hiv⟩ := this
        simp [hiv]

theorem cmListEquals_total (close : Int → Int → Bool) (m01 m10 : AMap) (c0 c1 : List CellMethod)
    (h1 : ∀ m ∈ c1, CMIntervalsWF m) : ∃ b, cmListEquals close m01 m10 c0 c1 = .ok b := by
  induction c0 generalizing c1 with
  | nil => exact ⟨true, by simp [cmListEquals]⟩
  | cons a as ih =>
    cases c1 with
    | nil => exact ⟨true, by simp [cmListEquals]⟩
    | cons b bs =>
      obtain ⟨v, hv⟩ := cmPairEquals_total close m01 m10 a b (h1 b (by simp))
      simp only [cmListEquals, hv]
      cases v with
      | false => exact ⟨false, rfl⟩
      | true => exact ih bs (fun m hm => h1 m (by simp [hm]))

theorem cellMethodsEqual_total (close : Int → Int → Bool) (m01 m10 : AMap) (c0 c1 : List CellMethod)
    (h1 : ∀ m ∈ c1, CMIntervalsWF m) : ∃ b, cellMethodsEqual close m01 m10 c0 c1 = .ok b := by
  unfold cellMethodsEqual
  split
  · exact ⟨_, rfl⟩
  · exact cmListEquals_total close m01 m10 c0 c1 h1

theorem constructsEquals_total (o : Opts) (x y : Field) (h1 : ∀ m ∈ y.cms, CMIntervalsWF m.2) :
    ∃ b, constructsEquals o x y = .ok b := by
  unfold constructsEquals
  split
  · exact ⟨_, rfl⟩
  · simp only
    split
    · exact ⟨_, rfl⟩
    · split
      · exact ⟨_, rfl⟩
      · split
        · exact ⟨_, rfl⟩
        · rename_i m01 m10 _
          obtain ⟨b, hb⟩ := cellMethodsEqual_total o.close m01 m10 (x.cms.map (·.2)) (y.cms.map (·.2))
            (by intro m hm; obtain ⟨p, hp, rfl⟩ := List.mem_map.mp hm; exact h1 p hp)
          rw [hb]
          cases b <;> exact ⟨_, rfl⟩

theorem fieldEquals_total (o : Opts) (x y : Field) (h1 : ∀ m ∈ y.cms, CMIntervalsWF m.2)
    (ht : o.ignoreType = false ∨ x.cls = y.cls) : ∃ b, fieldEquals o x y = .ok b := by
  unfold fieldEquals
  split
  · rename_i hne
    rcases ht with ht | ht
    · simp [ht]
    · simp [ht] at hne
  · split
    · exact ⟨_, rfl⟩
    · split
      · exact ⟨_, rfl⟩
      · exact constructsEquals_total o x y h1

/-! ### reflexivity: maps built from identical operands are diagonal -/

def Diag (m : AMap) : Prop := ∀ p ∈ m, p.1 = p.2

theorem mapGet_diag {m : AMap} (hm : Diag m) {a b : Nat} (h : mapGet m a = some b) : b = a := by
  have := mem_of_lookup m a b h
  exact (hm _ this).symm

theorem mapKey_diag {m : AMap} (hm : Diag m) (v : Nat) : mapKey m v = v := by
  unfold mapKey
  cases h : mapGet m v with
  | none => rfl
  | some b => simp [mapGet_diag hm h]

theorem mapSet_diag {m : AMap} (hm : Diag m) (a : Nat) : Diag (mapSet m a a) := by
  unfold mapSet
  split
  · exact hm
  · intro p hp
    rcases List.mem_append.mp hp with hp | hp
    · exact hm p hp
    · simp only [List.mem_singleton] at hp; subst hp; rfl

theorem mapGet_mapSet (m : AMap) (a b : Nat) :
    (mapGet (mapSet m a a) b).isSome = ((mapGet m b).isSome || (b == a)) := by
  unfold mapSet mapGet
  by_cases hba : b = a
  · subst hba
    cases h : (List.lookup b m).isSome with
    | true => simp [h]
    | false =>
      simp only [h, Bool.false_eq_true, ↓reduceIte, Bool.false_or, beq_self_eq_true]
      have : List.lookup b m = none := by simpa using h
      simp [List.lookup_append, this, List.lookup]
  · have hf : (b == a) = false := by simpa using hba
    split
    · simp [hf]
    · simp [List.lookup_append, List.lookup, hf]

theorem axisMapLoop_diag (ps : List (Nat × Nat)) (hps : ∀ p ∈ ps, p.1 = p.2) (m : AMap) (hm : Diag m) :
    ∃ m', axisMapLoop ps (m, m) = some (m', m') ∧ Diag m' ∧
      ∀ b, (mapGet m' b).isSome = ((mapGet m b).isSome || (ps.map Prod.fst).contains b) := by
  induction ps generalizing m with
  | nil => exact ⟨m, rfl, hm, by simp⟩
  | cons p rest ih =>
    obtain ⟨a, a'⟩ := p
    have : a = a' := hps (a, a') (by simp)
    subst this
    have hstep : axisMapStep (m, m) (a, a) = some (mapSet m a a, mapSet m a a) := by
      unfold axisMapStep
      cases h : mapGet m a with
      | none => simp [h]
      | some b =>
        have := mapGet_diag hm h
        subst this
        simp [h]
    obtain ⟨m', h1, h2, h3⟩ := ih (fun p hp => hps p (by simp [hp])) (mapSet m a a) (mapSet_diag hm a)
    refine ⟨m', by simp [axisMapLoop, hstep, h1], h2, ?_⟩
    intro b
    rw [h3 b, mapGet_mapSet]
    simp only [List.map_cons, List.contains_cons]
    cases (mapGet m b).isSome <;> cases (b == a) <;> simp

theorem mem_dedup {α} [BEq α] [LawfulBEq α] (a : α) (l : List α) : a ∈ dedup l ↔ a ∈ l := by
  induction l with
  | nil => simp [dedup]
  | cons b bs ih =>
    simp only [dedup, List.mem_cons, List.mem_filter, ih]
    by_cases h : a = b
    · simp [h]
    · simp [h]

/-- Constructs of one group, role by role, pair with themselves in place. -/
theorem groupPairs_self (eq : Construct → Construct → Bool) (g : List Entry)
    (hg : ∀ e ∈ g, eq e.c e.c = true) (rs : List Nat) :
    groupPairs eq g g rs = some (rs.flatMap (fun role => (ofRole role g).zip (ofRole role g))) := by
  induction rs with
  | nil => rfl
  | cons role rest ih =>
    have h1 : rolePairs eq g g role = some ((ofRole role g).zip (ofRole role g)) := by
      unfold rolePairs
      simp only [bne_self_eq_false, Bool.false_eq_true, ↓reduceIte]
      apply greedyPairs_eq_zip
      have : ∀ l : List Entry, (∀ e ∈ l, eq e.c e.c = true) → List.Forall₂ (fun a b => eq a.c b.c = true) l l := by
        intro l hl
        induction l with
        | nil => exact .nil
        | cons e es ihl => exact .cons (hl e (by simp)) (ihl (fun e' he' => hl e' (by simp [he'])))
      exact this _ (fun e he => hg e (List.mem_of_mem_filter he))
    simp [groupPairs, h1, ih]

theorem groupRel_self (eq : Construct → Construct → Bool) (a : List Nat × List Entry)
    (hg : ∀ e ∈ a.2, eq e.c e.c = true) : groupRel eq a a = true := by
  simp [groupRel, groupPairs_self eq a.2 hg]

theorem mem_groupsOf {cons : List Entry} {a : List Nat × List Entry} (h : a ∈ groupsOf cons) :
    ∀ e ∈ a.2, e ∈ cons := by
  simp only [groupsOf, List.mem_map] at h
  obtain ⟨ax, _, rfl⟩ := h
  intro e he
  exact List.mem_of_mem_filter he

theorem greedy_groups_self (eq : Construct → Construct → Bool) (cons : List Entry)
    (hc : ∀ e ∈ cons, eq e.c e.c = true) :
    greedyPairs (groupRel eq) (groupsOf cons) (groupsOf cons) = some ((groupsOf cons).zip (groupsOf cons)) := by
  apply greedyPairs_eq_zip
  have : ∀ l : List (List Nat × List Entry), (∀ a ∈ l, groupRel eq a a = true) →
      List.Forall₂ (fun a b => groupRel eq a b = true) l l := by
    intro l hl
    induction l with
    | nil => exact .nil
    | cons e es ihl => exact .cons (hl e (by simp)) (ihl (fun e' he' => hl e' (by simp [he'])))
  apply this
  intro a ha
  exact groupRel_self eq a (fun e he => hc e (mem_groupsOf ha e he))

theorem axisPairs_self (g : List (List Nat × List Entry)) :
    (∀ p ∈ axisPairs (g.zip g), p.1 = p.2) ∧ (axisPairs (g.zip g)).map Prod.fst = g.flatMap (·.1) := by
  induction g with
  | nil => simp [axisPairs]
  | cons a rest ih =>
    simp only [axisPairs, List.zip_cons_cons, List.flatMap_cons, List.mem_append, List.map_append] at ih ⊢
    constructor
    · intro p hp
      rcases hp with hp | hp
      · have : ∀ (l : List Nat) (p : Nat × Nat), p ∈ l.zip l → p.1 = p.2 := by
          intro l
          induction l with
          | nil => simp
          | cons x xs ihx =>
            intro p hp
            simp only [List.zip_cons_cons, List.mem_cons] at hp
            rcases hp with rfl | hp
            · rfl
            · exact ihx p hp
        exact this _ p hp
      · exact ih.1 p hp
    · rw [ih.2]
      congr 1
      have : ∀ l : List Nat, (l.zip l).map Prod.fst = l := by
        intro l; induction l with
        | nil => rfl
        | cons x xs ihx => simp [ihx]
      exact this _

theorem keyMap_self_diag (eq : Construct → Construct → Bool) (g : List (List Nat × List Entry))
    (hg : ∀ a ∈ g, ∀ e ∈ a.2, eq e.c e.c = true) : Diag (keyMap eq (g.zip g)) := by
  induction g with
  | nil => intro p hp; simp [keyMap] at hp
  | cons a rest ih =>
    intro p hp
    simp only [keyMap, List.zip_cons_cons, List.flatMap_cons, List.mem_append] at hp
    rcases hp with hp | hp
    · rw [groupPairs_self eq a.2 (hg a (by simp))] at hp
      simp only [List.mem_map, List.mem_flatMap] at hp
      obtain ⟨q, ⟨role, _, hq⟩, rfl⟩ := hp
      have : ∀ (l : List Entry) (q : Entry × Entry), q ∈ l.zip l → q.1 = q.2 := by
        intro l
        induction l with
        | nil => simp
        | cons x xs ihx =>
          intro q hq
          simp only [List.zip_cons_cons, List.mem_cons] at hq
          rcases hq with rfl | hq
          · rfl
          · exact ihx q hq
      simp [this _ q hq]
    · exact ih (fun a ha => hg a (by simp [ha])) p (by simpa [keyMap] using hp)

/-! ### reflexivity: the cell-method loops on identical operands -/

theorem cmInner_skip (a : Nat) (m : AMap) (full : List Nat) :
    ∀ (fuel : Nat) (T : List Nat) (i : Nat) (ind : List Nat),
      (∀ j, i ≤ j → (h : j < T.length) → (mapGet m T[j]).isSome = false ∧ T[j] ≠ a) →
      cmInner false none a m full fuel T i ind = some (T, ind) := by
  intro fuel
  induction fuel with
  | zero => intro T i ind _; rfl
  | succ fuel ih =>
    intro T i ind h
    simp only [cmInner]
    cases hget : T[i]? with
    | none => rfl
    | some axis1 =>
      have hi : i < T.length := by
        by_contra hn
        rw [List.getElem?_eq_none (by omega)] at hget
        exact absurd hget (by simp)
      have hax : T[i] = axis1 := by
        rw [List.getElem?_eq_getElem hi] at hget
        exact Option.some.inj hget
      obtain ⟨h1, h2⟩ := h i (Nat.le_refl _) hi
      rw [hax] at h1 h2
      have h3 : (a == axis1) = false := by simpa using fun e => h2 e.symm
      simp only [Bool.false_and, Bool.false_eq_true, ↓reduceIte, h1, Bool.or_self, h3]
      exact ih T (i + 1) ind (fun j hj hlt => h j (by omega) hlt)

theorem idxOf_append_cons_self (P T : List Nat) (a : Nat) (h : a ∉ P) : (P ++ a :: T).idxOf a = P.length := by
  induction P with
  | nil => simp [List.idxOf_cons_self]
  | cons p ps ih =>
    have hne : p ≠ a := fun e => h (by simp [e])
    have hps : a ∉ ps := fun e => h (by simp [e])
    simp [List.idxOf_cons, hne, ih hps]

/-- The cell-method axes are never out of step when, in the axes tuple, no axis without data
constructs stands two or more places before an axis with data constructs. -/
def CMAxesOK (spanned : Nat → Bool) (L : List Nat) : Prop :=
  ∀ i j (hi : i < L.length) (hj : j < L.length), i + 2 ≤ j → spanned L[i] = false → spanned L[j] = false

theorem cmOuter_self (m : AMap) (hm : Diag m) (L : List Nat) (hL : L.Nodup)
    (hok : CMAxesOK (fun a => (mapGet m a).isSome) L) :
    ∀ (S P : List Nat), L = P ++ S → cmOuter m m L S S (List.range P.length) = some (List.range L.length) := by
  intro S
  induction S with
  | nil => intro P h; simp [cmOuter, h]
  | cons a T ih =>
    intro P h
    have haP : a ∉ P := by
      intro hmem
      rw [h] at hL
      have := (List.nodup_append.mp hL).2.2 a hmem a (by simp)
      exact this rfl
    have hidx : L.idxOf a = P.length := by rw [h]; exact idxOf_append_cons_self P T a haP
    have hnext := ih (P ++ [a]) (by simp [h])
    have hrange : List.range (P ++ [a]).length = List.range P.length ++ [P.length] := by
      simp [List.range_succ]
    rw [hrange] at hnext
    simp only [cmOuter]
    have hinner : cmInner (mapGet m a).isSome (mapGet m a) a m L (a :: T).length (a :: T) 0 (List.range P.length)
        = some (T, List.range P.length ++ [P.length]) := by
      simp only [List.length_cons, cmInner, List.getElem?_cons_zero]
      cases hget : mapGet m a with
      | some b =>
        have := mapGet_diag hm hget
        subst this
        simp [hidx]
      | none =>
        simp only [Option.isSome_none, Bool.false_and, Bool.false_eq_true, ↓reduceIte, Bool.or_self, beq_self_eq_true,
          List.erase_cons_head, hidx]
        apply cmInner_skip
        intro j hj hlt
        have hpos : P.length + 1 + j < L.length := by rw [h]; simp; omega
        have hTj : L[P.length + 1 + j] = T[j] := by
          simp only [h]
          rw [List.getElem_append_right (by omega)]
          simp [show P.length + 1 + j - P.length = j + 1 by omega]
        have hPl : P.length < L.length := by rw [h]; simp
        have hLa : L[P.length] = a := by
          simp only [h]
          rw [List.getElem_append_right (by omega)]
          simp
        constructor
        · have := hok P.length (P.length + 1 + j) hPl hpos (by omega) (by simp [hLa, hget])
          simpa [hTj] using this
        · intro e
          have hnd := List.nodup_iff_injective_getElem.mp hL
          have : (⟨P.length + 1 + j, hpos⟩ : Fin L.length) = ⟨P.length, hPl⟩ := by
            apply hnd
            simp only [hTj, hLa, e]
          have := congrArg Fin.val this
          simp at this
          omega
    rw [hinner]
    exact hnext

theorem mapM_range_getElem? {α} (pre suf : List α) :
    (List.range' pre.length suf.length).mapM (fun i => (pre ++ suf)[i]?) = some suf := by
  induction suf generalizing pre with
  | nil => rfl
  | cons x xs ih =>
    have := ih (pre ++ [x])
    simp only [List.length_append, List.length_cons, List.length_nil, Nat.zero_add, List.append_assoc,
      List.cons_append, List.nil_append] at this
    simp [List.range'_succ, List.mapM_cons, this]

theorem sortedIntervals_self (n : Nat) (iv : List Data) (h : iv.length ≤ 1 ∨ iv.length = n) :
    sortedIntervals n (List.range n) iv = .ok iv := by
  unfold sortedIntervals
  split
  · rfl
  · split
    · rfl
    · rename_i h2
      have hl : iv.length = n := by omega
      subst hl
      have := mapM_range_getElem? ([] : List Data) iv
      simp only [List.length_nil, List.nil_append] at this
      rw [List.range_eq_range', this]

theorem cellMethodCore_refl {close} (hc : CloseRefl close) (m : CellMethod) (hm : CellMethodWF m) :
    cellMethodCore close m m = true := by
  simp only [cellMethodCore, beq_self_eq_true, Bool.true_and, Bool.and_eq_true]
  constructor
  · exact (dictEq_iff (fun a b => a == b) (fun a b => a = b) (by simp) _ _ hm).mpr (DictEq.refl (fun _ => rfl) _)
  · exact all2_refl _ _ (fun d _ => dataEquals_refl hc _ _ _ d)

theorem cmPairEquals_self {close} (hc : CloseRefl close) (m : AMap) (hm : Diag m) (cm : CellMethod)
    (h1 : CMIntervalsWF cm) (h2 : CellMethodWF cm) (h3 : cm.axes.Nodup)
    (h4 : CMAxesOK (fun a => (mapGet m a).isSome) cm.axes) :
    cmPairEquals close m m cm cm = .ok true := by
  unfold cmPairEquals
  have := cmOuter_self m hm cm.axes h3 h4 cm.axes [] rfl
  simp only [List.length_nil, List.range_zero] at this
  simp only [bne_self_eq_false, Bool.false_eq_true, ↓reduceIte, this, List.length_range,
    sortedIntervals_self _ _ h1]
  have : ({ cm with axes := cm.axes, intervals := cm.intervals } : CellMethod) = cm := rfl
  rw [this, cellMethodCore_refl hc cm h2]

theorem cmListEquals_self {close} (hc : CloseRefl close) (m : AMap) (hm : Diag m) (cms : List CellMethod)
    (h : ∀ cm ∈ cms, CMIntervalsWF cm ∧ CellMethodWF cm ∧ cm.axes.Nodup ∧
      CMAxesOK (fun a => (mapGet m a).isSome) cm.axes) :
    cmListEquals close m m cms cms = .ok true := by
  induction cms with
  | nil => rfl
  | cons cm rest ih =>
    obtain ⟨h1, h2, h3, h4⟩ := h cm (by simp)
    simp only [cmListEquals, cmPairEquals_self hc m hm cm h1 h2 h3 h4]
    exact ih (fun c hc' => h c (by simp [hc']))

/-! ### reflexivity: coordinate references -/

theorem setEq_self (l : List Nat) : setEq l l = true := by
  simp [setEq]

theorem coordRefCore_refl {close} (hc : CloseRefl close) (r : CoordRef) (hr : CoordRefWF r) :
    coordRefCore close r r = true :=
  (coordRefCore_iff close r r hr).mpr
    ⟨rfl, DictEq.refl (fun a => OptRel.refl' (ArrEq.refl hc true) a) _,
      DictEq.refl (R := fun (a b : Option Nat) => a.isSome = b.isSome) (fun _ => rfl) _,
      DictEq.refl (fun a => OptRel.refl' (ArrEq.refl hc true) a) _⟩

theorem refRel_self {close} (hc : CloseRefl close) (k : AMap) (hk : Diag k) (r : CoordRef) (hr : CoordRefWF r) :
    refRel close k r r = true := by
  have h1 : r.coords.map (mapKey k) = r.coords := by
    conv => rhs; rw [← List.map_id r.coords]
    exact List.map_congr_left (fun a _ => mapKey_diag hk a)
  have h2 : r.convAncils.map (fun tk => (tk.1, tk.2.map (mapKey k))) = r.convAncils := by
    conv => rhs; rw [← List.map_id r.convAncils]
    apply List.map_congr_left
    intro tk _
    obtain ⟨t, v⟩ := tk
    cases v with
    | none => rfl
    | some v => simp [mapKey_diag hk v]
  simp only [refRel, h1, h2, setEq_self, coordRefCore_refl hc r hr, Bool.true_and]
  exact (dictEq_iff (fun (a b : Option Nat) => a == b) (fun a b => a = b) (by simp) _ _ hr.2.1).mpr
    (DictEq.refl (fun _ => rfl) _)

theorem refsEqual_self {close} (hc : CloseRefl close) (k : AMap) (hk : Diag k) (rs : List CoordRef)
    (hr : ∀ r ∈ rs, CoordRefWF r) : refsEqual close k rs rs = true := by
  unfold refsEqual greedyMatch
  have : greedyPairs (refRel close k) rs rs = some (rs.zip rs) := by
    apply greedyPairs_eq_zip
    induction rs with
    | nil => exact .nil
    | cons r rest ih =>
      exact .cons (refRel_self hc k hk r (hr r (by simp))) (ih (fun r' h' => hr r' (by simp [h'])))
  simp [this]

/-! ### reflexivity: assembling `Constructs.equals` and `Field.equals` -/

/-- The axis is spanned by at least one metadata construct with data. -/
def spanned (f : Field) (a : Nat) : Bool := f.cons.any (fun e => e.axes.contains a)

structure FieldWF (f : Field) : Prop where
  props : KeysNodup f.props
  cons : ∀ e ∈ f.cons, ConstructWF e.c
  cms : ∀ m ∈ f.cms, CMIntervalsWF m.2 ∧ CellMethodWF m.2 ∧ m.2.axes.Nodup
  refs : ∀ r ∈ f.refs, CoordRefWF r.2

theorem groups_axes_contains (cons : List Entry) (b : Nat) :
    ((groupsOf cons).flatMap (·.1)).contains b = cons.any (fun e => e.axes.contains b) := by
  rw [Bool.eq_iff_iff]
  simp only [List.contains_iff_mem, List.mem_flatMap, groupsOf, List.mem_map, List.any_eq_true]
  constructor
  · rintro ⟨a, ⟨ax, hax, rfl⟩, hb⟩
    rw [mem_dedup] at hax
    obtain ⟨e, he, rfl⟩ := List.mem_map.mp hax
    exact ⟨e, he, hb⟩
  · rintro ⟨e, he, hb⟩
    exact ⟨(e.axes, _), ⟨e.axes, (mem_dedup _ _).mpr (List.mem_map_of_mem he), rfl⟩, hb⟩

theorem constructsEquals_self (o : Opts) (hc : CloseRefl o.close) (x : Field) (hx : FieldWF x)
    (hcm : ∀ m ∈ x.cms, CMAxesOK (spanned x) m.2.axes) : constructsEquals o x x = .ok true := by
  have hcl : CloseRefl o.inner.close := hc
  have heq : ∀ e ∈ x.cons, constructCore o.inner e.c e.c = true :=
    fun e he => constructCore_refl hcl e.c (hx.cons e he)
  obtain ⟨m, hloop, hdiag, hdom⟩ := axisMapLoop_diag (axisPairs ((groupsOf x.cons).zip (groupsOf x.cons)))
    (axisPairs_self _).1 [] (by intro p hp; simp at hp)
  have hsp : (fun a => (mapGet m a).isSome) = spanned x := by
    funext a
    rw [hdom a, (axisPairs_self _).2, groups_axes_contains]
    simp [mapGet, spanned]
  have hk := keyMap_self_diag (constructCore o.inner) (groupsOf x.cons)
    (fun a ha e he => heq e (mem_groupsOf ha e he))
  unfold constructsEquals
  simp only [domainAxesEqual, beq_self_eq_true, Bool.not_true, Bool.false_eq_true, ↓reduceIte,
    bne_self_eq_false, greedy_groups_self _ x.cons heq, hloop]
  have hcms : cellMethodsEqual o.close m m (x.cms.map (·.2)) (x.cms.map (·.2)) = .ok true := by
    unfold cellMethodsEqual
    simp only [bne_self_eq_false, Bool.false_eq_true, ↓reduceIte]
    apply cmListEquals_self hc m hdiag
    intro cm hcm'
    obtain ⟨p, hp, rfl⟩ := List.mem_map.mp hcm'
    obtain ⟨h1, h2, h3⟩ := hx.cms p hp
    exact ⟨h1, h2, h3, hsp ▸ hcm p hp⟩
  rw [hcms]
  simp only
  rw [refsEqual_self hc _ hk]
  intro r hr
  obtain ⟨p, hp, rfl⟩ := List.mem_map.mp hr
  exact hx.refs p hp

theorem fieldEquals_self (o : Opts) (hc : CloseRefl o.close) (x : Field) (hx : FieldWF x)
    (hcm : ∀ m ∈ x.cms, CMAxesOK (spanned x) m.2.axes) : fieldEquals o x x = .ok true := by
  unfold fieldEquals
  simp only [bne_self_eq_false, Bool.false_eq_true, ↓reduceIte, propsEquals_refl hc _ _ hx.props,
    Bool.not_true, optDataEquals_refl hc]
  exact constructsEquals_self o hc x hx hcm

end Cfdm.Equality
