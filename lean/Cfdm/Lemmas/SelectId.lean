import Cfdm.Lemmas.Select
/-
C18 — helper lemmas for the parts added by the extension:
* `_filter_by_identity` depends only on the *set* of the given identities (not on their
  order, not on repetitions), for any identity generator (HEAD's and the patched one);
* `inverse_filter(1)` directly after an inverse filter;
* `Constructs.domain_axes(*identities, **filter_kwargs)`;
* `Field.cell_methods(*identities, **filter_kwargs)`.
-/
namespace Cfdm.Select

/-! ### `_filter_by_identity` and the order of the identities -/

/-- Membership in `matched`, for any generator and with no well-formedness assumption,
stated through membership in `qs` only. -/
theorem mem_matched_raw (gen : Bool → Construct → List String) (cs : List Construct) (qs : List Q) (k : String) :
    k ∈ (identityCore gen cs qs).matched ↔
      k ∈ (prepass (cs.map (·.key)) qs).1 ∨
        ((prepass (cs.map (·.key)) qs).2.2 ≠ [] ∧
          ∃ c ∈ cs, c.key ∉ (prepass (cs.map (·.key)) qs).1 ∧ c.key = k ∧
            ∃ v ∈ gen (qs.all Q.bare) c, ∃ q ∈ qs, q.matches v = true) := by
  simp only [identityCore, shortFlag_eq_all]
  by_cases hE : (prepass (cs.map (·.key)) qs).2.2 = []
  · simp [hE]
  · have hE' : (prepass (cs.map (·.key)) qs).2.2.isEmpty = false := by
      cases h : (prepass (cs.map (·.key)) qs).2.2 with
      | nil => exact absurd h hE
      | cons a l => rfl
    simp only [hE', Bool.false_eq_true, if_false, List.mem_append, mem_interleave_keys, ne_eq, hE,
      not_false_eq_true, true_and]
    constructor
    · rintro (h | ⟨g, hg, hgk, v, hv, q, hq, hm⟩)
      · exact Or.inl h
      · obtain ⟨c, hc, hg'⟩ := List.mem_map.mp hg
        subst hg'
        exact Or.inr ⟨c, (mem_constructs.mp hc).1, (mem_constructs.mp hc).2, hgk, v, hv, q, hq, hm⟩
    · rintro (h | ⟨c, hc, hk, hck, v, hv, q, hq, hm⟩)
      · exact Or.inl h
      · exact Or.inr ⟨(c.key, gen (qs.all Q.bare) c),
          List.mem_map.mpr ⟨c, mem_constructs.mpr ⟨hc, hk⟩, rfl⟩, hck, v, hv, q, hq, hm⟩

theorem all_bare_congr {qs qs' : List Q} (h : ∀ q, q ∈ qs ↔ q ∈ qs') : qs.all Q.bare = qs'.all Q.bare := by
  rw [Bool.eq_iff_iff, List.all_eq_true, List.all_eq_true]
  exact ⟨fun hh q hq => hh q ((h q).mpr hq), fun hh q hq => hh q ((h q).mp hq)⟩

theorem prepass_matched_congr {keys : List String} {qs qs' : List Q} (h : ∀ q, q ∈ qs ↔ q ∈ qs') (k : String) :
    k ∈ (prepass keys qs).1 ↔ k ∈ (prepass keys qs').1 := by
  rw [prepass_matched, prepass_matched]
  exact ⟨fun ⟨q, hq, r⟩ => ⟨q, (h q).mp hq, r⟩, fun ⟨q, hq, r⟩ => ⟨q, (h q).mpr hq, r⟩⟩

theorem prepass_rest_congr {keys : List String} {qs qs' : List Q} (h : ∀ q, q ∈ qs ↔ q ∈ qs') :
    (prepass keys qs).2.2 = [] ↔ (prepass keys qs').2.2 = [] := by
  rw [prepass_rest_nil, prepass_rest_nil]
  exact ⟨fun hh q hq => hh q ((h q).mpr hq), fun hh q hq => hh q ((h q).mp hq)⟩

theorem mem_matched_congr (gen : Bool → Construct → List String) (cs : List Construct) {qs qs' : List Q}
    (h : ∀ q, q ∈ qs ↔ q ∈ qs') (k : String) :
    k ∈ (identityCore gen cs qs).matched ↔ k ∈ (identityCore gen cs qs').matched := by
  rw [mem_matched_raw, mem_matched_raw, all_bare_congr h]
  have h1 := fun k => prepass_matched_congr (keys := cs.map (·.key)) h k
  have h2 := prepass_rest_congr (keys := cs.map (·.key)) h
  constructor
  · rintro (hk | ⟨hne, c, hc, hck, hkk, v, hv, q, hq, hm⟩)
    · exact Or.inl ((h1 k).mp hk)
    · exact Or.inr ⟨fun e => hne (h2.mpr e), c, hc, fun e => hck ((h1 _).mpr e), hkk, v, hv, q, (h q).mp hq, hm⟩
  · rintro (hk | ⟨hne, c, hc, hck, hkk, v, hv, q, hq, hm⟩)
    · exact Or.inl ((h1 k).mpr hk)
    · exact Or.inr ⟨fun e => hne (h2.mp e), c, hc, fun e => hck ((h1 _).mp e), hkk, v, hv, q, (h q).mpr hq, hm⟩

theorem isEmpty_congr {qs qs' : List Q} (h : ∀ q, q ∈ qs ↔ q ∈ qs') : qs.isEmpty = qs'.isEmpty := by
  cases qs with
  | nil =>
    cases qs' with
    | nil => rfl
    | cons a l => exact absurd ((h a).mpr (List.mem_cons_self ..)) (by simp)
  | cons a l =>
    cases qs' with
    | nil => exact absurd ((h a).mp (List.mem_cons_self ..)) (by simp)
    | cons b l' => rfl

theorem filterByIdentityWith_congr (gen : Bool → Construct → List String) (cs : List Construct) {qs qs' : List Q}
    (h : ∀ q, q ∈ qs ↔ q ∈ qs') :
    filterByIdentityWith gen cs qs = filterByIdentityWith gen cs qs' := by
  simp only [filterByIdentityWith, isEmpty_congr h]
  split
  · rfl
  · apply List.filter_congr
    intro c _
    rw [Bool.eq_iff_iff, List.contains_iff_mem, List.contains_iff_mem]
    exact mem_matched_congr gen cs h c.key

/-! ### `_filter_by_identity` without the exclusion hypothesis -/

/-- Well-formedness without the exclusion `noForeignKey`. -/
structure WF0 (cs : List Construct) : Prop where
  keysNodup : (cs.map (·.key)).Nodup
  keysPlain : ∀ c ∈ cs, stripKeyPrefix c.key = none
  bareFirst : ∀ c ∈ cs, (∀ s ∈ c.idBody.drop 1, bareStr s = false) ∧ (∀ s ∈ c.idPost.drop 1, bareStr s = false)

theorem WF.toWF0 {cs : List Construct} (h : WF cs) : WF0 cs := ⟨h.keysNodup, h.keysPlain, h.bareFirst⟩

theorem keyMatch_iff0 {cs : List Construct} {qs : List Q} {c : Construct} (hwf : WF0 cs) (hc : c ∈ cs) :
    c.key ∈ (prepass (cs.map (·.key)) qs).1 ↔ ∃ q ∈ qs, KeyMatch c q := by
  have hck : c.key ∈ cs.map (·.key) := List.mem_map.mpr ⟨c, hc, rfl⟩
  rw [prepass_matched]
  constructor
  · rintro ⟨q, hq, s, hs, h⟩
    refine ⟨q, hq, ?_⟩
    rcases h with ⟨h1, _⟩ | ⟨_, h2, _⟩
    · exact Or.inl (by rw [hs, h1])
    · exact Or.inr ⟨s, hs, h2⟩
  · rintro ⟨q, hq, h⟩
    refine ⟨q, hq, ?_⟩
    rcases h with h | ⟨s, hs, h2⟩
    · exact ⟨c.key, h, Or.inl ⟨rfl, hck⟩⟩
    · refine ⟨s, hs, Or.inr ⟨?_, h2, hck⟩⟩
      intro hmem
      obtain ⟨c', hc', hk'⟩ := List.mem_map.mp hmem
      have := hwf.keysPlain c' hc'
      have hk' : c'.key = s := hk'
      rw [hk', h2] at this
      cases this

/-- What `_filter_by_identity` selects, exactly, with NO exclusion: a member whose key is
named; or — unless every given value was consumed as a key by the pre-pass — a member
one of whose reported identities matches. -/
theorem mem_matched_exact {cs : List Construct} {qs : List Q} {c : Construct} (hwf : WF0 cs) (hc : c ∈ cs) :
    c.key ∈ (identityCore Construct.idsFor cs qs).matched ↔
      (∃ q ∈ qs, KeyMatch c q) ∨
        ((∃ q ∈ qs, ¬ Consumed (cs.map (·.key)) q) ∧ ∃ q ∈ qs, ∃ s ∈ c.identities, q.matches s = true) := by
  rw [mem_matched_raw, keyMatch_iff0 hwf hc]
  have hne : (prepass (cs.map (·.key)) qs).2.2 ≠ [] ↔ ∃ q ∈ qs, ¬ Consumed (cs.map (·.key)) q := by
    rw [ne_eq, prepass_rest_nil]
    constructor
    · intro h
      apply Classical.byContradiction
      intro hcon
      apply h
      intro q hq
      apply Classical.byContradiction
      intro hq'
      exact hcon ⟨q, hq, hq'⟩
    · rintro ⟨q, hq, hnc⟩ hall
      exact hnc (hall q hq)
  constructor
  · rintro (h | ⟨hE, c', hc', _, hk, v, hv, q, hq, hm⟩)
    · exact Or.inl h
    · have : c' = c := eq_of_key_eq hwf.keysNodup hc' hc hk
      subst this
      exact Or.inr ⟨hne.mp hE, q, hq, v, idsFor_subset hv, hm⟩
  · rintro (h | ⟨hE, q, hq, s, hs, hm⟩)
    · exact Or.inl h
    · by_cases hkm : c.key ∈ (prepass (cs.map (·.key)) qs).1
      · exact Or.inl ((keyMatch_iff0 hwf hc).mp hkm)
      · refine Or.inr ⟨hne.mpr hE, c, hc, hkm, rfl, s, ?_, q, hq, hm⟩
        cases hsh : qs.all Q.bare with
        | false => simpa [Construct.idsFor] using hs
        | true =>
          obtain ⟨t, ht, hbt⟩ := bare_str (List.all_eq_true.mp hsh q hq)
          subst ht
          have hts : t = s := str_matches.mp hm
          subst hts
          exact short_complete (hwf.bareFirst c hc) hs hbt

theorem mem_filterByIdentity_exact {cs : List Construct} {qs : List Q} {c : Construct} (hwf : WF0 cs) :
    c ∈ filterByIdentity cs qs ↔
      c ∈ cs ∧ (qs = [] ∨ (∃ q ∈ qs, KeyMatch c q) ∨
        ((∃ q ∈ qs, ¬ Consumed (cs.map (·.key)) q) ∧ ∃ q ∈ qs, ∃ s ∈ c.identities, q.matches s = true)) := by
  simp only [filterByIdentity, filterByIdentityWith]
  cases qs with
  | nil => simp
  | cons q rest =>
    simp only [List.isEmpty_cons, Bool.false_eq_true, if_false, List.mem_filter, List.contains_iff_mem,
      List.cons_ne_nil, false_or]
    constructor
    · rintro ⟨hc, hm⟩; exact ⟨hc, (mem_matched_exact hwf hc).mp hm⟩
    · rintro ⟨hc, hm⟩; exact ⟨hc, (mem_matched_exact hwf hc).mpr hm⟩

/-! ### `inverse_filter(1)` directly after an inverse filter -/

theorem trailingInverse_zero {applied : List Bool} (h : applied.getLast? ≠ some true) :
    trailingInverse applied = 0 := by
  simp only [trailingInverse]
  cases hr : applied.reverse with
  | nil => rfl
  | cons a l =>
    have : applied.getLast? = some a := by
      rw [List.getLast?_eq_head?_reverse, hr]; rfl
    cases a with
    | false => simp
    | true => exact absurd this h

theorem inverse_of_inverse_one (c : Coll) (d : Option Nat) (h : c.applied.getLast? ≠ some true) :
    inverseFilter (inverseFilter c d) (some 1) = c := by
  have h1 : inverseFilter c d =
      Coll.mk (minusKeys (unfilter c d).items c.items) (c.applied ++ [true]) (c.top :: c.chain) := by
    simp only [inverseFilter]
    have : (c.applied.getLast? == some true) = false := by
      cases hh : c.applied.getLast? with
      | none => rfl
      | some b =>
        cases b with
        | false => rfl
        | true => exact absurd hh h
    simp [this]
  rw [h1]
  simp only [inverseFilter, depthTruthy, List.getLast?_append, List.getLast?_singleton, Bool.true_and]
  simp only [Option.some_or, BEq.rfl, if_true]
  have hu : unfilter (Coll.mk (minusKeys (unfilter c d).items c.items) (c.applied ++ [true]) (c.top :: c.chain))
      (some 1) = c := by
    simp [unfilter, unfilterN, Coll.top]
  rw [hu, trailingInverse_zero h]
  simp

/-! ### `return_matched`: hits and misses -/

theorem prepass_hits {keys : List String} {qs : List Q} {q : Q} (h : q ∈ (prepass keys qs).2.1) :
    q ∈ qs ∧ Consumed keys q := by
  induction qs with
  | nil => simp [prepass] at h
  | cons a rest ih =>
    cases a with
    | str s =>
      simp only [prepass, List.contains_iff_mem] at h
      by_cases hs : s ∈ keys
      · simp only [hs, if_true, List.mem_cons] at h
        rcases h with h | h
        · subst h; exact ⟨List.mem_cons_self .., s, rfl, Or.inl hs⟩
        · exact ⟨List.mem_cons_of_mem _ (ih h).1, (ih h).2⟩
      · simp only [hs, if_false] at h
        cases hst : stripKeyPrefix s with
        | none =>
          simp only [hst] at h
          exact ⟨List.mem_cons_of_mem _ (ih h).1, (ih h).2⟩
        | some k' =>
          simp only [hst] at h
          by_cases hk' : k' ∈ keys
          · simp only [hk', if_true, List.mem_cons] at h
            rcases h with h | h
            · subst h; exact ⟨List.mem_cons_self .., s, rfl, Or.inr ⟨k', hst, hk'⟩⟩
            · exact ⟨List.mem_cons_of_mem _ (ih h).1, (ih h).2⟩
          · simp only [hk', if_false] at h
            exact ⟨List.mem_cons_of_mem _ (ih h).1, (ih h).2⟩
    | pat a => simp only [prepass] at h; exact ⟨List.mem_cons_of_mem _ (ih h).1, (ih h).2⟩
    | int i => simp only [prepass] at h; exact ⟨List.mem_cons_of_mem _ (ih h).1, (ih h).2⟩
    | num dt sc vs => simp only [prepass] at h; exact ⟨List.mem_cons_of_mem _ (ih h).1, (ih h).2⟩

theorem keyMatch_of_consumed {cs : List Construct} {q : Q} (h : Consumed (cs.map (·.key)) q) :
    ∃ y ∈ cs, KeyMatch y q := by
  obtain ⟨s, hs, h | ⟨k, hk, hkk⟩⟩ := h
  · obtain ⟨y, hy, hyk⟩ := List.mem_map.mp h
    exact ⟨y, hy, Or.inl (by rw [hs]; exact congrArg Q.str hyk.symm)⟩
  · obtain ⟨y, hy, hyk⟩ := List.mem_map.mp hkk
    have hyk : y.key = k := hyk
    exact ⟨y, hy, Or.inr ⟨s, hs, by rw [hk, hyk]⟩⟩

/-- Every recorded hit is a given value that matches the key or a reported identity of a member. -/
theorem hit_matches {cs : List Construct} {qs : List Q} {q : Q}
    (h : q ∈ (identityCore Construct.idsFor cs qs).hits) : q ∈ qs ∧ ∃ y ∈ cs, MatchesIdentity y [q] := by
  simp only [identityCore] at h
  have hpre : q ∈ (prepass (cs.map (·.key)) qs).2.1 → q ∈ qs ∧ ∃ y ∈ cs, MatchesIdentity y [q] := by
    intro hp
    obtain ⟨y, hy, hk⟩ := keyMatch_of_consumed (prepass_hits hp).2
    exact ⟨(prepass_hits hp).1, y, hy, Or.inl ⟨q, by simp, hk⟩⟩
  split at h
  · exact hpre h
  · simp only [List.mem_append, List.mem_map] at h
    rcases h with h | ⟨⟨k, q'⟩, hkq, heq⟩
    · exact hpre h
    · simp only at heq
      subst heq
      obtain ⟨g, hg, _, r, v, hv, hf⟩ := mem_interleave.mp hkq
      obtain ⟨c, hc, hgc⟩ := List.mem_map.mp hg
      subst hgc
      refine ⟨(firstHit_some hf).1, c, (mem_constructs.mp hc).1,
        Or.inr ⟨q', by simp, v, idsFor_subset (List.mem_of_getElem? hv), (firstHit_some hf).2⟩⟩

theorem misses_subset {gen : Bool → Construct → List String} {cs : List Construct} {qs : List Q} {q : Q}
    (h : q ∈ (identityReturnMatched gen cs qs).2.2) : q ∈ qs := by
  simp only [identityReturnMatched, List.mem_filter] at h
  exact h.1

/-- A value that matches no member at all is reported as a miss. -/
theorem miss_of_no_match {cs : List Construct} {qs : List Q} {q : Q} (hq : q ∈ qs)
    (hno : ∀ y ∈ cs, ¬ MatchesIdentity y [q]) : q ∈ (identityReturnMatched Construct.idsFor cs qs).2.2 := by
  simp only [identityReturnMatched, List.mem_filter]
  refine ⟨hq, ?_⟩
  cases hc : (identityCore Construct.idsFor cs qs).hits.contains q with
  | false => rfl
  | true =>
    obtain ⟨_, y, hy, hm⟩ := hit_matches (List.contains_iff_mem.mp hc)
    exact absurd hm (hno y hy)

theorem irm_cases (gen : Bool → Construct → List String) (cs : List Construct) (qs : List Q) :
    ((identityReturnMatched gen cs qs).2.2 = [] ∧
        (identityReturnMatched gen cs qs).1 =
          some (cs.filter fun c => (identityReturnMatched gen cs qs).2.1.contains c.key)) ∨
      ((identityReturnMatched gen cs qs).2.2 ≠ [] ∧ (identityReturnMatched gen cs qs).1 = none) := by
  simp only [identityReturnMatched]
  cases h : (qs.filter fun q => !(identityCore gen cs qs).hits.contains q) with
  | nil => left; simp
  | cons a l => right; simp

theorem irm_matched (gen : Bool → Construct → List String) (cs : List Construct) (qs : List Q) :
    (identityReturnMatched gen cs qs).2.1 = (identityCore gen cs qs).matched := rfl

theorem monoMatches {c : Construct} {qs qs' : List Q} (hsub : ∀ q ∈ qs, q ∈ qs') (h : MatchesIdentity c qs) :
    MatchesIdentity c qs' := by
  rcases h with ⟨q, hq, hk⟩ | ⟨q, hq, r⟩
  · exact Or.inl ⟨q, hsub q hq, hk⟩
  · exact Or.inr ⟨q, hsub q hq, r⟩

theorem matches_single {c : Construct} {qs : List Q} :
    MatchesIdentity c qs ↔ ∃ q ∈ qs, MatchesIdentity c [q] := by
  constructor
  · rintro (⟨q, hq, hk⟩ | ⟨q, hq, r⟩)
    · exact ⟨q, hq, Or.inl ⟨q, by simp, hk⟩⟩
    · exact ⟨q, hq, Or.inr ⟨q, by simp, r⟩⟩
  · rintro ⟨q, hq, h⟩
    exact monoMatches (by simpa using hq) h

theorem prepass_len (keys : List String) (qs : List Q) :
    (prepass keys qs).1.length = (prepass keys qs).2.1.length := by
  induction qs with
  | nil => rfl
  | cons a rest ih =>
    cases a with
    | str s =>
      simp only [prepass]
      split
      · simp [ih]
      · split
        · split <;> simp [ih]
        · exact ih
    | pat a => exact ih
    | int i => exact ih
    | num dt sc vs => exact ih

/-- With a single value, it is a miss exactly when it matches no member. -/
theorem single_miss_iff {cs : List Construct} {q : Q} (hwf : WF cs) :
    q ∈ (identityReturnMatched Construct.idsFor cs [q]).2.2 ↔ ∀ y ∈ cs, ¬ MatchesIdentity y [q] := by
  constructor
  · intro hmiss y hy hm
    have hk : y.key ∈ (identityCore Construct.idsFor cs [q]).matched := (mem_matched hwf hy).mpr hm
    have hlen : (identityCore Construct.idsFor cs [q]).matched.length =
        (identityCore Construct.idsFor cs [q]).hits.length := by
      simp only [identityCore]
      split
      · exact prepass_len _ _
      · simp [prepass_len]
    have hne : (identityCore Construct.idsFor cs [q]).hits ≠ [] := by
      intro he
      rw [he, List.length_nil] at hlen
      have := List.length_pos_of_mem hk
      omega
    obtain ⟨q', hq'⟩ := List.exists_mem_of_ne_nil _ hne
    have : q' = q := by simpa using (hit_matches hq').1
    subst this
    simp only [identityReturnMatched, List.mem_filter] at hmiss
    have := hmiss.2
    rw [List.contains_iff_mem.mpr hq'] at this
    cases this
  · intro h
    exact miss_of_no_match (by simp) h

/-! ### `domain_axes(*identities, **filter_kwargs)` -/

theorem mem_scopeOf {ctx : Ctx} {t : CType} {fs : List Filter} {x : Construct} (hwf : WF ctx.base) :
    x ∈ scopeOf ctx t fs ↔ x ∈ ctx.base ∧ x.ctype = t ∧ ∀ f ∈ fs, Sat ctx f x := by
  have := mem_chainItems (dict := true) (ctx := ctx) (fs := Filter.type [t] :: fs) (c := x) hwf
  simp only [scopeOf, chainDict] at this ⊢
  rw [show (List.foldl (fun acc f => runFilter true ctx ctx.base f acc) ctx.base (Filter.type [t] :: fs))
      = chainItems true ctx (Filter.type [t] :: fs) ctx.base from rfl, this]
  simp only [List.mem_cons, forall_eq_or_imp, Sat, List.cons_ne_nil, false_or, List.not_mem_nil, or_false]

theorem scopeOf_sublist {ctx : Ctx} {t : CType} {fs : List Filter} : (scopeOf ctx t fs).Sublist ctx.base :=
  chainItems_sublist (dict := true)

theorem mem_convertAxes {ctx : Ctx} {src : List Construct} {b : Bool} {vs : List Q} {a : String} :
    a ∈ convertAxes ctx src b vs ↔ ∃ q ∈ vs, resolveAxis ctx src b q = some a := by
  simp [convertAxes, List.mem_filterMap]

/-- The exact members of `domain_axes`, in terms of the values reported as misses. -/
theorem mem_domainAxes_exact {ctx : Ctx} {ids : List Q} {fs : List Filter} {x : Construct} (hwf : WF ctx.base) :
    x ∈ domainAxes ctx ids fs ↔
      x ∈ scopeOf ctx .domain_axis fs ∧
        (ids = [] ∨ MatchesIdentity x ids ∨
          ∃ q ∈ (identityReturnMatched Construct.idsFor (scopeOf ctx .domain_axis fs) ids).2.2,
            resolveAxis ctx ctx.base false q = some x.key) := by
  have hwfs : WF (scopeOf ctx .domain_axis fs) := WF.of_sublist scopeOf_sublist hwf
  simp only [domainAxes, domainAxesWith, if_true]
  cases ids with
  | nil => simp
  | cons q0 rest =>
    simp only [List.isEmpty_cons, Bool.false_eq_true, if_false, List.cons_ne_nil, false_or]
    rcases irm_cases Construct.idsFor (scopeOf ctx .domain_axis fs) (q0 :: rest) with ⟨hm, ho⟩ | ⟨hm, ho⟩
    · rw [ho, hm]
      simp only [List.mem_filter, List.contains_iff_mem, List.not_mem_nil, false_and]
      constructor
      · rintro ⟨hx, hk⟩; exact ⟨hx, Or.inl ((mem_matched hwfs hx).mp hk)⟩
      · rintro ⟨hx, hk | ⟨_, hf⟩⟩
        · exact ⟨hx, (mem_matched hwfs hx).mpr hk⟩
        · exact absurd hf id
    · rw [ho]
      simp only
      have hkeys : ∀ (K : List String),
          x ∈ (if K.isEmpty = true then [] else byKey (K.map Q.str) (scopeOf ctx .domain_axis fs)) ↔
            x ∈ scopeOf ctx .domain_axis fs ∧ x.key ∈ K := by
        intro K
        cases K with
        | nil => simp
        | cons a l =>
          simp only [List.isEmpty_cons, Bool.false_eq_true, if_false, mem_byKey, List.map_cons,
            List.cons_ne_nil, false_or, List.mem_cons, List.mem_map]
          constructor
          · rintro ⟨hx, q, hq | ⟨k, hk, hq⟩, hmq⟩
            · subst hq; exact ⟨hx, Or.inl (str_matches.mp hmq).symm⟩
            · subst hq; exact ⟨hx, Or.inr ((str_matches.mp hmq) ▸ hk)⟩
          · rintro ⟨hx, h | h⟩
            · exact ⟨hx, .str a, Or.inl rfl, str_matches.mpr h.symm⟩
            · exact ⟨hx, .str x.key, Or.inr ⟨x.key, h, rfl⟩, str_matches.mpr rfl⟩
      rw [hkeys, List.mem_append, mem_convertAxes]
      constructor
      · rintro ⟨hx, hk | hk⟩
        · exact ⟨hx, Or.inl ((mem_matched hwfs hx).mp hk)⟩
        · exact ⟨hx, Or.inr hk⟩
      · rintro ⟨hx, hk | hk⟩
        · exact ⟨hx, Or.inl ((mem_matched hwfs hx).mpr hk)⟩
        · exact ⟨hx, Or.inr hk⟩

/-! ### `domain_axis_key` -/

theorem eraseDups_singleton {l : List String} {k : String} :
    l.eraseDups = [k] ↔ l ≠ [] ∧ ∀ a ∈ l, a = k := by
  constructor
  · intro h
    refine ⟨?_, ?_⟩
    · intro hl; subst hl; simp at h
    · intro a ha
      have : a ∈ l.eraseDups := List.mem_eraseDups.mpr ha
      rw [h] at this; simpa using this
  · rintro ⟨hne, hall⟩
    cases l with
    | nil => exact absurd rfl hne
    | cons a as =>
      have ha : a = k := hall a (List.mem_cons_self ..)
      subst ha
      rw [List.eraseDups_cons]
      have : as.filter (fun b => !b == a) = [] := by
        rw [List.filter_eq_nil_iff]
        intro b hb
        have := hall b (List.mem_cons_of_mem _ hb)
        simp [this]
      rw [this]; rfl

/-! ### `cell_methods(*identities, **filter_kwargs)` -/

/-- `cm_axes = cm.get_axes(None); len(cm_axes) == 1 and cm_axes[0] in domain_axes` -/
def spansOne (das : List String) (cm : Construct) : Bool :=
  match cm.cmAxes with
  | some [a] => das.contains a
  | _ => false

theorem spansOne_iff {das : List String} {cm : Construct} :
    spansOne das cm = true ↔ ∃ a, cm.cmAxes = some [a] ∧ a ∈ das := by
  simp only [spansOne]
  split
  · rename_i a h
    simp [h]
  · rename_i h
    simp only [Bool.false_eq_true, false_iff, not_exists, not_and]
    intro a ha
    exact absurd ha (h a)

/-- The exact members of `cell_methods` (patched), in terms of the values reported as misses. -/
theorem mem_cellMethods_exact {ctx : Ctx} {ids : List Q} {fs : List Filter} {x : Construct} (hwf : WF ctx.base) :
    x ∈ cellMethods ctx ids fs ↔
      x ∈ scopeOf ctx .cell_method fs ∧
        (ids = [] ∨ MatchesIdentity x ids ∨
          ((identityReturnMatched Construct.idsFor (scopeOf ctx .cell_method fs) ids).2.2 ≠ [] ∧
            ∃ a, x.cmAxes = some [a] ∧
              ∃ d ∈ domainAxes ctx (identityReturnMatched Construct.idsFor (scopeOf ctx .cell_method fs) ids).2.2 [],
                d.key = a)) := by
  have hwfs : WF (scopeOf ctx .cell_method fs) := WF.of_sublist scopeOf_sublist hwf
  simp only [cellMethods, cellMethodsWith, if_true]
  cases ids with
  | nil => simp
  | cons q0 rest =>
    simp only [List.isEmpty_cons, Bool.false_eq_true, if_false, List.cons_ne_nil, false_or]
    rcases irm_cases Construct.idsFor (scopeOf ctx .cell_method fs) (q0 :: rest) with ⟨hm, ho⟩ | ⟨hm, ho⟩
    · rw [ho]
      simp only [hm, ne_eq, not_true_eq_false, false_and, or_false, List.mem_filter, List.contains_iff_mem]
      constructor
      · rintro ⟨hx, hk⟩; exact ⟨hx, (mem_matched hwfs hx).mp hk⟩
      · rintro ⟨hx, hk⟩; exact ⟨hx, (mem_matched hwfs hx).mpr hk⟩
    · rw [ho]
      simp only
      have hkeys : ∀ (K : List String),
          x ∈ (if K.isEmpty = true then [] else byKey (K.map Q.str) (scopeOf ctx .cell_method fs)) ↔
            x ∈ scopeOf ctx .cell_method fs ∧ x.key ∈ K := by
        intro K
        cases K with
        | nil => simp
        | cons a l =>
          simp only [List.isEmpty_cons, Bool.false_eq_true, if_false, mem_byKey, List.map_cons,
            List.cons_ne_nil, false_or, List.mem_cons, List.mem_map]
          constructor
          · rintro ⟨hx, q, hq | ⟨k, hk, hq⟩, hmq⟩
            · subst hq; exact ⟨hx, Or.inl (str_matches.mp hmq).symm⟩
            · subst hq; exact ⟨hx, Or.inr ((str_matches.mp hmq) ▸ hk)⟩
          · rintro ⟨hx, h | h⟩
            · exact ⟨hx, .str a, Or.inl rfl, str_matches.mpr h.symm⟩
            · exact ⟨hx, .str x.key, Or.inr ⟨x.key, h, rfl⟩, str_matches.mpr rfl⟩
      rw [hkeys, List.mem_append]
      have hextra : ∀ (das : List String), x ∈ scopeOf ctx .cell_method fs →
          (x.key ∈ ((byTypeDict [.cell_method] ctx.base).filter fun cm =>
              match cm.cmAxes with
              | some [a] => das.contains a
              | _ => false).map (·.key) ↔ ∃ a, x.cmAxes = some [a] ∧ a ∈ das) := by
        intro das hx
        have hxb := (mem_scopeOf hwf).mp hx
        rw [← spansOne_iff]
        simp only [List.mem_map, List.mem_filter]
        constructor
        · rintro ⟨cm, ⟨hcm, hp⟩, hk⟩
          have : cm = x := eq_of_key_eq hwf.keysNodup (mem_byTypeDict.mp hcm).1 hxb.1 hk
          subst this
          exact hp
        · intro hp
          exact ⟨x, ⟨mem_byTypeDict.mpr ⟨hxb.1, Or.inr (by simp [hxb.2.1])⟩, hp⟩, rfl⟩
      constructor
      · rintro ⟨hx, hk | hk⟩
        · exact ⟨hx, Or.inl ((mem_matched hwfs hx).mp hk)⟩
        · obtain ⟨a, ha, hd⟩ := (hextra _ hx).mp hk
          obtain ⟨d, hd, hdk⟩ := List.mem_map.mp hd
          exact ⟨hx, Or.inr ⟨hm, a, ha, d, hd, hdk⟩⟩
      · rintro ⟨hx, hk | ⟨_, a, ha, d, hd, hdk⟩⟩
        · exact ⟨hx, Or.inl ((mem_matched hwfs hx).mpr hk)⟩
        · exact ⟨hx, Or.inr ((hextra _ hx).mpr ⟨a, ha, List.mem_map.mpr ⟨d, hd, hdk⟩⟩)⟩

end Cfdm.Select
