import Cfdm.Lemmas.SettingsOld
/-
Helper lemmas for the theorems about the decorator after fixes/C20-verbose-scope.patch
(`decoMid`): a simulation between `decoMid` and `decoNew` on `guardedMid` trees.  Core Lean only.
-/
namespace Cfdm.Settings

/-! ### `decoMid` against `decoOld` (outermost call) and against `decoNew` (nested call) -/

theorem mid_enter_error {v : Verbose} {e : Exc} (h : v.resolve = .error e) (s : State) :
    decoMid.enter v s = (.error e, s) := by
  simp [decoMid, h]

theorem new_enter_error {v : Verbose} {e : Exc} (h : v.resolve = .error e) (s : State) :
    decoNew.enter v s = (.error e, s) := by
  simp [decoNew, h]

/-- On a valid `verbose` the patched `enter` does what the old one does. -/
theorem mid_enter_valid {v : Verbose} {lv : Option Level} (h : v.resolve = .ok lv) (s : State) :
    decoMid.enter v s = decoOld.enter v s := by
  cases lv with
  | none => rw [old_enter_none h]; simp [decoMid, h]
  | some l =>
    rw [old_enter_some h]
    simp only [decoMid, h]
    congr 1
    by_cases hl : l = .DISABLE
    · simp [hl]
    · simp only [hl, ne_eq, not_false_eq_true, and_true]
      split
      · simp [resetEmergence, hl]
      · rfl

/-- The outermost `finally` is unchanged by the patch. -/
theorem mid_exit_top (fr : Frame) (t : State) (h : t.calls = 1) : decoMid.exit fr t = decoOld.exit fr t := by
  simp [decoMid, decoOld, h]

/-- A nested `finally` of the patched decorator is the `finally` of `decoNew` (counter apart). -/
theorem mid_exit_nested (fr : Frame) (t : State) (h : 2 ≤ t.calls) :
    decoMid.exit fr t = decoNew.exit fr { t with calls := t.calls - 1 } := by
  have : ¬ (t.calls - 1 = 0) := by omega
  rcases fr with ⟨vb, r, d, lv⟩
  cases vb <;> simp [decoMid, decoNew, this]

theorem rel_reset {a b : State} (h : Rel a b) (l : Level) : Rel (resetEmergence l a) (resetEmergence l b) := by
  have hf := rel_fields h
  refine ⟨?_, ?_⟩
  · simp [settings, resetEmergence_atol, resetEmergence_rtol, resetEmergence_level, hf.1, hf.2.1, hf.2.2.1]
  · rw [obsLog_resetEmergence, obsLog_resetEmergence, hf.2.2.1]

theorem rel_calls {a b : State} (h : Rel a b) (n : Nat) : Rel { a with calls := n } b := by
  have hf := rel_fields h
  exact rel_of_fields hf.1 hf.2.1 hf.2.2.1 hf.2.2.2.1 hf.2.2.2.2

theorem inv_nested_weaken {g : Level} {lt : Option Level} {s : State} (h : Inv g (some lt) s) :
    Inv g (some none) s := ⟨h.1, h.2.1, trivial⟩

theorem post_nested_any {lt lt' : Option Level} {a b : State} (h : Post (some lt) a b) : Post (some lt') a b := h

/-- One decorated call, patched against new, around bodies that are themselves in simulation. -/
theorem midSim (g : Level) (top : Bool) (v : Verbose)
    (bo bn : State → State × Outcome) (so sn : State)
    (hv : midOK g top v = true) (hi : Inv g (ctxOf top) so) (hr : Rel so sn)
    (hb : ∀ to tn, Inv g (some none) to → Rel to tn →
        (bo to).2 = (bn tn).2 ∧ Rel (bo to).1 (bn tn).1 ∧ Post (some none) to (bo to).1) :
    (decorated decoMid v bo so).2 = (decorated decoNew v bn sn).2
    ∧ Rel (decorated decoMid v bo so).1 (decorated decoNew v bn sn).1
    ∧ Post (ctxOf top) so (decorated decoMid v bo so).1
    ∧ ((∃ e, decoMid.enter v so = (.error e, so) ∧ decoNew.enter v sn = (.error e, sn))
       ∨ (∃ fro so1 frn sn1, decoMid.enter v so = (.ok fro, so1) ∧ decoNew.enter v sn = (.ok frn, sn1)
            ∧ Inv g (some none) so1 ∧ Rel so1 sn1)) := by
  cases hres : v.resolve with
  | error e =>
    have h1 := mid_enter_error hres so
    have h2 := new_enter_error hres sn
    simp only [decorated, h1, h2]
    exact ⟨trivial, hr, post_refl hi, Or.inl ⟨e, rfl, rfl⟩⟩
  | ok lv =>
  cases top with
  | true =>
    -- an outermost call: the patched decorator does what the old one does
    have hvo : vOK none g v = true := by
      simp only [midOK, zeroUnderDisable, hres, Bool.true_and, Bool.not_eq_true'] at hv
      simp only [vOK, hres, decide_eq_true_eq]
      rintro ⟨hg, hl⟩
      subst hl
      simp [hg] at hv
    have hi' : Inv g none so := hi
    have hb' : ∀ to tn, Inv g (some (innerCtx none v)) to → Rel to tn →
        (bo to).2 = (bn tn).2 ∧ Rel (bo to).1 (bn tn).1 ∧ Post (some (innerCtx none v)) to (bo to).1 :=
      fun to tn h1 h2 => hb to tn (inv_nested_weaken h1) h2
    obtain ⟨fro, so1, frn, sn1, heo, hen, hinv1, hrel1, hout, hrel, hpost⟩ :=
      decSim g none v bo bn so sn hvo hi' hr hb'
    have hem : decoMid.enter v so = (.ok fro, so1) := (mid_enter_valid hres so).trans heo
    -- the body leaves the counter at 1, so the patched `finally` takes the outermost branch
    have hc1 : so1.calls = 1 := by
      obtain ⟨_, _, heo', _, hc, _⟩ := old_enter_fields hres so
      rw [heo] at heo'
      have : so1.calls = so.calls + 1 := by
        have := congrArg Prod.snd heo'
        simp only at this
        rw [this]; exact hc
      have h0 : so.calls = 0 := hi'.2.1
      omega
    have hbc : (bo so1).1.calls = 1 := by
      have := (hb so1 sn1 (inv_nested_weaken hinv1) hrel1).2.2.1
      rw [this, hc1]
    have hdec : decorated decoMid v bo so = decorated decoOld v bo so := by
      simp only [decorated, hem, heo, mid_exit_top fro _ hbc]
    rw [hdec]
    exact ⟨hout, hrel, hpost, Or.inr ⟨fro, so1, frn, sn1, hem, hen, inv_nested_weaken hinv1, hrel1⟩⟩
  | false =>
    -- a nested call: the patched `finally` puts back what it found, as the new one does
    have hi' : Inv g (some none) so := hi
    obtain ⟨hlev, hcalls, _⟩ := hi'
    have hf := rel_fields hr
    obtain ⟨fro, so1, heo, hfv, hc1, ha1, hr1, hl1, hlog1⟩ := old_enter_fields hres so
    have hem : decoMid.enter v so = (.ok fro, so1) := (mid_enter_valid hres so).trans heo
    obtain ⟨frn, hen, hexn⟩ := new_enter_fields hres sn
    -- the frames remember the same logging state (up to `Rel`)
    have hfro : fro = frameOf lv { so with calls := so.calls + 1 } := by
      cases lv with
      | none => have := old_enter_none hres so; rw [heo] at this; exact (congrArg Prod.fst this |> Except.ok.inj)
      | some l => have := old_enter_some hres so; rw [heo] at this; exact (congrArg Prod.fst this |> Except.ok.inj)
    have hso1 : so1 = applyV lv { so with calls := so.calls + 1 } := by
      cases lv with
      | none => have := old_enter_none hres so; rw [heo] at this; exact congrArg Prod.snd this
      | some l => have := old_enter_some hres so; rw [heo] at this; exact congrArg Prod.snd this
    have hrel1 : Rel so1 (applyV lv sn) := by
      rw [hso1]
      cases lv with
      | none => exact rel_calls hr _
      | some l => exact rel_reset (rel_calls hr _) l
    have hinv1 : Inv g (some none) so1 := ⟨hl1.trans hlev, by omega, trivial⟩
    obtain ⟨hout, hrelb, hpc, hpl, hpr, hpd⟩ := hb so1 _ hinv1 hrel1
    rcases hbo : bo so1 with ⟨tb, ob⟩
    rcases hbn : bn (applyV lv sn) with ⟨tn, on⟩
    rw [hbo] at hout hrelb hpc hpl hpr hpd
    rw [hbn] at hout hrelb
    simp only at hout hrelb hpc hpl hpr hpd
    have hbf := rel_fields hrelb
    have htnl : tn.level = sn.level := by rw [← hbf.2.2.1, hpl, hl1, hf.2.2.1]
    have h2 : 2 ≤ tb.calls := by omega
    have hsr : so1.root = (applyV lv { so with calls := so.calls + 1 }).root := by rw [hso1]
    refine ⟨?_, ?_, ?_, Or.inr ⟨fro, so1, frn, _, hem, hen, hinv1, hrel1⟩⟩
    · simp only [decorated, hem, hen, hbo, hbn]; exact hout
    · simp only [decorated, hem, hen, hbo, hbn, hexn tn htnl, mid_exit_nested fro tb h2]
      rw [hfro]
      cases lv with
      | none =>
        simp only [new_exit_none, restoreV]
        exact rel_calls hrelb _
      | some l =>
        have hlv : ({ tb with calls := tb.calls - 1 } : State).level = ({ so with calls := so.calls + 1 } : State).level := by
          simp only; rw [hpl, hl1]
        rw [new_exit_some l _ _ hlv]
        simp only [restoreV]
        exact rel_of_fields hbf.1 hbf.2.1 hbf.2.2.1 hf.2.2.2.1 hf.2.2.2.2
    · simp only [decorated, hem, hbo, mid_exit_nested fro tb h2]
      rw [hfro]
      cases lv with
      | none =>
        simp only [new_exit_none]
        have e1 : so1.root = so.root := by rw [hso1]; rfl
        have e2 : so1.disable = so.disable := by rw [hso1]; rfl
        exact ⟨by simp; omega, hpl.trans hl1, hpr.trans e1, hpd.trans e2⟩
      | some l =>
        have hlv : ({ tb with calls := tb.calls - 1 } : State).level = ({ so with calls := so.calls + 1 } : State).level := by
          simp only; rw [hpl, hl1]
        rw [new_exit_some l _ _ hlv]
        exact ⟨by simp; omega, hpl.trans hl1, rfl, rfl⟩

theorem midOK_none (g : Level) (top : Bool) : midOK g top .none = true := by
  cases top <;> simp [midOK, zeroUnderDisable, Verbose.resolve, Verbose.toInt]

theorem midOK_nested (g : Level) (v : Verbose) : midOK g false v = true := by simp [midOK]

/-! ### The simulation over programs -/

theorem midNewSim (g : Level) (p : Prog) : ∀ (top : Bool) (so sn : State),
    guardedMid g top p = true → Inv g (ctxOf top) so → Rel so sn →
    (runWith decoMid p so).2 = (runWith decoNew p sn).2
    ∧ Rel (runWith decoMid p so).1 (runWith decoNew p sn).1
    ∧ Post (ctxOf top) so (runWith decoMid p so).1
    ∧ traceWith decoMid p so = traceWith decoNew p sn := by
  induction p with
  | skip => intro top so sn _ hi hr; exact ⟨by first | rfl | trivial, hr, post_refl hi, rfl⟩
  | seq p q ihp ihq =>
    intro top so sn hg hi hr
    simp only [guardedMid, Bool.and_eq_true] at hg
    obtain ⟨h1, h2, h3, h4⟩ := ihp top so sn hg.1 hi hr
    cases ho : (runWith decoMid p so).2 with
    | ok =>
      have hn : (runWith decoNew p sn).2 = .ok := by rw [← h1, ho]
      obtain ⟨k1, k2, k3, k4⟩ := ihq top _ _ hg.2 (inv_of_post hi h3) h2
      simp only [runWith, traceWith, ho, hn]
      exact ⟨k1, k2, post_trans h3 k3, by rw [h4, k4]⟩
    | raised e =>
      have hn : (runWith decoNew p sn).2 = .raised e := by rw [← h1, ho]
      simp only [runWith, traceWith, ho, hn]
      exact ⟨by first | rfl | trivial, h2, h3, by rw [h4]⟩
  | set op =>
    intro top so sn hg hi hr
    have hf := rel_fields hr
    cases op with
    | atol a =>
      rcases a with _ | a | _ <;> simp only [runWith, traceWith, access]
      · exact ⟨by first | rfl | trivial, hr, post_refl hi, by rw [hf.1, ev_of_rel _ hr]⟩
      · exact ⟨by first | rfl | trivial, rel_atol hr a, post_atol (post_refl hi) a, by rw [hf.1, ev_of_rel _ (rel_atol hr a)]⟩
      · exact ⟨by first | rfl | trivial, hr, post_refl hi, by rw [ev_of_rel _ hr]⟩
    | rtol a =>
      rcases a with _ | a | _ <;> simp only [runWith, traceWith, access]
      · exact ⟨by first | rfl | trivial, hr, post_refl hi, by rw [hf.2.1, ev_of_rel _ hr]⟩
      · exact ⟨by first | rfl | trivial, rel_rtol hr a, post_rtol (post_refl hi) a, by rw [hf.2.1, ev_of_rel _ (rel_rtol hr a)]⟩
      · exact ⟨by first | rfl | trivial, hr, post_refl hi, by rw [ev_of_rel _ hr]⟩
    | log a =>
      cases a with
      | none =>
        simp only [runWith, traceWith, access]
        exact ⟨by first | rfl | trivial, hr, post_refl hi, by rw [hf.2.2.1, ev_of_rel _ hr]⟩
      | some a => simp [guardedMid, SetOp.touchesLog] at hg
  | cfg c =>
    intro top so sn hg hi hr
    have hf := rel_fields hr
    simp only [guardedMid, decide_eq_true_eq] at hg
    simp only [runWith, traceWith, cfgCall_nolog_eq c _ hg]
    rw [← hf.1, ← hf.2.1]
    have hrel : Rel { so with atol := (cfgTol c so.atol so.rtol).2.1, rtol := (cfgTol c so.atol so.rtol).2.2 }
        { sn with atol := (cfgTol c so.atol so.rtol).2.1, rtol := (cfgTol c so.atol so.rtol).2.2 } :=
      rel_of_fields rfl rfl hf.2.2.1 hf.2.2.2.1 hf.2.2.2.2
    have hpost : Post (ctxOf top) so { so with atol := (cfgTol c so.atol so.rtol).2.1, rtol := (cfgTol c so.atol so.rtol).2.2 } :=
      post_of_same hi rfl rfl rfl rfl
    cases he : (cfgTol c so.atol so.rtol).1 with
    | none =>
      simp only
      refine ⟨by first | rfl | trivial, hrel, hpost, ?_⟩
      rw [ev_of_rel _ hrel]
      simp only [snapshot, hf.1, hf.2.1, hf.2.2.1]
    | some e =>
      simp only
      exact ⟨by first | rfl | trivial, hrel, hpost, by rw [ev_of_rel _ hrel]⟩
  | withSet op body ih =>
    intro top so sn hg hi hr
    have hf := rel_fields hr
    simp only [guardedMid, Bool.and_eq_true, decide_eq_true_eq] at hg
    cases op with
    | atol a =>
      rcases a with _ | a | _ <;> simp only [runWith, traceWith, access, SetOp.key, exitConst_atol]
      · obtain ⟨k1, k2, k3, k4⟩ := ih top so sn hg.2 hi hr
        refine ⟨k1, ?_, post_atol k3 _, ?_⟩
        · rw [hf.1]; exact rel_atol k2 _
        · rw [k4, k1, hf.1, ev_of_rel _ hr, ev_of_rel _ (rel_atol k2 sn.atol)]
      · obtain ⟨k1, k2, k3, k4⟩ := ih top _ _ hg.2 (inv_atol hi a) (rel_atol hr a)
        have k3' : Post (ctxOf top) so (runWith decoMid body { so with atol := a }).1 :=
          post_trans (post_atol (post_refl hi) a) k3
        refine ⟨k1, ?_, post_atol k3' _, ?_⟩
        · rw [hf.1]; exact rel_atol k2 _
        · rw [k4, k1, hf.1, ev_of_rel _ (rel_atol hr a), ev_of_rel _ (rel_atol k2 sn.atol)]
      · exact ⟨by first | rfl | trivial, hr, post_refl hi, by rw [ev_of_rel _ hr]⟩
    | rtol a =>
      rcases a with _ | a | _ <;> simp only [runWith, traceWith, access, SetOp.key, exitConst_rtol]
      · obtain ⟨k1, k2, k3, k4⟩ := ih top so sn hg.2 hi hr
        refine ⟨k1, ?_, post_rtol k3 _, ?_⟩
        · rw [hf.2.1]; exact rel_rtol k2 _
        · rw [k4, k1, hf.2.1, ev_of_rel _ hr, ev_of_rel _ (rel_rtol k2 sn.rtol)]
      · obtain ⟨k1, k2, k3, k4⟩ := ih top _ _ hg.2 (inv_rtol hi a) (rel_rtol hr a)
        have k3' : Post (ctxOf top) so (runWith decoMid body { so with rtol := a }).1 :=
          post_trans (post_rtol (post_refl hi) a) k3
        refine ⟨k1, ?_, post_rtol k3' _, ?_⟩
        · rw [hf.2.1]; exact rel_rtol k2 _
        · rw [k4, k1, hf.2.1, ev_of_rel _ (rel_rtol hr a), ev_of_rel _ (rel_rtol k2 sn.rtol)]
      · exact ⟨by first | rfl | trivial, hr, post_refl hi, by rw [ev_of_rel _ hr]⟩
    | log a => simp [SetOp.key] at hg
  | withCfg c body ih =>
    intro top so sn hg; simp [guardedMid] at hg
  | call v body ih =>
    intro top so sn hg hi hr
    simp only [guardedMid, Bool.and_eq_true] at hg
    have hb : ∀ to tn, Inv g (some none) to → Rel to tn →
        (runWith decoMid body to).2 = (runWith decoNew body tn).2
        ∧ Rel (runWith decoMid body to).1 (runWith decoNew body tn).1
        ∧ Post (some none) to (runWith decoMid body to).1 := by
      intro to tn h1 h2
      obtain ⟨k1, k2, k3, _⟩ := ih false to tn hg.2 h1 h2
      exact ⟨k1, k2, k3⟩
    obtain ⟨hout, hrel, hpost, hent⟩ := midSim g top v _ _ so sn hg.1 hi hr hb
    simp only [runWith]
    refine ⟨hout, hrel, hpost, ?_⟩
    rcases hent with ⟨e, hem, hen⟩ | ⟨fro, so1, frn, sn1, hem, hen, hinv1, hrel1⟩
    · simp only [traceWith, hem, hen]
      rw [ev_of_rel _ hr]
    · obtain ⟨k1, _, _, k4⟩ := ih false so1 sn1 hg.2 hinv1 hrel1
      simp only [decorated, hem, hen] at hrel
      simp only [traceWith, hem, hen]
      rw [ev_of_rel _ hrel1, k4, k1, ev_of_rel _ hrel]
  | real v raises inner =>
    intro top so sn hg hi hr
    simp only [guardedMid] at hg
    have hb : ∀ to tn, Inv g (some none) to → Rel to tn →
        ((decorated decoMid inner (fun s2 => (s2, Outcome.ok)) to).1,
            if raises then Outcome.raised Exc.TypeError else Outcome.ok).2
          = ((decorated decoNew inner (fun s2 => (s2, Outcome.ok)) tn).1,
            if raises then Outcome.raised Exc.TypeError else Outcome.ok).2
        ∧ Rel ((decorated decoMid inner (fun s2 => (s2, Outcome.ok)) to).1,
            if raises then Outcome.raised Exc.TypeError else Outcome.ok).1
            ((decorated decoNew inner (fun s2 => (s2, Outcome.ok)) tn).1,
            if raises then Outcome.raised Exc.TypeError else Outcome.ok).1
        ∧ Post (some none) to ((decorated decoMid inner (fun s2 => (s2, Outcome.ok)) to).1,
            if raises then Outcome.raised Exc.TypeError else Outcome.ok).1 := by
      intro to tn h1 h2
      obtain ⟨_, hrel', hpost', _⟩ :=
        midSim g false inner (fun s2 => (s2, Outcome.ok)) (fun s2 => (s2, Outcome.ok)) to tn
          (midOK_nested g inner) h1 h2 (fun a b ha hab => ⟨by first | rfl | trivial, hab, post_refl ha⟩)
      exact ⟨by first | rfl | trivial, hrel', hpost'⟩
    obtain ⟨hout, hrel, hpost, _⟩ := midSim g top v _ _ so sn hg hi hr hb
    simp only [runWith, traceWith]
    exact ⟨hout, hrel, hpost, by rw [hout, ev_of_rel _ hrel]⟩
  | try_ body ih =>
    intro top so sn hg hi hr
    obtain ⟨k1, k2, k3, k4⟩ := ih top so sn hg hi hr
    simp only [runWith, traceWith]
    exact ⟨by first | rfl | trivial, k2, k3, by rw [k4, k1, ev_of_rel _ k2]⟩
  | raise e => intro top so sn _ hi hr; exact ⟨by first | rfl | trivial, hr, post_refl hi, rfl⟩
  | verdict r a m =>
    intro top so sn _ hi hr
    simp only [runWith, traceWith]
    exact ⟨by first | rfl | trivial, hr, post_refl hi, by rw [eqResult_of_rel hr, ev_of_rel _ hr]⟩
  | eq r a m =>
    intro top so sn _ hi hr
    obtain ⟨hout, hrel, hpost, _⟩ :=
      midSim g top .none (fun s1 => (s1, Outcome.ok)) (fun s1 => (s1, Outcome.ok)) so sn (midOK_none g top) hi hr
        (fun a b ha hab => ⟨by first | rfl | trivial, hab, post_refl ha⟩)
    simp only [runWith, traceWith]
    exact ⟨hout, hrel, hpost, by rw [eqResult_of_rel hr, ev_of_rel _ hrel]⟩

end Cfdm.Settings
