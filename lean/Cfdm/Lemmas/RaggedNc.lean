import Cfdm.Model.RaggedNc
import Cfdm.Lemmas.RaggedND
/-
Helper lemmas for the C06 netCDF encoding model.
-/
namespace Cfdm.RaggedNc
open Cfdm.Ragged Cfdm.Arr

variable {α : Type}
set_option linter.unusedSimpArgs false

theorem find?_reverse_append_right {β} (p : β → Bool) (l1 l2 : List β) (h : ∀ v ∈ l2, p v = false) :
    (l1 ++ l2).reverse.find? p = l1.reverse.find? p := by
  rw [List.reverse_append, List.find?_append]
  have : l2.reverse.find? p = none := by
    rw [List.find?_eq_none]; intro x hx; simp [h x (by simpa using hx)]
  simp [this]

/-! ### the variables of the constructs -/

theorem sequenceOpt_map {β γ} (f : β → Option γ) : ∀ (l : List β) (vs : List γ),
    sequenceOpt (l.map f) = some vs → vs.length = l.length ∧ ∀ i (h : i < l.length) (h' : i < vs.length),
      f l[i] = some vs[i] := by
  intro l
  induction l with
  | nil => intro vs h; simp [sequenceOpt] at h; subst h; simp
  | cons c cs ih =>
    intro vs h
    simp only [List.map_cons] at h
    cases hc : f c with
    | none => rw [hc] at h; simp [sequenceOpt] at h
    | some v =>
      rw [hc] at h
      simp only [sequenceOpt] at h
      cases hr : sequenceOpt (cs.map f) with
      | none => rw [hr] at h; simp at h
      | some rest =>
        rw [hr] at h
        have : vs = v :: rest := by simpa using h.symm
        subst this
        obtain ⟨i1, i2⟩ := ih rest hr
        refine ⟨by simp [i1], ?_⟩
        intro i hi hi'
        cases i with
        | zero => simpa using hc
        | succ i => simpa using i2 i (by simpa using hi) (by simpa using hi')

theorem constructVar_some (f : RaggedField α) (c : Construct α) (v : NcVar α) (h : constructVar f c = some v) :
    v.name = c.name ∧ v.sampleDimension = none ∧ v.instanceDimension = none ∧ v.compress = none
    ∧ v.payload = .samples c.samples ∧ constructDims f c = some v.dims := by
  simp only [constructVar, Option.map_eq_some_iff] at h
  obtain ⟨d, hd, rfl⟩ := h
  simp [hd]

/-- What the construct variables of a written field look like. -/
theorem cvars_props (f : RaggedField α) (cvars : List (NcVar α))
    (h : sequenceOpt (f.constructs.map (constructVar f)) = some cvars) :
    cvars.map (·.name) = f.constructs.map (·.name)
    ∧ (∀ v ∈ cvars, v.sampleDimension = none ∧ v.instanceDimension = none ∧ v.compress = none)
    ∧ ∀ c ∈ f.constructs, ∃ v ∈ cvars, constructVar f c = some v := by
  obtain ⟨hl, hi⟩ := sequenceOpt_map (constructVar f) f.constructs cvars h
  refine ⟨?_, ?_, ?_⟩
  · apply List.ext_getElem
    · simp [hl]
    · intro i h1 h2
      simp only [List.getElem_map]
      exact (constructVar_some f _ _ (hi i (by simpa using h2) (by simpa using h1))).1
  · intro v hv
    obtain ⟨i, hi', rfl⟩ := List.getElem_of_mem hv
    have := constructVar_some f _ _ (hi i (by omega) hi')
    exact ⟨this.2.1, this.2.2.1, this.2.2.2.1⟩
  · intro c hc
    obtain ⟨i, hi', rfl⟩ := List.getElem_of_mem hc
    exact ⟨cvars[i]'(by omega), List.getElem_mem _, hi i hi' (by omega)⟩

/-- Looking a variable up by name in a list whose names are distinct. -/
theorem find?_name (vars : List (NcVar α)) (hnd : (vars.map (·.name)).Nodup) (v : NcVar α) (hv : v ∈ vars) :
    vars.find? (fun w => w.name == v.name) = some v := by
  induction vars with
  | nil => simp at hv
  | cons w ws ih =>
    simp only [List.map_cons, List.nodup_cons] at hnd
    rcases List.mem_cons.mp hv with rfl | hv
    · simp
    · have hne : w.name ≠ v.name := fun e => hnd.1 (e ▸ List.mem_map_of_mem hv)
      have : (w.name == v.name) = false := by simp [hne]
      simp [this, ih hnd.2 hv]

end Cfdm.RaggedNc

namespace Cfdm.RaggedNc
open Cfdm.Ragged Cfdm.Arr
variable {α : Type}
set_option linter.unusedSimpArgs false

/-- Attribute-driven searches skip the construct variables (they carry none of the attributes). -/
theorem lastVar_skip (ft : Bool) (dims : List (String × Nat)) (vs cvars : List (NcVar α)) (p : NcVar α → Bool)
    (h : ∀ v ∈ cvars, p v = false) :
    lastVar { featureType := ft, dims := dims, vars := vs ++ cvars } p = vs.reverse.find? p := by
  simp only [lastVar]
  exact find?_reverse_append_right p vs cvars h

theorem lastVar_skip1 (ft : Bool) (dims : List (String × Nat)) (v1 : NcVar α) (cvars : List (NcVar α))
    (p : NcVar α → Bool) (h : ∀ v ∈ cvars, p v = false) :
    lastVar { featureType := ft, dims := dims, vars := v1 :: cvars } p = if p v1 then some v1 else none := by
  have := lastVar_skip ft dims [v1] cvars p h
  simp only [List.singleton_append] at this
  rw [this]; simp [List.find?_cons]
  cases p v1 <;> rfl

theorem lastVar_skip2 (ft : Bool) (dims : List (String × Nat)) (v1 v2 : NcVar α) (cvars : List (NcVar α))
    (p : NcVar α → Bool) (h : ∀ v ∈ cvars, p v = false) :
    lastVar { featureType := ft, dims := dims, vars := v1 :: v2 :: cvars } p
      = if p v2 then some v2 else if p v1 then some v1 else none := by
  have := lastVar_skip ft dims [v1, v2] cvars p h
  simp only [List.cons_append, List.nil_append] at this
  rw [this]; simp [List.find?_cons]
  cases p v2 <;> cases p v1 <;> rfl

theorem attr_free_list (d : String) (v : NcVar α) (h : v.compress = none) : isListVarFor d v = false := by
  simp [isListVarFor, h]
theorem attr_free_count (d : String) (v : NcVar α) (h : v.sampleDimension = none) : isCountVarFor d v = false := by
  simp [isCountVarFor, h]
theorem attr_free_index (d : String) (v : NcVar α) (h : v.instanceDimension = none) : isIndexVarOn d v = false := by
  simp [isIndexVarOn, h]

/-- The compression table the reader builds from a written field, dimension by dimension. -/
theorem compressionOf_encoded (f : RaggedField α) (ds : NcDs α) (hwf : f.WF) (henc : encodeRagged f = some ds) :
    dimSize ds f.instDim = f.ninst
    ∧ compressionOf ds f.instDim = none
    ∧ compressionOf ds f.sampleDim =
        (match f.kind with
         | .contiguous => some (.contiguous f.count)
         | .indexed => some (.indexed f.index f.instDim)
         | .indexedContiguous => some (.indexedContiguous f.count f.index f.instDim))
    ∧ (f.kind = .indexedContiguous → compressionOf ds f.profileDim = some (.indexed f.index f.instDim)) := by
  obtain ⟨hft, _, h1, h2, h3, _⟩ := hwf
  simp only [encodeRagged] at henc
  cases hseq : sequenceOpt (f.constructs.map (constructVar f)) with
  | none => rw [hseq] at henc; simp at henc
  | some cvars =>
    rw [hseq] at henc
    obtain ⟨_, hattr, _⟩ := cvars_props f cvars hseq
    have hL : ∀ d, ∀ v ∈ cvars, isListVarFor d v = false := fun d v hv => attr_free_list d v (hattr v hv).2.2
    have hC : ∀ d, ∀ v ∈ cvars, isCountVarFor d v = false := fun d v hv => attr_free_count d v (hattr v hv).1
    have hI : ∀ d, ∀ v ∈ cvars, isIndexVarOn d v = false := fun d v hv => attr_free_index d v (hattr v hv).2.1
    have e1 : (f.sampleDim == f.instDim) = false := by simp [Ne.symm h1]
    have e2 : (f.sampleDim == f.profileDim) = false := by simp [Ne.symm h2]
    have e3 : (f.profileDim == f.instDim) = false := by simp [h3]
    have e4 : (f.profileDim == f.sampleDim) = false := by simp [h2]
    have e5 : (f.instDim == f.sampleDim) = false := by simp [h1]
    cases hk : f.kind with
    | contiguous =>
      simp only [compressionVars, hk] at henc
      have hds := (Option.some.inj henc).symm
      subst hds
      refine ⟨by simp [dimSize, List.lookup], ?_, ?_, by intro h; cases h⟩
      · simp [compressionOf, lastVar_skip1 _ _ _ _ _ (hL _), lastVar_skip1 _ _ _ _ _ (hC _),
          lastVar_skip1 _ _ _ _ _ (hI _), lastVar_skip2 _ _ _ _ _ _ (hL _), lastVar_skip2 _ _ _ _ _ _ (hC _),
          lastVar_skip2 _ _ _ _ _ _ (hI _), isListVarFor, isCountVarFor, isIndexVarOn, hft, e1]
      · simp [compressionOf, lastVar_skip1 _ _ _ _ _ (hL _), lastVar_skip1 _ _ _ _ _ (hC _),
          lastVar_skip1 _ _ _ _ _ (hI _), lastVar_skip2 _ _ _ _ _ _ (hL _), lastVar_skip2 _ _ _ _ _ _ (hC _),
          lastVar_skip2 _ _ _ _ _ _ (hI _), isListVarFor, isCountVarFor, isIndexVarOn, hft, NcVar.ints]
    | indexed =>
      simp only [compressionVars, hk] at henc
      have hds := (Option.some.inj henc).symm
      subst hds
      refine ⟨by simp [dimSize, List.lookup], ?_, ?_, by intro h; cases h⟩
      · simp [compressionOf, lastVar_skip1 _ _ _ _ _ (hL _), lastVar_skip1 _ _ _ _ _ (hC _),
          lastVar_skip1 _ _ _ _ _ (hI _), lastVar_skip2 _ _ _ _ _ _ (hL _), lastVar_skip2 _ _ _ _ _ _ (hC _),
          lastVar_skip2 _ _ _ _ _ _ (hI _), isListVarFor, isCountVarFor, isIndexVarOn, hft, e1]
      · simp [compressionOf, lastVar_skip1 _ _ _ _ _ (hL _), lastVar_skip1 _ _ _ _ _ (hC _),
          lastVar_skip1 _ _ _ _ _ (hI _), lastVar_skip2 _ _ _ _ _ _ (hL _), lastVar_skip2 _ _ _ _ _ _ (hC _),
          lastVar_skip2 _ _ _ _ _ _ (hI _), isListVarFor, isCountVarFor, isIndexVarOn, hft, NcVar.ints]
    | indexedContiguous =>
      simp only [compressionVars, hk] at henc
      have hds := (Option.some.inj henc).symm
      subst hds
      refine ⟨by simp [dimSize, List.lookup], ?_, ?_, ?_⟩
      · simp [compressionOf, lastVar_skip1 _ _ _ _ _ (hL _), lastVar_skip1 _ _ _ _ _ (hC _),
          lastVar_skip1 _ _ _ _ _ (hI _), lastVar_skip2 _ _ _ _ _ _ (hL _), lastVar_skip2 _ _ _ _ _ _ (hC _),
          lastVar_skip2 _ _ _ _ _ _ (hI _), isListVarFor, isCountVarFor, isIndexVarOn, hft, e1, e3]
      · simp [compressionOf, lastVar_skip1 _ _ _ _ _ (hL _), lastVar_skip1 _ _ _ _ _ (hC _),
          lastVar_skip1 _ _ _ _ _ (hI _), lastVar_skip2 _ _ _ _ _ _ (hL _), lastVar_skip2 _ _ _ _ _ _ (hC _),
          lastVar_skip2 _ _ _ _ _ _ (hI _), isListVarFor, isCountVarFor, isIndexVarOn, hft, NcVar.ints]
      · intro _
        simp [compressionOf, lastVar_skip1 _ _ _ _ _ (hL _), lastVar_skip1 _ _ _ _ _ (hC _),
          lastVar_skip1 _ _ _ _ _ (hI _), lastVar_skip2 _ _ _ _ _ _ (hL _), lastVar_skip2 _ _ _ _ _ _ (hC _),
          lastVar_skip2 _ _ _ _ _ _ (hI _), isListVarFor, isCountVarFor, isIndexVarOn, hft, NcVar.ints, e2]

end Cfdm.RaggedNc

namespace Cfdm.RaggedNc
open Cfdm.Ragged Cfdm.Arr
variable {α : Type}
set_option linter.unusedSimpArgs false

/-- The variables of a written field have distinct names, and every construct's variable is there. -/
theorem encoded_vars (f : RaggedField α) (ds : NcDs α) (hwf : f.WF) (henc : encodeRagged f = some ds) :
    (ds.vars.map (·.name)).Nodup ∧ ∀ c ∈ f.constructs, ∃ v ∈ ds.vars, constructVar f c = some v := by
  obtain ⟨_, hnd, _⟩ := hwf
  simp only [encodeRagged] at henc
  cases hseq : sequenceOpt (f.constructs.map (constructVar f)) with
  | none => rw [hseq] at henc; simp at henc
  | some cvars =>
    rw [hseq] at henc
    obtain ⟨hnames, _, hall⟩ := cvars_props f cvars hseq
    have hds := (Option.some.inj henc).symm
    subst hds
    refine ⟨?_, fun c hc => ?_⟩
    · simp only [List.map_append, hnames]
      cases hk : f.kind <;> simp only [compressionVars, hk, List.map_cons, List.map_nil]
      · exact hnd.sublist (by simp)
      · exact hnd.sublist (List.Sublist.cons _ (List.Sublist.refl _))
      · exact hnd
    · obtain ⟨v, hv, hcv⟩ := hall c hc
      exact ⟨v, List.mem_append_right _ hv, hcv⟩

theorem readVar_encoded (f : RaggedField α) (ds : NcDs α) (hwf : f.WF) (henc : encodeRagged f = some ds)
    (c : Construct α) (hc : c ∈ f.constructs) :
    (c.span = .instance → readVar ds c.name = some (plain1 c.samples))
    ∧ (c.span = .data → readVar ds c.name = some (match f.kind with
        | .contiguous => rowsToArr f.count.length (maxL f.count) (readContiguous f.count c.samples)
        | .indexed => rowsToArr f.ninst (maxOcc f.index) (readIndexed f.ninst f.index c.samples)
        | .indexedContiguous => rowsToArr3 f.ninst (maxOcc f.index) (maxL f.count)
            (readIndexedContiguous f.ninst f.count f.index c.samples)))
    ∧ (c.span = .profile →
        readVar ds c.name = some (rowsToArr f.ninst (maxOcc f.index) (readIndexed f.ninst f.index c.samples))) := by
  obtain ⟨hnd, hall⟩ := encoded_vars f ds hwf henc
  obtain ⟨v, hv, hcv⟩ := hall c hc
  obtain ⟨hname, _, _, _, hpay, hdims⟩ := constructVar_some f c v hcv
  obtain ⟨hsz, hinst, hsamp, hprof⟩ := compressionOf_encoded f ds hwf henc
  have hfind : ds.vars.find? (fun w => w.name == c.name) = some v := by
    rw [← hname]; exact find?_name ds.vars hnd v hv
  refine ⟨?_, ?_, ?_⟩
  · intro hs
    have hd : v.dims = [f.instDim] := by
      cases hcomp : c.compressed <;> simp [constructDims, hs, hcomp] at hdims
      exact hdims.symm
    simp [readVar, hfind, hpay, hd, hinst]
  · intro hs
    have hd : v.dims = [f.sampleDim] := by
      cases hcomp : c.compressed <;> simp [constructDims, hs, hcomp] at hdims
      exact hdims.symm
    cases hk : f.kind <;> simp [readVar, hfind, hpay, hd, hsamp, hk, hsz]
  · intro hs
    have hk : f.kind = .indexedContiguous := by
      cases hcomp : c.compressed <;> simp [constructDims, hs, hcomp] at hdims
      exact hdims.1
    have hd : v.dims = [f.profileDim] := by
      cases hcomp : c.compressed <;> simp [constructDims, hs, hcomp] at hdims
      exact hdims.2.symm
    simp [readVar, hfind, hpay, hd, hprof hk, hsz]

end Cfdm.RaggedNc

namespace Cfdm.RaggedNc
open Cfdm.Ragged Cfdm.Arr
variable {α : Type}
set_option linter.unusedSimpArgs false

/-! ### gathered fields -/

theorem lookup_of_mem (l : List (String × Nat)) (hnd : (l.map Prod.fst).Nodup) (k : String) (n : Nat)
    (h : (k, n) ∈ l) : l.lookup k = some n := by
  induction l with
  | nil => simp at h
  | cons x xs ih =>
    obtain ⟨a, b⟩ := x
    simp only [List.map_cons, List.nodup_cons] at hnd
    rcases List.mem_cons.mp h with h | h
    · have : k = a ∧ n = b := by simpa using h
      simp [List.lookup, this.1, this.2]
    · have hne : k ≠ a := fun e => hnd.1 (e ▸ List.mem_map_of_mem (f := Prod.fst) h)
      have : (k == a) = false := by simp [hne]
      simp only [List.lookup, this]
      exact ih hnd.2 h

theorem map_dimSize (ds : NcDs α) (hnd : (ds.dims.map Prod.fst).Nodup) (sub : List (String × Nat))
    (h : ∀ x ∈ sub, x ∈ ds.dims) : (sub.map Prod.fst).map (dimSize ds) = sub.map Prod.snd := by
  rw [List.map_map]
  apply List.map_congr_left
  intro x hx
  obtain ⟨k, n⟩ := x
  simp [dimSize, lookup_of_mem ds.dims hnd k n (h _ hx)]

theorem firstGathered_at (ds : NcDs α) (d : String) (l : List Nat) (implied post : List String) :
    ∀ (pre : List String) (i : Nat), (∀ x ∈ pre, compressionOf ds x = none) →
      compressionOf ds d = some (.gathered l implied) →
      firstGathered ds i (pre ++ d :: post) = some (i + pre.length, l, implied) := by
  intro pre
  induction pre with
  | nil => intro i _ hd; simp [firstGathered, hd]
  | cons x xs ih =>
    intro i hpre hd
    simp only [List.cons_append, firstGathered, hpre x (by simp)]
    rw [ih (i + 1) (fun y hy => hpre y (by simp [hy])) hd]
    simp; omega

/-- The compression table of a written gathered field. -/
theorem compressionOf_gathered (g : GatheredField α) :
    compressionOf (encodeGathered g) g.listVar = some (.gathered g.list (g.dims.map Prod.fst))
    ∧ ∀ d, d ≠ g.listVar → compressionOf (encodeGathered g) d = none := by
  let listV : NcVar α :=
    { name := g.listVar, dims := [g.listVar], compress := some (g.dims.map Prod.fst), payload := .ints g.list }
  let rest : List (NcVar α) := g.constructs.map (fun c =>
      { name := c.1, dims := g.lead.map Prod.fst ++ [g.listVar] ++ g.trail.map Prod.fst, payload := .nd c.2 })
  have hskip : ∀ d, ∀ v ∈ rest, isListVarFor d v = false := by
    intro d v hv
    obtain ⟨c, _, rfl⟩ := List.mem_map.mp hv
    simp [isListVarFor]
  have hl : ∀ d, lastVar (encodeGathered g) (isListVarFor d) = if isListVarFor d listV then some listV else none :=
    fun d => lastVar_skip1 false _ listV rest _ (hskip d)
  have hft : (encodeGathered g).featureType = false := rfl
  constructor
  · have : isListVarFor g.listVar listV = true := by simp [isListVarFor, listV]
    simp only [compressionOf, hl, this, if_true]
    simp [listV, NcVar.ints]
  · intro d hd
    have : isListVarFor d listV = false := by simp [isListVarFor, listV, Ne.symm hd]
    simp [compressionOf, hl, this, hft]

theorem readVar_gathered (g : GatheredField α) (hwf : g.WF) (c : String × (List Nat → M α))
    (hc : c ∈ g.constructs) :
    readVar (encodeGathered g) c.1 = some
      { shape := g.lead.map Prod.snd ++ g.dims.map Prod.snd ++ g.trail.map Prod.snd
        get := decodeGatheredND g.lead.length (g.dims.map Prod.snd) g.list c.2 } := by
  obtain ⟨hn1, hn2⟩ := hwf
  obtain ⟨hlist, hother⟩ := compressionOf_gathered g
  -- the variable
  let v : NcVar α := { name := c.1, dims := g.lead.map Prod.fst ++ [g.listVar] ++ g.trail.map Prod.fst, payload := .nd c.2 }
  have hv : v ∈ (encodeGathered g).vars := by
    simp only [encodeGathered, List.mem_cons, List.mem_map]
    exact .inr ⟨c, hc, rfl⟩
  have hnd : ((encodeGathered g).vars.map (·.name)).Nodup := by
    simpa [encodeGathered, List.map_map, Function.comp_def] using hn1
  have hfind : (encodeGathered g).vars.find? (fun w => w.name == c.1) = some v :=
    find?_name _ hnd v hv
  -- the dimensions
  have hdn : ((encodeGathered g).dims.map Prod.fst).Nodup := by
    have : (encodeGathered g).dims.map Prod.fst = (g.lead ++ g.dims ++ g.trail).map Prod.fst ++ [g.listVar] := by
      simp [encodeGathered]
    rw [this]
    simp only [List.nodup_cons] at hn2
    exact List.nodup_append.mpr ⟨hn2.2, by simp, by
      intro a ha b hb; simp only [List.mem_singleton] at hb; subst hb; exact fun e => hn2.1 (e ▸ ha)⟩
  have hlead : ∀ x ∈ g.lead.map Prod.fst, compressionOf (encodeGathered g) x = none := by
    intro x hx
    apply hother
    intro e
    simp only [List.nodup_cons] at hn2
    exact hn2.1 (by rw [← e]; simp only [List.map_append, List.mem_append]; exact .inl (.inl hx))
  have hfg : firstGathered (encodeGathered g) 0 v.dims = some (g.lead.length, g.list, g.dims.map Prod.fst) := by
    have := firstGathered_at (encodeGathered g) g.listVar g.list (g.dims.map Prod.fst) (g.trail.map Prod.fst)
      (g.lead.map Prod.fst) 0 hlead hlist
    simpa [v, List.append_assoc] using this
  have hsz1 := map_dimSize (encodeGathered g) hdn g.lead (by intro x hx; simp [encodeGathered, hx])
  have hsz2 := map_dimSize (encodeGathered g) hdn g.dims (by intro x hx; simp [encodeGathered, hx])
  have hsz3 := map_dimSize (encodeGathered g) hdn g.trail (by intro x hx; simp [encodeGathered, hx])
  have htake : v.dims.take g.lead.length = g.lead.map Prod.fst := by
    simp [v, List.append_assoc, List.take_append_of_le_length]
  have hdrop : v.dims.drop (g.lead.length + 1) = g.trail.map Prod.fst := by
    have : g.lead.length + 1 = (g.lead.map Prod.fst ++ [g.listVar]).length := by simp
    simp only [v]
    rw [this, List.drop_left]
  simp only [readVar, hfind, hfg, htake, hdrop, hsz1, hsz2, hsz3]
  rfl

end Cfdm.RaggedNc
