import Cfdm.Spec.Append
/-
C17 — helper lemmas: invariants of the interpreter `run`, proved by induction on programs.
-/
namespace Cfdm.Append

/-! ## `Extends` is a preorder -/

theorem Extends.refl (E : Ds) : Extends E E :=
  ⟨rfl, ⟨[], by simp⟩, ⟨[], by simp⟩⟩

theorem varNames_append_of {E E' : Ds} {nv : List Var} (h : E'.vars = E.vars ++ nv) :
    E'.varNames = E.varNames ++ nv.map (·.name) := by
  simp [Ds.varNames, h]

theorem dimNames_append_of {E E' : Ds} {nd : List Dim} (h : E'.dims = E.dims ++ nd) :
    E'.dimNames = E.dimNames ++ nd.map (·.name) := by
  simp [Ds.dimNames, h]

theorem Extends.trans {A B C : Ds} (h1 : Extends A B) (h2 : Extends B C) : Extends A C := by
  obtain ⟨g1, ⟨nv1, hv1, hn1⟩, ⟨nd1, hd1, hm1⟩⟩ := h1
  obtain ⟨g2, ⟨nv2, hv2, hn2⟩, ⟨nd2, hd2, hm2⟩⟩ := h2
  refine ⟨g2.trans g1, ⟨nv1 ++ nv2, by rw [hv2, hv1, List.append_assoc], ?_⟩, ⟨nd1 ++ nd2, by rw [hd2, hd1, List.append_assoc], ?_⟩⟩
  · intro v hv
    rcases List.mem_append.mp hv with h | h
    · exact hn1 v h
    · intro hc
      apply hn2 v h
      rw [varNames_append_of hv1]
      exact List.mem_append.mpr (Or.inl hc)
  · intro d hd
    rcases List.mem_append.mp hd with h | h
    · exact hm1 d h
    · intro hc
      apply hm2 d h
      rw [dimNames_append_of hd1]
      exact List.mem_append.mpr (Or.inl hc)

/-! ## A dry run never touches the dataset -/

theorem run_dry_file (fx : Fix) {α : Type} (p : Prog α) : ∀ (r : Reg) (fs : FileSt), (run fx .dry p r fs).2.2 = fs := by
  induction p with
  | pure a => intro r fs; rfl
  | fail e => intro r fs; rfl
  | mode k ih => intro r fs; simp only [run]; exact ih _ r fs
  | get k ih => intro r fs; simp only [run]; exact ih _ r fs
  | modAux g p ih => intro r fs; simp only [run]; exact ih _ fs
  | alloc b k ih => intro r fs; simp only [run]; exact ih _ _ fs
  | allocRole b s role k ih => intro r fs; simp only [run]; exact ih _ _ fs
  | noteDim n s p ih => intro r fs; simp only [run]; exact ih _ fs
  | addName n p ih => intro r fs; simp only [run]; exact ih _ fs
  | createDim d p ih => intro r fs; simp [run]; exact ih r fs
  | ensureDim d p ih => intro r fs; simp [run]; exact ih r fs
  | createVar v e p ih => intro r fs; simp only [run, beq_self_eq_true, if_true]; exact ih r fs
  | setAttr n k v p ih => intro r fs; simp [run]; exact ih r fs
  | setGlobal k v p ih => intro r fs; simp [run]; exact ih r fs

/-! ## The post-dry-run pass only ever adds -/

/-- What holds of the dataset at every moment of a post-dry-run pass started on `E`. -/
structure PostInv (E : Ds) (fs : FileSt) : Prop where
  ext : Extends E fs.ds
  created : ∀ n ∈ fs.created, n ∉ E.varNames

theorem PostInv.init (E : Ds) : PostInv E ⟨E, []⟩ := ⟨Extends.refl E, by simp⟩

theorem mem_varNames_of_ext {E D : Ds} (h : Extends E D) {n : Name} (hn : n ∈ E.varNames) : n ∈ D.varNames := by
  obtain ⟨nv, hv, _⟩ := h.vars
  rw [varNames_append_of hv]; exact List.mem_append.mpr (Or.inl hn)

theorem mem_dimNames_of_ext {E D : Ds} (h : Extends E D) {n : Name} (hn : n ∈ E.dimNames) : n ∈ D.dimNames := by
  obtain ⟨nd, hd, _⟩ := h.dims
  rw [dimNames_append_of hd]; exact List.mem_append.mpr (Or.inl hn)

/-! ### Writing data: the length of unlimited dimensions -/

theorem growDim_name (wr : List (Name × Nat)) (D : Dim) : (growDim wr D).name = D.name := by
  unfold growDim; split <;> rfl

theorem growDim_unlim (wr : List (Name × Nat)) (D : Dim) : (growDim wr D).unlim = D.unlim := by
  unfold growDim; split <;> rfl

theorem grow_names (dims : List Dim) (wr : List (Name × Nat)) : (grow dims wr).map (·.name) = dims.map (·.name) := by
  simp [grow, List.map_map, Function.comp_def, growDim_name]

theorem grow_append (a b : List Dim) (wr : List (Name × Nat)) : grow (a ++ b) wr = grow a wr ++ grow b wr := by
  simp [grow]

theorem foldl_max_ge (nm : Name) : ∀ (wr : List (Name × Nat)) (s : Nat),
    s ≤ wr.foldl (fun s p => if p.1 == nm then max s p.2 else s) s := by
  intro wr
  induction wr with
  | nil => intro s; exact Nat.le_refl s
  | cons p t ih =>
    intro s
    simp only [List.foldl_cons]
    split
    · exact Nat.le_trans (Nat.le_max_left s p.2) (ih _)
    · exact ih s

theorem foldl_max_eq (nm : Name) : ∀ (wr : List (Name × Nat)) (s : Nat), (∀ p ∈ wr, p.1 = nm → p.2 ≤ s) →
    wr.foldl (fun s p => if p.1 == nm then max s p.2 else s) s = s := by
  intro wr
  induction wr with
  | nil => intro s _; rfl
  | cons p t ih =>
    intro s h
    simp only [List.foldl_cons]
    by_cases hc : p.1 = nm
    · have : p.2 ≤ s := h p (by simp) hc
      simp only [hc, beq_self_eq_true, if_true, Nat.max_eq_left this]
      exact ih s (fun q hq => h q (List.mem_cons_of_mem _ hq))
    · have : (p.1 == nm) = false := by simp [hc]
      simp only [this, Bool.false_eq_true, if_false]
      exact ih s (fun q hq => h q (List.mem_cons_of_mem _ hq))

theorem growDim_grownFrom (wr : List (Name × Nat)) (D : Dim) : (growDim wr D).grownFrom D := by
  unfold growDim Dim.grownFrom
  split
  · rename_i hu
    exact ⟨rfl, rfl, foldl_max_ge D.name wr D.size, fun hf => by rw [hu] at hf; cases hf⟩
  · exact ⟨rfl, rfl, Nat.le_refl _, fun _ => rfl⟩

/-- Nothing longer than the dimension is written along it: the dimension keeps its length. -/
theorem growDim_id (wr : List (Name × Nat)) (D : Dim) (h : D.unlim = true → ∀ p ∈ wr, p.1 = D.name → p.2 ≤ D.size) :
    growDim wr D = D := by
  unfold growDim
  split
  · rename_i hu
    rw [foldl_max_eq D.name wr D.size (h hu)]
  · rfl

theorem ShapeOK.zip {E : Ds} : ∀ {dims : List Name} {ext : List Nat}, ShapeOK E dims ext →
    ∀ p ∈ dims.zip ext, ∀ D ∈ E.dims, D.unlim = true → D.name = p.1 → p.2 = D.size := by
  intro dims
  induction dims with
  | nil => intro ext _ p hp; simp at hp
  | cons d ds ih =>
    intro ext h p hp
    cases ext with
    | nil => simp at hp
    | cons n ns =>
      simp only [ShapeOK] at h
      simp only [List.zip_cons_cons, List.mem_cons] at hp
      rcases hp with rfl | hp
      · exact h.1
      · exact ih h.2 p hp

theorem ShapeOK.length {E : Ds} : ∀ {dims : List Name} {ext : List Nat}, ShapeOK E dims ext → dims.length = ext.length := by
  intro dims
  induction dims with
  | nil => intro ext h; cases ext with
    | nil => rfl
    | cons _ _ => simp [ShapeOK] at h
  | cons d ds ih =>
    intro ext h
    cases ext with
    | nil => simp [ShapeOK] at h
    | cons n ns => simp only [ShapeOK] at h; simp [ih h.2]

theorem ShapeOK.append {E : Ds} : ∀ {d1 : List Name} {e1 : List Nat} {d2 : List Name} {e2 : List Nat},
    ShapeOK E d1 e1 → ShapeOK E d2 e2 → ShapeOK E (d1 ++ d2) (e1 ++ e2) := by
  intro d1
  induction d1 with
  | nil => intro e1 d2 e2 h1 h2; cases e1 with
    | nil => simpa using h2
    | cons _ _ => simp [ShapeOK] at h1
  | cons d ds ih =>
    intro e1 d2 e2 h1 h2
    cases e1 with
    | nil => simp [ShapeOK] at h1
    | cons n ns =>
      simp only [ShapeOK] at h1
      simp only [List.cons_append, ShapeOK]
      exact ⟨h1.1, ih h1.2 h2⟩

/-- Writing an array whose extents are the current lengths of the old unlimited dimensions leaves the old
dimensions as they are (new ones, created by the same pass, may get longer). -/
theorem grow_old_id {E : Ds} {nd : List Dim} {dims : List Name} {ext : List Nat} (h : ShapeOK E dims ext) :
    grow (E.dims ++ nd) (dims.zip ext) = E.dims ++ grow nd (dims.zip ext) := by
  rw [grow_append]
  congr 1
  unfold grow
  conv => rhs; rw [← List.map_id E.dims]
  apply List.map_congr_left
  intro D hD
  simp only [id]
  apply growDim_id
  intro hu p hp hn
  exact Nat.le_of_eq (h.zip p hp D hD hu hn.symm)

theorem PostInv.createVar {E : Ds} {fs : FileSt} (h : PostInv E fs) (v : Var) (hv : v.name ∉ fs.ds.varNames)
    (dims' : List Dim) (hd : ∃ nd, dims' = E.dims ++ nd ∧ ∀ d ∈ nd, d.name ∉ E.dimNames) :
    PostInv E { ds := { fs.ds with dims := dims', vars := fs.ds.vars ++ [v] }, created := fs.created ++ [v.name] } := by
  have hE : v.name ∉ E.varNames := fun hc => hv (mem_varNames_of_ext h.ext hc)
  obtain ⟨nv, hvs, hnv⟩ := h.ext.vars
  refine ⟨⟨h.ext.gattrs, ⟨nv ++ [v], by simp [hvs], ?_⟩, hd⟩, ?_⟩
  · intro w hw
    rcases List.mem_append.mp hw with h1 | h1
    · exact hnv w h1
    · simp at h1; subst h1; exact hE
  · intro n hn
    rcases List.mem_append.mp hn with h1 | h1
    · exact h.created n h1
    · simp at h1; subst h1; exact hE

theorem PostInv.createDim {E : Ds} {fs : FileSt} (h : PostInv E fs) (d : Dim) (hd : d.name ∉ fs.ds.dimNames) :
    PostInv E { fs with ds := { fs.ds with dims := fs.ds.dims ++ [d] } } := by
  have hE : d.name ∉ E.dimNames := fun hc => hd (mem_dimNames_of_ext h.ext hc)
  obtain ⟨nd, hds, hnd⟩ := h.ext.dims
  refine ⟨⟨h.ext.gattrs, h.ext.vars, ⟨nd ++ [d], by simp [hds], ?_⟩⟩, h.created⟩
  intro w hw
  rcases List.mem_append.mp hw with h1 | h1
  · exact hnd w h1
  · simp at h1; subst h1; exact hE

theorem map_setattr_old {E : Ds} (n : Name) (k v : String) (hn : n ∉ E.varNames) :
    E.vars.map (fun x => if x.name == n then { x with attrs := x.attrs.filter (·.1 != k) ++ [(k, v)] } else x) = E.vars := by
  have : ∀ l : List Var, (∀ x ∈ l, x.name ≠ n) →
      l.map (fun x => if x.name == n then { x with attrs := x.attrs.filter (·.1 != k) ++ [(k, v)] } else x) = l := by
    intro l hl
    induction l with
    | nil => rfl
    | cons a t ih =>
      have ha : a.name ≠ n := hl a (by simp)
      have : (a.name == n) = false := by simp [ha]
      simp only [List.map_cons, this]
      rw [ih (fun x hx => hl x (List.mem_cons_of_mem _ hx))]
      simp
  apply this
  intro x hx hc
  exact hn (by rw [← hc]; exact List.mem_map_of_mem (f := (·.name)) hx)

theorem PostInv.setAttr {E : Ds} {fs : FileSt} (h : PostInv E fs) (n : Name) (k v : String) (hn : n ∈ fs.created) :
    PostInv E { fs with ds := setVarAttr fs.ds n k v } := by
  have hE : n ∉ E.varNames := h.created n hn
  obtain ⟨nv, hvs, hnv⟩ := h.ext.vars
  refine ⟨⟨h.ext.gattrs, ⟨nv.map (fun x => if x.name == n then { x with attrs := x.attrs.filter (·.1 != k) ++ [(k, v)] } else x), ?_, ?_⟩, h.ext.dims⟩, h.created⟩
  · simp only [setVarAttr, hvs, List.map_append]
    rw [map_setattr_old n k v hE]
  · intro w hw
    obtain ⟨x, hx, rfl⟩ := List.mem_map.mp hw
    have := hnv x hx
    by_cases hc : (x.name == n) = true
    · simpa [hc] using this
    · simpa [hc] using this

/-- A write that keeps the old dimensions keeps the invariant. -/
theorem PostInv.createVarShape {E : Ds} {fs : FileSt} (h : PostInv E fs) (v : Var) (ext : List Nat)
    (hv : v.name ∉ fs.ds.varNames) (hs : ShapeOK E v.dims ext) :
    PostInv E { ds := { fs.ds with dims := grow fs.ds.dims (v.dims.zip ext), vars := fs.ds.vars ++ [v] },
                created := fs.created ++ [v.name] } := by
  apply h.createVar v hv
  obtain ⟨nd, hd, hn⟩ := h.ext.dims
  refine ⟨grow nd (v.dims.zip ext), by rw [hd, grow_old_id hs], ?_⟩
  intro d hdm
  unfold grow at hdm
  obtain ⟨D, hD, rfl⟩ := List.mem_map.mp hdm
  rw [growDim_name]
  exact hn D hD

end Cfdm.Append
