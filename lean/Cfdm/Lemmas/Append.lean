import Cfdm.Spec.Append
/-
C17 — helper lemmas: invariants of the interpreter `run`, proved by induction on programs.
-/
namespace Cfdm.Append

/-! ## `Extends` is a preorder -/

theorem Extends.refl (E : Ds) : Extends E E :=
  ⟨rfl, ⟨[], by simp⟩, ⟨[], by simp⟩⟩

theorem varNames_append_of {E E' : Ds} {nv : List Var} (h : E'.vars = E.vars ++ nv) :
    E'.varNames = E.varNames ++ nv.map (·.name) := by
  simp [Ds.varNames, h]

theorem dimNames_append_of {E E' : Ds} {nd : List Dim} (h : E'.dims = E.dims ++ nd) :
    E'.dimNames = E.dimNames ++ nd.map (·.name) := by
  simp [Ds.dimNames, h]

theorem Extends.trans {A B C : Ds} (h1 : Extends A B) (h2 : Extends B C) : Extends A C := by
  obtain ⟨g1, ⟨nv1, hv1, hn1⟩, ⟨nd1, hd1, hm1⟩⟩ := h1
  obtain ⟨g2, ⟨nv2, hv2, hn2⟩, ⟨nd2, hd2, hm2⟩⟩ := h2
  refine ⟨g2.trans g1, ⟨nv1 ++ nv2, by rw [hv2, hv1, List.append_assoc], ?_⟩, ⟨nd1 ++ nd2, by rw [hd2, hd1, List.append_assoc], ?_⟩⟩
  · intro v hv
    rcases List.mem_append.mp hv with h | h
    · exact hn1 v h
    · intro hc
      apply hn2 v h
      rw [varNames_append_of hv1]
      exact List.mem_append.mpr (Or.inl hc)
  · intro d hd
    rcases List.mem_append.mp hd with h | h
    · exact hm1 d h
    · intro hc
      apply hm2 d h
      rw [dimNames_append_of hd1]
      exact List.mem_append.mpr (Or.inl hc)

/-! ## A dry run never touches the dataset -/

theorem run_dry_file (fx : Fix) {α : Type} (p : Prog α) : ∀ (r : Reg) (fs : FileSt), (run fx .dry p r fs).2.2 = fs := by
  induction p with
  | pure a => intro r fs; rfl
  | fail e => intro r fs; rfl
  | mode k ih => intro r fs; simp only [run]; exact ih _ r fs
  | get k ih => intro r fs; simp only [run]; exact ih _ r fs
  | modAux g p ih => intro r fs; simp only [run]; exact ih _ fs
  | alloc b k ih => intro r fs; simp only [run]; exact ih _ _ fs
  | allocRole b s role k ih => intro r fs; simp only [run]; exact ih _ _ fs
  | noteDim n s p ih => intro r fs; simp only [run]; exact ih _ fs
  | addName n p ih => intro r fs; simp only [run]; exact ih _ fs
  | createDim d p ih => intro r fs; simp [run]; exact ih r fs
  | ensureDim d p ih => intro r fs; simp [run]; exact ih r fs
  | createVar v p ih => intro r fs; simp only [run, beq_self_eq_true, if_true]; exact ih r fs
  | setAttr n k v p ih => intro r fs; simp [run]; exact ih r fs
  | setGlobal k v p ih => intro r fs; simp [run]; exact ih r fs

/-! ## The post-dry-run pass only ever adds -/

/-- What holds of the dataset at every moment of a post-dry-run pass started on `E`. -/
structure PostInv (E : Ds) (fs : FileSt) : Prop where
  ext : Extends E fs.ds
  created : ∀ n ∈ fs.created, n ∉ E.varNames

theorem PostInv.init (E : Ds) : PostInv E ⟨E, []⟩ := ⟨Extends.refl E, by simp⟩

theorem mem_varNames_of_ext {E D : Ds} (h : Extends E D) {n : Name} (hn : n ∈ E.varNames) : n ∈ D.varNames := by
  obtain ⟨nv, hv, _⟩ := h.vars
  rw [varNames_append_of hv]; exact List.mem_append.mpr (Or.inl hn)

theorem mem_dimNames_of_ext {E D : Ds} (h : Extends E D) {n : Name} (hn : n ∈ E.dimNames) : n ∈ D.dimNames := by
  obtain ⟨nd, hd, _⟩ := h.dims
  rw [dimNames_append_of hd]; exact List.mem_append.mpr (Or.inl hn)

theorem PostInv.createVar {E : Ds} {fs : FileSt} (h : PostInv E fs) (v : Var) (hv : v.name ∉ fs.ds.varNames) :
    PostInv E { ds := { fs.ds with vars := fs.ds.vars ++ [v] }, created := fs.created ++ [v.name] } := by
  have hE : v.name ∉ E.varNames := fun hc => hv (mem_varNames_of_ext h.ext hc)
  obtain ⟨nv, hvs, hnv⟩ := h.ext.vars
  refine ⟨⟨h.ext.gattrs, ⟨nv ++ [v], by simp [hvs], ?_⟩, h.ext.dims⟩, ?_⟩
  · intro w hw
    rcases List.mem_append.mp hw with h1 | h1
    · exact hnv w h1
    · simp at h1; subst h1; exact hE
  · intro n hn
    rcases List.mem_append.mp hn with h1 | h1
    · exact h.created n h1
    · simp at h1; subst h1; exact hE

theorem PostInv.createDim {E : Ds} {fs : FileSt} (h : PostInv E fs) (d : Dim) (hd : d.name ∉ fs.ds.dimNames) :
    PostInv E { fs with ds := { fs.ds with dims := fs.ds.dims ++ [d] } } := by
  have hE : d.name ∉ E.dimNames := fun hc => hd (mem_dimNames_of_ext h.ext hc)
  obtain ⟨nd, hds, hnd⟩ := h.ext.dims
  refine ⟨⟨h.ext.gattrs, h.ext.vars, ⟨nd ++ [d], by simp [hds], ?_⟩⟩, h.created⟩
  intro w hw
  rcases List.mem_append.mp hw with h1 | h1
  · exact hnd w h1
  · simp at h1; subst h1; exact hE

theorem map_setattr_old {E : Ds} (n : Name) (k v : String) (hn : n ∉ E.varNames) :
    E.vars.map (fun x => if x.name == n then { x with attrs := x.attrs.filter (·.1 != k) ++ [(k, v)] } else x) = E.vars := by
  have : ∀ l : List Var, (∀ x ∈ l, x.name ≠ n) →
      l.map (fun x => if x.name == n then { x with attrs := x.attrs.filter (·.1 != k) ++ [(k, v)] } else x) = l := by
    intro l hl
    induction l with
    | nil => rfl
    | cons a t ih =>
      have ha : a.name ≠ n := hl a (by simp)
      have : (a.name == n) = false := by simp [ha]
      simp only [List.map_cons, this]
      rw [ih (fun x hx => hl x (List.mem_cons_of_mem _ hx))]
      simp
  apply this
  intro x hx hc
  exact hn (by rw [← hc]; exact List.mem_map_of_mem (f := (·.name)) hx)

theorem PostInv.setAttr {E : Ds} {fs : FileSt} (h : PostInv E fs) (n : Name) (k v : String) (hn : n ∈ fs.created) :
    PostInv E { fs with ds := setVarAttr fs.ds n k v } := by
  have hE : n ∉ E.varNames := h.created n hn
  obtain ⟨nv, hvs, hnv⟩ := h.ext.vars
  refine ⟨⟨h.ext.gattrs, ⟨nv.map (fun x => if x.name == n then { x with attrs := x.attrs.filter (·.1 != k) ++ [(k, v)] } else x), ?_, ?_⟩, h.ext.dims⟩, h.created⟩
  · simp only [setVarAttr, hvs, List.map_append]
    rw [map_setattr_old n k v hE]
  · intro w hw
    obtain ⟨x, hx, rfl⟩ := List.mem_map.mp hw
    have := hnv x hx
    by_cases hc : (x.name == n) = true
    · simpa [hc] using this
    · simpa [hc] using this

theorem run_post_inv (fx : Fix) (hg : fx.globalsGuarded = true) (E : Ds) {α : Type} (p : Prog α) :
    ∀ (r : Reg) (fs : FileSt), PostInv E fs → PostInv E (run fx .post p r fs).2.2 := by
  induction p with
  | pure a => intro r fs h; exact h
  | fail e => intro r fs h; exact h
  | mode k ih => intro r fs h; simp only [run]; exact ih _ r fs h
  | get k ih => intro r fs h; simp only [run]; exact ih _ r fs h
  | modAux g p ih => intro r fs h; simp only [run]; exact ih _ fs h
  | alloc b k ih => intro r fs h; simp only [run]; exact ih _ _ fs h
  | allocRole b s role k ih => intro r fs h; simp only [run]; exact ih _ _ fs h
  | noteDim n s p ih => intro r fs h; simp only [run]; exact ih _ fs h
  | addName n p ih => intro r fs h; simp only [run]; exact ih _ fs h
  | createDim d p ih =>
    intro r fs h
    simp only [run]
    split
    · exact ih r fs h
    · split
      · exact h
      · rename_i hc
        exact ih r _ (h.createDim d (by simpa using hc))
  | ensureDim d p ih =>
    intro r fs h
    simp only [run]
    split
    · exact ih r fs h
    · rename_i hc
      have : d.name ∉ fs.ds.dimNames := by
        intro hm; apply hc; simp [hm]
      exact ih r _ (h.createDim d this)
  | createVar v p ih =>
    intro r fs h
    simp only [run]
    split
    · exact ih r fs h
    · split
      · exact h
      · rename_i hc
        split
        · exact h
        · exact ih r _ (h.createVar v (by simpa using hc))
  | setAttr n k v p ih =>
    intro r fs h
    simp only [run]
    split
    · exact ih r fs h
    · rename_i hc
      have : n ∈ fs.created := by
        by_cases hm : n ∈ fs.created
        · exact hm
        · exact absurd (by simp [hm]) hc
      exact ih r _ (h.setAttr n k v this)
  | setGlobal k v p ih =>
    intro r fs h
    simp only [run]
    split
    · rename_i hc; exact absurd hc (by simp [hg])
    · exact ih r fs h

end Cfdm.Append
