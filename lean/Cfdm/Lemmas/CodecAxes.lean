import Cfdm.Lemmas.CodecBasic
/-
C01: for a well-formed stage-A field the loop over the domain axes inserts nothing into the data
and assigns every axis the role `wfRole`.
-/
namespace Cfdm.Codec

/-- The role of an axis of a well-formed field (closed form). -/
def wfRole (f : MField) (a : Key) : Role :=
  match f.dimCoordOf a with
  | some e => if f.dataAxes.contains a then .coordVar e else .scalarDim e
  | none => if f.dataAxes.contains a then .plain else .none

theorem mem_axisKeys {f : MField} {a : Key} : a ∈ f.axisKeys ↔ ∃ ka ∈ f.axes, ka.1 = a := by
  simp [MField.axisKeys]

/-- A construct spanning an axis outside the data is the only one there and spans just it. -/
theorem span_outside {f : MField} (hwf : WFFieldB f) {a : Key} (hd : a ∉ f.dataAxes) {e : Entry}
    (he : e ∈ f.cons) (ha : a ∈ e.axes) :
    e.axes = [a] ∧ f.spanning a = [e] ∧
      ((e.con.ctype = .dim ∧ (e.con.data.map (·.isStr)) = some false)
        ∨ (e.con.ctype = .aux ∧ (e.con.data.map (·.isStr)) = some true)) := by
  obtain ⟨_, _, _, _, hcons, _⟩ := hwf
  obtain ⟨_, _, hspan⟩ := hcons e he
  rcases hspan with h | ⟨hlen, h⟩
  · exact absurd (h a ha) hd
  · have hax : e.axes = [a] := by
      match hm : e.axes, hlen, ha with
      | [b], _, ha' =>
        rw [hm] at ha
        simp at ha
        rw [ha]
    obtain ⟨_, h2, h3⟩ := h a ha
    exact ⟨hax, h2, h3⟩

theorem axisStep_wf (o : Opts) (ho : o.scalar = true) (f : MField) (hwf : WFFieldB f) (a : Key) (ha : a ∈ f.axisKeys)
    (R : List (Key × Role)) :
    axisStep o f ⟨f.dataAxes, f.dataAxes, R⟩ a = ⟨f.dataAxes, f.dataAxes, R ++ [(a, wfRole f a)]⟩ := by
  unfold axisStep wfRole
  cases hdc : f.dimCoordOf a with
  | some e =>
    simp only
    by_cases hc : f.dataAxes.contains a = true
    · have hm : a ∈ f.dataAxes := by simpa using hc
      simp [hm]
    · have hd : a ∉ f.dataAxes := by simpa using hc
      obtain ⟨hmem, _, hax⟩ := dimCoordOf_some hdc
      have hsp := (span_outside hwf hd hmem (by rw [hax]; exact List.mem_singleton_self a)).2.1
      simp [hd, ho, hsp]
  | none =>
    simp only
    by_cases hc : f.dataAxes.contains a = true
    · have hm : a ∈ f.dataAxes := by simpa using hc
      simp [hm]
    · have hd : a ∉ f.dataAxes := by simpa using hc
      have hcf : f.dataAxes.contains a = false := by simpa using hc
      obtain ⟨ka, hka, hk⟩ := mem_axisKeys.mp ha
      have hwf' := hwf
      obtain ⟨_, _, _, _, hcons, haxes, _⟩ := hwf'
      have hne : f.spanning a ≠ [] := by
        have := (haxes ka hka (by rw [hk]; exact hd)).2.2
        rw [hk] at this
        exact this
      obtain ⟨e, es, hes⟩ := List.exists_cons_of_ne_nil hne
      have he : e ∈ f.spanning a := by rw [hes]; exact List.mem_cons_self
      obtain ⟨hmem, hain⟩ := mem_spanning.mp he
      obtain ⟨hax, hsp, hty⟩ := span_outside hwf hd hmem hain
      have haux : e.con.ctype = .aux := by
        rcases hty with h | h
        · -- a dimension coordinate would be the dimension coordinate of the axis
          obtain ⟨_, hco, _⟩ := hcons e hmem
          have := (hco.2.2 h.1).2 a hain
          rw [hdc] at this
          cases this
        · exact h.1
      have hex : f.exactAux a = [e] := by
        have : f.exactAux a = (f.spanning a).filter (fun e => e.con.ctype == .aux && e.axes == [a]) := by
          unfold MField.exactAux MField.spanning
          rw [List.filter_filter]
          apply List.filter_congr
          intro x _
          by_cases hx : x.axes = [a]
          · simp [hx]
          · simp [hx]
        rw [this, hsp]
        simp [haux, hax]
      simp [hd, hsp, hex]

theorem foldl_axisStep_wf (o : Opts) (ho : o.scalar = true) (f : MField) (hwf : WFFieldB f) (l : List Key)
    (hl : ∀ a ∈ l, a ∈ f.axisKeys) (R : List (Key × Role)) :
    l.foldl (axisStep o f) ⟨f.dataAxes, f.dataAxes, R⟩ = ⟨f.dataAxes, f.dataAxes, R ++ l.map (fun a => (a, wfRole f a))⟩ := by
  induction l generalizing R with
  | nil => simp
  | cons a as ih =>
    rw [List.foldl_cons, axisStep_wf o ho f hwf a (hl a List.mem_cons_self), ih (fun b hb => hl b (List.mem_cons_of_mem _ hb))]
    simp

/-- The loop over the axes of a well-formed field. -/
theorem axesPhase_wf (o : Opts) (ho : o.scalar = true) (f : MField) (hwf : WFFieldB f) :
    axesPhase o f = ⟨f.dataAxes, f.dataAxes, (sortKeys f.axisKeys).map (fun a => (a, wfRole f a))⟩ := by
  unfold axesPhase
  rw [foldl_axisStep_wf o ho f hwf _ (fun a ha => mem_sortKeys.mp ha)]
  simp

theorem axisStepOld_wf (o : Opts) (ho : o.scalar = true) (f : MField) (hwf : WFFieldB f) (a : Key) (ha : a ∈ f.axisKeys)
    (R : List (Key × Role)) :
    axisStepOld o f ⟨f.dataAxes, f.dataAxes, R⟩ a = ⟨f.dataAxes, f.dataAxes, R ++ [(a, wfRole f a)]⟩ := by
  unfold axisStepOld wfRole
  cases hdc : f.dimCoordOf a with
  | some e =>
    simp only
    by_cases hc : f.dataAxes.contains a = true
    · have hm : a ∈ f.dataAxes := by simpa using hc
      simp [hm]
    · have hd : a ∉ f.dataAxes := by simpa using hc
      obtain ⟨hmem, _, hax⟩ := dimCoordOf_some hdc
      have hsp := (span_outside hwf hd hmem (by rw [hax]; exact List.mem_singleton_self a)).2.1
      simp [hd, ho, hsp]
  | none =>
    simp only
    by_cases hc : f.dataAxes.contains a = true
    · have hm : a ∈ f.dataAxes := by simpa using hc
      simp [hm]
    · have hd : a ∉ f.dataAxes := by simpa using hc
      have hcf : f.dataAxes.contains a = false := by simpa using hc
      obtain ⟨ka, hka, hk⟩ := mem_axisKeys.mp ha
      have hwf' := hwf
      obtain ⟨_, _, _, _, hcons, haxes, _⟩ := hwf'
      have hne : f.spanning a ≠ [] := by
        have := (haxes ka hka (by rw [hk]; exact hd)).2.2
        rw [hk] at this
        exact this
      obtain ⟨e, es, hes⟩ := List.exists_cons_of_ne_nil hne
      have he : e ∈ f.spanning a := by rw [hes]; exact List.mem_cons_self
      obtain ⟨hmem, hain⟩ := mem_spanning.mp he
      obtain ⟨hax, hsp, hty⟩ := span_outside hwf hd hmem hain
      have haux : e.con.ctype = .aux := by
        rcases hty with h | h
        · -- a dimension coordinate would be the dimension coordinate of the axis
          obtain ⟨_, hco, _⟩ := hcons e hmem
          have := (hco.2.2 h.1).2 a hain
          rw [hdc] at this
          cases this
        · exact h.1
      have hex : f.exactAux a = [e] := by
        have : f.exactAux a = (f.spanning a).filter (fun e => e.con.ctype == .aux && e.axes == [a]) := by
          unfold MField.exactAux MField.spanning
          rw [List.filter_filter]
          apply List.filter_congr
          intro x _
          by_cases hx : x.axes = [a]
          · simp [hx]
          · simp [hx]
        rw [this, hsp]
        simp [haux, hax]
      simp [hd, hsp, hex]

theorem foldl_axisStepOld_wf (o : Opts) (ho : o.scalar = true) (f : MField) (hwf : WFFieldB f) (l : List Key)
    (hl : ∀ a ∈ l, a ∈ f.axisKeys) (R : List (Key × Role)) :
    l.foldl (axisStepOld o f) ⟨f.dataAxes, f.dataAxes, R⟩ = ⟨f.dataAxes, f.dataAxes, R ++ l.map (fun a => (a, wfRole f a))⟩ := by
  induction l generalizing R with
  | nil => simp
  | cons a as ih =>
    rw [List.foldl_cons, axisStepOld_wf o ho f hwf a (hl a List.mem_cons_self), ih (fun b hb => hl b (List.mem_cons_of_mem _ hb))]
    simp

/-- The loop over the axes of a well-formed field. -/
theorem axesPhaseOld_wf (o : Opts) (ho : o.scalar = true) (f : MField) (hwf : WFFieldB f) :
    axesPhaseOld o f = ⟨f.dataAxes, f.dataAxes, (sortKeys f.axisKeys).map (fun a => (a, wfRole f a))⟩ := by
  unfold axesPhaseOld
  rw [foldl_axisStepOld_wf o ho f hwf _ (fun a ha => mem_sortKeys.mp ha)]
  simp


end Cfdm.Codec
