import Cfdm.Model.Indexing
/- Generic lemmas on `lastSat` / `product` used by the N-d assignment theorem of C03. -/
namespace Cfdm.Indexing
variable {α β : Type}

theorem lastSat_congr (p p' : α → Bool) (l : List α) (h : ∀ x ∈ l, p x = p' x) :
    lastSat p l = lastSat p' l := by
  induction l with
  | nil => rfl
  | cons x xs ih =>
    simp only [lastSat]
    rw [ih (fun y hy => h y (List.mem_cons_of_mem _ hy)), h x (List.mem_cons_self)]

theorem lastSat_append (p : α → Bool) (a b : List α) :
    lastSat p (a ++ b) = (lastSat p b).or (lastSat p a) := by
  induction a with
  | nil => simp [lastSat]
  | cons x xs ih =>
    simp only [List.cons_append, lastSat, ih]
    cases hb : lastSat p b <;> simp

theorem lastSat_map (p : β → Bool) (g : α → β) (l : List α) :
    lastSat p (l.map g) = (lastSat (fun x => p (g x)) l).map g := by
  induction l with
  | nil => rfl
  | cons x xs ih =>
    simp only [List.map_cons, lastSat, ih]
    cases h : lastSat (fun x => p (g x)) xs <;> simp

theorem lastSat_flatMap (p : β → Bool) (f : α → List β) (l : List α) :
    lastSat p (l.flatMap f) =
      (lastSat (fun x => (lastSat p (f x)).isSome) l).bind (fun x => lastSat p (f x)) := by
  induction l with
  | nil => rfl
  | cons x xs ih =>
    simp only [List.flatMap_cons, lastSat_append, ih, lastSat]
    cases h : lastSat (fun x => (lastSat p (f x)).isSome) xs with
    | some y =>
      simp only [Option.bind_some]
      -- the inner result for y is some
      have : (lastSat p (f y)).isSome = true := by
        clear ih
        induction xs with
        | nil => simp [lastSat] at h
        | cons z zs ihz =>
          simp only [lastSat] at h
          cases hz : lastSat (fun x => (lastSat p (f x)).isSome) zs with
          | some w => rw [hz] at h; simp at h; subst h; exact ihz hz
          | none =>
            rw [hz] at h; simp at h
            exact h.2 ▸ h.1
      cases hy : lastSat p (f y) with
      | none => simp [hy] at this
      | some v => simp
    | none =>
      simp only [Option.bind_none, Option.none_or]
      by_cases hx : (lastSat p (f x)).isSome = true
      · simp [hx]
      · simp only [hx]
        cases hv : lastSat p (f x) with
        | none => simp
        | some v => simp [hv] at hx

theorem lastSat_sat (p : α → Bool) (l : List α) (w : α) (h : lastSat p l = some w) : p w = true := by
  induction l with
  | nil => simp [lastSat] at h
  | cons x xs ih =>
    simp only [lastSat] at h
    cases hx : lastSat p xs with
    | some y => rw [hx] at h; simp at h; subst h; exact ih hx
    | none =>
      rw [hx] at h
      by_cases hp : p x
      · simp [hp] at h; subst h; exact hp
      · simp [hp] at h

/-- Lemma A: the last tuple of a lexicographic product that matches componentwise is the
tuple of the per-axis last matches. -/
theorem lastSat_product (qLs : List ((β → Bool) × List β)) :
    lastSat (matchAll (qLs.map (·.1))) (product (qLs.map (·.2))) =
      sequence (qLs.map (fun qL => lastSat qL.1 qL.2)) := by
  induction qLs with
  | nil => simp [product, matchAll, lastSat, sequence]
  | cons qL rest ih =>
    obtain ⟨q, L⟩ := qL
    simp only [List.map_cons, product]
    rw [lastSat_flatMap]
    have inner : ∀ x, lastSat (matchAll (q :: rest.map (·.1))) ((product (rest.map (·.2))).map (fun r => x :: r)) =
        if q x then (sequence (rest.map (fun qL => lastSat qL.1 qL.2))).map (x :: ·) else none := by
      intro x
      rw [lastSat_map]
      by_cases hq : q x
      · simp only [matchAll, hq, Bool.true_and, if_true]
        rw [ih]
      · simp only [matchAll, hq, Bool.false_and]
        have : lastSat (fun _ : List β => false) (product (rest.map (·.2))) = none := by
          generalize product (rest.map (·.2)) = l
          induction l with
          | nil => rfl
          | cons y ys ihy => simp [lastSat, ihy]
        simp [this]
    simp only [inner]
    cases hs : sequence (rest.map (fun qL => lastSat qL.1 qL.2)) with
    | none =>
      have : lastSat (fun x => (if q x = true then (none : Option (List β)).map (x :: ·) else none).isSome) L = none := by
        have : (fun x => (if q x = true then (none : Option (List β)).map (x :: ·) else none).isSome) = fun _ => false := by
          funext x; split <;> rfl
        rw [this]
        generalize L = l
        induction l with
        | nil => rfl
        | cons y ys ihy => simp [lastSat, ihy]
      rw [this]
      cases hL : lastSat q L <;> simp [sequence, hs]
    | some r =>
      have : (fun x => (if q x = true then (some r : Option (List β)).map (x :: ·) else none).isSome) = q := by
        funext x; by_cases hq : q x <;> simp [hq]
      rw [this]
      cases hL : lastSat q L with
      | none => simp [sequence]
      | some w =>
        have hw := lastSat_sat q L w hL
        simp [sequence, hs, hw]


theorem mem_product_length (Ls : List (List α)) : ∀ t ∈ product Ls, t.length = Ls.length := by
  induction Ls with
  | nil => intro t ht; simp [product] at ht; simp [ht]
  | cons L rest ih =>
    intro t ht
    simp only [product, List.mem_flatMap, List.mem_map] at ht
    obtain ⟨x, _, r, hr, rfl⟩ := ht
    simp [ih r hr]

theorem sequence_length (l : List (Option α)) (r : List α) (h : sequence l = some r) :
    r.length = l.length := by
  induction l generalizing r with
  | nil => simp [sequence] at h; simp [← h]
  | cons o rest ih =>
    cases o with
    | none => simp [sequence] at h
    | some x =>
      simp only [sequence, Option.map_eq_some_iff] at h
      obtain ⟨r', hr', rfl⟩ := h
      simp [ih r' hr']

/-- `qs` and a tuple of the same length, zipped: Lemma A for an arbitrary tuple. -/
theorem lastSat_product_zip (qs : List (β → Bool)) (tup : List (List β)) (h : tup.length = qs.length) :
    lastSat (matchAll qs) (product tup) = sequence ((qs.zip tup).map (fun qL => lastSat qL.1 qL.2)) := by
  have := lastSat_product (qs.zip tup)
  rw [List.map_fst_zip (by omega), List.map_snd_zip (by omega)] at this
  exact this

theorem sequence_isSome_matchAll (qs : List (β → Bool)) (tup : List (List β)) (h : tup.length = qs.length) :
    (sequence ((qs.zip tup).map (fun qL => lastSat qL.1 qL.2))).isSome =
      matchAll (qs.map (fun q piece => (lastSat q piece).isSome)) tup := by
  induction qs generalizing tup with
  | nil =>
    cases tup with
    | nil => simp [sequence, matchAll]
    | cons _ _ => simp at h
  | cons q qs ih =>
    cases tup with
    | nil => simp at h
    | cons piece rest =>
      simp only [List.length_cons, Nat.add_right_cancel_iff] at h
      simp only [List.zip_cons_cons, List.map_cons, matchAll]
      cases hp : lastSat q piece with
      | none => simp [sequence]
      | some w =>
        simp only [sequence, Option.isSome_map, Option.isSome_some, Bool.true_and]
        exact ih rest h


theorem bind_sequence (ax : List (Int × List (List W))) :
    (sequence (ax.map (fun a => lastSat (fun piece => (lastSat (qpos a.1) piece).isSome) a.2))).bind
        (fun tup => sequence (((ax.map (fun a => qpos a.1)).zip tup).map (fun qL => lastSat qL.1 qL.2))) =
      sequence (ax.map (fun a =>
        (lastSat (fun piece => (lastSat (qpos a.1) piece).isSome) a.2).bind (lastSat (qpos a.1)))) := by
  induction ax with
  | nil => simp [sequence]
  | cons a rest ih =>
    simp only [List.map_cons]
    cases ha : lastSat (fun piece => (lastSat (qpos a.1) piece).isSome) a.2 with
    | none => simp [sequence]
    | some piece =>
      simp only [sequence, Option.bind_some]
      cases hr : sequence (rest.map (fun a => lastSat (fun piece => (lastSat (qpos a.1) piece).isSome) a.2)) with
      | none =>
        rw [hr] at ih
        simp only [Option.map_none, Option.bind_none]
        simp only [Option.bind_none] at ih
        cases hw : lastSat (qpos a.1) piece with
        | none => simp [sequence]
        | some w => simp [sequence, ← ih]
      | some r =>
        rw [hr] at ih
        simp only [Option.map_some, Option.bind_some, List.zip_cons_cons, List.map_cons]
        simp only [Option.bind_some] at ih
        cases hw : lastSat (qpos a.1) piece with
        | none => simp [sequence]
        | some w => simp [sequence, ih]


/-- N-d: the last write of the piecewise algorithm that hits target `t` is, axis by axis,
the last write of the flattened per-axis write list. -/
theorem lastSat_algoND (ax : List (Int × List (List W))) :
    lastSat (matchAll (ax.map (fun a => qpos a.1))) (algoND (ax.map (·.2))) =
      sequence (ax.map (fun a => lastSat (qpos a.1) a.2.flatten)) := by
  unfold algoND
  rw [lastSat_flatMap]
  have hlen : ∀ tup ∈ product (ax.map (·.2)), tup.length = (ax.map (fun a => qpos a.1)).length := by
    intro tup ht
    rw [mem_product_length _ tup ht]; simp
  -- the selecting predicate on piece tuples
  rw [lastSat_congr _ (matchAll ((ax.map (fun a => qpos a.1)).map (fun q piece => (lastSat q piece).isSome)))
      (product (ax.map (·.2)))
      (fun tup ht => by
        rw [lastSat_product_zip _ tup (hlen tup ht), sequence_isSome_matchAll _ tup (hlen tup ht)])]
  have hA := lastSat_product (ax.map (fun a => ((fun piece => (lastSat (qpos a.1) piece).isSome : List W → Bool), a.2)))
  simp only [List.map_map, Function.comp_def] at hA ⊢
  rw [hA]
  -- now the bind
  have hflat : ∀ a : Int × List (List W), lastSat (qpos a.1) a.2.flatten =
      (lastSat (fun piece => (lastSat (qpos a.1) piece).isSome) a.2).bind (lastSat (qpos a.1)) := by
    intro a
    have := lastSat_flatMap (qpos a.1) (fun (x : List W) => x) a.2
    rw [List.flatten_eq_flatMap]
    exact this
  simp only [hflat]
  rw [← bind_sequence]
  cases hs : sequence (ax.map (fun a => lastSat (fun piece => (lastSat (qpos a.1) piece).isSome) a.2)) with
  | none => simp
  | some tup =>
    simp only [Option.bind_some]
    have hl := sequence_length _ _ hs
    rw [lastSat_product_zip _ tup (by simpa using hl)]


end Cfdm.Indexing
