import Cfdm.Lemmas.Append
/-
C17 — what holds of *every* program of the post-dry-run pass, whatever it decides: nothing of the dataset is
lost or renamed, but an unlimited dimension may have become longer.
-/
namespace Cfdm.Append

theorem Dim.grownFrom.refl (D : Dim) : D.grownFrom D := ⟨rfl, rfl, Nat.le_refl _, fun _ => rfl⟩

theorem Dim.grownFrom.trans {A B C : Dim} (h1 : B.grownFrom A) (h2 : C.grownFrom B) : C.grownFrom A := by
  obtain ⟨n1, u1, s1, f1⟩ := h1
  obtain ⟨n2, u2, s2, f2⟩ := h2
  refine ⟨n2.trans n1, u2.trans u1, Nat.le_trans s1 s2, ?_⟩
  intro hf
  rw [f2 (u1 ▸ hf), f1 hf]

theorem DimsGrown.refl : ∀ (l : List Dim), DimsGrown l l
  | [] => trivial
  | D :: t => ⟨Dim.grownFrom.refl D, DimsGrown.refl t⟩

theorem DimsGrown.grow (wr : List (Name × Nat)) : ∀ {old base : List Dim}, DimsGrown old base → DimsGrown (grow old wr) base
  | [], [], _ => trivial
  | D' :: t', D :: t, h => by
    simp only [DimsGrown] at h
    simp only [Cfdm.Append.grow, List.map_cons, DimsGrown]
    exact ⟨h.1.trans (growDim_grownFrom wr D'), DimsGrown.grow wr h.2⟩
  | [], _ :: _, h => by simp [DimsGrown] at h
  | _ :: _, [], h => by simp [DimsGrown] at h

theorem DimsGrown.names : ∀ {old base : List Dim}, DimsGrown old base → old.map (·.name) = base.map (·.name)
  | [], [], _ => rfl
  | D' :: t', D :: t, h => by
    simp only [DimsGrown] at h
    simp only [List.map_cons, h.1.1, DimsGrown.names h.2]
  | [], _ :: _, h => by simp [DimsGrown] at h
  | _ :: _, [], h => by simp [DimsGrown] at h

theorem ExtendsGrown.refl (E : Ds) : ExtendsGrown E E :=
  ⟨rfl, ⟨[], by simp⟩, ⟨E.dims, [], by simp, DimsGrown.refl _, by simp⟩⟩

theorem Extends.toGrown {E E' : Ds} (h : Extends E E') : ExtendsGrown E E' := by
  obtain ⟨nd, hd, hn⟩ := h.dims
  exact ⟨h.gattrs, h.vars, ⟨E.dims, nd, hd, DimsGrown.refl _, hn⟩⟩

theorem ExtendsGrown.dimNames {E D : Ds} (h : ExtendsGrown E D) : ∃ more, D.dimNames = E.dimNames ++ more := by
  obtain ⟨old, nd, hd, hg, _⟩ := h.dims
  exact ⟨nd.map (·.name), by simp [Ds.dimNames, hd, hg.names]⟩

theorem ExtendsGrown.varNames {E D : Ds} (h : ExtendsGrown E D) : ∃ more, D.varNames = E.varNames ++ more := by
  obtain ⟨nv, hv, _⟩ := h.vars
  exact ⟨nv.map (·.name), by simp [Ds.varNames, hv]⟩

/-- What holds at every moment of a post-dry-run pass started on `E`, whatever the program. -/
structure PostInvG (E : Ds) (fs : FileSt) : Prop where
  ext : ExtendsGrown E fs.ds
  created : ∀ n ∈ fs.created, n ∉ E.varNames

theorem PostInvG.init (E : Ds) : PostInvG E ⟨E, []⟩ := ⟨ExtendsGrown.refl E, by simp⟩

theorem PostInvG.createDim {E : Ds} {fs : FileSt} (h : PostInvG E fs) (d : Dim) (hd : d.name ∉ fs.ds.dimNames) :
    PostInvG E { fs with ds := { fs.ds with dims := fs.ds.dims ++ [d] } } := by
  obtain ⟨more, hm⟩ := h.ext.dimNames
  have hE : d.name ∉ E.dimNames := fun hc => hd (by rw [hm]; exact List.mem_append.mpr (Or.inl hc))
  obtain ⟨old, nd, hds, hg, hnd⟩ := h.ext.dims
  refine ⟨⟨h.ext.gattrs, h.ext.vars, ⟨old, nd ++ [d], by simp [hds], hg, ?_⟩⟩, h.created⟩
  intro w hw
  rcases List.mem_append.mp hw with h1 | h1
  · exact hnd w h1
  · simp at h1; subst h1; exact hE

theorem PostInvG.createVar {E : Ds} {fs : FileSt} (h : PostInvG E fs) (v : Var) (wr : List (Name × Nat)) (hv : v.name ∉ fs.ds.varNames) :
    PostInvG E { ds := { fs.ds with dims := grow fs.ds.dims wr, vars := fs.ds.vars ++ [v] }, created := fs.created ++ [v.name] } := by
  obtain ⟨more, hm⟩ := h.ext.varNames
  have hE : v.name ∉ E.varNames := fun hc => hv (by rw [hm]; exact List.mem_append.mpr (Or.inl hc))
  obtain ⟨nv, hvs, hnv⟩ := h.ext.vars
  obtain ⟨old, nd, hds, hg, hnd⟩ := h.ext.dims
  refine ⟨⟨h.ext.gattrs, ⟨nv ++ [v], by simp [hvs], ?_⟩, ⟨grow old wr, grow nd wr, by simp [hds, grow_append], hg.grow wr, ?_⟩⟩, ?_⟩
  · intro w hw
    rcases List.mem_append.mp hw with h1 | h1
    · exact hnv w h1
    · simp at h1; subst h1; exact hE
  · intro d hd
    unfold grow at hd
    obtain ⟨D, hD, rfl⟩ := List.mem_map.mp hd
    rw [growDim_name]; exact hnd D hD
  · intro n hn
    rcases List.mem_append.mp hn with h1 | h1
    · exact h.created n h1
    · simp at h1; subst h1; exact hE

theorem PostInvG.setAttr {E : Ds} {fs : FileSt} (h : PostInvG E fs) (n : Name) (k v : String) (hn : n ∈ fs.created) :
    PostInvG E { fs with ds := setVarAttr fs.ds n k v } := by
  have hE : n ∉ E.varNames := h.created n hn
  obtain ⟨nv, hvs, hnv⟩ := h.ext.vars
  refine ⟨⟨h.ext.gattrs, ⟨nv.map (fun x => if x.name == n then { x with attrs := x.attrs.filter (·.1 != k) ++ [(k, v)] } else x), ?_, ?_⟩, h.ext.dims⟩, h.created⟩
  · simp only [setVarAttr, hvs, List.map_append]
    rw [map_setattr_old n k v hE]
  · intro w hw
    obtain ⟨x, hx, rfl⟩ := List.mem_map.mp hw
    have := hnv x hx
    by_cases hc : (x.name == n) = true
    · simpa [hc] using this
    · simpa [hc] using this

/-- Every program of the post-dry-run pass — whatever it decides about names and dimensions — leaves the
global attributes, every old variable and every old dimension in place; the only thing that can happen to
the old dataset is that an unlimited dimension gets longer. -/
theorem run_post_grown (fx : Fix) (hg : fx.globalsGuarded = true) (E : Ds) {α : Type} (p : Prog α) :
    ∀ (r : Reg) (fs : FileSt), PostInvG E fs → PostInvG E (run fx .post p r fs).2.2 := by
  induction p with
  | pure a => intro r fs h; exact h
  | fail e => intro r fs h; exact h
  | mode k ih => intro r fs h; simp only [run]; exact ih _ r fs h
  | get k ih => intro r fs h; simp only [run]; exact ih _ r fs h
  | modAux g p ih => intro r fs h; simp only [run]; exact ih _ fs h
  | alloc b k ih => intro r fs h; simp only [run]; exact ih _ _ fs h
  | allocRole b s role k ih => intro r fs h; simp only [run]; exact ih _ _ fs h
  | noteDim n s p ih => intro r fs h; simp only [run]; exact ih _ fs h
  | addName n p ih => intro r fs h; simp only [run]; exact ih _ fs h
  | createDim d p ih =>
    intro r fs h
    simp only [run]
    split
    · exact ih r fs h
    · split
      · exact h
      · rename_i hc
        exact ih r _ (h.createDim d (by simpa using hc))
  | ensureDim d p ih =>
    intro r fs h
    simp only [run]
    split
    · exact ih r fs h
    · rename_i hc
      have : d.name ∉ fs.ds.dimNames := by
        intro hm; apply hc; simp [hm]
      exact ih r _ (h.createDim d this)
  | createVar v e p ih =>
    intro r fs h
    simp only [run]
    split
    · exact ih r fs h
    · split
      · exact h
      · rename_i hc
        split
        · exact h
        · split
          · exact h
          · exact ih r _ (h.createVar v _ (by simpa using hc))
  | setAttr n k v p ih =>
    intro r fs h
    simp only [run]
    split
    · exact ih r fs h
    · rename_i hc
      have : n ∈ fs.created := by
        by_cases hm : n ∈ fs.created
        · exact hm
        · exact absurd (by simp [hm]) hc
      exact ih r _ (h.setAttr n k v this)
  | setGlobal k v p ih =>
    intro r fs h
    simp only [run]
    split
    · rename_i hc; exact absurd hc (by simp [hg])
    · exact ih r fs h

theorem appendFull_grown (fx : Fix) (hg : fx.globalsGuarded = true) (nc4 : Bool) (E : Ds) (rb S : List FieldReq) :
    ExtendsGrown E (appendFull fx nc4 E rb S).2.1 := by
  unfold appendFull
  split
  · exact ExtendsGrown.refl E
  · split
    · exact ExtendsGrown.refl E
    · rename_i r _ _
      have h := run_post_grown fx hg E (emitAll fx E.gattrs S) (startPost fx E r) ⟨E, []⟩ (PostInvG.init E)
      split
      · rename_i heq; rw [heq] at h; exact h.ext
      · rename_i heq; rw [heq] at h; exact h.ext

end Cfdm.Append
