import Cfdm.Model.Dtype
/- The promotion lattice of the numeric netCDF types: `resultType` is the join of `safeCast`. -/
namespace Cfdm.Dtype

theorem resultType_comm (a b : DT) : resultType a b = resultType b a := by
  cases a <;> cases b <;> rfl

theorem resultType_idem (a : DT) : resultType a a = a := by
  cases a <;> rfl

/-- numpy's promotion is associative except on the `exotic` triples. -/
theorem resultType_assoc (a b c : DT) (h : exotic a b c = false) :
    resultType (resultType a b) c = resultType a (resultType b c) := by
  cases a <;> cases b <;> cases c <;> revert h <;> decide

theorem safeCast_refl (a : DT) : safeCast a a = true := by
  cases a <;> rfl

theorem safeCast_trans (a b c : DT) (h1 : safeCast a b = true) (h2 : safeCast b c = true) : safeCast a c = true := by
  cases a <;> cases b <;> cases c <;> revert h1 h2 <;> decide

theorem safeCast_antisymm (a b : DT) (h1 : safeCast a b = true) (h2 : safeCast b a = true) : a = b := by
  cases a <;> cases b <;> revert h1 h2 <;> decide

/-- `np.result_type(a, b)` is an upper bound of both in the safe-cast order, and a minimal one:
no other common upper bound can be cast safely to it.  (It is not always the LEAST upper bound:
`(i2, u2)` has the incomparable upper bounds `i4` and `f4`.) -/
theorem resultType_minimal_upper (a b : DT) :
    safeCast a (resultType a b) = true ∧ safeCast b (resultType a b) = true ∧
    ∀ c, safeCast a c = true → safeCast b c = true → safeCast c (resultType a b) = true → c = resultType a b := by
  refine ⟨by cases a <;> cases b <;> rfl, by cases a <;> cases b <;> rfl, ?_⟩
  intro c h1 h2 h3
  cases a <;> cases b <;> cases c <;> revert h1 h2 h3 <;> decide

/-- Swapping the order in which two attribute types are folded in changes nothing, off the exotic
triples. -/
theorem resultType_swap (d s a : DT) (h : exotic d s a = false) :
    resultType d (resultType a s) = resultType (resultType d s) a := by
  cases d <;> cases s <;> cases a <;> revert h <;> decide

end Cfdm.Dtype
