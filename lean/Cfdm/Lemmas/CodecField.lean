import Cfdm.Lemmas.CodecRead
/-
C01: the field the reader builds from the data variable of the written file.
-/
namespace Cfdm.Codec

theorem filterMap_bind_map {α β γ} (l : List α) (g : α → Option β) (h : β → Option γ) :
    (l.filterMap g).filterMap h = l.filterMap (fun a => (g a).bind h) := by
  rw [List.filterMap_filterMap]

theorem filterMap_map_some {α β γ} (l : List α) (F : α → Option β) (r : β → γ) :
    l.filterMap (fun a => (F a).map r) = (l.filterMap F).map r := by
  rw [List.map_filterMap]

/-- Without `formula_terms` and `grid_mapping` attributes in the dataset there are no domain
ancillaries and no coordinate references. -/
theorem readFT_none {nc : NcFile} (h : nc.formulaTerms = []) (v : NcVar) (c : Entry) : readFT nc v c = none := by
  unfold readFT
  cases c.con.ncvar with
  | none => rfl
  | some cn => simp [h]

theorem readB_empty {nc : NcFile} (h1 : nc.formulaTerms = []) (h2 : nc.gridMapping = []) (v : NcVar) (cons : List Entry) :
    readB nc v cons = ⟨[], [], [], []⟩ := by
  unfold readB
  have : (cons.filter Entry.isCoordinate).filterMap (readFT nc v) = [] := by
    apply List.filterMap_eq_nil_iff.mpr
    intro c _
    exact readFT_none h1 v c
  simp [this, h2]

theorem readVar_eq_A {nc : NcFile} (h1 : nc.formulaTerms = []) (h2 : nc.gridMapping = []) (v : NcVar) :
    readVar nc v = readVarA nc v := by
  unfold readVar
  simp only [readB_empty h1 h2]
  simp [readVarA]

theorem varRefs_eq_A {nc : NcFile} (h1 : nc.formulaTerms = []) (h2 : nc.gridMapping = []) (v : NcVar) :
    varRefs nc v = varRefsA nc v := by
  unfold varRefs
  simp [readB_empty h1 h2]

section
variable {o : Opts} {f : MField} {names : List (Slot × String)} (hwf : WFFieldB f) (hg : GoodNames f (wfAx f) names)
include hwf hg

omit hg in
theorem no_externals : (wfFile o f names).externals = [] := by
  unfold wfFile
  simp only
  have : (sortEntries (f.ofType .msr)).filter (fun e => e.con.external) = [] := by
    rw [List.filter_eq_nil_iff]
    intro e he
    have he' := (mem_ofType.mp (mem_sortEntries.mp he)).1
    obtain ⟨hs, _, _⟩ := wf_entry hwf he'
    simp [hs.2.2.2.2.1]
  rw [this]; rfl

/-- The variable of a cell measure or a field ancillary. -/
theorem simple_var {e : Entry} (he : e ∈ f.cons) (ht : e.con.ctype = .msr ∨ e.con.ctype = .fan) :
    (wfFile o f names).var? (nameOf names (.con e.key)) = some (plainVar names e (e.axes.map (piOf f names))) := by
  rw [var_con hwf hg he]
  have hcd := cdimsOf_wf (names := names) hwf he
  rw [not_scalar_of_type hwf he ht] at hcd
  simp only [Bool.false_eq_true, ↓reduceIte] at hcd
  unfold mainVar
  rcases ht with ht | ht <;> rw [ht] <;> simp only <;> rw [hcd]

omit hg in
theorem simple_subset {e : Entry} (he : e ∈ f.cons) (ht : e.con.ctype = .msr ∨ e.con.ctype = .fan) :
    subset (e.axes.map (piOf f names)) (f.dataAxes.map (piOf f names)) = true := by
  have hns := not_scalar_of_type hwf he ht
  have hall := axes_data hwf he (fun h => by rw [auxIsScalar_iff.mpr h] at hns; cases hns)
  unfold subset
  rw [List.all_eq_true]
  intro x hx
  obtain ⟨a, ha, rfl⟩ := List.mem_map.mp hx
  simpa using List.mem_map.mpr ⟨a, hall a ha, rfl⟩

theorem measures_ok :
    measuresOK (wfFile o f names) (dataVar o f (wfAx f) names).dims (dataVar o f (wfAx f) names).cellMeasures = true := by
  unfold measuresOK
  rw [List.all_eq_true]
  intro m hm
  have : m ∈ (sortEntries (f.ofType .msr)).map (fun e => (e.con.measure.getD "", nameOf names (.con e.key))) := hm
  obtain ⟨e, he, rfl⟩ := List.mem_map.mp this
  obtain ⟨he', ht⟩ := mem_ofType.mp (mem_sortEntries.mp he)
  simp only
  rw [simple_var hwf hg he' (Or.inl ht), dataVar_dims hwf]
  have := simple_subset (names := names) hwf he' (Or.inl ht)
  simp [plainVar, this]

theorem measure_entry {e : Entry} (he : e ∈ f.cons) (ht : e.con.ctype = .msr) :
    measureEntry (wfFile o f names) (e.con.measure.getD "", nameOf names (.con e.key)) = some (rd o f names e) := by
  unfold measureEntry
  simp only
  rw [no_externals hwf, simple_var hwf hg he (Or.inl ht)]
  simp only [List.contains_nil, Bool.false_eq_true, ↓reduceIte, Option.map_some]
  unfold rd rdCon
  rw [ht]
  simp only [plainVar]
  rw [arr_eta e.con.data]

theorem anc_ok :
    ancillaryOK (wfFile o f names) (dataVar o f (wfAx f) names).dims (dataVar o f (wfAx f) names).ancillary = true := by
  unfold ancillaryOK
  rw [List.all_eq_true]
  intro t ht'
  have : t ∈ (f.ofType .fan).map (fun e => nameOf names (.con e.key)) := ht'
  obtain ⟨e, he, rfl⟩ := List.mem_map.mp this
  obtain ⟨he', ht⟩ := mem_ofType.mp he
  rw [simple_var hwf hg he' (Or.inr ht), dataVar_dims hwf]
  have := simple_subset (names := names) hwf he' (Or.inr ht)
  simp [plainVar, this]

theorem anc_entry {e : Entry} (he : e ∈ f.cons) (ht : e.con.ctype = .fan) :
    ancEntry (wfFile o f names) (nameOf names (.con e.key)) = some (rd o f names e) := by
  unfold ancEntry
  rw [simple_var hwf hg he (Or.inr ht)]
  simp only [Option.map_some]
  unfold rd rdCon
  rw [ht]
  simp only [plainVar]
  rw [arr_eta e.con.data]

end

end Cfdm.Codec

namespace Cfdm.Codec

/-- The constructs in the order in which the reader creates them. -/
def readOrder (f : MField) : List Entry :=
  f.dataAxes.filterMap f.dimCoordOf ++ (wfAx f).roles.filterMap scalarOf ++ sortEntries (f.ofType .aux)
  ++ sortEntries (f.ofType .msr) ++ f.ofType .fan

/-- The size-1 axes the reader creates for scalar coordinate variables, by their constructs. -/
def scalarOrder (f : MField) : List Entry :=
  (wfAx f).roles.filterMap scalarOf ++ (sortEntries (f.ofType .aux)).filter (fun e => auxIsScalar f.dataAxes e)

theorem filterMap_congr' {α β} {l : List α} {g h : α → Option β} (H : ∀ a ∈ l, g a = h a) : l.filterMap g = l.filterMap h := by
  induction l with
  | nil => rfl
  | cons x xs ih =>
    rw [List.filterMap_cons, List.filterMap_cons, H x List.mem_cons_self, ih (fun a ha => H a (List.mem_cons_of_mem _ ha))]

theorem filterMap_some_map {α β} (l : List α) (r : α → β) : l.filterMap (fun a => some (r a)) = l.map r := by
  induction l with
  | nil => rfl
  | cons x xs ih => simp [ih]

section
variable {o : Opts} {f : MField} {names : List (Slot × String)} (hwf : WFFieldB f) (hg : GoodNames f (wfAx f) names)
include hwf hg

omit hwf hg in
theorem coordTokens_eq : coordTokens o f (wfAx f) names =
    (wfAx f).roles.filterMap (roleToken o names) ++ (sortEntries (f.ofType .aux)).map (fun e => nameOf names (.con e.key)) := rfl

theorem read_cons : (readVarA (wfFile o f names) (dataVar o f (wfAx f) names)).cons = (readOrder f).map (rd o f names) := by
  unfold readVarA readOrder
  simp only
  have hD := dataVar_dims (o := o) (names := names) hwf
  have h1 : (dataVar o f (wfAx f) names).dims.filterMap (dimEntry (wfFile o f names))
      = (f.dataAxes.filterMap f.dimCoordOf).map (rd o f names) := by
    rw [hD, List.filterMap_map, ← filterMap_map_some _ f.dimCoordOf]
    apply filterMap_congr'
    intro a ha
    exact dimEntry_data hwf hg ha
  have h2 : (dataVar o f (wfAx f) names).coordinates.filterMap (tokenEntry (wfFile o f names) (dataVar o f (wfAx f) names).dims)
      = ((wfAx f).roles.filterMap scalarOf).map (rd o f names) ++ (sortEntries (f.ofType .aux)).map (rd o f names) := by
    have : (dataVar o f (wfAx f) names).coordinates = coordTokens o f (wfAx f) names := rfl
    rw [this, coordTokens_eq, List.filterMap_append, filterMap_bind_map, List.filterMap_map, ← filterMap_map_some _ scalarOf]
    congr 1
    · apply filterMap_congr'
      intro ar har
      exact roleToken_entry hwf hg har
    · rw [← filterMap_some_map]
      apply filterMap_congr'
      intro e he
      obtain ⟨he', ht⟩ := mem_ofType.mp (mem_sortEntries.mp he)
      exact auxToken_entry hwf hg he' ht
  have h3 : (usedMeasures (wfFile o f names) (dataVar o f (wfAx f) names)).filterMap (measureEntry (wfFile o f names))
      = (sortEntries (f.ofType .msr)).map (rd o f names) := by
    unfold usedMeasures
    rw [measures_ok hwf hg]
    simp only [↓reduceIte]
    have : (dataVar o f (wfAx f) names).cellMeasures
        = (sortEntries (f.ofType .msr)).map (fun e => (e.con.measure.getD "", nameOf names (.con e.key))) := rfl
    rw [this, List.filterMap_map, ← filterMap_some_map]
    apply filterMap_congr'
    intro e he
    obtain ⟨he', ht⟩ := mem_ofType.mp (mem_sortEntries.mp he)
    exact measure_entry hwf hg he' ht
  have h4 : (usedAncillary (wfFile o f names) (dataVar o f (wfAx f) names)).filterMap (ancEntry (wfFile o f names))
      = (f.ofType .fan).map (rd o f names) := by
    unfold usedAncillary
    rw [anc_ok hwf hg]
    simp only [↓reduceIte]
    have : (dataVar o f (wfAx f) names).ancillary = (f.ofType .fan).map (fun e => nameOf names (.con e.key)) := rfl
    rw [this, List.filterMap_map, ← filterMap_some_map]
    apply filterMap_congr'
    intro e he
    obtain ⟨he', ht⟩ := mem_ofType.mp he
    exact anc_entry hwf hg he' ht
  rw [h1, h2, h3, h4]
  simp [List.map_append]

/-- The domain axis read from the netCDF dimension of a data axis. -/
theorem dimAxis_data {ka : Key × MAxis} (hka : ka ∈ f.axes) (had : ka.1 ∈ f.dataAxes) :
    dimAxis (wfFile o f names) (piOf f names ka.1)
      = (piOf f names ka.1, ⟨ka.2.size, some (piOf f names ka.1), ka.2.unlimited⟩) := by
  have hak : ka.1 ∈ f.axisKeys := mem_axisKeys.mpr ⟨ka, hka, rfl⟩
  obtain ⟨s, hs⟩ := dataAxis_slot had
  unfold dimAxis
  rw [pi_data hwf hak had hs, dim_axis hwf hg hka hs]
  rfl

theorem read_axes : (readVarA (wfFile o f names) (dataVar o f (wfAx f) names)).axes =
    f.dataAxes.map (fun a => dimAxis (wfFile o f names) (piOf f names a))
    ++ (scalarOrder f).map (fun e => (nameOf names (.con e.key), (⟨1, none, false⟩ : MAxis))) := by
  unfold readVarA scalarOrder
  simp only
  rw [dataVar_dims hwf, List.map_map]
  congr 1
  have : (dataVar o f (wfAx f) names).coordinates = coordTokens o f (wfAx f) names := rfl
  rw [this, coordTokens_eq, List.filterMap_append, filterMap_bind_map, List.filterMap_map, List.map_append,
    ← filterMap_map_some _ scalarOf]
  congr 1
  · apply filterMap_congr'
    intro ar har
    have := roleToken_axis (o := o) hwf hg har
    rw [dataVar_dims hwf] at this
    exact this
  · generalize hl : sortEntries (f.ofType .aux) = l
    have hmem : ∀ e ∈ l, e ∈ f.cons ∧ e.con.ctype = .aux := by
      intro e he; rw [← hl] at he; exact mem_ofType.mp (mem_sortEntries.mp he)
    clear hl
    induction l with
    | nil => rfl
    | cons x xs ih =>
      obtain ⟨hx, hxt⟩ := hmem x List.mem_cons_self
      have hax := auxToken_axis (o := o) hwf hg hx hxt
      rw [dataVar_dims hwf] at hax
      rw [List.filterMap_cons, Function.comp, hax, List.filter_cons]
      by_cases hsc : auxIsScalar f.dataAxes x = true
      · simp only [hsc, ↓reduceIte, List.map_cons]
        rw [ih (fun e he => hmem e (List.mem_cons_of_mem _ he))]
      · simp only [hsc, Bool.false_eq_true, ↓reduceIte]
        rw [ih (fun e he => hmem e (List.mem_cons_of_mem _ he))]

end

end Cfdm.Codec
