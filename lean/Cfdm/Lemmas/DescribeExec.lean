import Cfdm.Lemmas.Describe
/- Helper lemmas for the creation-commands round trip of C19. Core Lean only. -/
namespace Cfdm.Describe

theorem run_append (s : XS) (a b : List Cmd) :
    run s (a ++ b) = (run s a).bind (fun s' => run s' b) := by
  induction a generalizing s with
  | nil => simp [run]
  | cons c cs ih =>
    simp only [List.cons_append, run]
    cases step s c with
    | none => simp
    | some s' => exact ih s'

/-- `cmds`, started in any interpreter state whose field is `F`, succeed and leave field `G`. -/
def Takes (cmds : List Cmd) (F G : MField) : Prop :=
  ∀ s : XS, s.f = F → ∃ s', run s cmds = some s' ∧ s'.f = G

theorem Takes.nil (F : MField) : Takes [] F F := fun s h => ⟨s, rfl, h⟩

theorem Takes.append {a b : List Cmd} {F G H : MField} (h1 : Takes a F G) (h2 : Takes b G H) :
    Takes (a ++ b) F H := by
  intro s hs
  obtain ⟨s1, r1, f1⟩ := h1 s hs
  obtain ⟨s2, r2, f2⟩ := h2 s1 f1
  exact ⟨s2, by simp [run_append, r1, r2], f2⟩

/-! ### dictionaries -/

theorem insertAxis_append (k : Nat) (a : Axis) (l : List (Nat × Axis)) (h : k ∉ l.map (·.1)) :
    insertAxis k a l = l ++ [(k, a)] := by
  induction l with
  | nil => rfl
  | cons p l ih =>
    simp only [List.map_cons, List.mem_cons, not_or] at h
    simp only [insertAxis, List.cons_append]
    rw [if_neg (fun e => h.1 e.symm), ih h.2]

theorem insertEntry_append (e : Entry) (l : List Entry) (h : e.key ∉ l.map (·.key)) :
    insertEntry e l = l ++ [e] := by
  induction l with
  | nil => rfl
  | cons p l ih =>
    simp only [List.map_cons, List.mem_cons, not_or] at h
    simp only [insertEntry, List.cons_append]
    rw [if_neg (fun e' => h.1 e'.symm), ih h.2]

theorem nodupNat_iff (l : List Nat) : nodupNat l = true ↔ l.Nodup := by
  induction l with
  | nil => simp [nodupNat]
  | cons a l ih => simp [nodupNat, ih, List.nodup_cons]

theorem nodupKey_iff (l : List Key) : nodupKey l = true ↔ l.Nodup := by
  induction l with
  | nil => simp [nodupKey]
  | cons a l ih => simp [nodupKey, ih, List.nodup_cons]

theorem newId_range (k : Nat) : newId (List.range k) = k := by
  simp [newId, newIdGo]

/-! ### blocks -/

theorem takes_axisBlock (p : Nat × Axis) (F : MField) :
    Takes (axisBlock p) F { F with axes := insertAxis p.1 p.2 F.axes } := by
  intro s hs
  obtain ⟨k, ⟨size, ncdim⟩⟩ := p
  cases size <;> cases ncdim <;> simp [axisBlock, optCmd, run, step, hs]

theorem takes_axes (l : List (Nat × Axis)) (F : MField) (h : ((F.axes ++ l).map (·.1)).Nodup) :
    Takes (l.flatMap axisBlock) F { F with axes := F.axes ++ l } := by
  induction l generalizing F with
  | nil => simpa using Takes.nil F
  | cons p l ih =>
    simp only [List.flatMap_cons]
    have hp : p.1 ∉ F.axes.map (·.1) := by
      simp only [List.map_append, List.map_cons, List.nodup_append, List.mem_cons] at h
      intro hm
      exact h.2.2 _ hm _ (Or.inl rfl) rfl
    have h1 := takes_axisBlock p F
    rw [insertAxis_append _ _ _ hp] at h1
    have h2 := ih { F with axes := F.axes ++ [p] } (by simpa using h)
    simp only [List.append_assoc, List.cons_append, List.nil_append] at h2
    exact h1.append h2

/-- the construct-building commands leave the field alone and the construct in register `c` -/
theorem run_conCmds (t : CType) (c : Con) (s : XS) :
    ∃ s', run s (conCmds t c) = some s' ∧ s'.f = s.f ∧ s'.c = Reg.con t c := by
  obtain ⟨shape, ncvar, bounds⟩ := c
  cases shape <;> cases ncvar <;> cases bounds with
  | none => simp [conCmds, optCmd, run, step]
  | some b =>
    obtain ⟨hd, bn⟩ := b
    cases hd <;> cases bn <;> simp [conCmds, boundsCmds, optCmd, run, step]

theorem takes_conBlock (e : Entry) (F : MField) (hok : axesOk F.axes e.con.shape e.axes = true)
    (hdom : ¬ (F.isDomain = true ∧ e.key.t = CType.fan)) :
    Takes (conBlock e) F { F with cons := insertEntry e F.cons } := by
  intro s hs
  obtain ⟨s1, r1, f1, c1⟩ := run_conCmds e.key.t e.con s
  refine ⟨{ s1 with f := { s1.f with cons := insertEntry e s1.f.cons } }, ?_, ?_⟩
  · simp only [conBlock, run_append, r1, Option.bind_some, run, step, c1]
    simp [f1, hs, hok, hdom]
  · simp [f1, hs]

theorem takes_cons (l : List Entry) (F : MField)
    (hok : ∀ e ∈ l, axesOk F.axes e.con.shape e.axes = true)
    (hdom : ∀ e ∈ l, ¬ (F.isDomain = true ∧ e.key.t = CType.fan))
    (hnd : ((F.cons ++ l).map (·.key)).Nodup) :
    Takes (l.flatMap conBlock) F { F with cons := F.cons ++ l } := by
  induction l generalizing F with
  | nil => simpa using Takes.nil F
  | cons e l ih =>
    simp only [List.flatMap_cons]
    have he : e.key ∉ F.cons.map (·.key) := by
      simp only [List.map_append, List.map_cons, List.nodup_append, List.mem_cons] at hnd
      intro hm
      exact hnd.2.2 _ hm _ (Or.inl rfl) rfl
    have h1 := takes_conBlock e F (hok e (by simp)) (hdom e (by simp))
    rw [insertEntry_append _ _ he] at h1
    have h2 := ih { F with cons := F.cons ++ [e] }
      (fun x hx => hok x (by simp [hx])) (fun x hx => hdom x (by simp [hx])) (by simpa using hnd)
    simp only [List.append_assoc, List.cons_append, List.nil_append] at h2
    exact h1.append h2

/-- re-allocated keys: `n, n+1, …` in order -/
def renum {α} : Nat → List (Nat × α) → List (Nat × α)
  | _, [] => []
  | n, p :: l => (n, p.2) :: renum (n + 1) l

theorem renum_snd {α} (n : Nat) (l : List (Nat × α)) : (renum n l).map (·.2) = l.map (·.2) := by
  induction l generalizing n with
  | nil => rfl
  | cons p l ih => simp [renum, ih]

theorem renum_fst {α} (n : Nat) (l : List (Nat × α)) : (renum n l).map (·.1) = List.range' n l.length := by
  induction l generalizing n with
  | nil => rfl
  | cons p l ih => simp [renum, ih, List.range'_succ]

theorem run_refCmds (p : Nat × Ref) (s : XS) :
    ∃ s', run s (refBlock p) = some s' ∧
      s'.f = { s.f with refs := s.f.refs ++ [(newId (s.f.refs.map (·.1)), p.2)] } := by
  obtain ⟨k, ⟨ncvar, coords, ancils⟩⟩ := p
  cases ncvar <;> cases coords <;> cases ancils <;> simp [refBlock, optCmd, run, step]

theorem takes_refs (l : List (Nat × Ref)) (F : MField) (n : Nat)
    (hk : F.refs.map (·.1) = List.range n) :
    Takes (l.flatMap refBlock) F { F with refs := F.refs ++ renum n l } := by
  induction l generalizing F n with
  | nil => simpa [renum] using Takes.nil F
  | cons p l ih =>
    simp only [List.flatMap_cons, renum]
    have h1 : Takes (refBlock p) F { F with refs := F.refs ++ [(n, p.2)] } := by
      intro s hs
      obtain ⟨s1, r1, f1⟩ := run_refCmds p s
      refine ⟨s1, r1, ?_⟩
      rw [f1, hs, hk, newId_range]
    have h2 := ih { F with refs := F.refs ++ [(n, p.2)] } (n + 1)
      (by simp [hk, List.range_succ])
    simp only [List.append_assoc, List.cons_append, List.nil_append] at h2
    exact h1.append h2

theorem run_cmCmds (p : Nat × CM) (s : XS) (hd : s.f.isDomain = false) :
    ∃ s', run s (cmBlock p) = some s' ∧
      s'.f = { s.f with cms := s.f.cms ++ [(newId (s.f.cms.map (·.1)), p.2)] } := by
  obtain ⟨k, ⟨axes, method⟩⟩ := p
  cases axes <;> cases method <;> simp [cmBlock, optCmd, run, step, hd]

theorem takes_cms (l : List (Nat × CM)) (F : MField) (n : Nat) (hd : F.isDomain = false)
    (hk : F.cms.map (·.1) = List.range n) :
    Takes (l.flatMap cmBlock) F { F with cms := F.cms ++ renum n l } := by
  induction l generalizing F n with
  | nil => simpa [renum] using Takes.nil F
  | cons p l ih =>
    simp only [List.flatMap_cons, renum]
    have h1 : Takes (cmBlock p) F { F with cms := F.cms ++ [(n, p.2)] } := by
      intro s hs
      obtain ⟨s1, r1, f1⟩ := run_cmCmds p s (by rw [hs]; exact hd)
      refine ⟨s1, r1, ?_⟩
      rw [f1, hs, hk, newId_range]
    have h2 := ih { F with cms := F.cms ++ [(n, p.2)] } (n + 1) hd
      (by simp [hk, List.range_succ])
    simp only [List.append_assoc, List.cons_append, List.nil_append] at h2
    exact h1.append h2

/-! ### the order in which the constructs are met -/

theorem ofType_filter (f : MField) (u t : CType) :
    (f.ofType u).filter (fun e => e.key.t = t) = if u = t then f.ofType t else [] := by
  simp only [MField.ofType, List.filter_filter]
  split
  · rename_i h; subst h; simp
  · rename_i h
    rw [List.filter_eq_nil_iff]
    intro e _
    simp only [Bool.and_eq_true, decide_eq_true_eq, not_and]
    intro h1 h2; exact h (h2.symm.trans h1)

theorem flatMap_ofType_filter (f : MField) (ts : List CType) (hts : ts.Nodup) (t : CType) :
    (ts.flatMap (fun u => f.ofType u)).filter (fun e => e.key.t = t) =
      if t ∈ ts then f.ofType t else [] := by
  induction ts with
  | nil => simp
  | cons u ts ih =>
    simp only [List.nodup_cons] at hts
    simp only [List.flatMap_cons, List.filter_append, ofType_filter, ih hts.2, List.mem_cons]
    by_cases hut : u = t
    · subst hut; simp [hts.1]
    · have : ¬ t = u := fun h => hut h.symm
      simp [hut, this]

theorem flatMap_ofType_keys_nodup (f : MField) (ts : List CType) (hts : ts.Nodup)
    (hk : (f.cons.map (·.key)).Nodup) : ((ts.flatMap (fun u => f.ofType u)).map (·.key)).Nodup := by
  induction ts with
  | nil => simp
  | cons u ts ih =>
    simp only [List.nodup_cons] at hts
    simp only [List.flatMap_cons, List.map_append, List.nodup_append]
    refine ⟨?_, ih hts.2, ?_⟩
    · exact List.Nodup.sublist (List.Sublist.map _ List.filter_sublist) hk
    · intro a ha b hb hab
      subst hab
      simp only [List.mem_map, List.mem_flatMap] at ha hb
      obtain ⟨e1, he1, rfl⟩ := ha
      obtain ⟨e2, ⟨v, hv, he2⟩, hke⟩ := hb
      have t1 := (mem_ofType.mp he1).2
      have t2 := (mem_ofType.mp he2).2
      rw [← hke, t2] at t1
      exact hts.1 (t1 ▸ hv)


/-! ### assembling the round trip -/

theorem wf_unpack (f : MField) (h : wf f = true) :
    f.axisKeys.Nodup ∧ (f.cons.map (·.key)).Nodup ∧
    (∀ e ∈ f.cons, axesOk f.axes e.con.shape e.axes = true) ∧
    (∀ l shp, f.dataAxes = some l → f.data = some shp → sizesOf f.axes l = some shp) ∧
    (f.isDomain = true → f.data = none ∧ f.dataAxes = none ∧ f.cms = [] ∧
      ∀ e ∈ f.cons, e.key.t ≠ CType.fan) := by
  simp only [wf, Bool.and_eq_true, nodupNat_iff, nodupKey_iff, List.all_eq_true, entryOk] at h
  obtain ⟨⟨⟨⟨h1, h2⟩, h3⟩, h4⟩, h5⟩ := h
  refine ⟨h1, h2, h3, ?_, ?_⟩
  · intro l shp hl hs
    simpa [hl, hs] using h4
  · intro hd
    simp only [hd, Bool.not_true, Bool.false_or, Bool.and_eq_true, Option.isNone_iff_eq_none,
      List.isEmpty_iff, List.all_eq_true, decide_eq_true_eq] at h5
    exact ⟨h5.1.1.1, h5.1.1.2, h5.1.2, h5.2⟩

/-- what the emitted commands build -/
def rebuilt (order : List CType) (f : MField) : MField :=
  { f with
    cons := domainCons order f ++ (if f.isDomain then [] else f.ofType CType.fan)
    cms := renum 0 f.cms
    refs := renum 0 f.refs }

theorem mem_domainCons {order : List CType} {f : MField} {e : Entry} (h : e ∈ domainCons order f) :
    e ∈ f.cons ∧ e.key.t ≠ CType.fan := by
  simp only [domainCons, List.mem_flatMap, List.mem_filter, decide_eq_true_eq] at h
  obtain ⟨t, ⟨_, ht⟩, he⟩ := h
  have := mem_ofType.mp he
  exact ⟨this.1, this.2 ▸ ht⟩

theorem takes_header (f : MField) (hdom : f.isDomain = true → f.data = none) :
    Takes (optCmd f.ncvar Cmd.fNcVar ++ (if f.isDomain then [] else optCmd f.data Cmd.fSetData))
      (emptyField f.isDomain) { emptyField f.isDomain with ncvar := f.ncvar, data := f.data } := by
  intro s hs
  cases hd : f.isDomain with
  | true =>
    have := hdom hd
    cases hn : f.ncvar <;> simp [optCmd, run, step, hs, hd, this, emptyField]
  | false =>
    cases hn : f.ncvar <;> cases hda : f.data <;> simp [optCmd, run, step, hs, hd, emptyField]

theorem emitted_keys_nodup (order : List CType) (f : MField) (hord : order.Nodup)
    (hk : (f.cons.map (·.key)).Nodup) :
    ((domainCons order f ++ f.ofType CType.fan).map (·.key)).Nodup := by
  simp only [List.map_append, List.nodup_append]
  refine ⟨flatMap_ofType_keys_nodup f _ (List.Nodup.sublist List.filter_sublist hord) hk,
    List.Nodup.sublist (List.Sublist.map _ List.filter_sublist) hk, ?_⟩
  intro a ha b hb hab
  subst hab
  simp only [List.mem_map] at ha hb
  obtain ⟨e1, he1, rfl⟩ := ha
  obtain ⟨e2, he2, hke⟩ := hb
  have t1 := (mem_domainCons he1).2
  have t2 := (mem_ofType.mp he2).2
  rw [← hke] at t1
  exact t1 t2

theorem exec_creationCommands (order : List CType) (f : MField) (hord : order.Nodup)
    (h : wf f = true) : exec (creationCommands order f) = some (rebuilt order f) := by
  obtain ⟨hax, hck, hok, hda, hdm⟩ := wf_unpack f h
  -- the field after each phase
  let F0 : MField := { emptyField f.isDomain with ncvar := f.ncvar, data := f.data }
  let F1 : MField := { F0 with axes := f.axes }
  let F2 : MField := { F1 with cons := domainCons order f }
  let F3 : MField := { F2 with refs := renum 0 f.refs }
  have t0 : Takes _ (emptyField f.isDomain) F0 := takes_header f (fun hd => (hdm hd).1)
  have t1 : Takes (f.axes.flatMap axisBlock) F0 F1 := by
    have := takes_axes f.axes F0 (by simpa [F0, emptyField, MField.axisKeys] using hax)
    simpa [F0, F1, emptyField] using this
  have t2 : Takes ((domainCons order f).flatMap conBlock) F1 F2 := by
    have := takes_cons (domainCons order f) F1
      (fun e he => hok e (mem_domainCons he).1)
      (fun e he hh => (mem_domainCons he).2 hh.2)
      (by
        have := emitted_keys_nodup order f hord hck
        simp only [List.map_append, List.nodup_append] at this
        simpa [F1, F0, emptyField] using this.1)
    simpa [F0, F1, F2, emptyField] using this
  have t3 : Takes (f.refs.flatMap refBlock) F2 F3 := by
    have := takes_refs f.refs F2 0 (by simp [F2, F1, F0, emptyField])
    simpa [F0, F1, F2, F3, emptyField] using this
  have tdom : Takes (optCmd f.ncvar Cmd.fNcVar ++ (if f.isDomain then [] else optCmd f.data Cmd.fSetData)
      ++ domainCmds order f) (emptyField f.isDomain) F3 := by
    unfold domainCmds
    exact t0.append ((t1.append t2).append t3)
  have tfield : Takes (fieldCmds f) F3 (rebuilt order f) := by
    unfold fieldCmds
    cases hd : f.isDomain with
    | true =>
      obtain ⟨d1, d2, d3, _⟩ := hdm hd
      have : rebuilt order f = F3 := by
        simp [rebuilt, F3, F2, F1, F0, emptyField, hd, d1, d2, d3, renum]
      rw [this]
      simpa using Takes.nil F3
    | false =>
      simp only [Bool.false_eq_true, if_false]
      let F4 : MField := { F3 with cons := F3.cons ++ f.ofType CType.fan }
      let F5 : MField := { F4 with cms := renum 0 f.cms }
      have t4 : Takes ((f.ofType CType.fan).flatMap conBlock) F3 F4 := by
        have := takes_cons (f.ofType CType.fan) F3
          (fun e he => hok e (mem_ofType.mp he).1)
          (fun e _ hh => by simp [F3, F2, F1, F0, emptyField, hd] at hh)
          (by simpa [F3, F2, F1, F0, emptyField] using emitted_keys_nodup order f hord hck)
        simpa [F4] using this
      have t5 : Takes (f.cms.flatMap cmBlock) F4 F5 := by
        have := takes_cms f.cms F4 0 (by simp [F4, F3, F2, F1, F0, emptyField, hd])
          (by simp [F4, F3, F2, F1, F0, emptyField])
        simpa [F5, F4, F3, F2, F1, F0, emptyField] using this
      have t6 : Takes (optCmd f.dataAxes Cmd.setDataAxes) F5 (rebuilt order f) := by
        intro s hs
        have e5 : rebuilt order f = { F5 with dataAxes := f.dataAxes } := by
          simp [rebuilt, F5, F4, F3, F2, F1, F0, emptyField, hd]
        cases hl : f.dataAxes with
        | none =>
          refine ⟨s, by simp [optCmd, run], ?_⟩
          rw [hs, e5, hl]
          simp [F5, F4, F3, F2, F1, F0, emptyField]
        | some l =>
          have hdF : s.f.isDomain = false := by rw [hs]; simp [F5, F4, F3, F2, F1, F0, emptyField, hd]
          have haF : s.f.axes = f.axes := by rw [hs]
          have hDF : s.f.data = f.data := by rw [hs]
          cases hdat : f.data with
          | none =>
            refine ⟨{ s with f := { s.f with dataAxes := some l } }, ?_, ?_⟩
            · simp [optCmd, run, step, hdF, hDF, hdat]
            · simp [hs, e5, hl]
          | some shp =>
            refine ⟨{ s with f := { s.f with dataAxes := some l } }, ?_, ?_⟩
            · simp [optCmd, run, step, hdF, hDF, hdat, haF, hda l shp hl hdat]
            · simp [hs, e5, hl]
      exact (t4.append t5).append t6
  have tall := tdom.append tfield
  obtain ⟨s', r, fs⟩ := tall ⟨emptyField f.isDomain, Reg.empty, none⟩ rfl
  simp only [creationCommands, headerCmds, List.append_assoc, List.cons_append, List.nil_append, exec]
  simp only [List.append_assoc] at r
  rw [r]
  simp [fs]


theorem rebuilt_equiv (order : List CType) (f : MField) (hord : order.Nodup)
    (hall : ∀ t, t ≠ CType.fan → t ∈ order) (h : wf f = true) : Equiv (rebuilt order f) f := by
  obtain ⟨_, _, _, _, hdm⟩ := wf_unpack f h
  refine ⟨rfl, rfl, rfl, rfl, rfl, ?_, ?_, ?_, ?_, ?_⟩
  · intro t
    have hts : (order.filter (fun t => t ≠ CType.fan)).Nodup := List.Nodup.sublist List.filter_sublist hord
    show ((rebuilt order f).cons.filter (fun e => e.key.t = t)) = f.ofType t
    simp only [rebuilt, domainCons, List.filter_append, flatMap_ofType_filter f _ hts t,
      List.mem_filter, decide_eq_true_eq]
    by_cases ht : t = CType.fan
    · subst ht
      simp only [ne_eq, not_true_eq_false, and_false, if_false, List.nil_append]
      cases hd : f.isDomain with
      | true =>
        have := (hdm hd).2.2.2
        simp only [if_true, List.filter_nil]
        symm
        rw [MField.ofType, List.filter_eq_nil_iff]
        intro e he
        simpa using this e he
      | false =>
        simp only [Bool.false_eq_true, if_false, ofType_filter, if_true]
    · simp only [hall t ht, ne_eq, ht, not_false_eq_true, and_self, if_true]
      cases hd : f.isDomain with
      | true => simp
      | false =>
        have : ¬ CType.fan = t := fun h => ht h.symm
        simp [ofType_filter, this]
  · simp [rebuilt, renum_snd]
  · simp [rebuilt, renum_fst, List.range_eq_range']
  · simp [rebuilt, renum_snd]
  · simp [rebuilt, renum_fst, List.range_eq_range']


theorem renum_eq_self {α} (n : Nat) (l : List (Nat × α)) (h : l.map (·.1) = List.range' n l.length) :
    renum n l = l := by
  induction l generalizing n with
  | nil => rfl
  | cons p l ih =>
    simp only [List.map_cons, List.length_cons, List.range'_succ, List.cons.injEq] at h
    simp only [renum, ih (n + 1) h.2, List.cons.injEq, and_true]
    cases p; simp_all

end Cfdm.Describe
