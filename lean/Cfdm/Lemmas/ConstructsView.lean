import Cfdm.Lemmas.ConstructsStep
/-
C02 — a live view (`f.domain`, `Domain.fromconstructs(f.constructs)`, `Domain(source=f, copy=False)`, a
view of a view) shares the three dictionaries of the field and hides the cell methods and field
ancillaries.  A call through the view is the call through the field, unless it addresses something
the view hides, in which case it is refused and nothing changes.
-/
namespace Cfdm.Constructs

/-- the same call issued through the field instead of through the view -/
def Op.viaField : Op → Op
  | .setc _ t c key axes => .setc false t c key axes
  | .delc _ key => .delc false key
  | .setdak _ A key => .setdak false A key
  | .deldak _ key => .deldak false key
  | op => op

/-- the identifier belongs to a construct of a type that the view hides -/
def hiddenKey (s : St) (key : Key) : Bool :=
  match s.ctype.get key with
  | some t => ignored true t
  | none => false

/-- the call goes through a view and addresses a construct type / an identifier that the view hides -/
def Op.hiddenTarget (s : St) : Op → Bool
  | .setc true t _ _ _ => ignored true t
  | .delc true key => hiddenKey s key
  | .setdak true _ key => hiddenKey s key
  | .deldak true key => hiddenKey s key
  | _ => false

theorem typeOf_view_eq {s : St} {key : Key} (h : hiddenKey s key = false) : typeOf s true key = typeOf s false key := by
  unfold typeOf hiddenKey at *
  cases hk : s.ctype.get key with
  | none => rfl
  | some t =>
    simp only [hk] at h
    have h0 : ignored false t = false := by simp [ignored]
    simp only [h, h0]

theorem typeOf_view_none {s : St} {key : Key} (h : hiddenKey s key = true) : typeOf s true key = none := by
  unfold typeOf hiddenKey at *
  cases hk : s.ctype.get key with
  | none => rfl
  | some t => simp only [hk] at h; simp [h]

/-- **a call through a view that does not address anything hidden is the call through the field** -/
theorem view_eq_field {s : St} (h : Core s) (op : Op) (hv : op.hiddenTarget s = false) :
    step s op = step s op.viaField := by
  unfold step stepP
  cases op with
  | setc view t c key axes =>
    cases view with
    | false => rfl
    | true =>
      simp only [Op.hiddenTarget] at hv
      have h0 : ignored false t = false := by simp [ignored]
      simp only [Op.viaField, setConstruct, hv, h0, Bool.not_false, Bool.false_eq_true, ↓reduceIte]
  | delc view key =>
    cases view with
    | false => rfl
    | true =>
      simp only [Op.hiddenTarget] at hv
      simp only [Op.viaField, delConstruct]
      rw [typeOf_view_eq hv]
      cases typeOf s false key with
      | none => rfl
      | some t =>
        simp only [Bool.not_true, Bool.false_and, Bool.false_eq_true, ↓reduceIte, Bool.true_and, Bool.true_or,
          Bool.not_false]
        -- the field route asks the field's data axes first, the view route the copy kept by the constructs:
        -- the invariant keeps the two in step
        have hf : s.fda = s.dataAxes := h.fax.2
        rw [hf]
        generalize isAxis s key = b0
        generalize (s.dataAxes.getD []).contains key = b1
        generalize spansAny s.caxes key = b2
        generalize cmNames s key = b3
        cases b0 <;> cases b1 <;> cases b2 <;> cases b3 <;> rfl
  | setdak view A key =>
    cases view with
    | false => rfl
    | true =>
      simp only [Op.hiddenTarget] at hv
      simp only [Op.viaField, setConAxes]
      rw [typeOf_view_eq hv]
  | deldak view key =>
    cases view with
    | false => rfl
    | true =>
      simp only [Op.hiddenTarget] at hv
      simp only [Op.viaField, delConAxes]
      rw [typeOf_view_eq hv]
  | _ => rfl

/-- **a call through a view that addresses something hidden is refused and changes nothing** -/
theorem view_hidden_refused (s : St) (op : Op) (hv : op.hiddenTarget s = true) : step s op = (s, .rejected) := by
  unfold step stepP
  cases op with
  | setc view t c key axes =>
    cases view with
    | false => simp [Op.hiddenTarget] at hv
    | true => simp only [Op.hiddenTarget] at hv; simp [setConstruct, hv]
  | delc view key =>
    cases view with
    | false => simp [Op.hiddenTarget] at hv
    | true => simp only [Op.hiddenTarget] at hv; simp [delConstruct, typeOf_view_none hv]
  | setdak view A key =>
    cases view with
    | false => simp [Op.hiddenTarget] at hv
    | true => simp only [Op.hiddenTarget] at hv; simp [setConAxes, typeOf_view_none hv]
  | deldak view key =>
    cases view with
    | false => simp [Op.hiddenTarget] at hv
    | true =>
      simp only [Op.hiddenTarget] at hv
      simp only [delConAxes, typeOf_view_none hv]
      cases s.caxes.get key <;> rfl
  | _ => simp [Op.hiddenTarget] at hv

/-- **an identifier in use by a construct of another type is refused on every route** — also when the
view hides that construct: the guard of `_set_construct` reads the underlying `_construct_type`
dictionary, not the view-aware `construct_type()` -/
theorem setConstruct_key_in_use (s : St) (view : Bool) (t t' : CType) (c : Con) (k : Key) (axes : Option (List Key))
    (hk : s.ctype.get k = some t') (hne : t' ≠ t) :
    step s (.setc view t c (some k) axes) = (s, .rejected) := by
  unfold step stepP
  simp only [setConstruct, resolveKey, hk, Option.getD_some, hne, ↓reduceIte]
  split <;> rfl

end Cfdm.Constructs
