import Cfdm.Lemmas.CodecBasic
/-
C01: what `_netcdf_name` guarantees — the names handed out for variables and for dimensions of
axes are pairwise different; only trailing bounds dimensions may share a name (reuse by size).
-/
namespace Cfdm.Codec

def Slot.isBdim : Slot → Bool
  | .bdim _ => true
  | _ => false

/-- Invariant of the naming state. -/
structure NInv (st : NSt) : Prop where
  used : ∀ p ∈ st.names, p.2 ∈ st.used
  inj : ∀ p ∈ st.names, ∀ q ∈ st.names, p.2 = q.2 → p.1 = q.1 ∨ (p.1.isBdim = true ∧ q.1.isBdim = true)
  bd : ∀ d ∈ st.bdims, ∃ k, (Slot.bdim k, d.1) ∈ st.names

def slotsOf (names : List (Slot × String)) : List Slot := names.map (·.1)

/-- `st'` extends `st`: earlier names stay, the given slots are named. -/
structure Ext (st st' : NSt) (need : List Slot) : Prop where
  pre : ∃ ext, st'.names = st.names ++ ext
  has : ∀ s ∈ need, s ∈ slotsOf st'.names

theorem Ext.mono {st st' : NSt} {need : List Slot} (h : Ext st st' need) {s : Slot} (hs : s ∈ slotsOf st.names) :
    s ∈ slotsOf st'.names := by
  obtain ⟨ext, he⟩ := h.pre
  unfold slotsOf at *
  rw [he, List.map_append]
  exact List.mem_append_left _ hs

theorem Ext.trans {a b c : NSt} {n1 n2 : List Slot} (h1 : Ext a b n1) (h2 : Ext b c n2) : Ext a c (n1 ++ n2) := by
  constructor
  · obtain ⟨e1, he1⟩ := h1.pre
    obtain ⟨e2, he2⟩ := h2.pre
    exact ⟨e1 ++ e2, by rw [he2, he1, List.append_assoc]⟩
  · intro s hs
    rcases List.mem_append.mp hs with h | h
    · exact h2.mono (h1.has s h)
    · exact h2.has s h

theorem Ext.refl (a : NSt) : Ext a a [] := ⟨⟨[], by simp⟩, by simp⟩

theorem Ext.weaken {a b : NSt} {n1 n2 : List Slot} (h : Ext a b n1) (hsub : ∀ s ∈ n2, s ∈ n1) : Ext a b n2 :=
  ⟨h.pre, fun s hs => h.has s (hsub s hs)⟩

theorem mem_slotsOf_append_self (names : List (Slot × String)) (s : Slot) (n : String) :
    s ∈ slotsOf (names ++ [(s, n)]) := by simp [slotsOf]

theorem allocName_inv {st st' : NSt} {slot : Slot} {base : String} (hi : NInv st)
    (h : allocName st slot base = .ok st') : NInv st' ∧ Ext st st' [slot] ∧ st'.bdims = st.bdims := by
  unfold allocName at h
  split at h
  · cases h
  · rename_i n hn
    dsimp only at h
    split at h
    · cases h
    · rename_i hnot
      cases h
      have hfresh : underscore n ∉ st.used := by simpa using hnot
      refine ⟨⟨?_, ?_, ?_⟩, ⟨⟨[(slot, underscore n)], rfl⟩, ?_⟩, rfl⟩
      · intro p hp
        rcases List.mem_append.mp hp with h | h
        · exact List.mem_cons_of_mem _ (hi.used p h)
        · simp at h; subst h; exact List.mem_cons_self
      · intro p hp q hq hpq
        rcases List.mem_append.mp hp with h1 | h1 <;> rcases List.mem_append.mp hq with h2 | h2
        · exact hi.inj p h1 q h2 hpq
        · simp at h2; subst h2
          have h3 : p.2 = underscore n := hpq
          exact absurd (h3 ▸ hi.used p h1) hfresh
        · simp at h1; subst h1
          have h3 : underscore n = q.2 := hpq
          exact absurd (h3 ▸ hi.used q h2) hfresh
        · simp at h1 h2; subst h1; subst h2; exact Or.inl rfl
      · intro d hd
        obtain ⟨k, hk⟩ := hi.bd d hd
        exact ⟨k, List.mem_append_left _ hk⟩
      · intro s hs
        simp at hs; subst hs
        exact mem_slotsOf_append_self _ _ _

theorem rawName_inv {st st' : NSt} {slot : Slot} {name : String} (hi : NInv st)
    (h : rawName st slot name = .ok st') : NInv st' ∧ Ext st st' [slot] ∧ st'.bdims = st.bdims := by
  unfold rawName at h
  split at h
  · cases h
  · rename_i hnot
    cases h
    have hfresh : name ∉ st.used := by simpa using hnot
    refine ⟨⟨?_, ?_, ?_⟩, ⟨⟨[(slot, name)], rfl⟩, ?_⟩, rfl⟩
    · intro p hp
      rcases List.mem_append.mp hp with h | h
      · exact List.mem_cons_of_mem _ (hi.used p h)
      · simp at h; subst h; exact List.mem_cons_self
    · intro p hp q hq hpq
      rcases List.mem_append.mp hp with h1 | h1 <;> rcases List.mem_append.mp hq with h2 | h2
      · exact hi.inj p h1 q h2 hpq
      · simp at h2; subst h2
        have h3 : p.2 = name := hpq
        exact absurd (h3 ▸ hi.used p h1) hfresh
      · simp at h1; subst h1
        have h3 : name = q.2 := hpq
        exact absurd (h3 ▸ hi.used q h2) hfresh
      · simp at h1 h2; subst h1; subst h2; exact Or.inl rfl
    · intro d hd
      obtain ⟨k, hk⟩ := hi.bd d hd
      exact ⟨k, List.mem_append_left _ hk⟩
    · intro s hs
      simp at hs; subst hs
      exact mem_slotsOf_append_self _ _ _

theorem nameOf_mem {names : List (Slot × String)} {s : Slot} (h : s ∈ slotsOf names) : (s, nameOf names s) ∈ names := by
  unfold nameOf
  induction names with
  | nil => simp [slotsOf] at h
  | cons x xs ih =>
    rw [List.lookup_cons]
    by_cases hx : s = x.1
    · subst hx; simp
    · have : (s == x.1) = false := by simpa using hx
      rw [this]
      have h' : s ∈ slotsOf xs := by
        simp [slotsOf] at h
        rcases h with h | h
        · exact absurd h hx
        · simpa [slotsOf] using h
      exact List.mem_cons_of_mem _ (ih h')

theorem allocBounds_inv {st st' : NSt} {k : Key} {cn : String} {b : MBounds} (hi : NInv st)
    (h : allocBounds st k cn b = .ok st') : NInv st' ∧ Ext st st' [.bdim k, .bvar k] := by
  unfold allocBounds at h
  simp only at h
  split at h
  · rename_i d hd
    -- reuse of an existing bounds dimension
    have hdm : d ∈ st.bdims := List.mem_of_find?_eq_some hd
    obtain ⟨k', hk'⟩ := hi.bd d hdm
    have hi1 : NInv { st with names := st.names ++ [(Slot.bdim k, d.1)] } := by
      refine ⟨?_, ?_, ?_⟩
      · intro p hp
        rcases List.mem_append.mp hp with h | h
        · exact hi.used p h
        · simp at h; subst h; exact (hi.used (Slot.bdim k', d.1) hk' : d.1 ∈ st.used)
      · intro p hp q hq hpq
        rcases List.mem_append.mp hp with h1 | h1 <;> rcases List.mem_append.mp hq with h2 | h2
        · exact hi.inj p h1 q h2 hpq
        · simp at h2; subst h2
          rcases hi.inj p h1 _ hk' hpq with h | h
          · exact Or.inr ⟨by rw [h]; rfl, rfl⟩
          · exact Or.inr ⟨h.1, rfl⟩
        · simp at h1; subst h1
          rcases hi.inj q h2 _ hk' hpq.symm with h | h
          · exact Or.inr ⟨rfl, by rw [h]; rfl⟩
          · exact Or.inr ⟨rfl, h.1⟩
        · simp at h1 h2; subst h1; subst h2; exact Or.inl rfl
      · intro d' hd'
        obtain ⟨k2, hk2⟩ := hi.bd d' hd'
        exact ⟨k2, List.mem_append_left _ hk2⟩
    obtain ⟨hi2, he2, _⟩ := allocName_inv hi1 h
    refine ⟨hi2, ?_⟩
    have he1 : Ext st { st with names := st.names ++ [(Slot.bdim k, d.1)] } [.bdim k] :=
      ⟨⟨[(Slot.bdim k, d.1)], rfl⟩, by intro s hs; simp at hs; subst hs; exact mem_slotsOf_append_self _ _ _⟩
    exact he1.trans he2
  · split at h
    · cases h
    · rename_i st1 h1
      obtain ⟨hi1, he1, hb1⟩ := allocName_inv hi h1
      have hin : Slot.bdim k ∈ slotsOf st1.names := he1.has _ (List.mem_singleton_self _)
      have hpair := nameOf_mem hin
      have hi1' : NInv { st1 with bdims := st1.bdims ++ [((st1.names.lookup (Slot.bdim k)).getD "", b.nverts)] } := by
        refine ⟨hi1.used, hi1.inj, ?_⟩
        intro d hd
        rcases List.mem_append.mp hd with h | h
        · exact hi1.bd d h
        · simp at h; subst h
          exact ⟨k, hpair⟩
      obtain ⟨hi2, he2, _⟩ := allocName_inv hi1' h
      refine ⟨hi2, ?_⟩
      have he1' : Ext st { st1 with bdims := st1.bdims ++ [((st1.names.lookup (Slot.bdim k)).getD "", b.nverts)] } [.bdim k] :=
        ⟨he1.pre, he1.has⟩
      exact he1'.trans he2

/-- The slots a coordinate construct needs. -/
def coordSlots (e : Entry) : List Slot :=
  match e.con.bounds with
  | none => [.con e.key]
  | some _ => [.con e.key, .bdim e.key, .bvar e.key]

theorem allocCoord_inv {st st' : NSt} {e : Entry} {dflt : String} (hi : NInv st)
    (h : allocCoord st e dflt = .ok st') : NInv st' ∧ Ext st st' (coordSlots e) := by
  unfold allocCoord at h
  split at h
  · cases h
  · rename_i st1 h1
    obtain ⟨hi1, he1, _⟩ := allocName_inv hi h1
    unfold coordSlots
    cases hb : e.con.bounds with
    | none => rw [hb] at h; cases h; exact ⟨hi1, he1⟩
    | some b =>
      rw [hb] at h
      obtain ⟨hi2, he2⟩ := allocBounds_inv hi1 h
      exact ⟨hi2, he1.trans he2⟩

theorem allocDimCoord_inv {st st' : NSt} {e : Entry} {ax : Option MAxis} (hi : NInv st)
    (h : allocDimCoord st e ax = .ok st') : NInv st' ∧ Ext st st' (coordSlots e) := by
  unfold allocDimCoord at h
  simp only at h
  split at h
  · cases h
  · rename_i st1 h1
    have h1' : NInv st1 ∧ Ext st st1 [.con e.key] := by
      split at h1
      · obtain ⟨a, b, _⟩ := allocName_inv hi h1; exact ⟨a, b⟩
      · obtain ⟨a, b, _⟩ := allocName_inv hi h1; exact ⟨a, b⟩
      · obtain ⟨a, b, _⟩ := rawName_inv hi h1; exact ⟨a, b⟩
      · obtain ⟨a, b, _⟩ := allocName_inv hi h1; exact ⟨a, b⟩
    obtain ⟨hi1, he1⟩ := h1'
    unfold coordSlots
    cases hb : e.con.bounds with
    | none => rw [hb] at h; cases h; exact ⟨hi1, he1⟩
    | some b =>
      rw [hb] at h
      obtain ⟨hi2, he2⟩ := allocBounds_inv hi1 h
      exact ⟨hi2, he1.trans he2⟩

/-- The slots the loop over the axes names for one axis. -/
def axisSlots (ar : Key × Role) : List Slot :=
  match ar.2 with
  | .coordVar e => coordSlots e
  | .scalarDim e => coordSlots e
  | .plain => [.axis ar.1]
  | .none => []

theorem allocAxis_inv {f : MField} {st st' : NSt} {ar : Key × Role} (hi : NInv st)
    (h : allocAxis f st ar = .ok st') : NInv st' ∧ Ext st st' (axisSlots ar) := by
  unfold allocAxis at h
  unfold axisSlots
  split at h
  · rename_i e he; rw [he]; exact allocDimCoord_inv hi h
  · rename_i e he; rw [he]; exact allocCoord_inv hi h
  · rename_i he; rw [he]
    obtain ⟨a, b, _⟩ := allocName_inv hi h; exact ⟨a, b⟩
  · rename_i he; rw [he]; cases h; exact ⟨hi, Ext.refl _⟩

/-- Folding a naming step over a list keeps the invariant and names every needed slot. -/
theorem foldlE_inv {α} (step : NSt → α → Except Err NSt) (need : α → List Slot) (l : List α)
    (hstep : ∀ a ∈ l, ∀ s s', NInv s → step s a = .ok s' → NInv s' ∧ Ext s s' (need a))
    {st st' : NSt} (hi : NInv st) (h : foldlE step st l = .ok st') :
    NInv st' ∧ Ext st st' (l.flatMap need) := by
  induction l generalizing st with
  | nil => unfold foldlE at h; cases h; exact ⟨hi, by simpa using Ext.refl _⟩
  | cons a as ih =>
    unfold foldlE at h
    split at h
    · cases h
    · rename_i s1 h1
      obtain ⟨hi1, he1⟩ := hstep a List.mem_cons_self st s1 hi h1
      obtain ⟨hi2, he2⟩ := ih (fun b hb => hstep b (List.mem_cons_of_mem _ hb)) hi1 h
      refine ⟨hi2, ?_⟩
      rw [List.flatMap_cons]
      exact he1.trans he2

theorem allocMeasure_inv {st st' : NSt} {e : Entry} (hx : e.con.external = false) (hi : NInv st)
    (h : allocMeasure st e = .ok st') : NInv st' ∧ Ext st st' [.con e.key] := by
  unfold allocMeasure at h
  split at h
  · cases h
  · rw [hx] at h
    simp only [Bool.false_eq_true, ↓reduceIte] at h
    obtain ⟨a, b, _⟩ := allocName_inv hi h; exact ⟨a, b⟩

theorem allocAnc_inv {st st' : NSt} {e : Entry} (hi : NInv st)
    (h : allocAnc st e = .ok st') : NInv st' ∧ Ext st st' [.con e.key] := by
  unfold allocAnc at h
  obtain ⟨a, b, _⟩ := allocName_inv hi h; exact ⟨a, b⟩

theorem NInv.init : NInv ⟨[], [], []⟩ := ⟨by simp, by simp, by simp⟩

theorem danStep_fst (f : MField) (ax : AxSt) (acc : List (Entry × Option Entry)) (e : Entry) :
    (danStep f ax acc e).map (·.1) = acc.map (·.1) ++ [e] := by
  unfold danStep; simp

theorem foldl_danStep_fst (f : MField) (ax : AxSt) (l : List Entry) (acc : List (Entry × Option Entry)) :
    (l.foldl (danStep f ax) acc).map (·.1) = acc.map (·.1) ++ l := by
  induction l generalizing acc with
  | nil => simp
  | cons e es ih => rw [List.foldl_cons, ih, danStep_fst]; simp

/-- The plan lists the domain ancillaries in key order. -/
theorem danPlan_fst (f : MField) (ax : AxSt) : (danPlan f ax).map (·.1) = sortEntries (f.ofType .dan) := by
  unfold danPlan; rw [foldl_danStep_fst]; simp

theorem allocDan_inv {f : MField} {st st' : NSt} {pe : Entry × Option Entry} (hp : pe.2 = none) (hi : NInv st)
    (h : allocDan f st pe = .ok st') : NInv st' ∧ Ext st st' (coordSlots pe.1) := by
  unfold allocDan at h
  rw [hp] at h
  exact allocCoord_inv hi h

theorem allocGM_inv {st st' : NSt} {kr : Key × MRef} (hi : NInv st)
    (h : allocGM st kr = .ok st') : NInv st' ∧ Ext st st' [.gm kr.1] := by
  unfold allocGM at h
  split at h
  · cases h
  · rename_i st1 h1
    split at h
    · cases h
    · cases h
      obtain ⟨a, b, _⟩ := allocName_inv hi h1; exact ⟨a, b⟩

/-- What the structural proof needs of the names. -/
structure GoodNames (f : MField) (ax : AxSt) (names : List (Slot × String)) : Prop where
  inj : ∀ p ∈ names, ∀ q ∈ names, p.2 = q.2 → p.1 = q.1 ∨ (p.1.isBdim = true ∧ q.1.isBdim = true)
  axes : ∀ ar ∈ ax.roles, ∀ s ∈ axisSlots ar, s ∈ slotsOf names
  aux : ∀ e ∈ f.ofType .aux, ∀ s ∈ coordSlots e, s ∈ slotsOf names
  msr : ∀ e ∈ f.ofType .msr, Slot.con e.key ∈ slotsOf names
  fan : ∀ e ∈ f.ofType .fan, Slot.con e.key ∈ slotsOf names
  field : Slot.field ∈ slotsOf names
  dan : ∀ e ∈ f.ofType .dan, ∀ s ∈ coordSlots e, s ∈ slotsOf names
  gm : ∀ g ∈ gmRefs f, Slot.gm g.1 ∈ slotsOf names
  /-- no domain ancillary is a variable that is already in the file -/
  plan : ∀ pe ∈ danPlan f ax, pe.2 = none

/-- The names the writer hands out are good, when no domain ancillary is a variable that is already
in the file (`danPlan`). -/
theorem naming_good {f : MField} {ax : AxSt} {names : List (Slot × String)}
    (hx : ∀ e ∈ f.ofType .msr, e.con.external = false) (hns : ∀ pe ∈ danPlan f ax, pe.2 = none)
    (h : naming f ax = .ok names) : GoodNames f ax names := by
  unfold naming at h
  split at h
  · cases h
  · rename_i s1 h1
    split at h
    · cases h
    · rename_i s2 h2
      split at h
      · cases h
      · rename_i s2d h2d
        split at h
        · cases h
        · rename_i s3 h3
          split at h
          · cases h
          · rename_i s3g h3g
            split at h
            · cases h
            · rename_i s4 h4
              split at h
              · cases h
              · rename_i s5 h5
                cases h
                obtain ⟨i1, e1⟩ := foldlE_inv (allocAxis f) axisSlots ax.roles
                  (fun a _ s s' hs hh => allocAxis_inv hs hh) NInv.init h1
                obtain ⟨i2, e2⟩ := foldlE_inv (allocAux ax.dataLocal) coordSlots (sortEntries (f.ofType .aux))
                  (fun a _ s s' hs hh => by unfold allocAux at hh; exact allocCoord_inv hs hh) i1 h2
                obtain ⟨i2d, e2d⟩ := foldlE_inv (allocDan f) (fun pe => coordSlots pe.1) (danPlan f ax)
                  (fun a ha s s' hs hh => allocDan_inv (hns a ha) hs hh) i2 h2d
                obtain ⟨i3, e3⟩ := foldlE_inv allocMeasure (fun e => [Slot.con e.key]) (sortEntries (f.ofType .msr))
                  (fun a ha s s' hs hh => allocMeasure_inv (hx a (mem_sortEntries.mp ha)) hs hh) i2d h3
                obtain ⟨i3g, e3g⟩ := foldlE_inv allocGM (fun g => [Slot.gm g.1]) (gmRefs f)
                  (fun a _ s s' hs hh => allocGM_inv hs hh) i3 h3g
                obtain ⟨i4, e4⟩ := foldlE_inv allocAnc (fun e => [Slot.con e.key]) (f.ofType .fan)
                  (fun a _ s s' hs hh => allocAnc_inv hs hh) i3g h4
                obtain ⟨i5, e5, _⟩ := allocName_inv i4 h5
                have e45 := e4.trans e5
                have e3g45 := e3g.trans e45
                have e345 := e3.trans e3g45
                have e2d345 := e2d.trans e345
                have e2345 := e2.trans e2d345
                refine ⟨i5.inj, ?_, ?_, ?_, ?_, ?_, ?_, ?_, hns⟩
                · intro ar har s hs
                  exact e2345.mono (e1.has s (List.mem_flatMap.mpr ⟨ar, har, hs⟩))
                · intro e he s hs
                  exact e2d345.mono (e2.has s (List.mem_flatMap.mpr ⟨e, mem_sortEntries.mpr he, hs⟩))
                · intro e he
                  exact e3g45.mono (e3.has _ (List.mem_flatMap.mpr ⟨e, mem_sortEntries.mpr he, List.mem_singleton_self _⟩))
                · intro e he
                  exact e5.mono (e4.has _ (List.mem_flatMap.mpr ⟨e, he, List.mem_singleton_self _⟩))
                · exact e5.has _ (List.mem_singleton_self _)
                · intro e he s hs
                  have hm : e ∈ (danPlan f ax).map (·.1) := by rw [danPlan_fst]; exact mem_sortEntries.mpr he
                  obtain ⟨pe, hpe, rfl⟩ := List.mem_map.mp hm
                  exact e345.mono (e2d.has s (List.mem_flatMap.mpr ⟨pe, hpe, hs⟩))
                · intro g hg
                  exact e45.mono (e3g.has _ (List.mem_flatMap.mpr ⟨g, hg, List.mem_singleton_self _⟩))

/-- Two named slots with the same name are the same slot, unless both are bounds dimensions. -/
theorem GoodNames.nameOf_inj {f : MField} {ax : AxSt} {names : List (Slot × String)} (g : GoodNames f ax names)
    {s t : Slot} (hs : s ∈ slotsOf names) (ht : t ∈ slotsOf names) (h : nameOf names s = nameOf names t)
    (hb : s.isBdim = false ∨ t.isBdim = false) : s = t := by
  rcases g.inj _ (nameOf_mem hs) _ (nameOf_mem ht) h with h1 | h1
  · exact h1
  · rcases hb with hb | hb
    · rw [h1.1] at hb; cases hb
    · rw [h1.2] at hb; cases hb

end Cfdm.Codec
