import Cfdm.Lemmas.CodecAxes
import Cfdm.Lemmas.CodecNames
/-
C01: the file emitted for a well-formed stage-A field — which constructs get a variable, and
what a look-up by name finds in it.
-/
namespace Cfdm.Codec

/-- The result of the loop over the axes for a well-formed field. -/
def wfAx (f : MField) : AxSt := ⟨f.dataAxes, f.dataAxes, (sortKeys f.axisKeys).map (fun a => (a, wfRole f a))⟩

theorem roleOf_wfAx {f : MField} {a : Key} (ha : a ∈ f.axisKeys) : roleOf (wfAx f).roles a = wfRole f a := by
  unfold roleOf wfAx
  simp only
  have hm : a ∈ sortKeys f.axisKeys := mem_sortKeys.mpr ha
  generalize sortKeys f.axisKeys = l at hm
  induction l with
  | nil => cases hm
  | cons x xs ih =>
    rw [List.map_cons, List.lookup_cons]
    by_cases hx : a = x
    · subst hx; simp
    · have : (a == x) = false := by simpa using hx
      rw [this]
      rcases List.mem_cons.mp hm with h | h
      · exact absurd h hx
      · exact ih h

theorem mem_roles_wfAx {f : MField} {ar : Key × Role} : ar ∈ (wfAx f).roles ↔ ar.1 ∈ f.axisKeys ∧ ar.2 = wfRole f ar.1 := by
  unfold wfAx
  simp only [List.mem_map, mem_sortKeys]
  constructor
  · rintro ⟨a, ha, rfl⟩; exact ⟨ha, rfl⟩
  · rintro ⟨h1, h2⟩; exact ⟨ar.1, h1, by rw [← h2]⟩

section
variable {f : MField} (hwf : WFFieldB f)
include hwf

theorem wf_keys_inj {e e' : Entry} (he : e ∈ f.cons) (he' : e' ∈ f.cons) (hk : e.key = e'.key) : e = e' :=
  List.inj_on_of_nodup_map hwf.2.1 he he' hk

theorem wf_entry {e : Entry} (he : e ∈ f.cons) : WFEntry f e := hwf.2.2.2.2.1 e he


/-- A dimension coordinate of a well-formed field spans one axis, whose dimension coordinate it is. -/
theorem wf_dim {e : Entry} (he : e ∈ f.cons) (ht : e.con.ctype = .dim) :
    ∃ a, e.axes = [a] ∧ a ∈ f.axisKeys ∧ f.dimCoordOf a = some e := by
  obtain ⟨hs, hc, _⟩ := wf_entry hwf he
  obtain ⟨hlen, hd⟩ := hc.2.2 ht
  match hm : e.axes, hlen with
  | [a], _ =>
    refine ⟨a, rfl, hs.2.2.1 a (by rw [hm]; exact List.mem_singleton_self a), hd a (by rw [hm]; exact List.mem_singleton_self a)⟩

/-- The role of the axis of a dimension coordinate. -/
theorem wf_dim_role {e : Entry} (he : e ∈ f.cons) (ht : e.con.ctype = .dim) :
    ∃ a, e.axes = [a] ∧ a ∈ f.axisKeys ∧
      ((a ∈ f.dataAxes ∧ wfRole f a = .coordVar e) ∨ (a ∉ f.dataAxes ∧ wfRole f a = .scalarDim e)) := by
  obtain ⟨a, h1, h2, h3⟩ := wf_dim hwf he ht
  refine ⟨a, h1, h2, ?_⟩
  unfold wfRole
  rw [h3]
  by_cases hd : a ∈ f.dataAxes
  · left; exact ⟨hd, by simp [hd]⟩
  · right; exact ⟨hd, by simp [hd]⟩

theorem mem_written {e : Entry} : e ∈ written f (wfAx f) ↔ e ∈ f.cons ∧ e.con.ctype ≠ .dan := by
  unfold written
  simp only [List.mem_append, List.mem_filterMap, List.mem_filter, mem_sortEntries, mem_ofType]
  constructor
  · rintro (((⟨ar, har, hr⟩ | h) | h) | h)
    · obtain ⟨_, h2⟩ := mem_roles_wfAx.mp har
      unfold roleEntry at hr
      rw [h2] at hr
      unfold wfRole at hr
      cases hdc : f.dimCoordOf ar.1 with
      | none => rw [hdc] at hr; by_cases hd : ar.1 ∈ f.dataAxes <;> simp [hd] at hr
      | some e' =>
        rw [hdc] at hr
        have : e' = e := by by_cases hd : ar.1 ∈ f.dataAxes <;> simp [hd] at hr <;> exact hr
        subst this
        exact ⟨(dimCoordOf_some hdc).1, by rw [(dimCoordOf_some hdc).2.1]; decide⟩
    · exact ⟨h.1, by rw [h.2]; decide⟩
    · exact ⟨h.1.1, by rw [h.1.2]; decide⟩
    · exact ⟨h.1, by rw [h.2]; decide⟩
  · rintro ⟨he, hnd⟩
    obtain ⟨hs, _, _⟩ := wf_entry hwf he
    cases ht : e.con.ctype with
    | dim =>
      left; left; left
      obtain ⟨a, _, h2, h3⟩ := wf_dim_role hwf he ht
      rcases h3 with ⟨_, h3⟩ | ⟨_, h3⟩
      · exact ⟨(a, wfRole f a), mem_roles_wfAx.mpr ⟨h2, rfl⟩, by simp [roleEntry, h3]⟩
      · exact ⟨(a, wfRole f a), mem_roles_wfAx.mpr ⟨h2, rfl⟩, by simp [roleEntry, h3]⟩
    | aux => left; left; right; exact ⟨he, rfl⟩
    | msr => left; right; exact ⟨⟨he, rfl⟩, by simp [hs.2.2.2.2.1]⟩
    | fan => right; exact ⟨he, rfl⟩
    | dan => exact absurd ht hnd

end

/-- The variable of a construct itself (not its bounds). -/
def mainVar (f : MField) (names : List (Slot × String)) (ax : AxSt) (e : Entry) : NcVar :=
  match e.con.ctype with
  | .dim => coordVar f names e (cdimsOf names ax e)
  | .aux => coordVar f names e (cdimsOf names ax e)
  | _ => plainVar names e (cdimsOf names ax e)

theorem mainVar_name (f : MField) (names : List (Slot × String)) (ax : AxSt) (e : Entry) :
    (mainVar f names ax e).name = nameOf names (.con e.key) := by
  unfold mainVar; cases e.con.ctype <;> rfl

def isCoord (e : Entry) : Bool := e.con.ctype == .dim || e.con.ctype == .aux

/-- The constructs that can have a bounds variable. -/
def isBounded (e : Entry) : Bool := e.con.ctype == .dim || e.con.ctype == .aux || e.con.ctype == .dan

theorem isBounded_of_isCoord {e : Entry} (h : isCoord e = true) : isBounded e = true := by
  unfold isCoord at h; unfold isBounded; simp only [Bool.or_eq_true] at h ⊢; exact Or.inl h

theorem mem_danEntryVars {f : MField} {names : List (Slot × String)} {ax : AxSt} {e : Entry} {w : NcVar}
    (ht : e.con.ctype = .dan) :
    w ∈ danEntryVars names ax (e, none) ↔
      w = mainVar f names ax e ∨ (∃ b, e.con.bounds = some b ∧ w = boundsVar names e (cdimsOf names ax e) b) := by
  have hcd : cdimsOf names ax e = dimsOf names ax.roles e.axes := by unfold cdimsOf; rw [ht]
  unfold danEntryVars mainVar
  simp only [ht, hcd]
  cases hb : e.con.bounds <;> simp [or_comm]

theorem mem_entryVars {f : MField} {names : List (Slot × String)} {ax : AxSt} {e : Entry} {w : NcVar} :
    w ∈ entryVars f names ax e ↔
      w = mainVar f names ax e ∨ (isCoord e = true ∧ ∃ b, e.con.bounds = some b ∧ w = boundsVar names e (cdimsOf names ax e) b) := by
  unfold entryVars mainVar isCoord coordVars
  cases ht : e.con.ctype <;> cases hb : e.con.bounds <;> simp [or_comm]

end Cfdm.Codec

namespace Cfdm.Codec

/-- The file written for a well-formed field, given the names. -/
def wfFile (o : Opts) (f : MField) (names : List (Slot × String)) : NcFile :=
  { dims := (wfAx f).roles.flatMap (axisNcDim f names) ++ boundsDims f names
    vars := (written f (wfAx f)).flatMap (entryVars f names (wfAx f))
            ++ (danPlan f (wfAx f)).flatMap (danEntryVars names (wfAx f)) ++ (gmRefs f).map (gmVar names)
            ++ [dataVar o f (wfAx f) names]
    globals := f.props.filter isGlobal
    externals := ((sortEntries (f.ofType .msr)).filter (fun e => e.con.external)).map
                   (fun e => nameOf names (.con e.key))
    formulaTerms := ftTable f names
    gridMapping := gmTable f names }

theorem writeField'_wf {o : Opts} (ho : o.scalar = true) {f : MField} (hwf : WFFieldB f) {nc : NcFile}
    (h : writeField' o f = .ok nc) : ∃ names, naming f (wfAx f) = .ok names ∧ nc = wfFile o f names := by
  unfold writeField' at h
  rw [axesPhase_wf o ho f hwf] at h
  split at h
  · cases h
  · rename_i names hn
    refine ⟨names, hn, ?_⟩
    unfold emit at h
    split at h
    · cases h; rfl
    · cases h

section
variable {o : Opts} {f : MField} {names : List (Slot × String)} (hwf : WFFieldB f) (hg : GoodNames f (wfAx f) names)
include hwf hg

theorem slot_con {e : Entry} (he : e ∈ f.cons) : Slot.con e.key ∈ slotsOf names := by
  cases ht : e.con.ctype with
  | dim =>
    obtain ⟨a, _, h2, h3⟩ := wf_dim_role hwf he ht
    apply hg.axes (a, wfRole f a) (mem_roles_wfAx.mpr ⟨h2, rfl⟩)
    unfold axisSlots coordSlots
    rcases h3 with ⟨_, h3⟩ | ⟨_, h3⟩ <;> simp only [h3] <;> cases e.con.bounds <;> simp
  | aux =>
    apply hg.aux e (mem_ofType.mpr ⟨he, ht⟩)
    unfold coordSlots; cases e.con.bounds <;> simp
  | msr => exact hg.msr e (mem_ofType.mpr ⟨he, ht⟩)
  | fan => exact hg.fan e (mem_ofType.mpr ⟨he, ht⟩)
  | dan =>
    apply hg.dan e (mem_ofType.mpr ⟨he, ht⟩)
    unfold coordSlots; cases e.con.bounds <;> simp

theorem slot_bounds {e : Entry} (he : e ∈ f.cons) (hc : isBounded e = true) {b : MBounds} (hb : e.con.bounds = some b) :
    Slot.bvar e.key ∈ slotsOf names ∧ Slot.bdim e.key ∈ slotsOf names := by
  unfold isBounded at hc
  cases ht : e.con.ctype with
  | dim =>
    obtain ⟨a, _, h2, h3⟩ := wf_dim_role hwf he ht
    have := hg.axes (a, wfRole f a) (mem_roles_wfAx.mpr ⟨h2, rfl⟩)
    unfold axisSlots coordSlots at this
    rcases h3 with ⟨_, h3⟩ | ⟨_, h3⟩ <;> simp only [h3, hb] at this <;>
      exact ⟨this _ (by simp), this _ (by simp)⟩
  | aux =>
    have := hg.aux e (mem_ofType.mpr ⟨he, ht⟩)
    unfold coordSlots at this
    simp only [hb] at this
    exact ⟨this _ (by simp), this _ (by simp)⟩
  | msr => rw [ht] at hc; simp at hc
  | fan => rw [ht] at hc; simp at hc
  | dan =>
    have := hg.dan e (mem_ofType.mpr ⟨he, ht⟩)
    unfold coordSlots at this
    simp only [hb] at this
    exact ⟨this _ (by simp), this _ (by simp)⟩

theorem slot_axis {a : Key} (ha : a ∈ f.axisKeys) (hr : wfRole f a = .plain) : Slot.axis a ∈ slotsOf names := by
  apply hg.axes (a, wfRole f a) (mem_roles_wfAx.mpr ⟨ha, rfl⟩)
  unfold axisSlots
  simp [hr]

omit hwf in
/-- The plan of a domain ancillary of the field. -/
theorem dan_planned {e : Entry} (he : e ∈ f.cons) (ht : e.con.ctype = .dan) : (e, none) ∈ danPlan f (wfAx f) := by
  have hm : e ∈ (danPlan f (wfAx f)).map (·.1) := by
    rw [danPlan_fst]; exact mem_sortEntries.mpr (mem_ofType.mpr ⟨he, ht⟩)
  obtain ⟨pe, hpe, rfl⟩ := List.mem_map.mp hm
  have := hg.plan pe hpe
  have hpe' : pe = (pe.1, none) := by cases pe; simp at this; simp [this]
  rw [← hpe']; exact hpe

/-- Every variable of the file. -/
theorem mem_vars {w : NcVar} (hw : w ∈ (wfFile o f names).vars) :
    w = dataVar o f (wfAx f) names ∨ (∃ e ∈ f.cons,
      (w = mainVar f names (wfAx f) e ∨
        (isBounded e = true ∧ ∃ b, e.con.bounds = some b ∧ w = boundsVar names e (cdimsOf names (wfAx f) e) b)))
    ∨ (∃ g ∈ gmRefs f, w = gmVar names g) := by
  unfold wfFile at hw
  simp only [List.mem_append, List.mem_flatMap, List.mem_singleton, List.mem_map] at hw
  rcases hw with ((⟨e, he, hw⟩ | ⟨pe, hpe, hw⟩) | ⟨g, hg', hw⟩) | hw
  · right; left
    refine ⟨e, ((mem_written hwf).mp he).1, ?_⟩
    rcases mem_entryVars.mp hw with h | ⟨hc, h⟩
    · exact Or.inl h
    · exact Or.inr ⟨isBounded_of_isCoord hc, h⟩
  · right; left
    have hp2 := hg.plan pe hpe
    have hm : pe.1 ∈ (danPlan f (wfAx f)).map (·.1) := List.mem_map_of_mem hpe
    rw [danPlan_fst] at hm
    obtain ⟨he, ht⟩ := mem_ofType.mp (mem_sortEntries.mp hm)
    refine ⟨pe.1, he, ?_⟩
    have hpe' : pe = (pe.1, none) := by cases pe; simp at hp2; simp [hp2]
    rw [hpe'] at hw
    rcases (mem_danEntryVars (f := f) ht).mp hw with h | h
    · exact Or.inl h
    · exact Or.inr ⟨by simp [isBounded, ht], h⟩
  · right; right; exact ⟨g, hg', hw.symm⟩
  · left; exact hw

/-- A variable of the file is in the file. -/
theorem mainVar_mem {e : Entry} (he : e ∈ f.cons) : mainVar f names (wfAx f) e ∈ (wfFile o f names).vars := by
  unfold wfFile
  simp only [List.mem_append, List.mem_flatMap]
  by_cases ht : e.con.ctype = .dan
  · left; left; right
    exact ⟨(e, none), dan_planned hg he ht, (mem_danEntryVars (f := f) ht).mpr (Or.inl rfl)⟩
  · left; left; left
    exact ⟨e, (mem_written hwf).mpr ⟨he, ht⟩, mem_entryVars.mpr (Or.inl rfl)⟩

theorem boundsVar_mem {e : Entry} (he : e ∈ f.cons) (hc : isBounded e = true) {b : MBounds} (hb : e.con.bounds = some b) :
    boundsVar names e (cdimsOf names (wfAx f) e) b ∈ (wfFile o f names).vars := by
  unfold wfFile
  simp only [List.mem_append, List.mem_flatMap]
  by_cases ht : e.con.ctype = .dan
  · left; left; right
    exact ⟨(e, none), dan_planned hg he ht, (mem_danEntryVars (f := f) ht).mpr (Or.inr ⟨b, hb, rfl⟩)⟩
  · left; left; left
    have hc' : isCoord e = true := by
      unfold isBounded at hc; unfold isCoord
      cases h : e.con.ctype <;> simp [h] at hc ht ⊢
    exact ⟨e, (mem_written hwf).mpr ⟨he, ht⟩, mem_entryVars.mpr (Or.inr ⟨hc', b, hb, rfl⟩)⟩

theorem var_con {e : Entry} (he : e ∈ f.cons) :
    (wfFile o f names).var? (nameOf names (.con e.key)) = some (mainVar f names (wfAx f) e) := by
  unfold NcFile.var?
  rw [← mainVar_name f names (wfAx f) e]
  refine find?_of_unique _ (fun w : NcVar => w.name) _ (mainVar_mem hwf hg he) ?_
  intro w hw hname
  rw [mainVar_name] at hname
  rcases mem_vars hwf hg hw with h | ⟨e', he', h | ⟨hc, b, hb, h⟩⟩ | ⟨g, hg', h⟩
  · subst h
    have : Slot.field = Slot.con e.key := hg.nameOf_inj hg.field (slot_con hwf hg he) hname (Or.inl rfl)
    cases this
  · subst h
    rw [mainVar_name] at hname
    have : Slot.con e'.key = Slot.con e.key :=
      hg.nameOf_inj (slot_con hwf hg he') (slot_con hwf hg he) hname (Or.inl rfl)
    have hk : e'.key = e.key := by injection this
    rw [wf_keys_inj hwf he' he hk]
  · subst h
    have : Slot.bvar e'.key = Slot.con e.key :=
      hg.nameOf_inj (slot_bounds hwf hg he' hc hb).1 (slot_con hwf hg he) hname (Or.inl rfl)
    cases this
  · subst h
    have : Slot.gm g.1 = Slot.con e.key := hg.nameOf_inj (hg.gm g hg') (slot_con hwf hg he) hname (Or.inl rfl)
    cases this

theorem var_bvar {e : Entry} (he : e ∈ f.cons) (hc : isBounded e = true) {b : MBounds} (hb : e.con.bounds = some b) :
    (wfFile o f names).var? (nameOf names (.bvar e.key)) = some (boundsVar names e (cdimsOf names (wfAx f) e) b) := by
  unfold NcFile.var?
  have hn : (boundsVar names e (cdimsOf names (wfAx f) e) b).name = nameOf names (.bvar e.key) := rfl
  rw [← hn]
  refine find?_of_unique _ (fun w : NcVar => w.name) _ (boundsVar_mem hwf hg he hc hb) ?_
  intro w hw hname
  rw [hn] at hname
  have hs := (slot_bounds hwf hg he hc hb).1
  rcases mem_vars hwf hg hw with h | ⟨e', he', h | ⟨hc', b', hb', h⟩⟩ | ⟨g, hg', h⟩
  · subst h
    have : Slot.field = Slot.bvar e.key := hg.nameOf_inj hg.field hs hname (Or.inl rfl)
    cases this
  · subst h
    rw [mainVar_name] at hname
    have : Slot.con e'.key = Slot.bvar e.key := hg.nameOf_inj (slot_con hwf hg he') hs hname (Or.inl rfl)
    cases this
  · subst h
    have : Slot.bvar e'.key = Slot.bvar e.key :=
      hg.nameOf_inj (slot_bounds hwf hg he' hc' hb').1 hs hname (Or.inl rfl)
    have hk : e'.key = e.key := by injection this
    have hee := wf_keys_inj hwf he' he hk
    subst hee
    rw [hb] at hb'
    cases hb'
    rfl
  · subst h
    have : Slot.gm g.1 = Slot.bvar e.key := hg.nameOf_inj (hg.gm g hg') hs hname (Or.inl rfl)
    cases this

theorem var_field : (wfFile o f names).var? (nameOf names .field) = some (dataVar o f (wfAx f) names) := by
  unfold NcFile.var?
  have hn : (dataVar o f (wfAx f) names).name = nameOf names .field := rfl
  rw [← hn]
  refine find?_of_unique _ (fun w : NcVar => w.name) _ ?_ ?_
  · unfold wfFile; simp
  · intro w hw hname
    rw [hn] at hname
    rcases mem_vars hwf hg hw with h | ⟨e', he', h | ⟨hc', b', hb', h⟩⟩ | ⟨g, hg', h⟩
    · exact h
    · subst h
      rw [mainVar_name] at hname
      have : Slot.con e'.key = Slot.field := hg.nameOf_inj (slot_con hwf hg he') hg.field hname (Or.inl rfl)
      cases this
    · subst h
      have : Slot.bvar e'.key = Slot.field :=
        hg.nameOf_inj (slot_bounds hwf hg he' hc' hb').1 hg.field hname (Or.inl rfl)
      cases this
    · subst h
      have : Slot.gm g.1 = Slot.field := hg.nameOf_inj (hg.gm g hg') hg.field hname (Or.inl rfl)
      cases this

/-- The keys of the grid mappings the writer writes are those of the field's grid mappings. -/
theorem var_gm {g : Key × MRef} (hgm : g ∈ gmRefs f) (huniq : ∀ g' ∈ gmRefs f, g'.1 = g.1 → g' = g) :
    (wfFile o f names).var? (nameOf names (.gm g.1)) = some (gmVar names g) := by
  unfold NcFile.var?
  have hn : (gmVar names g).name = nameOf names (.gm g.1) := rfl
  rw [← hn]
  refine find?_of_unique _ (fun w : NcVar => w.name) _ ?_ ?_
  · unfold wfFile; simp only [List.mem_append, List.mem_map]
    left; right; exact ⟨g, hgm, rfl⟩
  · intro w hw hname
    rw [hn] at hname
    have hs := hg.gm g hgm
    rcases mem_vars hwf hg hw with h | ⟨e', he', h | ⟨hc', b', hb', h⟩⟩ | ⟨g', hg', h⟩
    · subst h
      have : Slot.field = Slot.gm g.1 := hg.nameOf_inj hg.field hs hname (Or.inl rfl)
      cases this
    · subst h
      rw [mainVar_name] at hname
      have : Slot.con e'.key = Slot.gm g.1 := hg.nameOf_inj (slot_con hwf hg he') hs hname (Or.inl rfl)
      cases this
    · subst h
      have : Slot.bvar e'.key = Slot.gm g.1 := hg.nameOf_inj (slot_bounds hwf hg he' hc' hb').1 hs hname (Or.inl rfl)
      cases this
    · subst h
      have : Slot.gm g'.1 = Slot.gm g.1 := hg.nameOf_inj (hg.gm g' hg') hs hname (Or.inl rfl)
      have hk : g'.1 = g.1 := by injection this
      rw [huniq g' hg' hk]

/-- No variable is called like the dimension of an axis without coordinate variable. -/
theorem var_axis {a : Key} (ha : a ∈ f.axisKeys) (hr : wfRole f a = .plain) :
    (wfFile o f names).var? (nameOf names (.axis a)) = none := by
  unfold NcFile.var?
  apply find?_none_of_forall
  intro w hw
  have hs := slot_axis hwf hg ha hr
  apply Bool.eq_false_iff.mpr
  intro hname
  have hname : w.name = nameOf names (.axis a) := by simpa using hname
  rcases mem_vars hwf hg hw with h | ⟨e', he', h | ⟨hc', b', hb', h⟩⟩ | ⟨g, hg', h⟩
  · subst h
    have : Slot.field = Slot.axis a := hg.nameOf_inj hg.field hs hname (Or.inl rfl)
    cases this
  · subst h
    rw [mainVar_name] at hname
    have : Slot.con e'.key = Slot.axis a := hg.nameOf_inj (slot_con hwf hg he') hs hname (Or.inl rfl)
    cases this
  · subst h
    have : Slot.bvar e'.key = Slot.axis a := hg.nameOf_inj (slot_bounds hwf hg he' hc' hb').1 hs hname (Or.inl rfl)
    cases this
  · subst h
    have : Slot.gm g.1 = Slot.axis a := hg.nameOf_inj (hg.gm g hg') hs hname (Or.inl rfl)
    cases this

end

end Cfdm.Codec

namespace Cfdm.Codec

theorem mem_dedupDims {acc l : List NcDim} {d : NcDim} (h : d ∈ dedupDims acc l) : d ∈ acc ∨ d ∈ l := by
  induction l generalizing acc with
  | nil => unfold dedupDims at h; exact Or.inl h
  | cons x xs ih =>
    unfold dedupDims at h
    split at h
    · rcases ih h with h | h
      · exact Or.inl h
      · exact Or.inr (List.mem_cons_of_mem _ h)
    · rcases ih h with h | h
      · rcases List.mem_append.mp h with h | h
        · exact Or.inl h
        · simp at h; subst h; exact Or.inr List.mem_cons_self
      · exact Or.inr (List.mem_cons_of_mem _ h)

section
variable {o : Opts} {f : MField} {names : List (Slot × String)} (hwf : WFFieldB f) (hg : GoodNames f (wfAx f) names)
include hwf hg

theorem wf_bounds_bounded {e : Entry} (he : e ∈ f.cons) {b : MBounds} (hb : e.con.bounds = some b) : isBounded e = true := by
  obtain ⟨hs, _, _⟩ := wf_entry hwf he
  unfold isBounded
  cases ht : e.con.ctype with
  | dim => simp
  | aux => simp
  | msr => have := (hs.2.2.2.2.2.2 (Or.inl ht)).1; rw [hb] at this; cases this
  | fan => have := (hs.2.2.2.2.2.2 (Or.inr ht)).1; rw [hb] at this; cases this
  | dan => simp

/-- A coordinate or cell measure / field ancillary with bounds is a coordinate. -/
theorem wf_bounds_coord {e : Entry} (he : e ∈ f.cons) (hnd : e.con.ctype ≠ .dan) {b : MBounds} (hb : e.con.bounds = some b) :
    isCoord e = true := by
  have := wf_bounds_bounded hwf hg he hb
  unfold isBounded at this; unfold isCoord
  cases ht : e.con.ctype <;> simp [ht] at this hnd ⊢

/-- The slot that names the netCDF dimension of an axis. -/
def dimSlot (f : MField) (a : Key) : Option Slot :=
  match wfRole f a with
  | .coordVar e => some (.con e.key)
  | .plain => some (.axis a)
  | _ => none

omit hwf hg in
theorem axisDim_wf {a : Key} (ha : a ∈ f.axisKeys) :
    axisDim names (wfAx f).roles a = (dimSlot f a).map (nameOf names) := by
  unfold axisDim dimSlot
  rw [roleOf_wfAx ha]
  cases wfRole f a <;> rfl

theorem dimSlot_mem {a : Key} (ha : a ∈ f.axisKeys) {s : Slot} (hs : dimSlot f a = some s) :
    s ∈ slotsOf names ∧ s.isBdim = false := by
  unfold dimSlot at hs
  cases hr : wfRole f a with
  | coordVar e =>
    rw [hr] at hs; cases hs
    unfold wfRole at hr
    cases hdc : f.dimCoordOf a with
    | none => rw [hdc] at hr; by_cases hd : a ∈ f.dataAxes <;> simp [hd] at hr
    | some e' =>
      rw [hdc] at hr
      have : e' = e := by by_cases hd : a ∈ f.dataAxes <;> simp [hd] at hr; exact hr
      subst this
      exact ⟨slot_con hwf hg (dimCoordOf_some hdc).1, rfl⟩
  | plain => rw [hr] at hs; cases hs; exact ⟨slot_axis hwf hg ha hr, rfl⟩
  | scalarDim e => rw [hr] at hs; cases hs
  | none => rw [hr] at hs; cases hs

theorem dimSlot_inj {a a' : Key} (ha : a ∈ f.axisKeys) (ha' : a' ∈ f.axisKeys) {s : Slot}
    (hs : dimSlot f a = some s) (hs' : dimSlot f a' = some s) : a = a' := by
  unfold dimSlot at hs hs'
  cases hr : wfRole f a with
  | coordVar e =>
    rw [hr] at hs; cases hs
    cases hr' : wfRole f a' with
    | coordVar e' =>
      rw [hr'] at hs'
      have hk : e'.key = e.key := by injection hs' with h; injection h
      unfold wfRole at hr hr'
      cases hdc : f.dimCoordOf a with
      | none => rw [hdc] at hr; by_cases hd : a ∈ f.dataAxes <;> simp [hd] at hr
      | some x =>
        cases hdc' : f.dimCoordOf a' with
        | none => rw [hdc'] at hr'; by_cases hd : a' ∈ f.dataAxes <;> simp [hd] at hr'
        | some x' =>
          rw [hdc] at hr; rw [hdc'] at hr'
          have h1 : x = e := by by_cases hd : a ∈ f.dataAxes <;> simp [hd] at hr; exact hr
          have h2 : x' = e' := by by_cases hd : a' ∈ f.dataAxes <;> simp [hd] at hr'; exact hr'
          subst h1; subst h2
          have hee := wf_keys_inj hwf (dimCoordOf_some hdc').1 (dimCoordOf_some hdc).1 hk
          have := (dimCoordOf_some hdc).2.2
          rw [← hee, (dimCoordOf_some hdc').2.2] at this
          injection this with h _
          exact h.symm
    | plain => rw [hr'] at hs'; cases hs'
    | scalarDim e' => rw [hr'] at hs'; cases hs'
    | none => rw [hr'] at hs'; cases hs'
  | plain =>
    rw [hr] at hs; cases hs
    cases hr' : wfRole f a' with
    | coordVar e' => rw [hr'] at hs'; cases hs'
    | plain => rw [hr'] at hs'; injection hs' with h; injection h with h; exact h.symm
    | scalarDim e' => rw [hr'] at hs'; cases hs'
    | none => rw [hr'] at hs'; cases hs'
  | scalarDim e => rw [hr] at hs; cases hs
  | none => rw [hr] at hs; cases hs

/-- Looking up the netCDF dimension of an axis. -/
theorem dim_axis {ka : Key × MAxis} (hka : ka ∈ f.axes) {s : Slot} (hs : dimSlot f ka.1 = some s) :
    (wfFile o f names).dim? (nameOf names s) = some ⟨nameOf names s, ka.2.size, ka.2.unlimited⟩ := by
  have ha : ka.1 ∈ f.axisKeys := mem_axisKeys.mpr ⟨ka, hka, rfl⟩
  have hax := axis?_of_mem hwf.1 hka
  unfold NcFile.dim?
  have hn : (⟨nameOf names s, ka.2.size, ka.2.unlimited⟩ : NcDim).name = nameOf names s := rfl
  rw [← hn]
  have key : ∀ (a' : Key) (r' : Role) (w : NcDim), (a', r') ∈ (wfAx f).roles → w ∈ axisNcDim f names (a', r') →
      ∃ ka' ∈ f.axes, ka'.1 = a' ∧ ∃ s', dimSlot f a' = some s' ∧ w = ⟨nameOf names s', ka'.2.size, ka'.2.unlimited⟩ := by
    intro a' r' w hm hw
    obtain ⟨h1, h2⟩ := mem_roles_wfAx.mp hm
    simp only at h1 h2
    obtain ⟨ka', hka', hk'⟩ := mem_axisKeys.mp h1
    have hax' := axis?_of_mem hwf.1 hka'
    rw [hk'] at hax'
    unfold axisNcDim at hw
    simp only [hax'] at hw
    refine ⟨ka', hka', hk', ?_⟩
    unfold dimSlot
    rw [← h2]
    cases r' with
    | coordVar e => simp at hw; exact ⟨_, rfl, hw⟩
    | plain => simp at hw; exact ⟨_, rfl, hw⟩
    | scalarDim e => simp at hw
    | none => simp at hw
  refine find?_of_unique _ (fun w : NcDim => w.name) _ ?_ ?_
  · unfold wfFile
    simp only [List.mem_append, List.mem_flatMap]
    left
    refine ⟨(ka.1, wfRole f ka.1), mem_roles_wfAx.mpr ⟨ha, rfl⟩, ?_⟩
    unfold axisNcDim
    simp only [hax]
    unfold dimSlot at hs
    cases hr : wfRole f ka.1 with
    | coordVar e => rw [hr] at hs; cases hs; simp
    | plain => rw [hr] at hs; cases hs; simp
    | scalarDim e => rw [hr] at hs; cases hs
    | none => rw [hr] at hs; cases hs
  · intro w hw hname
    obtain ⟨hsm, hsb⟩ := dimSlot_mem hwf hg ha hs
    unfold wfFile at hw
    simp only [List.mem_append, List.mem_flatMap] at hw
    rcases hw with ⟨⟨a', r'⟩, hm, hw⟩ | hw
    · obtain ⟨ka', hka', hk', s', hs', hw'⟩ := key a' r' w hm hw
      subst hw'
      have ha' : a' ∈ f.axisKeys := (mem_roles_wfAx.mp hm).1
      obtain ⟨hsm', hsb'⟩ := dimSlot_mem hwf hg ha' hs'
      have hss : s' = s := hg.nameOf_inj hsm' hsm hname (Or.inl hsb')
      subst hss
      have haa : ka.1 = a' := dimSlot_inj hwf hg ha ha' hs hs'
      have hkk : ka' = ka := by
        have h1 := axis?_of_mem hwf.1 hka'
        rw [hk', ← haa, hax] at h1
        cases ka; cases ka'
        simp at h1 hk' haa
        simp [h1, hk', haa]
      rw [hkk]
    · unfold boundsDims at hw
      rcases mem_dedupDims hw with h | h
      · cases h
      · obtain ⟨e, he, heq⟩ := List.mem_filterMap.mp h
        cases hb : e.con.bounds with
        | none => rw [hb] at heq; cases heq
        | some b =>
          rw [hb] at heq
          simp at heq
          subst heq
          have hbs := (slot_bounds hwf hg he (wf_bounds_bounded hwf hg he hb) hb).2
          have : Slot.bdim e.key = s := hg.nameOf_inj hbs hsm hname (Or.inr hsb)
          subst this
          cases hsb

end

end Cfdm.Codec
