import Cfdm.Lemmas.AppendDims
/-
C17 — every request of the writer keeps the invariant: no array is written that is longer (or shorter) than
an existing unlimited dimension it lies on.
-/
namespace Cfdm.Append

theorem lookup_mem {β : Type} {l : List (Nat × β)} {k : Nat} {v : β} (h : lookup l k = some v) : (k, v) ∈ l := by
  unfold lookup at h
  cases hf : l.find? (fun x => x.1 == k) with
  | none => rw [hf] at h; cases h
  | some p =>
    rw [hf] at h
    have hm := List.mem_of_find?_eq_some hf
    have hp : p.1 = k := by simpa using List.find?_some hf
    have hs : p.2 = v := by simpa using h
    rw [← hp, ← hs]; exact hm

theorem shapeOK_of_axisDims {E : Ds} {sz : Nat → Nat} {a : Aux} (hs : ∀ p ∈ a.axisDim, DimFits E p.2 (sz p.1)) :
    ∀ (axes : List Nat) (ncdims : List Name), axisDims a axes = some ncdims → ShapeOK E ncdims (axes.map sz) := by
  intro axes
  induction axes with
  | nil =>
    intro ncdims h
    simp [axisDims] at h
    subst h; simp [ShapeOK]
  | cons ax t ih =>
    intro ncdims h
    simp only [axisDims, List.mapM_cons] at h
    cases h1 : lookup a.axisDim ax with
    | none => simp [h1] at h
    | some d =>
      cases h2 : t.mapM (lookup a.axisDim) with
      | none => simp [h1, h2] at h
      | some ds =>
        simp [h1, h2] at h
        subst h
        simp only [List.map_cons, ShapeOK]
        exact ⟨hs (ax, d) (lookup_mem h1), ih ds h2⟩

theorem alreadyInFile_spec {a : Aux} {c : Cons} {ncdims : Option (List Name)} {it : Bool} {e : SeenE}
    (h : alreadyInFile a c ncdims it = some e) : e ∈ a.seen ∧ e.shape = c.shape ∧ (∀ d, ncdims = some d → e.ncdims = some d) := by
  unfold alreadyInFile at h
  have hm := List.mem_of_find?_eq_some h
  have hp := List.find?_some h
  simp only [Bool.and_eq_true, Bool.or_eq_true, beq_iff_eq] at hp
  refine ⟨hm, hp.1.2, ?_⟩
  intro d hd
  subst hd
  simpa using hp.1.1.1


theorem triple_modA {fx : Fix} {E : Ds} {P : Reg → Prop} {Q : Unit → Reg → Prop} (g : Aux → Aux)
    (h : ∀ r, P r → Q () { r with aux := g r.aux }) : Triple fx E P (modA g) Q := by
  unfold modA
  exact Triple.modAux (P' := Q ()) h (Triple.pure' (Q := Q) ())

theorem RInv.addLocalSpan {E : Ds} {sz : Nat → Nat} {r : Reg} (h : RInv E sz r) (d : Name) (n : Nat) (sp : List (Nat × Nat × Nat))
    (ul : List Name) (hf : DimFits E d n) :
    RInv E sz { r with aux := { r.aux with localSpans := r.aux.localSpans ++ [(d, n, sp)], unlimDims := ul } } := by
  refine ⟨h.names, ?_, h.safe⟩
  obtain ⟨a, b, c, e⟩ := h.agrees
  refine ⟨a, b, ?_, e⟩
  intro x hx
  rcases List.mem_append.mp hx with h1 | h1
  · exact c x h1
  · simp at h1; subst h1; exact hf

/-- The axis branch of `_write_field_or_domain` (an axis without dimension coordinate): whichever dimension the
axis is given — one stored with an equal spanning construct, the registered dimension it names, or a new
one — that dimension, if it is an unlimited dimension of the dataset, has the length of the axis. -/
theorem triple_axisDim {fx : Fix} (hb : fx.blanks = true) (hp : fx.pinnedSize = true) {E : Ds} {sz : Nat → Nat}
    (axis size : Nat) (unlim : Bool) (base : Name) (spanning : List (Nat × Nat × Nat)) (pinned : Bool)
    (hw : (Req.axisDim axis size unlim base spanning pinned).wf sz) :
    Triple fx E (RInv E sz) (emitReq fx (.axisDim axis size unlim base spanning pinned)) (fun _ => RInv E sz) := by
  simp only [emitReq]
  simp only [Req.wf] at hw
  apply Triple.bind triple_getAux
  intro a
  split
  · rename_i d s1 cs1 heq
    have hm := List.mem_of_find?_eq_some heq
    have hc := List.find?_some heq
    simp only [Bool.and_eq_true, beq_iff_eq] at hc
    apply triple_modA
    intro r h
    obtain ⟨h, rfl⟩ := h
    apply h.setAxis axis d
    rw [hw, ← hc.1.1]
    exact h.agrees.2.1 _ hm
  · apply Triple.bind triple_getNm
    intro nm
    simp only [hp, ↓reduceIte]
    split
    · rename_i hc
      simp only [Bool.and_eq_true, beq_iff_eq] at hc
      apply triple_modA
      intro r h
      obtain ⟨⟨h, rfl⟩, rfl⟩ := h
      apply h.setAxis axis base
      rw [hw]
      exact h.fits_of_size hc.1.1.1.2
    · apply Triple.bind ((triple_allocN hb _).weaken (fun _ h => h.1.1) (fun _ _ h => h.1))
      intro ncdim
      apply Triple.bind (triple_writeDimension ncdim axis size unlim)
      intro _
      apply triple_modA
      intro r h
      exact h.1.addLocalSpan ncdim size spanning _ (DimFits.of_not_mem _ h.2)

theorem Triple.ite {fx : Fix} {E : Ds} {α : Type} {P : Reg → Prop} {Q : α → Reg → Prop} {c : Prop} [Decidable c] {t e : Prog α}
    (ht : c → Triple fx E P t Q) (he : ¬c → Triple fx E P e Q) : Triple fx E P (if c then t else e) Q := by
  by_cases h : c
  · rw [if_pos h]; exact ht h
  · rw [if_neg h]; exact he h

theorem Triple.pre {fx : Fix} {E : Ds} {α : Type} {P P' : Reg → Prop} {Q : α → Reg → Prop} {p : Prog α}
    (hpre : ∀ r, P' r → P r) (h : Triple fx E P p Q) : Triple fx E P' p Q :=
  h.weaken hpre (fun _ _ h => h)

theorem triple_failK {fx : Fix} {E : Ds} {α : Type} {P : Reg → Prop} {Q : α → Reg → Prop} (s : String) :
    Triple fx E P (failK s : Prog α) Q := by
  unfold failK; exact Triple.fail _

theorem triple_dimCoord {fx : Fix} (hb : fx.blanks = true) {E : Ds} {sz : Nat → Nat}
    (key axis : Nat) (c : Cons) (base ncdim : Option Name) (size : Nat) (unlim : Bool) (b : Option BReq)
    (hw : (Req.dimCoord key axis c base ncdim size unlim b).wf sz) :
    Triple fx E (RInv E sz) (emitReq fx (.dimCoord key axis c base ncdim size unlim b)) (fun _ => RInv E sz) := by
  simp only [emitReq]
  simp only [Req.wf] at hw
  obtain ⟨hshape, hsz, hbw⟩ := hw
  have body : ∀ ncvar : Name, Triple fx E (RInv E sz)
      (do writeDimension ncvar axis size unlim
          let extra ← writeBounds b [ncvar] ncvar c
          writeVar ncvar [ncvar] c extra
          setKeyVar key (some ncvar)) (fun _ => RInv E sz) := by
    intro ncvar
    apply Triple.bind (triple_writeDimension ncvar axis size unlim)
    intro _
    apply Triple.of_pure
    intro hn
    have hs : ShapeOK E [ncvar] [size] := ShapeOK.single (DimFits.of_not_mem _ hn)
    apply Triple.bind (triple_writeBounds hb b [ncvar] ncvar c [size] hs hbw)
    intro extra
    apply Triple.bind (triple_writeVar hb ncvar [ncvar] c extra [] none (by rw [hshape]; exact hs) (by rw [hshape]; exact hs.headFits))
    intro _
    exact triple_setKeyVar key _
  apply Triple.bind triple_getAux
  intro a
  apply Triple.ite
  · intro _
    apply Triple.pre (P := RInv E sz) (fun r h => h.1)
    split
    · apply Triple.bind ((triple_allocN hb _).weaken (fun _ h => h) (fun _ _ h => h.1))
      intro ncvar
      exact body ncvar
    · split
      · apply Triple.ite
        · intro _
          apply Triple.bind ((triple_allocN hb _).weaken (fun _ h => h) (fun _ _ h => h.1))
          intro ncvar
          exact body ncvar
        · intro _
          exact body _
      · apply Triple.bind ((triple_allocN hb _).weaken (fun _ h => h) (fun _ _ h => h.1))
        intro ncvar
        exact body ncvar
  · intro _
    split
    · rename_i e heq
      obtain ⟨hm, hsh, _⟩ := alreadyInFile_spec heq
      apply Triple.pre (P := fun r => RInv E sz r ∧ SeenFits E e)
      · intro r h
        obtain ⟨h, rfl⟩ := h
        exact ⟨h, h.agrees.2.2.2 e hm⟩
      apply Triple.of_pure
      intro hfit
      apply Triple.bind (triple_setKeyVar key _)
      intro _
      split
      · rename_i d tl hnd
        apply triple_modA
        intro r h
        apply h.setAxis axis d
        unfold SeenFits at hfit
        rw [hnd, hsh, hshape] at hfit
        rw [hsz]
        exact hfit
      · exact triple_failK _
    · exact (Triple.pure' (Q := fun _ => RInv E sz) ()).pre (fun r h => h.1)

theorem pre_shape {E : Ds} {sz : Nat → Nat} {a : Aux} {axes : List Nat} {ncdims : List Name}
    (heq : axisDims a axes = some ncdims) (r : Reg) (h : RInv E sz r ∧ a = r.aux) :
    RInv E sz r ∧ ShapeOK E ncdims (axes.map sz) := by
  obtain ⟨h, rfl⟩ := h
  exact ⟨h, shapeOK_of_axisDims h.safe axes ncdims heq⟩

theorem triple_scalarCoord {fx : Fix} (hb : fx.blanks = true) {E : Ds} {sz : Nat → Nat}
    (key axis : Nat) (c : Cons) (base : Name) (b : Option BReq)
    (hw : (Req.scalarCoord key axis c base b).wf sz) :
    Triple fx E (RInv E sz) (emitReq fx (.scalarCoord key axis c base b)) (fun _ => RInv E sz) := by
  simp only [emitReq]
  simp only [Req.wf] at hw
  obtain ⟨hshape, hbw⟩ := hw
  have tail : ∀ ncvar : Name, Triple fx E (RInv E sz)
      (do modA (fun a => { a with axisScalar := a.axisScalar.filter (·.1 != axis) ++ [(axis, ncvar)], coords := a.coords ++ [ncvar] })
          setKeyVar key (some ncvar)) (fun _ => RInv E sz) := by
    intro ncvar
    tframe
    intro _
    exact triple_setKeyVar key _
  have hs : ShapeOK E [] ([] : List Nat) := by simp [ShapeOK]
  apply Triple.bind triple_getAux
  intro a
  apply Triple.pre (P := RInv E sz) (fun r h => h.1)
  split
  · exact tail _
  · apply Triple.bind ((triple_allocN hb _).weaken (fun _ h => h) (fun _ _ h => h.1))
    intro ncvar
    apply Triple.bind (triple_writeBounds hb b [] ncvar c [] hs hbw)
    intro extra
    apply Triple.bind (triple_writeVar hb ncvar [] c extra [] none (by rw [hshape]; exact hs) (by rw [hshape]; exact hs.headFits))
    intro _
    exact tail ncvar

theorem triple_aux {fx : Fix} (hb : fx.blanks = true) {E : Ds} {sz : Nat → Nat}
    (key : Nat) (c : Cons) (axes : List Nat) (base : Name) (b : Option BReq)
    (hw : (Req.aux key c axes base b).wf sz) :
    Triple fx E (RInv E sz) (emitReq fx (.aux key c axes base b)) (fun _ => RInv E sz) := by
  simp only [emitReq]
  simp only [Req.wf] at hw
  obtain ⟨hshape, hbw⟩ := hw
  have tail : ∀ ncvar : Name, Triple fx E (RInv E sz)
      (do setKeyVar key (some ncvar)
          modA (fun a => { a with coords := a.coords ++ [ncvar] })) (fun _ => RInv E sz) := by
    intro ncvar
    apply Triple.bind (triple_setKeyVar key _)
    intro _
    exact triple_modA_frame _ (fun _ => rfl) (fun _ => rfl) (fun _ => rfl) (fun _ => rfl)
  apply Triple.bind triple_getAux
  intro a
  split
  · exact triple_failK _
  · rename_i ncdims heq
    apply Triple.pre (pre_shape heq)
    apply Triple.of_pure
    intro hs
    split
    · exact tail _
    · apply Triple.bind ((triple_allocN hb _).weaken (fun _ h => h) (fun _ _ h => h.1))
      intro ncvar
      apply Triple.bind (triple_writeBounds hb b ncdims ncvar c _ hs hbw)
      intro extra
      apply Triple.bind (triple_writeVar hb ncvar ncdims c extra [] none (by rw [hshape]; exact hs) (by rw [hshape]; exact hs.headFits))
      intro _
      exact tail ncvar

theorem triple_domAnc {fx : Fix} (hb : fx.blanks = true) {E : Ds} {sz : Nat → Nat}
    (key : Nat) (c : Cons) (axes : List Nat) (base : Name) (b : Option BReq)
    (hw : (Req.domAnc key c axes base b).wf sz) :
    Triple fx E (RInv E sz) (emitReq fx (.domAnc key c axes base b)) (fun _ => RInv E sz) := by
  simp only [emitReq]
  simp only [Req.wf] at hw
  obtain ⟨hshape, hbw⟩ := hw
  apply Triple.bind triple_getAux
  intro a
  split
  · exact triple_failK _
  · rename_i ncdims heq
    apply Triple.pre (pre_shape heq)
    apply Triple.of_pure
    intro hs
    split
    · exact triple_setKeyVar key _
    · apply Triple.bind ((triple_allocN hb _).weaken (fun _ h => h) (fun _ _ h => h.1))
      intro ncvar
      apply Triple.bind (triple_writeBounds hb b ncdims ncvar c _ hs hbw)
      intro extra
      apply Triple.bind (triple_writeVar hb ncvar ncdims c [] [] none (by rw [hshape]; exact hs) (by rw [hshape]; exact hs.headFits))
      intro _
      exact triple_setKeyVar key _

theorem triple_fieldAnc {fx : Fix} (hb : fx.blanks = true) {E : Ds} {sz : Nat → Nat}
    (key : Nat) (c : Cons) (axes : List Nat) (base : Name)
    (hw : (Req.fieldAnc key c axes base).wf sz) :
    Triple fx E (RInv E sz) (emitReq fx (.fieldAnc key c axes base)) (fun _ => RInv E sz) := by
  simp only [emitReq]
  simp only [Req.wf] at hw
  apply Triple.bind triple_getAux
  intro a
  split
  · exact triple_failK _
  · rename_i ncdims heq
    apply Triple.pre (pre_shape heq)
    apply Triple.of_pure
    intro hs
    split
    · exact triple_setKeyVar key _
    · apply Triple.bind ((triple_allocN hb _).weaken (fun _ h => h) (fun _ _ h => h.1))
      intro ncvar
      apply Triple.bind (triple_writeVar hb ncvar ncdims c [] [] none (by rw [hw]; exact hs) (by rw [hw]; exact hs.headFits))
      intro _
      exact triple_setKeyVar key _

theorem triple_gridMap {fx : Fix} (hb : fx.blanks = true) {E : Ds} {sz : Nat → Nat}
    (c : Cons) (base : Name) (cks : List Nat) (multiple : Bool) :
    Triple fx E (RInv E sz) (emitReq fx (.gridMap c base cks multiple)) (fun _ => RInv E sz) := by
  simp only [emitReq]
  apply Triple.bind triple_getAux
  intro a
  apply Triple.pre (P := RInv E sz) (fun r h => h.1)
  split
  · exact Triple.pure' (Q := fun _ => RInv E sz) ()
  · apply Triple.bind ((triple_allocN hb _).weaken (fun _ h => h) (fun _ _ h => h.1))
    intro ncvar
    apply Triple.createVar (by simp [ShapeOK])
    apply triple_modA
    intro r h
    exact h.regSeen c ncvar _ (fun l hl => by cases hl; simp [HeadFits])

theorem triple_msr {fx : Fix} (hb : fx.blanks = true) (hg : fx.globalsGuarded = true) {E : Ds} {sz : Nat → Nat}
    (key : Nat) (c : Cons) (axes : List Nat) (base : Name) (meas : String) (ext : Option Name)
    (hw : (Req.msr key c axes base meas ext).wf sz) :
    Triple fx E (RInv E sz) (emitReq fx (.msr key c axes base meas ext)) (fun _ => RInv E sz) := by
  simp only [emitReq]
  simp only [Req.wf] at hw
  apply Triple.bind triple_getAux
  intro a
  split
  · exact triple_failK _
  · rename_i ncdims heq
    apply Triple.pre (pre_shape heq)
    apply Triple.of_pure
    intro hs
    split
    · exact triple_setKeyVar key _
    · split
      · rename_i ncvar
        apply Triple.bind (Q := fun _ => RInv E sz)
        · apply Triple.ite
          · intro _; exact triple_modA_frame _ (fun _ => rfl) (fun _ => rfl) (fun _ => rfl) (fun _ => rfl)
          · intro _; exact Triple.pure' (Q := fun _ => RInv E sz) ()
        intro _
        apply Triple.bind (Q := fun _ => RInv E sz)
        · apply Triple.ite
          · intro _; exact Triple.pure' (Q := fun _ => RInv E sz) ()
          · intro _
            tframe
            intro _
            exact Triple.setGlobal hg (Triple.pure' (Q := fun _ => RInv E sz) ())
        intro _
        exact triple_setKeyVar key _
      · have hsh : c.shape = axes.map sz := by
          rcases hw with h | h
          · simp at h
          · exact h
        apply Triple.bind ((triple_allocN hb _).weaken (fun _ h => h) (fun _ _ h => h.1))
        intro ncvar
        apply Triple.bind (triple_writeVar hb ncvar ncdims c [] [] none (by rw [hsh]; exact hs) (by rw [hsh]; exact hs.headFits))
        intro _
        exact triple_setKeyVar key _

theorem triple_writeScalars {fx : Fix} (hb : fx.blanks = true) {E : Ds} {sz : Nat → Nat} :
    ∀ (params : List (String × Cons)), (∀ p ∈ params, p.2.shape = []) →
      Triple fx E (RInv E sz) (writeScalars params) (fun _ => RInv E sz) := by
  intro params
  induction params with
  | nil => intro _; simp only [writeScalars]; exact Triple.pure' (Q := fun _ => RInv E sz) _
  | cons p rest ih =>
    intro hw
    obtain ⟨t, c⟩ := p
    have hc : c.shape = [] := hw (t, c) (by simp)
    have hs : ShapeOK E [] c.shape := by rw [hc]; simp [ShapeOK]
    have tail : ∀ ncvar : Name, Triple fx E (RInv E sz)
        (do let more ← writeScalars rest; pure (s!"{t}: {ncvar}" :: more)) (fun _ => RInv E sz) := by
      intro ncvar
      apply Triple.bind (ih (fun q hq => hw q (List.mem_cons_of_mem _ hq)))
      intro more
      exact Triple.pure' (Q := fun _ => RInv E sz) _
    simp only [writeScalars]
    apply Triple.bind triple_getAux
    intro a
    apply Triple.pre (P := RInv E sz) (fun r h => h.1)
    split
    · exact tail _
    · apply Triple.bind ((triple_allocN hb _).weaken (fun _ h => h) (fun _ _ h => h.1))
      intro ncvar
      apply Triple.bind (triple_writeVar hb ncvar [] c [] [] none hs hs.headFits)
      intro _
      exact tail ncvar

theorem triple_formula {fx : Fix} (hb : fx.blanks = true) {E : Ds} {sz : Nat → Nat} (owner zaxis : Nat)
    (terms : List (String × Nat × List Nat)) (params : List (String × Cons))
    (hw : (Req.formula owner zaxis terms params).wf sz) :
    Triple fx E (RInv E sz) (emitReq fx (.formula owner zaxis terms params)) (fun _ => RInv E sz) := by
  simp only [emitReq]
  simp only [Req.wf] at hw
  apply Triple.bind (triple_writeScalars hb params hw)
  intro pft
  apply Triple.bind triple_getAux
  intro a
  apply Triple.pre (P := RInv E sz) (fun r h => h.1)
  apply Triple.ite
  · intro _; exact Triple.pure' (Q := fun _ => RInv E sz) ()
  · intro _
    split
    · apply Triple.bind triple_getMode
      intro m
      apply Triple.pre (P := RInv E sz) (fun r h => h.1)
      apply Triple.bind (Q := fun _ => RInv E sz)
      · apply Triple.ite
        · intro _; exact Triple.pure' (Q := fun _ => RInv E sz) ()
        · intro _; exact Triple.setAttr (Triple.pure' (Q := fun _ => RInv E sz) ())
      intro _
      split
      · apply Triple.ite
        · intro _; exact Triple.pure' (Q := fun _ => RInv E sz) ()
        · intro _; exact Triple.setAttr (Triple.pure' (Q := fun _ => RInv E sz) ())
      · exact Triple.pure' (Q := fun _ => RInv E sz) ()
    · exact triple_failK _

theorem triple_emitData {fx : Fix} (hb : fx.blanks = true) {E : Ds} {sz : Nat → Nat} (reqs : List Req) (q : Req) (hw : q.wf sz) :
    Triple fx E (RInv E sz) (emitData reqs q) (fun _ => RInv E sz) := by
  cases q with
  | data c base axes cms isDomain =>
    simp only [emitData]
    simp only [Req.wf] at hw
    apply Triple.bind triple_getAux
    intro a
    split
    · exact triple_failK _
    · rename_i ncdims heq
      apply Triple.pre (pre_shape heq)
      apply Triple.of_pure
      intro hs
      apply Triple.bind ((triple_allocN hb _).weaken (fun _ h => h) (fun _ _ h => h.1))
      intro ncvar
      apply Triple.bind triple_getAux
      intro a2
      apply Triple.pre (P := RInv E sz) (fun r h => h.1)
      have hsh : ShapeOK E (if isDomain = true then [] else ncdims) c.shape := by
        cases isDomain with
        | true => simp at hw; simp [hw, ShapeOK]
        | false => simp at hw; simp only [Bool.false_eq_true, ↓reduceIte, hw]; exact hs
      exact triple_writeVar hb ncvar _ c _ _ _ hsh hsh.headFits
  | _ => simp only [emitData]; exact Triple.pure' (Q := fun _ => RInv E sz) ()

theorem triple_emitReq {fx : Fix} (hb : fx.blanks = true) (hg : fx.globalsGuarded = true) (hp : fx.pinnedSize = true)
    {E : Ds} {sz : Nat → Nat} (q : Req) (hw : q.wf sz) :
    Triple fx E (RInv E sz) (emitReq fx q) (fun _ => RInv E sz) := by
  cases q with
  | dimCoord key axis c base ncdim size unlim b => exact triple_dimCoord hb key axis c base ncdim size unlim b hw
  | axisDim axis size unlim base spanning pinned => exact triple_axisDim hb hp axis size unlim base spanning pinned hw
  | scalarCoord key axis c base b => exact triple_scalarCoord hb key axis c base b hw
  | aux key c axes base b => exact triple_aux hb key c axes base b hw
  | domAnc key c axes base b => exact triple_domAnc hb key c axes base b hw
  | msr key c axes base meas ext => exact triple_msr hb hg key c axes base meas ext hw
  | formula owner zaxis terms params => exact triple_formula hb owner zaxis terms params hw
  | gridMap c base cks multiple => exact triple_gridMap hb c base cks multiple
  | fieldAnc key c axes base => exact triple_fieldAnc hb key c axes base hw
  | data c base axes cms isDomain => simp only [emitReq]; exact Triple.pure' (Q := fun _ => RInv E sz) ()

theorem triple_forM {fx : Fix} {E : Ds} {β : Type} (I : Reg → Prop) (f : β → Prog Unit) :
    ∀ (l : List β), (∀ x ∈ l, Triple fx E I (f x) (fun _ => I)) → Triple fx E I (l.forM f) (fun _ => I) := by
  intro l
  induction l with
  | nil => intro _; exact Triple.pure' (Q := fun _ => I) ()
  | cons a t ih =>
    intro h
    show Triple fx E I ((f a).bind (fun _ => t.forM f)) (fun _ => I)
    apply Triple.bind (h a (by simp))
    intro _
    exact ih (fun x hx => h x (List.mem_cons_of_mem _ hx))

/-- Between fields: the invariant without the per-field axis table. -/
def FInv (E : Ds) (r : Reg) : Prop := NamesInv E r.nm ∧ RegAgrees E r

theorem triple_emitField {fx : Fix} (hb : fx.blanks = true) (hg : fx.globalsGuarded = true) (hp : fx.pinnedSize = true)
    {E : Ds} (f : FieldReq) (hw : f.wf) : Triple fx E (FInv E) (emitField fx f) (fun _ => FInv E) := by
  unfold emitField
  apply Triple.bind (Q := fun _ => RInv E f.sz)
  · apply triple_modA
    intro r h
    refine ⟨h.1, ?_, ?_⟩
    · obtain ⟨a, b, c, d⟩ := h.2
      exact ⟨a, b, by intro x hx; simp [resetField] at hx, d⟩
    · intro p hp'; simp [resetField] at hp'
  intro _
  apply Triple.bind (triple_forM (RInv E f.sz) _ f.reqs (fun q hq => triple_emitReq hb hg hp q (hw q hq)))
  intro _
  apply Triple.bind (triple_forM (RInv E f.sz) _ f.reqs (fun q hq => triple_emitData hb f.reqs q (hw q hq)))
  intro _
  apply triple_modA
  intro r h
  refine ⟨h.names, ?_⟩
  obtain ⟨a, b, c, d⟩ := h.agrees
  refine ⟨a, ?_, c, d⟩
  intro x hx
  rcases List.mem_append.mp hx with h1 | h1
  · exact b x h1
  · exact c x h1

theorem triple_emitAll {fx : Fix} (hb : fx.blanks = true) (hg : fx.globalsGuarded = true) (hp : fx.pinnedSize = true)
    {E : Ds} (fileG : List (String × String)) (fs : List FieldReq) (hw : ∀ f ∈ fs, f.wf) :
    Triple fx E (FInv E) (emitAll fx fileG fs) (fun _ => FInv E) := by
  unfold emitAll
  apply Triple.bind triple_getMode
  intro m
  apply Triple.of_pure
  intro hm
  subst hm
  have tail : Triple fx E (FInv E) (fs.forM (emitField fx)) (fun _ => FInv E) :=
    triple_forM (FInv E) _ fs (fun f hf => triple_emitField hb hg hp f (hw f hf))
  simp only [show (Mode.post != Mode.dry) = true from by decide, ↓reduceIte]
  apply Triple.bind (Q := fun _ => FInv E)
  · apply triple_modA
    intro r h
    exact h
  intro _
  apply Triple.setGlobal hg
  apply Triple.pure_bind
  apply Triple.bind (Q := fun _ => FInv E)
  · apply triple_forM (FInv E)
    intro kv _
    exact Triple.setGlobal hg (Triple.pure' (Q := fun _ => FInv E) ())
  intro _
  exact tail


theorem FInv.start {fx : Fix} (hn : fx.names = true) {E : Ds} {r : Reg} (ha : RegAgrees E r) : FInv E (startPost fx E r) := by
  refine ⟨⟨?_, by simp [startPost], by simp [startPost], by simp [startPost]⟩, ?_⟩
  · intro n hm
    simp only [startPost, hn, if_true, NameReg.existing]
    exact List.mem_append.mpr (Or.inl (List.mem_append.mpr (Or.inr hm)))
  · obtain ⟨a, b, c, d⟩ := ha
    exact ⟨a, b, c, d⟩

/-- One append with the writer of /repo HEAD: every outcome preserves the dataset, lengths of the unlimited
dimensions included. -/
theorem appendFull_extends (fx : Fix) (hg : fx.globalsGuarded = true) (hn : fx.names = true) (hb : fx.blanks = true)
    (hp : fx.pinnedSize = true) (nc4 : Bool) (E : Ds) (rb S : List FieldReq) (hw : ∀ f ∈ S, f.wf)
    (ha : RegAgrees E (dryReg fx E rb)) : Extends E (appendFull fx nc4 E rb S).2.1 := by
  unfold appendFull
  split
  · exact Extends.refl E
  · split
    · exact Extends.refl E
    · rename_i r _ heq
      have hr : r = dryReg fx E rb := by unfold dryReg; rw [heq]
      have h := triple_emitAll hb hg hp (E := E) E.gattrs S hw (startPost fx E r) ⟨E, []⟩ (FInv.start hn (hr ▸ ha)) (PostInv.init E)
      split
      · rename_i heq2; rw [heq2] at h; exact h.2.ext
      · rename_i heq2; rw [heq2] at h; exact h.ext

end Cfdm.Append
