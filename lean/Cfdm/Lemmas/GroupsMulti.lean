/-
C11 — group attributes of several fields: what the walk of `_write_group_attributes` leaves
where, and what the reader finds there.
-/
import Cfdm.Model.GroupsMulti
import Cfdm.Lemmas.GroupsPlace

namespace Cfdm.Groups

/-! ### observations of a group tree after `Grp.update` -/

/-- `find` after `modify` on the modified name. -/
theorem find_modify_update_eq (upd : Node → Node) (hname : ∀ m, (upd m).name = m.name) (g : Name) (p : Path)
    (f : Forest) :
    (f.modify g (fun o => Grp.update upd (o.getD ⟨emptyNode g, .nil⟩) p)).find g =
      some (Grp.update upd ((f.find g).getD ⟨emptyNode g, .nil⟩) p) := by
  induction f with
  | nil => simp [Forest.modify, Forest.find, update_name upd hname, emptyNode]
  | cons m k r _ ihr =>
    by_cases em : m.name = g
    · rw [Forest.modify, if_pos em, Forest.find, update_name upd hname]
      simp [em, Forest.find]
    · rw [Forest.modify, if_neg em, Forest.find, if_neg em, Forest.find, if_neg em, ihr]

/-- … and on any other name. -/
theorem find_modify_update_ne (upd : Node → Node) (hname : ∀ m, (upd m).name = m.name) (g g' : Name) (p : Path)
    (f : Forest) (h : g' ≠ g) :
    (f.modify g (fun o => Grp.update upd (o.getD ⟨emptyNode g, .nil⟩) p)).find g' = f.find g' := by
  have hg : ¬ g = g' := fun e' => h e'.symm
  induction f with
  | nil => simp [Forest.modify, Forest.find, update_name upd hname, emptyNode, hg]
  | cons m k r _ ihr =>
    by_cases em : m.name = g
    · have e2 : ¬ m.name = g' := by rw [em]; exact hg
      rw [Forest.modify, if_pos em, Forest.find, update_name upd hname]
      simp [em, hg, Forest.find]
    · rw [Forest.modify, if_neg em, Forest.find, Forest.find]
      by_cases e' : m.name = g'
      · rw [if_pos e', if_pos e']
      · rw [if_neg e', if_neg e', ihr]

/-- An observation of the content of the group at path `q` (`d` if there is no such group). -/
def obsAt {β : Type} (obs : Node → β) (d : β) (t : Grp) (q : Path) : β :=
  match sub t q with
  | some t' => obs t'.node
  | none => d

theorem obsAt_nil {β : Type} (obs : Node → β) (d : β) (t : Grp) : obsAt obs d t [] = obs t.node := by
  simp [obsAt, sub]

theorem obsAt_cons {β : Type} (obs : Node → β) (d : β) (hempty : ∀ g, obs (emptyNode g) = d) (t : Grp) (g : Name)
    (q : Path) : obsAt obs d t (g :: q) = obsAt obs d (fget t.kids g) q := by
  unfold obsAt fget
  simp only [sub]
  cases hf : t.kids.find g with
  | some x => simp
  | none =>
    simp only [Option.getD_none]
    cases q with
    | nil => simp [sub, hempty]
    | cons g' q' => simp [sub, Forest.find]

/-- What `Grp.update upd p` changes: the observation at `p` itself (through `F`), nothing else —
groups created on the way are empty, which the observation cannot tell from absent. -/
theorem obsAt_update {β : Type} (obs : Node → β) (d : β) (upd : Node → Node) (F : β → β)
    (hname : ∀ m, (upd m).name = m.name) (hempty : ∀ g, obs (emptyNode g) = d)
    (hupd : ∀ m, obs (upd m) = F (obs m)) :
    ∀ (p : Path) (t : Grp) (q : Path),
      obsAt obs d (t.update upd p) q = if q = p then F (obsAt obs d t p) else obsAt obs d t q := by
  intro p
  induction p with
  | nil =>
    intro t q
    cases q with
    | nil => simp [Grp.update, obsAt_nil, hupd]
    | cons g' q' => simp [Grp.update, obsAt, sub]
  | cons g p' ih =>
    intro t q
    cases q with
    | nil => simp [Grp.update, obsAt_nil]
    | cons g' q' =>
      rw [obsAt_cons obs d hempty, obsAt_cons obs d hempty, obsAt_cons obs d hempty]
      simp only [Grp.update]
      by_cases e : g' = g
      · subst e
        unfold fget
        rw [find_modify_update_eq upd hname]
        simp only [Option.getD_some]
        rw [ih]
        simp
      · unfold fget
        rw [find_modify_update_ne upd hname g g' p' t.kids e]
        simp [e]

theorem groupAt_nil (t : Grp) : groupAt t [] = true := by simp [groupAt, sub]

theorem groupAt_cons (t : Grp) (g : Name) (q : Path) :
    groupAt t (g :: q) = match t.kids.find g with
      | some x => groupAt x q
      | none => false := by
  unfold groupAt
  simp only [sub]
  cases t.kids.find g <;> simp

/-- The groups after `Grp.update upd p`: those there were, and `p` with all its ancestors. -/
theorem groupAt_update (upd : Node → Node) (hname : ∀ m, (upd m).name = m.name) :
    ∀ (p : Path) (t : Grp) (q : Path), groupAt (t.update upd p) q = (groupAt t q || q.isPrefixOf p) := by
  intro p
  induction p with
  | nil =>
    intro t q
    cases q with
    | nil => simp [groupAt_nil]
    | cons g' q' => simp [Grp.update, groupAt_cons]
  | cons g p' ih =>
    intro t q
    cases q with
    | nil => simp [groupAt_nil]
    | cons g' q' =>
      rw [groupAt_cons, groupAt_cons]
      simp only [Grp.update]
      by_cases e : g' = g
      · subst e
        rw [find_modify_update_eq upd hname]
        simp only
        rw [ih]
        cases hf : t.kids.find g' with
        | some x => simp
        | none =>
          simp only [Option.getD_none, List.isPrefixOf_cons_cons_self]
          cases q' with
          | nil => simp [groupAt_nil]
          | cons g3 q3 => simp [groupAt_cons, Forest.find]
      · rw [find_modify_update_ne upd hname g g' p' t.kids e]
        have : (g' == g) = false := by simp [e]
        simp [List.isPrefixOf, this]

/-! ### dictionaries -/

def keys {β : Type} (l : List (Name × β)) : List Name := l.map (·.1)

theorem keys_dictSet {β : Type} (d : List (Name × β)) (k : Name) (v : β) :
    keys (dictSet d k v) = if k ∈ keys d then keys d else keys d ++ [k] := by
  unfold dictSet keys
  by_cases h : d.any (fun x => x.1 == k) = true
  · have hk : k ∈ d.map (·.1) := by
      simp only [List.any_eq_true, beq_iff_eq] at h
      obtain ⟨x, hx, e⟩ := h
      exact List.mem_map.mpr ⟨x, hx, e⟩
    simp only [h, ↓reduceIte, hk, List.map_map]
    apply List.map_congr_left
    intro x _
    by_cases e : x.1 = k <;> simp [e]
  · have hk : k ∉ d.map (·.1) := by
      intro hk
      apply h
      obtain ⟨x, hx, e⟩ := List.mem_map.mp hk
      simp only [List.any_eq_true, beq_iff_eq]
      exact ⟨x, hx, e⟩
    simp [h, hk]

theorem dictSet_nodup {β : Type} (d : List (Name × β)) (k : Name) (v : β) (h : (keys d).Nodup) :
    (keys (dictSet d k v)).Nodup := by
  rw [keys_dictSet]
  by_cases hk : k ∈ keys d
  · simp [hk, h]
  · simp only [hk, ↓reduceIte]
    rw [List.nodup_append]
    refine ⟨h, by simp, ?_⟩
    intro a ha b hb
    simp at hb
    subst hb
    intro e; subst e; exact hk ha

theorem dictUpdate_nodup {β : Type} (d e : List (Name × β)) (h : (keys d).Nodup) : (keys (dictUpdate d e)).Nodup := by
  unfold dictUpdate
  induction e generalizing d with
  | nil => simpa using h
  | cons kv rest ih => simp only [List.foldl_cons]; exact ih _ (dictSet_nodup d kv.1 kv.2 h)

/-- Writing a dictionary with distinct keys into a dictionary that has none of them appends it. -/
theorem dictUpdate_append {β : Type} (d e : List (Name × β)) (h : (keys (d ++ e)).Nodup) : dictUpdate d e = d ++ e := by
  unfold dictUpdate
  induction e generalizing d with
  | nil => simp
  | cons kv rest ih =>
    simp only [List.foldl_cons]
    have hk : ¬ (d.any (fun x => x.1 == kv.1) = true) := by
      intro hany
      simp only [List.any_eq_true, beq_iff_eq] at hany
      obtain ⟨x, hx, e⟩ := hany
      simp only [keys, List.map_append, List.map_cons] at h
      rw [List.nodup_append] at h
      exact h.2.2 x.1 (List.mem_map.mpr ⟨x, hx, rfl⟩) kv.1 (by simp) e
    have hs : dictSet d kv.1 kv.2 = d ++ [kv] := by
      unfold dictSet
      simp [hk]
    rw [hs, ih (d ++ [kv]) (by simpa using h)]
    simp

theorem dictUpdate_nil {β : Type} (e : List (Name × β)) (h : (keys e).Nodup) : dictUpdate [] e = e := by
  simpa using dictUpdate_append [] e (by simpa using h)

theorem keys_filterMap_sublist {β γ : Type} (l : List (Name × β)) (F : Name → β → Option γ) :
    (keys (l.filterMap (fun kv => (F kv.1 kv.2).map (fun v => (kv.1, v))))).Sublist (keys l) := by
  induction l with
  | nil => simp [keys]
  | cons kv rest ih =>
    simp only [List.filterMap_cons, keys, List.map_cons]
    cases h : F kv.1 kv.2 with
    | none => simp only [Option.map_none]; exact List.Sublist.cons _ ih
    | some v => simp only [Option.map_some, List.map_cons]; exact List.Sublist.cons_cons _ ih

theorem alookup_filterMap {β γ : Type} (l : List (Name × β)) (F : Name → β → Option γ) (a : Name)
    (h : (keys l).Nodup) :
    alookup (l.filterMap (fun kv => (F kv.1 kv.2).map (fun v => (kv.1, v)))) a =
      match alookup l a with
      | some v => F a v
      | none => none := by
  induction l with
  | nil => simp [alookup]
  | cons kv rest ih =>
    obtain ⟨k, v⟩ := kv
    simp only [keys, List.map_cons, List.nodup_cons] at h
    simp only [List.filterMap_cons]
    by_cases e : k = a
    · subst e
      simp only [alookup, ↓reduceIte]
      cases hF : F k v with
      | some w => simp [alookup]
      | none =>
        simp only [Option.map_none]
        rw [ih h.2]
        have : alookup rest k = none := by
          cases hl : alookup rest k with
          | none => rfl
          | some w =>
            exfalso
            apply h.1
            clear ih hF h
            induction rest with
            | nil => simp [alookup] at hl
            | cons kv2 r2 ih2 =>
              obtain ⟨k2, v2⟩ := kv2
              simp only [alookup] at hl
              by_cases e2 : k2 = k
              · simp [e2]
              · simp only [e2, ↓reduceIte] at hl
                simp only [List.map_cons, List.mem_cons]
                exact Or.inr (ih2 hl)
        rw [this]
    · simp only [alookup, e, ↓reduceIte]
      cases hF : F k v with
      | some w => simp only [Option.map_some, alookup, e, ↓reduceIte]; exact ih h.2
      | none => simp only [Option.map_none]; exact ih h.2

/-! ### the walk -/

theorem setAvals_name (kv : List (Name × Name)) (m : Node) : (setAvals kv m).name = m.name := rfl

theorem attrsAt_eq_obsAt (t : Grp) (q : Path) : attrsAt t q = obsAt (fun n => n.avals) [] t q := rfl

theorem attrsAt_update (kv : List (Name × Name)) (p : Path) (t : Grp) (q : Path) :
    attrsAt (t.update (setAvals kv) p) q = if q = p then dictUpdate (attrsAt t p) kv else attrsAt t q := by
  simp only [attrsAt_eq_obsAt]
  exact obsAt_update (fun n => n.avals) [] (setAvals kv) (fun d => dictUpdate d kv) (setAvals_name kv)
    (fun _ => rfl) (fun _ => rfl) p t q

/-- Dimensions and variables are not touched by the walk. -/
theorem hasAt_setAvals_update (kv : List (Name × Name)) (p : Path) (t : Grp) (q : Path) (sd : Bool) (n : Name) :
    hasAt (t.update (setAvals kv) p) q sd n = hasAt t q sd n := by
  have := hasAt_update (setAvals kv) (setAvals_name kv) (fun _ _ => false)
    (by intro m sd n; cases sd <;> simp [setAvals, Node.has]) t p q sd n
  simpa using this

theorem attrsAt_emptyRoot (q : Path) : attrsAt emptyRoot q = [] := by
  cases q with
  | nil => simp [attrsAt, sub, emptyRoot]
  | cons g q' => simp [attrsAt, sub, emptyRoot, Forest.find]

theorem groupAt_emptyRoot (q : Path) : groupAt emptyRoot q = decide (q = []) := by
  cases q with
  | nil => simp [groupAt_nil]
  | cons g q' => simp [groupAt_cons, emptyRoot, Forest.find]

/-- **Placement.**  After the walks for the pairwise different paths of `xs`, the group at `q`
carries exactly the attributes listed for `q` (merged into what it had), and the groups of the
dataset are those there were plus the listed paths with their ancestors. -/
theorem writeGroupAttrs_spec (xs : List (Path × List (Name × Name))) :
    ∀ (t : Grp), (xs.map (·.1)).Nodup → ∀ q : Path,
      attrsAt (writeGroupAttrs t xs) q =
        (match xs.find? (fun x => x.1 == q) with
         | some x => dictUpdate (attrsAt t q) x.2
         | none => attrsAt t q) ∧
      groupAt (writeGroupAttrs t xs) q = (groupAt t q || xs.any (fun x => q.isPrefixOf x.1)) := by
  induction xs with
  | nil => intro t _ q; simp [writeGroupAttrs]
  | cons x rest ih =>
    intro t hnd q
    obtain ⟨p, kv⟩ := x
    simp only [List.map_cons, List.nodup_cons] at hnd
    simp only [writeGroupAttrs]
    obtain ⟨h1, h2⟩ := ih (t.update (setAvals kv) p) hnd.2 q
    constructor
    · rw [h1]
      by_cases e : p = q
      · subst e
        have hnone : rest.find? (fun x => x.1 == p) = none := by
          rw [List.find?_eq_none]
          intro x hx
          simp only [beq_iff_eq]
          intro e
          exact hnd.1 (List.mem_map.mpr ⟨x, hx, e⟩)
        simp [hnone, attrsAt_update]
      · have e' : ¬ q = p := fun h => e h.symm
        have eb : (p == q) = false := by simp [e]
        simp only [List.find?_cons, eb, attrsAt_update, e', ↓reduceIte]
    · rw [h2, groupAt_update (setAvals kv) (setAvals_name kv)]
      simp [Bool.or_assoc]

/-! ### the keys of `xx` -/

theorem addPath_nodup (l : List Path) (p : Path) (h : l.Nodup) : (addPath l p).Nodup := by
  by_cases hc : p ∈ l
  · simp [addPath, hc, h]
  · simp only [addPath, List.contains_eq_mem, hc, decide_false, Bool.false_eq_true, ↓reduceIte]
    rw [List.nodup_append]
    refine ⟨h, by simp, ?_⟩
    intro a ha b hb
    simp at hb
    subst hb
    intro e; subst e
    exact hc ha

theorem mem_addPath (l : List Path) (p q : Path) : q ∈ addPath l p ↔ q ∈ l ∨ q = p := by
  by_cases hc : p ∈ l
  · simp only [addPath, List.contains_eq_mem, hc, decide_true, ↓reduceIte]
    constructor
    · exact Or.inl
    · rintro (h | h)
      · exact h
      · subst h; exact hc
  · simp [addPath, hc]

theorem foldl_addPath_nodup (fs : List MField) (l : List Path) (h : l.Nodup) :
    (fs.foldl (fun l f => addPath l f.grp) l).Nodup := by
  induction fs generalizing l with
  | nil => simpa using h
  | cons f rest ih => simp only [List.foldl_cons]; exact ih _ (addPath_nodup l f.grp h)

theorem mem_foldl_addPath (fs : List MField) (l : List Path) (q : Path) :
    q ∈ fs.foldl (fun l f => addPath l f.grp) l ↔ q ∈ l ∨ ∃ f ∈ fs, f.grp = q := by
  induction fs generalizing l with
  | nil => simp
  | cons f rest ih =>
    simp only [List.foldl_cons, ih, mem_addPath, List.mem_cons]
    constructor
    · rintro ((h | h) | ⟨f', hf', e⟩)
      · exact Or.inl h
      · exact Or.inr ⟨f, Or.inl rfl, h.symm⟩
      · exact Or.inr ⟨f', Or.inr hf', e⟩
    · rintro (h | ⟨f', hf' | hf', e⟩)
      · exact Or.inl (Or.inl h)
      · subst hf'; exact Or.inl (Or.inr e.symm)
      · exact Or.inr ⟨f', hf', e⟩

theorem groupKeys_nodup (fs : List MField) : (groupKeys fs).Nodup :=
  foldl_addPath_nodup _ [] (by simp)

theorem mem_groupKeys (fs : List MField) (q : Path) : q ∈ groupKeys fs ↔ q ≠ [] ∧ ∃ f ∈ fs, f.grp = q := by
  unfold groupKeys
  rw [mem_foldl_addPath]
  simp only [List.not_mem_nil, false_or, List.mem_filter, Bool.not_eq_eq_eq_not, Bool.not_true,
    List.isEmpty_eq_false_iff]
  constructor
  · rintro ⟨f, ⟨hf, hne⟩, e⟩
    exact ⟨by rw [← e]; exact hne, f, hf, e⟩
  · rintro ⟨hne, f, hf, e⟩
    exact ⟨f, ⟨hf, by rw [e]; exact hne⟩, e⟩

theorem unionGA_nodup (fs : List MField) (g : Path) : (keys (unionGA fs g)).Nodup := by
  unfold unionGA
  generalize fieldsOf fs g = l
  have : ∀ (d : List (Name × Option Name)), (keys d).Nodup →
      (keys (l.foldl (fun d f => dictUpdate d f.ga) d)).Nodup := by
    induction l with
    | nil => intro d h; simpa using h
    | cons f rest ih => intro d h; simp only [List.foldl_cons]; exact ih _ (dictUpdate_nodup d f.ga h)
  exact this [] (by simp [keys])

/-- The value of attribute `a` in group `g`, as a function of the fields. -/
def groupAttr (subgroups : Bool) (fs : List MField) (g : Path) (a : Name) : Option Name :=
  match alookup (unionGA fs g) a with
  | none => none
  | some v => selValue subgroups fs g a v

theorem alookup_selectedWith (subgroups : Bool) (fs : List MField) (g : Path) (a : Name) :
    alookup (selectedWith subgroups fs g) a = groupAttr subgroups fs g a := by
  unfold selectedWith
  rw [alookup_filterMap _ (selValue subgroups fs g) a (unionGA_nodup fs g)]
  unfold groupAttr
  cases alookup (unionGA fs g) a <;> rfl

theorem selectedWith_nodup (subgroups : Bool) (fs : List MField) (g : Path) :
    (keys (selectedWith subgroups fs g)).Nodup := by
  unfold selectedWith
  exact List.Sublist.nodup (keys_filterMap_sublist _ _) (unionGA_nodup fs g)

/-- **What the dataset's groups carry = what `g["group_attributes"]` records.** -/
theorem alookup_attrsAt_groupTree (subgroups : Bool) (fs : List MField) (q : Path) (a : Name) :
    alookup (attrsAt (groupTreeWith subgroups fs) q) a = dictLook subgroups fs q a := by
  unfold groupTreeWith dictLook
  have hnd : (((groupKeys fs).map (fun g => (g, selectedWith subgroups fs g))).map (·.1)).Nodup := by
    simp only [List.map_map]
    have : ((fun x : Path × List (Name × Name) => x.1) ∘ fun g => (g, selectedWith subgroups fs g)) = id := by
      funext g; rfl
    rw [this]; simpa using groupKeys_nodup fs
  rw [(writeGroupAttrs_spec _ emptyRoot hnd q).1, attrsAt_emptyRoot]
  by_cases hq : q ∈ groupKeys fs
  · have hfind : ((groupKeys fs).map (fun g => (g, selectedWith subgroups fs g))).find? (fun x => x.1 == q)
        = some (q, selectedWith subgroups fs q) := by
      generalize groupKeys fs = ks at hq
      induction ks with
      | nil => simp at hq
      | cons k rest ih =>
        simp only [List.map_cons, List.find?_cons]
        by_cases e : k = q
        · subst e; simp
        · have : q ∈ rest := by
            simp only [List.mem_cons] at hq
            rcases hq with h | h
            · exact absurd h.symm e
            · exact h
          have eb : (k == q) = false := by simp [e]
          simp [eb, ih this]
    have hc : (groupKeys fs).contains q = true := by simpa using hq
    simp only [hfind, hc, ↓reduceIte]
    rw [dictUpdate_nil _ (selectedWith_nodup subgroups fs q)]
  · have hfind : ((groupKeys fs).map (fun g => (g, selectedWith subgroups fs g))).find? (fun x => x.1 == q) = none := by
      rw [List.find?_eq_none]
      intro x hx
      obtain ⟨g, hg, e⟩ := List.mem_map.mp hx
      subst e
      simp only [beq_iff_eq]
      intro e; subst e; exact hq hg
    simp [hfind, hq, alookup]

theorem inheritedFrom_congr (look look' : Path → Name → Option Name) (h : ∀ q a, look q a = look' q a)
    (grp : Path) (a : Name) (n : Nat) : inheritedFrom look grp a n = inheritedFrom look' grp a n := by
  induction n with
  | zero => rfl
  | succ n ih => simp only [inheritedFrom, h, ih]

/-- The reader's look-up in the file equals the writer's look-up in its record. -/
theorem inherited_groupTree (subgroups : Bool) (fs : List MField) (grp : Path) (a : Name) :
    inherited (groupTreeWith subgroups fs) grp a = inheritedFrom (dictLook subgroups fs) grp a grp.length := by
  unfold inherited
  exact inheritedFrom_congr _ _ (fun q a => alookup_attrsAt_groupTree subgroups fs q a) grp a grp.length

/-- Something inherited comes from a group between the variable's group and the root. -/
theorem inheritedFrom_some (look : Path → Name → Option Name) (grp : Path) (a : Name) (n : Nat) (v : Name)
    (h : inheritedFrom look grp a n = some v) : ∃ k, 1 ≤ k ∧ k ≤ n ∧ look (grp.take k) a = some v := by
  induction n with
  | zero => simp [inheritedFrom] at h
  | succ n ih =>
    simp only [inheritedFrom] at h
    cases hl : look (grp.take (n + 1)) a with
    | some w =>
      rw [hl] at h
      simp only [Option.some.injEq] at h
      subst h
      exact ⟨n + 1, by omega, by omega, hl⟩
    | none =>
      rw [hl] at h
      obtain ⟨k, h1, h2, h3⟩ := ih h
      exact ⟨k, h1, by omega, h3⟩

/-! ### global attributes -/

theorem globalNames_mem (D : List Name) (fs : List MField) (a : Name) (h : a ∈ globalNames D fs) :
    ∃ v, ∀ f ∈ fs, alookup f.props a = some v := by
  cases fs with
  | nil => simp [globalNames] at h
  | cons f0 rest =>
    simp only [globalNames, List.mem_filter] at h
    obtain ⟨_, h2⟩ := h
    cases hp : alookup f0.props a with
    | none => simp [hp] at h2
    | some v =>
      simp only [hp, List.all_eq_true, beq_iff_eq] at h2
      exact ⟨v, h2⟩

theorem alookup_globalsOf (D : List Name) (fs : List MField) (f : MField) (hf : f ∈ fs) (a : Name) :
    alookup (globalsOf (globalNames D fs) fs) a =
      if (globalNames D fs).contains a then alookup f.props a else none := by
  cases fs with
  | nil => simp at hf
  | cons f0 rest =>
    simp only [globalsOf]
    rw [alookup_filter f0.props (fun k => (globalNames D (f0 :: rest)).contains k) a]
    by_cases hc : a ∈ globalNames D (f0 :: rest)
    · simp only [List.contains_eq_mem, hc, decide_true, ↓reduceIte]
      obtain ⟨v, hv⟩ := globalNames_mem D (f0 :: rest) a hc
      rw [hv f0 (by simp), hv f hf]
    · simp [hc]

theorem hasAt_writeGroupAttrs (xs : List (Path × List (Name × Name))) (t : Grp) (q : Path) (sd : Bool) (n : Name) :
    hasAt (writeGroupAttrs t xs) q sd n = hasAt t q sd n := by
  induction xs generalizing t with
  | nil => rfl
  | cons x rest ih =>
    obtain ⟨p, kv⟩ := x
    simp only [writeGroupAttrs]
    rw [ih, hasAt_setAvals_update]

/-- An attribute that survives the selection of group `g` is a property of every field in `g` and
in the sub-groups of `g`. -/
theorem keepAttr_covers (fs : List MField) (g : Path) (a : Name) (h : keepAttr true fs g a = true)
    (f : MField) (hf : f ∈ fs) (k : Nat) (hk : g = f.grp.take k) : (alookup f.props a).isSome = true := by
  unfold keepAttr at h
  cases hp0 : prop0 fs g a with
  | none => simp [hp0] at h
  | some v0 =>
    simp only [hp0, Bool.not_true, Bool.false_or, Bool.and_eq_true, List.all_eq_true, beq_iff_eq] at h
    by_cases hlen : f.grp.length ≤ k
    · have hg : g = f.grp := by rw [hk, List.take_of_length_le hlen]
      have : f ∈ fieldsOf fs g := by
        simp only [fieldsOf, List.mem_filter, beq_iff_eq]
        exact ⟨hf, hg.symm⟩
      rw [h.1 f this]; rfl
    · have hl : g.length < f.grp.length := by
        rw [hk, List.length_take]; omega
      have hpre : g.isPrefixOf f.grp = true := by
        rw [List.isPrefixOf_iff_prefix, hk]
        exact List.take_prefix k f.grp
      have : f ∈ subFields fs g := by
        simp only [subFields, List.mem_filter, Bool.and_eq_true, decide_eq_true_eq]
        exact ⟨hf, hl, hpre⟩
      exact h.2 f this

theorem dictLook_some (fs : List MField) (q : Path) (a v : Name) (h : dictLook true fs q a = some v) :
    keepAttr true fs q a = true := by
  unfold dictLook at h
  by_cases hc : (groupKeys fs).contains q = true
  · simp only [hc, ↓reduceIte] at h
    rw [alookup_selectedWith] at h
    unfold groupAttr at h
    cases hl : alookup (unionGA fs q) a with
    | none => simp [hl] at h
    | some w =>
      simp only [hl, selValue] at h
      by_cases hk : keepAttr true fs q a = true
      · exact hk
      · simp [hk] at h
  · simp only [hc, Bool.false_eq_true, ↓reduceIte] at h
    exact absurd h (by simp)

theorem fullName_cons_snoc (c : Name) (cs : Path) (n : Name) :
    fullName (c :: cs) n = (joinWith ['_', '_'] (c :: cs) ++ ['_', '_']) ++ n := by
  unfold fullName
  induction cs generalizing c with
  | nil => simp [joinWith]
  | cons c' cs' ih =>
    have := ih c'
    simp only [List.cons_append, joinWith_cons_cons] at this ⊢
    rw [this]
    simp

/-! ### the reader's update loop -/

theorem alookup_append_single {β : Type} (d : List (Name × β)) (k : Name) (v : β) (a : Name) :
    alookup (d ++ [(k, v)]) a = match alookup d a with
      | some w => some w
      | none => if k = a then some v else none := by
  induction d with
  | nil => simp [alookup]
  | cons x rest ih =>
    obtain ⟨k', v'⟩ := x
    by_cases e : k' = a
    · simp [alookup, e]
    · simp only [List.cons_append, alookup, e, ↓reduceIte]; exact ih

theorem alookup_none_of_not_mem {β : Type} (d : List (Name × β)) (a : Name) (h : a ∉ keys d) : alookup d a = none := by
  induction d with
  | nil => rfl
  | cons x rest ih =>
    obtain ⟨k, v⟩ := x
    simp only [keys, List.map_cons, List.mem_cons, not_or] at h
    have e : ¬ k = a := fun e => h.1 e.symm
    simp only [alookup, e, ↓reduceIte]
    exact ih h.2

theorem alookup_map_replace {β : Type} (d : List (Name × β)) (k : Name) (v : β) (a : Name) :
    alookup (d.map (fun x => if x.1 == k then (k, v) else x)) a =
      if k = a then (alookup d a).map (fun _ => v) else alookup d a := by
  induction d with
  | nil => by_cases e : k = a <;> simp [alookup, e]
  | cons x rest ih =>
    obtain ⟨k', v'⟩ := x
    simp only [List.map_cons]
    by_cases e : k' = k
    · subst e
      by_cases ea : k' = a
      · subst ea; simp [alookup]
      · simp only [beq_self_eq_true, ↓reduceIte, alookup, ea]
        rw [ih]; simp [ea]
    · have eb : (k' == k) = false := by simp [e]
      simp only [eb, Bool.false_eq_true, ↓reduceIte, alookup]
      by_cases ea : k' = a
      · have : ¬ k = a := fun h2 => e (ea.trans h2.symm)
        simp [ea, this]
      · simp only [ea, ↓reduceIte]
        exact ih

theorem alookup_isSome_of_mem {β : Type} (d : List (Name × β)) (a : Name) (h : a ∈ keys d) : (alookup d a).isSome = true := by
  induction d with
  | nil => simp [keys] at h
  | cons x rest ih =>
    obtain ⟨k, v⟩ := x
    by_cases e : k = a
    · simp [alookup, e]
    · simp only [alookup, e, ↓reduceIte]
      simp only [keys, List.map_cons, List.mem_cons] at h
      rcases h with h | h
      · exact absurd h.symm e
      · exact ih h

theorem alookup_dictSet {β : Type} (d : List (Name × β)) (k : Name) (v : β) (a : Name) :
    alookup (dictSet d k v) a = if k = a then some v else alookup d a := by
  unfold dictSet
  by_cases h : d.any (fun x => x.1 == k) = true
  · simp only [h, ↓reduceIte]
    rw [alookup_map_replace]
    by_cases ea : k = a
    · subst ea
      have hk : k ∈ keys d := by
        simp only [List.any_eq_true, beq_iff_eq] at h
        obtain ⟨x, hx, e⟩ := h
        exact List.mem_map.mpr ⟨x, hx, e⟩
      have := alookup_isSome_of_mem d k hk
      cases hl : alookup d k with
      | none => simp [hl] at this
      | some w => simp
    · simp [ea]
  · simp only [h, Bool.false_eq_true, ↓reduceIte]
    rw [alookup_append_single]
    have hk : k ∉ keys d := by
      intro hk
      apply h
      obtain ⟨x, hx, e⟩ := List.mem_map.mp hk
      simp only [List.any_eq_true, beq_iff_eq]
      exact ⟨x, hx, e⟩
    by_cases ea : k = a
    · subst ea
      rw [alookup_none_of_not_mem d k hk]
    · simp only [ea, ↓reduceIte]
      cases alookup d a <;> rfl

/-- `d.update(e)` for a dictionary `e` (distinct keys): `e`'s entry if it has one, else `d`'s. -/
theorem alookup_dictUpdate {β : Type} (d e : List (Name × β)) (a : Name) (he : (keys e).Nodup) :
    alookup (dictUpdate d e) a = match alookup e a with
      | some v => some v
      | none => alookup d a := by
  unfold dictUpdate
  induction e generalizing d with
  | nil => simp [alookup]
  | cons x rest ih =>
    obtain ⟨k, v⟩ := x
    simp only [keys, List.map_cons, List.nodup_cons] at he
    simp only [List.foldl_cons]
    rw [ih _ he.2, alookup_dictSet]
    by_cases ea : k = a
    · subst ea
      rw [alookup_none_of_not_mem rest k he.1]
      simp [alookup]
    · simp only [alookup, ea, ↓reduceIte]

/-- **The reader's loop = nearest group first.** -/
theorem inheritedLoop_eq (t : Grp) (grp : Path) (a : Name)
    (h : ∀ k, (keys (attrsAt t (grp.take k))).Nodup) : inheritedLoop t grp a = inherited t grp a := by
  unfold inheritedLoop inherited
  generalize grp.length = n
  induction n with
  | zero => simp [readerGroupAttrs, inheritedFrom, alookup]
  | succ n ih =>
    simp only [readerGroupAttrs, inheritedFrom]
    rw [alookup_dictUpdate _ _ a (h (n + 1)), ih]
    cases alookup (attrsAt t (List.take (n + 1) grp)) a <;> rfl

theorem attrsAt_groupTree_nodup (subgroups : Bool) (fs : List MField) (q : Path) :
    (keys (attrsAt (groupTreeWith subgroups fs) q)).Nodup := by
  unfold groupTreeWith
  have hnd : (((groupKeys fs).map (fun g => (g, selectedWith subgroups fs g))).map (·.1)).Nodup := by
    simp only [List.map_map]
    have : ((fun x : Path × List (Name × Name) => x.1) ∘ fun g => (g, selectedWith subgroups fs g)) = id := by
      funext g; rfl
    rw [this]; simpa using groupKeys_nodup fs
  rw [(writeGroupAttrs_spec _ emptyRoot hnd q).1, attrsAt_emptyRoot]
  cases hf : ((groupKeys fs).map (fun g => (g, selectedWith subgroups fs g))).find? (fun x => x.1 == q) with
  | none => simp [keys]
  | some x =>
    simp only
    obtain ⟨g, _, e⟩ := List.mem_map.mp (List.mem_of_find?_eq_some hf)
    subst e
    simp only
    rw [dictUpdate_nil _ (selectedWith_nodup subgroups fs g)]
    exact selectedWith_nodup subgroups fs g

end Cfdm.Groups
