import Cfdm.Lemmas.CodecB2
/-
C01, stage B: several grid mappings next to a vertical datum.  `_create_vertical_datum` adds the
parametric coordinate to the coordinates of the one grid mapping that has its datum; the reader,
finding the coordinate among those listed for that grid mapping, gives the vertical reference the
grid mapping's datum and takes the coordinate out again.
-/
namespace Cfdm.Codec

/-- The parametric coordinates that `_create_vertical_datum` adds to the grid mapping `g`, for the
formula-terms references `l`. -/
def extraOf (f : MField) (l : List (Key × MRef)) (g : Key × MRef) : List Key :=
  l.filterMap (fun kr =>
    if !kr.2.datum.isEmpty && datumEq g.2.datum kr.2.datum then (ownerOf f kr.2).map Entry.key else none)

/-- The grid mapping as it is written. -/
def extendGM (f : MField) (l : List (Key × MRef)) (g : Key × MRef) : Key × MRef :=
  (g.1, { g.2 with coords := g.2.coords ++ extraOf f l g })

theorem extraOf_append (f : MField) (l1 l2 : List (Key × MRef)) (g : Key × MRef) :
    extraOf f (l1 ++ l2) g = extraOf f l1 g ++ extraOf f l2 g := by
  unfold extraOf; rw [List.filterMap_append]

section
variable {f : MField} (hwf : WFFieldB f)
include hwf

/-- One step of `_create_vertical_datum` over the grid mappings as extended so far. -/
theorem vdatumStep_extend (l1 : List (Key × MRef)) (kr : Key × MRef) (hkr : kr ∈ ftOnly f)
    (hnew : ∀ x ∈ l1, x ∈ ftOnly f ∧ x.2.coords ≠ kr.2.coords) :
    vdatumStep f ((gmOnly f).map (extendGM f l1)) kr = (gmOnly f).map (extendGM f (l1 ++ [kr])) := by
  obtain ⟨o, hoc, hom, _, hcc, _⟩ := ft_owner hwf hkr
  unfold vdatumStep
  rw [ftOwner_eq hwf hkr hoc]
  simp only
  by_cases hd : kr.2.datum.isEmpty = true
  · rw [if_pos hd]
    apply List.map_congr_left
    intro g _
    unfold extendGM
    rw [extraOf_append]
    have hd' : kr.2.datum = [] := List.isEmpty_iff.mp hd
    have : extraOf f [kr] g = [] := by unfold extraOf; simp [hd']
    rw [this]; simp
  · rw [if_neg hd]
    have hne : kr.2.datum ≠ [] := by intro e; rw [e] at hd; exact hd rfl
    have hlen := (wf_ft hwf hkr).2.2.2.2.2.2.2.2.1 hne
    -- the one grid mapping with this datum
    have hfilt : ((gmOnly f).map (extendGM f l1)).filter (fun g => datumEq g.2.datum kr.2.datum)
        = ((gmOnly f).filter (fun g => datumEq g.2.datum kr.2.datum)).map (extendGM f l1) := by
      rw [List.filter_map]; rfl
    rw [hfilt]
    obtain ⟨g0, hf⟩ : ∃ g0, (gmOnly f).filter (fun g => datumEq g.2.datum kr.2.datum) = [g0] :=
      List.length_eq_one_iff.mp hlen
    rw [hf]
    · simp only [List.map_cons, List.map_nil]
      have hg0 : g0 ∈ gmOnly f ∧ datumEq g0.2.datum kr.2.datum = true := by
        have : g0 ∈ (gmOnly f).filter (fun g => datumEq g.2.datum kr.2.datum) := by rw [hf]; exact List.mem_cons_self
        exact List.mem_filter.mp this
      rw [List.map_map]
      apply List.map_congr_left
      intro g hg
      simp only [Function.comp]
      unfold extendGM
      simp only
      rw [extraOf_append]
      by_cases hk : g.1 = g0.1
      · -- the grid mapping with the datum: the coordinate is added
        have hgg : g = g0 := (gmOnly_keys_inj hwf hg0.1 hg hk)
        subst hgg
        simp only [beq_self_eq_true, if_true]
        have hex : extraOf f [kr] g = [o.key] := by
          unfold extraOf
          simp [hne, hg0.2, hoc]
        rw [hex]
        have hnotin : (g.2.coords ++ extraOf f l1 g).contains o.key = false := by
          apply Bool.eq_false_iff.mpr
          intro hc
          simp only [List.contains_eq_mem, decide_eq_true_eq, List.mem_append] at hc
          rcases hc with hc | hc
          · exact hwf.2.2.2.2.2.2.2.2.2.2 g hg kr hkr o.key (by rw [hcc]; simp) hc
          · unfold extraOf at hc
            obtain ⟨x, hx, hxe⟩ := List.mem_filterMap.mp hc
            obtain ⟨hxf, hxn⟩ := hnew x hx
            split at hxe
            · obtain ⟨ox, hoxc, _, _, hxcc, _⟩ := ft_owner hwf hxf
              rw [hoxc] at hxe
              simp only [Option.map_some, Option.some.injEq] at hxe
              apply hxn
              rw [hxcc, hcc, hxe]
            · cases hxe
        rw [hnotin]
        simp
      · -- another grid mapping: another datum
        have hkb : (g.1 == g0.1) = false := by simpa using hk
        simp only [hkb, Bool.false_eq_true, if_false]
        have hde : datumEq g.2.datum kr.2.datum = false := by
          cases hx : datumEq g.2.datum kr.2.datum with
          | false => rfl
          | true =>
            have : g ∈ (gmOnly f).filter (fun g => datumEq g.2.datum kr.2.datum) := List.mem_filter.mpr ⟨hg, hx⟩
            rw [hf] at this
            simp only [List.mem_singleton] at this
            exact absurd (by rw [this]) hk
        have hex : extraOf f [kr] g = [] := by
          unfold extraOf
          simp [hde]
        rw [hex]; simp

/-- **The grid mappings as written**: each with the parametric coordinates whose datum it has. -/
theorem gmRefs_eq : gmRefs f = (gmOnly f).map (extendGM f (ftOnly f)) := by
  have key : ∀ (l2 l1 : List (Key × MRef)), ftOnly f = l1 ++ l2 →
      l2.foldl (vdatumStep f) ((gmOnly f).map (extendGM f l1)) = (gmOnly f).map (extendGM f (l1 ++ l2)) := by
    intro l2
    induction l2 with
    | nil => intro l1 _; simp
    | cons kr l2 ih =>
      intro l1 hl
      have hnd : (ftOnly f).Nodup := by unfold ftOnly; exact (refs_nodup hwf).filter _
      have hkr : kr ∈ ftOnly f := by rw [hl]; simp
      rw [List.foldl_cons, vdatumStep_extend hwf l1 kr hkr]
      · have := ih (l1 ++ [kr]) (by rw [hl]; simp)
        rw [this]; simp
      · intro x hx
        have hxf : x ∈ ftOnly f := by rw [hl]; simp [hx]
        refine ⟨hxf, ?_⟩
        intro hc
        have hxk : x = kr := List.inj_on_of_nodup_map hwf.2.2.2.2.2.2.2.2.2.1 hxf hkr hc
        rw [hl] at hnd
        have := (List.nodup_append.mp hnd).2.2 x hx kr (by simp)
        exact this hxk
  have h0 : (gmOnly f).map (extendGM f []) = gmOnly f := by
    have : ∀ g : Key × MRef, extendGM f [] g = g := by
      intro g; unfold extendGM extraOf; cases g; simp
    rw [List.map_congr_left (fun g _ => this g)]; simp
  have := key (ftOnly f) [] (by simp)
  rw [h0] at this
  show (ftOnly f).foldl (vdatumStep f) (gmOnly f) = _
  simpa using this

end

/-! ### The reader's loop over the vertical coordinate references -/

/-- Erasing the keys one after the other. -/
def eraseAll (cs : List Key) (ks : List Key) : List Key := ks.foldl (fun c k => c.erase k) cs

theorem eraseAll_nil (ks : List Key) : eraseAll [] ks = [] := by
  unfold eraseAll
  induction ks with
  | nil => rfl
  | cons k ks ih => simpa using ih

theorem eraseAll_nodup_eq_filter {cs : List Key} (hn : cs.Nodup) (ks : List Key) :
    eraseAll cs ks = cs.filter (fun x => !ks.contains x) := by
  unfold eraseAll
  induction ks generalizing cs with
  | nil => simp
  | cons k ks ih =>
    rw [List.foldl_cons, ih (hn.erase k), hn.erase_eq_filter, List.filter_filter]
    apply List.filter_congr
    intro x _
    simp only [List.contains_cons, Bool.not_or]
    cases h1 : (x == k) <;> simp [h1, bne]

/-- `gmVertical` when the vertical coordinates are pairwise different: the references whose coordinate
is among `cs` get the datum, and their coordinates are taken out of `cs`. -/
theorem gmVertical_spec (datum : Props) (vcrs : List (Key × Key × MRef)) (hn : (vcrs.map (·.1)).Nodup) (cs : List Key) (cn : Bool) :
    (gmVertical datum vcrs cs cn).1
        = vcrs.map (fun v => if cs.contains v.1 then (v.1, v.2.1, { v.2.2 with datum := datum }) else v)
    ∧ (gmVertical datum vcrs cs cn).2.1 = eraseAll cs (vcrs.map (·.1))
    ∧ (cn = true → eraseAll cs (vcrs.map (·.1)) ≠ [] → (gmVertical datum vcrs cs cn).2.2 = true) := by
  induction vcrs generalizing cs cn with
  | nil => exact ⟨rfl, rfl, fun h _ => h⟩
  | cons v vs ih =>
    rw [List.map_cons, List.nodup_cons] at hn
    unfold gmVertical
    by_cases hc : cs.contains v.1 = true
    · simp only [hc, if_true]
      obtain ⟨h1, h2, h3⟩ := ih hn.2 (cs.erase v.1) (!(cs.erase v.1).isEmpty)
      refine ⟨?_, ?_, ?_⟩
      · simp only [List.map_cons, hc, if_true]
        rw [h1]
        congr 1
        apply List.map_congr_left
        intro w hw
        -- the membership of another coordinate is not affected
        have hne : w.1 ≠ v.1 := fun e => hn.1 (e ▸ List.mem_map_of_mem hw)
        have : (cs.erase v.1).contains w.1 = cs.contains w.1 := by
          simp only [List.contains_eq_mem]
          congr 1
          exact propext (List.mem_erase_of_ne hne)
        rw [this]
      · rw [h2]
        unfold eraseAll
        simp
      · intro _ hne
        have hne' : eraseAll (cs.erase v.1) (vs.map (·.1)) ≠ [] := by
          unfold eraseAll at hne ⊢
          simpa using hne
        apply h3 _ hne'
        have : cs.erase v.1 ≠ [] := by
          intro e; rw [e, eraseAll_nil] at hne'; exact hne' rfl
        simpa using this
    · have hc' : cs.contains v.1 = false := by simpa using hc
      simp only [hc', Bool.false_eq_true, if_false]
      obtain ⟨h1, h2, h3⟩ := ih hn.2 cs cn
      have hnm : v.1 ∉ cs := by simpa using hc'
      refine ⟨?_, ?_, ?_⟩
      · simp only [List.map_cons, hc', Bool.false_eq_true, if_false]
        rw [h1]
      · rw [h2]
        unfold eraseAll
        simp [List.erase_of_not_mem hnm]
      · intro hcn hne
        apply h3 hcn
        unfold eraseAll at hne ⊢
        simpa [List.erase_of_not_mem hnm] using hne

/-- The long form `variable: coordinate …`, in general: the vertical references whose coordinate is
listed get the grid mapping's datum; the grid mapping keeps the other coordinates. -/
theorem gmStep_long' (nc : NcFile) (coords : List Entry) (danVars : List String) (st : GMSt) (gn : String) (cvs : List String)
    (gv : NcVar) (hv : nc.var? gn = some gv) (hex : ∀ c ∈ cvs, (nc.var? c).isSome = true)
    (hkeys : ∀ c ∈ cvs, c ∈ coords.map Entry.key) (hne : cvs ≠ [])
    (hnd : (st.vcrs.map (·.1)).Nodup) (hrest : eraseAll cvs (st.vcrs.map (·.1)) ≠ []) :
    gmStep nc coords danVars st (gn, cvs) =
      { vcrs := st.vcrs.map (fun v => if cvs.contains v.1 then (v.1, v.2.1, { v.2.2 with datum := gv.attrs.filter isDatumParam }) else v)
        out := st.out ++ [rdGM gn gv (eraseAll cvs (st.vcrs.map (·.1)))]
        seen := st.seen ++ [gn], used := st.used } := by
  unfold gmStep
  simp only [hv]
  have hany : cvs.any (fun c => (nc.var? c).isNone) = false := by
    apply Bool.eq_false_iff.mpr
    intro h
    obtain ⟨c, hc, hn⟩ := List.any_eq_true.mp h
    have := hex c hc
    rw [Option.isSome_iff_ne_none] at this
    exact this (by simpa using hn)
  simp only [hany, Bool.false_eq_true, if_false]
  have hfm : cvs.filterMap (fun n => if (coords.map Entry.key).contains n then some n
      else if danVars.contains n then some (danKey n) else if st.seen.contains n then some (gmKey n) else none) = cvs := by
    have : ∀ n ∈ cvs, (if (coords.map Entry.key).contains n then some n
        else if danVars.contains n then some (danKey n) else if st.seen.contains n then some (gmKey n) else none) = some n := by
      intro n hn
      have := hkeys n hn
      simp [this]
    rw [List.filterMap_congr this]
    exact filterMap_some_map cvs id |>.trans (List.map_id _)
  rw [hfm]
  have hemp : cvs.isEmpty = false := by cases cvs with | nil => exact absurd rfl hne | cons _ _ => rfl
  simp only [hemp, Bool.false_eq_true, if_false]
  obtain ⟨h1, h2, h3⟩ := gmVertical_spec (gv.attrs.filter isDatumParam) st.vcrs hnd cvs true
  rw [h3 rfl hrest]
  simp only [if_true]
  rw [h1, h2]
  rfl

/-! ### Datums equal as dictionaries -/

theorem insertP_perm (a : String × String) (l : Props) : (insertP a l).Perm (a :: l) := by
  induction l with
  | nil => exact List.Perm.refl _
  | cons b bs ih =>
    unfold insertP
    split
    · exact List.Perm.refl _
    · exact (ih.cons b).trans (List.Perm.swap a b bs)

theorem sortP_perm (l : Props) : (sortP l).Perm l := by
  induction l with
  | nil => exact List.Perm.refl _
  | cons a as ih =>
    unfold sortP
    exact (insertP_perm a (sortP as)).trans (ih.cons a)

theorem datumEq_perm {a b : Props} (h : datumEq a b = true) : a.Perm b := by
  unfold datumEq at h
  have he : sortP a = sortP b := by simpa using h
  exact (sortP_perm a).symm.trans (he ▸ sortP_perm b)

/-! ### Which vertical reference a grid mapping lists -/

/-- Does `_create_vertical_datum` add the parametric coordinate of `kr` to the grid mapping `g`? -/
def vmatch (g kr : Key × MRef) : Bool := !kr.2.datum.isEmpty && datumEq g.2.datum kr.2.datum

/-- The coordinates listed for a grid mapping in the `grid_mapping` attribute. -/
def listedOf (f : MField) (names : List (Slot × String)) (g : Key × MRef) : List String :=
  sortKeys ((g.2.coords ++ extraOf f (ftOnly f) g).map (fun k => nameOf names (.con k)))

section
variable {o : Opts} {f : MField} {names : List (Slot × String)} (hwf : WFFieldB f) (hg : GoodNames f (wfAx f) names)
include hwf hg

omit hg in
theorem mem_extraOf {g : Key × MRef} {k : Key} :
    k ∈ extraOf f (ftOnly f) g ↔ ∃ kr ∈ ftOnly f, vmatch g kr = true ∧ kr.2.coords = [k] := by
  unfold extraOf vmatch
  rw [List.mem_filterMap]
  constructor
  · rintro ⟨kr, hkr, h⟩
    split at h
    · rename_i hc
      obtain ⟨c, hoc, _, _, hcc, _⟩ := ft_owner hwf hkr
      rw [hoc] at h
      simp only [Option.map_some, Option.some.injEq] at h
      exact ⟨kr, hkr, hc, by rw [hcc, h]⟩
    · cases h
  · rintro ⟨kr, hkr, hc, hcc⟩
    refine ⟨kr, hkr, ?_⟩
    rw [if_pos hc]
    obtain ⟨c, hoc, _, _, hcc', _⟩ := ft_owner hwf hkr
    rw [hoc]
    rw [hcc'] at hcc
    injection hcc with h1 _
    simp [h1]

omit hg in
/-- The keys listed for a grid mapping are keys of coordinate constructs. -/
theorem listed_coord {g : Key × MRef} (hgm : g ∈ gmOnly f) {k : Key} (hk : k ∈ g.2.coords ++ extraOf f (ftOnly f) g) :
    ∃ e ∈ f.cons, isCoord e = true ∧ e.key = k := by
  rcases List.mem_append.mp hk with h | h
  · have hsome := (wf_gm hwf hgm).2.2.1 k h
    cases hc : f.coord? k with
    | none => rw [hc] at hsome; cases hsome
    | some e =>
      obtain ⟨h1, h2, h3⟩ := coord?_some hc
      exact ⟨e, h1, h3, h2⟩
  · obtain ⟨kr, hkr, _, hcc⟩ := (mem_extraOf hwf).mp h
    obtain ⟨c, _, hm, hco, hcc', _⟩ := ft_owner hwf hkr
    rw [hcc'] at hcc
    injection hcc with h1 _
    exact ⟨c, hm, hco, h1⟩

/-- The name of the parametric coordinate of `kr` is listed for `g` exactly when `g` has its datum. -/
theorem listed_contains {g kr : Key × MRef} (hgm : g ∈ gmOnly f) (hkr : kr ∈ ftOnly f) {c : Entry} (hoc : ownerOf f kr.2 = some c) :
    (listedOf f names g).contains (nameOf names (.con c.key)) = vmatch g kr := by
  obtain ⟨c', hoc', hc, hco, hcc, _⟩ := ft_owner hwf hkr
  rw [hoc] at hoc'; cases hoc'
  have hiff : nameOf names (.con c.key) ∈ listedOf f names g ↔ vmatch g kr = true := by
    unfold listedOf
    rw [mem_sortKeys, List.mem_map]
    constructor
    · rintro ⟨k, hk, hn⟩
      obtain ⟨e, he, _, hek⟩ := listed_coord hwf hgm hk
      have : Slot.con e.key = Slot.con c.key := by
        apply hg.nameOf_inj (slot_con hwf hg he) (slot_con hwf hg hc) _ (Or.inl rfl)
        rw [hek]; exact hn
      have hkk : k = c.key := by rw [← hek]; injection this
      subst hkk
      rcases List.mem_append.mp hk with h | h
      · exact absurd h (hwf.2.2.2.2.2.2.2.2.2.2 g hgm kr hkr c.key (by rw [hcc]; simp))
      · obtain ⟨kr', hkr', hm, hcc'⟩ := (mem_extraOf hwf).mp h
        have : kr' = kr := List.inj_on_of_nodup_map hwf.2.2.2.2.2.2.2.2.2.1 hkr' hkr (by rw [hcc', hcc])
        rw [← this]; exact hm
    · intro hm
      exact ⟨c.key, List.mem_append_right _ ((mem_extraOf hwf).mpr ⟨kr, hkr, hm, hcc⟩), rfl⟩
  cases hv : vmatch g kr with
  | true => simpa using hiff.mpr hv
  | false =>
    apply Bool.eq_false_iff.mpr
    intro h
    have := hiff.mp (by simpa using h)
    rw [hv] at this; cases this

end

/-! ### The coordinates of the vertical references, and what is left of a grid mapping's list -/

/-- The keys (variable names) of the parametric coordinates, in the order of reading. -/
def vcoords (o : Opts) (f : MField) (names : List (Slot × String)) : List Key :=
  (ftOrder f).map (fun kr => (ftReadOf o f names kr).coord)

section
variable {o : Opts} {f : MField} {names : List (Slot × String)} (hwf : WFFieldB f) (hg : GoodNames f (wfAx f) names)
include hwf hg

omit hg in
theorem ftReadOf_coord {kr : Key × MRef} (hkr : kr ∈ ftOnly f) {c : Entry} (hoc : ownerOf f kr.2 = some c) :
    (ftReadOf o f names kr).coord = nameOf names (.con c.key) := by
  unfold ftReadOf; rw [hoc]

theorem vcoords_nodup : (vcoords o f names).Nodup := by
  unfold vcoords
  have hn : (ftOrder f).Nodup := (ftOrder_perm hwf).nodup_iff.mpr (by unfold ftOnly; exact (refs_nodup hwf).filter _)
  apply List.Nodup.map_on _ hn
  intro kr hkr kr' hkr' he
  have h1 := (ftOrder_perm hwf).mem_iff.mp hkr
  have h2 := (ftOrder_perm hwf).mem_iff.mp hkr'
  obtain ⟨c, hoc, hc, _, hcc, _⟩ := ft_owner hwf h1
  obtain ⟨c', hoc', hc', _, hcc', _⟩ := ft_owner hwf h2
  rw [ftReadOf_coord hwf h1 hoc, ftReadOf_coord hwf h2 hoc'] at he
  have : Slot.con c.key = Slot.con c'.key := hg.nameOf_inj (slot_con hwf hg hc) (slot_con hwf hg hc') he (Or.inl rfl)
  have hk : c.key = c'.key := by injection this
  exact List.inj_on_of_nodup_map hwf.2.2.2.2.2.2.2.2.2.1 h1 h2 (by rw [hcc, hcc', hk])

omit hg in
theorem mem_vcoords {n : String} : n ∈ vcoords o f names ↔
    ∃ kr ∈ ftOnly f, ∃ c, ownerOf f kr.2 = some c ∧ n = nameOf names (.con c.key) := by
  unfold vcoords
  rw [List.mem_map]
  constructor
  · rintro ⟨kr, hkr, rfl⟩
    have h1 := (ftOrder_perm hwf).mem_iff.mp hkr
    obtain ⟨c, hoc, _⟩ := ft_owner hwf h1
    exact ⟨kr, h1, c, hoc, ftReadOf_coord hwf h1 hoc⟩
  · rintro ⟨kr, hkr, c, hoc, rfl⟩
    exact ⟨kr, (ftOrder_perm hwf).mem_iff.mpr hkr, ftReadOf_coord hwf hkr hoc⟩

/-- What is left of the coordinates listed for a grid mapping once the vertical coordinates are taken
out: its own coordinates. -/
theorem eraseAll_listed {g : Key × MRef} (hgm : g ∈ gmOnly f) :
    (eraseAll (listedOf f names g) (vcoords o f names)).Perm (g.2.coords.map (fun k => nameOf names (.con k))) := by
  have hw := wf_gm hwf hgm
  -- the keys listed are pairwise different
  have hE : (extraOf f (ftOnly f) g).Nodup := by
    unfold extraOf
    apply nodup_filterMap_of_injOn _ _ _ (by unfold ftOnly; exact (refs_nodup hwf).filter _)
    intro kr hkr kr' hkr' k h1 h2
    split at h1
    · split at h2
      · obtain ⟨c, hoc, _, _, hcc, _⟩ := ft_owner hwf hkr
        obtain ⟨c', hoc', _, _, hcc', _⟩ := ft_owner hwf hkr'
        rw [hoc] at h1; rw [hoc'] at h2
        simp only [Option.map_some, Option.some.injEq] at h1 h2
        exact List.inj_on_of_nodup_map hwf.2.2.2.2.2.2.2.2.2.1 hkr hkr' (by rw [hcc, hcc', h1, h2])
      · cases h2
    · cases h1
  have hK : (g.2.coords ++ extraOf f (ftOnly f) g).Nodup := by
    rw [List.nodup_append]
    refine ⟨hw.2.2.2.1, hE, ?_⟩
    intro a ha b hb hab
    subst hab
    obtain ⟨kr, hkr, _, hcc⟩ := (mem_extraOf hwf).mp hb
    exact hwf.2.2.2.2.2.2.2.2.2.2 g hgm kr hkr a (by rw [hcc]; simp) ha
  have hN : ((g.2.coords ++ extraOf f (ftOnly f) g).map (fun k => nameOf names (.con k))).Nodup := by
    apply List.Nodup.map_on _ hK
    intro k hk k' hk' he
    obtain ⟨e, he1, _, hek⟩ := listed_coord hwf hgm hk
    obtain ⟨e', he1', _, hek'⟩ := listed_coord hwf hgm hk'
    have : Slot.con e.key = Slot.con e'.key := by
      apply hg.nameOf_inj (slot_con hwf hg he1) (slot_con hwf hg he1') _ (Or.inl rfl)
      rw [hek, hek']; exact he
    rw [← hek, ← hek']; injection this
  have hL : (listedOf f names g).Nodup := (sortKeys_perm _).nodup_iff.mpr hN
  rw [eraseAll_nodup_eq_filter hL]
  unfold listedOf
  refine ((sortKeys_perm _).filter _).trans ?_
  rw [List.map_append, List.filter_append]
  have h1 : (g.2.coords.map (fun k => nameOf names (.con k))).filter (fun x => !(vcoords o f names).contains x)
      = g.2.coords.map (fun k => nameOf names (.con k)) := by
    apply List.filter_eq_self.mpr
    intro n hn
    obtain ⟨k, hk, rfl⟩ := List.mem_map.mp hn
    simp only [Bool.not_eq_true', List.contains_eq_mem, decide_eq_false_iff_not]
    intro hv
    obtain ⟨kr, hkr, c, hoc, hnc⟩ := (mem_vcoords hwf).mp hv
    obtain ⟨c', hoc', hc, _, hcc, _⟩ := ft_owner hwf hkr
    rw [hoc] at hoc'; cases hoc'
    obtain ⟨e, he1, _, hek⟩ := listed_coord hwf hgm (List.mem_append_left _ hk)
    have : Slot.con e.key = Slot.con c.key := by
      apply hg.nameOf_inj (slot_con hwf hg he1) (slot_con hwf hg hc) _ (Or.inl rfl)
      rw [hek]; exact hnc
    have hkk : k = c.key := by rw [← hek]; injection this
    exact hwf.2.2.2.2.2.2.2.2.2.2 g hgm kr hkr c.key (by rw [hcc]; simp) (hkk ▸ hk)
  have h2 : ((extraOf f (ftOnly f) g).map (fun k => nameOf names (.con k))).filter (fun x => !(vcoords o f names).contains x) = [] := by
    apply List.filter_eq_nil_iff.mpr
    intro n hn
    obtain ⟨k, hk, rfl⟩ := List.mem_map.mp hn
    obtain ⟨kr, hkr, _, hcc⟩ := (mem_extraOf hwf).mp hk
    obtain ⟨c, hoc, _, _, hcc', _⟩ := ft_owner hwf hkr
    rw [hcc'] at hcc
    injection hcc with hck _
    simp only [Bool.not_eq_true, Bool.not_eq_false', List.contains_eq_mem, decide_eq_true_eq]
    exact (mem_vcoords hwf).mpr ⟨kr, hkr, c, hoc, by rw [hck]⟩
  rw [h1, h2]
  simp

end

/-! ### The loop over several grid mappings, in general -/

/-- What reading the group of `g` does to a vertical reference. -/
def updV (f : MField) (names : List (Slot × String)) (g : Key × MRef) (v : Key × Key × MRef) : Key × Key × MRef :=
  if (listedOf f names g).contains v.1 then (v.1, v.2.1, { v.2.2 with datum := g.2.datum }) else v

theorem updV_fst (f : MField) (names : List (Slot × String)) (g : Key × MRef) (v : Key × Key × MRef) : (updV f names g v).1 = v.1 := by
  unfold updV; split <;> rfl

theorem foldl_updV_fst (f : MField) (names : List (Slot × String)) (l : List (Key × MRef)) (v : Key × Key × MRef) :
    (l.foldl (fun v g => updV f names g v) v).1 = v.1 := by
  induction l generalizing v with
  | nil => rfl
  | cons g gs ih => rw [List.foldl_cons, ih, updV_fst]

section
variable {o : Opts} {f : MField} {names : List (Slot × String)} (hwf : WFFieldB f) (hg : GoodNames f (wfAx f) names)
include hwf hg

omit hwf hg in
theorem gmEntry_extend (g : Key × MRef) :
    gmEntry names (extendGM f (ftOnly f) g) = (nameOf names (.gm g.1), listedOf f names g) := rfl

/-- **Several grid mappings, in general**: each is read back with its own coordinates; a vertical
reference gets the datum of the grid mapping that lists its coordinate. -/
theorem gm_fold_general (hlen : (gmOnly f).length ≠ 1) (l : List (Key × MRef)) (hl : ∀ g ∈ l, g ∈ gmOnly f)
    (st : GMSt) (hst : st.vcrs.map (·.1) = vcoords o f names) :
    (l.map (fun g => gmEntry names (extendGM f (ftOnly f) g))).foldl
        (gmStep (wfFile o f names) ((coordOrder f).map (rd o f names))
          (((dansOrder f).map (rdB o f names)).filterMap (·.con.ncvar))) st
      = { vcrs := st.vcrs.map (fun v => l.foldl (fun v g => updV f names g v) v)
          out := st.out ++ l.map (fun g => rdGM (nameOf names (.gm g.1)) (gmVar names g)
                    (eraseAll (listedOf f names g) (vcoords o f names)))
          seen := st.seen ++ l.map (fun g => nameOf names (.gm g.1)), used := st.used } := by
  induction l generalizing st with
  | nil => simp
  | cons g gs ih =>
    have hgm := hl g List.mem_cons_self
    have hw := wf_gm hwf hgm
    rw [List.map_cons, List.foldl_cons, gmEntry_extend]
    have hgr := gmRefs_eq hwf
    have hv : (wfFile o f names).var? (nameOf names (.gm g.1)) = some (gmVar names g) := by
      have hmem : extendGM f (ftOnly f) g ∈ gmRefs f := by rw [hgr]; exact List.mem_map_of_mem hgm
      have := var_gm (o := o) hwf hg hmem (by
        intro g' hg' hk
        rw [hgr] at hg'
        obtain ⟨g0, hg0, rfl⟩ := List.mem_map.mp hg'
        have : g0 = g := gmOnly_keys_inj hwf hgm hg0 hk
        rw [this])
      exact this
    have hcoord : ∀ n ∈ listedOf f names g, ∃ e ∈ f.cons, isCoord e = true ∧ n = nameOf names (.con e.key) := by
      intro n hn
      unfold listedOf at hn
      obtain ⟨k, hk, rfl⟩ := List.mem_map.mp (mem_sortKeys.mp hn)
      obtain ⟨e, he, hco, hek⟩ := listed_coord hwf hgm hk
      exact ⟨e, he, hco, by rw [hek]⟩
    have hrest := eraseAll_listed (o := o) hwf hg hgm
    rw [gmStep_long' _ _ _ _ _ _ _ hv]
    · have hst' : (st.vcrs.map (fun v => if (listedOf f names g).contains v.1 then (v.1, v.2.1, { v.2.2 with datum := (gmVar names g).attrs.filter isDatumParam }) else v)).map (·.1)
          = vcoords o f names := by
        rw [← hst, List.map_map]
        apply List.map_congr_left
        intro v _
        simp only [Function.comp]
        split <;> rfl
      rw [ih (fun x hx => hl x (List.mem_cons_of_mem _ hx)) _ hst']
      simp only [List.map_map, List.append_assoc, List.map_cons, List.singleton_append, hst]
      congr 1
      apply List.map_congr_left
      intro v _
      simp only [Function.comp, List.foldl_cons]
      unfold updV
      rw [(gmVar_attrs (names := names) hwf hgm).1]
    · intro n hn
      obtain ⟨e, he, _, rfl⟩ := hcoord n hn
      rw [var_con hwf hg he]; rfl
    · intro n hn
      obtain ⟨e, he, hco, rfl⟩ := hcoord n hn
      exact List.mem_map.mpr ⟨rd o f names e, List.mem_map_of_mem ((mem_coordOrder hwf).mpr ⟨he, hco⟩), rfl⟩
    · -- some coordinate is listed
      have hne := hw.2.2.2.2.2.2.2 hlen
      intro h0
      unfold listedOf at h0
      have := (sortKeys_perm ((g.2.coords ++ extraOf f (ftOnly f) g).map (fun k => nameOf names (.con k)))).length_eq
      rw [h0] at this
      cases hc : g.2.coords with
      | nil => exact hne hc
      | cons _ _ => rw [hc] at this; simp at this
    · rw [hst]; exact vcoords_nodup hwf hg
    · rw [hst]
      intro h0
      rw [h0] at hrest
      have := hrest.length_eq
      have hne := hw.2.2.2.2.2.2.2 hlen
      cases hc : g.2.coords with
      | nil => exact hne hc
      | cons _ _ => rw [hc] at this; simp at this

end

/-! ### The datum a vertical reference ends up with -/

/-- The datum the grid mappings give the vertical reference `kr` back: that of the grid mapping
`_create_vertical_datum` added its coordinate to. -/
def datumBack (f : MField) (kr : Key × MRef) : Props :=
  (((gmOnly f).filter (fun g => vmatch g kr)).head?.map (fun g => g.2.datum)).getD []

section
variable {o : Opts} {f : MField} {names : List (Slot × String)} (hwf : WFFieldB f) (hg : GoodNames f (wfAx f) names)
include hwf hg

/-- The vertical reference of `kr` after the loop over the grid mappings. -/
theorem foldl_updV_ft {kr : Key × MRef} (hkr : kr ∈ ftOnly f) (l : List (Key × MRef)) (hl : ∀ g ∈ l, g ∈ gmOnly f) (d : Props) :
    l.foldl (fun v g => updV f names g v)
        ((ftReadOf o f names kr).coord, (ftReadOf o f names kr).ref.1, { (ftReadOf o f names kr).ref.2 with datum := d })
      = ((ftReadOf o f names kr).coord, (ftReadOf o f names kr).ref.1,
          { (ftReadOf o f names kr).ref.2 with
            datum := ((l.filter (fun g => vmatch g kr)).getLast?.map (fun g => g.2.datum)).getD d }) := by
  obtain ⟨c, hoc, _⟩ := ft_owner hwf hkr
  have hcoord := ftReadOf_coord (o := o) (names := names) hwf hkr hoc
  induction l generalizing d with
  | nil => rfl
  | cons g gs ih =>
    have hgm := hl g List.mem_cons_self
    rw [List.foldl_cons]
    have hstep : updV f names g ((ftReadOf o f names kr).coord, (ftReadOf o f names kr).ref.1,
          { (ftReadOf o f names kr).ref.2 with datum := d })
        = ((ftReadOf o f names kr).coord, (ftReadOf o f names kr).ref.1,
          { (ftReadOf o f names kr).ref.2 with datum := if vmatch g kr then g.2.datum else d }) := by
      unfold updV
      simp only
      rw [hcoord, listed_contains hwf hg hgm hkr hoc]
      cases vmatch g kr <;> simp
    rw [hstep, ih (fun x hx => hl x (List.mem_cons_of_mem _ hx))]
    congr 2
    rw [List.filter_cons]
    cases hv : vmatch g kr with
    | true =>
      simp only [if_true]
      cases hF : (gs.filter (fun g => vmatch g kr)).getLast? with
      | none =>
        have : gs.filter (fun g => vmatch g kr) = [] := List.getLast?_eq_none_iff.mp hF
        simp [this]
      | some x =>
        have hne : gs.filter (fun g => vmatch g kr) ≠ [] := by intro e; rw [e] at hF; cases hF
        rw [List.getLast?_cons_of_ne_nil hne, hF]
        rfl
    | false => simp

omit hg in
/-- With a datum, exactly one grid mapping lists the coordinate; without, none. -/
theorem vmatch_filter {kr : Key × MRef} (hkr : kr ∈ ftOnly f) :
    (kr.2.datum = [] ∧ (gmOnly f).filter (fun g => vmatch g kr) = [])
    ∨ (kr.2.datum ≠ [] ∧ ∃ g0, (gmOnly f).filter (fun g => vmatch g kr) = [g0] ∧ datumEq g0.2.datum kr.2.datum = true) := by
  by_cases hd : kr.2.datum = []
  · left
    refine ⟨hd, ?_⟩
    apply List.filter_eq_nil_iff.mpr
    intro g _
    unfold vmatch; simp [hd]
  · right
    refine ⟨hd, ?_⟩
    have hlen := (wf_ft hwf hkr).2.2.2.2.2.2.2.2.1 hd
    obtain ⟨g0, hf⟩ := List.length_eq_one_iff.mp hlen
    have heq : (gmOnly f).filter (fun g => vmatch g kr) = (gmOnly f).filter (fun g => datumEq g.2.datum kr.2.datum) := by
      apply List.filter_congr
      intro g _
      unfold vmatch
      have : kr.2.datum.isEmpty = false := by cases h : kr.2.datum with | nil => exact absurd h hd | cons _ _ => rfl
      simp [this]
    refine ⟨g0, by rw [heq, hf], ?_⟩
    have : g0 ∈ (gmOnly f).filter (fun g => datumEq g.2.datum kr.2.datum) := by rw [hf]; exact List.mem_cons_self
    exact (List.mem_filter.mp this).2

omit hg in
theorem datumBack_perm {kr : Key × MRef} (hkr : kr ∈ ftOnly f) : (datumBack f kr).Perm kr.2.datum := by
  unfold datumBack
  rcases vmatch_filter hwf hkr with ⟨hd, hf⟩ | ⟨_, g0, hf, hde⟩
  · rw [hf, hd]; exact List.Perm.refl _
  · rw [hf]
    simp only [List.head?_cons, Option.map_some, Option.getD_some]
    exact datumEq_perm hde

/-- **Several grid mappings, in general** (`(gmOnly f).length ≠ 1`): the references read back. -/
theorem readB_refs_general (hlen : (gmOnly f).length ≠ 1) :
    (readB (wfFile o f names) (dataVar o f (wfAx f) names)
        (readVarA (wfFile o f names) (dataVar o f (wfAx f) names)).cons).refs
      = (ftOrder f).map (imgFT o f names (datumBack f))
        ++ (gmOnly f).map (imgGM names (fun g => eraseAll (listedOf f names g) (vcoords o f names)))
    ∧ (readB (wfFile o f names) (dataVar o f (wfAx f) names)
        (readVarA (wfFile o f names) (dataVar o f (wfAx f) names)).cons).referenced
      = ((dansOrder f).map (rdB o f names)).flatMap danRefs ++ (gmOnly f).map (fun g => nameOf names (.gm g.1)) := by
  have hgr := gmRefs_eq hwf
  rw [readB_shape hwf hg]
  simp only
  have hlen' : (gmRefs f).length ≠ 1 := by rw [hgr, List.length_map]; exact hlen
  rw [gmAttr_long hlen', hgr, List.map_map]
  have hinit : (gmInit o f names).vcrs.map (·.1) = vcoords o f names := by
    unfold gmInit vcoords
    simp only [List.map_map]
    rfl
  have := gm_fold_general (o := o) hwf hg hlen (gmOnly f) (fun _ h => h) (gmInit o f names) hinit
  have hcomp : (gmEntry names ∘ extendGM f (ftOnly f)) = fun g => gmEntry names (extendGM f (ftOnly f) g) := rfl
  rw [hcomp, this]
  simp only
  refine ⟨?_, by unfold gmInit; simp⟩
  unfold gmInit
  simp only [List.map_map, List.nil_append]
  congr 1
  · apply List.map_congr_left
    intro kr hkr
    have hkr' := (ftOrder_perm hwf).mem_iff.mp hkr
    simp only [Function.comp]
    have hstart : ((ftReadOf o f names kr).coord, (ftReadOf o f names kr).ref)
        = ((ftReadOf o f names kr).coord, (ftReadOf o f names kr).ref.1,
            { (ftReadOf o f names kr).ref.2 with datum := (ftReadOf o f names kr).ref.2.datum }) := rfl
    rw [hstart, foldl_updV_ft hwf hg hkr' (gmOnly f) (fun _ h => h)]
    unfold imgFT datumBack
    simp only
    rcases vmatch_filter hwf hkr' with ⟨_, hf⟩ | ⟨_, g0, hf, _⟩
    · rw [hf]
      obtain ⟨c, hoc, _⟩ := ft_owner hwf hkr'
      simp only [List.getLast?_nil, Option.map_none, Option.getD_none, List.head?_nil]
      unfold ftReadOf
      rw [hoc]
      rfl
    · rw [hf]; rfl
  · apply List.map_congr_left
    intro g hgm
    unfold rdGM imgGM
    obtain ⟨hda, hpa⟩ := gmVar_attrs (names := names) hwf hgm
    rw [hda, hpa]

omit hg in
/-- One of several grid mappings is read back as itself, up to keys (in general). -/
theorem refEquiv_gm_general {g : Key × MRef} (hgm : g ∈ gmOnly f) (cs : List Key)
    (hcs : cs.Perm (g.2.coords.map (fun k => nameOf names (.con k)))) :
    RefEquiv (kappaB f names) g.2 (imgGM names (fun _ => cs) g).2 := by
  unfold imgGM
  refine ⟨?_, List.Perm.refl _, List.Perm.refl _, ?_⟩
  · simp only
    rw [gm_coords_kappa hwf hgm]
    exact hcs
  · simp only
    rw [(wf_gm hwf hgm).2.1]
    exact List.Perm.refl _

/-- **The coordinate references read back are those of the field, up to keys** — any number of grid
mappings, with or without vertical datums. -/
theorem read_refsB' :
    RefsEquiv (kappaB f names) f.refs
      (readB (wfFile o f names) (dataVar o f (wfAx f) names)
        (readVarA (wfFile o f names) (dataVar o f (wfAx f) names)).cons).refs := by
  by_cases hlen : (gmOnly f).length = 1
  · exact read_refsB hwf hg (Or.inl (by omega))
  · apply refsEquiv_parts (kappaB f names) (imgFT o f names (datumBack f))
      (imgGM names (fun g => eraseAll (listedOf f names g) (vcoords o f names)))
      (refs_partition hwf) (ftOrder_perm hwf)
    · exact (readB_refs_general hwf hg hlen).1
    · intro kr hkr
      exact refEquiv_ft hwf hg hkr _ (datumBack_perm hwf hkr)
    · intro g hgm
      have := refEquiv_gm_general (names := names) hwf hgm _ (eraseAll_listed (o := o) hwf hg hgm)
      exact this

/-- The data variable references the grid mapping variables and the variables of the domain
ancillaries (in general). -/
theorem read_referencedB' :
    (∀ d ∈ f.cons, d.con.ctype = .dan → ∀ r ∈ danRefs (rdB o f names d),
      r ∈ (readB (wfFile o f names) (dataVar o f (wfAx f) names)
            (readVarA (wfFile o f names) (dataVar o f (wfAx f) names)).cons).referenced)
    ∧ (∀ g ∈ gmRefs f, nameOf names (.gm g.1) ∈
        (readB (wfFile o f names) (dataVar o f (wfAx f) names)
            (readVarA (wfFile o f names) (dataVar o f (wfAx f) names)).cons).referenced) := by
  by_cases hlen : (gmOnly f).length = 1
  · exact read_referencedB hwf hg (Or.inl (by omega))
  · have hdan : ∀ d ∈ f.cons, d.con.ctype = .dan → ∀ r ∈ danRefs (rdB o f names d),
        r ∈ ((dansOrder f).map (rdB o f names)).flatMap danRefs := by
      intro d hd ht r hr
      have hdo : d ∈ dansOrder f := (dansOrder_perm hwf).mem_iff.mpr (List.mem_filter.mpr ⟨hd, by rw [ht]; rfl⟩)
      exact List.mem_flatMap.mpr ⟨_, List.mem_map_of_mem hdo, hr⟩
    rw [(readB_refs_general hwf hg hlen).2]
    refine ⟨fun d hd' ht r hr => List.mem_append_left _ (hdan d hd' ht r hr), ?_⟩
    intro g' hg'
    rw [gmRefs_eq hwf] at hg'
    obtain ⟨g0, hg0, rfl⟩ := List.mem_map.mp hg'
    exact List.mem_append_right _ (List.mem_map.mpr ⟨g0, hg0, rfl⟩)

/-- **The field read from the data variable of the written file is the original field up to
construct keys and insertion order** — with its domain ancillaries and coordinate references, any
number of grid mappings and vertical datums. -/
theorem read_equivB' (hat : NoKeyClash f names)
    (hfree : ∀ cm ∈ f.cms, ∀ a ∈ cm.axes, a ∉ f.axisKeys →
      a ∉ (wfFile o f names).dims.map (·.name) ∧ a ∉ (wfFile o f names).vars.map (·.name)) :
    Equiv f (readVar (wfFile o f names) (dataVar o f (wfAx f) names)) := by
  have hshape := readB_shape (o := o) hwf hg
  refine ⟨piOf f names, kappaB f names, pi_inj hwf hg, kappaB_inj hwf hg hat, ?_, ?_, ?_, ?_, ?_, ?_, ?_⟩
  · exact read_props
  · unfold readVar readVarA dataVar
    simp
  · exact dataVar_dims (o := o) hwf
  · show ((readVarA (wfFile o f names) (dataVar o f (wfAx f) names)).axes.map (axisSig id)).Perm _
    rw [read_axes_sig hwf hg, axes_eq_keys hwf.1]
    exact (axisOrder_perm hwf).map _
  · show (((readVarA (wfFile o f names) (dataVar o f (wfAx f) names)).cons
        ++ (readB (wfFile o f names) (dataVar o f (wfAx f) names)
            (readVarA (wfFile o f names) (dataVar o f (wfAx f) names)).cons).dans).map (renEntry id id)).Perm _
    rw [hshape, read_cons hwf hg]
    exact read_consB hwf hg
  · rfl
  · refine ⟨?_, ?_⟩
    · intro cm hcm a ha hak
      refine ⟨pi_free hwf hak, ?_⟩
      intro hin
      obtain ⟨h1, h2⟩ := hfree cm hcm a ha hak
      rcases read_axisKeys hwf hg hin with h | h
      · exact h1 h
      · exact h2 h
    · exact read_refsB' hwf hg

end

end Cfdm.Codec
