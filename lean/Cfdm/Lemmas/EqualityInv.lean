import Cfdm.Lemmas.EqualityRename
/-
Helper lemmas for C05: what a verdict `True` of `Field.equals` implies (soundness),
from which the discrimination theorems follow by contraposition.
-/
namespace Cfdm.Equality
open Cfdm.Equality.Spec

theorem fieldEquals_true_inv (o : Opts) (x y : Field) (h : fieldEquals o x y = .ok true) :
    x.cls = y.cls
    ∧ propsEquals o.close (ignoredNames o.ignoreFillValue (fieldIgnoreProps o.ignoreProps)) x.props y.props = true
    ∧ optDataEquals o.close o.ignoreDataType o.ignoreFillValue o.ignoreCompression x.data y.data = true
    ∧ constructsEquals o x y = .ok true := by
  unfold fieldEquals at h
  split at h
  · split at h <;> simp at h
  · rename_i hcls
    split at h
    · simp at h
    · rename_i hp
      split at h
      · simp at h
      · rename_i hd
        exact ⟨by simpa using hcls, by simpa using hp, by simpa using hd, h⟩

theorem constructsEquals_true_inv (o : Opts) (x y : Field) (h : constructsEquals o x y = .ok true) :
    domainAxesEqual x.axes y.axes = true
    ∧ (groupsOf x.cons).length = (groupsOf y.cons).length
    ∧ ∃ matched m01 m10,
        greedyPairs (groupRel (constructCore o.inner)) (groupsOf x.cons) (groupsOf y.cons) = some matched
        ∧ axisMapLoop (axisPairs matched) ([], []) = some (m01, m10)
        ∧ cellMethodsEqual o.close m01 m10 (x.cms.map (·.2)) (y.cms.map (·.2)) = .ok true
        ∧ refsEqual o.close (keyMap (constructCore o.inner) matched) (x.refs.map (·.2)) (y.refs.map (·.2)) = true := by
  unfold constructsEquals at h
  split at h
  · simp at h
  · rename_i hsz
    simp only at h
    split at h
    · simp at h
    · rename_i hlen
      split at h
      · simp at h
      · rename_i matched hm
        split at h
        · simp at h
        · rename_i m01 m10 hloop
          split at h
          · simp at h
          · simp at h
          · rename_i hcm
            refine ⟨by simpa using hsz, by simpa using hlen, matched, m01, m10, hm, hloop, hcm, ?_⟩
            simpa using h

theorem cellMethodsEqual_true_length {close m01 m10} {c0 c1 : List CellMethod}
    (h : cellMethodsEqual close m01 m10 c0 c1 = .ok true) : c0.length = c1.length := by
  unfold cellMethodsEqual at h
  split at h
  · simp at h
  · rename_i hl; simpa using hl

theorem refsEqual_true_length {close k} {r0 r1 : List CoordRef}
    (h : refsEqual close k r0 r1 = true) : r0.length = r1.length := by
  simp only [refsEqual, greedyMatch, Bool.and_eq_true, beq_iff_eq] at h
  exact h.1

theorem groupPairs_isSome_role (eq : Construct → Construct → Bool) (g0 g1 : List Entry) (rs : List Nat)
    (h : (groupPairs eq g0 g1 rs).isSome = true) (role : Nat) (hr : role ∈ rs) :
    (rolePairs eq g0 g1 role).isSome = true := by
  induction rs with
  | nil => simp at hr
  | cons r rest ih =>
    simp only [groupPairs] at h
    cases h1 : rolePairs eq g0 g1 r with
    | none => simp [h1] at h
    | some ps =>
      simp only [h1] at h
      cases h2 : groupPairs eq g0 g1 rest with
      | none => simp [h2] at h
      | some qs =>
        rcases List.mem_cons.mp hr with rfl | hr'
        · simp [h1]
        · exact ih (by simp [h2]) hr'

/-- Soundness of the matching of constructs: when two groups are accepted, every construct of the
first has a counterpart of the same type in the second that compares equal. -/
theorem groupRel_counterpart (eq : Construct → Construct → Bool) (a b : List Nat × List Entry)
    (h : groupRel eq a b = true) (e : Entry) (he : e ∈ a.2) (hrole : e.c.cls ∈ roles) :
    a.1.length = b.1.length ∧ ∃ e' ∈ b.2, e'.c.cls = e.c.cls ∧ eq e.c e'.c = true := by
  simp only [groupRel, Bool.and_eq_true, beq_iff_eq] at h
  refine ⟨h.1, ?_⟩
  have hrp := groupPairs_isSome_role eq a.2 b.2 roles h.2 e.c.cls hrole
  unfold rolePairs at hrp
  split at hrp
  · simp at hrp
  · cases hps : greedyPairs (fun a b => eq a.c b.c) (ofRole e.c.cls a.2) (ofRole e.c.cls b.2) with
    | none => simp [hps] at hrp
    | some ps =>
      obtain ⟨h1, h2, rest, h3⟩ := greedyPairs_sound _ _ _ ps hps
      have hmem : e ∈ ofRole e.c.cls a.2 := by simp [ofRole, he]
      rw [← h1] at hmem
      obtain ⟨p, hp, rfl⟩ := List.mem_map.mp hmem
      have hp2 : p.2 ∈ ofRole p.1.c.cls b.2 :=
        h3.mem_iff.mpr (List.mem_append_left _ (List.mem_map_of_mem hp))
      simp only [ofRole, List.mem_filter, beq_iff_eq] at hp2
      exact ⟨p.2, hp2.1, hp2.2, h2 p hp⟩

theorem groupsOf_axes {cons : List Entry} {a : List Nat × List Entry} (h : a ∈ groupsOf cons) :
    ∀ e ∈ a.2, e.axes = a.1 := by
  simp only [groupsOf, List.mem_map] at h
  obtain ⟨ax, _, rfl⟩ := h
  intro e he
  simpa using (List.mem_filter.mp he).2

/-- **Soundness at field level**: a verdict `True` pairs every metadata construct of `x` with a
construct of `y` of the same type, spanning as many axes, that compares equal. -/
theorem constructsEquals_counterpart (o : Opts) (x y : Field) (h : constructsEquals o x y = .ok true)
    (e : Entry) (he : e ∈ x.cons) (hrole : e.c.cls ∈ roles) :
    ∃ e' ∈ y.cons, e'.c.cls = e.c.cls ∧ e'.axes.length = e.axes.length
      ∧ constructCore o.inner e.c e'.c = true := by
  obtain ⟨_, _, matched, _, _, hm, _, _, _⟩ := constructsEquals_true_inv o x y h
  obtain ⟨h1, h2, rest, h3⟩ := greedyPairs_sound _ _ _ matched hm
  obtain ⟨a, ha, hea⟩ := mem_group_of_mem x.cons e he
  rw [← h1] at ha
  obtain ⟨p, hp, rfl⟩ := List.mem_map.mp ha
  have hp2 : p.2 ∈ groupsOf y.cons := h3.mem_iff.mpr (List.mem_append_left _ (List.mem_map_of_mem hp))
  obtain ⟨hl, e', he', hc1, hc2⟩ := groupRel_counterpart _ p.1 p.2 (h2 p hp) e hea hrole
  refine ⟨e', mem_groupsOf hp2 e' he', hc1, ?_, hc2⟩
  rw [groupsOf_axes hp2 e' he', groupsOf_axes (h1 ▸ List.mem_map_of_mem hp) e hea]
  exact hl.symm

theorem cmPairEquals_true_inv {close m01 m10} {cm0 cm1 : CellMethod}
    (h : cmPairEquals close m01 m10 cm0 cm1 = .ok true) :
    cm0.axes.length = cm1.axes.length ∧ cm0.method = cm1.method
      ∧ dictEq (fun a b => a == b) cm0.quals cm1.quals = true := by
  unfold cmPairEquals at h
  split at h
  · simp at h
  · rename_i hlen
    split at h
    · simp at h
    · split at h
      · simp at h
      · split at h
        · simp at h
        · simp only [Except.ok.injEq, cellMethodCore, Bool.and_eq_true, beq_iff_eq] at h
          exact ⟨by simpa using hlen, h.1.1, h.1.2⟩

theorem cmListEquals_true_inv {close m01 m10} {c0 c1 : List CellMethod} (hlen : c0.length = c1.length)
    (h : cmListEquals close m01 m10 c0 c1 = .ok true) :
    ∀ i (h0 : i < c0.length) (h1 : i < c1.length), cmPairEquals close m01 m10 c0[i] c1[i] = .ok true := by
  induction c0 generalizing c1 with
  | nil => intro i h0; simp at h0
  | cons a as ih =>
    cases c1 with
    | nil => simp at hlen
    | cons b bs =>
      simp only [cmListEquals] at h
      cases hp : cmPairEquals close m01 m10 a b with
      | error e => simp [hp] at h
      | ok v =>
        cases v with
        | false => simp [hp] at h
        | true =>
          simp only [hp] at h
          intro i h0 h1
          cases i with
          | zero => simpa using hp
          | succ j =>
            simp only [List.getElem_cons_succ]
            exact ih (by simpa using hlen) h j (by simpa using h0) (by simpa using h1)

/-- Soundness for the cell methods: a verdict `True` means as many cell methods, pairwise (in
order) with the same method, the same qualifiers and as many axes. -/
theorem constructsEquals_cell_methods (o : Opts) (x y : Field) (h : constructsEquals o x y = .ok true) :
    x.cms.length = y.cms.length ∧
    ∀ i (h0 : i < x.cms.length) (h1 : i < y.cms.length),
      (x.cms[i]).2.axes.length = (y.cms[i]).2.axes.length ∧ (x.cms[i]).2.method = (y.cms[i]).2.method
        ∧ dictEq (fun a b => a == b) (x.cms[i]).2.quals (y.cms[i]).2.quals = true := by
  obtain ⟨_, _, matched, m01, m10, _, _, hcm, _⟩ := constructsEquals_true_inv o x y h
  have hlen := cellMethodsEqual_true_length hcm
  simp only [List.length_map] at hlen
  refine ⟨hlen, fun i h0 h1 => ?_⟩
  unfold cellMethodsEqual at hcm
  split at hcm
  · simp at hcm
  · have := cmListEquals_true_inv (by simpa using hlen) hcm i (by simpa using h0) (by simpa using h1)
    simp only [List.getElem_map] at this
    exact cmPairEquals_true_inv this

/-- Soundness for the coordinate references: every reference of `x` has a counterpart in `y` with
the same parameters, datum and — through the key map — coordinates and domain-ancillary terms. -/
theorem constructsEquals_coord_refs (o : Opts) (x y : Field) (h : constructsEquals o x y = .ok true) :
    x.refs.length = y.refs.length ∧
    ∀ r ∈ x.refs, ∃ r' ∈ y.refs, coordRefCore o.close r.2 r'.2 = true := by
  obtain ⟨_, _, matched, m01, m10, _, _, _, hr⟩ := constructsEquals_true_inv o x y h
  have hlen := refsEqual_true_length hr
  simp only [List.length_map] at hlen
  refine ⟨hlen, fun r hrm => ?_⟩
  obtain ⟨l1', hp, hf⟩ := greedyMatch_sound _ _ _ hr
  have hmem : r.2 ∈ x.refs.map (·.2) := List.mem_map_of_mem hrm
  obtain ⟨n, hn, hrn⟩ := List.getElem_of_mem hmem
  have hf' := List.forall₂_iff_get.mp hf
  have hn' : n < l1'.length := hf'.1 ▸ hn
  have hrel := hf'.2 n hn hn'
  have hin : l1'[n] ∈ y.refs.map (·.2) := hp.mem_iff.mp (List.getElem_mem hn')
  obtain ⟨r', hr', hre⟩ := List.mem_map.mp hin
  refine ⟨r', hr', ?_⟩
  simp only [List.get_eq_getElem] at hrel
  rw [hrn] at hrel
  simp only [refRel, Bool.and_eq_true] at hrel
  rw [hre]
  exact hrel.1.1

end Cfdm.Equality
