import Cfdm.Lemmas.ConstructsStore
/-
C02 — preservation of the core invariant by the dictionary and field-level operations.
-/
namespace Cfdm.Constructs

/-! ### `new_identifier` returns an identifier that no construct of any type uses -/

theorem newNumGo_spec (taken : Nat → Bool) (fuel n : Nat) :
    taken (newNumGo taken fuel n) = false ∨ ∀ i, i < fuel → taken (n + i) = true := by
  induction fuel generalizing n with
  | zero => right; intro i hi; omega
  | succ f ih =>
    unfold newNumGo
    by_cases ht : taken n = true
    · rw [if_pos ht]
      rcases ih (n + 1) with h | h
      · exact Or.inl h
      · right
        intro i hi
        cases i with
        | zero => simpa using ht
        | succ j => have := h j (by omega); rwa [Nat.add_assoc, Nat.add_comm 1 j] at this
    · rw [if_neg ht]; left; simpa using ht

theorem Dict.length_del_lt {κ ν} [DecidableEq κ] (d : Dict κ ν) (k : κ) (h : (d.get k).isSome = true) :
    (d.del k).length < d.length := by
  induction d with
  | nil => simp at h
  | cons p r ih =>
    unfold Dict.del
    rw [List.filter_cons]
    by_cases hp : p.1 = k
    · rw [if_neg (by simp [hp])]
      exact Nat.lt_succ_of_le (List.length_filter_le _ r)
    · rw [if_pos (by simp [hp])]
      rw [Dict.get_cons, if_neg hp] at h
      have := ih h
      unfold Dict.del at this
      exact Nat.succ_lt_succ this

/-- pigeonhole: `f` distinct registered identifiers need a dictionary of at least `f` entries -/
theorem taken_le_length (base : String) (n : Nat) (f : Nat) (d : Dict Key CType)
    (h : ∀ i, i < f → (d.get ⟨base, n + i⟩).isSome = true) : f ≤ d.length := by
  induction f generalizing d with
  | zero => omega
  | succ g ih =>
    have hk := h g (by omega)
    have hlt := Dict.length_del_lt d ⟨base, n + g⟩ hk
    have := ih (d.del ⟨base, n + g⟩) (by
      intro i hi
      rw [Dict.get_del, if_neg]
      · exact h i (by omega)
      · intro e; injection e with _ e2; omega)
    omega

theorem newKey_fresh (s : St) (t : CType) : s.ctype.get (newKey true s t) = none := by
  unfold newKey
  simp only [↓reduceIte]
  rcases newNumGo_spec (fun n => (s.ctype.get ⟨t.base, n⟩).isSome) (s.ctype.length + s.cons.length + 1) (countType s t) with h | h
  · simpa using h
  · have := taken_le_length t.base (countType s t) _ s.ctype h
    omega

/-! ### look-ups after `putCon` / `pop` -/

theorem putCon_cons (s : St) (t : CType) (k : Key) (c : Con) (q : CType × Key) :
    (putCon s t k c).cons.get q = if q = (t, k) then some c else s.cons.get q := by
  simp [putCon, Dict.get_set]

theorem putCon_ctype (s : St) (t : CType) (k : Key) (c : Con) (q : Key) :
    (putCon s t k c).ctype.get q = if q = k then some t else s.ctype.get q := by
  simp [putCon, Dict.get_set]

/-! ### admissible arguments of `set_construct` -/

/-- The arguments of a `set_construct` call outside the three open findings:
the construct is itself consistent; a domain axis that replaces one which something spans keeps its
size; a coordinate reference / cell method names only existing constructs. -/
def SetOK (s : St) (t : CType) (c : Con) (key : Option Key) : Prop :=
  c.WF t ∧
  (t = .axis → ∀ k old, key = some k → s.cons.get (.axis, k) = some old → old.size = c.size ∨ ¬ Spanned s k) ∧
  (t = .ref → RefNames s c) ∧ (t = .cm → CmNames s c)

theorem shape_nonArray {t : CType} (c : Con) (h : t.isArray = false) : c.shape t = none := by
  unfold Con.shape; simp [h]

theorem resolveKey_spec {s : St} (h : Core s) {t : CType} {c : Con} {key : Option Key} {k : Key}
    (hsz : t = .axis → ∀ k old, key = some k → s.cons.get (.axis, k) = some old → old.size = c.size ∨ ¬ Spanned s k)
    (hk : resolveKey true s t key = some k) :
    (∀ t', s.ctype.get k = some t' → t' = t) ∧
      (t = .axis → ∀ old, s.cons.get (.axis, k) = some old → old.size = c.size ∨ ¬ Spanned s k) := by
  unfold resolveKey at hk
  cases key with
  | none =>
    simp only [Option.some.injEq] at hk
    subst hk
    have hf := newKey_fresh s t
    refine ⟨fun t' ht' => (by rw [hf] at ht'; cases ht'), fun _ old ho => ?_⟩
    have := h.tos _ old ho
    rw [hf] at this; cases this
  | some k0 =>
    simp only at hk
    split at hk
    · rename_i hk0
      simp only [Option.some.injEq] at hk
      subst hk
      refine ⟨fun t' ht' => (by rw [ht'] at hk0; simpa using hk0), fun hta old ho => hsz hta k0 old rfl ho⟩
    · cases hk

/-- storing under a key that is unused or used by a construct of the same type -/
theorem storeAt_core {s : St} (h : Core s) (t : CType) (c : Con) (k : Key) (axes : Option (List Key))
    (hfree : ∀ t', s.ctype.get k = some t' → t' = t) (hwf : c.WF t)
    (hsize : t = .axis → ∀ old, s.cons.get (.axis, k) = some old → old.size = c.size ∨ ¬ Spanned s k)
    (hrn : t = .ref → RefNames s c) (hcn : t = .cm → CmNames s c) :
    Core (storeAt true s t c k axes).1 := by
  have hm : ∀ q, (s.cons.get q).isSome = true → ((putCon s t k c).cons.get q).isSome = true := by
    intro q hq; rw [putCon_cons]; split <;> simp_all
  -- the construct is stored and the recorded axes stay what they are
  have store_noaxes : (∀ A, s.caxes.get k = some A → t.isArray = false) → Core (putCon s t k c) := by
    intro hna
    refine core_store (ax := s.caxes.get k) h (putCon_cons s t k c) (putCon_ctype s t k c) (fun q => by
      by_cases hq : q = k
      · subst hq; simp [putCon]
      · simp [putCon, hq]) rfl rfl rfl hfree hwf ?_ hsize
      (fun hr => refNames_mono hm (hrn hr)) (fun hr => cmNames_mono hm (hcn hr))
    intro A hA
    apply axesOK_of_noShape (shape_nonArray c (hna A hA))
    have := h.cax k A hA
    cases hc : conOf s k with
    | none => simp [hc] at this
    | some tc =>
      simp only [hc] at this
      exact fun a ha => hm _ (this.1 a ha)
  unfold storeAt
  by_cases harr : t.isArray = true
  · rw [if_pos harr]
    have htax : t ≠ .axis := by intro e; subst e; simp [CType.isArray] at harr
    cases hax : axesFor true s k axes with
    | none =>
      simp only
      apply store_noaxes
      intro A hA
      unfold axesFor at hax
      cases axes with
      | some A' => simp at hax
      | none => simp only [↓reduceIte] at hax; rw [hax] at hA; cases hA
    | some A =>
      simp only
      by_cases hchk : axesCheck s t c A = true
      · rw [if_pos hchk]
        refine core_store (ax := some A) h (s' := { putCon s t k c with caxes := s.caxes.set k A })
          (putCon_cons s t k c) (putCon_ctype s t k c) (fun q => by simp [Dict.get_set]) rfl rfl rfl hfree hwf ?_ hsize
          (fun hr => refNames_mono hm (hrn hr)) (fun hr => cmNames_mono hm (hcn hr))
        intro A' hA'
        simp only [Option.some.injEq] at hA'
        subst hA'
        refine (axesOK_congr (fun a _ => ?_) t c).mpr (axesOK_of_check hwf hchk)
        unfold axSize
        show ((putCon s t k c).cons.get (CType.axis, a)).map _ = _
        rw [putCon_cons, if_neg (by intro e; cases e; exact htax rfl)]
      · rw [if_neg hchk]; exact h
  · rw [if_neg harr]
    have harr' : t.isArray = false := by simpa using harr
    by_cases hax : axes.isSome = true
    · rw [if_pos hax]; exact h
    · rw [if_neg hax]
      exact store_noaxes (fun _ _ => harr')

theorem setConstruct_core {s : St} (h : Core s) (view : Bool) (t : CType) (c : Con) (key : Option Key)
    (axes : Option (List Key)) (hok : SetOK s t c key) : Core (setConstruct true s view t c key axes).1 := by
  obtain ⟨hwf, hsz, hrn, hcn⟩ := hok
  unfold setConstruct
  by_cases hig : ignored view t = true
  · rw [if_pos hig]; exact h
  rw [if_neg hig]
  cases hk : resolveKey true s t key with
  | none => exact h
  | some k =>
    obtain ⟨hfree, hsize⟩ := resolveKey_spec h hsz hk
    exact storeAt_core h t c k axes hfree hwf hsize hrn hcn


/-! ### `del_construct` -/

theorem typeOf_some {s : St} {view : Bool} {k : Key} {t : CType} (h : typeOf s view k = some t) :
    s.ctype.get k = some t := by
  unfold typeOf at h
  cases hg : s.ctype.get k with
  | none => simp [hg] at h
  | some t0 =>
    simp only [hg] at h
    split at h
    · cases h
    · simpa using h

theorem spansAny_false {d : Dict Key (List Key)} {key : Key} (h : spansAny d key = false) {q : Key} {A : List Key}
    (hq : d.get q = some A) : key ∉ A := by
  have := Dict.any_false_of_get h hq
  simpa using this

theorem pop_cons_id (s : St) (t : CType) (key : Key) (q : CType × Key) :
    (pop s t key).cons.get q = if q = (t, key) then none else (s.cons.get q).map (fun c => c) := by
  simp [pop, Dict.get_del]

theorem delConstruct_core {s : St} (h : Core s) (view : Bool) (key : Key) :
    Core (delConstruct true s view key).1 := by
  unfold delConstruct
  cases ht : typeOf s view key with
  | none => exact h
  | some t =>
    simp only [↓reduceIte, Bool.true_and, Bool.true_or]
    have hreg := typeOf_some ht
    split
    · exact h
    by_cases hax : isAxis s key = true
    · rw [if_pos hax]
      have hta : t = .axis := by
        unfold isAxis at hax
        cases hg : s.cons.get (.axis, key) with
        | none => simp [hg] at hax
        | some c0 =>
          have := h.tos _ c0 hg
          simp only at this
          rw [hreg] at this; cases this; rfl
      split
      · exact h
      rename_i hsp
      split
      · exact h
      rename_i hfd
      split
      · exact h
      rename_i hcm
      simp only
      refine core_remove (f := fun _ c => c) h ⟨fun _ _ _ => rfl, fun _ _ _ => Or.inl rfl⟩
        (pop_cons_id s t key) (fun q => by simp [pop, Dict.get_del]) (fun q => by simp [pop, Dict.get_del])
        rfl rfl rfl hreg ?_ (fun hne => absurd hta hne)
      intro _
      refine ⟨?_, ?_⟩
      · rintro (⟨q, A, hq, hk⟩ | hk)
        · exact spansAny_false (by simpa using hsp) hq hk
        · rw [← h.fax.2] at hk
          simp only [Bool.not_eq_true] at hfd
          have : (s.fda.getD []).contains key = true := by simpa using hk
          rw [this] at hfd; cases hfd
      · intro q c hq hqc hmem
        simp only [Bool.not_eq_true] at hcm
        unfold cmNames at hcm
        have := Dict.any_false_of_get hcm hq
        simp only [hqc, decide_true, Bool.true_and, List.contains_eq_mem, decide_eq_false_iff_not] at this
        exact this hmem
    · rw [if_neg hax]
      have hta : t ≠ .axis := by
        intro e; subst e
        have := h.sot key _ hreg
        unfold isAxis at hax; exact hax this
      simp only
      refine core_remove (f := fun q c => if q.1 = .ref then cleanRef key c else c) h
        ⟨fun q c hq => by simp [hq], fun q c hq => Or.inr (by simp [hq])⟩
        (fun q => by simp [pop, cleanRefs, Dict.get_del, Dict.get_mapv])
        (fun q => by simp [pop, cleanRefs, Dict.get_del]) (fun q => by simp [pop, cleanRefs, Dict.get_del])
        rfl rfl rfl hreg (fun e => absurd e hta) (fun _ q c hq => by simp [hq])


/-! ### field data and data axes -/

/-- every clause but the field clause only looks at the three dictionaries -/
theorem core_field {s s' : St} (h : Core s) (hc : s'.cons = s.cons) (ht : s'.ctype = s.ctype)
    (hx : s'.caxes = s.caxes) (hf : FieldAxes s') : Core s' := by
  obtain ⟨c', t', x', d', a', f'⟩ := s'
  simp only at hc ht hx
  subst hc ht hx
  exact ⟨h.tos, h.sot, h.cax, h.wf, hf, h.refs, h.cms⟩

theorem all_isAxis {s : St} {A : List Key} (h : A.all (isAxis s) = true) : AxesExist s A := by
  intro a ha
  rw [List.all_eq_true] at h
  exact h a ha

theorem setDataAxes_core {s : St} (h : Core s) (A : List Key) :
    Core (setDataAxes true s A s.data).1 := by
  unfold setDataAxes
  cases hd : s.data with
  | some shp =>
    simp only
    split
    · rename_i hs
      refine core_field h rfl rfl rfl ⟨?_, rfl⟩
      have hf := (sizesOf_iff s A shp).mp hs
      exact ⟨fits_exist hf, hf⟩
    · exact h
  | none =>
    simp only [Bool.true_and]
    split
    · exact h
    · rename_i hs
      refine core_field h rfl rfl rfl ⟨?_, rfl⟩
      have hex : AxesExist s A := all_isAxis (by simpa using hs)
      exact ⟨hex, trivial⟩

/-- `set_data_axes` called with the shape of new data (from `set_data`) -/
theorem setDataAxes_shape_core {s : St} (h : Core s) (A : List Key) (shp : List Nat) {s' : St} {o : Option Key}
    (hr : setDataAxes true s A (some shp) = (s', .ok o)) :
    Core { s' with data := some shp } := by
  unfold setDataAxes at hr
  simp only at hr
  split at hr
  · rename_i hs
    simp only [Prod.mk.injEq, Out.ok.injEq] at hr
    obtain ⟨rfl, _⟩ := hr
    refine core_field h rfl rfl rfl ⟨?_, rfl⟩
    have hf := (sizesOf_iff s A shp).mp hs
    exact ⟨fits_exist hf, hf⟩
  · simp at hr

theorem setData_core {s : St} (h : Core s) (shp : List Nat) (axes : Option (List Key)) :
    Core (setData true s shp axes).1 := by
  unfold setData
  cases hax : dataAxesFor s axes with
  | some A =>
    simp only
    cases hr : setDataAxes true s A (some shp) with
    | mk s' o =>
      cases o with
      | ok k => exact setDataAxes_shape_core h A shp hr
      | rejected => exact h
  | none =>
    simp only
    refine core_field h rfl rfl rfl ⟨?_, h.fax.2⟩
    unfold dataAxesFor at hax
    cases axes with
    | some A => simp at hax
    | none => simp only at hax; simp [hax]

theorem delData_core {s : St} (h : Core s) : Core (delData s).1 := by
  unfold delData
  cases hd : s.data with
  | none => exact h
  | some shp =>
    refine core_field h rfl rfl rfl ⟨?_, h.fax.2⟩
    have := h.fax.1
    cases hA : s.dataAxes with
    | none => trivial
    | some A => simp only [hA] at this ⊢; exact ⟨this.1, trivial⟩

theorem delDataAxes_core {s : St} (h : Core s) : Core (delDataAxes true s).1 := by
  unfold delDataAxes
  cases hd : s.dataAxes with
  | none => exact h
  | some A => exact core_field h rfl rfl rfl ⟨trivial, rfl⟩

/-! ### data axes of one construct, `constructs.replace` -/

theorem conOf_of_type {s : St} {k : Key} {t : CType} {c : Con} (ht : s.ctype.get k = some t)
    (hc : s.cons.get (t, k) = some c) : conOf s k = some (t, c) := by
  unfold conOf; simp [ht, hc]

theorem setConAxes_core {s : St} (h : Core s) (view : Bool) (A : List Key) (key : Key) :
    Core (setConAxes s view A key).1 := by
  unfold setConAxes
  cases ht : typeOf s view key with
  | none => exact h
  | some t =>
    simp only
    have hreg := typeOf_some ht
    cases hc : s.cons.get (t, key) with
    | none => exact h
    | some c =>
      simp only
      split
      · rename_i hchk
        have hwf := h.wf _ c hc
        refine core_store (t := t) (k := key) (c := c) (ax := some A) h
          (fun q => by by_cases hq : q = (t, key) <;> simp [hq, hc])
          (fun q => by by_cases hq : q = key <;> simp [hq, hreg])
          (fun q => by simp [Dict.get_set]) rfl rfl rfl
          (fun t' ht' => by rw [hreg] at ht'; cases ht'; rfl) hwf ?_
          (fun hta old ho => by subst hta; rw [hc] at ho; cases ho; exact Or.inl rfl)
          (fun hr => by subst hr; exact h.refs _ c hc rfl) (fun hr => by subst hr; exact h.cms _ c hc rfl)
        intro A' hA'
        simp only [Option.some.injEq] at hA'; subst hA'
        exact (show AxesOK s t c A from axesOK_of_check hwf hchk)
      · exact h

theorem delConAxes_core {s : St} (h : Core s) (view : Bool) (key : Key) :
    Core (delConAxes s view key).1 := by
  unfold delConAxes
  cases hx : s.caxes.get key with
  | none => exact h
  | some A =>
    cases ht : typeOf s view key with
    | none => exact h
    | some t =>
      simp only
      have hreg := typeOf_some ht
      have hs := h.sot key t hreg
      cases hc : s.cons.get (t, key) with
      | none => simp [hc] at hs
      | some c =>
        refine core_store (t := t) (k := key) (c := c) (ax := none) h
          (fun q => by by_cases hq : q = (t, key) <;> simp [hq, hc])
          (fun q => by by_cases hq : q = key <;> simp [hq, hreg])
          (fun q => by simp [Dict.get_del]) rfl rfl rfl
          (fun t' ht' => by rw [hreg] at ht'; cases ht'; rfl) (h.wf _ c hc) (fun A' hA' => by cases hA')
          (fun hta old ho => by subst hta; rw [hc] at ho; cases ho; exact Or.inl rfl)
          (fun hr => by subst hr; exact h.refs _ c hc rfl) (fun hr => by subst hr; exact h.cms _ c hc rfl)

/-- The arguments of `constructs.replace` that the documented absence of checks leaves to the caller:
the new construct is consistent and fits the axes it ends up with, a spanned domain axis keeps its size,
and the references it carries exist. -/
def ReplaceOK (s : St) (key : Key) (c : Con) (axes : Option (List Key)) : Prop :=
  ∀ t, s.ctype.get key = some t →
    c.WF t ∧
    (∀ A, replaceAxes s t key axes = some A → AxesOK s t c A) ∧
    (t = .axis → ∀ old, s.cons.get (.axis, key) = some old → old.size = c.size ∨ ¬ Spanned s key) ∧
    (t = .ref → RefNames s c) ∧ (t = .cm → CmNames s c)

theorem replaceCon_core {s : St} (h : Core s) (key : Key) (c : Con) (axes : Option (List Key))
    (hok : ReplaceOK s key c axes) : Core (replaceCon s key c axes).1 := by
  unfold replaceCon
  cases ht : s.ctype.get key with
  | none => exact h
  | some t =>
    simp only
    obtain ⟨hwf, hax, hsz, hrn, hcn⟩ := hok t ht
    have hm : ∀ q, (s.cons.get q).isSome = true → ((s.cons.set (t, key) c).get q).isSome = true := by
      intro q hq; rw [Dict.get_set]; split <;> simp_all
    -- the sizes of the axes named by the new axes are those of `s`, unless `key` itself is a resized axis
    refine core_store (t := t) (k := key) (c := c)
      (ax := replaceAxes s t key axes) h
      (fun q => by simp [Dict.get_set])
      (fun q => by by_cases hq : q = key <;> simp [hq, ht])
      (fun q => by
        unfold replaceAxes
        cases axes with
        | none => by_cases hq : q = key <;> simp [hq]
        | some A =>
          by_cases ha : t.isArray = true
          · simp [ha, Dict.get_set]
          · by_cases hq : q = key <;> simp [ha, hq]) rfl rfl rfl
      (fun t' ht' => by rw [ht] at ht'; cases ht'; rfl) hwf ?_ hsz
      (fun hr => refNames_mono hm (hrn hr)) (fun hr => cmNames_mono hm (hcn hr))
    intro A hA
    have h0 := hax A hA
    refine (axesOK_congr (fun a ha => ?_) t c).mpr h0
    unfold axSize
    show ((s.cons.set (t, key) c).get (CType.axis, a)).map _ = _
    rw [Dict.get_set]
    by_cases hq : (CType.axis, a) = (t, key)
    · rw [if_pos hq]
      have hta : t = .axis := by cases hq; rfl
      have hk : a = key := by cases hq; rfl
      subst hk hta
      have hex := h0.1 a ha
      cases hg : s.cons.get (.axis, a) with
      | none => simp [hg] at hex
      | some old =>
        rcases hsz rfl old hg with h1 | h1
        · simp [h1]
        · -- `a` names itself in the axes recorded for it: then it is spanned
          exfalso; apply h1
          unfold replaceAxes at hA
          cases axes with
          | none => exact Or.inl ⟨a, A, hA, ha⟩
          | some A' =>
            simp only [CType.isArray, Bool.false_eq_true, ↓reduceIte] at hA
            exact Or.inl ⟨a, A, hA, ha⟩
    · rw [if_neg hq]

end Cfdm.Constructs
