import Cfdm.Lemmas.LazySim
/- C12: open handles, the fetch log and the reader model. -/
namespace Cfdm.Lazy
open Cfdm.PySlice Cfdm.Arr Cfdm.Indexing

variable {α : Type} [DecidableEq α]

/-! ### Handles: every access is an open/close bracket -/

theorem fetch_handles {b : Backend} (hb : b.leaky = false) (st : Store α) (w : World α) (loc : Loc)
    (shape : List Nat) (sels : Option (List Sel)) :
    (fetch b st w loc shape sels).2.handles = w.handles := by
  unfold fetch
  cases sels with
  | none => simp
  | some sels =>
    simp only
    cases checkIndex shape sels with
    | some e => simp [afterError, hb]
    | none =>
      simp only
      split <;> simp [afterError, hb]

theorem getArray_handles {b : Backend} (hb : b.leaky = false) (st : Store α) (w : World α) (s : AState α) :
    (getArray b st w s).2.handles = w.handles := by
  cases s with
  | mem a => rfl
  | disk loc shape => exact fetch_handles hb st w loc shape none

theorem getSub_handles {b : Backend} (hb : b.leaky = false) (st : Store α) (w : World α) (s : AState α)
    (ix : List RawIx) : (getSub b st w s ix).2.handles = w.handles := by
  unfold getSub
  cases parse s.shape ix with
  | error e => rfl
  | ok sels =>
    cases s with
    | mem a => simp only; cases checkIndex a.shape sels <;> rfl
    | disk loc shape => exact fetch_handles hb st w loc shape (some sels)

theorem item_handles {b : Backend} (hb : b.leaky = false) (st : Store α) (w : World α) (s : AState α)
    (ix : List RawIx) : (item b st w s ix).2.handles = w.handles := by
  unfold item
  have h := getSub_handles hb st w s ix
  revert h
  generalize getSub b st w s ix = r
  intro h
  obtain ⟨r1, w'⟩ := r
  cases r1 with
  | error e => exact h
  | ok a =>
    simp only
    cases toList a with
    | nil => exact h
    | cons x xs => cases xs <;> exact h

theorem items_handles {b : Backend} (hb : b.leaky = false) (st : Store α) (s : AState α) :
    ∀ (ixs : List (List RawIx)) (w : World α) (acc : List α), (items b st s ixs w acc).2.handles = w.handles := by
  intro ixs
  induction ixs with
  | nil => intro w acc; rfl
  | cons ix rest ih =>
    intro w acc
    unfold items
    have h := item_handles hb st w s ix
    revert h
    generalize item b st w s ix = r
    intro h
    obtain ⟨r1, w'⟩ := r
    cases r1 with
    | error e => exact h
    | ok x => simp only; rw [ih w' (x :: acc)]; exact h

theorem put_handles (w : World α) (i : Nat) (s : AState α) (inplace : Bool) :
    (put w i s inplace).1.handles = w.handles := by
  unfold put; cases inplace <;> rfl

theorem put_log (w : World α) (i : Nat) (s : AState α) (inplace : Bool) :
    (put w i s inplace).1.log = w.log := by
  unfold put; cases inplace <;> rfl

/-- After any operation — also one that raises — as many datasets are open as before it. -/
theorem step_handles {b : Backend} (hb : b.leaky = false) (st : Store α) (w : World α) (op : Op α) :
    (step b st w op).1.handles = w.handles := by
  cases op with
  | copy i => simp only [step]; cases w.heap[i]? <;> simp [put_handles]
  | edit i => simp only [step]; cases w.heap[i]? <;> rfl
  | subspace i ix =>
    simp only [step]
    cases w.heap[i]? with
    | none => rfl
    | some s =>
      simp only
      have h := getSub_handles hb st w s ix
      revert h
      generalize getSub b st w s ix = r
      intro h
      obtain ⟨r1, w'⟩ := r
      cases r1 <;> simp [put_handles] <;> exact h
  | toMemory i inplace =>
    simp only [step]
    cases w.heap[i]? with
    | none => rfl
    | some s =>
      simp only
      have h := getArray_handles hb st w s
      revert h
      generalize getArray b st w s = r
      intro h
      obtain ⟨r1, w'⟩ := r
      cases r1 <;> simp [put_handles] <;> exact h
  | array i =>
    simp only [step]
    cases w.heap[i]? with
    | none => rfl
    | some s =>
      simp only
      have h := getArray_handles hb st w s
      revert h
      generalize getArray b st w s = r
      intro h
      obtain ⟨r1, w'⟩ := r
      cases r1 <;> exact h
  | setitem i ix v =>
    simp only [step]
    cases w.heap[i]? with
    | none => rfl
    | some s =>
      simp only
      cases parse s.shape ix with
      | error e => rfl
      | ok sels =>
        have h := getArray_handles hb st w s
        revert h
        generalize getArray b st w s = r
        intro h
        obtain ⟨r1, w'⟩ := r
        cases r1 with
        | error e => exact h
        | ok a =>
          simp only
          cases checkIndex a.shape sels with
          | some e => exact h
          | none => simp [put_handles]; exact h
  | equals i j =>
    simp only [step]
    cases w.heap[i]? with
    | none => cases w.heap[j]? <;> rfl
    | some s =>
      cases w.heap[j]? with
      | none => rfl
      | some t =>
        simp only
        split
        · rfl
        · split
          · rfl
          · have h := getArray_handles hb st w s
            revert h
            generalize getArray b st w s = r
            intro h
            obtain ⟨r1, w'⟩ := r
            cases r1 with
            | error e => exact h
            | ok a =>
              simp only
              have h2 := getArray_handles hb st w' t
              revert h2
              generalize getArray b st w' t = r2
              intro h2
              obtain ⟨r3, w''⟩ := r2
              cases r3 <;> simp only <;> rw [h2] <;> exact h
  | first i =>
    simp only [step]
    cases w.heap[i]? with
    | none => rfl
    | some s =>
      simp only
      have h := item_handles hb st w s (firstIx s.shape.length)
      revert h
      generalize item b st w s (firstIx s.shape.length) = r
      intro h
      obtain ⟨r1, w'⟩ := r
      cases r1 <;> exact h
  | last i =>
    simp only [step]
    cases w.heap[i]? with
    | none => rfl
    | some s =>
      simp only
      have h := item_handles hb st w s (lastIx s.shape.length)
      revert h
      generalize item b st w s (lastIx s.shape.length) = r
      intro h
      obtain ⟨r1, w'⟩ := r
      cases r1 <;> exact h
  | second i =>
    simp only [step]
    cases w.heap[i]? with
    | none => rfl
    | some s =>
      simp only
      have h := item_handles hb st w s (secondIx s.shape)
      revert h
      generalize item b st w s (secondIx s.shape) = r
      intro h
      obtain ⟨r1, w'⟩ := r
      cases r1 <;> exact h
  | str i =>
    simp only [step]
    cases w.heap[i]? with
    | none => rfl
    | some s =>
      simp only
      have h := item_handles hb st w s (firstIx s.shape.length)
      revert h
      generalize item b st w s (firstIx s.shape.length) = r
      intro h
      obtain ⟨r1, w'⟩ := r
      cases r1 with
      | error e => exact h
      | ok x =>
        simp only
        have h2 := items_handles hb st s (strPlan s.shape).tail w' [x]
        revert h2
        generalize items b st s (strPlan s.shape).tail w' [x] = r2
        intro h2
        obtain ⟨r3, w''⟩ := r2
        cases r3 <;> simp only <;> rw [h2] <;> exact h
  | transpose i inplace =>
    simp only [step]
    cases w.heap[i]? with
    | none => rfl
    | some s =>
      simp only
      split
      · exact put_handles _ _ _ _
      · have h := getArray_handles hb st w s
        revert h
        generalize getArray b st w s = r
        intro h
        obtain ⟨r1, w'⟩ := r
        cases r1 <;> simp [put_handles] <;> exact h
  | squeeze i inplace =>
    simp only [step]
    cases w.heap[i]? with
    | none => rfl
    | some s =>
      simp only
      split
      · exact put_handles _ _ _ _
      · have h := getArray_handles hb st w s
        revert h
        generalize getArray b st w s = r
        intro h
        obtain ⟨r1, w'⟩ := r
        cases r1 <;> simp [put_handles] <;> exact h
  | flatten i inplace =>
    simp only [step]
    cases w.heap[i]? with
    | none => rfl
    | some s =>
      simp only
      split
      · exact put_handles _ _ _ _
      · have h := getArray_handles hb st w s
        revert h
        generalize getArray b st w s = r
        intro h
        obtain ⟨r1, w'⟩ := r
        cases r1 <;> simp [put_handles] <;> exact h
  | insertDim i inplace =>
    simp only [step]
    cases w.heap[i]? with
    | none => rfl
    | some s =>
      simp only
      have h := getArray_handles hb st w s
      revert h
      generalize getArray b st w s = r
      intro h
      obtain ⟨r1, w'⟩ := r
      cases r1 <;> simp [put_handles] <;> exact h

theorem run_handles {b : Backend} (hb : b.leaky = false) (st : Store α) (ops : List (Op α)) :
    ∀ (w : World α), (run b st w ops).1.handles = w.handles := by
  induction ops with
  | nil => intro w; rfl
  | cons op ops ih =>
    intro w
    simp only [run]
    rw [ih, step_handles hb]

/-! ### In-memory data never touch the file -/

theorem getSub_mem_log (b : Backend) (st : Store α) (w : World α) (a : Arr α) (ix : List RawIx) :
    (getSub b st w (.mem a) ix).2 = w := by
  unfold getSub
  cases parse (AState.mem a).shape ix with
  | error e => rfl
  | ok sels => simp only; cases checkIndex a.shape sels <;> rfl

theorem item_mem_log (b : Backend) (st : Store α) (w : World α) (a : Arr α) (ix : List RawIx) :
    (item b st w (.mem a) ix).2 = w := by
  unfold item
  have h := getSub_mem_log b st w a ix
  revert h
  generalize getSub b st w (.mem a) ix = r
  intro h
  obtain ⟨r1, w'⟩ := r
  cases r1 with
  | error e => exact h
  | ok c =>
    simp only
    cases toList c with
    | nil => exact h
    | cons x xs => cases xs <;> exact h

theorem items_mem_log (b : Backend) (st : Store α) (a : Arr α) :
    ∀ (ixs : List (List RawIx)) (w : World α) (acc : List α), (items b st (.mem a) ixs w acc).2 = w := by
  intro ixs
  induction ixs with
  | nil => intro w acc; rfl
  | cons ix rest ih =>
    intro w acc
    unfold items
    have h := item_mem_log b st w a ix
    revert h
    generalize item b st w (.mem a) ix = r
    intro h
    obtain ⟨r1, w'⟩ := r
    cases r1 with
    | error e => exact h
    | ok x => simp only; rw [ih w' (x :: acc)]; exact h

/-! ### Histories as concatenations -/

theorem erun_append (ops1 ops2 : List (Op α)) : ∀ (e : EWorld α),
    (erun e (ops1 ++ ops2)).2 = (erun e ops1).2 ++ (erun (erun e ops1).1 ops2).2 := by
  induction ops1 with
  | nil => intro e; rfl
  | cons op ops ih => intro e; simp only [List.cons_append, erun]; rw [ih]

theorem erun_length (ops : List (Op α)) : ∀ (e : EWorld α), (erun e ops).2.length = ops.length := by
  induction ops with
  | nil => intro e; rfl
  | cons op ops ih => intro e; simp only [erun, List.length_cons]; rw [ih]

theorem set_self_of_getElem? {β} (l : List β) (i : Nat) (a : β) (h : l[i]? = some a) : l.set i a = l := by
  apply List.ext_getElem?
  intro j
  rw [List.getElem?_set]
  by_cases hij : i = j
  · subst hij
    rw [if_pos rfl]
    split
    · exact h.symm
    · rename_i hlt; rw [List.getElem?_eq_none (by omega)] at h; cases h
  · rw [if_neg hij]

/-- Eagerly, bringing data into memory in place is no operation at all. -/
theorem estep_toMemory_inplace (e : EWorld α) (i : Nat) : (estep e (.toMemory i true)).1 = e := by
  simp only [estep]
  cases h : (e : List (Arr α))[i]? with
  | none => rfl
  | some a => simp only [eput, if_true]; exact set_self_of_getElem? e i a h

theorem drop_length_add_append {β : Type} (l1 l2 : List β) (k : Nat) :
    (l1 ++ l2).drop (l1.length + k) = l2.drop k := by
  induction l1 with
  | nil => simp
  | cons a l ih =>
    have : (a :: l).length + k = (l.length + k) + 1 := by simp only [List.length_cons]; omega
    rw [this, List.cons_append, List.drop_succ_cons, ih]


/-- The freshly read world is related to its realisation. -/
theorem simH_realise (st : Store α) (heap : List (AState α)) (hwf : ∀ s ∈ heap, WFState st s) :
    SimH st heap (heap.map (realise st)) := by
  refine ⟨by simp, ?_⟩
  intro i s a hs ha
  simp only [List.getElem?_map, hs, Option.map_some, Option.some.injEq] at ha
  subst ha
  exact ⟨hwf s (List.mem_of_getElem? hs), EqvIn.refl _⟩


end Cfdm.Lazy
