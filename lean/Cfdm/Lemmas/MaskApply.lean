import Cfdm.Lemmas.Mask
/-
Helper lemmas for C07: `_unpack` is linear; `Data.apply_masking` with scalar criteria on
unmasked data is an elementwise test.
-/
namespace Cfdm.Mask

theorem mul_one' (d : V) : V.mul d (.num 1) = d := by cases d <;> simp [V.mul]
theorem add_zero' (d : V) : V.add d (.num 0) = d := by cases d <;> simp [V.add]

theorem ne_false_iff (x y : V) : V.ne x y = false ↔ ∃ z, x = .num z ∧ y = .num z := by
  cases x <;> cases y <;> simp [V.ne, V.eq]
  exact eq_comm

/-- `_unpack`'s presence table computes `x * scale_factor + add_offset` (defaults 1, 0). -/
theorem unpackElem_eq_spec (a : Attrs) (d : V) : unpackElem a d = specUnpack a d := by
  unfold unpackElem specUnpack
  cases hs : a.scaleFactor with
  | none =>
    cases ho : a.addOffset with
    | none => simp [mul_one', add_zero']
    | some o =>
      cases o with
      | text => simp [floatOf]
      | vals ao _ =>
        simp only [floatOf, Option.getD_none, Option.getD_some, mul_one']
        cases hne : V.ne ao (.num 0) with
        | true => simp
        | false =>
          obtain ⟨z, rfl, hz⟩ := (ne_false_iff _ _).mp hne
          cases hz
          simp [add_zero']
  | some s =>
    cases s with
    | text => cases a.addOffset <;> simp [floatOf]
    | vals sf _ =>
      cases ho : a.addOffset with
      | none =>
        simp only [floatOf, Option.getD_none, Option.getD_some, add_zero']
        cases hne : V.ne sf (.num 1) with
        | true => simp
        | false =>
          obtain ⟨z, rfl, hz⟩ := (ne_false_iff _ _).mp hne
          cases hz
          simp [mul_one']
      | some o =>
        cases o with
        | text => simp [floatOf]
        | vals ao _ =>
          simp only [floatOf, Option.getD_some]
          cases h1 : V.ne ao (.num 0) with
          | true => simp
          | false =>
            cases h2 : V.ne sf (.num 1) with
            | true => simp
            | false =>
              obtain ⟨z, rfl, hz⟩ := (ne_false_iff _ _).mp h1
              obtain ⟨w, rfl, hw⟩ := (ne_false_iff _ _).mp h2
              cases hz; cases hw
              simp [mul_one', add_zero']

theorem orOpt_eq_accum (k : Option MaskArr) (m : MaskArr) : orOpt k m = accum k m := by
  cases k <;> rfl

theorem cmpWith_scalar (f : V → V → Bool) (ord : Bool) (hd : V) (raw : List V) :
    cmpWith f ord (.vals hd []) (raw.map some) = .ok (raw.map (fun d => f d hd)) := by
  simp [cmpWith, List.map_map, Function.comp_def]

/-- Accumulator invariant of `Data.apply_masking`. -/
def AInv (raw : List V) (mask : Except String (Option MaskArr)) (g : V → Bool) : Prop :=
  ∃ k, mask = .ok k ∧ Inv raw k g

theorem AInv_addCrit {raw : List V} {mask : Except String (Option MaskArr)} {g : V → Bool}
    (f : V → V → Bool) (ord : Bool) (hd : V) (h : AInv raw mask g) :
    AInv raw (addCrit mask (cmpWith f ord (.vals hd []) (raw.map some))) (fun d => g d || f d hd) := by
  obtain ⟨k, rfl, hk⟩ := h
  refine ⟨accum k (raw.map (fun d => f d hd)), ?_, Inv_accum _ hk⟩
  simp [cmpWith_scalar, addCrit, orOpt_eq_accum]

theorem AInv_congr {raw : List V} {mask : Except String (Option MaskArr)} {f g : V → Bool}
    (h : AInv raw mask f) (hfg : ∀ d, f d = g d) : AInv raw mask g := by
  have : f = g := funext hfg
  exact this ▸ h

theorem AInv_foldl (raw : List V) (feq : V → V → Bool) (fills : List V) :
    ∀ (mask : Except String (Option MaskArr)) (g : V → Bool), AInv raw mask g →
    AInv raw ((fills.map (fun v => AttrVal.vals v [])).foldl
        (fun mask fv => addCrit mask (cmpWith feq false fv (raw.map some))) mask)
      (fun d => g d || fills.any (fun m => feq d m)) := by
  induction fills with
  | nil => intro mask g h; exact AInv_congr h (by intro d; simp)
  | cons m ms ih =>
    intro mask g h
    simp only [List.map_cons, List.foldl_cons]
    exact AInv_congr (ih _ _ (AInv_addCrit feq false m h)) (by intro d; simp [Bool.or_assoc])

theorem finish_of_AInv {raw : List V} {mask : Except String (Option MaskArr)} {g : V → Bool}
    (h : AInv raw mask g) :
    finishMask mask (raw.map some)
    = .ok (raw.map (fun d => if g d then none else some d)) := by
  obtain ⟨k, rfl, hk⟩ := h
  unfold finishMask
  cases k with
  | none =>
    simp only [Inv, den, Option.getD_none] at hk
    have hf := all_false_of_replicate hk
    simp only [Except.ok.injEq]
    apply List.map_congr_left
    intro d hd
    simp [hf d hd]
  | some m =>
    simp only [Inv, den, Option.getD_some] at hk
    subst hk
    simp only [Except.ok.injEq]
    induction raw with
    | nil => rfl
    | cons x xs ih => simp [ih]

/-- `Data.apply_masking` with scalar criteria, on unmasked data, is an elementwise test. -/
theorem dataApplyCore_scalars (feq : V → V → Bool) (fills : List V) (vmin vmax : Option V)
    (raw : List V) :
    dataApplyCore feq (fills.map (fun v => AttrVal.vals v [])) (vmin.map (fun v => AttrVal.vals v []))
        (vmax.map (fun v => AttrVal.vals v [])) (raw.map some)
      = .ok (raw.map (fun d =>
          if fills.any (fun m => feq d m) || (vmin.map (fun lo => V.lt d lo)).getD false
              || (vmax.map (fun hi => V.gt d hi)).getD false
          then none else some d)) := by
  have h0 : AInv raw (.ok none) (fun _ => false) := ⟨none, rfl, Inv_none raw⟩
  have h1 := AInv_foldl raw feq fills _ _ h0
  unfold dataApplyCore
  cases vmin with
  | none =>
    cases vmax with
    | none =>
      simp only [Option.map_none]
      rw [finish_of_AInv h1]
      simp
    | some hi =>
      simp only [Option.map_none, Option.map_some]
      rw [finish_of_AInv (AInv_addCrit V.gt true hi h1)]
      simp
  | some lo =>
    cases vmax with
    | none =>
      simp only [Option.map_none, Option.map_some]
      rw [finish_of_AInv (AInv_addCrit V.lt true lo h1)]
      simp
    | some hi =>
      simp only [Option.map_some]
      rw [finish_of_AInv (AInv_addCrit V.gt true hi (AInv_addCrit V.lt true lo h1))]
      simp

/-! ## `PropertiesData.apply_masking` on a raw read, scalar safe attributes -/

def scalarOf : Attr → Option V
  | some (.vals hd []) => some hd
  | _ => none

theorem scalarSafe_attr {dt : DType} {at_ : Attr} (h : scalarSafe dt at_ = true) :
    at_ = (scalarOf at_).map (fun v => AttrVal.vals v []) := by
  cases at_ with
  | none => rfl
  | some x =>
    cases x with
    | text => simp [scalarSafe] at h
    | vals hd tl =>
      cases tl with
      | nil => rfl
      | cons _ _ => simp [scalarSafe] at h

theorem scalarSafe_safecast {dt : DType} {at_ : Attr} (h : scalarSafe dt at_ = true) :
    safecast dt at_ = (scalarOf at_).map (fun v => (v, [])) := by
  cases at_ with
  | none => rfl
  | some x =>
    cases x with
    | text => simp [scalarSafe] at h
    | vals hd tl =>
      cases tl with
      | nil => simp only [scalarSafe] at h; simp [safecast, scalarOf, h]
      | cons _ _ => simp [scalarSafe] at h

theorem view_false (b : Nat) (v : V) : view false b v = v := rfl

/-- A safe (scalar or vector) `missing_value` contributes exactly the read's `safeMissing`
elements, each as a scalar fill value. -/
theorem vectorSafe_fillList {dt : DType} {a : Attrs} (h : vectorSafe dt a.missingValue = true) :
    fillList a.missingValue = (safeMissing dt a).map (fun v => AttrVal.vals v []) := by
  simp only [safeMissing]
  cases hm : a.missingValue with
  | none => rfl
  | some x =>
    cases x with
    | text => simp [hm, vectorSafe] at h
    | vals hd tl =>
      simp only [hm, vectorSafe] at h
      simp [fillList, safecast, h]

/-- The reader's `_FillValue` (explicit and safe, or the recorded default) is the one fill
value the read uses. -/
theorem scalarSafe_fillList {dt : DType} {a : Attrs} (h : scalarSafe dt a.fillValue = true) :
    fillList (readerProps dt a).fillValue = [AttrVal.vals (fillOf dt a) []] := by
  simp only [readerProps, fillOf]
  cases hf : a.fillValue with
  | none => simp [fillList, safecast]
  | some x =>
    cases x with
    | text => simp [hf, scalarSafe] at h
    | vals hd tl =>
      cases tl with
      | cons _ _ => simp [hf, scalarSafe] at h
      | nil =>
        simp only [hf, scalarSafe] at h
        simp [fillList, safecast, h]

theorem any_fill_swap (ms : List V) (f : V) (d : V) :
    ([f] ++ ms).any (fun m => fillEq d m) = (ms.any (fun m => matchFill m d) || matchFill f d) := by
  simp [fillEq, Bool.or_comm]

/-- The per-variable core of C07_apply_masking. -/
theorem apply_props_scalars (dt : DType) (a : Attrs) (raw : List V)
    (hfv : scalarSafe dt a.fillValue = true) (hmv : vectorSafe dt a.missingValue = true)
    (hmin : scalarSafe dt a.validMin = true) (hmax : scalarSafe dt a.validMax = true)
    (hr : rangeOK dt a = true)
    (hs : (!dt.isString || (a.validMin.isNone && a.validMax.isNone && a.validRange.isNone)) = true) :
    propsApplyMasking (readerProps dt a) (raw.map some)
      = .ok (raw.map (fun d => if elemMask dt a false d then none else some d)) := by
  have e3 := scalarSafe_attr hmin
  have e4 := scalarSafe_attr hmax
  have c3 := scalarSafe_safecast hmin
  have c4 := scalarSafe_safecast hmax
  -- the fill values handed to Data.apply_masking
  have hfills : fillsOf (readerProps dt a)
      = ([fillOf dt a] ++ safeMissing dt a).map (fun v => AttrVal.vals v []) := by
    have hm : (readerProps dt a).missingValue = a.missingValue := rfl
    simp only [fillsOf, scalarSafe_fillList hfv, hm, vectorSafe_fillList hmv, List.map_append,
      List.map_cons, List.map_nil]
  cases hvr : a.validRange with
  | none =>
    have hvb : validBounds dt a = (scalarOf a.validMin, scalarOf a.validMax) := by
      have h0 : safecast dt (none : Attr) = none := rfl
      simp only [validBounds, hvr, h0, c3, c4]
      cases scalarOf a.validMin <;> cases scalarOf a.validMax <;> simp
    simp only [propsApplyMasking, propsApplyMaskingWith, hfills]
    simp only [readerProps, hvr, Option.isSome_none, Bool.false_and, Bool.false_eq_true, if_false,
      dataApplyMaskingWith, splitRange]
    rw [e3, e4, dataApplyCore_scalars]
    simp only [Except.ok.injEq]
    apply List.map_congr_left
    intro d _
    simp only [elemMask, hvb, view_false, any_fill_swap]
    cases hstr : dt.isString with
    | false =>
      simp only [Bool.not_false, Bool.true_and, scalarOf]
      congr 1
      cases scalarOf a.validMin <;> cases scalarOf a.validMax <;>
        simp [Bool.or_assoc]
    | true =>
      simp only [hstr, hvr, Bool.not_true, Bool.false_or, Bool.and_eq_true, Option.isNone_iff_eq_none] at hs
      simp [hs.1.1, hs.1.2, scalarOf]
  | some vr =>
    simp only [rangeOK, hvr] at hr
    cases vr with
    | text => simp at hr
    | vals lo tl =>
      cases tl with
      | nil => simp at hr
      | cons hi tl2 =>
        cases tl2 with
        | cons _ _ => simp at hr
        | nil =>
          simp only [Bool.and_eq_true, Option.isNone_iff_eq_none] at hr
          obtain ⟨⟨⟨hlo, hhi⟩, hmn⟩, hmx⟩ := hr
          have hvb : validBounds dt a = (some lo, some hi) := by
            simp [validBounds, hvr, safecast, hlo, hhi]
          have hstr : dt.isString = false := by
            cases h : dt.isString with
            | false => rfl
            | true => simp [h, hvr] at hs
          simp only [propsApplyMasking, propsApplyMaskingWith, hfills]
          simp only [readerProps, hvr, hmn, hmx, Option.isSome_none, Bool.or_self, Bool.and_false,
            Bool.false_eq_true, if_false, dataApplyMaskingWith, splitRange]
          have := dataApplyCore_scalars fillEq ([fillOf dt a] ++ safeMissing dt a)
            (some lo) (some hi) raw
          simp only [Option.map_some] at this
          rw [this]
          simp only [Except.ok.injEq]
          apply List.map_congr_left
          intro d _
          simp only [elemMask, hvb, view_false, any_fill_swap, hstr]
          congr 1
          simp [Bool.or_assoc]

/-! ## Variable, construct and field level -/

theorem ApplyOK_parts {dt : DType} {a : Attrs} {up : Bool} (h : ApplyOK dt a up = true) :
    scalarSafe dt a.fillValue = true ∧ vectorSafe dt a.missingValue = true
    ∧ scalarSafe dt a.validMin = true ∧ scalarSafe dt a.validMax = true ∧ rangeOK dt a = true
    ∧ (!dt.isString || (a.validMin.isNone && a.validMax.isNone && a.validRange.isNone)) = true
    ∧ (!up || (a.scaleFactor.isNone && a.addOffset.isNone && !unsignedView dt a true)) = true := by
  simp only [ApplyOK, Bool.and_eq_true] at h
  obtain ⟨⟨⟨⟨⟨⟨h1, h2⟩, h3⟩, h4⟩, h5⟩, h6⟩, h7⟩ := h
  exact ⟨h1, h2, h3, h4, h5, h6, h7⟩

theorem ApplyOK_noview {dt : DType} {a : Attrs} {up : Bool} (h : ApplyOK dt a up = true) :
    unsignedView dt a up = false := by
  have h7 := (ApplyOK_parts h).2.2.2.2.2.2
  cases up with
  | false => simp [unsignedView]
  | true =>
    simp only [Bool.not_true, Bool.false_or, Bool.and_eq_true, Bool.not_eq_true'] at h7
    exact h7.2

theorem ApplyOK_nounpack {dt : DType} {a : Attrs} (h : ApplyOK dt a true = true) (x : V) :
    unpackElem a x = x := by
  have h7 := (ApplyOK_parts h).2.2.2.2.2.2
  simp only [Bool.not_true, Bool.false_or, Bool.and_eq_true, Option.isNone_iff_eq_none] at h7
  simp [unpackElem, h7.1.1, h7.1.2]

theorem read_raw_of_ApplyOK {dt : DType} {a : Attrs} {up : Bool} (h : ApplyOK dt a up = true)
    (raw : List V) : (read dt a false up raw).elems = raw.map some := by
  simp only [read, readWith_elems]
  apply List.map_congr_left
  intro d _
  have hv : unsignedView dt a up = false := ApplyOK_noview h
  simp only [readElemWith, hv, view_false, Bool.false_and, Bool.false_eq_true, if_false]
  cases up with
  | false => simp
  | true => simp [ApplyOK_nounpack h]

theorem read_masked_of_ApplyOK {dt : DType} {a : Attrs} {up : Bool} (h : ApplyOK dt a up = true)
    (raw : List V) :
    (read dt a true up raw).elems = raw.map (fun d => if elemMask dt a false d then none else some d) := by
  simp only [read, readWith_elems]
  apply List.map_congr_left
  intro d _
  have hv : unsignedView dt a up = false := ApplyOK_noview h
  simp only [readElemWith, hv, view_false, Bool.true_and]
  cases up with
  | false => simp
  | true => simp [ApplyOK_nounpack h]

/-- One variable: `apply_masking` after a `mask=False` read gives the masked read. -/
theorem apply_var (dt : DType) (a : Attrs) (up : Bool) (raw : List V) (h : ApplyOK dt a up = true) :
    propsApplyMasking (readerProps dt a) (read dt a false up raw).elems
      = .ok (read dt a true up raw).elems := by
  obtain ⟨h1, h2, h3, h4, h5, h6, _⟩ := ApplyOK_parts h
  rw [read_raw_of_ApplyOK h, read_masked_of_ApplyOK h]
  exact apply_props_scalars dt a raw h1 h2 h3 h4 h5 h6

theorem inherit_of_BoundsOK (bdt cdt : DType) (b c : Attrs) (h : BoundsOK b c = true) :
    inheritProps (readerProps bdt b) (readerProps cdt c) = readerProps bdt b := by
  simp only [BoundsOK, Bool.and_eq_true, Bool.or_eq_true, Option.isNone_iff_eq_none] at h
  obtain ⟨⟨⟨h1, h2⟩, h3⟩, h4⟩ := h
  have aux : ∀ (x y : Attr), (y = none ∨ x.isSome = true) → x.orElse (fun _ => y) = x := by
    intro x y hxy
    cases x with
    | some _ => rfl
    | none =>
      cases hxy with
      | inl h => simp [h]
      | inr h => simp at h
  simp only [inheritProps, readerProps]
  rw [aux _ _ h1, aux _ _ h2, aux _ _ h3, aux _ _ h4]
  cases b.fillValue <;> simp

theorem bounds_eq_props (p c : Props)
    (h : (p.validRange.isSome && (p.validMin.isSome || p.validMax.isSome)) = false)
    (hi : inheritProps p c = p) (arr : List (Option V)) :
    boundsApplyMasking p c arr = propsApplyMasking p arr := by
  simp [boundsApplyMasking, propsApplyMasking, propsApplyMaskingWith, hi, h]

theorem rangeOK_check {dt : DType} {a : Attrs} (h : rangeOK dt a = true) :
    ((readerProps dt a).validRange.isSome &&
      ((readerProps dt a).validMin.isSome || (readerProps dt a).validMax.isSome)) = false := by
  simp only [readerProps]
  simp only [rangeOK] at h
  split at h
  · rename_i hv; simp [hv]
  · rename_i lo hi hv
    simp only [Bool.and_eq_true, Option.isNone_iff_eq_none] at h
    simp [h.1.2, h.2]
  · cases h

theorem mapM_map_ok {α β γ : Type} (g : α → Except String β) (r : γ → α) (k : γ → β) (l : List γ)
    (H : ∀ x ∈ l, g (r x) = .ok (k x)) : (l.map r).mapM g = .ok (l.map k) := by
  induction l with
  | nil => rfl
  | cons x xs ih =>
    rw [List.map_cons, List.mapM_cons, H x (by simp), ih (fun y hy => H y (by simp [hy]))]
    rfl

/-- What the masked read shows, carried by the constructs of the `mask=False` read. -/
def maskedCon (up : Bool) (c : ConVar) : Con :=
  { readCon false up c with
    data := (readCon true up c).data
    bdata := (readCon true up c).bdata }

def maskedState (up : Bool) (f : Var) (cs : List ConVar) : FieldState :=
  { readField false up f cs with
    data := (readField true up f cs).data
    cons := cs.map (maskedCon up) }

theorem con_apply (up : Bool) (c : ConVar) (h : ConOK up c = true) :
    conApplyMasking (readCon false up c) = .ok (maskedCon up c) := by
  simp only [ConOK, Bool.and_eq_true] at h
  obtain ⟨hm, hb⟩ := h
  have hmain := apply_var c.main.dt c.main.attrs up c.main.raw hm
  cases hbd : c.bounds with
  | none =>
    simp only [conApplyMasking, readCon, hbd, Option.map_none, propsAfterRead, readVarElems,
      Bool.false_eq_true, if_false, hmain, maskedCon]
    rfl
  | some b =>
    simp only [hbd, Bool.and_eq_true] at hb
    obtain ⟨hbv, hbo⟩ := hb
    have hbnd := apply_var b.dt b.attrs up b.raw hbv
    have hchk := rangeOK_check (ApplyOK_parts hbv).2.2.2.2.1
    have hinh := inherit_of_BoundsOK b.dt c.main.dt b.attrs c.main.attrs hbo
    simp only [conApplyMasking, readCon, hbd, Option.map_some, propsAfterRead, readVarElems,
      Bool.false_eq_true, if_false, hmain, maskedCon]
    rw [bounds_eq_props _ _ hchk hinh, hbnd]
    rfl

theorem field_apply (ip up : Bool) (f : Var) (cs : List ConVar)
    (hf : VarOK up f = true) (hc : ∀ c ∈ cs, ConOK up c = true) :
    fieldApplyMasking ip (readField false up f cs)
      = .ok (if ip then maskedState up f cs else readField false up f cs, maskedState up f cs) := by
  have hmain := apply_var f.dt f.attrs up f.raw hf
  have hcons : (cs.map (readCon false up)).mapM conApplyMasking = .ok (cs.map (maskedCon up)) :=
    mapM_map_ok conApplyMasking (readCon false up) (maskedCon up) cs (fun c hc' => con_apply up c (hc c hc'))
  simp only [VarOK] at hf
  simp only [fieldApplyMasking, readField, propsAfterRead, readVarElems, Bool.false_eq_true, if_false,
    hmain, hcons, maskedState]
  cases ip <;> rfl

end Cfdm.Mask
