import Cfdm.Lemmas.CodecEquiv
/-
C01, stage B: what the reader makes of the `formula_terms` and `grid_mapping` attributes of the
written file — domain ancillaries and coordinate references.
-/
namespace Cfdm.Codec

/-! ### Association lists -/

theorem lookup_append {β} (l1 l2 : List (String × β)) (k : String) :
    (l1 ++ l2).lookup k = ((l1.lookup k).or (l2.lookup k)) := by
  induction l1 with
  | nil => simp
  | cons x xs ih =>
    rw [List.cons_append, List.lookup_cons, List.lookup_cons]
    cases h : (k == x.1) with
    | true => simp
    | false => simpa using ih

theorem lookup_none_of_forall {β} (l : List (String × β)) (k : String) (h : ∀ p ∈ l, p.1 ≠ k) : l.lookup k = none := by
  induction l with
  | nil => rfl
  | cons x xs ih =>
    rw [List.lookup_cons]
    have hx : (k == x.1) = false := by
      have := h x List.mem_cons_self
      simpa using fun e => this e.symm
    rw [hx]
    exact ih (fun p hp => h p (List.mem_cons_of_mem _ hp))

/-- Looking a key up in the concatenation of per-element association lists, when only the lists of
elements equal to `x0` mention the key. -/
theorem lookup_flatMap {α β} (l : List α) (A : α → List (String × β)) (k : String) (x0 : α) (hx0 : x0 ∈ l)
    (h : ∀ x ∈ l, x ≠ x0 → ∀ p ∈ A x, p.1 ≠ k) : (l.flatMap A).lookup k = (A x0).lookup k := by
  induction l with
  | nil => cases hx0
  | cons x xs ih =>
    rw [List.flatMap_cons, lookup_append]
    by_cases hx : x = x0
    · subst hx
      cases hl : (A x).lookup k with
      | some v => simp
      | none =>
        simp only [Option.none_or]
        by_cases hm : x ∈ xs
        · rw [ih hm (fun y hy => h y (List.mem_cons_of_mem _ hy)), hl]
        · apply lookup_none_of_forall
          intro p hp
          obtain ⟨y, hy, hpy⟩ := List.mem_flatMap.mp hp
          exact h y (List.mem_cons_of_mem _ hy) (fun e => hm (e ▸ hy)) p hpy
    · rw [lookup_none_of_forall (A x) k (h x List.mem_cons_self hx)]
      simp only [Option.none_or]
      rcases List.mem_cons.mp hx0 with e | hm
      · exact absurd e.symm hx
      · exact ih hm (fun y hy => h y (List.mem_cons_of_mem _ hy))

theorem lookup_flatMap_none {α β} (l : List α) (A : α → List (String × β)) (k : String)
    (h : ∀ x ∈ l, ∀ p ∈ A x, p.1 ≠ k) : (l.flatMap A).lookup k = none := by
  apply lookup_none_of_forall
  intro p hp
  obtain ⟨y, hy, hpy⟩ := List.mem_flatMap.mp hp
  exact h y hy p hpy

/-! ### The coordinate references of a well-formed field -/

section
variable {f : MField} (hwf : WFFieldB f)
include hwf

theorem wf_ref {kr : Key × MRef} (h : kr ∈ f.refs) :
    (kr.2.isFT = true ∨ kr.2.isGM = true) ∧ (kr.2.isFT = true → WFFT f kr.2) ∧ (kr.2.isGM = true → WFGM f kr.2) :=
  hwf.2.2.2.2.2.2.2.1 kr h

omit hwf in
theorem mem_ftOnly {kr : Key × MRef} : kr ∈ ftOnly f ↔ kr ∈ f.refs ∧ kr.2.isFT = true := by
  unfold ftOnly; simp

omit hwf in
theorem mem_gmOnly {kr : Key × MRef} : kr ∈ gmOnly f ↔ kr ∈ f.refs ∧ kr.2.isGM = true := by
  unfold gmOnly; simp

theorem wf_ft {kr : Key × MRef} (h : kr ∈ ftOnly f) : WFFT f kr.2 :=
  (wf_ref hwf (mem_ftOnly.mp h).1).2.1 (mem_ftOnly.mp h).2

theorem wf_gm {kr : Key × MRef} (h : kr ∈ gmOnly f) : WFGM f kr.2 :=
  (wf_ref hwf (mem_gmOnly.mp h).1).2.2 (mem_gmOnly.mp h).2

omit hwf in
theorem coord?_some {k : Key} {e : Entry} (h : f.coord? k = some e) : e ∈ f.cons ∧ e.key = k ∧ isCoord e = true := by
  unfold MField.coord? at h
  have h1 := List.mem_of_find?_eq_some h
  have h2 := List.find?_some h
  simp only [Bool.and_eq_true, beq_iff_eq] at h2
  exact ⟨h1, h2.1, by unfold isCoord; unfold Entry.isCoordinate at h2; exact h2.2⟩

/-- The parametric coordinate of a formula-terms reference. -/
theorem ft_owner {kr : Key × MRef} (h : kr ∈ ftOnly f) :
    ∃ o, ownerOf f kr.2 = some o ∧ o ∈ f.cons ∧ isCoord o = true ∧ kr.2.coords = [o.key]
      ∧ stdName o.con.props = kr.2.sn ∧ o.con.props.lookup "computed_standard_name" = kr.2.csn
      ∧ (∃ z, o.axes = [z] ∧ z ∈ f.dataAxes) ∧ isClim f o = false := by
  have hw := (wf_ft hwf h).2.2.2.2.1
  cases ho : ownerOf f kr.2 with
  | none => rw [ho] at hw; exact absurd hw id
  | some o =>
    rw [ho] at hw
    obtain ⟨h1, h2, h3, h4, h5⟩ := hw
    unfold ownerOf at ho
    match hc : kr.2.coords, ho with
    | [k], ho =>
      obtain ⟨hm, hk, hco⟩ := coord?_some ho
      refine ⟨o, rfl, hm, hco, by rw [hk], h1, h2, ?_, h5⟩
      match hax : o.axes, h3 with
      | [z], _ => exact ⟨z, rfl, h4 z (by rw [hax]; simp)⟩

omit hwf in
theorem dan?_some {k : Key} {e : Entry} (h : f.dan? k = some e) : e ∈ f.cons ∧ e.key = k ∧ e.con.ctype = .dan := by
  unfold MField.dan? at h
  have h1 := List.mem_of_find?_eq_some h
  have h2 := List.find?_some h
  simp only [Bool.and_eq_true, beq_iff_eq] at h2
  exact ⟨h1, h2.1, h2.2⟩

theorem dan?_of_mem {e : Entry} (he : e ∈ f.cons) (ht : e.con.ctype = .dan) : f.dan? e.key = some e := by
  unfold MField.dan?
  have := find?_of_unique f.cons (fun x : Entry => x.key) e he (fun w hw hk => wf_keys_inj hwf hw he hk)
  cases hf : f.cons.find? (fun e' => e'.key == e.key && e'.con.ctype == .dan) with
  | some x =>
    have h1 := List.mem_of_find?_eq_some hf
    have h2 := List.find?_some hf
    simp only [Bool.and_eq_true, beq_iff_eq] at h2
    rw [wf_keys_inj hwf h1 he h2.1]
  | none =>
    have := List.find?_eq_none.mp hf e he
    simp [ht] at this

theorem coord?_of_mem {e : Entry} (he : e ∈ f.cons) (hc : isCoord e = true) : f.coord? e.key = some e := by
  unfold MField.coord?
  cases hf : f.cons.find? (fun e' => e'.key == e.key && e'.isCoordinate) with
  | some x =>
    have h1 := List.mem_of_find?_eq_some hf
    have h2 := List.find?_some hf
    simp only [Bool.and_eq_true, beq_iff_eq] at h2
    rw [wf_keys_inj hwf h1 he h2.1]
  | none =>
    have := List.find?_eq_none.mp hf e he
    unfold isCoord at hc
    unfold Entry.isCoordinate at this
    simp [hc] at this

end

/-- The terms of a reference with their domain ancillaries. -/
def termDans (f : MField) (r : MRef) : List (String × Entry) :=
  r.terms.filterMap (fun tk => tk.2.bind (fun k => (f.dan? k).map (fun d => (tk.1, d))))

/-- The `formula_terms` attribute of the parametric coordinate's variable. -/
def ftList (f : MField) (names : List (Slot × String)) (r : MRef) : List (String × String) :=
  (termDans f r).map (fun td => (td.1, nameOf names (.con td.2.key)))

/-- The `formula_terms` attribute of its bounds variable (`z`: the vertical axis). -/
def bftList (f : MField) (names : List (Slot × String)) (z : Key) (r : MRef) : List (String × String) :=
  (termDans f r).map (fun td =>
    if td.2.con.bounds.isSome && td.2.axes.contains z then (td.1, nameOf names (.bvar td.2.key))
    else (td.1, nameOf names (.con td.2.key)))

section
variable {f : MField} (hwf : WFFieldB f)
include hwf

/-- Every term of a well-formed formula-terms reference has its domain ancillary. -/
theorem termDans_spec {kr : Key × MRef} (h : kr ∈ ftOnly f) :
    (termDans f kr.2).map (fun td => (td.1, some td.2.key)) = kr.2.terms
    ∧ ∀ td ∈ termDans f kr.2, td.2 ∈ f.cons ∧ td.2.con.ctype = .dan := by
  have hw := (wf_ft hwf h).2.2.2.2.2.2.2.1
  unfold termDans
  generalize kr.2.terms = ts at hw
  induction ts with
  | nil => simp
  | cons tk tks ih =>
    have h1 := hw tk List.mem_cons_self
    obtain ⟨ih1, ih2⟩ := ih (fun x hx => hw x (List.mem_cons_of_mem _ hx))
    obtain ⟨t, k⟩ := tk
    cases k with
    | none => simp at h1
    | some k =>
      simp only [Option.bind_some] at h1
      cases hd : f.dan? k with
      | none => rw [hd] at h1; simp at h1
      | some d =>
        obtain ⟨hm, hk, ht⟩ := dan?_some hd
        simp only [List.filterMap_cons, Option.bind_some, hd, Option.map_some, List.map_cons]
        refine ⟨by rw [ih1, hk], ?_⟩
        intro td htd
        rcases List.mem_cons.mp htd with e | hm'
        · subst e; exact ⟨hm, ht⟩
        · exact ih2 td hm'

omit hwf in
theorem termDans_ne_nil {r : MRef} (h : (termDans f r).map (fun td => (td.1, some td.2.key)) = r.terms) (hne : r.terms ≠ []) :
    termDans f r ≠ [] := by
  intro he; rw [he] at h; exact hne h.symm

/-- The owning coordinate as the `formula_terms` section of the writer finds it. -/
theorem ftOwner_eq {kr : Key × MRef} (h : kr ∈ ftOnly f) {o : Entry} (ho : ownerOf f kr.2 = some o) :
    ftOwner f kr.2 = some o := by
  obtain ⟨o', ho', _, _, hc, hsn, _⟩ := ft_owner hwf h
  rw [ho] at ho'; cases ho'
  have hft := (mem_ftOnly.mp h).2
  unfold MRef.isFT at hft
  unfold ftOwner
  cases hs : kr.2.sn with
  | none => rw [hs] at hft; cases hft
  | some sn =>
    simp only
    unfold ownerOf at ho
    rw [hc] at ho ⊢
    simp only at ho
    simp only [List.filterMap_cons, List.filterMap_nil, ho, Option.filter]
    have : (stdName o.con.props == some sn) = true := by rw [hsn, hs]; simp
    simp [this]

/-- What the writer puts into the `formula_terms` table for one reference. -/
theorem ftAttrs_eq (names : List (Slot × String)) {kr : Key × MRef} (h : kr ∈ ftOnly f) {o : Entry}
    (ho : ownerOf f kr.2 = some o) {z : Key} (hz : o.axes = [z]) :
    ftAttrs f names kr = (nameOf names (.con o.key), ftList f names kr.2)
      :: (if o.con.bounds.isSome then [(nameOf names (.bvar o.key), bftList f names z kr.2)] else []) := by
  unfold ftAttrs
  rw [ftOwner_eq hwf h ho]
  simp only
  have hne := termDans_ne_nil (termDans_spec hwf h).1 (wf_ft hwf h).2.2.2.2.2.1
  have hz' : o.axes.headD "" = z := by rw [hz]; rfl
  rw [hz']
  have hft : (List.map (fun td => (td.1, nameOf names (Slot.con td.2.key)))
      (List.filterMap (fun tk => tk.2.bind fun k => Option.map (fun d => (tk.1, d)) (f.dan? k)) kr.2.terms)).isEmpty = false := by
    have : termDans f kr.2 ≠ [] := hne
    unfold termDans at this
    cases hl : List.filterMap (fun tk => tk.2.bind fun k => Option.map (fun d => (tk.1, d)) (f.dan? k)) kr.2.terms with
    | nil => exact absurd hl this
    | cons _ _ => rfl
  rw [hft]
  simp only [Bool.false_eq_true, if_false]
  rfl

end

/-- The formula-terms reference whose parametric coordinate is `c`. -/
def ftOf (f : MField) (c : Entry) : Option (Key × MRef) := (ftOnly f).find? (fun kr => kr.2.coords == [c.key])

section
variable {o : Opts} {f : MField} {names : List (Slot × String)} (hwf : WFFieldB f) (hg : GoodNames f (wfAx f) names)
include hwf hg

omit hwf hg in
theorem ftOf_some {c : Entry} {kr : Key × MRef} (h : ftOf f c = some kr) : kr ∈ ftOnly f ∧ kr.2.coords = [c.key] := by
  unfold ftOf at h
  have h1 := List.mem_of_find?_eq_some h
  have h2 := List.find?_some h
  exact ⟨h1, by simpa using h2⟩

omit hg in
/-- A reference is found by its parametric coordinate. -/
theorem ftOf_owner {kr : Key × MRef} (h : kr ∈ ftOnly f) {c : Entry} (hc : kr.2.coords = [c.key]) : ftOf f c = some kr := by
  unfold ftOf
  cases hf : (ftOnly f).find? (fun kr => kr.2.coords == [c.key]) with
  | none =>
    have := List.find?_eq_none.mp hf kr h
    simp [hc] at this
  | some x =>
    have h1 := List.mem_of_find?_eq_some hf
    have h2 := List.find?_some hf
    have h2' : x.2.coords = [c.key] := by simpa using h2
    have := List.inj_on_of_nodup_map hwf.2.2.2.2.2.2.2.2.2.1 h1 h (by rw [h2', hc])
    rw [this]

/-- The keys of the entries a reference adds to the `formula_terms` table. -/
theorem ftAttrs_keys {kr : Key × MRef} (h : kr ∈ ftOnly f) {p : String × List (String × String)} (hp : p ∈ ftAttrs f names kr) :
    ∃ c ∈ f.cons, isCoord c = true ∧ kr.2.coords = [c.key] ∧
      (p.1 = nameOf names (.con c.key) ∨ (∃ b, c.con.bounds = some b ∧ p.1 = nameOf names (.bvar c.key))) := by
  obtain ⟨c, hoc, hm, hco, hcc, _, _, ⟨z, hz, _⟩, _⟩ := ft_owner hwf h
  rw [ftAttrs_eq hwf names h hoc hz] at hp
  refine ⟨c, hm, hco, hcc, ?_⟩
  rcases List.mem_cons.mp hp with e | hp
  · left; rw [e]
  · right
    cases hb : c.con.bounds with
    | none => rw [hb] at hp; simp at hp
    | some b =>
      rw [hb] at hp
      simp at hp
      exact ⟨b, rfl, by rw [hp]⟩

/-- The `formula_terms` attribute of the variable of a coordinate construct. -/
theorem ftTable_con {c : Entry} (hc : c ∈ f.cons) :
    (ftTable f names).lookup (nameOf names (.con c.key)) = (ftOf f c).map (fun kr => ftList f names kr.2) := by
  show List.lookup _ ((ftOnly f).flatMap (ftAttrs f names)) = _
  have hne : ∀ x ∈ ftOnly f, x.2.coords ≠ [c.key] → ∀ p ∈ ftAttrs f names x, p.1 ≠ nameOf names (.con c.key) := by
    intro x hx hxc p hp hpk
    obtain ⟨c', hc', hco', hcc', hk⟩ := ftAttrs_keys hwf hg hx hp
    rcases hk with hk | ⟨b, hb, hk⟩
    · rw [hk] at hpk
      have : Slot.con c'.key = Slot.con c.key := hg.nameOf_inj (slot_con hwf hg hc') (slot_con hwf hg hc) hpk (Or.inl rfl)
      have hkk : c'.key = c.key := by injection this
      exact hxc (by rw [hcc', hkk])
    · rw [hk] at hpk
      have : Slot.bvar c'.key = Slot.con c.key :=
        hg.nameOf_inj (slot_bounds hwf hg hc' (isBounded_of_isCoord hco') hb).1 (slot_con hwf hg hc) hpk (Or.inl rfl)
      cases this
  cases hf : ftOf f c with
  | none =>
    simp only [Option.map_none]
    apply lookup_flatMap_none
    intro x hx p hp
    apply hne x hx _ p hp
    intro hxc
    rw [ftOf_owner hwf hx hxc] at hf
    cases hf
  | some kr =>
    obtain ⟨hkr, hkc⟩ := ftOf_some hf
    simp only [Option.map_some]
    rw [lookup_flatMap (ftOnly f) (ftAttrs f names) _ kr hkr]
    · obtain ⟨c', hoc, hm, hco, hcc, _, _, ⟨z, hz, _⟩, _⟩ := ft_owner hwf hkr
      rw [ftAttrs_eq hwf names hkr hoc hz]
      have hkk : c'.key = c.key := by rw [hkc] at hcc; injection hcc with h1 _; exact h1.symm
      rw [hkk]
      simp
    · intro x hx hxk p hp
      apply hne x hx _ p hp
      intro hxc
      apply hxk
      exact List.inj_on_of_nodup_map hwf.2.2.2.2.2.2.2.2.2.1 hx hkr (by rw [hxc, hkc])

/-- The `formula_terms` attribute of the bounds variable of a coordinate construct. -/
theorem ftTable_bvar {c : Entry} (hc : c ∈ f.cons) (hco : isCoord c = true) {b : MBounds} (hb : c.con.bounds = some b)
    {z : Key} (hz : c.axes = [z]) :
    (ftTable f names).lookup (nameOf names (.bvar c.key)) = (ftOf f c).map (fun kr => bftList f names z kr.2) := by
  show List.lookup _ ((ftOnly f).flatMap (ftAttrs f names)) = _
  have hsb := (slot_bounds hwf hg hc (isBounded_of_isCoord hco) hb).1
  have hne : ∀ x ∈ ftOnly f, x.2.coords ≠ [c.key] → ∀ p ∈ ftAttrs f names x, p.1 ≠ nameOf names (.bvar c.key) := by
    intro x hx hxc p hp hpk
    obtain ⟨c', hc', hco', hcc', hk⟩ := ftAttrs_keys hwf hg hx hp
    rcases hk with hk | ⟨b', hb', hk⟩
    · rw [hk] at hpk
      have : Slot.con c'.key = Slot.bvar c.key := hg.nameOf_inj (slot_con hwf hg hc') hsb hpk (Or.inl rfl)
      cases this
    · rw [hk] at hpk
      have : Slot.bvar c'.key = Slot.bvar c.key :=
        hg.nameOf_inj (slot_bounds hwf hg hc' (isBounded_of_isCoord hco') hb').1 hsb hpk (Or.inl rfl)
      have hkk : c'.key = c.key := by injection this
      exact hxc (by rw [hcc', hkk])
  cases hf : ftOf f c with
  | none =>
    simp only [Option.map_none]
    apply lookup_flatMap_none
    intro x hx p hp
    apply hne x hx _ p hp
    intro hxc
    rw [ftOf_owner hwf hx hxc] at hf
    cases hf
  | some kr =>
    obtain ⟨hkr, hkc⟩ := ftOf_some hf
    simp only [Option.map_some]
    rw [lookup_flatMap (ftOnly f) (ftAttrs f names) _ kr hkr]
    · obtain ⟨c', hoc, hm, hco', hcc, _, _, ⟨z', hz', _⟩, _⟩ := ft_owner hwf hkr
      have hkk : c'.key = c.key := by rw [hkc] at hcc; injection hcc with h1 _; exact h1.symm
      have hcc' : c' = c := wf_keys_inj hwf hm hc hkk
      subst hcc'
      rw [hz] at hz'; injection hz' with hzz _
      subst hzz
      rw [ftAttrs_eq hwf names hkr hoc hz, hb]
      have hne' : nameOf names (.bvar c'.key) ≠ nameOf names (.con c'.key) := by
        intro h
        have : Slot.bvar c'.key = Slot.con c'.key := hg.nameOf_inj hsb (slot_con hwf hg hc) h (Or.inl rfl)
        cases this
      have hbeq : (nameOf names (.bvar c'.key) == nameOf names (.con c'.key)) = false := by simpa using hne'
      simp [List.lookup_cons, hbeq]
    · intro x hx hxk p hp
      apply hne x hx _ p hp
      intro hxc
      apply hxk
      exact List.inj_on_of_nodup_map hwf.2.2.2.2.2.2.2.2.2.1 hx hkr (by rw [hxc, hkc])

end

/-! ### Reading the domain ancillaries and the reference of a parametric coordinate -/

theorem lookup_map_of_nodup {α β} (l : List α) (k : α → String) (g : α → β) (hn : (l.map k).Nodup) {x : α} (hx : x ∈ l) :
    (l.map (fun a => (k a, g a))).lookup (k x) = some (g x) := by
  induction l with
  | nil => cases hx
  | cons y ys ih =>
    rw [List.map_cons, List.lookup_cons]
    rw [List.map_cons, List.nodup_cons] at hn
    rcases List.mem_cons.mp hx with e | hm
    · subst e; simp
    · have hne : (k x == k y) = false := by
        have : k y ≠ k x := fun e => hn.1 (e ▸ List.mem_map_of_mem hm)
        simpa using fun e => this e.symm
      rw [hne]
      exact ih hn.2 hm

/-- What the reader makes of a domain ancillary. -/
def rdB (o : Opts) (f : MField) (names : List (Slot × String)) (d : Entry) : Entry :=
  (danKey (nameOf names (.con d.key)), rdCon o f names d, d.axes.map (piOf f names))

/-- What the reader makes of the formula-terms reference `r` of the parametric coordinate `c`. -/
def rdFTRef (f : MField) (names : List (Slot × String)) (c : Entry) (r : MRef) : Key × MRef :=
  (ftKey (nameOf names (.con c.key)),
   { ncvar := none, coords := [nameOf names (.con c.key)]
     params := ["standard_name", "computed_standard_name"].filterMap (fun p => (c.con.props.lookup p).map (fun x => (p, x)))
     datum := []
     terms := (termDans f r).map (fun td => (td.1, some (danKey (nameOf names (.con td.2.key))))) })

section
variable {o : Opts} {f : MField} {names : List (Slot × String)} (hwf : WFFieldB f) (hg : GoodNames f (wfAx f) names)
include hwf hg

/-- The dimensions of the variable of a domain ancillary. -/
theorem dan_dims {d : Entry} (hd : d ∈ f.cons) (ht : d.con.ctype = .dan) :
    cdimsOf names (wfAx f) d = d.axes.map (piOf f names) ∧ ∀ a ∈ d.axes, a ∈ f.dataAxes := by
  obtain ⟨_, _, hspan⟩ := wf_entry hwf hd
  have hall : ∀ a ∈ d.axes, a ∈ f.dataAxes := by
    rcases hspan with h | ⟨_, h⟩
    · exact h
    · obtain ⟨hs, _, _⟩ := wf_entry hwf hd
      have hne := hs.1
      match hax : d.axes, hne with
      | a :: _, _ =>
        rcases (h a (by rw [hax]; simp)).2.2 with ⟨h1, _⟩ | ⟨h1, _⟩ <;> rw [ht] at h1 <;> cases h1
  refine ⟨?_, hall⟩
  rw [cdimsOf_wf (names := names) hwf hd]
  have : auxIsScalar f.dataAxes d = false := by
    cases h : auxIsScalar f.dataAxes d with
    | false => rfl
    | true =>
      obtain ⟨a, hax, had⟩ := auxIsScalar_iff.mp h
      exact absurd (hall a (by rw [hax]; simp)) had
  rw [this]; simp

theorem file_dimsOf_con {e : Entry} (he : e ∈ f.cons) :
    (wfFile o f names).dimsOf (nameOf names (.con e.key)) = cdimsOf names (wfAx f) e := by
  unfold NcFile.dimsOf
  rw [var_con hwf hg he]
  unfold mainVar
  cases e.con.ctype <;> rfl

theorem file_dimsOf_bvar {e : Entry} (he : e ∈ f.cons) (hc : isBounded e = true) {b : MBounds} (hb : e.con.bounds = some b) :
    (wfFile o f names).dimsOf (nameOf names (.bvar e.key)) = cdimsOf names (wfAx f) e ++ [nameOf names (.bdim e.key)] := by
  unfold NcFile.dimsOf
  rw [var_bvar hwf hg he hc hb]
  rfl

/-- The terms of the coordinate variable's `formula_terms`, as the reader checks them. -/
theorem coordTerms_ft {kr : Key × MRef} (h : kr ∈ ftOnly f) :
    coordTerms (wfFile o f names) (ftList f names kr.2)
      = (termDans f kr.2).map (fun td => (td.1, some (nameOf names (.con td.2.key)))) := by
  unfold coordTerms ftList
  rw [List.map_map]
  apply List.map_congr_left
  intro td htd
  obtain ⟨hm, _⟩ := (termDans_spec hwf h).2 td htd
  simp only [Function.comp]
  rw [var_con hwf hg hm]
  rfl

omit hg in
/-- A term of the reference is a term of the reference. -/
theorem termDans_mem_terms {kr : Key × MRef} (h : kr ∈ ftOnly f) {td : String × Entry} (htd : td ∈ termDans f kr.2) :
    (td.1, some td.2.key) ∈ kr.2.terms := by
  rw [← (termDans_spec hwf h).1]
  exact List.mem_map.mpr ⟨td, htd, rfl⟩

omit hg in
theorem termDans_nodup {kr : Key × MRef} (h : kr ∈ ftOnly f) : ((termDans f kr.2).map (·.1)).Nodup := by
  have h1 := (wf_ft hwf h).2.2.2.2.2.2.1
  have h2 := (termDans_spec hwf h).1
  have : (termDans f kr.2).map (·.1) = kr.2.terms.map (·.1) := by
    rw [← h2, List.map_map]; rfl
  rw [this]; exact h1

omit hg in
/-- Where the bounds of a domain ancillary can be encoded: the parametric coordinate has bounds and the
domain ancillary spans the vertical axis. -/
theorem dan_bounds_encodable {kr : Key × MRef} (h : kr ∈ ftOnly f) {c : Entry} (hoc : ownerOf f kr.2 = some c)
    {td : String × Entry} (htd : td ∈ termDans f kr.2) (hb : td.2.con.bounds.isSome = true) :
    c.con.bounds.isSome = true ∧ ∀ z ∈ c.axes, z ∈ td.2.axes := by
  obtain ⟨hm, ht⟩ := (termDans_spec hwf h).2 td htd
  have henc := (hwf.2.2.2.2.2.2.1 td.2 hm ht).2.2 hb
  unfold boundsEncodable at henc
  have := List.all_eq_true.mp henc kr h
  have hany : kr.2.terms.any (fun tk => tk.2 == some td.2.key) = true :=
    List.any_eq_true.mpr ⟨_, termDans_mem_terms hwf h htd, by simp⟩
  rw [hany, hoc] at this
  simp only [Bool.not_true, Bool.false_or, Bool.and_eq_true, List.all_eq_true, List.contains_eq_mem, decide_eq_true_eq] at this
  exact this

/-- The bounds variable the reader finds for the domain ancillary of a term. -/
theorem danBounds_td {kr : Key × MRef} (h : kr ∈ ftOnly f) {c : Entry} (hoc : ownerOf f kr.2 = some c)
    (hc : c ∈ f.cons) (hco : isCoord c = true) {z : Key} (hz : c.axes = [z]) (hzd : z ∈ f.dataAxes) (hcl : isClim f c = false)
    {td : String × Entry} (htd : td ∈ termDans f kr.2) :
    danBounds (boundsTerms (wfFile o f names) (mainVar f names (wfAx f) c)
        (mainVar f names (wfAx f) c).dims.head? (coordTerms (wfFile o f names) (ftList f names kr.2)))
      (td.1, nameOf names (.con td.2.key)) = td.2.con.bounds.map (fun _ => nameOf names (.bvar td.2.key)) := by
  obtain ⟨hm, ht⟩ := (termDans_spec hwf h).2 td htd
  have hkc : kr.2.coords = [c.key] := by
    obtain ⟨c', hoc', _, _, hcc, _⟩ := ft_owner hwf h
    rw [hoc] at hoc'; cases hoc'; exact hcc
  have hmv : mainVar f names (wfAx f) c = coordVar f names c (cdimsOf names (wfAx f) c) := by
    unfold mainVar; unfold isCoord at hco
    cases htc : c.con.ctype <;> simp [htc] at hco ⊢
  have hcd : cdimsOf names (wfAx f) c = [piOf f names z] := by
    rw [cdimsOf_wf (names := names) hwf hc]
    have : auxIsScalar f.dataAxes c = false := by
      cases hs : auxIsScalar f.dataAxes c with
      | false => rfl
      | true =>
        obtain ⟨a, hax, had⟩ := auxIsScalar_iff.mp hs
        rw [hz] at hax; injection hax with e _; subst e
        exact absurd hzd had
    rw [this, hz]; simp
  have hdd := (dan_dims hwf hg hm ht).1
  unfold danBounds
  rw [coordTerms_ft hwf hg h]
  unfold boundsTerms
  rw [hmv]
  have hbnd : (coordVar f names c (cdimsOf names (wfAx f) c)).bounds = c.con.bounds.map (fun _ => nameOf names (.bvar c.key)) := by
    unfold coordVar; simp [hcl]
  have hdims : (coordVar f names c (cdimsOf names (wfAx f) c)).dims = cdimsOf names (wfAx f) c := rfl
  rw [hbnd, hdims, hcd]
  cases hcb : c.con.bounds with
  | none =>
    -- no bounds variable: nothing is named
    simp only [Option.map_none]
    have : td.2.con.bounds = none := by
      cases hb : td.2.con.bounds with
      | none => rfl
      | some b =>
        have := (dan_bounds_encodable hwf h hoc htd (by rw [hb]; rfl)).1
        rw [hcb] at this; cases this
    rw [this]
    simp
  | some cb =>
    simp only [Option.map_some]
    rw [var_bvar hwf hg hc (isBounded_of_isCoord hco) hcb]
    have hft : (wfFile o f names).formulaTerms = ftTable f names := rfl
    rw [hft, ftTable_bvar hwf hg hc hco hcb hz, ftOf_owner hwf h hkc]
    simp only [Option.isNone_some, Bool.false_eq_true, if_false, Option.map_some, List.head?_cons]
    -- the entry of this term
    unfold bftList
    rw [List.map_map]
    have hlk := lookup_map_of_nodup (termDans f kr.2) (·.1)
      (fun td => boundsTermVal (wfFile o f names) (some (piOf f names z))
        ((termDans f kr.2).map (fun td => (td.1, some (nameOf names (.con td.2.key)))))
        (if td.2.con.bounds.isSome && td.2.axes.contains z then (td.1, nameOf names (.bvar td.2.key))
         else (td.1, nameOf names (.con td.2.key))))
      (termDans_nodup hwf h) htd
    have hform : (termDans f kr.2).map
          ((fun tn : String × String => (tn.1, boundsTermVal (wfFile o f names) (some (piOf f names z))
              ((termDans f kr.2).map (fun td => (td.1, some (nameOf names (.con td.2.key))))) tn)) ∘
            (fun td : String × Entry => if td.2.con.bounds.isSome && td.2.axes.contains z then (td.1, nameOf names (.bvar td.2.key))
              else (td.1, nameOf names (.con td.2.key))))
        = (termDans f kr.2).map (fun a => (a.1, boundsTermVal (wfFile o f names) (some (piOf f names z))
              ((termDans f kr.2).map (fun td => (td.1, some (nameOf names (.con td.2.key)))))
              (if a.2.con.bounds.isSome && a.2.axes.contains z then (a.1, nameOf names (.bvar a.2.key))
               else (a.1, nameOf names (.con a.2.key))))) := by
      apply List.map_congr_left
      intro a _
      simp only [Function.comp]
      split <;> rfl
    rw [hform, hlk]
    simp only [Option.bind_some]
    -- the parent of the term
    have hpar := lookup_map_of_nodup (termDans f kr.2) (·.1) (fun td => some (nameOf names (.con td.2.key)))
      (termDans_nodup hwf h) htd
    cases hb : td.2.con.bounds with
    | some b =>
      obtain ⟨_, hzin⟩ := dan_bounds_encodable hwf h hoc htd (by rw [hb]; rfl)
      have hzc : td.2.axes.contains z = true := by
        simpa using hzin z (by rw [hz]; simp)
      simp only [Option.isSome_some, hzc, Bool.and_self, if_true, Option.map_some]
      unfold boundsTermVal
      simp only
      rw [var_bvar hwf hg hm (by simp [isBounded, ht]) hb]
      simp only [Option.isNone_some, Bool.false_eq_true, if_false, hpar]
      rw [file_dimsOf_con hwf hg hm, file_dimsOf_bvar hwf hg hm (by simp [isBounded, ht]) hb, hdd]
      have hin : inDims (some (piOf f names z)) (td.2.axes.map (piOf f names)) = true := by
        unfold inDims
        simp only [List.contains_eq_mem, decide_eq_true_eq]
        exact List.mem_map_of_mem (hzin z (by rw [hz]; simp))
      simp only [hin, Bool.not_true, Bool.false_eq_true, if_false, List.length_append, List.length_map, List.length_cons,
        List.length_nil, bne_self_eq_false, List.take_left', List.length_map]
      have hne : (some (nameOf names (.bvar td.2.key)) == some (nameOf names (.con td.2.key))) = false := by
        have : nameOf names (.bvar td.2.key) ≠ nameOf names (.con td.2.key) := by
          intro he
          have : Slot.bvar td.2.key = Slot.con td.2.key :=
            hg.nameOf_inj (slot_bounds hwf hg hm (by simp [isBounded, ht]) hb).1 (slot_con hwf hg hm) he (Or.inl rfl)
          cases this
        simpa using this
      simp [hne]
    | none =>
      simp only [Option.isSome_none, Bool.false_and, Bool.false_eq_true, if_false, Option.map_none]
      unfold boundsTermVal
      simp only
      rw [var_con hwf hg hm]
      simp only [Option.isNone_some, Bool.false_eq_true, if_false, hpar]
      rw [file_dimsOf_con hwf hg hm]
      by_cases hin : inDims (some (piOf f names z)) (cdimsOf names (wfAx f) td.2) = true
      · simp [hin]
      · simp [hin]

/-- The domain ancillary the reader makes for a term. -/
theorem readDan_td {kr : Key × MRef} (h : kr ∈ ftOnly f) {c : Entry} (hoc : ownerOf f kr.2 = some c)
    (hc : c ∈ f.cons) (hco : isCoord c = true) {z : Key} (hz : c.axes = [z]) (hzd : z ∈ f.dataAxes) (hcl : isClim f c = false)
    {td : String × Entry} (htd : td ∈ termDans f kr.2) :
    readDan (wfFile o f names) (dataVar o f (wfAx f) names).dims
        (boundsTerms (wfFile o f names) (mainVar f names (wfAx f) c)
          (mainVar f names (wfAx f) c).dims.head? (coordTerms (wfFile o f names) (ftList f names kr.2)))
        (td.1, nameOf names (.con td.2.key))
      = some (rdB o f names td.2) := by
  obtain ⟨hm, ht⟩ := (termDans_spec hwf h).2 td htd
  obtain ⟨hdd, hall⟩ := dan_dims hwf hg hm ht
  unfold readDan
  simp only
  rw [var_con hwf hg hm]
  simp only
  have hmd : (mainVar f names (wfAx f) td.2).dims = td.2.axes.map (piOf f names) := by
    have : (mainVar f names (wfAx f) td.2).dims = cdimsOf names (wfAx f) td.2 := by
      unfold mainVar; cases td.2.con.ctype <;> rfl
    rw [this, hdd]
  have hsub : subset (mainVar f names (wfAx f) td.2).dims (dataVar o f (wfAx f) names).dims = true := by
    rw [hmd, dataVar_dims hwf]
    unfold subset
    simp only [List.all_eq_true, List.contains_eq_mem, decide_eq_true_eq]
    intro x hx
    obtain ⟨a, ha, rfl⟩ := List.mem_map.mp hx
    exact List.mem_map_of_mem (hall a ha)
  rw [if_pos hsub]
  rw [danBounds_td hwf hg h hoc hc hco hz hzd hcl htd]
  unfold rdB rdCon
  rw [ht, hmd]

/-- **The parametric coordinate `c` of the reference `kr` is read back with its domain ancillaries and
its reference**; a coordinate that owns no reference gives nothing. -/
theorem readFT_coord {c : Entry} (hc : c ∈ f.cons) (hco : isCoord c = true) :
    readFT (wfFile o f names) (dataVar o f (wfAx f) names) (rd o f names c)
      = (ftOf f c).map (fun kr =>
          { coord := nameOf names (.con c.key)
            dans := (termDans f kr.2).map (fun td => rdB o f names td.2)
            ref := rdFTRef f names c kr.2 }) := by
  have hmv : mainVar f names (wfAx f) c = coordVar f names c (cdimsOf names (wfAx f) c) := by
    unfold mainVar; unfold isCoord at hco
    cases htc : c.con.ctype <;> simp [htc] at hco ⊢
  have hnc : (rd o f names c).con.ncvar = some (nameOf names (.con c.key)) := by
    unfold rd Entry.con rdCon
    simp only
    unfold isCoord at hco
    cases htc : c.con.ctype <;> simp [htc] at hco <;> simp only [readCoord, mainVar_name]
  have hprops : (rd o f names c).con.props = c.con.props := by
    unfold rd Entry.con rdCon
    simp only
    unfold isCoord at hco
    cases htc : c.con.ctype <;> simp [htc] at hco <;> simp only [readCoord] <;> rw [hmv] <;> rfl
  have hkey : (rd o f names c).key = nameOf names (.con c.key) := rfl
  unfold readFT
  rw [hnc]
  simp only
  have hft : (wfFile o f names).formulaTerms = ftTable f names := rfl
  rw [hft, ftTable_con hwf hg hc, var_con hwf hg hc]
  cases hf : ftOf f c with
  | none => rfl
  | some kr =>
    obtain ⟨hkr, hkc⟩ := ftOf_some hf
    obtain ⟨c', hoc, hm', _, hcc, _, _, ⟨z, hz, hzd⟩, hcl⟩ := ft_owner hwf hkr
    have hkk : c'.key = c.key := by rw [hkc] at hcc; injection hcc with h1 _; exact h1.symm
    have hcc' : c' = c := wf_keys_inj hwf hm' hc hkk
    subst hcc'
    simp only [Option.map_some]
    rw [coordTerms_ft hwf hg hkr]
    -- the terms that have a variable: all of them
    have hwv : List.filterMap (fun tn : String × Option String => tn.2.map (fun n => (tn.1, n)))
        ((termDans f kr.2).map (fun td => (td.1, some (nameOf names (.con td.2.key)))))
        = (termDans f kr.2).map (fun td => (td.1, nameOf names (.con td.2.key))) := by
      rw [List.filterMap_map]
      exact filterMap_some_map _ _
    rw [hwv, List.map_map]
    -- every term gives its domain ancillary
    have hds : (termDans f kr.2).map
        ((readDan (wfFile o f names) (dataVar o f (wfAx f) names).dims
          (boundsTerms (wfFile o f names) (mainVar f names (wfAx f) c')
            (mainVar f names (wfAx f) c').dims.head?
            ((termDans f kr.2).map (fun td => (td.1, some (nameOf names (.con td.2.key))))))) ∘
          (fun td => (td.1, nameOf names (.con td.2.key))))
        = (termDans f kr.2).map (fun td => some (rdB o f names td.2)) := by
      apply List.map_congr_left
      intro td htd
      have := readDan_td (o := o) hwf hg hkr hoc hc hco hz hzd hcl htd
      rw [coordTerms_ft hwf hg hkr] at this
      exact this
    rw [hds]
    have hall : ((termDans f kr.2).map (fun td => some (rdB o f names td.2))).all Option.isSome = true := by
      simp [List.all_eq_true]
    rw [if_pos hall]
    have hfm : ((termDans f kr.2).map (fun td => some (rdB o f names td.2))).filterMap id
        = (termDans f kr.2).map (fun td => rdB o f names td.2) := by
      rw [List.filterMap_map]
      exact filterMap_some_map _ _
    rw [hfm, hkey, hprops, List.map_map]
    rfl

omit hwf hg in
theorem rdCon_ctype (e : Entry) : (rdCon o f names e).ctype = e.con.ctype := by
  unfold rdCon
  cases ht : e.con.ctype <;> simp only [readCoord, danCon]

omit hwf hg in
theorem rd_isCoordinate (e : Entry) : (rd o f names e).isCoordinate = isCoord e := by
  unfold Entry.isCoordinate isCoord rd Entry.con
  simp only
  rw [rdCon_ctype]
  rfl

/-- The coordinate constructs in the order in which the reader creates them. -/
def coordOrder (f : MField) : List Entry := (readOrder f).filter isCoord

/-- The coordinate constructs the reader has when it comes to the `formula_terms` attributes. -/
theorem read_coords :
    (readVarA (wfFile o f names) (dataVar o f (wfAx f) names)).cons.filter Entry.isCoordinate
      = (coordOrder f).map (rd o f names) := by
  rw [read_cons hwf hg]
  unfold coordOrder
  rw [List.filter_map]
  congr 1
  apply List.filter_congr
  intro e _
  simp only [Function.comp]
  exact rd_isCoordinate e

omit hg in
theorem mem_coordOrder {c : Entry} : c ∈ coordOrder f ↔ c ∈ f.cons ∧ isCoord c = true := by
  unfold coordOrder
  rw [List.mem_filter, (readOrder_perm hwf).mem_iff, mem_consA]
  constructor
  · rintro ⟨⟨h1, _⟩, h2⟩; exact ⟨h1, h2⟩
  · rintro ⟨h1, h2⟩
    refine ⟨⟨h1, ?_⟩, h2⟩
    unfold isCoord at h2
    intro hd; rw [hd] at h2; simp at h2

/-- What the reader makes of the formula-terms reference (if any) of the coordinate `c`. -/
def ftRead (o : Opts) (f : MField) (names : List (Slot × String)) (c : Entry) : Option FTRead :=
  (ftOf f c).map (fun kr =>
    { coord := nameOf names (.con c.key)
      dans := (termDans f kr.2).map (fun td => rdB o f names td.2)
      ref := rdFTRef f names c kr.2 })

/-- The parametric coordinates are read one after the other. -/
theorem read_fts :
    ((readVarA (wfFile o f names) (dataVar o f (wfAx f) names)).cons.filter Entry.isCoordinate).filterMap
        (readFT (wfFile o f names) (dataVar o f (wfAx f) names))
      = (coordOrder f).filterMap (ftRead o f names) := by
  rw [read_coords hwf hg, List.filterMap_map]
  apply filterMap_congr'
  intro c hc
  obtain ⟨h1, h2⟩ := (mem_coordOrder hwf).mp hc
  simp only [Function.comp]
  exact readFT_coord hwf hg h1 h2

omit hwf hg in
/-- The `grid_mapping` attribute of the data variable. -/
theorem file_gm : ((wfFile o f names).gridMapping.lookup (dataVar o f (wfAx f) names).name).getD [] = gmAttr f names := by
  have h1 : (wfFile o f names).gridMapping = gmTable f names := rfl
  have h2 : (dataVar o f (wfAx f) names).name = nameOf names .field := rfl
  rw [h1, h2]
  unfold gmTable
  cases hga : gmAttr f names with
  | nil => rfl
  | cons a as => simp

end

/-! ### The grid mappings the writer writes -/

section
variable {f : MField} (hwf : WFFieldB f)
include hwf

omit hwf in
theorem vdatumStep_noDatum (gms : List (Key × MRef)) (kr : Key × MRef) (h : kr.2.datum = []) :
    vdatumStep f gms kr = gms := by
  unfold vdatumStep
  cases ftOwner f kr.2 with
  | none => rfl
  | some o => simp [h]

omit hwf in
/-- Without vertical datums the grid mappings are written as they are. -/
theorem gmRefs_noDatum (h : ∀ kr ∈ ftOnly f, kr.2.datum = []) : gmRefs f = gmOnly f := by
  show (ftOnly f).foldl (vdatumStep f) (gmOnly f) = gmOnly f
  generalize gmOnly f = gms
  generalize hl : ftOnly f = l at h
  clear hl
  induction l generalizing gms with
  | nil => rfl
  | cons x xs ih =>
    rw [List.foldl_cons, vdatumStep_noDatum gms x (h x List.mem_cons_self)]
    exact ih gms (fun kr hkr => h kr (List.mem_cons_of_mem _ hkr))

/-- The single grid mapping of a field keeps everything but, possibly, its coordinates (a parametric
coordinate with the same datum is added: `_create_vertical_datum`). -/
theorem gmRefs_single {g : Key × MRef} (hgo : gmOnly f = [g]) :
    ∃ cs, gmRefs f = [(g.1, { g.2 with coords := cs })] := by
  have key : ∀ l : List (Key × MRef), (∀ kr ∈ l, kr ∈ ftOnly f) → ∀ cs,
      ∃ cs', l.foldl (vdatumStep f) [(g.1, { g.2 with coords := cs })] = [(g.1, { g.2 with coords := cs' })] := by
    intro l
    induction l with
    | nil => intro _ cs; exact ⟨cs, rfl⟩
    | cons kr krs ih =>
      intro hl cs
      rw [List.foldl_cons]
      have hkr := hl kr List.mem_cons_self
      have hstep : ∃ cs1, vdatumStep f [(g.1, { g.2 with coords := cs })] kr = [(g.1, { g.2 with coords := cs1 })] := by
        obtain ⟨o, hoc, _⟩ := ft_owner hwf hkr
        unfold vdatumStep
        rw [ftOwner_eq hwf hkr hoc]
        simp only
        by_cases hd : kr.2.datum.isEmpty = true
        · rw [if_pos hd]; exact ⟨cs, rfl⟩
        · rw [if_neg hd]
          have hne : kr.2.datum ≠ [] := by intro e; rw [e] at hd; exact hd rfl
          have hlen := (wf_ft hwf hkr).2.2.2.2.2.2.2.2.1 hne
          rw [hgo] at hlen
          have hde : datumEq g.2.datum kr.2.datum = true := by
            cases hx : datumEq g.2.datum kr.2.datum with
            | true => rfl
            | false => simp [hx] at hlen
          simp only [List.filter_cons, hde, if_true, List.filter_nil, List.map_cons, List.map_nil, beq_self_eq_true]
          exact ⟨_, rfl⟩
      obtain ⟨cs1, h1⟩ := hstep
      rw [h1]
      exact ih (fun x hx => hl x (List.mem_cons_of_mem _ hx)) cs1
  obtain ⟨cs', h⟩ := key (ftOnly f) (fun _ h => h) g.2.coords
  refine ⟨cs', ?_⟩
  show (ftOnly f).foldl (vdatumStep f) (gmOnly f) = _
  rw [hgo]
  have : (g.1, { g.2 with coords := g.2.coords }) = g := by cases g; rfl
  rw [← this] at h ⊢
  exact h

omit hwf in
/-- Datum and conversion parameters are told apart by their names. -/
theorem split_datum {d p : Props} (hd : ∀ x ∈ d, isDatumParam x = true) (hp : ∀ x ∈ p, isDatumParam x = false) :
    (d ++ p).filter isDatumParam = d ∧ (d ++ p).filter (fun x => !isDatumParam x) = p := by
  constructor
  · rw [List.filter_append, List.filter_eq_self.mpr hd]
    have : p.filter isDatumParam = [] := List.filter_eq_nil_iff.mpr (fun x hx => by simp [hp x hx])
    rw [this]; simp
  · rw [List.filter_append]
    have h1 : d.filter (fun x => !isDatumParam x) = [] := List.filter_eq_nil_iff.mpr (fun x hx => by simp [hd x hx])
    have h2 : p.filter (fun x => !isDatumParam x) = p := List.filter_eq_self.mpr (fun x hx => by simp [hp x hx])
    rw [h1, h2]; simp

end

/-! ### Reading the `grid_mapping` attribute -/

/-- The coordinates CF associates with a grid mapping, among the coordinate constructs the reader has. -/
def inferredRead (coords : List Entry) (gv : NcVar) : List Key :=
  (((gv.attrs.lookup "grid_mapping_name").bind (fun n => Cfdm.Generated.coordRefCoordinates.lookup n)).getD []).flatMap
    (fun n => (coords.filter (fun e => stdName e.con.props == some n)).map Entry.key)

/-- The coordinate reference made from a grid mapping variable. -/
def rdGM (gn : String) (gv : NcVar) (cs : List Key) : Key × MRef :=
  (gmKey gn, { ncvar := some gn, coords := cs, params := gv.attrs.filter (fun p => !isDatumParam p),
               datum := gv.attrs.filter isDatumParam, terms := [] })

/-- The short form `grid_mapping = "variable"`: coordinates by standard name, the datum for every
vertical coordinate reference. -/
theorem gmStep_short (nc : NcFile) (coords : List Entry) (danVars : List String) (st : GMSt) (gn : String) (gv : NcVar)
    (hv : nc.var? gn = some gv) :
    gmStep nc coords danVars st (gn, []) =
      { vcrs := st.vcrs.map (fun v => (v.1, v.2.1, { v.2.2 with datum := gv.attrs.filter isDatumParam }))
        out := st.out ++ [rdGM gn gv (inferredRead coords gv)]
        seen := st.seen ++ [gn], used := st.used } := by
  unfold gmStep
  simp only [hv, List.any_nil, Bool.false_eq_true, if_false, List.filterMap_nil, List.isEmpty_nil, if_true]
  rfl

theorem gmVertical_none (datum : Props) (vcrs : List (Key × Key × MRef)) (cs : List Key) (cn : Bool)
    (h : ∀ v ∈ vcrs, v.1 ∉ cs) : gmVertical datum vcrs cs cn = (vcrs, cs, cn) := by
  induction vcrs with
  | nil => rfl
  | cons v vs ih =>
    unfold gmVertical
    have hv : cs.contains v.1 = false := by
      have := h v List.mem_cons_self
      simpa using this
    simp only [hv, Bool.false_eq_true, if_false]
    rw [ih (fun x hx => h x (List.mem_cons_of_mem _ hx))]

/-- The long form `variable: coordinate …` when no vertical coordinate is among the coordinates. -/
theorem gmStep_long (nc : NcFile) (coords : List Entry) (danVars : List String) (st : GMSt) (gn : String) (cvs : List String)
    (gv : NcVar) (hv : nc.var? gn = some gv) (hex : ∀ c ∈ cvs, (nc.var? c).isSome = true)
    (hkeys : ∀ c ∈ cvs, c ∈ coords.map Entry.key) (hne : cvs ≠ []) (hvert : ∀ v ∈ st.vcrs, v.1 ∉ cvs) :
    gmStep nc coords danVars st (gn, cvs) =
      { vcrs := st.vcrs, out := st.out ++ [rdGM gn gv cvs], seen := st.seen ++ [gn], used := st.used } := by
  unfold gmStep
  simp only [hv]
  have hany : cvs.any (fun c => (nc.var? c).isNone) = false := by
    apply Bool.eq_false_iff.mpr
    intro h
    obtain ⟨c, hc, hn⟩ := List.any_eq_true.mp h
    have := hex c hc
    rw [Option.isSome_iff_ne_none] at this
    exact this (by simpa using hn)
  simp only [hany, Bool.false_eq_true, if_false]
  have hfm : cvs.filterMap (fun n => if (coords.map Entry.key).contains n then some n
      else if danVars.contains n then some (danKey n) else if st.seen.contains n then some (gmKey n) else none) = cvs := by
    have : ∀ n ∈ cvs, (if (coords.map Entry.key).contains n then some n
        else if danVars.contains n then some (danKey n) else if st.seen.contains n then some (gmKey n) else none) = some n := by
      intro n hn
      have := hkeys n hn
      simp [this]
    rw [List.filterMap_congr this]
    exact filterMap_some_map cvs id |>.trans (List.map_id _)
  rw [hfm]
  have hemp : cvs.isEmpty = false := by cases cvs with | nil => exact absurd rfl hne | cons _ _ => rfl
  simp only [hemp, Bool.false_eq_true, if_false]
  rw [gmVertical_none _ _ _ _ hvert]
  simp only [if_true]
  rfl

/-! ### The references and domain ancillaries, in the order of reading, are those of the field -/

theorem nodup_filterMap_of_injOn {α β} (l : List α) (g : α → Option β)
    (hinj : ∀ a ∈ l, ∀ a' ∈ l, ∀ b, g a = some b → g a' = some b → a = a') (hn : l.Nodup) : (l.filterMap g).Nodup := by
  induction l with
  | nil => exact List.nodup_nil
  | cons x xs ih =>
    rw [List.nodup_cons] at hn
    have ih' := ih (fun a ha a' ha' => hinj a (List.mem_cons_of_mem _ ha) a' (List.mem_cons_of_mem _ ha')) hn.2
    rw [List.filterMap_cons]
    cases hx : g x with
    | none => exact ih'
    | some b =>
      simp only
      rw [List.nodup_cons]
      refine ⟨?_, ih'⟩
      intro hm
      obtain ⟨a', ha', hga'⟩ := List.mem_filterMap.mp hm
      have := hinj x List.mem_cons_self a' (List.mem_cons_of_mem _ ha') b hx hga'
      exact hn.1 (this ▸ ha')

section
variable {f : MField} (hwf : WFFieldB f)
include hwf

theorem refs_nodup : f.refs.Nodup := List.Nodup.of_map _ hwf.2.2.2.2.2.2.2.2.1

theorem coordOrder_nodup : (coordOrder f).Nodup := by
  unfold coordOrder
  exact ((readOrder_perm hwf).nodup_iff.mpr (by unfold consA; exact (cons_nodup hwf).filter _)).filter _

/-- The formula-terms references, by their parametric coordinates in the order of reading. -/
def ftOrder (f : MField) : List (Key × MRef) := (coordOrder f).filterMap (ftOf f)

theorem ftOrder_perm : (ftOrder f).Perm (ftOnly f) := by
  have hn1 : (ftOrder f).Nodup := by
    unfold ftOrder
    apply nodup_filterMap_of_injOn _ _ _ (coordOrder_nodup hwf)
    intro c hc c' hc' kr h1 h2
    have e1 := (ftOf_some h1).2
    have e2 := (ftOf_some h2).2
    rw [e1] at e2
    injection e2 with hk _
    exact wf_keys_inj hwf ((mem_coordOrder hwf).mp hc).1 ((mem_coordOrder hwf).mp hc').1 hk
  have hn2 : (ftOnly f).Nodup := by unfold ftOnly; exact (refs_nodup hwf).filter _
  rw [List.perm_ext_iff_of_nodup hn1 hn2]
  intro kr
  unfold ftOrder
  rw [List.mem_filterMap]
  constructor
  · rintro ⟨c, _, h⟩; exact (ftOf_some h).1
  · intro h
    obtain ⟨c, _, hm, hco, hcc, _⟩ := ft_owner hwf h
    exact ⟨c, (mem_coordOrder hwf).mpr ⟨hm, hco⟩, ftOf_owner hwf h hcc⟩

/-- A reference is a parametric vertical coordinate or a grid mapping, not both. -/
theorem refs_partition : f.refs.Perm (ftOnly f ++ gmOnly f) := by
  have := (List.filter_append_perm (fun kr : Key × MRef => kr.2.isFT) f.refs).symm
  have hgm : f.refs.filter (fun kr => !kr.2.isFT) = gmOnly f := by
    unfold gmOnly
    apply List.filter_congr
    intro kr hkr
    obtain ⟨h1, h2, h3⟩ := wf_ref hwf hkr
    cases hft : kr.2.isFT with
    | true =>
      have := (h2 hft).1
      unfold MRef.isGM; rw [this]; rfl
    | false =>
      rcases h1 with h | h
      · rw [hft] at h; cases h
      · rw [h]; rfl
  rw [hgm] at this
  exact this

/-- The domain ancillaries in the order in which the reader creates them. -/
def dansOrder (f : MField) : List Entry := (ftOrder f).flatMap (fun kr => (termDans f kr.2).map (·.2))

theorem gm_terms_nil {kr : Key × MRef} (h : kr ∈ gmOnly f) : kr.2.terms = [] := (wf_gm hwf h).2.1

theorem dansOrder_perm : (dansOrder f).Perm (f.cons.filter (fun e => e.con.ctype == .dan)) := by
  -- in the order of the references
  have hp : (dansOrder f).Perm ((ftOnly f).flatMap (fun kr => (termDans f kr.2).map (·.2))) :=
    List.Perm.flatMap_right _ (ftOrder_perm hwf)
  refine hp.trans ?_
  -- the keys named by the terms of all references
  have hkeys : ((ftOnly f).flatMap (fun kr => (termDans f kr.2).map (·.2))).map (fun d => some d.key)
      = (ftOnly f).flatMap (fun kr => kr.2.terms.map (·.2)) := by
    rw [List.map_flatMap]
    apply List.flatMap_congr
    intro kr hkr
    have := (termDans_spec hwf hkr).1
    rw [← this, List.map_map, List.map_map]
    rfl
  have hall : ((ftOnly f ++ gmOnly f).flatMap (fun kr => kr.2.terms.map (·.2))) = (ftOnly f).flatMap (fun kr => kr.2.terms.map (·.2)) := by
    rw [List.flatMap_append]
    have : (gmOnly f).flatMap (fun kr => kr.2.terms.map (·.2)) = [] := by
      apply List.flatMap_eq_nil_iff.mpr
      intro kr hkr
      rw [gm_terms_nil hwf hkr]; rfl
    rw [this]; simp
  have hperm : ((allTerms f).map (·.2)).Perm ((ftOnly f).flatMap (fun kr => kr.2.terms.map (·.2))) := by
    unfold allTerms
    rw [List.map_flatMap, ← hall]
    exact List.Perm.flatMap_right _ (refs_partition hwf)
  have hmemL : ∀ d, d ∈ (ftOnly f).flatMap (fun kr => (termDans f kr.2).map (·.2)) → d ∈ f.cons ∧ d.con.ctype = .dan := by
    intro d hd
    obtain ⟨kr, hkr, hd⟩ := List.mem_flatMap.mp hd
    obtain ⟨td, htd, rfl⟩ := List.mem_map.mp hd
    exact (termDans_spec hwf hkr).2 td htd
  have hn1 : ((ftOnly f).flatMap (fun kr => (termDans f kr.2).map (·.2))).Nodup := by
    apply List.Nodup.of_map (fun d : Entry => some d.key)
    rw [hkeys]
    apply (hperm.nodup_iff).mp
    rw [List.nodup_iff_count_le_one]
    intro x
    by_cases hx : x ∈ (allTerms f).map (·.2)
    · -- `x` is the key of a domain ancillary, named once
      have hx' := hperm.mem_iff.mp hx
      rw [← hkeys] at hx'
      obtain ⟨d, hd, rfl⟩ := List.mem_map.mp hx'
      obtain ⟨hdm, hdt⟩ := hmemL d hd
      have hc := (hwf.2.2.2.2.2.2.1 d hdm hdt).2.1
      rw [List.count_eq_length_filter, List.filter_map, List.length_map]
      have : (List.filter ((fun x => x == some d.key) ∘ fun x => x.2) (allTerms f)) = (allTerms f).filter (fun tk => tk.2 == some d.key) := rfl
      rw [this, hc]
      exact Nat.le_refl 1
    · rw [List.count_eq_zero_of_not_mem hx]; omega
  have hn2 : (f.cons.filter (fun e => e.con.ctype == .dan)).Nodup := (cons_nodup hwf).filter _
  rw [List.perm_ext_iff_of_nodup hn1 hn2]
  intro d
  rw [List.mem_filter]
  constructor
  · intro hd
    obtain ⟨h1, h2⟩ := hmemL d hd
    exact ⟨h1, by rw [h2]; rfl⟩
  · rintro ⟨hdm, hdt⟩
    have hdt' : d.con.ctype = .dan := by simpa using hdt
    have hc := (hwf.2.2.2.2.2.2.1 d hdm hdt').2.1
    -- some term names it
    have : ∃ tk ∈ allTerms f, tk.2 = some d.key := by
      cases hfl : (allTerms f).filter (fun tk => tk.2 == some d.key) with
      | nil => rw [hfl] at hc; cases hc
      | cons tk _ =>
        have : tk ∈ (allTerms f).filter (fun tk => tk.2 == some d.key) := by rw [hfl]; exact List.mem_cons_self
        obtain ⟨h1, h2⟩ := List.mem_filter.mp this
        exact ⟨tk, h1, by simpa using h2⟩
    obtain ⟨tk, htk, hk⟩ := this
    unfold allTerms at htk
    obtain ⟨kr, hkr, htk⟩ := List.mem_flatMap.mp htk
    have hft : kr ∈ ftOnly f := by
      obtain ⟨h1, _, h3⟩ := wf_ref hwf hkr
      rcases h1 with h | h
      · exact mem_ftOnly.mpr ⟨hkr, h⟩
      · have := (h3 h).2.1
        rw [this] at htk; cases htk
    rw [← (termDans_spec hwf hft).1] at htk
    obtain ⟨td, htd, hte⟩ := List.mem_map.mp htk
    have hkk : td.2.key = d.key := by
      rw [← hte] at hk
      simpa using hk
    have hd' := ((termDans_spec hwf hft).2 td htd).1
    have : td.2 = d := wf_keys_inj hwf hd' hdm hkk
    exact List.mem_flatMap.mpr ⟨kr, hft, List.mem_map.mpr ⟨td, htd, this⟩⟩

end

/-! ### The writer's first step: `computed_standard_name` -/

theorem mapE_ok {α β} (g : α → Except Err β) (h : α → β) (l : List α) (hl : ∀ x ∈ l, g x = .ok (h x)) :
    mapE g l = .ok (l.map h) := by
  induction l with
  | nil => rfl
  | cons x xs ih =>
    unfold mapE
    rw [hl x List.mem_cons_self, ih (fun y hy => hl y (List.mem_cons_of_mem _ hy))]
    rfl

theorem foldlE_fix {α σ} (step : σ → α → Except Err σ) (s : σ) (l : List α) (hl : ∀ a ∈ l, step s a = .ok s) :
    foldlE step s l = .ok s := by
  induction l with
  | nil => rfl
  | cons x xs ih =>
    unfold foldlE
    rw [hl x List.mem_cons_self]
    exact ih (fun y hy => hl y (List.mem_cons_of_mem _ hy))

section
variable {f : MField} (hwf : WFFieldB f)
include hwf

/-- A well-formed field carries the computed standard names that the writer would copy onto the
parametric coordinates: the writer's copy of the field is the field. -/
theorem applyCsn_wf : applyCsn f = .ok f := by
  unfold applyCsn
  simp only
  have hfts : (f.refs.filter (fun kr => kr.2.isFT)).map (·.2) = (ftOnly f).map (·.2) := rfl
  rw [hfts]
  -- the owning coordinate of every reference
  have hown : ∀ r ∈ (ftOnly f).map (·.2), csnOwner f r
      = .ok (r.csn.bind (fun _ => (ownerOf f r).map Entry.key)) := by
    intro r hr
    obtain ⟨kr, hkr, rfl⟩ := List.mem_map.mp hr
    obtain ⟨c, hoc, hc, hco, hcc, hsn, _, ⟨z, hz, _⟩, _⟩ := ft_owner hwf hkr
    have hft := (mem_ftOnly.mp hkr).2
    unfold MRef.isFT at hft
    unfold csnOwner
    cases hs : kr.2.sn with
    | none => rw [hs] at hft; cases hft
    | some sn =>
      cases hcs : kr.2.csn with
      | none => rfl
      | some x =>
        simp only [Option.bind_some]
        rw [hcc]
        have hcq : f.coord? c.key = some c := coord?_of_mem hwf hc hco
        simp only [List.all_cons, List.all_nil, hcq, Option.isSome_some, Bool.and_true, if_true, List.filter_cons,
          List.filter_nil]
        have hcond : (c.axes.length == 1 && stdName c.con.props == some sn) = true := by
          rw [hz, hsn, hs]; simp
        rw [hcond, hoc]
        rfl
  rw [mapE_ok _ _ _ hown]
  simp only
  apply foldlE_fix
  intro or hor
  obtain ⟨r, hr, hor'⟩ : ∃ r, r ∈ (ftOnly f).map (·.2) ∧ or = (r.csn.bind (fun _ => (ownerOf f r).map Entry.key), r) := by
    -- the zip pairs every reference with its own owner
    have hzip : ∀ (l : List MRef) (g : MRef → Option Key) (p : Option Key × MRef), p ∈ (l.map g).zip l → p.2 ∈ l ∧ p = (g p.2, p.2) := by
      intro l g
      induction l with
      | nil => intro p hp; cases hp
      | cons x xs ih =>
        intro p hp
        rw [List.map_cons, List.zip_cons_cons] at hp
        rcases List.mem_cons.mp hp with e | hm
        · rw [e]; exact ⟨List.mem_cons_self, rfl⟩
        · exact ⟨List.mem_cons_of_mem _ (ih p hm).1, (ih p hm).2⟩
    obtain ⟨h1, h2⟩ := hzip _ _ or hor
    exact ⟨or.2, h1, h2⟩
  subst hor'
  obtain ⟨kr, hkr, rfl⟩ := List.mem_map.mp hr
  obtain ⟨c, hoc, hc, hco, _, _, hcsn, _⟩ := ft_owner hwf hkr
  unfold csnStep
  cases hcs : kr.2.csn with
  | none => rfl
  | some x =>
    simp only [Option.bind_some, hoc, Option.map_some]
    unfold setCsn
    rw [coord?_of_mem hwf hc hco]
    simp only
    rw [hcsn, hcs]
    simp

end

end Cfdm.Codec
