import Cfdm.Lemmas.ConstructsDerive
import Cfdm.Lemmas.ConstructsConvert
import Cfdm.Lemmas.ConstructsSub
/-
C02 — the step theorem on the core invariant, and "a rejected call changes nothing".
-/
namespace Cfdm.Constructs

/-- The argument choices outside the open findings (each excluded class is witnessed in `Props/C02.lean`):
* `set_construct`: the construct is itself consistent; a domain axis stored over an existing one that
  something spans keeps its size; a coordinate reference / cell method names only existing constructs;
* `constructs.replace` (documented as unchecked): the new construct fits, see `ReplaceOK`. -/
def Admissible (s : St) : Op → Prop
  | .setc _ t c key _ => SetOK s t c key
  | .replace key c axes => ReplaceOK s key c axes
  | _ => True

theorem step_core {s : St} (h : Core s) (op : Op) (hok : Admissible s op) : Core (step s op).1 := by
  unfold step stepP
  cases op with
  | setc view t c key axes => exact setConstruct_core h view t c key axes hok
  | delc view key => exact delConstruct_core h view key
  | setd shape axes => exact setData_core h shape axes
  | deld => exact delData_core h
  | setda axes => exact setDataAxes_core h axes
  | setdak view axes key => exact setConAxes_core h view axes key
  | delda => exact delDataAxes_core h
  | deldak view key => exact delConAxes_core h view key
  | replace key c axes => exact replaceCon_core h key c axes hok
  | copy => exact copyField_core h
  | sub ix => exact subspace_core h ix
  | squeeze axes inplace => exact squeezeField_core h axes inplace
  | transpose perm constructs inplace => exact transposeField_core h perm constructs inplace
  | insdim axis position constructs inplace => exact insertDimension_core h axis position constructs inplace
  | convert key full => exact convertField_core h key full

/-- admissibility of every operation of a history, each judged in the state it is applied to -/
def AdmissibleRun : St → List Op → Prop
  | _, [] => True
  | s, o :: r => Admissible s o ∧ AdmissibleRun (step s o).1 r

theorem run_core {s : St} (h : Core s) (ops : List Op) (hok : AdmissibleRun s ops) : Core (run s ops) := by
  induction ops generalizing s with
  | nil => exact h
  | cons o r ih =>
    unfold run
    simp only [List.foldl_cons]
    exact ih (step_core h o hok.1) hok.2

end Cfdm.Constructs
