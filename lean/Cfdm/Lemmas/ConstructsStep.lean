import Cfdm.Lemmas.ConstructsDerive
import Cfdm.Lemmas.ConstructsConvert
import Cfdm.Lemmas.ConstructsSub
import Cfdm.Lemmas.ConstructsLoop
/-
C02 — the step theorem on the core invariant, and "a rejected call changes nothing".
-/
namespace Cfdm.Constructs

/-- a mutator called directly on a contained construct is outside every check of the container: the
caller must keep the construct fitting the axes recorded for it (open finding
`direct-mutation-of-contained-construct`, witness `C02_direct_mutation_breaks_inv`) -/
def MutOK (s : St) (key : Key) (m : Mut) : Prop :=
  ∀ t c c', conOf s key = some (t, c) → mutCon t c m = some c' → ReplaceOK s key c' none

/-- The argument choices outside the open findings (each excluded class is witnessed in `Props/C02.lean`):
* `set_construct`: the construct is itself consistent; a domain axis stored over an existing one that
  something spans keeps its size; a coordinate reference / cell method names only existing constructs;
* `constructs.replace` (documented as unchecked): the new construct fits, see `ReplaceOK`;
* a mutator called on a contained construct: the changed construct still fits, see `MutOK`. -/
def Admissible (s : St) : Op → Prop
  | .setc _ t c key _ => SetOK s t c key
  | .replace key c axes => ReplaceOK s key c axes
  | .mutate key m => MutOK s key m
  | _ => True

theorem setDataNew_core {s : St} (h : Core s) (shp : List Nat) (axes : Option (List Key)) :
    Core (setDataNew true s shp axes).1 := by
  unfold setDataNew
  have hc := copyField_core h
  cases hcp : copyField true s with
  | mk new o =>
    rw [hcp] at hc
    cases o with
    | rejected => exact h
    | ok k =>
      simp only
      have hd := setData_core hc shp axes
      cases hsd : setData true new shp axes with
      | mk n' o' =>
        rw [hsd] at hd
        cases o' with
        | ok _ => exact hd
        | rejected => exact h

theorem mutate_core {s : St} (h : Core s) (key : Key) (m : Mut) (hok : MutOK s key m) :
    Core (mutate s key m).1 := by
  unfold mutate
  cases hc : conOf s key with
  | none => exact h
  | some tc =>
    obtain ⟨t, c⟩ := tc
    simp only
    cases hm : mutCon t c m with
    | none => exact h
    | some c' => exact replaceCon_core h key c' none (hok t c c' hc hm)

theorem step_core {s : St} (h : Core s) (op : Op) (hok : Admissible s op) : Core (step s op).1 := by
  unfold step stepP
  cases op with
  | setc view t c key axes => exact setConstruct_core h view t c key axes hok
  | delc view key => exact delConstruct_core h view key
  | setd shape axes => exact setData_core h shape axes
  | deld => exact delData_core h
  | setda axes => exact setDataAxes_core h axes
  | setdak view axes key => exact setConAxes_core h view axes key
  | delda => exact delDataAxes_core h
  | deldak view key => exact delConAxes_core h view key
  | replace key c axes => exact replaceCon_core h key c axes hok
  | copy => exact copyField_core h
  | sub ix => exact subspace_core h ix
  | squeeze axes inplace => exact squeezeField_core h axes inplace
  | transpose perm constructs inplace => exact transposeField_core h perm constructs inplace
  | insdim axis position constructs inplace => exact insertDimension_core h axis position constructs inplace
  | convert key full => exact convertField_core h key full
  | setdn shape axes => exact setDataNew_core h shape axes
  | mutate key m => exact mutate_core h key m hok
  | frame => exact h

/-- admissibility of every operation of a history, each judged in the state it is applied to -/
def AdmissibleRun : St → List Op → Prop
  | _, [] => True
  | s, o :: r => Admissible s o ∧ AdmissibleRun (step s o).1 r

theorem run_core {s : St} (h : Core s) (ops : List Op) (hok : AdmissibleRun s ops) : Core (run s ops) := by
  induction ops generalizing s with
  | nil => exact h
  | cons o r ih =>
    unfold run
    simp only [List.foldl_cons]
    exact ih (step_core h o hok.1) hok.2

end Cfdm.Constructs
