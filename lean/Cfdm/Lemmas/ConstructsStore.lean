import Cfdm.Lemmas.Constructs
/-
C02 — frame lemmas: storing one construct (`core_store`), removing one construct (`core_remove`).
Both are stated on the look-up functions of the three dictionaries, so that they apply to every
way in which the code writes a dictionary entry.
-/
namespace Cfdm.Constructs

/-- the domain axis `k` is spanned by a metadata construct or by the field's data -/
def Spanned (s : St) (k : Key) : Prop :=
  (∃ q A, s.caxes.get q = some A ∧ k ∈ A) ∨ k ∈ s.dataAxes.getD []

/-- what a coordinate reference must name (clause 4a for one construct) -/
def RefNames (s : St) (c : Con) : Prop :=
  (∀ x ∈ c.coords, isCoord s x) ∧ ∀ x ∈ c.ancils, match x with
    | some v => (s.cons.get (.dan, v)).isSome = true
    | none => True

/-- what a cell method must name (clause 4b for one construct) -/
def CmNames (s : St) (c : Con) : Prop :=
  ∀ a ∈ c.cmAxes, match a with
    | .key x => (s.cons.get (.axis, x)).isSome = true
    | .name _ => True

theorem refNames_mono {s s' : St} {c : Con} (hm : ∀ q, (s.cons.get q).isSome = true → (s'.cons.get q).isSome = true)
    (h : RefNames s c) : RefNames s' c := by
  refine ⟨fun x hx => ?_, fun x hx => ?_⟩
  · rcases h.1 x hx with h1 | h1
    · exact Or.inl (hm _ h1)
    · exact Or.inr (hm _ h1)
  · have := h.2 x hx
    cases x with
    | none => trivial
    | some v => exact hm _ this

theorem cmNames_mono {s s' : St} {c : Con} (hm : ∀ q, (s.cons.get q).isSome = true → (s'.cons.get q).isSome = true)
    (h : CmNames s c) : CmNames s' c := by
  intro a ha
  have := h a ha
  cases a with
  | name _ => trivial
  | key x => exact hm _ this

/-- **Storing a construct.**  `s'` is `s` with the construct `c` stored under `(t, k)`, `k` registered as
a `t` and the recorded axes of `k` set to `ax` (possibly what they were). -/
theorem core_store {s s' : St} {t : CType} {k : Key} {c : Con} {ax : Option (List Key)}
    (h : Core s)
    (hcons : ∀ q, s'.cons.get q = if q = (t, k) then some c else s.cons.get q)
    (htype : ∀ q, s'.ctype.get q = if q = k then some t else s.ctype.get q)
    (haxes : ∀ q, s'.caxes.get q = if q = k then ax else s.caxes.get q)
    (hdata : s'.data = s.data) (hda : s'.dataAxes = s.dataAxes) (hfda : s'.fda = s.fda)
    (hfree : ∀ t', s.ctype.get k = some t' → t' = t)
    (hwf : c.WF t)
    (hax : ∀ A, ax = some A → AxesOK s' t c A)
    (hsize : t = .axis → ∀ old, s.cons.get (.axis, k) = some old → old.size = c.size ∨ ¬ Spanned s k)
    (hnames : t = .ref → RefNames s' c)
    (hcm : t = .cm → CmNames s' c) : Core s' := by
  have hmono : ∀ q, (s.cons.get q).isSome = true → (s'.cons.get q).isSome = true := by
    intro q hq; rw [hcons]; split <;> simp_all
  -- sizes of the axes that something spans are unchanged
  have hsz : ∀ a, Spanned s a → (s.cons.get (.axis, a)).isSome = true → axSize s' a = axSize s a := by
    intro a hsp hex
    unfold axSize
    rw [hcons]
    by_cases hq : (CType.axis, a) = (t, k)
    · simp only [hq, ↓reduceIte, Option.map_some]
      have ht : t = .axis := by cases hq; rfl
      have hk : a = k := by cases hq; rfl
      subst hk
      cases hg : s.cons.get (.axis, a) with
      | none => simp [hg] at hex
      | some old =>
        rcases hsize ht old hg with h1 | h1
        · rw [← hq, hg]; simp [h1]
        · exact absurd hsp h1
    · simp [hq]
  have hother : ∀ q, q ≠ k → conOf s' q = conOf s q := by
    intro q hq
    unfold conOf
    rw [htype, if_neg hq]
    cases s.ctype.get q with
    | none => rfl
    | some t0 =>
      simp only
      rw [hcons, if_neg (by intro h; cases h; exact hq rfl)]
  refine ⟨?_, ?_, ?_, ?_, ?_, ?_, ?_⟩
  · -- TypeOfStored
    intro q c' hq
    rw [hcons] at hq
    rw [htype]
    by_cases h1 : q = (t, k)
    · subst h1; simp
    · rw [if_neg h1] at hq
      have := h.tos q c' hq
      by_cases h2 : q.2 = k
      · rw [h2] at this
        have := hfree _ this
        exact absurd (Prod.ext this h2) h1
      · rw [if_neg h2]; exact this
  · -- StoredOfType
    intro q t' hq
    rw [htype] at hq
    rw [hcons]
    by_cases h1 : q = k
    · subst h1; simp only [↓reduceIte, Option.some.injEq] at hq; subst hq; simp
    · rw [if_neg h1] at hq
      rw [if_neg (by intro h; cases h; exact h1 rfl)]
      exact h.sot q t' hq
  · -- ConstructAxes
    intro q A hq
    rw [haxes] at hq
    by_cases h1 : q = k
    · subst h1
      simp only [↓reduceIte] at hq
      have : conOf s' q = some (t, c) := by
        unfold conOf; rw [htype]; simp [hcons]
      rw [this]; exact hax A hq
    · rw [if_neg h1] at hq
      rw [hother q h1]
      have := h.cax q A hq
      cases hc : conOf s q with
      | none => simp [hc] at this
      | some tc =>
        simp only [hc] at this ⊢
        refine (axesOK_congr (fun a ha => ?_) tc.1 tc.2).mpr this
        exact hsz a (Or.inl ⟨q, A, hq, ha⟩) (this.1 a ha)
  · -- BoundsLead
    intro q c' hq
    rw [hcons] at hq
    by_cases h1 : q = (t, k)
    · subst h1; simp only [↓reduceIte, Option.some.injEq] at hq; subst hq; exact hwf
    · rw [if_neg h1] at hq; exact h.wf q c' hq
  · -- FieldAxes
    have hf := h.fax
    unfold FieldAxes at hf ⊢
    rw [hda, hdata, hfda]
    refine ⟨?_, hf.2⟩
    cases hA : s.dataAxes with
    | none => trivial
    | some A =>
      have h1 := hf.1
      simp only [hA] at h1 ⊢
      have hc : ∀ a ∈ A, axSize s' a = axSize s a :=
        fun a ha => hsz a (Or.inr (by simp [hA, ha])) (h1.1 a ha)
      refine ⟨(axesExist_congr hc).mpr h1.1, ?_⟩
      cases hD : s.data with
      | none => trivial
      | some shp =>
        have h2 := h1.2
        simp only [hD] at h2 ⊢
        exact (fits_congr hc shp).mpr h2
  · -- RefsOK
    intro q c' hq hr
    rw [hcons] at hq
    by_cases h1 : q = (t, k)
    · subst h1; simp only [↓reduceIte, Option.some.injEq] at hq; subst hq
      exact hnames hr
    · rw [if_neg h1] at hq
      exact refNames_mono hmono (h.refs q c' hq hr)
  · -- CellMethodsOK
    intro q c' hq hr
    rw [hcons] at hq
    by_cases h1 : q = (t, k)
    · subst h1; simp only [↓reduceIte, Option.some.injEq] at hq; subst hq
      exact hcm hr
    · rw [if_neg h1] at hq
      exact cmNames_mono hmono (h.cms q c' hq hr)


theorem cleanRef_shape (k : Key) (c : Con) (t : CType) : (cleanRef k c).shape t = c.shape t := rfl

/-- a function that at most cleans the references to `k` out of coordinate references -/
structure Cleans (k : Key) (f : CType × Key → Con → Con) : Prop where
  other : ∀ q c, q.1 ≠ CType.ref → f q c = c
  ref : ∀ q c, q.1 = CType.ref → f q c = c ∨ f q c = cleanRef k c

theorem Cleans.shape {k : Key} {f : CType × Key → Con → Con} (hf : Cleans k f) (q : CType × Key) (c : Con) (t : CType) :
    (f q c).shape t = c.shape t ∧ (f q c).bounds = c.bounds ∧ (f q c).ring = c.ring ∧ (f q c).size = c.size ∧
    (f q c).cmAxes = c.cmAxes ∧ (f q c).data = c.data := by
  by_cases hq : q.1 = CType.ref
  · rcases hf.ref q c hq with h | h <;> rw [h] <;> simp [cleanRef, Con.shape]
  · rw [hf.other q c hq]; simp

/-- **Removing a construct.**  `s'` is `s` without the construct `(t, k)` (its registration and its
recorded axes), the remaining constructs possibly cleaned of references to `k`. -/
theorem core_remove {s s' : St} {t : CType} {k : Key} {f : CType × Key → Con → Con}
    (h : Core s) (hf : Cleans k f)
    (hcons : ∀ q, s'.cons.get q = if q = (t, k) then none else (s.cons.get q).map (f q))
    (htype : ∀ q, s'.ctype.get q = if q = k then none else s.ctype.get q)
    (haxes : ∀ q, s'.caxes.get q = if q = k then none else s.caxes.get q)
    (hdata : s'.data = s.data) (hda : s'.dataAxes = s.dataAxes) (hfda : s'.fda = s.fda)
    (hreg : s.ctype.get k = some t)
    (hax : t = .axis → ¬ Spanned s k ∧ ∀ q c, s.cons.get q = some c → q.1 = CType.cm → CmAx.key k ∉ c.cmAxes)
    (hcl : t ≠ .axis → ∀ q c, q.1 = CType.ref → f q c = cleanRef k c) : Core s' := by
  have hkeep : ∀ q, q ≠ (t, k) → (s.cons.get q).isSome = true → (s'.cons.get q).isSome = true := by
    intro q hq h1; rw [hcons, if_neg hq]; simpa using h1
  have hsz : ∀ a, Spanned s a → axSize s' a = axSize s a := by
    intro a hsp
    unfold axSize
    rw [hcons]
    by_cases hq : (CType.axis, a) = (t, k)
    · have ht : t = .axis := by cases hq; rfl
      have hk : a = k := by cases hq; rfl
      subst hk
      exact absurd hsp (hax ht).1
    · rw [if_neg hq]
      cases s.cons.get (.axis, a) with
      | none => rfl
      | some c0 => simp [(hf.shape (.axis, a) c0 .axis).2.2.2.1]
  have hother : ∀ q, q ≠ k → conOf s' q = (conOf s q).map (fun tc => (tc.1, f (tc.1, q) tc.2)) := by
    intro q hq
    unfold conOf
    rw [htype, if_neg hq]
    cases s.ctype.get q with
    | none => rfl
    | some t0 =>
      simp only
      rw [hcons, if_neg (by intro h; cases h; exact hq rfl)]
      cases s.cons.get (t0, q) <;> rfl
  refine ⟨?_, ?_, ?_, ?_, ?_, ?_, ?_⟩
  · intro q c' hq
    rw [hcons] at hq
    by_cases h1 : q = (t, k)
    · simp [h1] at hq
    · rw [if_neg h1] at hq
      cases hg : s.cons.get q with
      | none => simp [hg] at hq
      | some c0 =>
        have := h.tos q c0 hg
        rw [htype]
        by_cases h2 : q.2 = k
        · rw [h2, hreg] at this
          simp only [Option.some.injEq] at this
          exact absurd (Prod.ext this.symm h2) h1
        · rw [if_neg h2]; exact this
  · intro q t' hq
    rw [htype] at hq
    by_cases h1 : q = k
    · simp [h1] at hq
    · rw [if_neg h1] at hq
      exact hkeep _ (by intro h; cases h; exact h1 rfl) (h.sot q t' hq)
  · intro q A hq
    rw [haxes] at hq
    by_cases h1 : q = k
    · simp [h1] at hq
    · rw [if_neg h1] at hq
      rw [hother q h1]
      have := h.cax q A hq
      cases hc : conOf s q with
      | none => simp [hc] at this
      | some tc =>
        simp only [hc, Option.map_some] at this ⊢
        have hc2 : ∀ a ∈ A, axSize s' a = axSize s a := fun a ha => hsz a (Or.inl ⟨q, A, hq, ha⟩)
        rw [axesOK_congr hc2]
        have hs := hf.shape (tc.1, q) tc.2 tc.1
        unfold AxesOK at this ⊢
        rw [hs.1, hs.2.1, hs.2.2.1]
        exact this
  · intro q c' hq
    rw [hcons] at hq
    by_cases h1 : q = (t, k)
    · simp [h1] at hq
    · rw [if_neg h1] at hq
      cases hg : s.cons.get q with
      | none => simp [hg] at hq
      | some c0 =>
        simp only [hg, Option.map_some, Option.some.injEq] at hq
        subst hq
        have := h.wf q c0 hg
        have hs := hf.shape q c0 q.1
        unfold Con.WF Con.LeadOK Con.DimOK at this ⊢
        rw [hs.1, hs.2.1, hs.2.2.1, hs.2.2.2.2.2]
        exact this
  · have hfx := h.fax
    unfold FieldAxes at hfx ⊢
    rw [hda, hdata, hfda]
    refine ⟨?_, hfx.2⟩
    cases hA : s.dataAxes with
    | none => trivial
    | some A =>
      have h1 := hfx.1
      simp only [hA] at h1 ⊢
      have hc : ∀ a ∈ A, axSize s' a = axSize s a := fun a ha => hsz a (Or.inr (by simp [hA, ha]))
      refine ⟨(axesExist_congr hc).mpr h1.1, ?_⟩
      cases hD : s.data with
      | none => trivial
      | some shp =>
        have h2 := h1.2
        simp only [hD] at h2 ⊢
        exact (fits_congr hc shp).mpr h2
  · intro q c' hq hr
    rw [hcons] at hq
    by_cases h1 : q = (t, k)
    · simp [h1] at hq
    · rw [if_neg h1] at hq
      cases hg : s.cons.get q with
      | none => simp [hg] at hq
      | some c0 =>
        simp only [hg, Option.map_some, Option.some.injEq] at hq
        subst hq
        have hn := h.refs q c0 hg hr
        -- every name that survives is either not `k`, or `k` is a domain axis
        have hsurv : (∀ x ∈ (f q c0).coords, x ∈ c0.coords ∧ (x ≠ k ∨ t = .axis)) ∧
            (∀ v, some v ∈ (f q c0).ancils → some v ∈ c0.ancils ∧ (v ≠ k ∨ t = .axis)) := by
          by_cases hta : t = .axis
          · rcases hf.ref q c0 hr with e | e <;> rw [e]
            · exact ⟨fun x hx => ⟨hx, Or.inr hta⟩, fun v hv => ⟨hv, Or.inr hta⟩⟩
            · refine ⟨fun x hx => ?_, fun v hv => ?_⟩
              · simp only [cleanRef, List.mem_filter] at hx; exact ⟨hx.1, Or.inr hta⟩
              · simp only [cleanRef, List.mem_map] at hv
                obtain ⟨a, ha, hav⟩ := hv
                split at hav
                · cases hav
                · subst hav; exact ⟨ha, Or.inr hta⟩
          · rw [hcl hta q c0 hr]
            refine ⟨fun x hx => ?_, fun v hv => ?_⟩
            · simp only [cleanRef, List.mem_filter, ne_eq, decide_not, Bool.not_eq_eq_eq_not, Bool.not_true,
                decide_eq_false_iff_not] at hx
              exact ⟨hx.1, Or.inl hx.2⟩
            · simp only [cleanRef, List.mem_map] at hv
              obtain ⟨a, ha, hav⟩ := hv
              split at hav
              · cases hav
              · rename_i hne
                subst hav
                exact ⟨ha, Or.inl (fun e => hne (by rw [e]))⟩
        refine ⟨fun x hx => ?_, fun x hx => ?_⟩
        · obtain ⟨hx0, hne⟩ := hsurv.1 x hx
          have hkd : ∀ T : CType, T ≠ .axis → (T, x) ≠ (t, k) := by
            intro T hT e; cases e; rcases hne with h2 | h2
            · exact h2 rfl
            · exact hT h2
          rcases hn.1 x hx0 with h2 | h2
          · exact Or.inl (hkeep _ (hkd _ (by decide)) h2)
          · exact Or.inr (hkeep _ (hkd _ (by decide)) h2)
        · cases x with
          | none => trivial
          | some v =>
            obtain ⟨hv0, hne⟩ := hsurv.2 v hx
            have := hn.2 (some v) hv0
            simp only at this ⊢
            refine hkeep _ ?_ this
            intro e; cases e; rcases hne with h2 | h2
            · exact h2 rfl
            · cases h2
  · intro q c' hq hr
    rw [hcons] at hq
    by_cases h1 : q = (t, k)
    · simp [h1] at hq
    · rw [if_neg h1] at hq
      cases hg : s.cons.get q with
      | none => simp [hg] at hq
      | some c0 =>
        simp only [hg, Option.map_some, Option.some.injEq] at hq
        subst hq
        have hn := h.cms q c0 hg hr
        rw [(hf.shape q c0 q.1).2.2.2.2.1]
        intro a ha
        have := hn a ha
        cases a with
        | name _ => trivial
        | key x =>
          simp only at this ⊢
          refine hkeep _ ?_ this
          intro e
          have ht : t = .axis := by cases e; rfl
          have hk : x = k := by cases e; rfl
          subst hk
          exact (hax ht).2 q c0 hg hr ha

end Cfdm.Constructs
