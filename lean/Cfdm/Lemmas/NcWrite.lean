import Cfdm.Model.NcWrite
import Cfdm.Lemmas.NcNames
import Cfdm.Lemmas.NcFile
/-
The abstract writer never hits a refused step when it writes dimension coordinates with
their bounds, and keeps the dataset well formed: the invariant tying the naming state to the
dataset, and its preservation by each operation.
-/
namespace Cfdm.NcWrite
open Cfdm.NcNames Cfdm.NcFile

/-- The naming state covers the dataset: every variable name was handed out by `_netcdf_name`,
the registered dimensions are exactly the dimensions of the dataset, nothing is external. -/
structure Core (w : W) : Prop where
  wf : wfCore w.file = true
  vars : ∀ n ∈ w.file.varNames, n ∈ w.names.vars
  dims : ∀ d, d ∈ w.file.dimNames ↔ d ∈ w.names.dimNames
  noext : w.file.external = []

/-- Every dimension created for a role has a registered size (so the reuse loop cannot raise). -/
def Roles (w : W) : Prop := ∀ r, ∀ d ∈ w.names.roleDims r, (w.names.dimSize d).isSome

/-- All of it. -/
structure Inv (w : W) : Prop where
  core : Core w
  roles : Roles w

theorem inv_empty : Inv {} := by
  refine ⟨⟨by decide, ?_, ?_, rfl⟩, ?_⟩
  · intro n hn; simp [File.varNames] at hn
  · intro d; simp [File.dimNames, St.dimNames]
  · intro r d hd; simp [St.roleDims] at hd

/-! ### a plain name request -/

theorem reqPlain_spec (w : W) (base : String) :
    ∃ n, reqName w base none none = some (n, true, { w with names := { w.names with vars := n :: w.names.vars } })
      ∧ n ∉ w.names.existing := by
  obtain ⟨n, h, hn⟩ := request_plain w.names base
  exact ⟨n, by simp only [reqName, h], hn⟩

theorem core_add_name {w : W} (hC : Core w) (n : String) :
    Core { w with names := { w.names with vars := n :: w.names.vars } } :=
  ⟨hC.wf, fun x hx => List.mem_cons_of_mem _ (hC.vars x hx), hC.dims, hC.noext⟩

theorem roles_add_name {w : W} (hR : Roles w) (n : String) :
    Roles { w with names := { w.names with vars := n :: w.names.vars } } := hR

/-! ### creating a dimension -/

theorem emitDim_spec {w : W} (hC : Core w) (n : String) (k : Nat) (hn : n ∉ w.names.dimNames) :
    ∃ w', emitDim w n k = some w'
      ∧ w'.file = { w.file with dims := w.file.dims ++ [(n, k)] }
      ∧ w'.names = { w.names with dims := w.names.dims ++ [(n, k)] }
      ∧ Core w' := by
  have hnf : n ∉ w.file.dimNames := fun h => hn ((hC.dims n).mp h)
  have hc : w.file.dimNames.contains n = false := by simpa using hnf
  refine ⟨{ file := { w.file with dims := w.file.dims ++ [(n, k)] }, names := regDim w.names n k }, ?_, rfl, ?_, ?_⟩
  · simp only [emitDim, emit, applyStep, hc, Bool.false_eq_true, if_false, Option.map_some]
  · simp only [regDim_new _ n k hn]
  · simp only [regDim_new _ n k hn]
    refine ⟨step_dim hC.wf hnf, hC.vars, ?_, hC.noext⟩
    intro d
    simp only [File.dimNames, St.dimNames, List.map_append, List.map_cons, List.map_nil, List.mem_append,
      List.mem_singleton]
    have := hC.dims d
    simp only [File.dimNames, St.dimNames] at this
    rw [this]

/-- Registering the size of `n` restores the role invariant when `n` was its only gap. -/
theorem roles_after_dim {s s' : St} (n : String) (k : Nat) (hd : s'.dims = s.dims ++ [(n, k)])
    (hr : s'.roles = s.roles) (hn : n ∉ s.dimNames)
    (h : ∀ r, ∀ d ∈ s.roleDims r, d = n ∨ (s.dimSize d).isSome) :
    ∀ r, ∀ d ∈ s'.roleDims r, (s'.dimSize d).isSome := by
  intro r d hdm
  have hd' : d ∈ s.roleDims r := by
    simp only [St.roleDims, hr] at hdm ⊢; exact hdm
  rcases h r d hd' with rfl | hs
  · simp only [St.dimSize, hd]
    rw [dimSize_append_self s.dims d k hn]
    rfl
  · simp only [St.dimSize, hd] at hs ⊢
    rw [dimSize_append_mono s.dims (n, k) d hs]
    exact hs

/-! ### creating a variable -/

theorem emitVar_spec {w : W} (hC : Core w) (v : Var) (hfresh : v.name ∉ w.file.varNames)
    (hin : v.name ∈ w.names.vars) (hok : varOK (addVar w.file v) v = true) :
    ∃ w', emit w (.var v) = some w' ∧ w'.file = addVar w.file v ∧ w'.names = w.names ∧ Core w' := by
  have h1 : w.file.varNames.contains v.name = false := by simpa using hfresh
  have h2 : w.file.external.contains v.name = false := by simp [hC.noext]
  refine ⟨{ w with file := addVar w.file v }, ?_, rfl, rfl, ?_⟩
  · simp only [emit, applyStep, h1, h2, Bool.or_self, Bool.false_eq_true, if_false, hok, if_true, Option.map_some]
  · refine ⟨step_var hC.wf hfresh (by simp [hC.noext]) hok, ?_, hC.dims, hC.noext⟩
    intro n hn
    simp only [addVar, File.varNames, List.map_append, List.map_cons, List.map_nil, List.mem_append,
      List.mem_singleton] at hn
    rcases hn with hn | rfl
    · exact hC.vars n hn
    · exact hin

/-! ### bounds -/

/-- What `writeBounds` guarantees. -/
structure BoundsPost (w : W) (pd : List String) (r : Ref) (w' : W) : Prop where
  core : Core w'
  roles : Roles w'
  kind : r.kind = .bounds ∨ r.kind = .climatology
  names : ∀ n ∈ w.names.vars, n ∈ w'.names.vars
  fileVars : ∀ n, n ∈ w'.file.varNames ↔ n ∈ w.file.varNames ∨ n = r.target
  target : ∃ bd, (⟨r.target, pd ++ [bd], [], false⟩ : Var) ∈ w'.file.vars
  newName : r.target ∉ w.names.vars
  dims : ∀ d ∈ w.file.dimNames, d ∈ w'.file.dimNames

theorem writeBounds_spec {w : W} (hC : Core w) (hR : Roles w) (pn : String) (pd : List String) (b : ABounds)
    (hpd : ∀ d ∈ pd, d ∈ w.file.dimNames) :
    ∃ r w', writeBounds w pn pd b = some (r, w') ∧ BoundsPost w pd r w' := by
  unfold writeBounds
  rcases request_role w.names (b.ncdim.getD ("bounds" ++ toString b.size)) b.size "bounds" (by decide)
      (hR "bounds") with ⟨bd, hreq, hbd⟩ | ⟨bd, hreq, hbdr, hbds⟩
  · -- a new bounds dimension
    have hreq' : reqName w (b.ncdim.getD ("bounds" ++ toString b.size)) (some b.size) (some "bounds")
        = some (bd, true, { w with names := { w.names with vars := bd :: w.names.vars, roles := addRole w.names.roles "bounds" bd } }) := by
      simp only [reqName, hreq]
    simp only [hreq', if_true]
    -- state after the request
    have hC1 : Core { w with names := { w.names with vars := bd :: w.names.vars, roles := addRole w.names.roles "bounds" bd } } :=
      ⟨hC.wf, fun x hx => List.mem_cons_of_mem _ (hC.vars x hx), hC.dims, hC.noext⟩
    have hbdn : bd ∉ w.names.dimNames := fun h => hbd (List.mem_append_right _ h)
    obtain ⟨w2, hw2, hf2, hn2, hC2⟩ := emitDim_spec hC1 bd b.size hbdn
    simp only [hw2]
    have hR2 : Roles w2 := by
      unfold Roles
      apply roles_after_dim (s := { w.names with vars := bd :: w.names.vars, roles := addRole w.names.roles "bounds" bd })
        bd b.size (by rw [hn2]) (by rw [hn2]) hbdn
      intro r d hd
      rw [roleDims_eq] at hd
      rcases mem_lookup_addRole _ _ _ _ _ hd with h | h
      · exact Or.inr (hR r d h)
      · exact Or.inl h
    obtain ⟨bn, hbn, hbnfresh⟩ := reqPlain_spec w2 (b.ncvar.getD (pn ++ "_bounds"))
    simp only [hbn]
    have hC3 := core_add_name hC2 bn
    have hR3 := roles_add_name hR2 bn
    have hbn_file : bn ∉ w2.file.varNames := fun h => hbnfresh (List.mem_append_left _ (hC2.vars bn h))
    have hdims2 : ∀ d ∈ w.file.dimNames, d ∈ w2.file.dimNames := by
      intro d hd; rw [hf2]
      simp only [File.dimNames, List.map_append, List.mem_append]; exact Or.inl hd
    have hbd2 : bd ∈ w2.file.dimNames := by
      rw [hf2]; simp [File.dimNames]
    have hok : varOK (addVar w2.file ⟨bn, pd ++ [bd], [], false⟩) ⟨bn, pd ++ [bd], [], false⟩ = true := by
      rw [varOK_iff]
      refine ⟨?_, by intro r hr; cases hr⟩
      intro d hd
      simp only [List.mem_append, List.mem_singleton] at hd
      rcases hd with hd | rfl
      · exact hdims2 d (hpd d hd)
      · exact hbd2
    obtain ⟨w4, hw4, hf4, hn4, hC4⟩ := emitVar_spec hC3 ⟨bn, pd ++ [bd], [], false⟩ hbn_file
      List.mem_cons_self hok
    simp only [hw4]
    refine ⟨_, w4, rfl, ⟨hC4, ?_, ?_, ?_, ?_, ⟨bd, ?_⟩, ?_, ?_⟩⟩
    · unfold Roles; rw [hn4]; exact hR3
    · by_cases hc : b.climatology = true <;> simp [hc]
    · intro n hn; rw [hn4]
      simp only [List.mem_cons]
      right; rw [hn2]; simp only [List.mem_cons]; exact Or.inr hn
    · intro n
      rw [hf4]
      simp only [addVar, File.varNames, List.map_append, List.map_cons, List.map_nil, List.mem_append,
        List.mem_singleton]
      have : w2.file.vars = w.file.vars := by rw [hf2]
      rw [this]
    · rw [hf4]; simp [addVar]
    · intro hin
      apply hbnfresh
      apply List.mem_append_left
      rw [hn2]
      exact List.mem_cons_of_mem _ hin
    · intro d hd
      rw [hf4]; exact hdims2 d hd
  · -- an existing bounds dimension of that size is reused
    have hreq' : reqName w (b.ncdim.getD ("bounds" ++ toString b.size)) (some b.size) (some "bounds")
        = some (bd, false, w) := by
      simp only [reqName, hreq]
    simp only [hreq', Bool.false_eq_true, if_false]
    have hbdfile : bd ∈ w.file.dimNames := (hC.dims bd).mpr (dimSize_isSome_mem _ _ (by rw [hbds]; rfl))
    obtain ⟨bn, hbn, hbnfresh⟩ := reqPlain_spec w (b.ncvar.getD "bounds")
    simp only [hbn]
    have hC3 := core_add_name hC bn
    have hR3 := roles_add_name hR bn
    have hbn_file : bn ∉ w.file.varNames := fun h => hbnfresh (List.mem_append_left _ (hC.vars bn h))
    have hok : varOK (addVar w.file ⟨bn, pd ++ [bd], [], false⟩) ⟨bn, pd ++ [bd], [], false⟩ = true := by
      rw [varOK_iff]
      refine ⟨?_, by intro r hr; cases hr⟩
      intro d hd
      simp only [List.mem_append, List.mem_singleton] at hd
      rcases hd with hd | rfl
      · exact hpd d hd
      · exact hbdfile
    obtain ⟨w4, hw4, hf4, hn4, hC4⟩ := emitVar_spec hC3 ⟨bn, pd ++ [bd], [], false⟩ hbn_file
      List.mem_cons_self hok
    simp only [hw4]
    refine ⟨_, w4, rfl, ⟨hC4, ?_, ?_, ?_, ?_, ⟨bd, ?_⟩, ?_, ?_⟩⟩
    · unfold Roles; rw [hn4]; exact hR3
    · by_cases hc : b.climatology = true <;> simp [hc]
    · intro n hn; rw [hn4]; exact List.mem_cons_of_mem _ hn
    · intro n
      rw [hf4]
      simp only [addVar, File.varNames, List.map_append, List.map_cons, List.map_nil, List.mem_append,
        List.mem_singleton]
    · rw [hf4]; simp [addVar]
    · intro hin
      exact hbnfresh (List.mem_append_left _ hin)
    · intro d hd
      rw [hf4]; exact hd

/-! ### a dimension coordinate -/

theorem writeDimCoord_spec {w : W} (hI : Inv w) (base : String) (size : Nat) (b : Option ABounds) :
    ∃ n w', writeDimCoord w base size b = some (n, w') ∧ Inv w'
      ∧ n ∈ w'.file.dimNames ∧ (∃ refs, (⟨n, [n], refs, false⟩ : Var) ∈ w'.file.vars)
      ∧ (∀ d ∈ w.file.dimNames, d ∈ w'.file.dimNames) := by
  obtain ⟨hC, hR⟩ := hI
  unfold writeDimCoord
  obtain ⟨n, hn, hnfresh⟩ := reqPlain_spec w base
  simp only [hn]
  have hC1 := core_add_name hC n
  have hR1 := roles_add_name hR n
  have hnd : n ∉ w.names.dimNames := fun h => hnfresh (List.mem_append_right _ h)
  obtain ⟨w2, hw2, hf2, hn2, hC2⟩ := emitDim_spec hC1 n size hnd
  simp only [hw2]
  have hR2 : Roles w2 := by
    unfold Roles
    apply roles_after_dim (s := { w.names with vars := n :: w.names.vars }) n size (by rw [hn2]) (by rw [hn2]) hnd
    intro r d hd
    exact Or.inr (hR r d hd)
  have hnfile2 : n ∈ w2.file.dimNames := by rw [hf2]; simp [File.dimNames]
  have hnvar2 : n ∉ w2.file.varNames := by
    rw [hf2]
    intro h
    exact hnfresh (List.mem_append_left _ (hC.vars n h))
  have hnin2 : n ∈ w2.names.vars := by rw [hn2]; exact List.mem_cons_self
  have hdims2 : ∀ d ∈ w.file.dimNames, d ∈ w2.file.dimNames := by
    intro d hd; rw [hf2]
    simp only [File.dimNames, List.map_append, List.mem_append]; exact Or.inl hd
  cases b with
  | none =>
    simp only
    have hok : varOK (addVar w2.file ⟨n, [n], [], false⟩) ⟨n, [n], [], false⟩ = true := by
      rw [varOK_iff]
      refine ⟨?_, by intro r hr; cases hr⟩
      intro d hd
      simp only [List.mem_singleton] at hd
      exact hd ▸ hnfile2
    obtain ⟨w4, hw4, hf4, hn4, hC4⟩ := emitVar_spec hC2 ⟨n, [n], [], false⟩ hnvar2 hnin2 hok
    simp only [hw4]
    refine ⟨n, w4, rfl, ⟨hC4, ?_⟩, ?_, ⟨[], ?_⟩, ?_⟩
    · unfold Roles; rw [hn4]; exact hR2
    · rw [hf4]; exact hnfile2
    · rw [hf4]; simp [addVar]
    · intro d hd; rw [hf4]; exact hdims2 d hd
  | some b =>
    obtain ⟨r, w3, hw3, hP⟩ := writeBounds_spec hC2 hR2 n [n] b
      (by intro d hd; simp only [List.mem_singleton] at hd; exact hd ▸ hnfile2)
    simp only [hw3, Option.map_some]
    obtain ⟨bd, hbdmem⟩ := hP.target
    have hnd3 : w3.file.varNames.Nodup := (wfCore_iff.mp hP.core.wf).2.1
    -- the coordinate's own name is still free, and differs from the bounds variable's
    have hne : r.target ≠ n := fun h => hP.newName (h ▸ hnin2)
    have hnvar3 : n ∉ w3.file.varNames := by
      intro h
      rcases (hP.fileVars n).mp h with h | h
      · exact hnvar2 h
      · exact hne h.symm
    have hnin3 : n ∈ w3.names.vars := hP.names n hnin2
    have hnfile3 : n ∈ w3.file.dimNames := hP.dims n hnfile2
    have hok : varOK (addVar w3.file ⟨n, [n], [r], false⟩) ⟨n, [n], [r], false⟩ = true := by
      rw [varOK_iff]
      refine ⟨?_, ?_⟩
      · intro d hd
        simp only [List.mem_singleton] at hd
        exact hd ▸ hnfile3
      · intro q hq
        simp only [List.mem_singleton] at hq
        subst hq
        have hnd' : (addVar w3.file ⟨n, [n], [q], false⟩).varNames.Nodup := by
          simp only [addVar, File.varNames, List.map_append, List.map_cons, List.map_nil]
          rw [List.nodup_append]
          refine ⟨hnd3, by simp, ?_⟩
          intro a ha c hc hac
          simp only [List.mem_singleton] at hc
          exact hnvar3 (hc ▸ hac ▸ ha)
        have hmem : (⟨q.target, [n] ++ [bd], [], false⟩ : Var) ∈ (addVar w3.file ⟨n, [n], [q], false⟩).vars := by
          simp only [addVar, List.mem_append]; exact Or.inl hbdmem
        have hlook := var?_of_mem hnd' hmem
        simp only at hlook
        unfold refOK
        rcases hP.kind with hk | hk <;> simp [hk, hlook]
    obtain ⟨w4, hw4, hf4, hn4, hC4⟩ := emitVar_spec hP.core ⟨n, [n], [r], false⟩ hnvar3 hnin3 hok
    simp only [hw4]
    refine ⟨n, w4, rfl, ⟨hC4, ?_⟩, ?_, ⟨[r], ?_⟩, ?_⟩
    · unfold Roles; rw [hn4]; exact hP.roles
    · rw [hf4]; exact hnfile3
    · rw [hf4]; simp [addVar]
    · intro d hd; rw [hf4]; exact hP.dims d (hdims2 d hd)

theorem writeDimCoords_spec : ∀ (cs : List (String × Nat × Option ABounds)) {w : W}, Inv w →
    ∃ ns w', writeDimCoords w cs = some (ns, w') ∧ Inv w' ∧ ns.length = cs.length := by
  intro cs
  induction cs with
  | nil => intro w hI; exact ⟨[], w, rfl, hI, rfl⟩
  | cons c cs ih =>
    intro w hI
    obtain ⟨base, size, b⟩ := c
    obtain ⟨n, w1, h1, hI1, _⟩ := writeDimCoord_spec hI base size b
    obtain ⟨ns, w2, h2, hI2, hlen⟩ := ih hI1
    exact ⟨n :: ns, w2, by simp only [writeDimCoords, h1, h2], hI2, by simp [hlen]⟩

end Cfdm.NcWrite
