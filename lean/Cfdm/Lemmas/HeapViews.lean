import Cfdm.Lemmas.Heap
import Cfdm.Model.HeapViews
/-
C04 — lemmas for pickling (a completely new structure with the same fingerprint), for views
(a view stays in sync with what it views) and for the shallow copy of a collection.
-/
namespace Cfdm.Heap

/-! ### pickling: `deepT` keeps the fingerprint -/
mutual
theorem obsT_deepT : ∀ (t : T) (n : Nat), obsT (deepT t n).1 = obsT t
  | .imm _, _ => rfl
  | .leaf _ _ _, _ => rfl
  | .node _ k ks, n => by simp [deepT, obsT, obsK_deepK ks (n + 1)]
theorem obsK_deepK : ∀ (ks : Kids) (n : Nat), obsK (deepK ks n).1 = obsK ks
  | .nil, _ => rfl
  | .cons key t r, n => by simp [deepK, obsK, obsT_deepT t n, obsK_deepK r (deepT t n).2]
end

/-! ### the frame of a write sequence, with the bookkeeping needed to continue afterwards -/
theorem runWrites_frame_below (tbl : Tbl) : ∀ (ws : List Write) (x y : T) (n : Nat),
    Sep tbl x y → Below x n → Below y n → (∀ w ∈ ws, AllLive tbl w.path) →
    (runWrites ws (x, y, n)).1 = x ∧ Sep tbl x (runWrites ws (x, y, n)).2.1 ∧
    Below x (runWrites ws (x, y, n)).2.2 ∧ Below (runWrites ws (x, y, n)).2.1 (runWrites ws (x, y, n)).2.2
  | [], x, y, n => by intro h hx hy _; exact ⟨rfl, h, hx, hy⟩
  | w :: ws, x, y, n => by
    intro hsep hx hy hl
    obtain ⟨e1, s1, bx, by', _⟩ := stepWrite_frame tbl w x y n hsep hx hy (hl w List.mem_cons_self)
    have ih := runWrites_frame_below tbl ws x (stepWrite w (x, y, n)).2.1 (stepWrite w (x, y, n)).2.2 s1 bx by'
      (fun w' hw' => hl w' (List.mem_cons_of_mem _ hw'))
    have hs : stepWrite w (x, y, n) = (x, (stepWrite w (x, y, n)).2.1, (stepWrite w (x, y, n)).2.2) :=
      Prod.ext e1 rfl
    simp only [runWrites]
    rw [hs]
    exact ih

/-! ### writes commute with `Kids.set` / `Kids.get?` -/
theorem applyK_get (a : Nat) (u : Upd) (key : String) :
    ∀ (ks : Kids), (applyK a u ks).get? key = (ks.get? key).map (applyT a u)
  | .nil => rfl
  | .cons k t r => by
    by_cases hk : (k == key) = true
    · simp [applyK, Kids.get?, hk]
    · simp [applyK, Kids.get?, hk, applyK_get a u key r]

theorem applyK_set (a : Nat) (u : Upd) (key : String) (v : T) :
    ∀ (ks : Kids), applyK a u (ks.set key v) = (applyK a u ks).set key (applyT a u v)
  | .nil => rfl
  | .cons k t r => by
    by_cases hk : (k == key) = true
    · simp [applyK, Kids.set, hk]
    · simp [applyK, Kids.set, hk, applyK_set a u key v r]

theorem set_getD_addrs (key : String) (w : T) :
    ∀ (ks : Kids), ∀ a ∈ ks.addrs, a ∈ (ks.set key ((ks.get? key).getD w)).addrs
  | .nil => by simp [Kids.addrs]
  | .cons k t r => by
    intro a ha
    by_cases hk : (k == key) = true
    · simpa [Kids.set, Kids.get?, hk, Kids.addrs] using ha
    · simp only [Kids.addrs, List.mem_append] at ha
      simp only [Kids.set, Kids.get?, hk, Bool.false_eq_true, ite_false, Kids.addrs, List.mem_append]
      rcases ha with ha | ha
      · exact Or.inl ha
      · exact Or.inr (set_getD_addrs key w r a ha)

end Cfdm.Heap
