import Cfdm.Model.Files
/-
Helper lemmas for C10 (core Lean only).
-/
namespace Cfdm.Files

/-! ## need ⊆ origNew : every tree -/

theorem Anc.need_sub (a : Anc) : ∀ x ∈ a.need, x ∈ a.origNew := by
  intro x hx; simp only [Anc.need] at hx; simp [Anc.origNew, hx]

theorem DataM.need_sub (d : DataM) : ∀ x ∈ d.need, x ∈ d.origNew := by
  intro x hx
  simp only [DataM.need, List.mem_append, List.mem_flatMap] at hx
  simp only [DataM.origNew, List.mem_append, List.mem_flatMap]
  rcases hx with h | ⟨a, ha, hxa⟩
  · exact Or.inl (Or.inr h)
  · exact Or.inr ⟨a, ha, Anc.need_sub a x hxa⟩

theorem dataNeed_sub (d : Option DataM) : ∀ x ∈ dataNeed d, x ∈ dataOrigNew d := by
  cases d with
  | none => intro x hx; simp [dataNeed] at hx
  | some d => exact DataM.need_sub d

theorem holderNeed_sub (h : Option Holder) : ∀ x ∈ holderNeed h, x ∈ holderOrigNew h := by
  cases h with
  | none => intro x hx; simp [holderNeed] at hx
  | some h =>
    intro x hx
    simp only [holderNeed, Holder.need] at hx
    simp only [holderOrigNew, Holder.origNew, List.mem_append]
    exact Or.inr (dataNeed_sub h.data x hx)

theorem Cons.need_sub (c : Cons) : ∀ x ∈ c.need, x ∈ c.origNew := by
  intro x hx
  simp only [Cons.need, List.mem_append] at hx
  simp only [Cons.origNew, List.mem_append]
  rcases hx with (h | h) | h
  · exact Or.inl (Or.inl (Or.inr (dataNeed_sub _ x h)))
  · exact Or.inl (Or.inr (holderNeed_sub _ x h))
  · exact Or.inr (holderNeed_sub _ x h)

theorem FieldM.need_sub (f : FieldM) : ∀ x ∈ f.need, x ∈ f.origNew := by
  intro x hx
  simp only [FieldM.need, List.mem_append, List.mem_flatMap] at hx
  simp only [FieldM.origNew, List.mem_append, List.mem_flatMap]
  rcases hx with h | ⟨c, hc, hxc⟩
  · exact Or.inl (Or.inr (dataNeed_sub _ x h))
  · exact Or.inr ⟨c, hc, Cons.need_sub c x hxc⟩

/-- `get_filenames()` as coded reports only files that are really needed (it is incomplete,
not wrong). -/
theorem FieldM.needCode_sub (f : FieldM) : ∀ x ∈ f.needCode, x ∈ f.need := by
  intro x hx
  simp only [FieldM.needCode, List.mem_append, List.mem_flatMap] at hx
  simp only [FieldM.need, List.mem_append, List.mem_flatMap]
  rcases hx with h | ⟨c, hc, hxc⟩
  · left
    split at h
    · simp at h
    · cases hd : f.data with
      | none => simp [hd, dataFiles] at h
      | some d => simp [hd, dataFiles] at h; simp [dataNeed, DataM.need, h]
  · right
    refine ⟨c, hc, ?_⟩
    simp only [Cons.needCode] at hxc
    simp only [Cons.need, List.mem_append]
    left; left
    cases hd : c.data with
    | none => simp [hd, dataFiles] at hxc
    | some d => simp [hd, dataFiles] at hxc; simp [dataNeed, DataM.need, hxc]

/-! ## The invariant the unpatched guard relies on: every holder's own component covers the
files its data still need ("local containment") -/

def Holder.LC (h : Holder) : Prop := ∀ x ∈ h.need, x ∈ h.own
def holderLC : Option Holder → Prop
  | none => True
  | some h => h.LC
def Cons.LC (c : Cons) : Prop := (∀ x ∈ dataNeed c.data, x ∈ c.own) ∧ holderLC c.bounds ∧ holderLC c.ring
def FieldM.LC (f : FieldM) : Prop := (∀ x ∈ dataNeed f.data, x ∈ f.own) ∧ ∀ c ∈ f.cons, c.LC

instance (h : Holder) : Decidable h.LC := by unfold Holder.LC; infer_instance
instance (h : Option Holder) : Decidable (holderLC h) := by
  cases h with
  | none => exact isTrue trivial
  | some h => simp only [holderLC]; infer_instance
instance (c : Cons) : Decidable c.LC := by unfold Cons.LC; infer_instance
instance (f : FieldM) : Decidable f.LC := by unfold FieldM.LC; infer_instance

theorem holderNeed_sub_own (h : Option Holder) (hl : holderLC h) : ∀ x ∈ holderNeed h, x ∈ holderOwn h := by
  cases h with
  | none => intro x hx; simp [holderNeed] at hx
  | some h => intro x hx; exact hl x hx

theorem Cons.need_sub_old (c : Cons) (hl : c.LC) : ∀ x ∈ c.need, x ∈ c.origOld := by
  intro x hx
  simp only [Cons.need, List.mem_append] at hx
  simp only [Cons.origOld, List.mem_append]
  rcases hx with (h | h) | h
  · exact Or.inl (Or.inl (hl.1 x h))
  · exact Or.inl (Or.inr (holderNeed_sub_own _ hl.2.1 x h))
  · exact Or.inr (holderNeed_sub_own _ hl.2.2 x h)

theorem FieldM.need_sub_old (f : FieldM) (hl : f.LC) : ∀ x ∈ f.need, x ∈ f.origOld := by
  intro x hx
  simp only [FieldM.need, List.mem_append, List.mem_flatMap] at hx
  simp only [FieldM.origOld, List.mem_append, List.mem_flatMap]
  rcases hx with h | ⟨c, hc, hxc⟩
  · exact Or.inl (hl.1 x h)
  · exact Or.inr ⟨c, hc, Cons.need_sub_old c (hl.2 c hc) x hxc⟩

/-! ### data-level transitions only shrink the need -/

theorem dataNeed_map_fetch (d : Option DataM) : dataNeed (d.map DataM.fetch) = [] := by
  cases d <;> simp [dataNeed, DataM.fetch, DataM.need]

theorem dataNeed_map_toMem (d : Option DataM) : dataNeed (d.map DataM.toMem) = [] := by
  cases d with
  | none => simp [dataNeed]
  | some d =>
    simp only [Option.map, dataNeed, DataM.toMem, DataM.need, List.nil_append, List.flatMap_map]
    induction d.ancils with
    | nil => rfl
    | cons a t ih => simp [List.flatMap_cons, Anc.need]

theorem holderLC_map_fetch (h : Option Holder) : holderLC (h.map Holder.fetch) := by
  cases h with
  | none => trivial
  | some h =>
    intro x hx
    simp only [Holder.fetch, Holder.need, dataNeed_map_fetch] at hx
    simp at hx

theorem holderLC_map_toMem (h : Option Holder) : holderLC (h.map Holder.toMem) := by
  cases h with
  | none => trivial
  | some h =>
    intro x hx
    simp only [Holder.toMem, Holder.need, dataNeed_map_toMem] at hx
    simp at hx

theorem Cons.LC_fetch (c : Cons) : c.fetch.LC := by
  refine ⟨?_, holderLC_map_fetch _, holderLC_map_fetch _⟩
  intro x hx
  simp only [Cons.fetch, dataNeed_map_fetch] at hx
  simp at hx

theorem Cons.LC_toMem (c : Cons) : c.toMem.LC := by
  refine ⟨?_, holderLC_map_toMem _, holderLC_map_toMem _⟩
  intro x hx
  simp only [Cons.toMem, dataNeed_map_toMem] at hx
  simp at hx

/-! ### field-level transitions preserve local containment -/

theorem FieldM.LC_of_data_cons {g : FieldM} (hd : ∀ x ∈ dataNeed g.data, x ∈ g.own)
    (hc : ∀ c ∈ g.cons, c.LC) : g.LC := ⟨hd, hc⟩

theorem FieldM.LC_mapCons (f : FieldM) (k : String) (g : Cons → Cons) (hl : f.LC)
    (hg : ∀ c, c.LC → (g c).LC) : (f.mapCons k g).LC := by
  refine ⟨hl.1, ?_⟩
  intro c hc
  simp only [FieldM.mapCons, List.mem_map] at hc
  obtain ⟨c0, hc0, rfl⟩ := hc
  split
  · exact hg c0 (hl.2 c0 hc0)
  · exact hl.2 c0 hc0

theorem FieldM.LC_sub (f : FieldM) (sizes : List Nat) (hl : f.LC) : (f.sub sizes).LC := by
  refine ⟨?_, ?_⟩
  · intro x hx
    simp only [FieldM.sub, dataNeed_map_fetch] at hx
    simp at hx
  · intro c hc
    simp only [FieldM.sub, List.mem_map] at hc
    obtain ⟨c0, hc0, rfl⟩ := hc
    split
    · exact Cons.LC_fetch c0
    · exact hl.2 c0 hc0

theorem FieldM.LC_squeeze (f : FieldM) (hl : f.LC) : f.squeeze.LC := by
  unfold FieldM.squeeze
  dsimp only
  split
  · refine ⟨?_, hl.2⟩
    intro x hx
    simp only [dataNeed_map_fetch] at hx
    simp at hx
  · exact hl

theorem FieldM.LC_transpose (f : FieldM) (hl : f.LC) : f.transpose.LC := by
  unfold FieldM.transpose
  split
  · refine ⟨?_, hl.2⟩
    intro x hx
    simp only [dataNeed_map_fetch] at hx
    simp at hx
  · exact hl

theorem FieldM.LC_insdim (f g : FieldM) (a : String) (hl : f.LC) (h : f.insdim a = some g) : g.LC := by
  unfold FieldM.insdim at h
  split at h
  · simp only [Option.some.injEq] at h
    subst h
    refine ⟨?_, hl.2⟩
    intro x hx
    simp only [dataNeed_map_fetch] at hx
    simp at hx
  · simp at h

theorem FieldM.LC_domain (f : FieldM) (hl : f.LC) : f.domain.LC := by
  refine ⟨?_, ?_⟩
  · intro x hx; simp [FieldM.domain, dataNeed] at hx
  · intro c hc
    simp only [FieldM.domain, List.mem_filter] at hc
    exact hl.2 c hc.1

theorem FieldM.findCons_mem (f : FieldM) (k : String) (c : Cons) (h : f.findCons k = some c) : c ∈ f.cons := by
  unfold FieldM.findCons at h
  exact List.mem_of_find?_eq_some h

theorem FieldM.LC_convert (f g : FieldM) (k : String) (hl : f.LC) (h : f.convert k = some g) : g.LC := by
  unfold FieldM.convert at h
  split at h
  · simp at h
  · rename_i c hc
    have hcm := f.findCons_mem k c hc
    split at h
    · simp at h
    · rename_i d hd
      simp only [Option.some.injEq] at h
      subst h
      refine ⟨?_, ?_⟩
      · intro x hx
        have := (hl.2 c hcm).1 x (by rw [hd]; exact hx)
        exact this
      · intro c' hc'
        simp only [List.mem_append, List.mem_filter, List.mem_map] at hc'
        rcases hc' with (h1 | ⟨r, hr, rfl⟩) | h3
        · exact hl.2 c' h1.1
        · exact hl.2 r hr.1
        · exact hl.2 c' h3.1

theorem FieldM.LC_delCons (f : FieldM) (k : String) (hl : f.LC) : (f.delCons k).LC := by
  refine ⟨hl.1, ?_⟩
  intro c hc
  simp only [FieldM.delCons, List.mem_filter] at hc
  exact hl.2 c hc.1

theorem FieldM.LC_setCons (f : FieldM) (c : Cons) (hl : f.LC) (hc : c.LC) : (f.setCons c).LC := by
  refine ⟨hl.1, ?_⟩
  intro c' hc'
  simp only [FieldM.setCons, List.mem_append, List.mem_filter, List.mem_singleton] at hc'
  rcases hc' with h | rfl
  · exact hl.2 c' h.1
  · exact hc

theorem FieldM.LC_toMem (f : FieldM) (t : MemTarget) (hl : f.LC) : (f.toMem t).LC := by
  cases t with
  | field =>
    refine ⟨?_, hl.2⟩
    intro x hx
    simp only [FieldM.toMem, dataNeed_map_toMem] at hx
    simp at hx
  | cons k => exact FieldM.LC_mapCons f k _ hl (fun c _ => Cons.LC_toMem c)
  | all =>
    refine ⟨?_, ?_⟩
    · intro x hx
      simp only [FieldM.toMem, dataNeed_map_toMem] at hx
      simp at hx
    · intro c hc
      simp only [FieldM.toMem, List.mem_map] at hc
      obtain ⟨c0, _, rfl⟩ := hc
      exact Cons.LC_toMem c0

theorem DataM.need_fetch (d : DataM) : dataNeed (some d.fetch) = [] := by
  simp [dataNeed, DataM.fetch, DataM.need]

/-- putting data that need nothing anywhere keeps local containment -/
theorem FieldM.LC_setData_fetch (f f' : FieldM) (sl : Slot) (d : DataM) (hl : f.LC)
    (h : f.setData sl d.fetch = some f') : f'.LC := by
  cases sl with
  | fdata =>
    simp only [FieldM.setData] at h
    split at h
    · simp at h
    · simp only [Option.some.injEq] at h; subst h
      refine ⟨?_, hl.2⟩
      intro x hx
      rw [DataM.need_fetch] at hx
      simp at hx
  | cdata k =>
    simp only [FieldM.setData] at h
    split at h
    · simp at h
    · simp only [Option.some.injEq] at h; subst h
      apply FieldM.LC_mapCons f k _ hl
      intro c hc
      refine ⟨?_, hc.2.1, hc.2.2⟩
      intro x hx
      rw [DataM.need_fetch] at hx
      simp at hx
  | bdata k =>
    simp only [FieldM.setData] at h
    split at h
    · simp at h
    · simp only [Option.some.injEq] at h; subst h
      apply FieldM.LC_mapCons f k _ hl
      intro c hc
      refine ⟨hc.1, ?_, hc.2.2⟩
      cases hb : c.bounds with
      | none => trivial
      | some b =>
        intro x hx
        simp only [Option.map_some, Holder.need] at hx
        rw [DataM.need_fetch] at hx
        simp at hx

/-! ### one step, whole histories -/

def RegsLC (rs : Regs) : Prop := ∀ f ∈ rs, f.LC

theorem RegsLC_append (rs : Regs) (g : FieldM) (h : RegsLC rs) (hg : g.LC) : RegsLC (rs ++ [g]) := by
  intro f hf
  simp only [List.mem_append, List.mem_singleton] at hf
  rcases hf with hf | rfl
  · exact h f hf
  · exact hg

theorem RegsLC_put (rs : Regs) (r : Nat) (ip : Bool) (g : FieldM) (h : RegsLC rs) (hg : g.LC) :
    RegsLC (put rs r ip g) := by
  unfold put
  split
  · intro f hf
    rcases List.mem_or_eq_of_mem_set hf with hf | rfl
    · exact h f hf
    · exact hg
  · exact RegsLC_append rs g h hg

theorem RegsLC_get (rs : Regs) (r : Nat) (f : FieldM) (h : RegsLC rs) (hf : rs[r]? = some f) : f.LC :=
  h f (List.mem_of_getElem? hf)

theorem bounds_LC_of_find (g : FieldM) (k : String) (b : Holder) (hl : g.LC)
    (h : (g.findCons k).bind (·.bounds) = some b) : b.LC := by
  cases hc : g.findCons k with
  | none => simp [hc] at h
  | some c =>
    simp only [hc, Option.bind_some] at h
    have := (hl.2 c (g.findCons_mem k c hc)).2.1
    rw [h] at this
    exact this

theorem step_LC (rs rs' : Regs) (op : Op) (h : RegsLC rs) (ht : op.isTransplant = false)
    (hs : step rs op = some rs') : RegsLC rs' := by
  cases op with
  | copy r | source r | subE r =>
    simp only [step, Option.map_eq_some_iff] at hs
    obtain ⟨f, hf, rfl⟩ := hs
    exact RegsLC_append rs f h (RegsLC_get rs r f h hf)
  | sub r sizes =>
    simp only [step, Option.bind_eq_some_iff] at hs
    obtain ⟨f, hf, hs⟩ := hs
    split at hs
    · simp at hs
    · simp only [Option.some.injEq] at hs; subst hs
      exact RegsLC_append rs _ h (FieldM.LC_sub f sizes (RegsLC_get rs r f h hf))
  | squeeze r =>
    simp only [step, Option.bind_eq_some_iff] at hs
    obtain ⟨f, hf, hs⟩ := hs
    split at hs
    · simp at hs
    · simp only [Option.some.injEq] at hs; subst hs
      exact RegsLC_append rs _ h (FieldM.LC_squeeze f (RegsLC_get rs r f h hf))
  | transpose r =>
    simp only [step, Option.bind_eq_some_iff] at hs
    obtain ⟨f, hf, hs⟩ := hs
    split at hs
    · simp at hs
    · simp only [Option.some.injEq] at hs; subst hs
      exact RegsLC_append rs _ h (FieldM.LC_transpose f (RegsLC_get rs r f h hf))
  | insdim r a =>
    simp only [step, Option.bind_eq_some_iff] at hs
    obtain ⟨f, hf, hs⟩ := hs
    split at hs
    · simp at hs
    · simp only [Option.map_eq_some_iff] at hs
      obtain ⟨g, hg, rfl⟩ := hs
      exact RegsLC_append rs g h (FieldM.LC_insdim f g a (RegsLC_get rs r f h hf) hg)
  | domain r =>
    simp only [step, Option.map_eq_some_iff] at hs
    obtain ⟨f, hf, rfl⟩ := hs
    exact RegsLC_append rs _ h (FieldM.LC_domain f (RegsLC_get rs r f h hf))
  | convert r k =>
    simp only [step, Option.bind_eq_some_iff, Option.map_eq_some_iff] at hs
    obtain ⟨f, hf, g, hg, rfl⟩ := hs
    exact RegsLC_append rs g h (FieldM.LC_convert f g k (RegsLC_get rs r f h hf) hg)
  | delcons r k ip =>
    simp only [step, Option.bind_eq_some_iff] at hs
    obtain ⟨f, hf, hs⟩ := hs
    split at hs
    · simp at hs
    · simp only [Option.some.injEq] at hs; subst hs
      exact RegsLC_put rs r ip _ h (FieldM.LC_delCons f k (RegsLC_get rs r f h hf))
  | setcons r src k nk axes ip =>
    simp only [step, Option.bind_eq_some_iff] at hs
    obtain ⟨f, hf, g, hg, hs⟩ := hs
    split at hs
    · simp at hs
    · rename_i c hc
      simp only [Option.some.injEq] at hs; subst hs
      have hcl : c.LC := (RegsLC_get rs src g h hg).2 c (g.findCons_mem k c hc)
      exact RegsLC_put rs r ip _ h (FieldM.LC_setCons f _ (RegsLC_get rs r f h hf) hcl)
  | setdata r dst src fr raw ip => simp [Op.isTransplant] at ht
  | setbounds r k src k' ip =>
    simp only [step, Option.bind_eq_some_iff] at hs
    obtain ⟨f, hf, g, hg, hs⟩ := hs
    split at hs
    · rename_i c b hc hb
      simp only [Option.some.injEq] at hs; subst hs
      have hbl : b.LC := bounds_LC_of_find g k' b (RegsLC_get rs src g h hg) hb
      refine RegsLC_put rs r ip _ h (FieldM.LC_mapCons f k _ (RegsLC_get rs r f h hf) ?_)
      intro c0 hc0
      exact ⟨hc0.1, hbl, hc0.2.2⟩
    · simp at hs
  | delbounds r k ip =>
    simp only [step, Option.bind_eq_some_iff] at hs
    obtain ⟨f, hf, hs⟩ := hs
    split at hs
    · simp at hs
    · simp only [Option.some.injEq] at hs; subst hs
      refine RegsLC_put rs r ip _ h (FieldM.LC_mapCons f k _ (RegsLC_get rs r f h hf) ?_)
      intro c0 hc0
      exact ⟨hc0.1, trivial, hc0.2.2⟩
  | tomem r t ip =>
    simp only [step, Option.map_eq_some_iff] at hs
    obtain ⟨f, hf, rfl⟩ := hs
    exact RegsLC_put rs r ip _ h (FieldM.LC_toMem f t (RegsLC_get rs r f h hf))
  | assign r sl ip =>
    simp only [step, Option.bind_eq_some_iff] at hs
    obtain ⟨f, hf, hs⟩ := hs
    split at hs
    · simp at hs
    · rename_i d hd
      simp only [Option.map_eq_some_iff] at hs
      obtain ⟨f', hf', rfl⟩ := hs
      exact RegsLC_put rs r ip f' h (FieldM.LC_setData_fetch f f' sl d (RegsLC_get rs r f h hf) hf')
  | setext r k ip =>
    simp only [step, Option.bind_eq_some_iff] at hs
    obtain ⟨f, hf, hs⟩ := hs
    split at hs
    · simp at hs
    · split at hs
      · simp only [Option.some.injEq] at hs; subst hs
        refine RegsLC_put rs r ip _ h (FieldM.LC_mapCons f k _ (RegsLC_get rs r f h hf) ?_)
        intro c0 hc0
        exact hc0
      · simp at hs
  | addmsr r k axes ip =>
    simp only [step, Option.map_eq_some_iff] at hs
    obtain ⟨f, hf, rfl⟩ := hs
    refine RegsLC_put rs r ip _ h (FieldM.LC_setCons f _ (RegsLC_get rs r f h hf) ?_)
    refine ⟨?_, trivial, trivial⟩
    intro x hx
    simp [dataNeed, DataM.need] at hx

theorem run_LC (ops : List Op) : ∀ (rs : Regs), RegsLC rs → (∀ op ∈ ops, op.isTransplant = false) →
    RegsLC (run rs ops) := by
  induction ops with
  | nil => intro rs h _; exact h
  | cons op ops ih =>
    intro rs h ht
    simp only [run]
    apply ih
    · cases hs : step rs op with
      | none => simpa using h
      | some rs' => simpa using step_LC rs rs' op h (ht op (List.mem_cons_self ..)) hs
    · intro o ho; exact ht o (List.mem_cons_of_mem _ ho)

end Cfdm.Files
