import Cfdm.Model.RaggedND
import Cfdm.Lemmas.Ragged
/-
Helper lemmas for C06: gathered arrays inside N-d arrays, reader-derived shapes.
-/
namespace Cfdm.Ragged

/-! ### gathering with leading and trailing dimensions -/

theorem gatherAssignND_spec {α} (nl : Nat) (dims : List Nat) (data : List Nat → M α) (idx : List Nat)
    (hi : InRange dims (midIdx nl dims.length idx)) :
    ∀ (qs : List Nat) (k : Nat) (u : List Nat → M α), (∀ q ∈ qs, q < prod dims) →
      gatherAssignND nl dims data k qs u idx =
        match lastPosFrom (ravel dims (midIdx nl dims.length idx)) k qs with
        | some j => data (sampleIdx nl dims.length idx j)
        | none => u idx := by
  intro qs
  induction qs with
  | nil => intro k u _; simp [gatherAssignND, lastPosFrom]
  | cons q qs ih =>
    intro k u h
    simp only [gatherAssignND, lastPosFrom]
    rw [ih (k + 1) _ (fun r hr => h r (by simp [hr]))]
    have hiff := eq_unravel_iff dims _ q (h q (by simp)) hi
    cases hl : lastPosFrom (ravel dims (midIdx nl dims.length idx)) (k + 1) qs with
    | some j => simp
    | none =>
      by_cases hq : q = ravel dims (midIdx nl dims.length idx)
      · have hm := hiff.mpr hq
        simp only [if_pos hm, if_pos hq]
      · have hm : ¬ midIdx nl dims.length idx = unravel dims q := fun hh => hq (hiff.mp hh)
        simp only [if_neg hm, if_neg hq]

theorem lastPosFrom_none_aux (t : Nat) : ∀ (qs : List Nat) (k : Nat), lastPosFrom t k qs = none →
    ∀ i : Nat, qs[i]? ≠ some t := by
  intro qs
  induction qs with
  | nil => intro k _ i; simp
  | cons q qs ih =>
    intro k h i
    simp only [lastPosFrom] at h
    cases hl : lastPosFrom t (k + 1) qs with
    | some j0 => rw [hl] at h; simp at h
    | none =>
      rw [hl] at h
      by_cases hq : q = t
      · simp [hq] at h
      · cases i with
        | zero => simp [hq]
        | succ i => rw [List.getElem?_cons_succ]; exact ih (k + 1) hl i


/-- What `lastPosFrom` finds is a sample with that list value, and no later sample has it. -/
theorem lastPosFrom_some (t : Nat) : ∀ (qs : List Nat) (k j : Nat), lastPosFrom t k qs = some j →
    k ≤ j ∧ qs[j - k]? = some t ∧ ∀ j', j < j' → qs[j' - k]? ≠ some t := by
  intro qs
  induction qs with
  | nil => intro k j h; simp [lastPosFrom] at h
  | cons q qs ih =>
    intro k j h
    simp only [lastPosFrom] at h
    cases hl : lastPosFrom t (k + 1) qs with
    | some j0 =>
      rw [hl] at h
      have hj : j0 = j := by simpa using h
      subst hj
      obtain ⟨h1, h2, h3⟩ := ih (k + 1) j0 hl
      refine ⟨by omega, ?_, ?_⟩
      · have : j0 - k = (j0 - (k + 1)) + 1 := by omega
        rw [this, List.getElem?_cons_succ]; exact h2
      · intro j' hj'
        have : j' - k = (j' - (k + 1)) + 1 := by omega
        rw [this, List.getElem?_cons_succ]; exact h3 j' hj'
    | none =>
      rw [hl] at h
      by_cases hq : q = t
      · simp only [hq, if_true] at h
        have hj : k = j := by simpa using h
        subst hj
        refine ⟨Nat.le_refl _, by simp [hq], ?_⟩
        intro j' hj'
        have : j' - k = (j' - (k + 1)) + 1 := by omega
        rw [this, List.getElem?_cons_succ]
        exact lastPosFrom_none_aux t qs (k + 1) hl _
      · simp [hq] at h
theorem lastPosFrom_none (t : Nat) (qs : List Nat) (k : Nat) :
    lastPosFrom t k qs = none ↔ t ∉ qs := by
  induction qs generalizing k with
  | nil => simp [lastPosFrom]
  | cons q qs ih =>
    simp only [lastPosFrom, List.mem_cons, not_or]
    cases hl : lastPosFrom t (k + 1) qs with
    | some j0 =>
      have : ¬ t ∉ qs := fun hn => by rw [(ih (k + 1)).mpr hn] at hl; simp at hl
      simp [this]
    | none =>
      have hn := (ih (k + 1)).mp hl
      by_cases hq : q = t
      · simp [hq]
      · simp [hq, hn, Ne.symm hq]

/-! ### reader-derived shapes -/

theorem le_foldl_max (l : List Nat) (a : Nat) : a ≤ l.foldl max a := by
  induction l generalizing a with
  | nil => simp
  | cons x xs ih => simp only [List.foldl_cons]; exact Nat.le_trans (Nat.le_max_left a x) (ih _)

theorem le_foldl_max_of_mem (l : List Nat) (a x : Nat) (hx : x ∈ l) : x ≤ l.foldl max a := by
  induction l generalizing a with
  | nil => simp at hx
  | cons y ys ih =>
    simp only [List.foldl_cons]
    rcases List.mem_cons.mp hx with rfl | h
    · exact Nat.le_trans (Nat.le_max_right a x) (le_foldl_max ys _)
    · exact ih _ h

theorem le_maxL (l : List Nat) (x : Nat) (hx : x ∈ l) : x ≤ maxL l := le_foldl_max_of_mem l 0 x hx

theorem mem_unique (index : List Nat) (v : Nat) (hv : v ∈ index) : v ∈ unique index := by
  simp only [unique, List.mem_filter, List.mem_range, List.contains_iff_mem]
  exact ⟨Nat.lt_succ_of_le (le_foldl_max_of_mem index 0 v hv), hv⟩

theorem count_le_maxOcc (index : List Nat) (i : Nat) : index.count i ≤ maxOcc index := by
  by_cases hi : i ∈ index
  · exact le_maxL _ _ (List.mem_map.mpr ⟨i, mem_unique index i hi, rfl⟩)
  · simp [List.count_eq_zero_of_not_mem hi]

/-! ### maps that keep `none` (flattening a flagged element) -/

theorem selectData_mapNone {α β} (g : M α → M β) (hg : g none = none) (c : List (M α)) (ci : CIdx) :
    selectData (c.map g) ci = (selectData c ci).map g := by
  cases ci with
  | slice a b => simp [selectData, List.map_take, List.map_drop]
  | pos l =>
    simp only [selectData, List.map_map]
    apply List.map_congr_left
    intro k _
    simp only [Function.comp_def, List.getD_eq_getElem?_getD, List.getElem?_map]
    cases c[k]? <;> simp [hg]

theorem raggedRow_mapNone {α β} (g : M α → M β) (hg : g none = none) (n : Nat) (d : List (M α)) :
    raggedRow n (d.map g) = (raggedRow n d).map g := by
  simp [raggedRow, hg]

theorem assembleRows_mapNone {α β} (g : M α → M β) (hg : g none = none) (nrows ncols : Nat)
    (cis : List CIdx) (c : List (M α)) :
    assembleRows nrows ncols cis (c.map g) = (assembleRows nrows ncols cis c).map (List.map g) := by
  simp [assembleRows, selectData_mapNone g hg, raggedRow_mapNone g hg, Function.comp_def, hg]

theorem pack_map {α β} (g : M α → M β) : ∀ (cnt : List Nat) (rows : List (List (M α))),
    cnt.length = rows.length → pack cnt (rows.map (List.map g)) = (pack cnt rows).map g := by
  intro cnt
  induction cnt with
  | nil => intro rows h; cases rows <;> simp_all [pack, packFrom]
  | cons n ns ih =>
    intro rows h
    cases rows with
    | nil => simp at h
    | cons r rs =>
      simp only [List.map_cons, pack_cons, List.map_append, List.map_take]
      rw [ih rs (by simpa using h)]

/-! ### a row flagged up to a given count -/

/-- The first `n` elements wrapped as present, the rest missing. -/
def flagged {α} (n : Nat) (row : List (M α)) : List (M (M α)) :=
  (row.take n).map some ++ List.replicate (row.length - n) none

theorem flagged_length {α} (n : Nat) (row : List (M α)) (h : n ≤ row.length) :
    (flagged n row).length = row.length := by
  simp [flagged, Nat.min_eq_left h]; omega

theorem dropWhile_isNone_replicate {β} (k : Nat) (X : List (M β)) :
    (List.replicate k (none : M β) ++ X).dropWhile Option.isNone = X.dropWhile Option.isNone := by
  induction k with
  | zero => simp
  | succ k ih => simp [List.replicate_succ, ih]

theorem deriveCount_flagged {α} (n : Nat) (row : List (M α)) (h : n ≤ row.length) :
    deriveCount (flagged n row) = n := by
  simp only [deriveCount, flagged, List.reverse_append, List.reverse_replicate,
    dropWhile_isNone_replicate]
  have : ∀ (X : List (M α)), ((X.map some).reverse.dropWhile Option.isNone) = (X.map some).reverse := by
    intro X
    cases hX : (X.map some).reverse with
    | nil => simp
    | cons y ys =>
      have hy : y ∈ (X.map some) := by
        have : y ∈ (X.map some).reverse := by rw [hX]; simp
        simpa using this
      obtain ⟨x, _, rfl⟩ := List.mem_map.mp hy
      simp
  rw [this]
  simp [Nat.min_eq_left h]

/-- A row whose elements beyond `n` are all missing is the padding of its first `n` elements. -/
theorem raggedRow_take_ge {α} (row : List (M α)) (n : Nat) (h1 : deriveCount row ≤ n) :
    raggedRow row.length (row.take n) = row := by
  have hs := raggedRow_take_deriveCount row
  -- row = row.take d ++ replicate (len - d) none
  simp only [raggedRow, List.length_take] at hs ⊢
  have hd := deriveCount_le row
  rw [Nat.min_eq_left hd] at hs
  apply List.ext_getElem?
  intro j
  have hj := congrArg (fun l => l[j]?) hs
  simp only [List.getElem?_append, List.length_take, Nat.min_eq_left hd, List.getElem?_take,
    List.getElem?_replicate] at hj ⊢
  by_cases hjn : j < min n row.length
  · simp only [hjn, if_true]
    have : j < n := by omega
    simp [this]
  · simp only [hjn, if_false]
    by_cases hjl : j < row.length
    · have h3 : ¬ j < deriveCount row := by omega
      have h4 : j - min n row.length < row.length - min n row.length := by omega
      simp only [h3, if_false] at hj
      have h5 : j - deriveCount row < row.length - deriveCount row := by omega
      simp only [h5, if_true] at hj
      simp [h4, ← hj]
    · have h4 : ¬ j - min n row.length < row.length - min n row.length := by omega
      simp only [h4, if_false]
      exact (List.getElem?_eq_none (by omega)).symm

theorem flagged_join {α} (n : Nat) (row : List (M α)) (h1 : deriveCount row ≤ n) :
    (flagged n row).map Option.join = row := by
  have := raggedRow_take_ge row n h1
  simp only [raggedRow, List.length_take] at this
  simp only [flagged, List.map_append, List.map_map, List.map_replicate]
  have hid : (row.take n).map (Option.join ∘ some) = row.take n := by
    simp [Function.comp_def]
  rw [hid]
  by_cases hn : n ≤ row.length
  · rw [Nat.min_eq_left hn] at this; simpa using this
  · have h2 : row.length - n = 0 := by omega
    have h3 : row.take n = row := List.take_of_length_le (by omega)
    simp [h2, h3]

/-! ### the joint count -/

theorem zipWith_max_bounds (a b : List Nat) (m : Nat) (hlen : a.length = b.length)
    (ha : ∀ x ∈ a, x ≤ m) (hb : ∀ x ∈ b, x ≤ m) :
    (List.zipWith max a b).length = a.length ∧ (∀ x ∈ List.zipWith max a b, x ≤ m)
      ∧ ∀ i, a.getD i 0 ≤ (List.zipWith max a b).getD i 0 ∧ b.getD i 0 ≤ (List.zipWith max a b).getD i 0 := by
  refine ⟨by simp [hlen], ?_, ?_⟩
  · intro x hx
    obtain ⟨i, hi, rfl⟩ := List.getElem_of_mem hx
    simp only [List.length_zipWith] at hi
    simp only [List.getElem_zipWith]
    exact Nat.max_le.mpr ⟨ha _ (List.getElem_mem _), hb _ (List.getElem_mem _)⟩
  · intro i
    simp only [List.getD_eq_getElem?_getD, List.getElem?_zipWith]
    cases ha' : a[i]? with
    | none =>
      have h1 := List.getElem?_eq_none_iff.mp ha'
      have : b[i]? = none := List.getElem?_eq_none_iff.mpr (by omega)
      simp [this]
    | some x =>
      cases hb' : b[i]? with
      | none =>
        have := (List.getElem?_eq_some_iff.mp ha').1
        have := List.getElem?_eq_none_iff.mp hb'
        omega
      | some y => simp [Nat.le_max_left, Nat.le_max_right]

/-! ### compressing with given counts -/

/-- Counts that lose nothing of `rows` and fit the row length. -/
def CountsFit {α} (ncols : Nat) (cnt : List Nat) (rows : List (List (M α))) : Prop :=
  cnt.length = rows.length ∧ (∀ r ∈ rows, r.length = ncols) ∧ (∀ n ∈ cnt, n ≤ ncols)
    ∧ ∀ i, (rows.map deriveCount).getD i 0 ≤ cnt.getD i 0

def flaggedRows {α} (cnt : List Nat) (rows : List (List (M α))) : List (List (M (M α))) :=
  List.zipWith flagged cnt rows

theorem flaggedRows_count {α} (ncols : Nat) (cnt : List Nat) (rows : List (List (M α)))
    (h : CountsFit ncols cnt rows) : (flaggedRows cnt rows).map deriveCount = cnt := by
  obtain ⟨hlen, hrect, hm, _⟩ := h
  apply List.ext_getElem
  · simp [flaggedRows, hlen]
  · intro i h1 h2
    simp only [flaggedRows, List.getElem_map, List.getElem_zipWith]
    apply deriveCount_flagged
    rw [hrect _ (List.getElem_mem _)]
    exact hm _ (List.getElem_mem _)

theorem flaggedRows_join {α} (ncols : Nat) (cnt : List Nat) (rows : List (List (M α)))
    (h : CountsFit ncols cnt rows) : (flaggedRows cnt rows).map (List.map Option.join) = rows := by
  obtain ⟨hlen, _, _, hle⟩ := h
  apply List.ext_getElem
  · simp [flaggedRows, hlen]
  · intro i h1 h2
    simp only [flaggedRows, List.getElem_map, List.getElem_zipWith]
    apply flagged_join
    have := hle i
    have hi : i < cnt.length := by omega
    simpa [List.getD_eq_getElem?_getD, h2, hi] using this

theorem flaggedRows_rect {α} (ncols : Nat) (cnt : List Nat) (rows : List (List (M α)))
    (h : CountsFit ncols cnt rows) : ∀ r ∈ flaggedRows cnt rows, r.length = ncols := by
  obtain ⟨hlen, hrect, hm, _⟩ := h
  intro r hr
  obtain ⟨i, hi, rfl⟩ := List.getElem_of_mem hr
  simp only [flaggedRows, List.getElem_zipWith]
  have h1 := hrect _ (List.getElem_mem (by simp [flaggedRows] at hi; omega : i < rows.length))
  rw [flagged_length _ _ (by rw [h1]; exact hm _ (List.getElem_mem _)), h1]

theorem flaggedRows_length {α} (cnt : List Nat) (rows : List (List (M α)))
    (h : cnt.length = rows.length) : (flaggedRows cnt rows).length = rows.length := by
  simp [flaggedRows, h]

theorem pack_flagged {α} (ncols : Nat) (cnt : List Nat) (rows : List (List (M α)))
    (h : CountsFit ncols cnt rows) :
    pack cnt rows = (pack cnt (flaggedRows cnt rows)).map Option.join := by
  conv => lhs; rw [← flaggedRows_join ncols cnt rows h]
  exact pack_map Option.join cnt _ (by rw [flaggedRows_length _ _ h.1]; exact h.1)

/-- The foldl of `jointCount` keeps: length, bound, and dominance over every array seen. -/
theorem jointCount_fold {α} (nrows ncols : Nat) :
    ∀ (rest : List (List (List (M α)))) (cnt : List Nat),
      cnt.length = nrows → (∀ n ∈ cnt, n ≤ ncols) →
      (∀ b ∈ rest, b.length = nrows ∧ ∀ r ∈ b, r.length = ncols) →
      let R := rest.foldl (fun cnt b => List.zipWith max cnt (b.map deriveCount)) cnt
      R.length = nrows ∧ (∀ n ∈ R, n ≤ ncols) ∧ (∀ i, cnt.getD i 0 ≤ R.getD i 0)
        ∧ ∀ b ∈ rest, ∀ i, (b.map deriveCount).getD i 0 ≤ R.getD i 0 := by
  intro rest
  induction rest with
  | nil => intro cnt h1 h2 _; simp [h1]; exact h2
  | cons b bs ih =>
    intro cnt h1 h2 h3
    obtain ⟨hb1, hb2⟩ := h3 b (by simp)
    have hbm : ∀ x ∈ b.map deriveCount, x ≤ ncols := by
      intro x hx
      obtain ⟨r, hr, rfl⟩ := List.mem_map.mp hx
      exact hb2 r hr ▸ deriveCount_le r
    obtain ⟨z1, z2, z3⟩ := zipWith_max_bounds cnt (b.map deriveCount) ncols (by simp [h1, hb1]) h2 hbm
    obtain ⟨r1, r2, r3, r4⟩ := ih (List.zipWith max cnt (b.map deriveCount)) (by rw [z1, h1]) z2
      (fun x hx => h3 x (by simp [hx]))
    simp only [List.foldl_cons]
    refine ⟨r1, r2, fun i => Nat.le_trans (z3 i).1 (r3 i), ?_⟩
    intro x hx i
    rcases List.mem_cons.mp hx with rfl | hx
    · exact Nat.le_trans (z3 i).2 (r3 i)
    · exact r4 x hx i

theorem jointCount_fits {α} (nrows ncols : Nat) (arrays : List (List (List (M α))))
    (hrect : ∀ b ∈ arrays, b.length = nrows ∧ ∀ r ∈ b, r.length = ncols) :
    ∀ a ∈ arrays, CountsFit ncols (jointCount arrays) a := by
  cases arrays with
  | nil => intro a ha; simp at ha
  | cons a0 rest =>
    obtain ⟨h01, h02⟩ := hrect a0 (by simp)
    have hm0 : ∀ n ∈ a0.map deriveCount, n ≤ ncols := by
      intro x hx
      obtain ⟨r, hr, rfl⟩ := List.mem_map.mp hx
      exact h02 r hr ▸ deriveCount_le r
    obtain ⟨r1, r2, r3, r4⟩ := jointCount_fold nrows ncols rest (a0.map deriveCount) (by simp [h01]) hm0
      (fun b hb => hrect b (by simp [hb]))
    intro a ha
    obtain ⟨ha1, ha2⟩ := hrect a ha
    refine ⟨by simp only [jointCount]; rw [r1, ha1], ha2, r2, ?_⟩
    rcases List.mem_cons.mp ha with rfl | ha
    · exact r3
    · exact r4 a ha

/-! ### indexed contiguous: per-instance counts -/

/-- Per-instance counts that fit a 3-d array (instances of `maxProf` profiles of `nelem` elements). -/
inductive CountsFitIC {α} (maxProf nelem : Nat) : List (List Nat) → List (List (List (M α))) → Prop
  | nil : CountsFitIC maxProf nelem [] []
  | cons {cn inst cns insts} : inst.length = maxProf → CountsFit nelem cn inst →
      CountsFitIC maxProf nelem cns insts → CountsFitIC maxProf nelem (cn :: cns) (inst :: insts)

def flagged3 {α} (cnts : List (List Nat)) (a : List (List (List (M α)))) : List (List (List (M (M α)))) :=
  List.zipWith flaggedRows cnts a

theorem flagged3_props {α} (maxProf nelem : Nat) (cnts : List (List Nat)) (a : List (List (List (M α))))
    (h : CountsFitIC maxProf nelem cnts a) :
    (flagged3 cnts a).map (fun inst => inst.map deriveCount) = cnts
    ∧ (flagged3 cnts a).map (fun inst => inst.map (List.map Option.join)) = a
    ∧ (∀ inst ∈ flagged3 cnts a, inst.length = maxProf ∧ ∀ r ∈ inst, r.length = nelem)
    ∧ (flagged3 cnts a).length = a.length
    ∧ cnts.flatten.length = (flagged3 cnts a).flatten.length := by
  induction h with
  | nil => simp [flagged3]
  | @cons cn inst cns insts hl hfit _ ih =>
    obtain ⟨i1, i2, i3, i4, i5⟩ := ih
    simp only [flagged3, List.zipWith_cons_cons, List.map_cons, List.length_cons, List.flatten_cons,
      List.length_append] at *
    refine ⟨by rw [flaggedRows_count nelem cn inst hfit, i1], by rw [flaggedRows_join nelem cn inst hfit, i2],
      ?_, by rw [i4], ?_⟩
    · intro x hx
      rcases List.mem_cons.mp hx with rfl | hx
      · exact ⟨by rw [flaggedRows_length _ _ hfit.1, hl], flaggedRows_rect nelem cn inst hfit⟩
      · exact i3 x hx
    · rw [i5, flaggedRows_length _ _ hfit.1, hfit.1]

theorem pack_flagged3 {α} (maxProf nelem : Nat) (cnts : List (List Nat)) (a : List (List (List (M α))))
    (h : CountsFitIC maxProf nelem cnts a) :
    pack cnts.flatten a.flatten = (pack cnts.flatten (flagged3 cnts a).flatten).map Option.join := by
  obtain ⟨_, h2, _, _, h5⟩ := flagged3_props maxProf nelem cnts a h
  conv => lhs; rw [← h2]
  rw [← pack_map Option.join _ _ h5]
  congr 1
  simp [List.map_flatten]

end Cfdm.Ragged


namespace Cfdm.Ragged

/-! ### the joint counts of an indexed contiguous field fit every array -/

theorem countsFit_self {α} (ncols : Nat) (rows : List (List (M α))) (h : ∀ r ∈ rows, r.length = ncols) :
    CountsFit ncols (rows.map deriveCount) rows := by
  refine ⟨by simp, h, ?_, fun i => Nat.le_refl _⟩
  intro n hn
  obtain ⟨r, hr, rfl⟩ := List.mem_map.mp hn
  exact h r hr ▸ deriveCount_le r

theorem countsFit_zipMax {α} (ncols : Nat) (cn : List Nat) (inst binst : List (List (M α)))
    (h : CountsFit ncols cn inst) (hl : binst.length = inst.length) (hb : ∀ r ∈ binst, r.length = ncols) :
    CountsFit ncols (List.zipWith max cn (binst.map deriveCount)) inst
    ∧ CountsFit ncols (List.zipWith max cn (binst.map deriveCount)) binst := by
  obtain ⟨h1, h2, h3, h4⟩ := h
  have hbm : ∀ x ∈ binst.map deriveCount, x ≤ ncols := by
    intro x hx
    obtain ⟨r, hr, rfl⟩ := List.mem_map.mp hx
    exact hb r hr ▸ deriveCount_le r
  obtain ⟨z1, z2, z3⟩ := zipWith_max_bounds cn (binst.map deriveCount) ncols (by simp [h1, hl]) h3 hbm
  exact ⟨⟨by rw [z1, h1], h2, z2, fun i => Nat.le_trans (h4 i) (z3 i).1⟩,
         ⟨by rw [z1, h1, hl], hb, z2, fun i => (z3 i).2⟩⟩

/-- All instances have `maxProf` profiles of `nelem` elements. -/
def Rect3 {α} (maxProf nelem : Nat) (a : List (List (List (M α)))) : Prop :=
  ∀ inst ∈ a, inst.length = maxProf ∧ ∀ r ∈ inst, r.length = nelem

theorem countsFitIC_self {α} (maxProf nelem : Nat) (a : List (List (List (M α)))) (h : Rect3 maxProf nelem a) :
    CountsFitIC maxProf nelem (a.map (fun inst => inst.map deriveCount)) a := by
  induction a with
  | nil => exact .nil
  | cons inst rest ih =>
    obtain ⟨h1, h2⟩ := h inst (by simp)
    exact .cons h1 (countsFit_self nelem inst h2) (ih (fun x hx => h x (by simp [hx])))

theorem countsFitIC_step {α} (maxProf nelem : Nat) (cnts : List (List Nat)) (a : List (List (List (M α))))
    (h : CountsFitIC maxProf nelem cnts a) :
    ∀ (b : List (List (List (M α)))), b.length = a.length → Rect3 maxProf nelem b →
      CountsFitIC maxProf nelem
        (List.zipWith (List.zipWith max) cnts (b.map (fun inst => inst.map deriveCount))) a
      ∧ CountsFitIC maxProf nelem
        (List.zipWith (List.zipWith max) cnts (b.map (fun inst => inst.map deriveCount))) b := by
  induction h with
  | nil => intro b hl _; cases b with
    | nil => exact ⟨.nil, .nil⟩
    | cons _ _ => simp at hl
  | @cons cn inst cns insts hl1 hfit _ ih =>
    intro b hl hb
    cases b with
    | nil => simp at hl
    | cons binst brest =>
      obtain ⟨hb1, hb2⟩ := hb binst (by simp)
      obtain ⟨i1, i2⟩ := ih brest (by simpa using hl) (fun x hx => hb x (by simp [hx]))
      obtain ⟨f1, f2⟩ := countsFit_zipMax nelem cn inst binst hfit (by rw [hb1, hl1]) hb2
      simp only [List.map_cons, List.zipWith_cons_cons]
      exact ⟨.cons hl1 f1 i1, .cons hb1 f2 i2⟩

theorem jointCountIC_fold {α} (maxProf nelem n : Nat) :
    ∀ (rest : List (List (List (List (M α))))) (cnts : List (List Nat)) (seen : List (List (List (List (M α))))),
      (∀ a ∈ seen, a.length = n ∧ CountsFitIC maxProf nelem cnts a) → seen ≠ [] →
      (∀ b ∈ rest, b.length = n ∧ Rect3 maxProf nelem b) →
      ∀ a ∈ seen ++ rest, CountsFitIC maxProf nelem
        (rest.foldl (fun cnts b => List.zipWith (List.zipWith max) cnts (b.map (fun inst => inst.map deriveCount))) cnts) a := by
  intro rest
  induction rest with
  | nil => intro cnts seen hs _ _ a ha; simpa using (hs a (by simpa using ha)).2
  | cons b bs ih =>
    intro cnts seen hs hne hr a ha
    obtain ⟨hb1, hb2⟩ := hr b (by simp)
    simp only [List.foldl_cons]
    have hseen' : ∀ x ∈ seen ++ [b], x.length = n ∧ CountsFitIC maxProf nelem
        (List.zipWith (List.zipWith max) cnts (b.map (fun inst => inst.map deriveCount))) x := by
      intro x hx
      rcases List.mem_append.mp hx with hx | hx
      · obtain ⟨l, f⟩ := hs x hx
        exact ⟨l, (countsFitIC_step maxProf nelem cnts x f b (by rw [hb1, l]) hb2).1⟩
      · have : x = b := by simpa using hx
        subst this
        obtain ⟨y, hy⟩ := List.exists_mem_of_ne_nil seen hne
        obtain ⟨l, f⟩ := hs y hy
        exact ⟨hb1, (countsFitIC_step maxProf nelem cnts y f x (by rw [hb1, l]) hb2).2⟩
    have := ih _ (seen ++ [b]) hseen' (by simp) (fun x hx => hr x (by simp [hx])) a
      (by simpa [List.append_assoc] using ha)
    exact this

theorem jointCountIC_fits {α} (maxProf nelem n : Nat) (arrays : List (List (List (List (M α)))))
    (h : ∀ a ∈ arrays, a.length = n ∧ Rect3 maxProf nelem a) :
    ∀ a ∈ arrays, CountsFitIC maxProf nelem (jointCountIC arrays) a := by
  cases arrays with
  | nil => intro a ha; simp at ha
  | cons a0 rest =>
    obtain ⟨h01, h02⟩ := h a0 (by simp)
    intro a ha
    simp only [jointCountIC]
    exact jointCountIC_fold maxProf nelem n rest _ [a0]
      (by intro x hx; have : x = a0 := by simpa using hx
          subst this; exact ⟨h01, countsFitIC_self maxProf nelem x h02⟩)
      (by simp) (fun b hb => h b (by simp [hb])) a (by simpa using ha)

end Cfdm.Ragged
