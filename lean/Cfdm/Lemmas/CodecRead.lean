import Cfdm.Lemmas.CodecEmit
/-
C01: the reader applied to the file written for a well-formed stage-A field.
-/
namespace Cfdm.Codec

theorem getLast?_of_all_eq {α} {l : List α} {e : α} (hne : l ≠ []) (h : ∀ x ∈ l, x = e) : l.getLast? = some e := by
  obtain ⟨ys, y, rfl⟩ : ∃ ys y, l = ys ++ [y] := by
    rcases List.eq_nil_or_concat l with h | ⟨ys, y, h⟩
    · exact absurd h hne
    · exact ⟨ys, y, by simpa using h⟩
  rw [List.getLast?_eq_some_iff]
  exact ⟨ys, by rw [h y (by simp)]⟩

/-- The key renaming of the domain axes: the netCDF dimension of an axis, or the name of its
scalar coordinate variable (the map the writer uses for the cell methods). -/
def piOf (f : MField) (names : List (Slot × String)) : Key → Key := cmAxisName f names (wfAx f)

/-- The key renaming of the metadata constructs: their netCDF variable names. -/
def kappaOf (names : List (Slot × String)) : Key → Key := fun k => nameOf names (.con k)

section
variable {o : Opts} {f : MField} {names : List (Slot × String)} (hwf : WFFieldB f) (hg : GoodNames f (wfAx f) names)
include hwf

omit hwf in
theorem mem_scalarAuxOn {a : Key} {x : Entry} :
    x ∈ (sortEntries (f.ofType .aux)).filter (fun e => auxIsScalar (wfAx f).dataLocal e && e.axes == [a]) ↔
      x ∈ f.cons ∧ x.con.ctype = .aux ∧ x.axes = [a] ∧ a ∉ f.dataAxes := by
  simp only [List.mem_filter, mem_sortEntries, mem_ofType, Bool.and_eq_true, beq_iff_eq]
  constructor
  · rintro ⟨⟨h1, h2⟩, h3, h4⟩
    refine ⟨h1, h2, h4, ?_⟩
    unfold auxIsScalar at h3
    rw [h4] at h3
    simpa [wfAx] using h3
  · rintro ⟨h1, h2, h3, h4⟩
    refine ⟨⟨h1, h2⟩, ?_, h3⟩
    unfold auxIsScalar
    rw [h3]
    simpa [wfAx] using h4

omit hwf in
theorem dataAxis_slot {a : Key} (had : a ∈ f.dataAxes) : ∃ s, dimSlot f a = some s := by
  unfold dimSlot wfRole
  cases f.dimCoordOf a <;> simp [had]

theorem pi_data {a : Key} (ha : a ∈ f.axisKeys) (had : a ∈ f.dataAxes) {s : Slot} (hs : dimSlot f a = some s) :
    piOf f names a = nameOf names s := by
  unfold piOf cmAxisName
  have hnil : (sortEntries (f.ofType .aux)).filter (fun e => auxIsScalar (wfAx f).dataLocal e && e.axes == [a]) = [] := by
    rw [List.filter_eq_nil_iff]
    intro x hx hp
    have := (mem_scalarAuxOn.mp (List.mem_filter.mpr ⟨hx, hp⟩)).2.2.2
    exact this had
  rw [hnil]
  simp only [List.getLast?_nil]
  rw [axisDim_wf ha, hs, roleOf_wfAx ha]
  unfold dimSlot at hs
  cases hr : wfRole f a with
  | coordVar e => simp
  | plain => simp
  | scalarDim e => rw [hr] at hs; cases hs
  | none => rw [hr] at hs; cases hs

theorem pi_scalarDim {a : Key} (ha : a ∈ f.axisKeys) (had : a ∉ f.dataAxes) {e : Entry} (hdc : f.dimCoordOf a = some e) :
    piOf f names a = nameOf names (.con e.key) := by
  unfold piOf cmAxisName
  obtain ⟨hmem, hty, hax⟩ := dimCoordOf_some hdc
  have hsp := (span_outside hwf had hmem (by rw [hax]; exact List.mem_singleton_self a)).2.1
  have hnil : (sortEntries (f.ofType .aux)).filter (fun e => auxIsScalar (wfAx f).dataLocal e && e.axes == [a]) = [] := by
    rw [List.filter_eq_nil_iff]
    intro x hx hp
    obtain ⟨h1, h2, h3, _⟩ := mem_scalarAuxOn.mp (List.mem_filter.mpr ⟨hx, hp⟩)
    have : x ∈ f.spanning a := mem_spanning.mpr ⟨h1, by rw [h3]; exact List.mem_singleton_self a⟩
    rw [hsp] at this
    simp at this
    rw [this, hty] at h2
    cases h2
  rw [hnil]
  simp only [List.getLast?_nil]
  rw [roleOf_wfAx ha]
  unfold wfRole
  rw [hdc]
  simp [had]

theorem pi_scalarAux {a : Key} (had : a ∉ f.dataAxes) {e : Entry} (he : e ∈ f.cons) (hty : e.con.ctype = .aux)
    (hax : e.axes = [a]) : piOf f names a = nameOf names (.con e.key) := by
  unfold piOf cmAxisName
  have hsp := (span_outside hwf had he (by rw [hax]; exact List.mem_singleton_self a)).2.1
  have hl : ((sortEntries (f.ofType .aux)).filter (fun e => auxIsScalar (wfAx f).dataLocal e && e.axes == [a])).getLast? = some e := by
    apply getLast?_of_all_eq
    · intro hnil
      have : e ∈ (sortEntries (f.ofType .aux)).filter (fun e => auxIsScalar (wfAx f).dataLocal e && e.axes == [a]) :=
        mem_scalarAuxOn.mpr ⟨he, hty, hax, had⟩
      rw [hnil] at this
      cases this
    · intro x hx
      obtain ⟨h1, _, h3, _⟩ := mem_scalarAuxOn.mp hx
      have : x ∈ f.spanning a := mem_spanning.mpr ⟨h1, by rw [h3]; exact List.mem_singleton_self a⟩
      rw [hsp] at this
      simpa using this
  rw [hl]

theorem dimsOf_data {axes : List Key} (h : ∀ a ∈ axes, a ∈ f.dataAxes) :
    dimsOf names (wfAx f).roles axes = axes.map (piOf f names) := by
  unfold dimsOf
  apply List.map_congr_left
  intro a ha
  have had := h a ha
  have hak := hwf.2.2.2.1 a had
  obtain ⟨s, hs⟩ := dataAxis_slot had
  rw [axisDim_wf hak, hs, pi_data hwf hak had hs]
  rfl

/-- The axes of a construct that is not written as a scalar coordinate are data axes. -/
theorem axes_data {e : Entry} (he : e ∈ f.cons) (hns : ¬ (∃ a, e.axes = [a] ∧ a ∉ f.dataAxes)) :
    ∀ a ∈ e.axes, a ∈ f.dataAxes := by
  obtain ⟨_, _, hspan⟩ := wf_entry hwf he
  rcases hspan with h | ⟨hlen, h⟩
  · exact h
  · exfalso
    apply hns
    match hm : e.axes, hlen with
    | [a], _ => exact ⟨a, rfl, (h a (by rw [hm]; exact List.mem_singleton_self a)).1⟩

omit hwf in
theorem auxIsScalar_iff {e : Entry} : auxIsScalar f.dataAxes e = true ↔ ∃ a, e.axes = [a] ∧ a ∉ f.dataAxes := by
  unfold auxIsScalar
  match hm : e.axes with
  | [] => simp
  | [a] => simp
  | _ :: _ :: _ => simp

/-- The netCDF dimensions of every construct's variable. -/
theorem cdimsOf_wf {e : Entry} (he : e ∈ f.cons) :
    cdimsOf names (wfAx f) e = if auxIsScalar f.dataAxes e then [] else e.axes.map (piOf f names) := by
  obtain ⟨hs, hc, hspan⟩ := wf_entry hwf he
  by_cases hsc' : auxIsScalar f.dataAxes e = true
  · rw [if_pos hsc']
    obtain ⟨a, hax, had⟩ := auxIsScalar_iff.mp hsc'
    have hak : a ∈ f.axisKeys := hs.2.2.1 a (by rw [hax]; exact List.mem_singleton_self a)
    obtain ⟨_, _, hty⟩ := span_outside hwf had he (by rw [hax]; exact List.mem_singleton_self a)
    unfold cdimsOf
    rcases hty with ⟨hty, _⟩ | ⟨hty, _⟩
    · rw [hty, hax]
      simp only
      rw [roleOf_wfAx hak]
      have hdc := (hc.2.2 hty).2 a (by rw [hax]; exact List.mem_singleton_self a)
      unfold wfRole
      rw [hdc]
      simp [had]
    · rw [hty]
      simp only
      unfold auxIsScalar
      rw [hax]
      simp [wfAx, had]
  · rw [if_neg hsc']
    have hsc : ¬ ∃ a, e.axes = [a] ∧ a ∉ f.dataAxes := fun h => hsc' (auxIsScalar_iff.mpr h)
    have hall := axes_data hwf he hsc
    unfold cdimsOf
    cases hty : e.con.ctype with
    | dim =>
      simp only
      obtain ⟨a, hax, hak, hdc⟩ := wf_dim hwf he hty
      rw [hax]
      simp only
      have had : a ∈ f.dataAxes := hall a (by rw [hax]; exact List.mem_singleton_self a)
      rw [roleOf_wfAx hak]
      unfold wfRole
      rw [hdc]
      simp only [List.contains_eq_mem, had, decide_true, ↓reduceIte, List.map_cons, List.map_nil]
      have hs' : dimSlot f a = some (.con e.key) := by
        unfold dimSlot wfRole; rw [hdc]; simp [had]
      rw [pi_data hwf hak had hs']
    | aux =>
      simp only
      have : auxIsScalar (wfAx f).dataLocal e = false := by
        unfold auxIsScalar
        match hm : e.axes with
        | [a] =>
          have : a ∈ f.dataAxes := hall a (by rw [hm]; exact List.mem_singleton_self a)
          simp [wfAx, this]
        | [] => rfl
        | _ :: _ :: _ => rfl
      rw [this]
      simp only [Bool.false_eq_true, ↓reduceIte]
      exact dimsOf_data hwf hall
    | msr => simp only; exact dimsOf_data hwf hall
    | fan => simp only; exact dimsOf_data hwf hall
    | dan => simp only; exact dimsOf_data hwf hall

end

end Cfdm.Codec

namespace Cfdm.Codec

def bstrip (b : MBounds) : MBounds := { b with ncvar := none, ncdim := none, nverts := 0 }

theorem strip_eq {c d : MConstruct} (h1 : c.ctype = d.ctype) (h2 : c.props = d.props) (h3 : c.data = d.data)
    (h4 : c.bounds.map bstrip = d.bounds.map bstrip) (h5 : c.climatology = d.climatology)
    (h6 : c.measure = d.measure) (h7 : c.external = d.external) : c.strip = d.strip := by
  cases c; cases d
  simp only at h1 h2 h3 h4 h5 h6 h7
  subst h1 h2 h3 h5 h6 h7
  unfold MConstruct.strip
  simp only [MConstruct.mk.injEq, true_and, and_true]
  exact h4

theorem arr_eta (d : Option ArrRef) : (d.map (·.id)).map (fun id => (⟨id, (d.map (·.isStr)).getD false⟩ : ArrRef)) = d := by
  cases d with
  | none => rfl
  | some x => cases x; rfl

section
variable {o : Opts} {f : MField} {names : List (Slot × String)} (hwf : WFFieldB f) (hg : GoodNames f (wfAx f) names)
include hwf hg

/-- What the reader makes of the bounds `b` of `e`. -/
def rdBounds (o : Opts) (f : MField) (names : List (Slot × String)) (e : Entry) (b : MBounds) : MBounds :=
  { props := b.props
    ncvar := some (nameOf names (.bvar e.key))
    ncdim := if (cdimsOf names (wfAx f) e).contains (nameOf names (.bdim e.key)) then none
             else some (nameOf names (.bdim e.key))
    data := b.data
    nverts := (((wfFile o f names).dim? (nameOf names (.bdim e.key))).map (·.size)).getD 0 }

/-- `_check_bounds` accepts the bounds variable of a construct of the written file, whatever variable
`v` on the construct's dimensions stands for the construct. -/
theorem readBoundsVar_exact {e : Entry} (he : e ∈ f.cons) {b : MBounds} (hb : e.con.bounds = some b)
    (v : NcVar) (hv : v.dims = cdimsOf names (wfAx f) e) :
    readBoundsVar (wfFile o f names) v (boundsVar names e (cdimsOf names (wfAx f) e) b) = some (rdBounds o f names e b) := by
  unfold readBoundsVar rdBounds
  have hdims : (boundsVar names e (cdimsOf names (wfAx f) e) b).dims = cdimsOf names (wfAx f) e ++ [nameOf names (.bdim e.key)] := rfl
  rw [hdims, hv]
  have hlen : ((cdimsOf names (wfAx f) e ++ [nameOf names (Slot.bdim e.key)]).length == (cdimsOf names (wfAx f) e).length + 1
      && List.take (cdimsOf names (wfAx f) e).length (cdimsOf names (wfAx f) e ++ [nameOf names (Slot.bdim e.key)]) == cdimsOf names (wfAx f) e) = true := by
    simp
  rw [if_pos hlen]
  have hlast : (cdimsOf names (wfAx f) e ++ [nameOf names (Slot.bdim e.key)]).getLast? = some (nameOf names (Slot.bdim e.key)) := by
    simp
  rw [hlast]
  have hdata : (boundsVar names e (cdimsOf names (wfAx f) e) b).data = some b.data.id := rfl
  rw [hdata]
  simp only
  have hattrs : (boundsVar names e (cdimsOf names (wfAx f) e) b).attrs = b.props := by
    unfold boundsVar
    simp only
    rw [List.filter_eq_self]
    intro p hp
    obtain ⟨_, hco, _⟩ := wf_entry hwf he
    have := hco.2.1 b (by rw [hb]; simp) p hp
    simp only [Bool.not_eq_true', Bool.and_eq_false_iff]
    by_cases h1 : omitBoundsProps.contains p.1 = true
    · right
      by_contra h2
      exact this ⟨h1, by simpa using h2⟩
    · left; simpa using h1
  have hstr : (boundsVar names e (cdimsOf names (wfAx f) e) b).isStr = b.data.isStr := rfl
  have hname : (boundsVar names e (cdimsOf names (wfAx f) e) b).name = nameOf names (.bvar e.key) := rfl
  rw [hattrs, hstr, hname]

/-- Reading the bounds of a coordinate variable of the written file, exactly. -/
theorem readBounds_exact {e : Entry} (he : e ∈ f.cons) (hc : isCoord e = true) :
    readBounds (wfFile o f names) (coordVar f names e (cdimsOf names (wfAx f) e)) =
      e.con.bounds.map (rdBounds o f names e) := by
  unfold readBounds
  have hbn : boundsAttr (coordVar f names e (cdimsOf names (wfAx f) e))
      = e.con.bounds.map (fun _ => nameOf names (.bvar e.key)) := by
    unfold boundsAttr coordVar
    simp only
    by_cases hcl : isClim f e = true <;> cases e.con.bounds <;> simp [hcl]
  rw [hbn]
  cases hb : e.con.bounds with
  | none => rfl
  | some b =>
    simp only [Option.map_some, Option.bind_some]
    rw [var_bvar hwf hg he (isBounded_of_isCoord hc) hb]
    simp only [Option.bind_some]
    exact readBoundsVar_exact hwf hg he hb _ rfl

/-- Reading the bounds of a coordinate variable of the written file. -/
theorem readBounds_main {e : Entry} (he : e ∈ f.cons) (hc : isCoord e = true) :
    (readBounds (wfFile o f names) (coordVar f names e (cdimsOf names (wfAx f) e))).map bstrip = e.con.bounds.map bstrip := by
  rw [readBounds_exact hwf hg he hc]
  cases e.con.bounds with
  | none => rfl
  | some b => rfl

/-- Reading a coordinate variable of the written file gives the coordinate back, up to names. -/
theorem readCoord_main {e : Entry} (he : e ∈ f.cons) (hc : isCoord e = true) :
    (readCoord (wfFile o f names) e.con.ctype (coordVar f names e (cdimsOf names (wfAx f) e))).strip = e.con.strip := by
  obtain ⟨hs, hco, _⟩ := wf_entry hwf he
  have hb := readBounds_main (o := o) hwf hg he hc
  have hty : e.con.ctype = .dim ∨ e.con.ctype = .aux := by
    unfold isCoord at hc
    cases ht : e.con.ctype <;> simp [ht] at hc <;> simp
  apply strip_eq
  · rfl
  · rfl
  · exact arr_eta e.con.data
  · exact hb
  · -- climatology
    have hcl := hco.1 hty
    rw [hcl]
    unfold readCoord
    simp only
    have hsome : (readBounds (wfFile o f names) (coordVar f names e (cdimsOf names (wfAx f) e))).isSome = e.con.bounds.isSome := by
      have := congrArg Option.isSome hb
      simpa using this
    rw [hsome]
    unfold coordVar
    simp only
    by_cases hcl : isClim f e = true <;> cases e.con.bounds <;> simp [hcl]
  · -- measure
    have : e.con.measure = none := by
      cases hm : e.con.measure with
      | none => rfl
      | some m =>
        have := hs.2.2.2.2.2.1.mp (by rw [hm]; rfl)
        rcases hty with h | h <;> rw [h] at this <;> cases this
    rw [this]
    rfl
  · exact hs.2.2.2.2.1.symm

end

end Cfdm.Codec

namespace Cfdm.Codec

/-- What the reader makes of the construct `e` (its content; names are those of the file). -/
def rdCon (o : Opts) (f : MField) (names : List (Slot × String)) (e : Entry) : MConstruct :=
  match e.con.ctype with
  | .dim => readCoord (wfFile o f names) .dim (mainVar f names (wfAx f) e)
  | .aux => readCoord (wfFile o f names) .aux (mainVar f names (wfAx f) e)
  | .msr => { ctype := .msr, props := e.con.props, ncvar := some (nameOf names (.con e.key)), data := e.con.data,
              measure := some (e.con.measure.getD "") }
  | .fan => { ctype := .fan, props := e.con.props, ncvar := some (nameOf names (.con e.key)), data := e.con.data }
  | .dan => danCon (wfFile o f names) (nameOf names (.con e.key)) (mainVar f names (wfAx f) e)
              (e.con.bounds.map (fun _ => nameOf names (.bvar e.key)))

def rd (o : Opts) (f : MField) (names : List (Slot × String)) (e : Entry) : Entry :=
  (nameOf names (.con e.key), rdCon o f names e, e.axes.map (piOf f names))

section
variable {o : Opts} {f : MField} {names : List (Slot × String)} (hwf : WFFieldB f) (hg : GoodNames f (wfAx f) names)
include hwf hg

theorem rdCon_strip {e : Entry} (he : e ∈ f.cons) : (rdCon o f names e).strip = e.con.strip := by
  obtain ⟨hs, _, _⟩ := wf_entry hwf he
  unfold rdCon
  cases ht : e.con.ctype with
  | dim =>
    simp only
    have hc : isCoord e = true := by simp [isCoord, ht]
    have := readCoord_main (o := o) hwf hg he hc
    rw [ht] at this
    unfold mainVar; rw [ht]; exact this
  | aux =>
    simp only
    have hc : isCoord e = true := by simp [isCoord, ht]
    have := readCoord_main (o := o) hwf hg he hc
    rw [ht] at this
    unfold mainVar; rw [ht]; exact this
  | msr =>
    simp only
    obtain ⟨hb, hcl⟩ := hs.2.2.2.2.2.2 (Or.inl ht)
    apply strip_eq
    · exact ht.symm
    · rfl
    · rfl
    · rw [hb]
    · exact hcl.symm
    · have := hs.2.2.2.2.2.1.mpr ht
      cases hm : e.con.measure with
      | none => simp [hm] at this
      | some m => rfl
    · exact hs.2.2.2.2.1.symm
  | fan =>
    simp only
    obtain ⟨hb, hcl⟩ := hs.2.2.2.2.2.2 (Or.inr ht)
    apply strip_eq
    · exact ht.symm
    · rfl
    · rfl
    · rw [hb]
    · exact hcl.symm
    · cases hm : e.con.measure with
      | none => rfl
      | some m =>
        have := hs.2.2.2.2.2.1.mp (by rw [hm]; rfl)
        simp [ht] at this
    · exact hs.2.2.2.2.1.symm
  | dan =>
    simp only
    have hwd := hwf.2.2.2.2.2.2.1 e he ht
    have hmv : mainVar f names (wfAx f) e = plainVar names e (cdimsOf names (wfAx f) e) := by unfold mainVar; rw [ht]
    unfold danCon
    apply strip_eq
    · exact ht.symm
    · rw [hmv]; rfl
    · rw [hmv]; exact arr_eta e.con.data
    · simp only
      cases hb : e.con.bounds with
      | none =>
        simp only [Option.map_none]
        rw [hmv]
        rfl
      | some b =>
        simp only [Option.map_some]
        rw [var_bvar hwf hg he (by simp [isBounded, ht]) hb]
        simp only [Option.bind_some]
        rw [readBoundsVar_exact hwf hg he hb _ (by rw [hmv]; rfl)]
        rfl
    · exact hwd.1.symm
    · cases hm : e.con.measure with
      | none => rfl
      | some m =>
        have := hs.2.2.2.2.2.1.mp (by rw [hm]; rfl)
        rw [ht] at this; cases this
    · exact hs.2.2.2.2.1.symm

theorem rd_ren {e : Entry} (he : e ∈ f.cons) :
    renEntry id id (rd o f names e) = renEntry (piOf f names) (kappaOf names) e := by
  unfold renEntry rd kappaOf
  simp only [id, List.map_id', Entry.key, Entry.con, Entry.axes]
  have := rdCon_strip (o := o) hwf hg he
  unfold Entry.con at this
  rw [this]
  simp

/-- The name of a construct's variable is not a dimension of the data variable, unless the
construct is the dimension coordinate of a data axis. -/
theorem not_in_dims {e : Entry} (he : e ∈ f.cons) (h : ∀ a ∈ f.dataAxes, f.dimCoordOf a ≠ some e) :
    nameOf names (.con e.key) ∉ f.dataAxes.map (piOf f names) := by
  intro hm
  obtain ⟨a, had, heq⟩ := List.mem_map.mp hm
  have hak := hwf.2.2.2.1 a had
  obtain ⟨s, hs⟩ := dataAxis_slot had
  rw [pi_data hwf hak had hs] at heq
  obtain ⟨hsm, hsb⟩ := dimSlot_mem hwf hg hak hs
  have hss : s = Slot.con e.key := hg.nameOf_inj hsm (slot_con hwf hg he) heq (Or.inl hsb)
  subst hss
  unfold dimSlot wfRole at hs
  cases hdc : f.dimCoordOf a with
  | none => rw [hdc] at hs; simp [had] at hs
  | some e' =>
    rw [hdc] at hs
    simp [had] at hs
    have := wf_keys_inj hwf (dimCoordOf_some hdc).1 he hs
    rw [this] at hdc
    exact h a had hdc

omit hg in
theorem dataVar_dims : (dataVar o f (wfAx f) names).dims = f.dataAxes.map (piOf f names) := by
  unfold dataVar
  simp only
  exact dimsOf_data hwf (fun a ha => ha)

omit hg in
theorem not_scalar_of_type {e : Entry} (he : e ∈ f.cons) (ht : e.con.ctype = .msr ∨ e.con.ctype = .fan) :
    auxIsScalar f.dataAxes e = false := by
  by_contra h
  have h : auxIsScalar f.dataAxes e = true := by simpa using h
  obtain ⟨a, hax, had⟩ := auxIsScalar_iff.mp h
  obtain ⟨_, _, hty⟩ := span_outside hwf had he (by rw [hax]; exact List.mem_singleton_self a)
  rcases hty with ⟨h1, _⟩ | ⟨h1, _⟩ <;> rcases ht with h2 | h2 <;> rw [h1] at h2 <;> cases h2

/-- The dimension coordinate of a data axis, read back from its coordinate variable. -/
theorem dimEntry_data {a : Key} (had : a ∈ f.dataAxes) :
    dimEntry (wfFile o f names) (piOf f names a) = (f.dimCoordOf a).map (rd o f names) := by
  have hak := hwf.2.2.2.1 a had
  unfold dimEntry NcFile.coordVar?
  cases hdc : f.dimCoordOf a with
  | none =>
    have hr : wfRole f a = .plain := by unfold wfRole; rw [hdc]; simp [had]
    have hs : dimSlot f a = some (.axis a) := by unfold dimSlot; rw [hr]
    rw [pi_data hwf hak had hs, var_axis hwf hg hak hr]
    rfl
  | some e =>
    obtain ⟨hmem, hty, hax⟩ := dimCoordOf_some hdc
    have hs : dimSlot f a = some (.con e.key) := by unfold dimSlot wfRole; rw [hdc]; simp [had]
    have hpi := pi_data (names := names) hwf hak had hs
    rw [hpi, var_con hwf hg hmem]
    have hns : auxIsScalar f.dataAxes e = false := by
      unfold auxIsScalar; rw [hax]; simp [had]
    have hcd := cdimsOf_wf (names := names) hwf hmem
    rw [hns] at hcd
    simp only [Bool.false_eq_true, ↓reduceIte] at hcd
    have hdims : (mainVar f names (wfAx f) e).dims = [nameOf names (.con e.key)] := by
      unfold mainVar; rw [hty]; simp only [coordVar]; rw [hcd, hax]; simp [hpi]
    simp only [hdims, beq_self_eq_true, ↓reduceIte, Option.map_some]
    unfold rd rdCon
    rw [hty, hax, mainVar_name]
    simp [hpi]

end

end Cfdm.Codec

namespace Cfdm.Codec

/-- The `coordinates` token the loop over the axes contributes for one axis. -/
def roleToken (o : Opts) (names : List (Slot × String)) (ar : Key × Role) : Option String :=
  match ar.2 with
  | .coordVar e => if o.coordinates then some (nameOf names (.con e.key)) else none
  | .scalarDim e => some (nameOf names (.con e.key))
  | _ => none

/-- The scalar dimension coordinate of an axis. -/
def scalarOf (ar : Key × Role) : Option Entry :=
  match ar.2 with
  | .scalarDim e => some e
  | _ => none

section
variable {o : Opts} {f : MField} {names : List (Slot × String)} (hwf : WFFieldB f) (hg : GoodNames f (wfAx f) names)
include hwf hg

/-- Facts about the role of an axis. -/
theorem role_coordVar {a : Key} {e : Entry} (hr : wfRole f a = .coordVar e) : a ∈ f.dataAxes ∧ f.dimCoordOf a = some e := by
  unfold wfRole at hr
  cases hdc : f.dimCoordOf a with
  | none => rw [hdc] at hr; by_cases hd : a ∈ f.dataAxes <;> simp [hd] at hr
  | some e' =>
    rw [hdc] at hr
    by_cases hd : a ∈ f.dataAxes
    · simp [hd] at hr; exact ⟨hd, by rw [hr]⟩
    · simp [hd] at hr

theorem role_scalarDim {a : Key} {e : Entry} (hr : wfRole f a = .scalarDim e) : a ∉ f.dataAxes ∧ f.dimCoordOf a = some e := by
  unfold wfRole at hr
  cases hdc : f.dimCoordOf a with
  | none => rw [hdc] at hr; by_cases hd : a ∈ f.dataAxes <;> simp [hd] at hr
  | some e' =>
    rw [hdc] at hr
    by_cases hd : a ∈ f.dataAxes
    · simp [hd] at hr
    · simp [hd] at hr; exact ⟨hd, by rw [hr]⟩

/-- A construct alone on a size-1 axis outside the data: its variable is a scalar coordinate variable
which the reader finds through the `coordinates` token. -/
theorem tokenVar_scalar {a : Key} (had : a ∉ f.dataAxes) {e : Entry} (he : e ∈ f.cons) (hax : e.axes = [a]) :
    tokenVar (wfFile o f names) (dataVar o f (wfAx f) names).dims (nameOf names (.con e.key))
      = some (mainVar f names (wfAx f) e) ∧ (mainVar f names (wfAx f) e).dims = [] := by
  have hsc : auxIsScalar f.dataAxes e = true := auxIsScalar_iff.mpr ⟨a, hax, had⟩
  have hcd := cdimsOf_wf (names := names) hwf he
  rw [hsc] at hcd
  simp only [↓reduceIte] at hcd
  have hdims : (mainVar f names (wfAx f) e).dims = [] := by
    unfold mainVar; cases e.con.ctype <;> simp only [coordVar, plainVar] <;> exact hcd
  refine ⟨?_, hdims⟩
  unfold tokenVar
  rw [dataVar_dims hwf]
  have hnot : nameOf names (.con e.key) ∉ f.dataAxes.map (piOf f names) := by
    apply not_in_dims hwf hg he
    intro a' ha' hdc
    have := (dimCoordOf_some hdc).2.2
    rw [hax] at this
    injection this with h _
    exact had (h ▸ ha')
  have hc : (f.dataAxes.map (piOf f names)).contains (nameOf names (.con e.key)) = false := by simpa using hnot
  rw [hc, var_con hwf hg he]
  simp [hdims, subset]

theorem roleToken_var {ar : Key × Role} (har : ar ∈ (wfAx f).roles) :
    (roleToken o names ar).bind (tokenVar (wfFile o f names) (dataVar o f (wfAx f) names).dims)
      = (scalarOf ar).map (mainVar f names (wfAx f)) := by
  obtain ⟨hak, hr⟩ := mem_roles_wfAx.mp har
  unfold roleToken scalarOf
  cases hrr : ar.2 with
  | coordVar e =>
    simp only
    rw [hrr] at hr
    obtain ⟨had, hdc⟩ := role_coordVar hwf hg hr.symm
    by_cases hco : o.coordinates = true
    · simp only [hco, ↓reduceIte, Option.bind_some, Option.map_none]
      unfold tokenVar
      rw [dataVar_dims hwf]
      have hs : dimSlot f ar.1 = some (.con e.key) := by unfold dimSlot; rw [← hr]
      have : nameOf names (.con e.key) ∈ f.dataAxes.map (piOf f names) :=
        List.mem_map.mpr ⟨ar.1, had, pi_data hwf hak had hs⟩
      have hc : (f.dataAxes.map (piOf f names)).contains (nameOf names (.con e.key)) = true := by simpa using this
      rw [hc]; rfl
    · simp [hco]
  | scalarDim e =>
    simp only [Option.bind_some, Option.map_some]
    rw [hrr] at hr
    obtain ⟨had, hdc⟩ := role_scalarDim hwf hg hr.symm
    obtain ⟨hmem, _, hax⟩ := dimCoordOf_some hdc
    exact (tokenVar_scalar hwf hg had hmem hax).1
  | plain => rfl
  | none => rfl

omit hwf hg in
theorem mainVar_isStr {e : Entry} : (mainVar f names (wfAx f) e).isStr = (e.con.data.map (·.isStr)).getD false := by
  unfold mainVar; cases e.con.ctype <;> rfl

/-- The entry the reader makes from the variable of an auxiliary coordinate or of a scalar
coordinate is the construct read back. -/
theorem varEntry_main {e : Entry} (he : e ∈ f.cons) (h : e.con.ctype = .aux ∨ auxIsScalar f.dataAxes e = true) :
    varEntry (wfFile o f names) (mainVar f names (wfAx f) e) = rd o f names e := by
  obtain ⟨hs, _, _⟩ := wf_entry hwf he
  have hcd := cdimsOf_wf (names := names) hwf he
  have hdims : (mainVar f names (wfAx f) e).dims = cdimsOf names (wfAx f) e := by
    unfold mainVar; cases e.con.ctype <;> rfl
  unfold varEntry rd
  rw [mainVar_name, mainVar_isStr, hdims, hcd]
  by_cases hsc : auxIsScalar f.dataAxes e = true
  · obtain ⟨a, hax, had⟩ := auxIsScalar_iff.mp hsc
    obtain ⟨_, _, hty⟩ := span_outside hwf had he (by rw [hax]; exact List.mem_singleton_self a)
    simp only [hsc, ↓reduceIte, List.isEmpty_nil]
    rcases hty with ⟨hty, hst⟩ | ⟨hty, hst⟩
    · have hdc : f.dimCoordOf a = some e := by
        obtain ⟨a', h1, _, h3⟩ := wf_dim hwf he hty
        rw [hax] at h1; injection h1 with h1 _; rw [h1]; exact h3
      have hak : a ∈ f.axisKeys := hs.2.2.1 a (by rw [hax]; exact List.mem_singleton_self a)
      rw [hst, hax]
      simp only [Option.getD_some, Bool.false_eq_true, ↓reduceIte, List.map_cons, List.map_nil]
      rw [pi_scalarDim hwf hak had hdc]
      unfold rdCon; rw [hty]
    · rw [hst, hax]
      simp only [Option.getD_some, ↓reduceIte, List.map_cons, List.map_nil]
      rw [pi_scalarAux hwf had he hty hax]
      unfold rdCon; rw [hty]
  · have hty : e.con.ctype = .aux := by rcases h with h | h; exact h; exact absurd h hsc
    have hne : (e.axes.map (piOf f names)).isEmpty = false := by
      cases hm : e.axes with
      | nil => exact absurd hm hs.1
      | cons x xs => rfl
    simp only [hsc, Bool.false_eq_true, ↓reduceIte, hne]
    unfold rdCon; rw [hty]

omit hwf hg in
theorem scalarOf_mem {ar : Key × Role} (har : ar ∈ (wfAx f).roles) {e : Entry} (h : scalarOf ar = some e) :
    e ∈ f.cons ∧ e.axes = [ar.1] ∧ ar.1 ∉ f.dataAxes ∧ e.con.ctype = .dim := by
  obtain ⟨hak, hr⟩ := mem_roles_wfAx.mp har
  unfold scalarOf at h
  cases hrr : ar.2 with
  | scalarDim e' =>
    rw [hrr] at h; simp at h; subst h
    rw [hrr] at hr
    unfold wfRole at hr
    cases hdc : f.dimCoordOf ar.1 with
    | none => rw [hdc] at hr; by_cases hd : ar.1 ∈ f.dataAxes <;> simp [hd] at hr
    | some x =>
      rw [hdc] at hr
      by_cases hd : ar.1 ∈ f.dataAxes
      · simp [hd] at hr
      · simp [hd] at hr; subst hr
        obtain ⟨h1, h2, h3⟩ := dimCoordOf_some hdc
        exact ⟨h1, h3, hd, h2⟩
  | coordVar e' => rw [hrr] at h; cases h
  | plain => rw [hrr] at h; cases h
  | none => rw [hrr] at h; cases h

theorem roleToken_entry {ar : Key × Role} (har : ar ∈ (wfAx f).roles) :
    (roleToken o names ar).bind (tokenEntry (wfFile o f names) (dataVar o f (wfAx f) names).dims)
      = (scalarOf ar).map (rd o f names) := by
  have h := roleToken_var (o := o) hwf hg har
  have h2 : (roleToken o names ar).bind (tokenEntry (wfFile o f names) (dataVar o f (wfAx f) names).dims)
      = ((roleToken o names ar).bind (tokenVar (wfFile o f names) (dataVar o f (wfAx f) names).dims)).map
          (varEntry (wfFile o f names)) := by
    unfold tokenEntry; cases roleToken o names ar <;> simp
  rw [h2, h, Option.map_map]
  cases hso : scalarOf ar with
  | none => rfl
  | some e =>
    obtain ⟨he, hax, had, _⟩ := scalarOf_mem har hso
    simp only [Option.map_some, Function.comp]
    rw [varEntry_main hwf hg he (Or.inr (auxIsScalar_iff.mpr ⟨ar.1, hax, had⟩))]

theorem roleToken_axis {ar : Key × Role} (har : ar ∈ (wfAx f).roles) :
    (roleToken o names ar).bind (tokenAxis (wfFile o f names) (dataVar o f (wfAx f) names).dims)
      = (scalarOf ar).map (fun e => (nameOf names (.con e.key), (⟨1, none, false⟩ : MAxis))) := by
  have h := roleToken_var (o := o) hwf hg har
  have h2 : (roleToken o names ar).bind (tokenAxis (wfFile o f names) (dataVar o f (wfAx f) names).dims)
      = ((roleToken o names ar).bind (tokenVar (wfFile o f names) (dataVar o f (wfAx f) names).dims)).bind varAxis := by
    unfold tokenAxis; cases roleToken o names ar <;> simp
  rw [h2, h]
  cases hso : scalarOf ar with
  | none => rfl
  | some e =>
    obtain ⟨he, hax, had, _⟩ := scalarOf_mem har hso
    simp only [Option.map_some, Option.bind_some]
    unfold varAxis
    rw [(tokenVar_scalar (o := o) hwf hg had he hax).2, mainVar_name]
    rfl

/-- The token of an auxiliary coordinate. -/
theorem auxToken_var {e : Entry} (he : e ∈ f.cons) (hty : e.con.ctype = .aux) :
    tokenVar (wfFile o f names) (dataVar o f (wfAx f) names).dims (nameOf names (.con e.key))
      = some (mainVar f names (wfAx f) e) := by
  by_cases hsc : auxIsScalar f.dataAxes e = true
  · obtain ⟨a, hax, had⟩ := auxIsScalar_iff.mp hsc
    exact (tokenVar_scalar hwf hg had he hax).1
  · unfold tokenVar
    rw [dataVar_dims hwf]
    have hnot : nameOf names (.con e.key) ∉ f.dataAxes.map (piOf f names) := by
      apply not_in_dims hwf hg he
      intro a' _ hdc
      have := (dimCoordOf_some hdc).2.1
      rw [hty] at this; cases this
    have hc : (f.dataAxes.map (piOf f names)).contains (nameOf names (.con e.key)) = false := by simpa using hnot
    rw [hc, var_con hwf hg he]
    have hcd := cdimsOf_wf (names := names) hwf he
    have hdims : (mainVar f names (wfAx f) e).dims = e.axes.map (piOf f names) := by
      unfold mainVar; rw [hty]; simp only [coordVar]; rw [hcd]; simp [hsc]
    have hall := axes_data hwf he (fun h => hsc (auxIsScalar_iff.mpr h))
    have hsub : subset (mainVar f names (wfAx f) e).dims (f.dataAxes.map (piOf f names)) = true := by
      rw [hdims]
      unfold subset
      rw [List.all_eq_true]
      intro x hx
      obtain ⟨a, ha, rfl⟩ := List.mem_map.mp hx
      simpa using List.mem_map.mpr ⟨a, hall a ha, rfl⟩
    simp [hsub]

theorem auxToken_entry {e : Entry} (he : e ∈ f.cons) (hty : e.con.ctype = .aux) :
    tokenEntry (wfFile o f names) (dataVar o f (wfAx f) names).dims (nameOf names (.con e.key)) = some (rd o f names e) := by
  unfold tokenEntry
  rw [auxToken_var hwf hg he hty]
  simp only [Option.map_some]
  rw [varEntry_main hwf hg he (Or.inl hty)]

theorem auxToken_axis {e : Entry} (he : e ∈ f.cons) (hty : e.con.ctype = .aux) :
    tokenAxis (wfFile o f names) (dataVar o f (wfAx f) names).dims (nameOf names (.con e.key))
      = if auxIsScalar f.dataAxes e then some (nameOf names (.con e.key), (⟨1, none, false⟩ : MAxis)) else none := by
  unfold tokenAxis
  rw [auxToken_var hwf hg he hty]
  simp only [Option.bind_some]
  unfold varAxis
  obtain ⟨hs, _, _⟩ := wf_entry hwf he
  have hcd := cdimsOf_wf (names := names) hwf he
  have hdims : (mainVar f names (wfAx f) e).dims = cdimsOf names (wfAx f) e := by
    unfold mainVar; cases e.con.ctype <;> rfl
  rw [hdims, hcd, mainVar_name]
  by_cases hsc : auxIsScalar f.dataAxes e = true
  · simp [hsc]
  · have hne : (e.axes.map (piOf f names)).isEmpty = false := by
      cases hm : e.axes with
      | nil => exact absurd hm hs.1
      | cons x xs => rfl
    simp [hsc, hne]

end

end Cfdm.Codec
