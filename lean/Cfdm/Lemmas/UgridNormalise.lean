import Cfdm.Lemmas.Ugrid
/- Helper lemmas for the `normalise` part of C15. -/
namespace Cfdm.Ugrid

/-! ### generic facts about arrays of optional values -/

theorem vals_mapVals {α β} (f : α → β) (m : List (List (Option α))) :
    vals (mapVals f m) = (vals m).map f := by
  induction m with
  | nil => rfl
  | cons r t ih =>
    have : mapVals f (r :: t) = (r.map (fun o => o.map f)) :: mapVals f t := rfl
    rw [this, vals_cons, vals_cons, ih, compressed_map, List.map_append]

theorem mapVals_mapVals {α β γ} (f : β → γ) (g : α → β) (m : List (List (Option α))) :
    mapVals f (mapVals g m) = mapVals (f ∘ g) m := by
  simp only [mapVals, List.map_map]
  apply List.map_congr_left
  intro r _
  simp only [Function.comp, List.map_map]
  apply List.map_congr_left
  intro o _
  cases o <;> rfl

theorem mem_vals {α} (m : List (List (Option α))) (v : α) :
    v ∈ vals m ↔ ∃ r ∈ m, some v ∈ r := by
  simp [vals, List.mem_flatMap, mem_compressed]

theorem mapVals_congr {α β} (f g : α → β) (m : List (List (Option α)))
    (h : ∀ v ∈ vals m, f v = g v) : mapVals f m = mapVals g m := by
  simp only [mapVals]
  apply List.map_congr_left
  intro r hr
  apply List.map_congr_left
  intro o ho
  cases o with
  | none => rfl
  | some v => simp [h v ((mem_vals m v).mpr ⟨r, hr, ho⟩)]

theorem mapVals_id' {α} (f : α → α) (m : List (List (Option α)))
    (h : ∀ v ∈ vals m, f v = v) : mapVals f m = m := by
  have := mapVals_congr f id m (by simpa using h)
  rw [this]
  simp only [mapVals]
  conv => rhs; rw [← List.map_id m]
  apply List.map_congr_left
  intro r _
  conv => rhs; rw [id, ← List.map_id r]
  apply List.map_congr_left
  intro o _
  cases o <;> rfl

/-! ### `np.unique(..., return_inverse=True)` twice -/

theorem range_add_sorted (k s : Nat) : ((List.range k).map (· + s)).Pairwise (· < ·) := by
  rw [List.pairwise_map]
  exact List.pairwise_lt_range.imp (fun h => by omega)

/-- The distinct values of the ranks are `0..k-1` (shifted by the start index). -/
theorem sortDedup_ranks (U L : List Nat) (s : Nat) (hU : U.Pairwise (· < ·))
    (hmem : ∀ x, x ∈ L ↔ x ∈ U) :
    sortDedup (L.map (fun v => U.idxOf v + s)) = (List.range U.length).map (· + s) := by
  apply sorted_ext (sortDedup_sorted _) (range_add_sorted _ _)
  intro y
  simp only [mem_sortDedup, List.mem_map, List.mem_range]
  constructor
  · rintro ⟨v, hv, rfl⟩
    exact ⟨U.idxOf v, List.idxOf_lt_length_iff.mpr ((hmem v).mp hv), rfl⟩
  · rintro ⟨i, hi, rfl⟩
    refine ⟨U[i], (hmem _).mpr (List.getElem_mem hi), ?_⟩
    rw [(sorted_nodup hU).idxOf_getElem i hi]

theorem idxOf_range_add (k s i : Nat) (hi : i < k) :
    ((List.range k).map (· + s)).idxOf (i + s) = i := by
  have hnd := sorted_nodup (range_add_sorted k s)
  have hlen : i < ((List.range k).map (· + s)).length := by simpa using hi
  have := hnd.idxOf_getElem i hlen
  simpa using this

theorem normaliseNodes_idem (ob : Bool) (m : Mat) :
    normaliseNodes ob (normaliseNodes ob m) = normaliseNodes ob m := by
  simp only [normaliseNodes]
  generalize hs : (if ob then 1 else 0) = s
  rw [vals_mapVals, mapVals_mapVals]
  rw [sortDedup_ranks (sortDedup (vals m)) (vals m) s (sortDedup_sorted _)
    (fun x => (mem_sortDedup x (vals m)).symm)]
  apply mapVals_congr
  intro v hv
  simp only [Function.comp]
  rw [idxOf_range_add]
  exact List.idxOf_lt_length_iff.mpr ((mem_sortDedup v (vals m)).mpr hv)

/-! ### `_normalise_cell_ids`: observables of the building blocks -/

theorem filterMap_congr' {α β} {f g : α → Option β} {l : List α} (h : ∀ a ∈ l, f a = g a) :
    l.filterMap f = l.filterMap g := by
  induction l with
  | nil => rfl
  | cons a t ih =>
    simp only [List.filterMap_cons, h a (by simp)]
    rw [ih (fun b hb => h b (List.mem_cons_of_mem _ hb))]

theorem firstCol_cons (r : IRow) (m : IMat) :
    firstCol (r :: m) = (match r.head?.join with | some v => [v] | none => []) ++ firstCol m := by
  simp only [firstCol, List.filterMap_cons]
  cases r.head?.join <;> rfl

theorem firstCol_mapVals (f : Int → Int) (m : IMat) :
    firstCol (mapVals f m) = (firstCol m).map f := by
  simp only [firstCol, mapVals, List.filterMap_map, List.map_filterMap]
  apply filterMap_congr'
  intro r _
  cases r with
  | nil => rfl
  | cons o t => cases o <;> rfl

theorem firstCol_maskIf (p : Int → Bool) (m : IMat) :
    firstCol (maskIf p m) = (firstCol m).filter (fun v => !p v) := by
  simp only [firstCol, maskIf, List.filterMap_map, List.filter_filterMap]
  apply filterMap_congr'
  intro r _
  cases r with
  | nil => rfl
  | cons o t =>
    cases o with
    | none => rfl
    | some v => cases h : p v <;> simp [Function.comp, h, Option.filter]

theorem firstCol_sortTails (m : IMat) : firstCol (sortTails m) = firstCol m := by
  simp only [firstCol, sortTails, List.filterMap_map]
  apply filterMap_congr'
  intro r _
  cases r <;> rfl

theorem firstCol_sub_vals (m : IMat) (v : Int) (h : v ∈ firstCol m) : v ∈ vals m := by
  simp only [firstCol, List.mem_filterMap] at h
  obtain ⟨r, hr, hv⟩ := h
  refine (mem_vals m v).mpr ⟨r, hr, ?_⟩
  cases r with
  | nil => simp at hv
  | cons o t =>
    simp only [List.head?_cons, Option.join_some] at hv
    subst hv; simp

theorem compressed_maskIf (p : Int → Bool) (r : IRow) :
    compressed (r.map (fun o => o.bind (fun v => if p v then none else some v))) =
      (compressed r).filter (fun v => !p v) := by
  induction r with
  | nil => rfl
  | cons o t ih =>
    simp only [compressed] at ih ⊢
    cases o with
    | none => simpa using ih
    | some v => cases h : p v <;> simp [h, ih]

theorem vals_maskIf (p : Int → Bool) (m : IMat) :
    vals (maskIf p m) = (vals m).filter (fun v => !p v) := by
  induction m with
  | nil => rfl
  | cons r t ih =>
    have : maskIf p (r :: t) = (r.map (fun o => o.bind (fun v => if p v then none else some v))) :: maskIf p t := rfl
    rw [this, vals_cons, vals_cons, ih, compressed_maskIf, List.filter_append]

theorem mem_insertSorted (x y : Int) (l : List Int) : y ∈ insertSorted x l ↔ y = x ∨ y ∈ l := by
  induction l with
  | nil => simp [insertSorted]
  | cons a t ih =>
    unfold insertSorted
    split
    · simp
    · simp only [List.mem_cons, ih]
      constructor
      · rintro (h | h | h) <;> simp [h]
      · rintro (h | h | h) <;> simp [h]

theorem mem_sortInts (y : Int) (l : List Int) : y ∈ sortInts l ↔ y ∈ l := by
  induction l with
  | nil => simp [sortInts]
  | cons a t ih =>
    have : sortInts (a :: t) = insertSorted a (sortInts t) := rfl
    rw [this, mem_insertSorted, ih]; simp

theorem mem_compressed_sortTail (r : IRow) (v : Int) :
    v ∈ compressed (sortTail r) ↔ v ∈ compressed r := by
  cases r with
  | nil => rfl
  | cons h t =>
    simp only [sortTail, mem_compressed, List.mem_cons, List.mem_append, List.mem_map,
      List.mem_replicate]
    constructor
    · rintro (h1 | ⟨w, hw, e⟩ | ⟨_, e⟩)
      · exact Or.inl h1
      · cases e; exact Or.inr ((mem_compressed t v).mp ((mem_sortInts v _).mp hw))
      · cases e
    · rintro (h1 | h1)
      · exact Or.inl h1
      · exact Or.inr (Or.inl ⟨v, (mem_sortInts v _).mpr ((mem_compressed t v).mpr h1), rfl⟩)

theorem mem_vals_sortTails (m : IMat) (v : Int) : v ∈ vals (sortTails m) ↔ v ∈ vals m := by
  simp only [vals, sortTails, List.mem_flatMap, List.mem_map]
  constructor
  · rintro ⟨_, ⟨r, hr, rfl⟩, h⟩; exact ⟨r, hr, (mem_compressed_sortTail r v).mp h⟩
  · rintro ⟨r, hr, h⟩; exact ⟨_, ⟨r, hr, rfl⟩, (mem_compressed_sortTail r v).mpr h⟩

theorem maskIf_of_not_any (p : Int → Bool) (m : IMat) (h : anyVal p m = false) : maskIf p m = m := by
  simp only [anyVal, List.any_eq_false] at h
  simp only [maskIf]
  conv => rhs; rw [← List.map_id m]
  apply List.map_congr_left
  intro r hr
  conv => rhs; rw [id, ← List.map_id r]
  apply List.map_congr_left
  intro o ho
  cases o with
  | none => rfl
  | some v =>
    have := h v ((mem_vals m v).mpr ⟨r, hr, ho⟩)
    simp [this]

/-- `if data.max() > x: data = where(data > x, masked, data)` is just the `where`. -/
theorem maskIf_guard (p : Int → Bool) (m : IMat) :
    (if anyVal p m then maskIf p m else m) = maskIf p m := by
  cases h : anyVal p m
  · simp [maskIf_of_not_any p m h]
  · simp

theorem length_mapVals {α β} (f : α → β) (m : List (List (Option α))) : (mapVals f m).length = m.length := by
  simp [mapVals]
theorem length_maskIf (p : Int → Bool) (m : IMat) : (maskIf p m).length = m.length := by
  simp [maskIf]
theorem length_sortTails (m : IMat) : (sortTails m).length = m.length := by
  simp [sortTails]

/-! ### `clip` -/

/-- What `clip` keeps. -/
def keepB (smallest : Option Int) (largest : Int) (v : Int) : Bool :=
  !decide (v > largest) && (match smallest with | some lo => !decide (v < lo) | none => true)

/-- `clip` without its guards. -/
def clipCore (smallest : Option Int) (largest : Int) (d : IMat) : IMat :=
  match smallest with
  | some lo => maskIf (fun v => decide (v < lo)) (maskIf (fun v => decide (v > largest)) d)
  | none => maskIf (fun v => decide (v > largest)) d

theorem clip_cases (smallest : Option Int) (largest : Int) (d : IMat) :
    clip smallest largest d = clipCore smallest largest d ∨
    clip smallest largest d = sortTails (clipCore smallest largest d) := by
  cases smallest with
  | none =>
    simp only [clip, clipCore, maskIf_guard, Bool.or_false]
    cases anyVal (fun v => decide (v > largest)) d <;> simp
  | some lo =>
    simp only [clip, clipCore, maskIf_guard]
    cases (anyVal (fun v => decide (v > largest)) d ||
      anyVal (fun v => decide (v < lo)) (maskIf (fun v => decide (v > largest)) d)) <;> simp

theorem clipCore_length (smallest : Option Int) (largest : Int) (d : IMat) :
    (clipCore smallest largest d).length = d.length := by
  cases smallest <;> simp [clipCore, length_maskIf]

theorem clipCore_firstCol (smallest : Option Int) (largest : Int) (d : IMat) :
    firstCol (clipCore smallest largest d) = (firstCol d).filter (keepB smallest largest) := by
  cases smallest with
  | none =>
    simp only [clipCore, firstCol_maskIf]
    congr 1
    funext v
    simp [keepB]
  | some lo =>
    simp only [clipCore, firstCol_maskIf, List.filter_filter]
    congr 1
    funext v
    simp only [keepB]
    exact Bool.and_comm _ _

theorem clipCore_vals (smallest : Option Int) (largest : Int) (d : IMat) :
    vals (clipCore smallest largest d) = (vals d).filter (keepB smallest largest) := by
  cases smallest with
  | none =>
    simp only [clipCore, vals_maskIf]
    congr 1
    funext v
    simp [keepB]
  | some lo =>
    simp only [clipCore, vals_maskIf, List.filter_filter]
    congr 1
    funext v
    simp only [keepB]
    exact Bool.and_comm _ _

theorem clip_length (smallest : Option Int) (largest : Int) (d : IMat) :
    (clip smallest largest d).length = d.length := by
  rcases clip_cases smallest largest d with h | h <;> rw [h] <;>
    simp [length_sortTails, clipCore_length]

theorem clip_firstCol (smallest : Option Int) (largest : Int) (d : IMat) :
    firstCol (clip smallest largest d) = (firstCol d).filter (keepB smallest largest) := by
  rcases clip_cases smallest largest d with h | h <;> rw [h] <;>
    simp [firstCol_sortTails, clipCore_firstCol]

theorem mem_vals_clip (smallest : Option Int) (largest : Int) (d : IMat) (v : Int) :
    v ∈ vals (clip smallest largest d) ↔ v ∈ vals d ∧ keepB smallest largest v = true := by
  rcases clip_cases smallest largest d with h | h <;> rw [h] <;>
    simp [mem_vals_sortTails, clipCore_vals, List.mem_filter]

theorem clip_noop (smallest : Option Int) (largest : Int) (d : IMat)
    (h : ∀ v ∈ vals d, keepB smallest largest v = true) : clip smallest largest d = d := by
  have h1 : anyVal (fun v => decide (v > largest)) d = false := by
    simp only [anyVal, List.any_eq_false]
    intro v hv
    have := h v hv
    simp only [keepB, Bool.and_eq_true, Bool.not_eq_true', decide_eq_false_iff_not] at this
    simpa using this.1
  cases smallest with
  | none => simp [clip, h1]
  | some lo =>
    have h2 : anyVal (fun v => decide (v < lo)) d = false := by
      simp only [anyVal, List.any_eq_false]
      intro v hv
      have := h v hv
      simp only [keepB, Bool.and_eq_true, Bool.not_eq_true', decide_eq_false_iff_not] at this
      simpa using this.2
    simp [clip, h1, h2]

/-! ### `arange` -/

theorem length_arange (s : Int) (n : Nat) : (arange s n).length = n := by simp [arange]

theorem arange_map_add (s c : Int) (n : Nat) : (arange s n).map (· + c) = arange (s + c) n := by
  simp only [arange, List.map_map]
  apply List.map_congr_left
  intro i _
  simp only [Function.comp]; omega

theorem arange_map_sub (s c : Int) (n : Nat) : (arange s n).map (· - c) = arange (s - c) n := by
  simp only [arange, List.map_map]
  apply List.map_congr_left
  intro i _
  simp only [Function.comp]; omega

theorem mem_arange (s : Int) (n : Nat) (v : Int) : v ∈ arange s n ↔ s ≤ v ∧ v < s + n := by
  simp only [arange, List.mem_map, List.mem_range]
  constructor
  · rintro ⟨i, hi, rfl⟩; simp only [Int.ofNat_eq_natCast]; omega
  · rintro ⟨h1, h2⟩
    refine ⟨(v - s).toNat, ?_, ?_⟩
    · omega
    · simp only [Int.ofNat_eq_natCast]; omega

theorem arange_head (s : Int) (n : Nat) (hn : 1 ≤ n) : (arange s n).head? = some s := by
  cases n with
  | zero => omega
  | succ k => simp [arange, List.range_succ_eq_map]

theorem arange_getLast (s : Int) (n : Nat) (hn : 1 ≤ n) :
    (arange s n).getLast? = some (s + ((n - 1 : Nat) : Int)) := by
  cases n with
  | zero => omega
  | succ k => simp [arange, List.range_succ]

theorem arange_ne (n : Nat) (hn : 1 ≤ n) : (arange 0 n == arange 1 n) = false := by
  cases h : (arange 0 n == arange 1 n)
  · rfl
  · have h' := eq_of_beq h
    have h0 := arange_head 0 n hn
    have h1 := arange_head 1 n hn
    rw [h', h1] at h0
    cases h0

theorem arange_ne' (n : Nat) (hn : 1 ≤ n) : (arange 1 n == arange 0 n) = false := by
  have := arange_ne n hn
  cases h : (arange 1 n == arange 0 n)
  · rfl
  · rw [eq_of_beq h] at this; simp at this

/-! ### the relabelling loop -/

theorem replSeqVal_neg (ids : List Int) (j v : Int) (hids : ∀ i ∈ ids, 0 ≤ i) (hv : v < 0) :
    replSeqVal ids j v = v := by
  induction ids generalizing j with
  | nil => rfl
  | cons i is ih =>
    simp only [replSeqVal]
    have : v ≠ i := by have := hids i (by simp); omega
    rw [if_neg this]
    exact ih _ (fun x hx => hids x (List.mem_cons_of_mem _ hx))

theorem replSeqVal_range (ids : List Int) (j v : Int) (hids : ∀ i ∈ ids, 0 ≤ i)
    (hj : j + ids.length ≤ 0) :
    replSeqVal ids j v = v ∨ (j ≤ replSeqVal ids j v ∧ replSeqVal ids j v < j + ids.length) := by
  induction ids generalizing j v with
  | nil => exact Or.inl rfl
  | cons i is ih =>
    have his : ∀ x ∈ is, 0 ≤ x := fun x hx => hids x (List.mem_cons_of_mem _ hx)
    simp only [List.length_cons, Int.natCast_add, Int.cast_ofNat_Int] at hj
    simp only [replSeqVal, List.length_cons, Int.natCast_add, Int.cast_ofNat_Int]
    by_cases h : v = i
    · rw [if_pos h, replSeqVal_neg is (j + 1) j his (by omega)]
      right; omega
    · rw [if_neg h]
      rcases ih (j + 1) v his (by omega) with h1 | h1
      · exact Or.inl h1
      · right; omega

theorem replSeqVal_getElem (ids : List Int) (j : Int) (hids : ∀ i ∈ ids, 0 ≤ i) (hnd : ids.Nodup)
    (hj : j + ids.length ≤ 0) (k : Nat) (hk : k < ids.length) :
    replSeqVal ids j ids[k] = j + k := by
  induction ids generalizing j k with
  | nil => simp at hk
  | cons i is ih =>
    have his : ∀ x ∈ is, 0 ≤ x := fun x hx => hids x (List.mem_cons_of_mem _ hx)
    simp only [List.length_cons, Int.natCast_add, Int.cast_ofNat_Int] at hj
    have hnd' := List.nodup_cons.mp hnd
    cases k with
    | zero =>
      simp only [List.getElem_cons_zero, replSeqVal, if_true]
      rw [replSeqVal_neg is (j + 1) j his (by omega)]; simp
    | succ k' =>
      simp only [List.getElem_cons_succ, replSeqVal]
      have hk' : k' < is.length := by simpa using hk
      have : is[k'] ≠ i := fun e => hnd'.1 (e ▸ List.getElem_mem hk')
      rw [if_neg this, ih (j + 1) his hnd'.2 (by omega) k' hk']
      simp only [Int.natCast_add, Int.cast_ofNat_Int]; omega

theorem relabel_ids (ids : List Int) (hids : ∀ i ∈ ids, 0 ≤ i) (hnd : ids.Nodup) :
    ids.map (replSeqVal ids (-(ids.length : Int))) = arange (-(ids.length : Int)) ids.length := by
  apply List.ext_getElem
  · simp [arange]
  · intro k h1 h2
    have hk : k < ids.length := by simpa using h1
    simp only [List.getElem_map, arange, List.getElem_range, Int.ofNat_eq_natCast]
    exact replSeqVal_getElem ids _ hids hnd (by omega) k hk

/-! ### normal form of `_normalise_cell_ids` -/

def baseOf (ob : Bool) : Int := if ob then 1 else 0

/-- The array is "normalised": row `k` starts with `k + base` and every value is
one of those ids. -/
structure NF (ob : Bool) (n : Nat) (d : IMat) : Prop where
  len : d.length = n
  ids : firstCol d = arange (baseOf ob) n
  range : ∀ v ∈ vals d, baseOf ob ≤ v ∧ v < baseOf ob + n

/-- Hypotheses on the input: at least one cell, every cell has an (unmasked) id
in the first column, and the ids are distinct. -/
structure WFIds (m : IMat) : Prop where
  nonempty : 1 ≤ m.length
  heads : (firstCol m).length = m.length
  nodup : (firstCol m).Nodup

theorem minVal_le (m : IMat) (dmin : Int) (h : minVal m = some dmin) : ∀ v ∈ vals m, dmin ≤ v := by
  unfold minVal at h
  cases hv : vals m with
  | nil => intro v hv'; simp at hv'
  | cons a t =>
    rw [hv] at h
    simp only [Option.some.injEq] at h
    subst h
    have key : ∀ (l : List Int) (a : Int), l.foldr min a ≤ a ∧ ∀ x ∈ l, l.foldr min a ≤ x := by
      intro l a
      induction l with
      | nil => simp
      | cons b l ih =>
        simp only [List.foldr_cons, List.mem_cons]
        refine ⟨by have := ih.1; omega, ?_⟩
        rintro x (rfl | hx)
        · omega
        · have := ih.2 x hx; omega
    intro v hv'
    rcases List.mem_cons.mp hv' with rfl | hv'
    · exact (key t v).1
    · exact (key t a).2 v hv'

theorem keepB_range (s : Int) (n : Nat) (hn : 1 ≤ n) (v : Int) :
    keepB (some s) (s + ((n - 1 : Nat) : Int)) v = true ↔ s ≤ v ∧ v < s + n := by
  simp only [keepB, Bool.and_eq_true, Bool.not_eq_true', decide_eq_false_iff_not]
  omega

/-- A normalised array is a fixed point. -/
theorem normaliseCellIds_of_NF (ob : Bool) (n : Nat) (d : IMat) (hn : 1 ≤ n) (h : NF ob n d) :
    normaliseCellIds ob d = d := by
  have hlen : (firstCol d).length = n := by rw [h.ids, length_arange]
  have hclip : clip (some (baseOf ob)) (baseOf ob + ((n - 1 : Nat) : Int)) d = d := by
    apply clip_noop
    intro v hv
    exact (keepB_range _ n hn v).mpr (h.range v hv)
  cases ob
  · have hids : firstCol d = arange 0 n := h.ids
    simp only [baseOf, Bool.false_eq_true, if_false] at hclip
    unfold normaliseCellIds
    simp only [hids, length_arange, BEq.rfl, Bool.true_or, if_true, Bool.false_and,
      Bool.false_eq_true, if_false, arange_ne n hn, Bool.not_false, Bool.true_and,
      arange_head 0 n hn, arange_getLast 0 n hn, Option.getD_some]
    exact hclip
  · have hids : firstCol d = arange 1 n := h.ids
    simp only [baseOf, if_true] at hclip
    unfold normaliseCellIds
    simp only [hids, length_arange, BEq.rfl, Bool.or_true, if_true, arange_ne' n hn,
      Bool.and_false, Bool.false_eq_true, if_false, Bool.not_true, Bool.false_and,
      arange_head 1 n hn, arange_getLast 1 n hn, Option.getD_some]
    exact hclip

theorem filter_arange_keep (s : Int) (n : Nat) (hn : 1 ≤ n) :
    (arange s n).filter (keepB (some s) (s + ((n - 1 : Nat) : Int))) = arange s n := by
  rw [List.filter_eq_self]
  intro v hv
  exact (keepB_range s n hn v).mpr ((mem_arange s n v).mp hv)

/-- The not-relabel branch, once the base of the ids has been moved to `base`. -/
theorem NF_keep (ob : Bool) (n : Nat) (d : IMat) (hn : 1 ≤ n) (hlen : d.length = n)
    (hids : firstCol d = arange (baseOf ob) n) :
    NF ob n (clip (some ((firstCol d).head?.getD 0)) ((firstCol d).getLast?.getD 0) d) := by
  rw [hids, arange_head _ n hn, arange_getLast _ n hn]
  simp only [Option.getD_some]
  refine ⟨by rw [clip_length, hlen], ?_, ?_⟩
  · rw [clip_firstCol, hids, filter_arange_keep _ n hn]
  · intro v hv
    exact (keepB_range _ n hn v).mp ((mem_vals_clip _ _ _ v).mp hv).2

/-- The relabel branch on non-negative data with distinct ids. -/
theorem NF_relabel (ob : Bool) (d : IMat) (hn : 1 ≤ d.length) (hheads : (firstCol d).length = d.length)
    (hnd : (firstCol d).Nodup) (hpos : ∀ v ∈ vals d, 0 ≤ v) :
    NF ob d.length
      (mapVals (· + ((d.length : Int) + (if ob then 1 else 0)))
        (clip none (-1) (mapVals (replSeqVal (firstCol d) (-(d.length : Int))) d))) := by
  have hidspos : ∀ i ∈ firstCol d, 0 ≤ i := fun i hi => hpos i (firstCol_sub_vals d i hi)
  have hkeep : ∀ v : Int, keepB none (-1) v = true ↔ v ≤ -1 := by
    intro v; simp only [keepB, Bool.and_true, Bool.not_eq_true', decide_eq_false_iff_not]; omega
  have hrel := relabel_ids (firstCol d) hidspos hnd
  rw [hheads] at hrel
  refine ⟨?_, ?_, ?_⟩
  · rw [length_mapVals, clip_length, length_mapVals]
  · rw [firstCol_mapVals, clip_firstCol, firstCol_mapVals, hrel]
    have : (arange (-(d.length : Int)) d.length).filter (keepB none (-1)) = arange (-(d.length : Int)) d.length := by
      rw [List.filter_eq_self]
      intro v hv
      have := (mem_arange _ _ v).mp hv
      exact (hkeep v).mpr (by omega)
    rw [this, arange_map_add]
    congr 1
    simp only [baseOf]; omega
  · intro v hv
    rw [vals_mapVals] at hv
    obtain ⟨r, hr, rfl⟩ := List.mem_map.mp hv
    obtain ⟨hr1, hr2⟩ := (mem_vals_clip _ _ _ r).mp hr
    have hr2 := (hkeep r).mp hr2
    rw [vals_mapVals] at hr1
    obtain ⟨v0, hv0, rfl⟩ := List.mem_map.mp hr1
    have h0 := hpos v0 hv0
    have := replSeqVal_range (firstCol d) (-(d.length : Int)) v0 hidspos (by rw [hheads]; omega)
    rw [hheads] at this
    simp only [baseOf]
    rcases this with h1 | h1
    · omega
    · split <;> omega

/-- Whatever the (well-formed) input, the result is normalised. -/
theorem NF_normaliseCellIds (ob : Bool) (m : IMat) (h : WFIds m) :
    NF ob m.length (normaliseCellIds ob m) := by
  have hn := h.nonempty
  have hheads := h.heads
  unfold normaliseCellIds
  simp only [hheads]
  split
  · -- not relabel
    rename_i hcase
    apply NF_keep ob m.length _ hn
    · split
      · exact length_mapVals _ _
      · split
        · exact length_mapVals _ _
        · rfl
    · simp only [Bool.or_eq_true, beq_iff_eq] at hcase
      cases ob
      · simp only [Bool.false_and, Bool.false_eq_true, if_false, Bool.not_false, Bool.true_and, baseOf]
        split
        · rename_i h1
          rw [firstCol_mapVals, eq_of_beq h1]
          have := arange_map_sub 1 1 m.length
          simpa using this
        · rename_i h1
          rcases hcase with h2 | h2
          · exact h2
          · rw [h2] at h1; simp at h1
      · simp only [Bool.true_and, Bool.not_true, Bool.false_and, Bool.false_eq_true, if_false, baseOf, if_true]
        split
        · rename_i h1
          rw [firstCol_mapVals, eq_of_beq h1]
          have := arange_map_add 0 1 m.length
          simpa using this
        · rename_i h1
          rcases hcase with h2 | h2
          · rw [h2] at h1; simp at h1
          · exact h2
  · -- relabel
    have key : ∀ d : IMat, d.length = m.length → (firstCol d).length = d.length → (firstCol d).Nodup →
        (∀ v ∈ vals d, 0 ≤ v) →
        NF ob m.length (mapVals (· + ((m.length : Int) + (if ob then 1 else 0)))
          (clip none (-1) (mapVals (replSeqVal (firstCol d) (-(m.length : Int))) d))) := by
      intro d hl hh hndp hp
      have := NF_relabel ob d (by omega) hh hndp hp
      rw [hl] at this
      exact this
    cases hmin : minVal m with
    | none =>
      simp only []
      apply key m rfl hheads h.nodup
      intro v hv
      unfold minVal at hmin
      cases hvm : vals m with
      | nil => rw [hvm] at hv; simp at hv
      | cons a t => rw [hvm] at hmin; simp at hmin
    | some dmin =>
      have hle := minVal_le m dmin hmin
      simp only []
      by_cases hneg : dmin < 0
      · simp only [if_pos hneg]
        apply key
        · exact length_mapVals _ _
        · rw [firstCol_mapVals, List.length_map, length_mapVals, hheads]
        · rw [firstCol_mapVals]
          exact List.Pairwise.map (fun x => x - dmin) (fun a b (hab : a ≠ b) => by omega) h.nodup
        · intro v hv
          rw [vals_mapVals] at hv
          obtain ⟨w, hw, rfl⟩ := List.mem_map.mp hv
          have := hle w hw; omega
      · simp only [if_neg hneg]
        apply key m rfl hheads h.nodup
        intro v hv
        have := hle v hv; omega

/-- **Idempotence of `_normalise_cell_ids`.** -/
theorem normaliseCellIds_idem (ob : Bool) (m : IMat) (h : WFIds m) :
    normaliseCellIds ob (normaliseCellIds ob m) = normaliseCellIds ob m :=
  normaliseCellIds_of_NF ob m.length _ h.nonempty (NF_normaliseCellIds ob m h)

end Cfdm.Ugrid
