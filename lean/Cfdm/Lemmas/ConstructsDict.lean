import Cfdm.Spec.Constructs
/-
C02 — helper lemmas on the dictionary model (`Dict.get / set / del / mapv / live`).
-/
namespace Cfdm.Constructs
namespace Dict
variable {κ ν : Type} [DecidableEq κ]

@[simp] theorem get_nil (k : κ) : get ([] : Dict κ ν) k = none := rfl

theorem get_cons (p : κ × ν) (r : Dict κ ν) (k : κ) :
    get (p :: r) k = if p.1 = k then some p.2 else get r k := by
  obtain ⟨a, b⟩ := p; rfl

theorem get_del (d : Dict κ ν) (k k' : κ) : get (del d k) k' = if k' = k then none else get d k' := by
  induction d with
  | nil => simp [del]
  | cons p r ih =>
    unfold del at ih ⊢
    rw [List.filter_cons]
    by_cases hp : p.1 = k
    · simp only [hp, ne_eq, not_true_eq_false, decide_false, Bool.false_eq_true, ↓reduceIte]
      rw [ih, get_cons]
      by_cases hk : k' = k
      · simp [hk]
      · simp only [hk, ↓reduceIte, hp]
        rw [if_neg (fun h => hk h.symm)]
    · simp only [ne_eq, hp, not_false_eq_true, decide_true, ↓reduceIte]
      rw [get_cons, get_cons, ih]
      by_cases hk : k' = k
      · subst hk; simp [hp]
      · simp [hk]

theorem get_set (d : Dict κ ν) (k : κ) (v : ν) (k' : κ) :
    get (set d k v) k' = if k' = k then some v else get d k' := by
  unfold set
  rw [get_cons, get_del]
  by_cases hk : k' = k
  · subst hk; simp
  · simp only [hk, ↓reduceIte]
    rw [if_neg (fun h => hk h.symm)]

theorem get_mapv (f : κ → ν → ν) (d : Dict κ ν) (k : κ) :
    get (mapv f d) k = (get d k).map (f k) := by
  induction d with
  | nil => simp [mapv]
  | cons p r ih =>
    unfold mapv at ih ⊢
    rw [List.map_cons, get_cons, get_cons, ih]
    by_cases hp : p.1 = k
    · subst hp; simp
    · simp [hp]

theorem get_set_self (d : Dict κ ν) (k : κ) (v : ν) (h : get d k = some v) (k' : κ) :
    get (set d k v) k' = get d k' := by
  rw [get_set]; by_cases hk : k' = k
  · subst hk; simp [h]
  · simp [hk]

theorem mem_live [DecidableEq ν] (d : Dict κ ν) (p : κ × ν) : p ∈ live d ↔ get d p.1 = some p.2 := by
  unfold live
  rw [List.mem_filter]
  constructor
  · intro h; simpa using h.2
  · intro h; exact ⟨by obtain ⟨a, b⟩ := p; exact get_mem h, by simpa using h⟩

theorem any_false_of_get {d : Dict κ ν} {P : κ × ν → Bool} (h : d.any P = false) {k : κ} {v : ν}
    (hg : get d k = some v) : P (k, v) = false := by
  rw [List.any_eq_false] at h
  have := h (k, v) (get_mem hg)
  simpa using this

end Dict
end Cfdm.Constructs
