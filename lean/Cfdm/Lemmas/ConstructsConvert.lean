import Cfdm.Lemmas.ConstructsDerive
/-
C02 — `Field.convert` builds a new field by a sequence of `set_construct` calls; every call is
admissible in the state it is applied to, so the new field satisfies the invariant.
-/
namespace Cfdm.Constructs

theorem foldOpt_keep {α β} (f : β → α → Option β) (Q : β → Prop)
    (hmono : ∀ b a b', f b a = some b' → Q b → Q b') :
    ∀ (l : List α) (b b' : β), foldOpt f b l = some b' → Q b → Q b' :=
  fun l b b' h hb => foldOpt_inv Q f (fun b a b' hb hba => hmono b a b' hba hb) l b b' hb h

theorem foldOpt_all {α β} (f : β → α → Option β) (Q : β → α → Prop)
    (hmono : ∀ b a b' x, f b a = some b' → Q b x → Q b' x) (hest : ∀ b a b', f b a = some b' → Q b' a) :
    ∀ (l : List α) (b b' : β), foldOpt f b l = some b' → ∀ x ∈ l, Q b' x := by
  intro l
  induction l with
  | nil => intro b b' _ x hx; simp at hx
  | cons a r ih =>
    intro b b' h x hx
    unfold foldOpt at h
    cases hf : f b a with
    | none => simp [hf] at h
    | some b1 =>
      simp only [hf] at h
      rcases List.mem_cons.mp hx with e | e
      · subst e
        exact foldOpt_keep f (fun st => Q st x) (fun b a b' hba hq => hmono b a b' x hba hq) r b1 b' h (hest b x b1 hf)
      · exact ih b1 b' h x e

/-- what an accepted `set_construct(c, key=k)` stores -/
theorem setConstruct_ok_cons {pt : Bool} {f f' : St} {view : Bool} {t : CType} {c : Con} {k : Key}
    {axes : Option (List Key)} {o : Option Key} (h : setConstruct pt f view t c (some k) axes = (f', .ok o)) :
    ∀ q, f'.cons.get q = if q = (t, k) then some c else f.cons.get q := by
  unfold setConstruct at h
  by_cases hig : ignored view t = true
  · rw [if_pos hig] at h; simp at h
  rw [if_neg hig] at h
  unfold resolveKey at h
  simp only at h
  by_cases hk : (f.ctype.get k).getD t = t
  · rw [if_pos hk] at h
    simp only at h
    unfold storeAt at h
    split at h
    · split at h
      · split at h
        · simp only [Prod.mk.injEq, Out.ok.injEq] at h
          obtain ⟨rfl, _⟩ := h
          exact putCon_cons f t k c
        · simp at h
      · simp only [Prod.mk.injEq, Out.ok.injEq] at h
        obtain ⟨rfl, _⟩ := h
        exact putCon_cons f t k c
    · split at h
      · simp at h
      · simp only [Prod.mk.injEq, Out.ok.injEq] at h
        obtain ⟨rfl, _⟩ := h
        exact putCon_cons f t k c
  · rw [if_neg hk] at h; simp at h

theorem ok_mono {pt : Bool} {f f' : St} {view : Bool} {t : CType} {c : Con} {k : Key}
    {axes : Option (List Key)} {o : Option Key} (h : setConstruct pt f view t c (some k) axes = (f', .ok o)) :
    ∀ q, (f.cons.get q).isSome = true → (f'.cons.get q).isSome = true := by
  intro q hq; rw [setConstruct_ok_cons h]; split <;> simp_all

/-- the axes of the new field are those of the old one -/
def SubAx (s f : St) : Prop := ∀ a c, f.cons.get (.axis, a) = some c → s.cons.get (.axis, a) = some c

/-- invariant of the construction: the new field is consistent and its axes are axes of the old field -/
def Conv (s f : St) : Prop := Core f ∧ SubAx s f

theorem shape_axis (c : Con) : c.shape .axis = none := shape_nonArray c rfl

theorem wf_noShape {t : CType} {c : Con} (h : c.shape t = none) (ht : t ≠ .dim) : c.WF t := by
  refine ⟨?_, fun e => absurd e ht⟩
  unfold Con.LeadOK; rw [h]; trivial

theorem convAxis_conv {s f f' : St} (hf : Conv s f) {a : Key} (h : convAxis true s f a = some f') : Conv s f' := by
  unfold convAxis at h
  cases hg : s.cons.get (.axis, a) with
  | none => simp [hg] at h
  | some ac =>
    simp only [hg] at h
    cases hr : setConstruct true f false .axis ac (some a) none with
    | mk f1 o =>
      rw [hr] at h
      cases o with
      | rejected => simp at h
      | ok ko =>
        simp only [Option.some.injEq] at h
        subst h
        have hc : Core (setConstruct true f false .axis ac (some a) none).1 :=
          setConstruct_core hf.1 false .axis ac (some a) none
            ⟨wf_noShape (shape_axis ac) (by decide), (fun _ k old hk ho => by
              simp only [Option.some.injEq] at hk; subst hk
              have := hf.2 a old ho
              rw [hg] at this; cases this; exact Or.inl rfl), (fun e => by cases e), (fun e => by cases e)⟩
        rw [hr] at hc
        refine ⟨hc, ?_⟩
        intro a' c' hc'
        rw [setConstruct_ok_cons hr] at hc'
        split at hc'
        · rename_i e; cases e; cases hc'; exact hg
        · exact hf.2 a' c' hc'

theorem setData_cons (pt : Bool) (f : St) (d : List Nat) (ax : Option (List Key)) : (setData pt f d ax).1.cons = f.cons := by
  unfold setData
  cases dataAxesFor f ax with
  | none => rfl
  | some A =>
    simp only
    cases hr : setDataAxes pt f A (some d) with
    | mk s' o =>
      cases o with
      | rejected => rfl
      | ok k =>
        simp only
        rw [(setDataAxes_ok hr).1]

/-- storing a construct of a type other than domain axis / cell method / coordinate reference, taken from `s` -/
theorem store_array_conv {s f f' : St} (hs : Core s) (hf : Conv s f) {t : CType} {k : Key} {cc : Con}
    (ht : t ≠ .axis ∧ t ≠ .ref ∧ t ≠ .cm) (hcc : s.cons.get (t, k) = some cc) {axes : Option (List Key)} {o : Option Key}
    (hr : setConstruct true f false t cc (some k) axes = (f', .ok o)) : Conv s f' := by
  have hc : Core (setConstruct true f false t cc (some k) axes).1 :=
    setConstruct_core hf.1 false t cc (some k) axes
      ⟨hs.wf _ cc hcc, (fun e => absurd e ht.1), (fun e => absurd e ht.2.1), (fun e => absurd e ht.2.2)⟩
  rw [hr] at hc
  refine ⟨hc, ?_⟩
  intro a' c' hc'
  rw [setConstruct_ok_cons hr] at hc'
  rw [if_neg (by intro e; cases e; exact ht.1 rfl)] at hc'
  exact hf.2 a' c' hc'

theorem listed_ne {t : CType} (h : listedForConvert t = true) : t ≠ .axis ∧ t ≠ .ref ∧ t ≠ .cm := by
  cases t <;> simp [listedForConvert] at h ⊢

theorem convCoord_conv {s f f' : St} (hs : Core s) (A : List Key) (hf : Conv s f) {p : Key × CType}
    (h : convCoord true s A f p = some f') : Conv s f' := by
  unfold convCoord at h
  split at h
  · simp only [Option.some.injEq] at h; subst h; exact hf
  rename_i hl
  split at h
  · rename_i ax cc hx hcc
    split at h
    · split at h
      · cases h
      · cases hr : setConstruct true f false p.2 cc (some p.1) (some ax) with
        | mk f1 o =>
          rw [hr] at h
          cases o with
          | rejected => simp at h
          | ok ko =>
            simp only [Option.some.injEq] at h; subst h
            exact store_array_conv hs hf (listed_ne (by simpa using hl)) hcc hr
    · simp only [Option.some.injEq] at h; subst h; exact hf
  · simp only [Option.some.injEq] at h; subst h; exact hf

theorem convCoord_mono {s f f' : St} {A : List Key} {p : Key × CType} (h : convCoord true s A f p = some f') :
    ∀ q, (f.cons.get q).isSome = true → (f'.cons.get q).isSome = true := by
  unfold convCoord at h
  split at h
  · simp only [Option.some.injEq] at h; subst h; exact fun _ hq => hq
  split at h
  · split at h
    · split at h
      · cases h
      · rename_i ax cc _ _ _ _
        cases hr : setConstruct true f false p.2 cc (some p.1) (some ax) with
        | mk f1 o =>
          rw [hr] at h
          cases o with
          | rejected => simp at h
          | ok ko => simp only [Option.some.injEq] at h; subst h; exact ok_mono hr
    · simp only [Option.some.injEq] at h; subst h; exact fun _ hq => hq
  · simp only [Option.some.injEq] at h; subst h; exact fun _ hq => hq

/-- what the loop over the coordinates has stored -/
def CoordStored (s : St) (A : List Key) (f : St) (p : Key × CType) : Prop :=
  listedForConvert p.2 = true → ∀ ax cc, s.caxes.get p.1 = some ax → s.cons.get (p.2, p.1) = some cc →
    subsetOf ax A = true → (f.cons.get (p.2, p.1)).isSome = true

theorem convCoord_est {s f f' : St} {A : List Key} {p : Key × CType} (h : convCoord true s A f p = some f') :
    CoordStored s A f' p := by
  intro hl ax cc hx hcc hsub
  unfold convCoord at h
  simp only [hl, Bool.not_true, Bool.false_eq_true, ↓reduceIte, hx, hcc, hsub] at h
  split at h
  · cases h
  · cases hr : setConstruct true f false p.2 cc (some p.1) (some ax) with
    | mk f1 o =>
      rw [hr] at h
      cases o with
      | rejected => simp at h
      | ok ko =>
        simp only [Option.some.injEq] at h; subst h
        rw [setConstruct_ok_cons hr]; simp

theorem convAncil_conv {s f f' : St} (hs : Core s) (hf : Conv s f) {v : Option Key}
    (h : convAncil true s f v = some f') : Conv s f' := by
  unfold convAncil at h
  cases v with
  | none => simp only [Option.some.injEq] at h; subst h; exact hf
  | some v =>
    simp only at h
    cases hg : s.cons.get (.dan, v) with
    | none => simp only [hg, Option.some.injEq] at h; subst h; exact hf
    | some dc =>
      simp only [hg] at h
      split at h
      · cases h
      cases hr : setConstruct true f false .dan dc (some v) (s.caxes.get v) with
      | mk f1 o =>
        rw [hr] at h
        cases o with
        | rejected => simp at h
        | ok ko =>
          simp only [Option.some.injEq] at h; subst h
          exact store_array_conv hs hf ⟨by decide, by decide, by decide⟩ hg hr

theorem convAncil_mono {s f f' : St} {v : Option Key} (h : convAncil true s f v = some f') :
    ∀ q, (f.cons.get q).isSome = true → (f'.cons.get q).isSome = true := by
  unfold convAncil at h
  cases v with
  | none => simp only [Option.some.injEq] at h; subst h; exact fun _ hq => hq
  | some v =>
    simp only at h
    cases hg : s.cons.get (.dan, v) with
    | none => simp only [hg, Option.some.injEq] at h; subst h; exact fun _ hq => hq
    | some dc =>
      simp only [hg] at h
      split at h
      · cases h
      cases hr : setConstruct true f false .dan dc (some v) (s.caxes.get v) with
      | mk f1 o =>
        rw [hr] at h
        cases o with
        | rejected => simp at h
        | ok ko => simp only [Option.some.injEq] at h; subst h; exact ok_mono hr

theorem convAncil_est {s f f' : St} {v : Option Key} (h : convAncil true s f v = some f') :
    ∀ x, v = some x → (s.cons.get (.dan, x)).isSome = true → (f'.cons.get (.dan, x)).isSome = true := by
  intro x hv hx
  subst hv
  unfold convAncil at h
  simp only at h
  cases hg : s.cons.get (.dan, x) with
  | none => simp [hg] at hx
  | some dc =>
    simp only [hg] at h
    split at h
    · cases h
    cases hr : setConstruct true f false .dan dc (some x) (s.caxes.get x) with
    | mk f1 o =>
      rw [hr] at h
      cases o with
      | rejected => simp at h
      | ok ko =>
        simp only [Option.some.injEq] at h; subst h
        rw [setConstruct_ok_cons hr]; simp

theorem foldOpt_mono {α} (g : St → α → Option St)
    (hm : ∀ f a f', g f a = some f' → ∀ q, (f.cons.get q).isSome = true → (f'.cons.get q).isSome = true) :
    ∀ (l : List α) (f f' : St), foldOpt g f l = some f' → ∀ q, (f.cons.get q).isSome = true → (f'.cons.get q).isSome = true := by
  intro l f f' h
  exact foldOpt_inv (fun st => ∀ q, (f.cons.get q).isSome = true → (st.cons.get q).isSome = true) g
    (fun b a b' hb hba q hq => hm b a b' hba q (hb q hq)) l f f' (fun _ hq => hq) h

theorem mapM_mem {α β} {g : α → Option β} : ∀ {l : List α} {r : List β}, l.mapM g = some r →
    ∀ y ∈ r, ∃ x ∈ l, g x = some y := by
  intro l
  induction l with
  | nil => intro r h y hy; simp only [List.mapM_nil, Option.pure_def, Option.some.injEq] at h; subst h; simp at hy
  | cons a l ih =>
    intro r h y hy
    simp only [List.mapM_cons, Option.pure_def, Option.bind_eq_bind] at h
    cases hga : g a with
    | none => simp [hga] at h
    | some b =>
      cases hl : l.mapM g with
      | none => simp [hga, hl] at h
      | some r' =>
        simp only [hga, hl, Option.bind_some, Option.some.injEq] at h
        subst h
        rcases List.mem_cons.mp hy with e | e
        · subst e; exact ⟨a, by simp, hga⟩
        · obtain ⟨x, hx, hgx⟩ := ih hl y e
          exact ⟨x, by simp [hx], hgx⟩

/-- the loop over the coordinate references keeps the invariant, provided the coordinates have been stored -/
theorem convRef_conv {s f f' : St} (hs : Core s) (A : List Key) (hf : Conv s f)
    (hst : ∀ p, s.ctype.get p.1 = some p.2 → CoordStored s A f p) {p : (CType × Key) × Con}
    (hp : s.cons.get p.1 = some p.2) (h : convRef true s A f p = some f') : Conv s f' := by
  unfold convRef at h
  split at h
  · simp only [Option.some.injEq] at h; subst h; exact hf
  rename_i href
  have href : p.1.1 = .ref := by simpa using href
  cases hm : p.2.coords.mapM (fun x => (s.caxes.get x).map (fun ax => (x, subsetOf ax A))) with
  | none => simp [hm] at h
  | some cs =>
    simp only [hm] at h
    split at h
    · simp only [Option.some.injEq] at h; subst h; exact hf
    cases hok : ancilsOk s A p.2.ancils with
    | none => simp [hok] at h
    | some b =>
      cases b with
      | false => simp only [hok, Option.some.injEq] at h; subst h; exact hf
      | true =>
        simp only [hok] at h
        cases hfa : foldOpt (convAncil true s) f p.2.ancils with
        | none => simp [hfa] at h
        | some f1 =>
          simp only [hfa] at h
          have hf1 : Conv s f1 := foldOpt_inv (Conv s) _ (fun b a b' hb hba => convAncil_conv hs hb hba) _ f f1 hf hfa
          have hmono1 := foldOpt_mono _ (fun f a f' h => convAncil_mono h) _ f f1 hfa
          have hanc := foldOpt_all (convAncil true s)
            (fun st v => ∀ x, v = some x → (s.cons.get (.dan, x)).isSome = true → (st.cons.get (.dan, x)).isSome = true)
            (fun b a b' x hba hq y hy hs' => convAncil_mono hba _ (hq y hy hs'))
            (fun b a b' hba => convAncil_est hba) _ f f1 hfa
          cases hr : setConstruct true f1 false .ref { p.2 with coords := (cs.filter (·.2)).map (·.1) } (some p.1.2) none with
          | mk f2 o =>
            rw [hr] at h
            cases o with
            | rejected => simp at h
            | ok ko =>
              simp only [Option.some.injEq] at h; subst h
              have hrn := hs.refs p.1 p.2 hp href
              have hc : Core (setConstruct true f1 false .ref { p.2 with coords := (cs.filter (·.2)).map (·.1) } (some p.1.2) none).1 := by
                refine setConstruct_core hf1.1 false .ref _ (some p.1.2) none
                  ⟨wf_noShape (shape_nonArray _ rfl) (by decide), (fun e => by cases e), (fun _ => ⟨?_, ?_⟩), (fun e => by cases e)⟩
                · -- the kept coordinates were stored by the loop over the coordinates
                  intro x hx
                  simp only [List.mem_map, List.mem_filter] at hx
                  obtain ⟨y, ⟨hy, hy2⟩, rfl⟩ := hx
                  obtain ⟨x0, hx0, hgx⟩ := mapM_mem hm y hy
                  cases hax : s.caxes.get x0 with
                  | none => simp [hax] at hgx
                  | some ax =>
                    simp only [hax, Option.map_some, Option.some.injEq] at hgx
                    subst hgx
                    simp only at hy2 ⊢
                    rcases hrn.1 x0 hx0 with hd | hd
                    · cases hg : s.cons.get (.dim, x0) with
                      | none => simp [hg] at hd
                      | some cc =>
                        have := hst (x0, .dim) (hs.tos _ cc hg) rfl ax cc hax hg hy2
                        exact Or.inl (hmono1 _ this)
                    · cases hg : s.cons.get (.aux, x0) with
                      | none => simp [hg] at hd
                      | some cc =>
                        have := hst (x0, .aux) (hs.tos _ cc hg) rfl ax cc hax hg hy2
                        exact Or.inr (hmono1 _ this)
                · intro x hx
                  cases x with
                  | none => trivial
                  | some v =>
                    have := hrn.2 (some v) hx
                    exact hanc (some v) hx v rfl this
              rw [hr] at hc
              refine ⟨hc, ?_⟩
              intro a' c' hc'
              rw [setConstruct_ok_cons hr] at hc'
              rw [if_neg (by intro e; cases e)] at hc'
              exact hf1.2 a' c' hc'

theorem convRef_mono {s f f' : St} {A : List Key} {p : (CType × Key) × Con} (h : convRef true s A f p = some f') :
    ∀ q, (f.cons.get q).isSome = true → (f'.cons.get q).isSome = true := by
  unfold convRef at h
  split at h
  · simp only [Option.some.injEq] at h; subst h; exact fun _ hq => hq
  split at h
  · cases h
  split at h
  · simp only [Option.some.injEq] at h; subst h; exact fun _ hq => hq
  split at h
  · cases h
  · simp only [Option.some.injEq] at h; subst h; exact fun _ hq => hq
  · split at h
    · cases h
    · rename_i f1 hfa
      split at h
      · cases h
      · rename_i f2 o hr
        simp only [Option.some.injEq] at h; subst h
        intro q hq
        exact ok_mono hr q (foldOpt_mono _ (fun f a f' h => convAncil_mono h) _ f f1 hfa q hq)

theorem core_empty : Core ({} : St) := (inv_iff_core _).mp (by decide)

theorem convertField_core {s : St} (h : Core s) (key : Key) (full : Bool) :
    Core (convertField true s key full).1 := by
  unfold convertField
  cases hco : conOf s key with
  | none => exact h
  | some tc =>
  obtain ⟨t, c⟩ := tc
  simp only
  split
  · exact h
  cases hd : c.data with
  | none => exact h
  | some d =>
  simp only
  cases hA : s.caxes.get key with
  | none =>
    simp only
    split
    · exact h
    · exact core_empty
  | some A =>
  simp only
  cases hf1 : foldOpt (convAxis true s) {} A with
  | none => exact h
  | some f1 =>
    simp only
    have c1 : Conv s f1 := foldOpt_inv (Conv s) _ (fun b a b' hb hba => convAxis_conv hb hba) _ _ f1
      ⟨core_empty, fun a c hc => by simp [Dict.get] at hc⟩ hf1
    cases hsd : setData true f1 d (some A) with
    | mk f2 o =>
      cases o with
      | rejected => exact h
      | ok ko =>
        simp only
        have c2 : Conv s f2 := by
          have hc := setData_core c1.1 d (some A)
          have hcons := setData_cons true f1 d (some A)
          rw [hsd] at hc hcons
          exact ⟨hc, fun a c hc' => c1.2 a c (by rw [← hcons]; exact hc')⟩
        split
        · exact c2.1
        cases hf3 : foldOpt (convCoord true s A) f2 s.ctype.live with
        | none => exact h
        | some f3 =>
          simp only
          have c3 : Conv s f3 := foldOpt_inv (Conv s) _ (fun b a b' hb hba => convCoord_conv h A hb hba) _ f2 f3 c2 hf3
          have hstored := foldOpt_all (convCoord true s A) (CoordStored s A)
            (fun b a b' x hba hq hl ax cc hx hcc hsub => convCoord_mono hba _ (hq hl ax cc hx hcc hsub))
            (fun b a b' hba => convCoord_est hba) _ f2 f3 hf3
          cases hf4 : foldOpt (convRef true s A) f3 s.cons.live with
          | none => exact h
          | some f4 =>
            simp only
            -- invariant of the last loop: consistent, and the coordinates stay stored
            have := foldOpt_inv
              (fun st => Conv s st ∧ ∀ p, s.ctype.get p.1 = some p.2 → CoordStored s A st p)
              (fun st (p : (CType × Key) × Con) => if s.cons.get p.1 = some p.2 then convRef true s A st p else some st)
              (fun b a b' hb hba => by
                split at hba
                · rename_i hp
                  exact ⟨convRef_conv h A hb.1 hb.2 hp hba,
                    fun p hp' hl ax cc hx hcc hsub => convRef_mono hba _ (hb.2 p hp' hl ax cc hx hcc hsub)⟩
                · simp only [Option.some.injEq] at hba; subst hba; exact hb)
              s.cons.live f3 f4
              ⟨c3, fun p hp => hstored p ((Dict.mem_live _ p).mpr hp)⟩
              (by
                -- on the live entries the guarded step is the step
                have : ∀ (l : List ((CType × Key) × Con)) (b : St), (∀ p ∈ l, s.cons.get p.1 = some p.2) →
                    foldOpt (fun st (p : (CType × Key) × Con) => if s.cons.get p.1 = some p.2 then convRef true s A st p else some st) b l
                      = foldOpt (convRef true s A) b l := by
                  intro l
                  induction l with
                  | nil => intro b _; rfl
                  | cons a r ih =>
                    intro b hl
                    unfold foldOpt
                    rw [if_pos (hl a (by simp))]
                    cases convRef true s A b a with
                    | none => rfl
                    | some b1 => exact ih b1 (fun p hp => hl p (by simp [hp]))
                rw [this _ _ (fun p hp => (Dict.mem_live _ p).mp hp)]
                exact hf4)
            exact this.1.1

end Cfdm.Constructs
