import Cfdm.Lemmas.ConstructsConvert
/-
C02 — `Field.__getitem__`: the domain axes are resized first and the constructs that span them are
re-inserted afterwards, so the invariant does not hold in between.  What holds throughout is the
invariant of the *masked* state (`maskSt`: without the recorded axes of the constructs that span a data
axis, and without the field's data and data axes); every re-inserted construct passes the (HEAD)
axes check of `set_construct`, and the final `set_data` checks the field's data axes.
-/
namespace Cfdm.Constructs


theorem relead_take (lead x : List Nat) (n : Nat) (hl : lead.length ≤ n) :
    (relead lead x).take n = relead lead (x.take n) := by
  unfold relead
  rw [List.take_append, List.take_of_length_le hl, List.drop_take]

theorem relead_length (lead x : List Nat) (hl : lead.length ≤ x.length) : (relead lead x).length = x.length := by
  unfold relead
  simp only [List.length_append, List.length_drop]
  omega

theorem subLead_length_le (A : List Key) (ns : List Nat) (cax : List Key) (shp : List Nat) :
    (subLead A ns cax shp).length ≤ shp.length := by
  unfold subLead
  simp only [List.length_map, List.length_zip]
  omega

/-- subspacing keeps bounds and interior ring aligned with the data, and the construct's shape is re-led -/
theorem array_cases {t : CType} (h : t.isArray = true) : modelled t = true ∨ t = .top ∨ t = .con := by
  cases t <;> simp [modelled, CType.isArray] at h ⊢

theorem subCon_shape_wf {t : CType} (ht : t.isArray = true) {c : Con} {shp : List Nat} (hs : c.shape t = some shp)
    (hwf : c.WF t) (lead : List Nat) (hl : lead.length ≤ shp.length) :
    (subCon c lead).shape t = some (relead lead shp) ∧ (subCon c lead).WF t := by
  have hdim := hwf.2
  have hwf := hwf.1
  unfold Con.LeadOK at hwf
  rw [hs] at hwf
  simp only at hwf
  obtain ⟨hb, hr⟩ := hwf
  have key : (subCon c lead).shape t = some (relead lead shp) := by
    by_cases htop : t = .top ∨ t = .con
    · -- domain topology / cell connectivity: the shape is the first dimension of the data
      have hsh : ∀ c' : Con, c'.shape t = c'.data.map (fun d => d.take 1) := by
        intro c'; unfold Con.shape; rcases htop with e | e <;> subst e <;> simp [CType.isArray]
      rw [hsh] at hs ⊢
      cases hd : c.data with
      | none => simp [hd] at hs
      | some d =>
        simp only [hd, Option.map_some, Option.some.injEq] at hs
        subst hs
        simp only [subCon, hd, Option.map_some, Option.some.injEq]
        have : lead.length ≤ 1 := by
          have := hl; simp only [List.length_take] at this; omega
        exact relead_take lead d 1 this
    have ht : modelled t = true := by
      rcases array_cases ht with h1 | h1
      · exact h1
      · exact absurd h1 htop
    rw [modelled_shape ht] at hs
    rw [modelled_shape ht]
    cases hd : c.data with
    | some d =>
      simp only [hd, Option.some.injEq] at hs
      subst hs
      simp [subCon, hd]
    | none =>
      simp only [hd] at hs
      cases hbd : c.bounds with
      | none => simp [hbd] at hs
      | some b =>
        simp only [hbd, Option.map_some, Option.some.injEq] at hs
        simp only [subCon, hd, hbd, Option.map_none, Option.map_some, Option.some.injEq]
        have hlen : shp.length ≤ b.length := by rw [← hs]; simp [List.length_take]
        have hlb : lead.length ≤ b.length := by omega
        rw [relead_length lead b hlb]
        have hn : (b.length - if c.geom = true then 2 else 1) = shp.length ∨ shp.length = b.length := by
          have := congrArg List.length hs
          simp only [List.length_take] at this
          omega
        rcases hn with hn | hn
        · rw [hn, relead_take lead b shp.length hl]
          congr 1
          rw [← hn]; exact hs
        · -- the whole of the bounds is the shape
          have e : shp = b := by
            rw [← hs]; apply List.take_of_length_le
            have := congrArg List.length hs
            simp only [List.length_take] at this
            omega
          subst e
          apply List.take_of_length_le
          rw [relead_length lead shp hl]
          have := congrArg List.length hs
          simp only [List.length_take] at this
          omega
  refine ⟨key, ?_, ?_⟩
  · unfold Con.LeadOK
    rw [key]
    simp only
    rw [relead_length lead shp hl]
    refine ⟨?_, ?_⟩
    · cases hbd : c.bounds with
      | none => simp [subCon, hbd]
      | some b =>
        simp only [hbd] at hb
        simp only [subCon, hbd, Option.map_some]
        rw [relead_take lead b shp.length hl, hb]
    · cases hrd : c.ring with
      | none => simp [subCon, hrd]
      | some r =>
        simp only [hrd] at hr
        simp only [subCon, hrd, Option.map_some]
        rw [relead_take lead r shp.length hl, hr]
  · -- a one-dimensional dimension coordinate stays one-dimensional
    intro e
    have h0 := hdim e
    rw [modelled_shape (t := t) (by subst e; rfl)] at hs
    cases hd : c.data with
    | none => simp [subCon, hd]
    | some d =>
      simp only [hd] at h0 hs
      simp only [Option.some.injEq] at hs
      subst hs
      simp only [subCon, hd, Option.map_some]
      rw [relead_length lead d hl]; exact h0




namespace Dict
variable {κ ν : Type} [DecidableEq κ]

theorem get_none_of_not_mem {d : Dict κ ν} {k : κ} (h : ∀ v, (k, v) ∉ d) : d.get k = none := by
  induction d with
  | nil => rfl
  | cons p r ih =>
    rw [get_cons]
    by_cases hp : p.1 = k
    · exact absurd (by rw [← hp]; exact List.mem_cons_self) (h p.2)
    · rw [if_neg hp]; exact ih (fun v hv => h v (List.mem_cons_of_mem _ hv))

theorem get_isSome_of_mem {d : Dict κ ν} {k : κ} {v : ν} (h : (k, v) ∈ d) : (d.get k).isSome = true := by
  cases hg : d.get k with
  | some _ => rfl
  | none =>
    exfalso
    induction d with
    | nil => simp at h
    | cons p r ih =>
      rw [get_cons] at hg
      by_cases hp : p.1 = k
      · simp [hp] at hg
      · rw [if_neg hp] at hg
        rcases List.mem_cons.mp h with e | e
        · exact hp (by rw [← e])
        · exact ih e hg

theorem get_liveFilter [DecidableEq ν] (d : Dict κ ν) (P : κ × ν → Bool) (k : κ) :
    Dict.get ((live d).filter P) k = match d.get k with
      | some v => if P (k, v) then some v else none
      | none => none := by
  have hmem : ∀ v, (k, v) ∈ (live d).filter P ↔ d.get k = some v ∧ P (k, v) = true := by
    intro v; rw [List.mem_filter, mem_live]
  cases hg : d.get k with
  | none =>
    simp only
    apply get_none_of_not_mem
    intro v hv
    have := (hmem v).mp hv
    rw [hg] at this; cases this.1
  | some v0 =>
    simp only
    by_cases hp : P (k, v0) = true
    · rw [if_pos hp]
      have h1 := get_isSome_of_mem ((hmem v0).mpr ⟨hg, hp⟩)
      cases hg2 : Dict.get ((live d).filter P) k with
      | none => simp [hg2] at h1
      | some v' =>
        have := (hmem v').mp (get_mem hg2)
        rw [hg] at this
        simp only [Option.some.injEq] at this
        rw [this.1]
    · rw [if_neg hp]
      apply get_none_of_not_mem
      intro v hv
      have := (hmem v).mp hv
      rw [hg] at this
      simp only [Option.some.injEq] at this
      rw [← this.1] at this
      exact hp this.2

end Dict

/-- does the axes tuple name one of the data axes `A`? -/
def spansB (A : List Key) (cax : List Key) : Bool := cax.any (fun a => A.contains a)

/-- the state without the recorded axes of the constructs that span `A`, and without the field's data and
data axes: what stays consistent while `__getitem__` resizes the axes `A` -/
def maskSt (A : List Key) (st : St) : St :=
  { cons := st.cons, ctype := st.ctype, caxes := st.caxes.live.filter (fun p => !(spansB A p.2)),
    data := none, dataAxes := none, fda := none }

theorem mask_caxes (A : List Key) (st : St) (k : Key) :
    (maskSt A st).caxes.get k = match st.caxes.get k with
      | some cax => if spansB A cax then none else some cax
      | none => none := by
  unfold maskSt
  simp only
  rw [Dict.get_liveFilter]
  cases st.caxes.get k with
  | none => rfl
  | some cax => cases h : spansB A cax <;> simp [h]

theorem core_mask {s : St} (h : Core s) (A : List Key) : Core (maskSt A s) := by
  refine ⟨h.tos, h.sot, ?_, h.wf, ⟨trivial, rfl⟩, h.refs, h.cms⟩
  intro k A' hk
  rw [mask_caxes] at hk
  cases hg : s.caxes.get k with
  | none => simp [hg] at hk
  | some cax =>
    simp only [hg] at hk
    split at hk
    · cases hk
    · simp only [Option.some.injEq] at hk; subst hk
      exact h.cax k cax hg



/-- everything an accepted `set_construct(c, key=k)` without axes does (code at HEAD) -/
theorem setConstruct_ok_full {f f' : St} {view : Bool} {t : CType} {c : Con} {k : Key} {o : Option Key}
    (h : setConstruct true f view t c (some k) none = (f', .ok o)) :
    (∀ q, f'.cons.get q = if q = (t, k) then some c else f.cons.get q) ∧
    (∀ q, f'.ctype.get q = if q = k then some t else f.ctype.get q) ∧
    (∀ q, f'.caxes.get q = f.caxes.get q) ∧ f'.data = f.data ∧ f'.dataAxes = f.dataAxes ∧ f'.fda = f.fda ∧
    (∀ t', f.ctype.get k = some t' → t' = t) ∧
    (t.isArray = true → ∀ cax, f.caxes.get k = some cax → axesCheck f t c cax = true) := by
  have hcons := setConstruct_ok_cons h
  unfold setConstruct at h
  by_cases hig : ignored view t = true
  · rw [if_pos hig] at h; simp at h
  rw [if_neg hig] at h
  unfold resolveKey at h
  simp only at h
  by_cases hk : (f.ctype.get k).getD t = t
  · rw [if_pos hk] at h
    simp only at h
    have hfree : ∀ t', f.ctype.get k = some t' → t' = t := fun t' ht' => by rw [ht'] at hk; simpa using hk
    unfold storeAt axesFor at h
    simp only [↓reduceIte] at h
    by_cases harr : t.isArray = true
    · rw [if_pos harr] at h
      cases hx : f.caxes.get k with
      | none =>
        simp only [hx, Prod.mk.injEq, Out.ok.injEq] at h
        obtain ⟨rfl, _⟩ := h
        exact ⟨hcons, putCon_ctype f t k c, fun _ => rfl, rfl, rfl, rfl, hfree, fun _ cax hc => by cases hc⟩
      | some cax =>
        simp only [hx] at h
        by_cases hchk : axesCheck f t c cax = true
        · rw [if_pos hchk] at h
          simp only [Prod.mk.injEq, Out.ok.injEq] at h
          obtain ⟨rfl, _⟩ := h
          refine ⟨hcons, putCon_ctype f t k c, fun q => ?_, rfl, rfl, rfl, hfree, fun _ cax' hc => ?_⟩
          · show (f.caxes.set k cax).get q = _
            rw [Dict.get_set]; split
            · rename_i e; subst e; exact hx.symm
            · rfl
          · simp only [Option.some.injEq] at hc; subst hc; exact hchk
        · rw [if_neg hchk] at h; simp at h
    · rw [if_neg harr] at h
      simp only [Option.isSome_none, Bool.false_eq_true, ↓reduceIte, Prod.mk.injEq, Out.ok.injEq] at h
      obtain ⟨rfl, _⟩ := h
      exact ⟨hcons, putCon_ctype f t k c, fun _ => rfl, rfl, rfl, rfl, hfree, fun ha => absurd ha harr⟩
  · rw [if_neg hk] at h; simp at h


/-- what holds while `__getitem__` works on the copy `st` of `new` -/
structure SubInv (A : List Key) (new st : St) : Prop where
  core : Core (maskSt A st)
  hasCon : ∀ k cax, st.caxes.get k = some cax → (conOf st k).isSome = true
  mono : ∀ q, (new.cons.get q).isSome = true → (st.cons.get q).isSome = true
  da : st.dataAxes = new.dataAxes
  fd : st.fda = new.fda

theorem subInv_start {new : St} (h : Core new) (A : List Key) : SubInv A new new :=
  ⟨core_mask h A, fun k cax hk => by
    have := h.cax k cax hk
    cases hc : conOf new k with
    | none => simp [hc] at this
    | some _ => rfl, fun _ hq => hq, rfl, rfl⟩

theorem conOf_isSome_step {f f' : St} {t : CType} {k : Key} {c : Con}
    (hcons : ∀ q, f'.cons.get q = if q = (t, k) then some c else f.cons.get q)
    (hct : ∀ q, f'.ctype.get q = if q = k then some t else f.ctype.get q)
    (q : Key) (h : (conOf f q).isSome = true) : (conOf f' q).isSome = true := by
  unfold conOf at h ⊢
  rw [hct]
  by_cases hq : q = k
  · subst hq; simp [hcons]
  · rw [if_neg hq]
    cases hg : f.ctype.get q with
    | none => simp [hg] at h
    | some t0 =>
      simp only [hg] at h ⊢
      rw [hcons, if_neg (by intro e; cases e; exact hq rfl)]
      exact h

/-- one resized axis -/
theorem resizeOne_inv {A : List Key} {new st st' : St} (h : SubInv A new st) {p : Key × Nat} (hp : p.1 ∈ A)
    (hr : resizeOne true st p = some st') : SubInv A new st' := by
  unfold resizeOne at hr
  cases hg : st.cons.get (.axis, p.1) with
  | none => simp [hg] at hr
  | some c =>
    simp only [hg] at hr
    cases hsc : setConstruct true st false .axis { c with size := some p.2 } (some p.1) none with
    | mk f1 o =>
      rw [hsc] at hr
      cases o with
      | rejected => simp at hr
      | ok ko =>
        simp only [Option.some.injEq] at hr; subst hr
        obtain ⟨hcons, hct, hcx, hd, hda, hfd, hfree, _⟩ := setConstruct_ok_full hsc
        have hmask : ∀ q, (maskSt A f1).caxes.get q = (maskSt A st).caxes.get q := by
          intro q; rw [mask_caxes, mask_caxes, hcx]
        refine ⟨?_, ?_, ?_, by rw [hda, h.da], by rw [hfd, h.fd]⟩
        · refine core_store (t := .axis) (k := p.1) (c := { c with size := some p.2 })
            (ax := (maskSt A st).caxes.get p.1) h.core hcons hct
            (fun q => by rw [hmask]; by_cases hq : q = p.1 <;> simp [hq]) rfl rfl rfl hfree
            (wf_noShape (shape_axis _) (by decide)) ?_ ?_ (fun e => by cases e) (fun e => by cases e)
          · intro A' hA'
            apply axesOK_of_noShape (shape_axis _)
            have := h.core.cax p.1 A' hA'
            cases hc : conOf (maskSt A st) p.1 with
            | none => simp [hc] at this
            | some tc =>
              simp only [hc] at this
              intro a ha
              have h1 := this.1 a ha
              show ((f1.cons.get (CType.axis, a))).isSome = true
              rw [hcons]; split
              · rfl
              · exact h1
          · intro _ old _
            right
            rintro (⟨q, A', hq, ha⟩ | ha)
            · rw [mask_caxes] at hq
              cases hx : st.caxes.get q with
              | none => simp [hx] at hq
              | some cax =>
                simp only [hx] at hq
                split at hq
                · cases hq
                · rename_i hns
                  simp only [Option.some.injEq] at hq; subst hq
                  apply hns
                  unfold spansB
                  rw [List.any_eq_true]
                  exact ⟨p.1, ha, by simpa using hp⟩
            · simp [maskSt] at ha
        · intro k cax hk
          rw [hcx] at hk
          exact conOf_isSome_step hcons hct k (h.hasCon k cax hk)
        · intro q hq
          have := h.mono q hq
          rw [hcons]; split
          · rfl
          · exact this


/-- what one step of the loop over the constructs does -/
theorem subOne_step {A : List Key} {ns : List Nat} {st st' : St} {p : CType × Key}
    (hr : subOne true A ns st p = some st') :
    (st' = st ∧ ∀ cax c, st.caxes.get p.2 = some cax → st.cons.get p = some c → spansB A cax = false) ∨
    (∃ cax c shp o, st.caxes.get p.2 = some cax ∧ st.cons.get p = some c ∧ spansB A cax = true ∧
      p.1.isArray = true ∧ c.shape p.1 = some shp ∧
      setConstruct true st false p.1 (subCon c (subLead A ns cax shp)) (some p.2) none = (st', .ok o)) := by
  unfold subOne at hr
  cases hx : st.caxes.get p.2 with
  | none =>
    simp only [hx, Option.some.injEq] at hr
    exact Or.inl ⟨hr.symm, fun cax c h => by cases h⟩
  | some cax =>
    cases hc : st.cons.get p with
    | none =>
      simp only [hx, hc, Option.some.injEq] at hr
      exact Or.inl ⟨hr.symm, fun cax c _ h => by cases h⟩
    | some c =>
      simp only [hx, hc] at hr
      split at hr
      · rename_i hns
        simp only [Option.some.injEq] at hr
        refine Or.inl ⟨hr.symm, fun cax' c' h1 _ => ?_⟩
        simp only [Option.some.injEq] at h1; subst h1
        unfold spansB; simpa using hns
      rename_i hsp
      split at hr
      · cases hr
      rename_i hmod
      cases hs : c.shape p.1 with
      | none => simp [hs] at hr
      | some shp =>
        simp only [hs] at hr
        cases hsc : setConstruct true st false p.1 (subCon c (subLead A ns cax shp)) (some p.2) none with
        | mk f1 o =>
          rw [hsc] at hr
          cases o with
          | rejected => simp at hr
          | ok ko =>
            simp only [Option.some.injEq] at hr; subst hr
            exact Or.inr ⟨cax, c, shp, ko, rfl, rfl, by unfold spansB; simpa using hsp, by simpa using hmod, hs, hsc⟩

theorem modelled_ne_axis {t : CType} (h : t.isArray = true) : t.isArray = true ∧ t ≠ .axis ∧ t ≠ .ref ∧ t ≠ .cm := by
  cases t <;> simp [CType.isArray] at h ⊢

/-- the state at the start of the loop over the constructs, `s1`, fixes the sizes, keys and recorded axes -/
structure SubInv2 (A : List Key) (new s1 st : St) : Prop where
  inv : SubInv A new st
  axes : ∀ a, st.cons.get (.axis, a) = s1.cons.get (.axis, a)
  keys : ∀ q, (st.cons.get q).isSome = true → (s1.cons.get q).isSome = true
  cax : ∀ q, st.caxes.get q = s1.caxes.get q

theorem subOne_inv {A : List Key} {ns : List Nat} {new s1 st st' : St} {p : CType × Key}
    (h : SubInv2 A new s1 st) (hr : subOne true A ns st p = some st') : SubInv2 A new s1 st' := by
  rcases subOne_step hr with ⟨rfl, _⟩ | ⟨cax, c, shp, o, hx, hc, hsp, hmod, hs, hsc⟩
  · exact h
  obtain ⟨t, k⟩ := p
  simp only at hx hc hmod hs hsc
  obtain ⟨harr, hta, htr, htc⟩ := modelled_ne_axis hmod
  obtain ⟨hcons, hct, hcx, hd, hda, hfd, hfree, _⟩ := setConstruct_ok_full hsc
  have hwf0 : c.WF t := h.inv.core.wf (t, k) c hc
  have hwf := (subCon_shape_wf hmod hs hwf0 (subLead A ns cax shp) (subLead_length_le A ns cax shp)).2
  have hmask : ∀ q, (maskSt A st').caxes.get q = (maskSt A st).caxes.get q := by
    intro q; rw [mask_caxes, mask_caxes, hcx]
  refine ⟨⟨?_, ?_, ?_, by rw [hda, h.inv.da], by rw [hfd, h.inv.fd]⟩, ?_, ?_, fun q => by rw [hcx, h.cax]⟩
  · refine core_store (t := t) (k := k) (c := subCon c (subLead A ns cax shp)) (ax := none) h.inv.core hcons hct
      (fun q => by
        rw [hmask]
        by_cases hq : q = k
        · subst hq; rw [if_pos rfl, mask_caxes, hx]; simp [hsp]
        · rw [if_neg hq]) rfl rfl rfl hfree hwf (fun A' hA' => by cases hA')
      (fun e => absurd e hta) (fun e => absurd e htr) (fun e => absurd e htc)
  · intro q cx hq
    rw [hcx] at hq
    exact conOf_isSome_step hcons hct q (h.inv.hasCon q cx hq)
  · intro q hq
    have := h.inv.mono q hq
    rw [hcons]; split
    · rfl
    · exact this
  · intro a
    rw [hcons, if_neg (by intro e; cases e; exact hta rfl)]
    exact h.axes a
  · intro q hq
    rw [hcons] at hq
    split at hq
    · rename_i e; subst e; exact h.keys _ (by rw [hc]; rfl)
    · exact h.keys q hq

/-- the re-inserted construct satisfies the axes clause -/
def SubDone (A : List Key) (st : St) (p : CType × Key) : Prop :=
  ∀ cax c, st.caxes.get p.2 = some cax → st.cons.get p = some c → spansB A cax = true → AxesOK st p.1 c cax

theorem subOne_est {A : List Key} {ns : List Nat} {new s1 st st' : St} {p : CType × Key}
    (h : SubInv2 A new s1 st) (hr : subOne true A ns st p = some st') : SubDone A st' p := by
  rcases subOne_step hr with ⟨rfl, hns⟩ | ⟨cax, c, shp, o, hx, hc, hsp, hmod, hs, hsc⟩
  · intro cax c h1 h2 h3
    rw [hns cax c h1 h2] at h3; cases h3
  obtain ⟨t, k⟩ := p
  simp only at hx hc hmod hs hsc
  obtain ⟨harr, hta, _, _⟩ := modelled_ne_axis hmod
  obtain ⟨hcons, hct, hcx, hd, hda, hfd, hfree, hchk⟩ := setConstruct_ok_full hsc
  have hwf0 : c.WF t := h.inv.core.wf (t, k) c hc
  have hwf := (subCon_shape_wf hmod hs hwf0 (subLead A ns cax shp) (subLead_length_le A ns cax shp)).2
  intro cax' c' h1 h2 _
  simp only at h1 h2
  rw [hcx, hx] at h1
  simp only [Option.some.injEq] at h1; subst h1
  rw [hcons, if_pos rfl] at h2
  simp only [Option.some.injEq] at h2; subst h2
  refine (axesOK_congr (fun a _ => ?_) t _).mpr (axesOK_of_check hwf (hchk harr cax hx))
  unfold axSize
  rw [hcons, if_neg (by intro e; cases e; exact hta rfl)]

theorem subOne_keep {A : List Key} {ns : List Nat} {new s1 st st' : St} {p x : CType × Key}
    (h : SubInv2 A new s1 st) (hr : subOne true A ns st p = some st') (hq : SubDone A st x) : SubDone A st' x := by
  by_cases hxp : x = p
  · subst hxp; exact subOne_est h hr
  rcases subOne_step hr with ⟨rfl, _⟩ | ⟨cax, c, shp, o, hx, hc, hsp, hmod, hs, hsc⟩
  · exact hq
  obtain ⟨t, k⟩ := p
  simp only at hx hc hmod hs hsc
  obtain ⟨harr, hta, _, _⟩ := modelled_ne_axis hmod
  obtain ⟨hcons, hct, hcx, hd, hda, hfd, hfree, hchk⟩ := setConstruct_ok_full hsc
  have hsize : ∀ a, axSize st' a = axSize st a := by
    intro a; unfold axSize
    rw [hcons, if_neg (by intro e; cases e; exact hta rfl)]
  intro cax' c' h1 h2 h3
  rw [hcx] at h1
  rw [hcons, if_neg hxp] at h2
  exact (axesOK_congr (fun a _ => hsize a) x.1 c').mpr (hq cax' c' h1 h2 h3)

theorem foldOpt_inv_all {α β} (f : β → α → Option β) (I : β → Prop) (Q : β → α → Prop)
    (hI : ∀ b a b', I b → f b a = some b' → I b')
    (hmono : ∀ b a b' x, I b → f b a = some b' → Q b x → Q b' x)
    (hest : ∀ b a b', I b → f b a = some b' → Q b' a) :
    ∀ (l : List α) (b b' : β), I b → foldOpt f b l = some b' → I b' ∧ ∀ x ∈ l, Q b' x := by
  intro l
  induction l with
  | nil =>
    intro b b' hb h
    simp only [foldOpt, Option.some.injEq] at h; subst h
    exact ⟨hb, fun x hx => by simp at hx⟩
  | cons a r ih =>
    intro b b' hb h
    unfold foldOpt at h
    cases hf : f b a with
    | none => simp [hf] at h
    | some b1 =>
      simp only [hf] at h
      have hb1 := hI b a b1 hb hf
      obtain ⟨hI', hall⟩ := ih b1 b' hb1 h
      refine ⟨hI', fun x hx => ?_⟩
      rcases List.mem_cons.mp hx with e | e
      · subst e
        -- established at its own step, kept by the remaining ones
        have key : ∀ (l : List α) (c c' : β), I c → Q c x → foldOpt f c l = some c' → Q c' x := by
          intro l
          induction l with
          | nil => intro c c' _ hq hc; simp only [foldOpt, Option.some.injEq] at hc; subst hc; exact hq
          | cons a2 r2 ih2 =>
            intro c c' hc hq hfold
            unfold foldOpt at hfold
            cases hf2 : f c a2 with
            | none => simp [hf2] at hfold
            | some c2 =>
              simp only [hf2] at hfold
              exact ih2 c2 c' (hI c a2 c2 hc hf2) (hmono c a2 c2 x hc hf2 hq) hfold
        exact key r b1 b' hb1 (hest b x b1 hb hf) h
      · exact hall x e

theorem any_contains_nil (cax : List Key) : spansB [] cax = false := by
  unfold spansB; simp

/-- **`Field.__getitem__` after the copy keeps the invariant.** -/
theorem subTail_core {new s3 : St} (h : Core new) (A : List Key) (ns : List Nat)
    (hr : subTail true new A ns = some s3) : Core s3 := by
  unfold subTail at hr
  split at hr
  · cases hr
  rename_i s1 h1
  split at hr
  · cases hr
  rename_i s2 h2
  -- phase 1: the axes are resized
  have i1 : SubInv A new s1 := by
    have key : ∀ (l : List (Key × Nat)) (b b' : St), (∀ p ∈ l, p.1 ∈ A) → SubInv A new b →
        foldOpt (resizeOne true) b l = some b' → SubInv A new b' := by
      intro l
      induction l with
      | nil => intro b b' _ hb hf; simp only [foldOpt, Option.some.injEq] at hf; subst hf; exact hb
      | cons a r ih =>
        intro b b' hl hb hf
        unfold foldOpt at hf
        cases hfa : resizeOne true b a with
        | none => simp [hfa] at hf
        | some b1 =>
          simp only [hfa] at hf
          exact ih b1 b' (fun p hp => hl p (by simp [hp])) (resizeOne_inv hb (hl a (by simp)) hfa) hf
    exact key _ new s1 (fun p hp => (List.of_mem_zip hp).1) (subInv_start h A) h1
  -- whatever the final `set_data` returns when it accepts satisfies the invariant
  have hfin : ∀ s3' ko, setData true s2 ns none = (s3', .ok ko) → Core s3' := by
    intro s3' ko3 hsd3
    have hr : (match setData true s2 ns none with
      | (s3, Out.ok _) => some s3
      | (_, Out.rejected) => none) = some s3' := by rw [hsd3]
    clear hsd3
    (
      -- phase 2: the constructs that span a data axis are re-inserted
      obtain ⟨i2, hdone⟩ := foldOpt_inv_all (subOne true A ns) (fun st => SubInv2 A new s1 st) (SubDone A)
        (fun b a b' hb hba => subOne_inv hb hba) (fun b a b' x hb hba hq => subOne_keep hb hba hq)
        (fun b a b' hb hba => subOne_est hb hba) _ s1 s2 ⟨i1, fun _ => rfl, fun _ hq => hq, fun _ => rfl⟩ h2
      -- the dictionary clauses hold again for the unmasked state
      have hcax : ∀ k cax, s2.caxes.get k = some cax →
          match conOf s2 k with
          | some (t, c) => AxesOK s2 t c cax
          | none => False := by
        intro k cax hk
        have hc := i2.inv.hasCon k cax hk
        cases hco : conOf s2 k with
        | none => simp [hco] at hc
        | some tc =>
          obtain ⟨t, c⟩ := tc
          simp only
          have hg : s2.cons.get (t, k) = some c := by
            unfold conOf at hco
            cases ht : s2.ctype.get k with
            | none => simp [ht] at hco
            | some t0 =>
              simp only [ht] at hco
              cases hg0 : s2.cons.get (t0, k) with
              | none => simp [hg0] at hco
              | some c0 =>
                simp only [hg0, Option.map_some, Option.some.injEq, Prod.mk.injEq] at hco
                obtain ⟨rfl, rfl⟩ := hco; exact hg0
          by_cases hsp : spansB A cax = true
          · -- re-inserted by the loop
            have hne : A.isEmpty = false := by
              cases A with
              | nil => rw [any_contains_nil] at hsp; cases hsp
              | cons _ _ => rfl
            have hmem : (t, k) ∈ (if A.isEmpty then [] else s1.cons.live.map (·.1)) := by
              rw [hne]
              simp only [Bool.false_eq_true, ↓reduceIte, List.mem_map]
              have := i2.keys (t, k) (by rw [hg]; rfl)
              cases hg1 : s1.cons.get (t, k) with
              | none => simp [hg1] at this
              | some c1 => exact ⟨((t, k), c1), (Dict.mem_live _ _).mpr hg1, rfl⟩
            exact hdone (t, k) hmem cax c hk hg hsp
          · -- not touched: still in the masked state
            have hm : (maskSt A s2).caxes.get k = some cax := by
              rw [mask_caxes, hk]; simp [hsp]
            have := i2.inv.core.cax k cax hm
            have e : conOf (maskSt A s2) k = conOf s2 k := rfl
            rw [e, hco] at this
            exact this
      -- the field's data axes exist (axes are never removed) and are re-checked by `set_data`
      have hfd : s2.fda = s2.dataAxes := by rw [i2.inv.fd, i2.inv.da]; exact h.fax.2
      have hexist : ∀ A0, s2.dataAxes = some A0 → AxesExist s2 A0 := by
        intro A0 hA0
        rw [i2.inv.da] at hA0
        have := h.fax.1
        simp only [hA0] at this
        exact fun a ha => i2.inv.mono _ (this.1 a ha)
      have c2 : Core { s2 with data := none } := by
        refine ⟨i2.inv.core.tos, i2.inv.core.sot, hcax, i2.inv.core.wf, ⟨?_, hfd⟩, i2.inv.core.refs, i2.inv.core.cms⟩
        cases hA0 : s2.dataAxes with
        | none => trivial
        | some A0 => exact ⟨hexist A0 hA0, trivial⟩
      have c3 := setData_core c2 ns none
      -- `set_data` does not look at the old data
      have e : setData true s2 ns none = setData true { s2 with data := none } ns none ∨
          (setData true s2 ns none).2 = .rejected := by
        unfold setData dataAxesFor
        simp only
        cases hA0 : s2.dataAxes with
        | none => left; rfl
        | some A0 =>
          simp only
          unfold setDataAxes
          simp only [sizesOf]
          by_cases hs : sizesOfD s2.cons A0 = some ns
          · left; simp [hs]
          · right; simp [hs]
      rcases e with e | e
      · rw [e] at hr
        cases hsd : setData true { s2 with data := none } ns none with
        | mk s3' o =>
          rw [hsd] at hr c3
          cases o with
          | rejected => simp at hr
          | ok ko => simp only [Option.some.injEq] at hr; subst hr; exact c3
      · cases hsd : setData true s2 ns none with
        | mk s3'' o =>
          rw [hsd] at hr e
          simp only at e
          subst e
          simp at hr
    )
  split at hr
  · rename_i s3' ko hsd
    simp only [Option.some.injEq] at hr; subst hr
    exact hfin _ ko hsd
  · cases hr

theorem subspace_core {s : St} (h : Core s) (ix : List (Nat × Nat)) : Core (subspace true s ix).1 := by
  unfold subspace
  have hc := copyField_core h
  cases hcp : copyField true s with
  | mk new o =>
    rw [hcp] at hc
    cases o with
    | rejected => exact h
    | ok ko =>
      simp only
      cases s.data with
      | none => exact h
      | some shp =>
        cases s.dataAxes with
        | none => exact h
        | some A =>
          simp only
          cases subSizes shp ix with
          | none => exact h
          | some ns =>
            simp only
            cases ht : subTail true new A ns with
            | none => exact h
            | some s3 => exact subTail_core hc A ns ht

end Cfdm.Constructs
