import Cfdm.Lemmas.CodecEquiv
/-
C01: of all the variables of the written file only the data variable becomes a field.
-/
namespace Cfdm.Codec

theorem reinstate_none (referencers : String → List String) (cur : List String) (l out : List String)
    (h : ∀ n ∈ l, ∃ r ∈ referencers n, r ∉ cur) : reinstate referencers l cur out = out := by
  induction l generalizing out with
  | nil => rfl
  | cons n rest ih =>
    unfold reinstate
    obtain ⟨r, hr, hrc⟩ := h n List.mem_cons_self
    have : (referencers n).all cur.contains = false := by
      rw [Bool.eq_false_iff]
      intro hall
      rw [List.all_eq_true] at hall
      have := hall r hr
      simp at this
      exact hrc this
    rw [this]
    simp only [Bool.false_eq_true, ↓reduceIte]
    exact ih out (fun m hm => h m (List.mem_cons_of_mem _ hm))

section
variable {o : Opts} {f : MField} {names : List (Slot × String)} (hwf : WFField f) (hg : GoodNames f (wfAx f) names)
include hwf hg

/-- Names of the variables of metadata constructs and of their bounds. -/
def IsMetaName (f : MField) (names : List (Slot × String)) (r : String) : Prop :=
  (∃ e ∈ f.cons, r = nameOf names (.con e.key)) ∨
  (∃ e ∈ f.cons, ∃ b, isCoord e = true ∧ e.con.bounds = some b ∧ r = nameOf names (.bvar e.key))

theorem meta_ne_field {r : String} (h : IsMetaName f names r) : r ≠ nameOf names .field := by
  intro heq
  rcases h with ⟨e, he, rfl⟩ | ⟨e, he, b, hc, hb, rfl⟩
  · have : Slot.con e.key = Slot.field := hg.nameOf_inj (slot_con hwf hg he) hg.field heq (Or.inl rfl)
    cases this
  · have : Slot.bvar e.key = Slot.field := hg.nameOf_inj (slot_bounds hwf hg he hc hb).1 hg.field heq (Or.inl rfl)
    cases this

theorem var_meta {w : NcVar} (hw : w ∈ (wfFile o f names).vars) :
    w = dataVar o f (wfAx f) names ∨ IsMetaName f names w.name := by
  rcases mem_vars hwf hg hw with h | ⟨e, he, h | ⟨hc, b, hb, h⟩⟩
  · exact Or.inl h
  · right; left; exact ⟨e, he, by rw [h, mainVar_name]⟩
  · right; right; exact ⟨e, he, b, hc, hb, by rw [h]; rfl⟩

/-- The bounds attribute of any variable of the file names a bounds variable. -/
theorem boundsAttr_meta {w : NcVar} (hw : w ∈ (wfFile o f names).vars) {bn : String} (h : boundsAttr w = some bn) :
    IsMetaName f names bn := by
  rcases mem_vars hwf hg hw with hd | ⟨e, he, hm | ⟨hc, b, hb, hm⟩⟩
  · subst hd; cases h
  · subst hm
    unfold mainVar at h
    cases ht : e.con.ctype with
    | dim =>
      rw [ht] at h
      simp only at h
      unfold boundsAttr coordVar at h
      simp only at h
      cases hb : e.con.bounds with
      | none => rw [hb] at h; by_cases hcl : isClim f e = true <;> simp [hcl] at h
      | some b =>
        rw [hb] at h
        have : bn = nameOf names (.bvar e.key) := by by_cases hcl : isClim f e = true <;> simp [hcl] at h <;> exact h.symm
        right; exact ⟨e, he, b, by simp [isCoord, ht], hb, this⟩
    | aux =>
      rw [ht] at h
      simp only at h
      unfold boundsAttr coordVar at h
      simp only at h
      cases hb : e.con.bounds with
      | none => rw [hb] at h; by_cases hcl : isClim f e = true <;> simp [hcl] at h
      | some b =>
        rw [hb] at h
        have : bn = nameOf names (.bvar e.key) := by by_cases hcl : isClim f e = true <;> simp [hcl] at h <;> exact h.symm
        right; exact ⟨e, he, b, by simp [isCoord, ht], hb, this⟩
    | msr => rw [ht] at h; cases h
    | fan => rw [ht] at h; cases h
  · subst hm; cases h

omit hwf hg in
theorem var?_some {nc : NcFile} {n : String} {v : NcVar} (h : nc.var? n = some v) : v ∈ nc.vars ∧ v.name = n := by
  unfold NcFile.var? at h
  exact ⟨List.mem_of_find?_eq_some h, by simpa using List.find?_some h⟩

omit hwf hg in
theorem readBounds_ncvar {nc : NcFile} {v : NcVar} {b : MBounds} (h : readBounds nc v = some b) :
    ∃ bn, boundsAttr v = some bn ∧ b.ncvar = some bn := by
  unfold readBounds at h
  cases hba : boundsAttr v with
  | none => rw [hba] at h; cases h
  | some bn =>
    rw [hba] at h
    simp only [Option.bind_some] at h
    cases hvar : nc.var? bn with
    | none => rw [hvar] at h; cases h
    | some x =>
      rw [hvar] at h
      simp only [Option.bind_some] at h
      have hx := (var?_some hvar).2
      unfold readBoundsVar at h
      split at h
      · split at h
        · injection h with h
          exact ⟨bn, rfl, by rw [← h, ← hx]⟩
        · cases h
      · cases h

/-- What attaching a coordinate made from a variable of the file references. -/
theorem coordRefs_meta {v : NcVar} (hv : v ∈ (wfFile o f names).vars) (hne : v ≠ dataVar o f (wfAx f) names) :
    ∀ r ∈ coordRefs (wfFile o f names) v, IsMetaName f names r := by
  intro r hr
  unfold coordRefs at hr
  rcases List.mem_cons.mp hr with h | h
  · rcases var_meta hwf hg hv with h1 | h1
    · exact absurd h1 hne
    · rw [h]; exact h1
  · cases hrb : readBounds (wfFile o f names) v with
    | none => rw [hrb] at h; cases h
    | some b =>
      rw [hrb] at h
      simp only [List.mem_singleton] at h
      obtain ⟨bn, hba, hbn⟩ := readBounds_ncvar hrb
      rw [h, hbn]
      exact boundsAttr_meta hwf hg hv hba

/-- The data variable is not its own coordinate variable. -/
theorem data_not_coordvar : (dataVar o f (wfAx f) names).dims ≠ [(dataVar o f (wfAx f) names).name] := by
  rw [dataVar_dims hwf]
  intro h
  have hn : (dataVar o f (wfAx f) names).name = nameOf names .field := rfl
  rw [hn] at h
  have hm : nameOf names .field ∈ f.dataAxes.map (piOf f names) := by rw [h]; exact List.mem_singleton_self _
  obtain ⟨a, had, h⟩ := List.mem_map.mp hm
  have hak := hwf.2.2.2.1 a had
  obtain ⟨s, hs⟩ := dataAxis_slot had
  rw [pi_data hwf hak had hs] at h
  obtain ⟨h1, h2⟩ := dimSlot_mem hwf hg hak hs
  have : s = Slot.field := hg.nameOf_inj h1 hg.field h (Or.inl h2)
  subst this
  unfold dimSlot at hs
  cases hr : wfRole f a <;> rw [hr] at hs <;> cases hs

/-- Nothing references the data variable. -/
theorem field_unreferenced {w : NcVar} (hw : w ∈ (wfFile o f names).vars) :
    nameOf names .field ∉ varRefs (wfFile o f names) w := by
  intro hmem
  have hmeta : ∀ r ∈ varRefs (wfFile o f names) w, IsMetaName f names r := by
    intro r hr
    unfold varRefs at hr
    simp only [List.mem_append, List.mem_flatMap] at hr
    rcases hr with ((⟨d, _, hr⟩ | ⟨t, ht, hr⟩) | ⟨m, hm, hr⟩) | ⟨t, ht, hr⟩
    · unfold dimRefs at hr
      cases hcv : (wfFile o f names).coordVar? d with
      | none => rw [hcv] at hr; cases hr
      | some v =>
        rw [hcv] at hr
        unfold NcFile.coordVar? at hcv
        cases hvar : (wfFile o f names).var? d with
        | none => rw [hvar] at hcv; cases hcv
        | some v' =>
          rw [hvar] at hcv
          simp only at hcv
          split at hcv
          · rename_i hdims
            have hvv : v' = v := by injection hcv
            rw [← hvv] at hr
            obtain ⟨hv1, hv2⟩ := var?_some hvar
            have hne : v' ≠ dataVar o f (wfAx f) names := by
              intro heq
              subst heq
              apply data_not_coordvar (o := o) hwf hg
              rw [hv2]; simpa using hdims
            exact coordRefs_meta hwf hg hv1 hne r hr
          · cases hcv
    · unfold tokenRefs at hr
      cases htv : tokenVar (wfFile o f names) w.dims t with
      | none => rw [htv] at hr; cases hr
      | some v =>
        rw [htv] at hr
        unfold tokenVar at htv
        split at htv
        · cases htv
        · cases hvar : (wfFile o f names).var? t with
          | none => rw [hvar] at htv; cases htv
          | some v' =>
            rw [hvar] at htv
            simp only at htv
            split at htv
            · have hvv : v' = v := by injection htv
              rw [← hvv] at hr
              obtain ⟨hv1, hv2⟩ := var?_some hvar
              -- the token is the name of a metadata variable
              have htm : IsMetaName f names t := by
                rcases mem_vars hwf hg hw with hd | ⟨e, he, hm | ⟨hc, b, hb, hm⟩⟩
                · subst hd
                  have : t ∈ coordTokens o f (wfAx f) names := ht
                  rw [coordTokens_eq, List.mem_append] at this
                  rcases this with h | h
                  · obtain ⟨ar, har, htok⟩ := List.mem_filterMap.mp h
                    obtain ⟨hak, hrr⟩ := mem_roles_wfAx.mp har
                    unfold roleToken at htok
                    cases hr2 : ar.2 with
                    | coordVar e =>
                      rw [hr2] at htok hrr
                      obtain ⟨_, hdc⟩ := role_coordVar hwf hg hrr.symm
                      by_cases hco : o.coordinates = true
                      · simp [hco] at htok
                        left; exact ⟨e, (dimCoordOf_some hdc).1, htok.symm⟩
                      · simp [hco] at htok
                    | scalarDim e =>
                      rw [hr2] at htok hrr
                      obtain ⟨_, hdc⟩ := role_scalarDim hwf hg hrr.symm
                      simp at htok
                      left; exact ⟨e, (dimCoordOf_some hdc).1, htok.symm⟩
                    | plain => rw [hr2] at htok; cases htok
                    | none => rw [hr2] at htok; cases htok
                  · obtain ⟨e, he, rfl⟩ := List.mem_map.mp h
                    left; exact ⟨e, (mem_ofType.mp (mem_sortEntries.mp he)).1, rfl⟩
                · subst hm
                  have : (mainVar f names (wfAx f) e).coordinates = [] := by
                    unfold mainVar; cases e.con.ctype <;> rfl
                  rw [this] at ht; cases ht
                · subst hm; cases ht
              have hne : v' ≠ dataVar o f (wfAx f) names := by
                intro heq
                subst heq
                have : (dataVar o f (wfAx f) names).name = nameOf names .field := rfl
                rw [this] at hv2
                exact meta_ne_field hwf hg htm hv2.symm
              exact coordRefs_meta hwf hg hv1 hne r hr
            · cases htv
    · -- measures: only the data variable has any
      unfold usedMeasures at hm
      split at hm
      · rcases mem_vars hwf hg hw with hd | ⟨e, he, hm' | ⟨hc, b, hb, hm'⟩⟩
        · subst hd
          have : m ∈ (sortEntries (f.ofType .msr)).map (fun e => (e.con.measure.getD "", nameOf names (.con e.key))) := hm
          obtain ⟨e, he, rfl⟩ := List.mem_map.mp this
          unfold measureRefs at hr
          simp only at hr
          split at hr
          · cases hr
          · split at hr
            · simp at hr; left; exact ⟨e, (mem_ofType.mp (mem_sortEntries.mp he)).1, hr⟩
            · cases hr
        · subst hm'
          have : (mainVar f names (wfAx f) e).cellMeasures = [] := by
            unfold mainVar; cases e.con.ctype <;> rfl
          rw [this] at hm; cases hm
        · subst hm'; cases hm
      · cases hm
    · unfold usedAncillary at ht
      split at ht
      · rcases mem_vars hwf hg hw with hd | ⟨e, he, hm' | ⟨hc, b, hb, hm'⟩⟩
        · subst hd
          have : t ∈ (f.ofType .fan).map (fun e => nameOf names (.con e.key)) := ht
          obtain ⟨e, he, rfl⟩ := List.mem_map.mp this
          unfold ancRefs at hr
          split at hr
          · simp at hr; left; exact ⟨e, (mem_ofType.mp he).1, hr⟩
          · cases hr
        · subst hm'
          have : (mainVar f names (wfAx f) e).ancillary = [] := by
            unfold mainVar; cases e.con.ctype <;> rfl
          rw [this] at ht; cases ht
        · subst hm'; cases ht
      · cases ht
  exact meta_ne_field hwf hg (hmeta _ hmem) rfl

end

end Cfdm.Codec

namespace Cfdm.Codec

section
variable {o : Opts} {f : MField} {names : List (Slot × String)} (hwf : WFField f) (hg : GoodNames f (wfAx f) names)
include hwf hg

/-- Attaching the coordinate `e` references its variable and its bounds variable. -/
theorem coordRefs_main {e : Entry} (he : e ∈ f.cons) (hc : isCoord e = true) :
    nameOf names (.con e.key) ∈ coordRefs (wfFile o f names) (mainVar f names (wfAx f) e) ∧
    ∀ b, e.con.bounds = some b → nameOf names (.bvar e.key) ∈ coordRefs (wfFile o f names) (mainVar f names (wfAx f) e) := by
  unfold coordRefs
  rw [mainVar_name]
  refine ⟨List.mem_cons_self, ?_⟩
  intro b hb
  apply List.mem_cons_of_mem
  have hmv : mainVar f names (wfAx f) e = coordVar f names e (cdimsOf names (wfAx f) e) := by
    unfold mainVar isCoord at *
    cases ht : e.con.ctype <;> simp [ht] at hc ⊢
  rw [hmv, readBounds_exact hwf hg he hc, hb]
  simp

/-- The data variable references every other variable of the file. -/
theorem meta_referenced {r : String} (h : IsMetaName f names r) :
    r ∈ varRefs (wfFile o f names) (dataVar o f (wfAx f) names) := by
  -- reduce to: the references made for the construct `e`
  have key : ∀ e ∈ f.cons, ∀ r, (r = nameOf names (.con e.key) ∨ (isCoord e = true ∧ ∃ b, e.con.bounds = some b ∧ r = nameOf names (.bvar e.key))) →
      r ∈ varRefs (wfFile o f names) (dataVar o f (wfAx f) names) := by
    intro e he r hr
    unfold varRefs
    simp only [List.mem_append, List.mem_flatMap]
    cases ht : e.con.ctype with
    | dim =>
      have hc : isCoord e = true := by simp [isCoord, ht]
      obtain ⟨h1, h2⟩ := coordRefs_main (o := o) hwf hg he hc
      have hin : r ∈ coordRefs (wfFile o f names) (mainVar f names (wfAx f) e) := by
        rcases hr with hr | ⟨_, b, hb, hr⟩
        · rw [hr]; exact h1
        · rw [hr]; exact h2 b hb
      obtain ⟨a, hax, hak, hdc⟩ := wf_dim hwf he ht
      by_cases had : a ∈ f.dataAxes
      · left; left; left
        refine ⟨piOf f names a, by rw [dataVar_dims hwf]; exact List.mem_map.mpr ⟨a, had, rfl⟩, ?_⟩
        unfold dimRefs
        have hde := dimEntry_data (o := o) hwf hg had
        rw [hdc] at hde
        unfold dimEntry at hde
        cases hcv : (wfFile o f names).coordVar? (piOf f names a) with
        | none => rw [hcv] at hde; cases hde
        | some v =>
          rw [hcv] at hde
          simp only [Option.map_some] at hde
          -- the coordinate variable found is the variable of `e`
          have hs : dimSlot f a = some (.con e.key) := by unfold dimSlot wfRole; rw [hdc]; simp [had]
          have hpi := pi_data (names := names) hwf hak had hs
          unfold NcFile.coordVar? at hcv
          rw [hpi, var_con hwf hg he] at hcv
          simp only at hcv
          split at hcv
          · injection hcv with hcv; rw [← hcv]; exact hin
          · cases hcv
      · left; left; right
        have hrole : (a, wfRole f a) ∈ (wfAx f).roles := mem_roles_wfAx.mpr ⟨hak, rfl⟩
        have hwr : wfRole f a = .scalarDim e := by unfold wfRole; rw [hdc]; simp [had]
        refine ⟨nameOf names (.con e.key), ?_, ?_⟩
        · have : (dataVar o f (wfAx f) names).coordinates = coordTokens o f (wfAx f) names := rfl
          rw [this, coordTokens_eq]
          apply List.mem_append_left
          exact List.mem_filterMap.mpr ⟨(a, wfRole f a), hrole, by unfold roleToken; simp [hwr]⟩
        · unfold tokenRefs
          rw [(tokenVar_scalar hwf hg had he hax).1]
          exact hin
    | aux =>
      have hc : isCoord e = true := by simp [isCoord, ht]
      obtain ⟨h1, h2⟩ := coordRefs_main (o := o) hwf hg he hc
      have hin : r ∈ coordRefs (wfFile o f names) (mainVar f names (wfAx f) e) := by
        rcases hr with hr | ⟨_, b, hb, hr⟩
        · rw [hr]; exact h1
        · rw [hr]; exact h2 b hb
      left; left; right
      refine ⟨nameOf names (.con e.key), ?_, ?_⟩
      · have : (dataVar o f (wfAx f) names).coordinates = coordTokens o f (wfAx f) names := rfl
        rw [this, coordTokens_eq]
        apply List.mem_append_right
        exact List.mem_map.mpr ⟨e, mem_sortEntries.mpr (mem_ofType.mpr ⟨he, ht⟩), rfl⟩
      · unfold tokenRefs
        rw [auxToken_var hwf hg he ht]
        exact hin
    | msr =>
      have hr' : r = nameOf names (.con e.key) := by
        rcases hr with hr | ⟨hc, _⟩
        · exact hr
        · simp [isCoord, ht] at hc
      left; right
      refine ⟨(e.con.measure.getD "", nameOf names (.con e.key)), ?_, ?_⟩
      · unfold usedMeasures
        rw [measures_ok hwf hg]
        simp only [↓reduceIte]
        exact List.mem_map.mpr ⟨e, mem_sortEntries.mpr (mem_ofType.mpr ⟨he, ht⟩), rfl⟩
      · unfold measureRefs
        simp only
        have hne : (nameOf names (.con e.key) == (dataVar o f (wfAx f) names).name) = false := by
          have : (dataVar o f (wfAx f) names).name = nameOf names .field := rfl
          rw [this]
          have := meta_ne_field hwf hg (Or.inl ⟨e, he, rfl⟩)
          simpa using this
        rw [hne, simple_var hwf hg he (Or.inl ht)]
        simp [hr']
    | fan =>
      have hr' : r = nameOf names (.con e.key) := by
        rcases hr with hr | ⟨hc, _⟩
        · exact hr
        · simp [isCoord, ht] at hc
      right
      refine ⟨nameOf names (.con e.key), ?_, ?_⟩
      · unfold usedAncillary
        rw [anc_ok hwf hg]
        simp only [↓reduceIte]
        exact List.mem_map.mpr ⟨e, mem_ofType.mpr ⟨he, ht⟩, rfl⟩
      · unfold ancRefs
        rw [simple_var hwf hg he (Or.inr ht)]
        simp [hr']
  rcases h with ⟨e, he, rfl⟩ | ⟨e, he, b, hc, hb, rfl⟩
  · exact key e he _ (Or.inl rfl)
  · exact key e he _ (Or.inr ⟨hc, b, hb, rfl⟩)

/-- Reading the written file yields exactly the field made from the data variable. -/
theorem readFile_wf : readFile (wfFile o f names) = [readVar (wfFile o f names) (dataVar o f (wfAx f) names)] := by
  have hDmem : dataVar o f (wfAx f) names ∈ (wfFile o f names).vars := by unfold wfFile; simp
  have hDn : (dataVar o f (wfAx f) names).name = nameOf names .field := rfl
  -- referencers
  have hfield : referencersOf (wfFile o f names) (nameOf names .field) = [] := by
    unfold referencersOf
    rw [List.map_eq_nil_iff, List.filter_eq_nil_iff]
    intro w hw
    have := field_unreferenced hwf hg hw
    simpa using this
  have hmeta : ∀ r, IsMetaName f names r → nameOf names .field ∈ referencersOf (wfFile o f names) r := by
    intro r hr
    unfold referencersOf
    rw [← hDn]
    apply List.mem_map_of_mem
    exact List.mem_filter.mpr ⟨hDmem, by simpa using meta_referenced hwf hg hr⟩
  have hvars : (wfFile o f names).vars.map (·.name)
      = ((written f (wfAx f)).flatMap (entryVars f names (wfAx f))).map (·.name) ++ [nameOf names .field] := by
    unfold wfFile; simp [hDn]
  have hfirst : ∀ n ∈ ((written f (wfAx f)).flatMap (entryVars f names (wfAx f))).map (·.name), IsMetaName f names n := by
    intro n hn
    obtain ⟨w, hw, rfl⟩ := List.mem_map.mp hn
    have hw' : w ∈ (wfFile o f names).vars := by unfold wfFile; exact List.mem_append_left _ hw
    rcases var_meta hwf hg hw' with h | h
    · -- `w` is in the first part, so it is not the data variable: its name is a metadata name
      obtain ⟨e, he, hwe⟩ := List.mem_flatMap.mp hw
      rcases mem_entryVars.mp hwe with h1 | ⟨hc, b, hb, h1⟩
      · left; exact ⟨e, (mem_written hwf).mp he, by rw [h1, mainVar_name]⟩
      · right; exact ⟨e, (mem_written hwf).mp he, b, hc, hb, by rw [h1]; rfl⟩
    · exact h
  unfold readFile
  simp only
  -- the referenced names do not contain the data variable
  have href : nameOf names .field ∉ sortKeys (((wfFile o f names).vars.map (·.name)).filter
      (fun n => !(referencersOf (wfFile o f names) n).isEmpty)) := by
    rw [mem_sortKeys, List.mem_filter]
    rintro ⟨_, h⟩
    rw [hfield] at h
    simp at h
  have hre : reinstate (referencersOf (wfFile o f names))
      (sortKeys (((wfFile o f names).vars.map (·.name)).filter (fun n => !(referencersOf (wfFile o f names) n).isEmpty)))
      (sortKeys (((wfFile o f names).vars.map (·.name)).filter (fun n => !(referencersOf (wfFile o f names) n).isEmpty))) [] = [] := by
    apply reinstate_none
    intro n hn
    rw [mem_sortKeys, List.mem_filter, hvars, List.mem_append] at hn
    obtain ⟨hn1, hn2⟩ := hn
    rcases hn1 with h | h
    · exact ⟨nameOf names .field, hmeta n (hfirst n h), href⟩
    · simp at h; subst h; rw [hfield] at hn2; simp at hn2
  rw [hre]
  have hkeep : ((wfFile o f names).vars.map (·.name)).filter
      (fun n => (referencersOf (wfFile o f names) n).isEmpty || ([] : List String).contains n) = [nameOf names .field] := by
    rw [hvars, List.filter_append]
    have h1 : (((written f (wfAx f)).flatMap (entryVars f names (wfAx f))).map (·.name)).filter
        (fun n => (referencersOf (wfFile o f names) n).isEmpty || ([] : List String).contains n) = [] := by
      rw [List.filter_eq_nil_iff]
      intro n hn
      have := hmeta n (hfirst n hn)
      cases hr : referencersOf (wfFile o f names) n with
      | nil => rw [hr] at this; cases this
      | cons x xs => simp
    rw [h1]
    simp [hfield]
  rw [hkeep, sortKeys_singleton]
  simp [var_field hwf hg]

end

end Cfdm.Codec
