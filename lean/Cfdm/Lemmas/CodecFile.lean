import Cfdm.Lemmas.CodecB3
/-
C01: of all the variables of the written file only the data variable becomes a field.
-/
namespace Cfdm.Codec

theorem reinstate_none (referencers : String → List String) (cur : List String) (l out : List String)
    (h : ∀ n ∈ l, ∃ r ∈ referencers n, r ∉ cur) : reinstate referencers l cur out = out := by
  induction l generalizing out with
  | nil => rfl
  | cons n rest ih =>
    unfold reinstate
    obtain ⟨r, hr, hrc⟩ := h n List.mem_cons_self
    have : (referencers n).all cur.contains = false := by
      rw [Bool.eq_false_iff]
      intro hall
      rw [List.all_eq_true] at hall
      have := hall r hr
      simp at this
      exact hrc this
    rw [this]
    simp only [Bool.false_eq_true, ↓reduceIte]
    exact ih out (fun m hm => h m (List.mem_cons_of_mem _ hm))

section
variable {o : Opts} {f : MField} {names : List (Slot × String)} (hwf : WFFieldB f) (hg : GoodNames f (wfAx f) names)
include hwf hg

/-- Names of the variables of metadata constructs, of their bounds, and of the grid mappings. -/
def IsMetaName (f : MField) (names : List (Slot × String)) (r : String) : Prop :=
  (∃ e ∈ f.cons, r = nameOf names (.con e.key)) ∨
  (∃ e ∈ f.cons, ∃ b, isBounded e = true ∧ e.con.bounds = some b ∧ r = nameOf names (.bvar e.key)) ∨
  (∃ g ∈ gmRefs f, r = nameOf names (.gm g.1))

theorem meta_ne_field {r : String} (h : IsMetaName f names r) : r ≠ nameOf names .field := by
  intro heq
  rcases h with ⟨e, he, rfl⟩ | ⟨e, he, b, hc, hb, rfl⟩ | ⟨g, hgm, rfl⟩
  · have : Slot.con e.key = Slot.field := hg.nameOf_inj (slot_con hwf hg he) hg.field heq (Or.inl rfl)
    cases this
  · have : Slot.bvar e.key = Slot.field := hg.nameOf_inj (slot_bounds hwf hg he hc hb).1 hg.field heq (Or.inl rfl)
    cases this
  · have : Slot.gm g.1 = Slot.field := hg.nameOf_inj (hg.gm g hgm) hg.field heq (Or.inl rfl)
    cases this

theorem var_meta {w : NcVar} (hw : w ∈ (wfFile o f names).vars) :
    w = dataVar o f (wfAx f) names ∨ IsMetaName f names w.name := by
  rcases mem_vars hwf hg hw with h | ⟨e, he, h | ⟨hc, b, hb, h⟩⟩ | ⟨g, hgm, h⟩
  · exact Or.inl h
  · right; left; exact ⟨e, he, by rw [h, mainVar_name]⟩
  · right; right; left; exact ⟨e, he, b, hc, hb, by rw [h]; rfl⟩
  · right; right; right; exact ⟨g, hgm, by rw [h]; rfl⟩

/-- The bounds attribute of any variable of the file names a bounds variable. -/
theorem boundsAttr_meta {w : NcVar} (hw : w ∈ (wfFile o f names).vars) {bn : String} (h : boundsAttr w = some bn) :
    IsMetaName f names bn := by
  rcases mem_vars hwf hg hw with hd | ⟨e, he, hm | ⟨hc, b, hb, hm⟩⟩ | ⟨g, hgm, hm⟩
  · subst hd; cases h
  · subst hm
    unfold mainVar at h
    cases ht : e.con.ctype with
    | dim =>
      rw [ht] at h
      simp only at h
      unfold boundsAttr coordVar at h
      simp only at h
      cases hb : e.con.bounds with
      | none => rw [hb] at h; by_cases hcl : isClim f e = true <;> simp [hcl] at h
      | some b =>
        rw [hb] at h
        have : bn = nameOf names (.bvar e.key) := by by_cases hcl : isClim f e = true <;> simp [hcl] at h <;> exact h.symm
        right; left; exact ⟨e, he, b, by simp [isBounded, ht], hb, this⟩
    | aux =>
      rw [ht] at h
      simp only at h
      unfold boundsAttr coordVar at h
      simp only at h
      cases hb : e.con.bounds with
      | none => rw [hb] at h; by_cases hcl : isClim f e = true <;> simp [hcl] at h
      | some b =>
        rw [hb] at h
        have : bn = nameOf names (.bvar e.key) := by by_cases hcl : isClim f e = true <;> simp [hcl] at h <;> exact h.symm
        right; left; exact ⟨e, he, b, by simp [isBounded, ht], hb, this⟩
    | msr => rw [ht] at h; cases h
    | fan => rw [ht] at h; cases h
    | dan => rw [ht] at h; cases h
  · subst hm; cases h
  · subst hm; cases h

omit hwf hg in
theorem var?_some {nc : NcFile} {n : String} {v : NcVar} (h : nc.var? n = some v) : v ∈ nc.vars ∧ v.name = n := by
  unfold NcFile.var? at h
  exact ⟨List.mem_of_find?_eq_some h, by simpa using List.find?_some h⟩

omit hwf hg in
theorem readBounds_ncvar {nc : NcFile} {v : NcVar} {b : MBounds} (h : readBounds nc v = some b) :
    ∃ bn, boundsAttr v = some bn ∧ b.ncvar = some bn := by
  unfold readBounds at h
  cases hba : boundsAttr v with
  | none => rw [hba] at h; cases h
  | some bn =>
    rw [hba] at h
    simp only [Option.bind_some] at h
    cases hvar : nc.var? bn with
    | none => rw [hvar] at h; cases h
    | some x =>
      rw [hvar] at h
      simp only [Option.bind_some] at h
      have hx := (var?_some hvar).2
      unfold readBoundsVar at h
      split at h
      · split at h
        · injection h with h
          exact ⟨bn, rfl, by rw [← h, ← hx]⟩
        · cases h
      · cases h

/-- What attaching a coordinate made from a variable of the file references. -/
theorem coordRefs_meta {v : NcVar} (hv : v ∈ (wfFile o f names).vars) (hne : v ≠ dataVar o f (wfAx f) names) :
    ∀ r ∈ coordRefs (wfFile o f names) v, IsMetaName f names r := by
  intro r hr
  unfold coordRefs at hr
  rcases List.mem_cons.mp hr with h | h
  · rcases var_meta hwf hg hv with h1 | h1
    · exact absurd h1 hne
    · rw [h]; exact h1
  · cases hrb : readBounds (wfFile o f names) v with
    | none => rw [hrb] at h; cases h
    | some b =>
      rw [hrb] at h
      simp only [List.mem_singleton] at h
      obtain ⟨bn, hba, hbn⟩ := readBounds_ncvar hrb
      rw [h, hbn]
      exact boundsAttr_meta hwf hg hv hba

/-- The data variable is not its own coordinate variable. -/
theorem data_not_coordvar : (dataVar o f (wfAx f) names).dims ≠ [(dataVar o f (wfAx f) names).name] := by
  rw [dataVar_dims hwf]
  intro h
  have hn : (dataVar o f (wfAx f) names).name = nameOf names .field := rfl
  rw [hn] at h
  have hm : nameOf names .field ∈ f.dataAxes.map (piOf f names) := by rw [h]; exact List.mem_singleton_self _
  obtain ⟨a, had, h⟩ := List.mem_map.mp hm
  have hak := hwf.2.2.2.1 a had
  obtain ⟨s, hs⟩ := dataAxis_slot had
  rw [pi_data hwf hak had hs] at h
  obtain ⟨h1, h2⟩ := dimSlot_mem hwf hg hak hs
  have : s = Slot.field := hg.nameOf_inj h1 hg.field h (Or.inl h2)
  subst this
  unfold dimSlot at hs
  cases hr : wfRole f a <;> rw [hr] at hs <;> cases hs

/-- What a variable of the file, taken as a data variable, references through its dimensions and its
`coordinates`, `cell_measures` and `ancillary_variables` attributes are metadata variables. -/
theorem refsA_meta {w : NcVar} (hw : w ∈ (wfFile o f names).vars) :
    ∀ r ∈ varRefsA (wfFile o f names) w, IsMetaName f names r := by
    intro r hr
    unfold varRefsA at hr
    simp only [List.mem_append, List.mem_flatMap] at hr
    rcases hr with ((⟨d, _, hr⟩ | ⟨t, ht, hr⟩) | ⟨m, hm, hr⟩) | ⟨t, ht, hr⟩
    · unfold dimRefs at hr
      cases hcv : (wfFile o f names).coordVar? d with
      | none => rw [hcv] at hr; cases hr
      | some v =>
        rw [hcv] at hr
        unfold NcFile.coordVar? at hcv
        cases hvar : (wfFile o f names).var? d with
        | none => rw [hvar] at hcv; cases hcv
        | some v' =>
          rw [hvar] at hcv
          simp only at hcv
          split at hcv
          · rename_i hdims
            have hvv : v' = v := by injection hcv
            rw [← hvv] at hr
            obtain ⟨hv1, hv2⟩ := var?_some hvar
            have hne : v' ≠ dataVar o f (wfAx f) names := by
              intro heq
              subst heq
              apply data_not_coordvar (o := o) hwf hg
              rw [hv2]; simpa using hdims
            exact coordRefs_meta hwf hg hv1 hne r hr
          · cases hcv
    · unfold tokenRefs at hr
      cases htv : tokenVar (wfFile o f names) w.dims t with
      | none => rw [htv] at hr; cases hr
      | some v =>
        rw [htv] at hr
        unfold tokenVar at htv
        split at htv
        · cases htv
        · cases hvar : (wfFile o f names).var? t with
          | none => rw [hvar] at htv; cases htv
          | some v' =>
            rw [hvar] at htv
            simp only at htv
            split at htv
            · have hvv : v' = v := by injection htv
              rw [← hvv] at hr
              obtain ⟨hv1, hv2⟩ := var?_some hvar
              -- the token is the name of a metadata variable
              have htm : IsMetaName f names t := by
                rcases mem_vars hwf hg hw with hd | ⟨e, he, hm | ⟨hc, b, hb, hm⟩⟩ | ⟨g, hgm, hm⟩
                · subst hd
                  have : t ∈ coordTokens o f (wfAx f) names := ht
                  rw [coordTokens_eq, List.mem_append] at this
                  rcases this with h | h
                  · obtain ⟨ar, har, htok⟩ := List.mem_filterMap.mp h
                    obtain ⟨hak, hrr⟩ := mem_roles_wfAx.mp har
                    unfold roleToken at htok
                    cases hr2 : ar.2 with
                    | coordVar e =>
                      rw [hr2] at htok hrr
                      obtain ⟨_, hdc⟩ := role_coordVar hwf hg hrr.symm
                      by_cases hco : o.coordinates = true
                      · simp [hco] at htok
                        left; exact ⟨e, (dimCoordOf_some hdc).1, htok.symm⟩
                      · simp [hco] at htok
                    | scalarDim e =>
                      rw [hr2] at htok hrr
                      obtain ⟨_, hdc⟩ := role_scalarDim hwf hg hrr.symm
                      simp at htok
                      left; exact ⟨e, (dimCoordOf_some hdc).1, htok.symm⟩
                    | plain => rw [hr2] at htok; cases htok
                    | none => rw [hr2] at htok; cases htok
                  · obtain ⟨e, he, rfl⟩ := List.mem_map.mp h
                    left; exact ⟨e, (mem_ofType.mp (mem_sortEntries.mp he)).1, rfl⟩
                · subst hm
                  have : (mainVar f names (wfAx f) e).coordinates = [] := by
                    unfold mainVar; cases e.con.ctype <;> rfl
                  rw [this] at ht; cases ht
                · subst hm; cases ht
                · subst hm; cases ht
              have hne : v' ≠ dataVar o f (wfAx f) names := by
                intro heq
                subst heq
                have : (dataVar o f (wfAx f) names).name = nameOf names .field := rfl
                rw [this] at hv2
                exact meta_ne_field hwf hg htm hv2.symm
              exact coordRefs_meta hwf hg hv1 hne r hr
            · cases htv
    · -- measures: only the data variable has any
      unfold usedMeasures at hm
      split at hm
      · rcases mem_vars hwf hg hw with hd | ⟨e, he, hm' | ⟨hc, b, hb, hm'⟩⟩ | ⟨g, hgm, hm'⟩
        · subst hd
          have : m ∈ (sortEntries (f.ofType .msr)).map (fun e => (e.con.measure.getD "", nameOf names (.con e.key))) := hm
          obtain ⟨e, he, rfl⟩ := List.mem_map.mp this
          unfold measureRefs at hr
          simp only at hr
          split at hr
          · cases hr
          · split at hr
            · simp at hr; left; exact ⟨e, (mem_ofType.mp (mem_sortEntries.mp he)).1, hr⟩
            · cases hr
        · subst hm'
          have : (mainVar f names (wfAx f) e).cellMeasures = [] := by
            unfold mainVar; cases e.con.ctype <;> rfl
          rw [this] at hm; cases hm
        · subst hm'; cases hm
        · subst hm'; cases hm
      · cases hm
    · unfold usedAncillary at ht
      split at ht
      · rcases mem_vars hwf hg hw with hd | ⟨e, he, hm' | ⟨hc, b, hb, hm'⟩⟩ | ⟨g, hgm, hm'⟩
        · subst hd
          have : t ∈ (f.ofType .fan).map (fun e => nameOf names (.con e.key)) := ht
          obtain ⟨e, he, rfl⟩ := List.mem_map.mp this
          unfold ancRefs at hr
          split at hr
          · simp at hr; left; exact ⟨e, (mem_ofType.mp he).1, hr⟩
          · cases hr
        · subst hm'
          have : (mainVar f names (wfAx f) e).ancillary = [] := by
            unfold mainVar; cases e.con.ctype <;> rfl
          rw [this] at ht; cases ht
        · subst hm'; cases ht
        · subst hm'; cases ht
      · cases ht

/-- The variables named by the `formula_terms` attributes of the file are metadata variables. -/
theorem ftTable_values {cn : String} {ft : List (String × String)} (h : (cn, ft) ∈ ftTable f names) :
    ∀ tn ∈ ft, IsMetaName f names tn.2 := by
  have h' : (cn, ft) ∈ (ftOnly f).flatMap (ftAttrs f names) := h
  obtain ⟨kr, hkr, hm⟩ := List.mem_flatMap.mp h'
  obtain ⟨c, hoc, _, _, _, _, _, ⟨z, hz, _⟩, _⟩ := ft_owner hwf hkr
  rw [ftAttrs_eq hwf names hkr hoc hz] at hm
  have hdan : ∀ td ∈ termDans f kr.2, td.2 ∈ f.cons ∧ td.2.con.ctype = .dan := (termDans_spec hwf hkr).2
  intro tn htn
  rcases List.mem_cons.mp hm with e | hm
  · injection e with _ e2
    rw [e2] at htn
    unfold ftList at htn
    obtain ⟨td, htd, rfl⟩ := List.mem_map.mp htn
    left; exact ⟨td.2, (hdan td htd).1, rfl⟩
  · cases hcb : c.con.bounds with
    | none => rw [hcb] at hm; simp at hm
    | some cb =>
      rw [hcb] at hm
      simp at hm
      rw [hm.2] at htn
      unfold bftList at htn
      obtain ⟨td, htd, rfl⟩ := List.mem_map.mp htn
      obtain ⟨hm', ht'⟩ := hdan td htd
      by_cases hcond : (td.2.con.bounds.isSome && td.2.axes.contains z) = true
      · rw [if_pos hcond]
        simp only [Bool.and_eq_true] at hcond
        cases hb : td.2.con.bounds with
        | none => rw [hb] at hcond; simp at hcond
        | some b => right; left; exact ⟨td.2, hm', b, by simp [isBounded, ht'], hb, rfl⟩
      · rw [if_neg hcond]
        left; exact ⟨td.2, hm', rfl⟩

/-- The bounds variable the reader finds for a term is a metadata variable. -/
theorem danBounds_meta (cv : NcVar) (z : Option String) {ft : List (String × String)}
    (hft : ∀ tn ∈ ft, IsMetaName f names tn.2) (tn : String × String) {bn : String}
    (h : danBounds (boundsTerms (wfFile o f names) cv z (coordTerms (wfFile o f names) ft)) tn = some bn) :
    IsMetaName f names bn := by
  unfold danBounds at h
  simp only at h
  split at h
  · cases h
  · -- a value of the table of bounds terms
    have hval : ∀ p ∈ boundsTerms (wfFile o f names) cv z (coordTerms (wfFile o f names) ft), ∀ x, p.2 = some x → IsMetaName f names x := by
      intro p hp x hx
      unfold boundsTerms at hp
      cases hcb : cv.bounds with
      | none => rw [hcb] at hp; cases hp
      | some cb =>
        rw [hcb] at hp
        simp only at hp
        split at hp
        · cases hp
        · cases hl : (wfFile o f names).formulaTerms.lookup cb with
          | some bft =>
            rw [hl] at hp
            simp only at hp
            obtain ⟨tn', htn', rfl⟩ := List.mem_map.mp hp
            simp only at hx
            have hmem : (cb, bft) ∈ ftTable f names := mem_of_lookup hl
            have hmeta := ftTable_values hwf hg hmem tn' htn'
            unfold boundsTermVal at hx
            split at hx
            · cases hx
            · split at hx
              · cases hx
              · cases hx
              · simp only at hx
                split at hx
                · split at hx
                  · cases hx
                  · injection hx with hx; rw [← hx]; exact hmeta
                · split at hx
                  · cases hx
                  · split at hx
                    · cases hx
                    · injection hx with hx; rw [← hx]; exact hmeta
          | none =>
            rw [hl] at hp
            simp only at hp
            obtain ⟨tn', htn', rfl⟩ := List.mem_map.mp hp
            simp only at hx
            unfold coordTerms at htn'
            obtain ⟨tn'', htn'', rfl⟩ := List.mem_map.mp htn'
            simp only at hx
            split at hx
            · simp only [Option.bind_some] at hx
              split at hx
              · injection hx with hx; rw [← hx]; exact hft tn'' htn''
              · cases hx
            · simp at hx
    cases hl : (boundsTerms (wfFile o f names) cv z (coordTerms (wfFile o f names) ft)).lookup tn.1 with
    | none => rw [hl] at h; simp at h
    | some v =>
      rw [hl] at h
      simp only [Option.bind_some, id] at h
      exact hval (tn.1, v) (mem_of_lookup hl) bn h

/-- What the `formula_terms` of a coordinate make the reader reference are metadata variables. -/
theorem readFT_refs_meta (w : NcVar) (c : Entry) {x : FTRead} (h : readFT (wfFile o f names) w c = some x) :
    ∀ d ∈ x.dans, ∀ r ∈ danRefs d, IsMetaName f names r := by
  unfold readFT at h
  cases hcn : c.con.ncvar with
  | none => rw [hcn] at h; cases h
  | some cn =>
    rw [hcn] at h
    simp only at h
    cases hl : (wfFile o f names).formulaTerms.lookup cn with
    | none => rw [hl] at h; cases h
    | some ft =>
      cases hcv : (wfFile o f names).var? cn with
      | none => rw [hl, hcv] at h; cases h
      | some cv =>
        rw [hl, hcv] at h
        simp only at h
        have hft : ∀ tn ∈ ft, IsMetaName f names tn.2 := ftTable_values hwf hg (mem_of_lookup hl)
        split at h
        · injection h with h
          rw [← h]
          simp only
          intro d hd r hr
          obtain ⟨od, hod, hodd⟩ := List.mem_filterMap.mp hd
          simp only [id] at hodd
          subst hodd
          obtain ⟨tn, htn, hrd⟩ := List.mem_map.mp hod
          -- the term's variable
          obtain ⟨tn0, htn0, htn0'⟩ := List.mem_filterMap.mp htn
          unfold coordTerms at htn0
          obtain ⟨tn1, htn1, rfl⟩ := List.mem_map.mp htn0
          simp only at htn0'
          have hn : tn.2 = tn1.2 := by
            split at htn0'
            · simp only [Option.map_some] at htn0'
              injection htn0' with e; rw [← e]
            · simp at htn0'
          have hmeta_n : IsMetaName f names tn.2 := by rw [hn]; exact hft tn1 htn1
          unfold readDan at hrd
          cases hnv : (wfFile o f names).var? tn.2 with
          | none => rw [hnv] at hrd; cases hrd
          | some nv =>
            rw [hnv] at hrd
            simp only at hrd
            split at hrd
            · injection hrd with hrd
              rw [← hrd] at hr
              unfold danRefs danCon Entry.con at hr
              simp only [List.mem_append, Option.mem_toList, Option.mem_def] at hr
              rcases hr with hr | hr
              · injection hr with hr; rw [← hr]; exact hmeta_n
              · cases hdb : danBounds (boundsTerms (wfFile o f names) cv cv.dims.head? (coordTerms (wfFile o f names) ft)) tn with
                | some bn =>
                  rw [hdb] at hr
                  simp only at hr
                  cases hbv : (wfFile o f names).var? bn with
                  | none => rw [hbv] at hr; simp at hr
                  | some bv =>
                    rw [hbv] at hr
                    simp only [Option.bind_some] at hr
                    cases hrb : readBoundsVar (wfFile o f names) nv bv with
                    | none => rw [hrb] at hr; simp at hr
                    | some b =>
                      rw [hrb] at hr
                      simp only at hr
                      have hbn : b.ncvar = some bn := by
                        unfold readBoundsVar at hrb
                        split at hrb
                        · split at hrb
                          · injection hrb with hrb; rw [← hrb]; simp only; rw [(var?_some hbv).2]
                          · cases hrb
                        · cases hrb
                      rw [hbn] at hr
                      simp at hr
                      first | rw [hr] | rw [← hr]
                      exact danBounds_meta hwf hg cv _ hft tn hdb
                | none =>
                  rw [hdb] at hr
                  simp only at hr
                  cases hrb : readBounds (wfFile o f names) nv with
                  | none => rw [hrb] at hr; simp at hr
                  | some b =>
                    rw [hrb] at hr
                    simp only at hr
                    obtain ⟨bn, hba, hbn⟩ := readBounds_ncvar hrb
                    rw [hbn] at hr
                    simp at hr
                    first | rw [hr] | rw [← hr]
                    exact boundsAttr_meta hwf hg (var?_some hnv).1 hba
            · cases hrd
        · cases h

omit hwf hg in
theorem gmStep_seen (nc : NcFile) (coords : List Entry) (danVars : List String) (st : GMSt) (g : String × List String) :
    ∀ n ∈ (gmStep nc coords danVars st g).seen, n ∈ st.seen ∨ n = g.1 := by
  intro n hn
  unfold gmStep at hn
  split at hn
  · exact Or.inl hn
  · split at hn
    · exact Or.inl hn
    · simp only at hn
      split at hn
      · simp only [List.mem_append, List.mem_singleton] at hn; exact hn
      · split at hn
        · simp only [List.mem_append, List.mem_singleton] at hn; exact hn
        · exact Or.inl hn

omit hwf hg in
theorem foldl_gmStep_seen (nc : NcFile) (coords : List Entry) (danVars : List String) (l : List (String × List String)) (st : GMSt) :
    ∀ n ∈ (l.foldl (gmStep nc coords danVars) st).seen, n ∈ st.seen ∨ ∃ g ∈ l, n = g.1 := by
  induction l generalizing st with
  | nil => intro n hn; exact Or.inl hn
  | cons g gs ih =>
    intro n hn
    rw [List.foldl_cons] at hn
    rcases ih _ n hn with h | ⟨g', hg', h⟩
    · rcases gmStep_seen nc coords danVars st g n h with h | h
      · exact Or.inl h
      · exact Or.inr ⟨g, List.mem_cons_self, h⟩
    · exact Or.inr ⟨g', List.mem_cons_of_mem _ hg', h⟩

omit hwf hg in
theorem gmStep_used (nc : NcFile) (coords : List Entry) (danVars : List String) (st : GMSt) (g : String × List String) :
    ∀ n ∈ (gmStep nc coords danVars st g).used, n ∈ st.used ∨ n = g.1 := by
  intro n hn
  unfold gmStep at hn
  split at hn
  · exact Or.inl hn
  · split at hn
    · exact Or.inl hn
    · simp only at hn
      split at hn
      · exact Or.inl hn
      · split at hn
        · exact Or.inl hn
        · simp only [List.mem_append, List.mem_singleton] at hn; exact hn

omit hwf hg in
theorem foldl_gmStep_used (nc : NcFile) (coords : List Entry) (danVars : List String) (l : List (String × List String)) (st : GMSt) :
    ∀ n ∈ (l.foldl (gmStep nc coords danVars) st).used, n ∈ st.used ∨ ∃ g ∈ l, n = g.1 := by
  induction l generalizing st with
  | nil => intro n hn; exact Or.inl hn
  | cons g gs ih =>
    intro n hn
    rw [List.foldl_cons] at hn
    rcases ih _ n hn with h | ⟨g', hg', h⟩
    · rcases gmStep_used nc coords danVars st g n h with h | h
      · exact Or.inl h
      · exact Or.inr ⟨g, List.mem_cons_self, h⟩
    · exact Or.inr ⟨g', List.mem_cons_of_mem _ hg', h⟩

/-- What a variable of the file, taken as a data variable, references through `formula_terms` and
`grid_mapping` attributes are metadata variables. -/
theorem refsB_meta (w : NcVar) (cons : List Entry) :
    ∀ r ∈ (readB (wfFile o f names) w cons).referenced, IsMetaName f names r := by
  -- the variables named by the `grid_mapping` attribute
  have hgmmeta : ∀ g ∈ ((wfFile o f names).gridMapping.lookup w.name).getD [], IsMetaName f names g.1 := by
    intro g hgm
    cases hl : (wfFile o f names).gridMapping.lookup w.name with
    | none => rw [hl] at hgm; cases hgm
    | some l =>
      rw [hl] at hgm
      simp only [Option.getD_some] at hgm
      have hmem : (w.name, l) ∈ gmTable f names := mem_of_lookup hl
      unfold gmTable at hmem
      split at hmem
      · cases hmem
      · simp only [List.mem_singleton] at hmem
        injection hmem with _ hl'
        rw [hl'] at hgm
        unfold gmAttr at hgm
        split at hgm
        · cases hgm
        · rename_i g0 hg0
          simp only [List.mem_singleton] at hgm
          rw [hgm]
          right; right; exact ⟨g0, by rw [hg0]; exact List.mem_cons_self, rfl⟩
        · obtain ⟨g0, hg0, rfl⟩ := List.mem_map.mp hgm
          right; right; exact ⟨g0, hg0, rfl⟩
  intro r hr
  unfold readB at hr
  simp only [List.mem_append, List.mem_flatMap] at hr
  rcases hr with (⟨d, hd, hr⟩ | hr) | hr
  · obtain ⟨x, hx, hdx⟩ := hd
    obtain ⟨c, _, hc⟩ := List.mem_filterMap.mp hx
    exact readFT_refs_meta hwf hg w c hc d hdx r hr
  · rcases foldl_gmStep_seen _ _ _ _ _ r hr with h | ⟨g, hgm, rfl⟩
    · cases h
    · exact hgmmeta g hgm
  · rcases foldl_gmStep_used _ _ _ _ _ r hr with h | ⟨g, hgm, rfl⟩
    · cases h
    · exact hgmmeta g hgm

/-- Nothing references the data variable. -/
theorem field_unreferenced {w : NcVar} (hw : w ∈ (wfFile o f names).vars) :
    nameOf names .field ∉ varRefs (wfFile o f names) w := by
  intro hmem
  unfold varRefs at hmem
  rcases List.mem_append.mp hmem with h | h
  · exact meta_ne_field hwf hg (refsA_meta hwf hg hw _ h) rfl
  · exact meta_ne_field hwf hg (refsB_meta hwf hg w _ _ h) rfl

end

end Cfdm.Codec

namespace Cfdm.Codec

section
variable {o : Opts} {f : MField} {names : List (Slot × String)} (hwf : WFFieldB f) (hg : GoodNames f (wfAx f) names)
include hwf hg

/-- Attaching the coordinate `e` references its variable and its bounds variable. -/
theorem coordRefs_main {e : Entry} (he : e ∈ f.cons) (hc : isCoord e = true) :
    nameOf names (.con e.key) ∈ coordRefs (wfFile o f names) (mainVar f names (wfAx f) e) ∧
    ∀ b, e.con.bounds = some b → nameOf names (.bvar e.key) ∈ coordRefs (wfFile o f names) (mainVar f names (wfAx f) e) := by
  unfold coordRefs
  rw [mainVar_name]
  refine ⟨List.mem_cons_self, ?_⟩
  intro b hb
  apply List.mem_cons_of_mem
  have hmv : mainVar f names (wfAx f) e = coordVar f names e (cdimsOf names (wfAx f) e) := by
    unfold mainVar isCoord at *
    cases ht : e.con.ctype <;> simp [ht] at hc ⊢
  rw [hmv, readBounds_exact hwf hg he hc, hb]
  simp [rdBounds]

/-- The bounds the reader gives a domain ancillary with bounds. -/
theorem rdCon_dan_bounds {d : Entry} (hd : d ∈ f.cons) (ht : d.con.ctype = .dan) {b : MBounds} (hb : d.con.bounds = some b) :
    (rdCon o f names d).bounds = some (rdBounds o f names d b) := by
  have hmv : mainVar f names (wfAx f) d = plainVar names d (cdimsOf names (wfAx f) d) := by unfold mainVar; rw [ht]
  unfold rdCon
  rw [ht]
  simp only
  unfold danCon
  simp only [hb, Option.map_some]
  rw [var_bvar hwf hg hd (by simp [isBounded, ht]) hb]
  simp only [Option.bind_some]
  exact readBoundsVar_exact hwf hg hd hb _ (by rw [hmv]; rfl)

/-- The data variable references every other variable of the file. -/
theorem meta_referenced {r : String} (h : IsMetaName f names r) :
    r ∈ varRefs (wfFile o f names) (dataVar o f (wfAx f) names) := by
  -- reduce to: the references made for the construct `e`
  have key : ∀ e ∈ f.cons, e.con.ctype ≠ .dan → ∀ r, (r = nameOf names (.con e.key) ∨ (isCoord e = true ∧ ∃ b, e.con.bounds = some b ∧ r = nameOf names (.bvar e.key))) →
      r ∈ varRefs (wfFile o f names) (dataVar o f (wfAx f) names) := by
    intro e he hnd r hr
    unfold varRefs
    apply List.mem_append_left
    unfold varRefsA
    simp only [List.mem_append, List.mem_flatMap]
    cases ht : e.con.ctype with
    | dim =>
      have hc : isCoord e = true := by simp [isCoord, ht]
      obtain ⟨h1, h2⟩ := coordRefs_main (o := o) hwf hg he hc
      have hin : r ∈ coordRefs (wfFile o f names) (mainVar f names (wfAx f) e) := by
        rcases hr with hr | ⟨_, b, hb, hr⟩
        · rw [hr]; exact h1
        · rw [hr]; exact h2 b hb
      obtain ⟨a, hax, hak, hdc⟩ := wf_dim hwf he ht
      by_cases had : a ∈ f.dataAxes
      · left; left; left
        refine ⟨piOf f names a, by rw [dataVar_dims hwf]; exact List.mem_map.mpr ⟨a, had, rfl⟩, ?_⟩
        unfold dimRefs
        have hde := dimEntry_data (o := o) hwf hg had
        rw [hdc] at hde
        unfold dimEntry at hde
        cases hcv : (wfFile o f names).coordVar? (piOf f names a) with
        | none => rw [hcv] at hde; cases hde
        | some v =>
          rw [hcv] at hde
          simp only [Option.map_some] at hde
          -- the coordinate variable found is the variable of `e`
          have hs : dimSlot f a = some (.con e.key) := by unfold dimSlot wfRole; rw [hdc]; simp [had]
          have hpi := pi_data (names := names) hwf hak had hs
          unfold NcFile.coordVar? at hcv
          rw [hpi, var_con hwf hg he] at hcv
          simp only at hcv
          split at hcv
          · injection hcv with hcv; rw [← hcv]; exact hin
          · cases hcv
      · left; left; right
        have hrole : (a, wfRole f a) ∈ (wfAx f).roles := mem_roles_wfAx.mpr ⟨hak, rfl⟩
        have hwr : wfRole f a = .scalarDim e := by unfold wfRole; rw [hdc]; simp [had]
        refine ⟨nameOf names (.con e.key), ?_, ?_⟩
        · have : (dataVar o f (wfAx f) names).coordinates = coordTokens o f (wfAx f) names := rfl
          rw [this, coordTokens_eq]
          apply List.mem_append_left
          exact List.mem_filterMap.mpr ⟨(a, wfRole f a), hrole, by unfold roleToken; simp [hwr]⟩
        · unfold tokenRefs
          rw [(tokenVar_scalar hwf hg had he hax).1]
          exact hin
    | aux =>
      have hc : isCoord e = true := by simp [isCoord, ht]
      obtain ⟨h1, h2⟩ := coordRefs_main (o := o) hwf hg he hc
      have hin : r ∈ coordRefs (wfFile o f names) (mainVar f names (wfAx f) e) := by
        rcases hr with hr | ⟨_, b, hb, hr⟩
        · rw [hr]; exact h1
        · rw [hr]; exact h2 b hb
      left; left; right
      refine ⟨nameOf names (.con e.key), ?_, ?_⟩
      · have : (dataVar o f (wfAx f) names).coordinates = coordTokens o f (wfAx f) names := rfl
        rw [this, coordTokens_eq]
        apply List.mem_append_right
        exact List.mem_map.mpr ⟨e, mem_sortEntries.mpr (mem_ofType.mpr ⟨he, ht⟩), rfl⟩
      · unfold tokenRefs
        rw [auxToken_var hwf hg he ht]
        exact hin
    | msr =>
      have hr' : r = nameOf names (.con e.key) := by
        rcases hr with hr | ⟨hc, _⟩
        · exact hr
        · simp [isCoord, ht] at hc
      left; right
      refine ⟨(e.con.measure.getD "", nameOf names (.con e.key)), ?_, ?_⟩
      · unfold usedMeasures
        rw [measures_ok hwf hg]
        simp only [↓reduceIte]
        exact List.mem_map.mpr ⟨e, mem_sortEntries.mpr (mem_ofType.mpr ⟨he, ht⟩), rfl⟩
      · unfold measureRefs
        simp only
        have hne : (nameOf names (.con e.key) == (dataVar o f (wfAx f) names).name) = false := by
          have : (dataVar o f (wfAx f) names).name = nameOf names .field := rfl
          rw [this]
          have := meta_ne_field hwf hg (Or.inl ⟨e, he, rfl⟩)
          simpa using this
        rw [hne, simple_var hwf hg he (Or.inl ht)]
        simp [hr']
    | fan =>
      have hr' : r = nameOf names (.con e.key) := by
        rcases hr with hr | ⟨hc, _⟩
        · exact hr
        · simp [isCoord, ht] at hc
      right
      refine ⟨nameOf names (.con e.key), ?_, ?_⟩
      · unfold usedAncillary
        rw [anc_ok hwf hg]
        simp only [↓reduceIte]
        exact List.mem_map.mpr ⟨e, mem_ofType.mpr ⟨he, ht⟩, rfl⟩
      · unfold ancRefs
        rw [simple_var hwf hg he (Or.inr ht)]
        simp [hr']
    | dan => exact absurd ht hnd
  obtain ⟨hrd, hrg⟩ := read_referencedB' (o := o) hwf hg
  -- a domain ancillary: referenced through the `formula_terms` of its parametric coordinate
  have keyd : ∀ d ∈ f.cons, d.con.ctype = .dan → ∀ r, (r = nameOf names (.con d.key) ∨ (∃ b, d.con.bounds = some b ∧ r = nameOf names (.bvar d.key))) →
      r ∈ varRefs (wfFile o f names) (dataVar o f (wfAx f) names) := by
    intro d hd ht r hr
    unfold varRefs
    apply List.mem_append_right
    apply hrd d hd ht
    unfold danRefs rdB Entry.con
    simp only [List.mem_append, Option.mem_toList, Option.mem_def]
    rcases hr with hr | ⟨b, hb, hr⟩
    · left
      unfold rdCon
      rw [ht]
      simp only [danCon, hr]
    · right
      rw [rdCon_dan_bounds hwf hg hd ht hb]
      simp only [rdBounds, Option.mem_toList, Option.mem_def, hr]
  rcases h with ⟨e, he, rfl⟩ | ⟨e, he, b, hc, hb, rfl⟩ | ⟨g, hgm, rfl⟩
  · by_cases ht : e.con.ctype = .dan
    · exact keyd e he ht _ (Or.inl rfl)
    · exact key e he ht _ (Or.inl rfl)
  · by_cases ht : e.con.ctype = .dan
    · exact keyd e he ht _ (Or.inr ⟨b, hb, rfl⟩)
    · exact key e he ht _ (Or.inr ⟨wf_bounds_coord hwf hg he ht hb, b, hb, rfl⟩)
  · unfold varRefs
    exact List.mem_append_right _ (hrg g hgm)

/-- Reading the written file yields exactly the field made from the data variable. -/
theorem readFile_wf : readFile (wfFile o f names) = [readVar (wfFile o f names) (dataVar o f (wfAx f) names)] := by
  have hDmem : dataVar o f (wfAx f) names ∈ (wfFile o f names).vars := by unfold wfFile; simp
  have hDn : (dataVar o f (wfAx f) names).name = nameOf names .field := rfl
  -- referencers
  have hfield : referencersOf (wfFile o f names) (nameOf names .field) = [] := by
    unfold referencersOf
    rw [List.map_eq_nil_iff, List.filter_eq_nil_iff]
    intro w hw
    have := field_unreferenced hwf hg hw
    simpa using this
  have hmeta : ∀ r, IsMetaName f names r → nameOf names .field ∈ referencersOf (wfFile o f names) r := by
    intro r hr
    unfold referencersOf
    rw [← hDn]
    apply List.mem_map_of_mem
    exact List.mem_filter.mpr ⟨hDmem, by simpa using meta_referenced hwf hg hr⟩
  -- the variables other than the data variable
  generalize hrest : (written f (wfAx f)).flatMap (entryVars f names (wfAx f))
      ++ (danPlan f (wfAx f)).flatMap (danEntryVars names (wfAx f)) ++ (gmRefs f).map (gmVar names) = rest
  have hvarsL : (wfFile o f names).vars = rest ++ [dataVar o f (wfAx f) names] := by unfold wfFile; rw [← hrest]
  have hvars : (wfFile o f names).vars.map (·.name) = rest.map (·.name) ++ [nameOf names .field] := by
    rw [hvarsL]; simp [hDn]
  have hfirst : ∀ n ∈ rest.map (·.name), IsMetaName f names n := by
    intro n hn
    obtain ⟨w, hw, rfl⟩ := List.mem_map.mp hn
    have hw' : w ∈ (wfFile o f names).vars := by rw [hvarsL]; exact List.mem_append_left _ hw
    -- `w` is in the first part: as in `mem_vars`, without the data variable
    have hwv : w ∈ (written f (wfAx f)).flatMap (entryVars f names (wfAx f))
        ++ (danPlan f (wfAx f)).flatMap (danEntryVars names (wfAx f)) ++ (gmRefs f).map (gmVar names) := by rw [hrest]; exact hw
    have hwf' : w ∈ (wfFile o f names).vars → True := fun _ => trivial
    simp only [List.mem_append, List.mem_flatMap, List.mem_map] at hwv
    rcases hwv with (⟨e, he, hwe⟩ | ⟨pe, hpe, hwe⟩) | ⟨g, hgm, hwe⟩
    · rcases mem_entryVars.mp hwe with h1 | ⟨hc, b, hb, h1⟩
      · left; exact ⟨e, ((mem_written hwf).mp he).1, by rw [h1, mainVar_name]⟩
      · right; left; exact ⟨e, ((mem_written hwf).mp he).1, b, isBounded_of_isCoord hc, hb, by rw [h1]; rfl⟩
    · have hp2 := hg.plan pe hpe
      have hm : pe.1 ∈ (danPlan f (wfAx f)).map (·.1) := List.mem_map_of_mem hpe
      rw [danPlan_fst] at hm
      obtain ⟨he, ht⟩ := mem_ofType.mp (mem_sortEntries.mp hm)
      have hpe' : pe = (pe.1, none) := by cases pe; simp at hp2; simp [hp2]
      rw [hpe'] at hwe
      rcases (mem_danEntryVars (f := f) ht).mp hwe with h1 | ⟨b, hb, h1⟩
      · left; exact ⟨pe.1, he, by rw [h1, mainVar_name]⟩
      · right; left; exact ⟨pe.1, he, b, by simp [isBounded, ht], hb, by rw [h1]; rfl⟩
    · right; right; exact ⟨g, hgm, by rw [← hwe]; rfl⟩
  unfold readFile
  simp only
  -- the referenced names do not contain the data variable
  have href : nameOf names .field ∉ sortKeys (((wfFile o f names).vars.map (·.name)).filter
      (fun n => !(referencersOf (wfFile o f names) n).isEmpty)) := by
    rw [mem_sortKeys, List.mem_filter]
    rintro ⟨_, h⟩
    rw [hfield] at h
    simp at h
  have hre : reinstate (referencersOf (wfFile o f names))
      (sortKeys (((wfFile o f names).vars.map (·.name)).filter (fun n => !(referencersOf (wfFile o f names) n).isEmpty)))
      (sortKeys (((wfFile o f names).vars.map (·.name)).filter (fun n => !(referencersOf (wfFile o f names) n).isEmpty))) [] = [] := by
    apply reinstate_none
    intro n hn
    rw [mem_sortKeys, List.mem_filter, hvars, List.mem_append] at hn
    obtain ⟨hn1, hn2⟩ := hn
    rcases hn1 with h | h
    · exact ⟨nameOf names .field, hmeta n (hfirst n h), href⟩
    · simp at h; subst h; rw [hfield] at hn2; simp at hn2
  rw [hre]
  have hkeep : ((wfFile o f names).vars.map (·.name)).filter
      (fun n => (referencersOf (wfFile o f names) n).isEmpty || ([] : List String).contains n) = [nameOf names .field] := by
    rw [hvars, List.filter_append]
    have h1 : (rest.map (·.name)).filter
        (fun n => (referencersOf (wfFile o f names) n).isEmpty || ([] : List String).contains n) = [] := by
      rw [List.filter_eq_nil_iff]
      intro n hn
      have := hmeta n (hfirst n hn)
      cases hr : referencersOf (wfFile o f names) n with
      | nil => rw [hr] at this; cases this
      | cons x xs => simp
    rw [h1]
    simp [hfield]
  rw [hkeep, sortKeys_singleton]
  simp [var_field hwf hg]

end

end Cfdm.Codec
