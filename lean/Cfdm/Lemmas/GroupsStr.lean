/-
String lemmas for C11 (names are `List Char`): `split`/`join` round trips for the group
separator `/` and for the flattener separator `__`, and the prefix lemma behind the
writer's dimension-visibility check.
-/
import Cfdm.Model.Groups

namespace Cfdm.Groups

/-- A name without the group separator (netCDF forbids `/` in names). -/
def NoSlash (c : List Char) : Prop := '/' ∉ c

theorem splitOn_ne_nil (sep : Char) (s : List Char) : splitOn sep s ≠ [] := by
  induction s with
  | nil => simp [splitOn]
  | cons c cs ih =>
    unfold splitOn
    split
    · simp
    · split <;> simp

/-- A separator-free string is one component. -/
theorem splitOn_noSep (sep : Char) (w : List Char) (h : sep ∉ w) : splitOn sep w = [w] := by
  induction w with
  | nil => simp [splitOn]
  | cons c cs ih =>
    have hc : c ≠ sep := by intro e; apply h; simp [e]
    have hcs : sep ∉ cs := by intro e; apply h; simp [e]
    unfold splitOn
    simp [hc, ih hcs]

theorem splitOn_append_sep (sep : Char) (w t : List Char) (h : sep ∉ w) :
    splitOn sep (w ++ sep :: t) = w :: splitOn sep t := by
  induction w with
  | nil =>
    show splitOn sep (sep :: t) = _
    rw [splitOn]; simp
  | cons c cs ih =>
    have hc : c ≠ sep := by intro e; apply h; simp [e]
    have hcs : sep ∉ cs := by intro e; apply h; simp [e]
    show splitOn sep (c :: (cs ++ sep :: t)) = _
    rw [splitOn, if_neg hc, ih hcs]

/-- `sep.join(parts).split(sep) == parts` for separator-free parts. -/
theorem splitOn_joinWith (sep : Char) (ws : List (List Char)) (hne : ws ≠ [])
    (h : ∀ w ∈ ws, sep ∉ w) : splitOn sep (joinWith [sep] ws) = ws := by
  induction ws with
  | nil => exact absurd rfl hne
  | cons w rest ih =>
    cases rest with
    | nil => simpa [joinWith] using splitOn_noSep sep w (h w (by simp))
    | cons w' rest' =>
      have hw : sep ∉ w := h w (by simp)
      have := ih (by simp) (fun x hx => h x (by simp [hx]))
      simp only [joinWith, List.append_assoc, List.singleton_append]
      rw [splitOn_append_sep sep w _ hw, this]

theorem joinWith_cons_cons (sep : List Char) (w w' : List Char) (ws : List (List Char)) :
    joinWith sep (w :: w' :: ws) = w ++ sep ++ joinWith sep (w' :: ws) := rfl

/-- `'/' + '/'.join(comps)` is the join of `'' :: comps`. -/
theorem slash_joinWith (ws : List (List Char)) (hne : ws ≠ []) :
    '/' :: joinWith ['/'] ws = joinWith ['/'] ([] :: ws) := by
  cases ws with
  | nil => exact absurd rfl hne
  | cons w rest => simp [joinWith]

theorem splitOn_absName (p : Path) (n : Name) (hp : ∀ c ∈ p, NoSlash c) (hn : NoSlash n) :
    splitOn '/' (absName p n) = [] :: (p ++ [n]) := by
  unfold absName
  rw [slash_joinWith _ (by simp)]
  apply splitOn_joinWith
  · simp
  · intro w hw
    simp at hw
    rcases hw with rfl | hw | rfl
    · simp
    · exact hp w hw
    · exact hn

/-! ### the group strings of the writer -/

/-- `'/a/b/'` written so that prefixes are easy: every component preceded by a slash, one
slash at the end. -/
def slashed : Path → List Char
  | [] => ['/']
  | c :: cs => '/' :: c ++ slashed cs

/-- `_groups(name)` for a name in group `p`: `''` for the root, else `'/a/b/'`. -/
def render : Path → List Char
  | [] => []
  | c :: cs => slashed (c :: cs)

theorem joinWith_slash_snoc (p : Path) (hp : p ≠ []) :
    '/' :: joinWith ['/'] p ++ ['/'] = slashed p := by
  induction p with
  | nil => exact absurd rfl hp
  | cons c cs ih =>
    cases cs with
    | nil => simp [joinWith, slashed]
    | cons c' cs' =>
      have := ih (by simp)
      simp only [joinWith_cons_cons, slashed, List.cons_append, List.append_assoc] at this ⊢
      rw [← this]; simp

theorem dropLast_snoc' {α} (l : List α) (a : α) : (l ++ [a]).dropLast = l := by simp

theorem getLastD_snoc {α} (l : List α) (a d : α) : (l ++ [a]).getLastD d = a := by
  cases h : l ++ [a] with
  | nil => simp at h
  | cons x xs =>
    rw [List.getLastD_cons]
    have : (x :: xs).getLast? = some a := by rw [← h]; simp
    simpa [List.getLast?_cons] using this

theorem removeGroupStructure_ncName (p : Path) (n : Name) (hp : ∀ c ∈ p, NoSlash c) (hn : NoSlash n) :
    removeGroupStructure (ncName p n) = (n, render p) := by
  cases p with
  | nil =>
    have hs := splitOn_noSep '/' n hn
    simp [ncName, removeGroupStructure, render, hs, joinWith]
  | cons c cs =>
    have hs := splitOn_absName _ _ hp hn
    simp only [ncName, removeGroupStructure, hs]
    have h1 : ([] :: (c :: cs ++ [n])).dropLast = [] :: (c :: cs) := by
      have : ([] : List Char) :: (c :: cs ++ [n]) = ([] :: c :: cs) ++ [n] := by simp
      rw [this, dropLast_snoc']
    have h2 : ([] :: (c :: cs ++ [n])).getLastD [] = n := by
      have : ([] : List Char) :: (c :: cs ++ [n]) = ([] :: c :: cs) ++ [n] := by simp
      rw [this, getLastD_snoc]
    rw [h1, h2]
    have h3 : joinWith ['/'] ([] :: c :: cs) = '/' :: joinWith ['/'] (c :: cs) :=
      (slash_joinWith (c :: cs) (by simp)).symm
    rw [h3]
    simp only [List.isEmpty_cons, Bool.false_eq_true, ↓reduceIte, render]
    rw [← joinWith_slash_snoc (c :: cs) (by simp)]

theorem groupsStr_ncName (p : Path) (n : Name) (hp : ∀ c ∈ p, NoSlash c) (hn : NoSlash n) :
    groupsStr (ncName p n) = render p := by
  simp [groupsStr, removeGroupStructure_ncName p n hp hn]

theorem baseName_ncName (p : Path) (n : Name) (hp : ∀ c ∈ p, NoSlash c) (hn : NoSlash n) :
    baseName (ncName p n) = n := by
  simp [baseName, removeGroupStructure_ncName p n hp hn]

/-- Two slash-free words followed by a slash: one is a prefix of the other only if equal. -/
theorem prefix_sep_inj (d v x y : List Char) (hd : '/' ∉ d) (hv : '/' ∉ v)
    (h : d ++ '/' :: x <+: v ++ '/' :: y) : d = v ∧ x <+: y := by
  induction d generalizing v with
  | nil =>
    cases v with
    | nil => simpa using h
    | cons c v' =>
      have h' : ('/' :: x) <+: (c :: (v' ++ '/' :: y)) := by simpa using h
      rw [List.cons_prefix_cons] at h'
      exact absurd (by rw [← h'.1]; simp) hv
  | cons c d' ih =>
    cases v with
    | nil =>
      have h' : (c :: (d' ++ '/' :: x)) <+: ('/' :: y) := by simpa using h
      rw [List.cons_prefix_cons] at h'
      exact absurd (by rw [h'.1]; simp) hd
    | cons c' v' =>
      have h' : (c :: (d' ++ '/' :: x)) <+: (c' :: (v' ++ '/' :: y)) := by simpa using h
      rw [List.cons_prefix_cons] at h'
      have := ih v' (by intro e; apply hd; simp [e]) (by intro e; apply hv; simp [e]) h'.2
      exact ⟨by rw [h'.1, this.1], this.2⟩

theorem slashed_ne_nil (p : Path) : slashed p ≠ [] := by cases p <;> simp [slashed]

theorem slashed_head (p : Path) : ∃ t, slashed p = '/' :: t := by
  cases p with
  | nil => exact ⟨[], rfl⟩
  | cons c cs => exact ⟨c ++ slashed cs, rfl⟩

theorem slashed_prefix_iff (pd pv : Path) (hd : ∀ c ∈ pd, NoSlash c) (hv : ∀ c ∈ pv, NoSlash c) :
    slashed pd <+: slashed pv ↔ pd <+: pv := by
  induction pd generalizing pv with
  | nil =>
    constructor
    · intro _; exact List.nil_prefix
    · intro _
      obtain ⟨t, ht⟩ := slashed_head pv
      rw [ht]; simp [slashed]
  | cons d pd' ih =>
    cases pv with
    | nil =>
      constructor
      · intro h
        obtain ⟨t, ht⟩ := slashed_head pd'
        have : ('/' :: (d ++ slashed pd')) <+: ['/'] := by simpa [slashed] using h
        rw [List.cons_prefix_cons] at this
        have h2 := this.2
        rw [ht] at h2
        have := List.IsPrefix.length_le h2
        simp at this
      · intro h; simp at h
    | cons v pv' =>
      obtain ⟨td, htd⟩ := slashed_head pd'
      obtain ⟨tv, htv⟩ := slashed_head pv'
      have hdd : '/' ∉ d := hd d (by simp)
      have hvv : '/' ∉ v := hv v (by simp)
      have ih' := ih pv' (fun c hc => hd c (by simp [hc])) (fun c hc => hv c (by simp [hc]))
      constructor
      · intro h
        have h1 : ('/' :: (d ++ slashed pd')) <+: ('/' :: (v ++ slashed pv')) := by simpa [slashed] using h
        rw [List.cons_prefix_cons] at h1
        have h2 := h1.2
        rw [htd, htv] at h2
        obtain ⟨e, hp⟩ := prefix_sep_inj d v td tv hdd hvv h2
        have : slashed pd' <+: slashed pv' := by
          rw [htd, htv, List.cons_prefix_cons]; exact ⟨rfl, hp⟩
        rw [e, List.cons_prefix_cons]
        exact ⟨rfl, ih'.mp this⟩
      · intro h
        rw [List.cons_prefix_cons] at h
        obtain ⟨e, hp⟩ := h
        have := ih'.mpr hp
        simp only [slashed]
        rw [e]
        exact (List.prefix_append_right_inj ('/' :: v)).mpr this

/-- The string check of the writer is the tree relation "ancestor or self". -/
theorem render_prefix_iff (pd pv : Path) (hd : ∀ c ∈ pd, NoSlash c) (hv : ∀ c ∈ pv, NoSlash c) :
    render pd <+: render pv ↔ pd <+: pv := by
  cases pd with
  | nil => simp [render]
  | cons d pd' =>
    cases pv with
    | nil =>
      simp only [render]
      constructor
      · intro h
        have := List.IsPrefix.length_le h
        obtain ⟨t, ht⟩ := slashed_head (d :: pd')
        rw [ht] at this; simp at this
      · intro h; simp at h
    | cons v pv' => exact slashed_prefix_iff _ _ hd hv

/-! ### what the reader records and the writer does with it -/

theorem absName_cons (c : Name) (cs : Path) (b : Name) :
    absName (c :: cs) b = '/' :: (c ++ '/' :: joinWith ['/'] (cs ++ [b])) := by
  cases cs <;> simp [absName, joinWith]

theorem joinWith_snoc (sep : List Char) (ws : List (List Char)) (w : List Char) :
    ∃ X, joinWith sep (ws ++ [w]) = X ++ w := by
  induction ws with
  | nil => exact ⟨[], by simp [joinWith]⟩
  | cons a as ih =>
    obtain ⟨X, hX⟩ := ih
    cases as with
    | nil => exact ⟨a ++ sep, by simp [joinWith]⟩
    | cons a' as' =>
      refine ⟨a ++ sep ++ X, ?_⟩
      simp only [List.cons_append, joinWith_cons_cons] at hX ⊢
      rw [hX]; simp

theorem noSlash_contains {b : Name} (hb : NoSlash b) : b.contains '/' = false := by
  simpa [NoSlash] using hb

theorem ncGroups_absName (q : Path) (b : Name) (hq : ∀ c ∈ q, NoSlash c) (hb : NoSlash b) :
    ncGroups (absName q b) = q := by
  unfold ncGroups
  rw [splitOn_absName q b hq hb]
  simp

theorem ncGroups_ncName (q : Path) (b : Name) (hq : ∀ c ∈ q, NoSlash c) (hb : NoSlash b) :
    ncGroups (ncName q b) = q := by
  cases q with
  | nil => simp [ncGroups, ncName, splitOn_noSep '/' b hb]
  | cons c cs => simpa [ncName] using ncGroups_absName (c :: cs) b hq hb

theorem readName_absName (q : Path) (b : Name) (hq : ∀ c ∈ q, NoSlash c) (hb : NoSlash b) :
    readName (absName q b) = ncName q b := by
  unfold readName
  rw [ncGroups_absName q b hq hb]
  cases q with
  | nil => simp [ncName, absName, joinWith]
  | cons c cs => simp [ncName]

theorem parentGroup_ncName (q : Path) (b : Name) (hq : ∀ c ∈ q, NoSlash c) (hb : NoSlash b) :
    parentGroup (ncName q b) = some q := by
  cases q with
  | nil =>
    have := noSlash_contains hb
    unfold parentGroup
    simp only [ncName, this]
    simp
  | cons c cs =>
    have hc : (absName (c :: cs) b).contains '/' = true := by simp [absName]
    have hh : (absName (c :: cs) b).head? = some '/' := by simp [absName]
    unfold parentGroup
    simp only [ncName, hc, hh, ncGroups_absName (c :: cs) b hq hb]
    simp

theorem lastComp_ncName (q : Path) (b : Name) (hq : ∀ c ∈ q, NoSlash c) (hb : NoSlash b) :
    (splitOn '/' (ncName q b)).getLastD [] = b := by
  cases q with
  | nil => simp [ncName, splitOn_noSep '/' b hb]
  | cons c cs =>
    simp only [ncName]
    rw [splitOn_absName _ b hq hb]
    have : ([] : List Char) :: (c :: cs ++ [b]) = ([] :: c :: cs) ++ [b] := by simp
    rw [this, getLastD_snoc]

theorem ncSetGroups_ncName (q q' : Path) (b : Name) (hq : ∀ c ∈ q, NoSlash c) (hq' : ∀ c ∈ q', NoSlash c)
    (hb : NoSlash b) (hne : b ≠ []) : ncSetGroups (ncName q b) q' = some (ncName q' b) := by
  unfold ncSetGroups
  simp only [lastComp_ncName q b hq hb]
  have h1 : b.isEmpty = false := by cases b <;> simp_all
  simp only [h1, Bool.false_eq_true, ↓reduceIte]
  have h2 : q'.any (fun x => x.contains '/') = false := by
    rw [List.any_eq_false]
    intro c hcm
    have := hq' c hcm
    simpa [NoSlash] using this
  rw [h2]; simp

theorem ncSet_ncName (q : Path) (b : Name) (hq : ∀ c ∈ q, NoSlash c ∧ c ≠ []) (hb : NoSlash b) (hne : b ≠ []) :
    ncSet (ncName q b) = some (ncName q b) := by
  have h1 : b.isEmpty = false := by cases b <;> simp_all
  cases q with
  | nil =>
    have hc := noSlash_contains hb
    have h2 : (b == ['/']) = false := by
      cases hb2 : (b == ['/']) with
      | false => rfl
      | true =>
        have := eq_of_beq hb2
        rw [this] at hb; exact absurd (by simp) hb
    unfold ncSet
    simp only [ncName, h1, h2, hc]
    simp
  | cons c cs =>
    have hne0 : c ≠ [] := (hq c (by simp)).2
    rw [show ncName (c :: cs) b = absName (c :: cs) b from rfl, absName_cons]
    obtain ⟨X, hX⟩ := joinWith_snoc ['/'] cs b
    rw [hX]
    obtain ⟨y, ys, rfl⟩ : ∃ y ys, b = ys ++ [y] := by
      rcases List.eq_nil_or_concat b with h | ⟨ys, y, h⟩
      · exact absurd h hne
      · exact ⟨y, ys, by simpa using h⟩
    have hy : y ≠ '/' := by intro e; apply hb; simp [e]
    unfold ncSet
    have e1 : ('/' :: (c ++ '/' :: (X ++ (ys ++ [y])))).isEmpty = false := by simp
    have e2 : ('/' :: (c ++ '/' :: (X ++ (ys ++ [y]))) == ['/']) = false := by
      cases hb2 : ('/' :: (c ++ '/' :: (X ++ (ys ++ [y]))) == ['/']) with
      | false => rfl
      | true =>
        have := eq_of_beq hb2
        simp at this
    have e3 : ('/' :: (c ++ '/' :: (X ++ (ys ++ [y])))).contains '/' = true := by simp
    have e4 : ('/' :: (c ++ '/' :: (X ++ (ys ++ [y])))).head? = some '/' := by simp
    have e5 : ((('/' :: (c ++ '/' :: (X ++ (ys ++ [y])))).filter (· == '/')).length == 1) = false := by
      simp [List.filter_cons, List.filter_append]
    have e6 : (('/' :: (c ++ '/' :: (X ++ (ys ++ [y])))).getLast? == some '/') = false := by
      have : ('/' :: (c ++ '/' :: (X ++ (ys ++ [y])))) = ('/' :: (c ++ '/' :: (X ++ ys))) ++ [y] := by simp
      rw [this, List.getLast?_concat]
      simp [hy]
    simp only [e1, e2, e3, e4, e5, e6]
    simp

/-! ### the flattener separator `__` -/

/-- Split on `__`, scanning from the left. -/
def splitUU : List Char → List (List Char)
  | [] => [[]]
  | [c] => [[c]]
  | c :: d :: rest =>
    if c = '_' ∧ d = '_' then [] :: splitUU rest
    else match splitUU (d :: rest) with
      | [] => [[c]]
      | w :: ws => (c :: w) :: ws

/-- No `__` inside. -/
def NoUU : List Char → Prop
  | [] => True
  | [_] => True
  | c :: d :: rest => ¬(c = '_' ∧ d = '_') ∧ NoUU (d :: rest)

/-- A component the flattened name can be cut back at: no `__` inside and no `_` at the
end (`a_` + `__` + `b` = `a` + `__` + `_b`). -/
def CleanName (w : List Char) : Prop := NoUU w ∧ w.getLast? ≠ some '_'

theorem splitUU_ne_nil (s : List Char) : splitUU s ≠ [] := by
  match s with
  | [] => simp [splitUU]
  | [c] => simp [splitUU]
  | c :: d :: rest =>
    unfold splitUU
    split
    · simp
    · split <;> simp

theorem splitUU_sep (t : List Char) : splitUU ('_' :: '_' :: t) = [] :: splitUU t := by
  rw [splitUU]; simp

theorem splitUU_cons_of_not (c d : Char) (rest : List Char) (h : ¬(c = '_' ∧ d = '_')) :
    splitUU (c :: d :: rest) =
      (match splitUU (d :: rest) with
        | [] => [[c]]
        | w :: ws => (c :: w) :: ws) := by
  rw [splitUU, if_neg h]

theorem splitUU_clean (w : List Char) (h : NoUU w) : splitUU w = [w] := by
  match w with
  | [] => simp [splitUU]
  | [c] => simp [splitUU]
  | c :: d :: rest =>
    have h1 : ¬(c = '_' ∧ d = '_') := h.1
    have h2 : NoUU (d :: rest) := h.2
    rw [splitUU_cons_of_not c d rest h1, splitUU_clean (d :: rest) h2]

theorem splitUU_append_sep (w t : List Char) (h : NoUU w) (hl : w.getLast? ≠ some '_') :
    splitUU (w ++ '_' :: '_' :: t) = w :: splitUU t := by
  match w with
  | [] => exact splitUU_sep t
  | [c] =>
    have hc : c ≠ '_' := by intro e; apply hl; simp [e]
    show splitUU (c :: '_' :: ('_' :: t)) = _
    have : ¬(c = '_' ∧ '_' = '_') := by simp [hc]
    rw [splitUU_cons_of_not c '_' _ this, splitUU_sep]
  | c :: d :: rest =>
    have h1 : ¬(c = '_' ∧ d = '_') := h.1
    have h2 : NoUU (d :: rest) := h.2
    have hl' : (d :: rest).getLast? ≠ some '_' := by
      simpa [List.getLast?_cons_cons] using hl
    have ih := splitUU_append_sep (d :: rest) t h2 hl'
    show splitUU (c :: d :: (rest ++ '_' :: '_' :: t)) = _
    rw [splitUU_cons_of_not c d _ h1]
    have : d :: (rest ++ '_' :: '_' :: t) = (d :: rest) ++ '_' :: '_' :: t := by simp
    rw [this, ih]
termination_by w.length

/-- `'__'.join(parts)` can be cut back into `parts` when every part is clean. -/
theorem splitUU_joinWith (ws : List (List Char)) (hne : ws ≠ []) (h : ∀ w ∈ ws, CleanName w) :
    splitUU (joinWith ['_', '_'] ws) = ws := by
  induction ws with
  | nil => exact absurd rfl hne
  | cons w rest ih =>
    cases rest with
    | nil => simpa [joinWith] using splitUU_clean w (h w (by simp)).1
    | cons w' rest' =>
      have hw := h w (by simp)
      have := ih (by simp) (fun x hx => h x (by simp [hx]))
      simp only [joinWith_cons_cons, List.append_assoc, List.cons_append, List.nil_append]
      rw [splitUU_append_sep w _ hw.1 hw.2, this]

theorem joinWith_uu_injective (xs ys : List (List Char)) (hx : xs ≠ []) (hy : ys ≠ [])
    (cx : ∀ w ∈ xs, CleanName w) (cy : ∀ w ∈ ys, CleanName w)
    (h : joinWith ['_', '_'] xs = joinWith ['_', '_'] ys) : xs = ys := by
  rw [← splitUU_joinWith xs hx cx, ← splitUU_joinWith ys hy cy, h]

end Cfdm.Groups
