import Cfdm.Model.Codec
/-
C01 — what the property demands of `read ∘ write`, stated on the abstract field independently of
the writer and the reader.

* `Equiv f g`: `g` is `f` up to the keys of the domain axes (`π`) and of the metadata
  constructs (`κ`) and up to the insertion order of axes, constructs and properties — the
  relation that C05 proves `Field.equals` decides (`Cfdm.Equality.renField`,
  `C05_key_blind_partial`, `C05_order_blind_arrays`), on the abstraction used here: same
  properties, same data array, the same axes in the same order under the data, the same sizes and
  unlimitedness, the same metadata constructs (type, properties, data, bounds, climatology,
  measure) spanning the same axes in the same order, the same cell methods in the same order.
  netCDF names are *not* part of it (`strip`).
* `WFField f`: the fields of the proved class (stage A) — what the writer accepts and what
  CF-netCDF can encode without loss.
-/
namespace Cfdm.Codec

def renEntry (π κ : Key → Key) (e : Entry) : Entry := (κ e.key, e.con.strip, e.axes.map π)

/-- key, size, unlimited -/
def axisSig (π : Key → Key) (ka : Key × MAxis) : Key × Nat × Bool := (π ka.1, ka.2.size, ka.2.unlimited)

def renCM (π : Key → Key) (cm : MCellMethod) : MCellMethod := { cm with axes := cm.axes.map π }

def InjOn (π : Key → Key) (l : List Key) : Prop := ∀ a ∈ l, ∀ b ∈ l, π a = π b → a = b

/-- `g` is `f` up to construct keys and insertion order. -/
def Equiv (f g : MField) : Prop :=
  ∃ π κ : Key → Key,
    InjOn π f.axisKeys ∧ InjOn κ (f.cons.map Entry.key) ∧
    g.props.Perm f.props ∧ g.data = f.data ∧ g.dataAxes = f.dataAxes.map π ∧
    (g.axes.map (axisSig id)).Perm (f.axes.map (axisSig π)) ∧
    (g.cons.map (renEntry id id)).Perm (f.cons.map (renEntry π κ)) ∧
    g.cms = f.cms.map (renCM π) ∧
    -- a cell-method axis that is not a domain axis (`area`, a standard name) stays what it is
    (∀ cm ∈ f.cms, ∀ a ∈ cm.axes, a ∉ f.axisKeys → π a = a ∧ a ∉ g.axisKeys)

/-- Every netCDF variable name of `g` that corresponds to a name set on `f` is that name. -/
def NamesKept (κ : Key → Key) (f g : MField) : Prop :=
  (∀ n, f.ncvar = some n → g.ncvar = some n) ∧
  ∀ e ∈ f.cons, ∀ e' ∈ g.cons, e'.key = κ e.key →
    (∀ n, e.con.ncvar = some n → e'.con.ncvar = some n) ∧
    (∀ b, e.con.bounds = some b → ∀ n, b.ncvar = some n → ∃ b', e'.con.bounds = some b' ∧ b'.ncvar = some n)

/-! ### The proved class -/

/-- Shape of one metadata construct of a well-formed stage-A field. -/
def WFShape (f : MField) (e : Entry) : Prop :=
  e.axes ≠ [] ∧ e.axes.Nodup ∧ (∀ a ∈ e.axes, a ∈ f.axisKeys)
  -- netCDF stores an array per variable; external variables are stage C
  ∧ e.con.data.isSome = true ∧ e.con.external = false
  -- components that exist on their construct type only
  ∧ (e.con.measure.isSome = true ↔ e.con.ctype = .msr)
  ∧ ((e.con.ctype = .msr ∨ e.con.ctype = .fan) → e.con.bounds = none ∧ e.con.climatology = false)

/-- Coordinate-specific conditions. -/
def WFCoord (f : MField) (e : Entry) : Prop :=
  -- the climatology status of a coordinate is what its field's cell methods say (cfdm keeps this
  -- invariant itself: `Constructs._set_climatology`)
  ((e.con.ctype = .dim ∨ e.con.ctype = .aux) → e.con.climatology = (isClim f e && e.con.bounds.isSome))
  -- bounds do not repeat properties of their coordinate (they are inherited, not stored)
  ∧ (∀ b ∈ e.con.bounds.toList, ∀ p ∈ b.props, ¬ (omitBoundsProps.contains p.1 = true ∧ (e.con.props.lookup p.1).isSome = true))
  -- a dimension coordinate spans one axis and is the only one of its axis
  ∧ (e.con.ctype = .dim → e.axes.length = 1 ∧ ∀ a ∈ e.axes, f.dimCoordOf a = some e)

/-- Either every axis is spanned by the data, or the construct is the only one on a size-1 axis
outside the data and CF has a scalar coordinate variable for it: a numeric dimension coordinate
or a string-valued auxiliary coordinate. -/
def WFSpan (f : MField) (e : Entry) : Prop :=
  (∀ a ∈ e.axes, a ∈ f.dataAxes) ∨
    (e.axes.length = 1 ∧ ∀ a ∈ e.axes, a ∉ f.dataAxes ∧ f.spanning a = [e] ∧
       ((e.con.ctype = .dim ∧ (e.con.data.map (·.isStr)) = some false)
        ∨ (e.con.ctype = .aux ∧ (e.con.data.map (·.isStr)) = some true)))

instance (f : MField) (e : Entry) : Decidable (WFShape f e) := by unfold WFShape; infer_instance
instance (f : MField) (e : Entry) : Decidable (WFCoord f e) := by unfold WFCoord; infer_instance
instance (f : MField) (e : Entry) : Decidable (WFSpan f e) := by unfold WFSpan; infer_instance

def WFEntry (f : MField) (e : Entry) : Prop := WFShape f e ∧ WFCoord f e ∧ WFSpan f e

/-- The fields for which the round trip is proved (stage A).

Excluded, each because CF-netCDF has no encoding that `cfdm.read` maps back to the same
construct (see `known_findings.json` for those the writer nevertheless accepts):
* a size-1 axis outside the data spanned by nothing (no variable mentions it), by two or more
  constructs (the writer inserts the axis into the data, the data array changes shape), by a
  construct with further axes, or unlimited / of another size;
* a *numeric* auxiliary coordinate alone on such an axis (CF 5.7: a numeric scalar coordinate
  variable is a coordinate variable — re-read as a dimension coordinate), and a string-valued
  dimension coordinate there (re-read as auxiliary);
* two dimension coordinates on one axis, constructs without data, external cell measures,
  coordinate references and domain ancillaries (stages B, C). -/
def WFField (f : MField) : Prop :=
  f.axisKeys.Nodup ∧ (f.cons.map Entry.key).Nodup ∧ f.dataAxes.Nodup ∧ (∀ a ∈ f.dataAxes, a ∈ f.axisKeys)
  ∧ (∀ e ∈ f.cons, WFEntry f e)
  ∧ (∀ ka ∈ f.axes, ka.1 ∉ f.dataAxes → ka.2.size = 1 ∧ ka.2.unlimited = false ∧ f.spanning ka.1 ≠ [])

instance (f : MField) (e : Entry) : Decidable (WFEntry f e) := by unfold WFEntry; infer_instance
instance (f : MField) : Decidable (WFField f) := by unfold WFField; infer_instance

end Cfdm.Codec
