import Cfdm.Model.Codec
/-
C01 — what the property demands of `read ∘ write`, stated on the abstract field independently of
the writer and the reader.

* `Equiv f g`: `g` is `f` up to the keys of the domain axes (`π`) and of the metadata
  constructs (`κ`) and up to the insertion order of axes, constructs and properties — the
  relation that C05 proves `Field.equals` decides (`Cfdm.Equality.renField`,
  `C05_key_blind_partial`, `C05_order_blind_arrays`), on the abstraction used here: same
  properties, same data array, the same axes in the same order under the data, the same sizes and
  unlimitedness, the same metadata constructs (type, properties, data, bounds, climatology,
  measure) spanning the same axes in the same order, the same cell methods in the same order, the
  same coordinate references (coordinates, conversion parameters, datum, domain ancillaries by term).
  netCDF names are *not* part of it (`strip`).
* `WFField f`: the fields of the proved class (stage A) — what the writer accepts and what
  CF-netCDF can encode without loss.
-/
namespace Cfdm.Codec

def renEntry (π κ : Key → Key) (e : Entry) : Entry := (κ e.key, e.con.strip, e.axes.map π)

/-- key, size, unlimited -/
def axisSig (π : Key → Key) (ka : Key × MAxis) : Key × Nat × Bool := (π ka.1, ka.2.size, ka.2.unlimited)

def renCM (π : Key → Key) (cm : MCellMethod) : MCellMethod := { cm with axes := cm.axes.map π }

def InjOn (π : Key → Key) (l : List Key) : Prop := ∀ a ∈ l, ∀ b ∈ l, π a = π b → a = b

/-- The same coordinate reference up to the keys of the constructs it names (`κ`): coordinates as a
set, parameters and datum as dictionaries, `term → domain ancillary` as a dictionary.  The netCDF
variable name and the reference's own key are not part of it. -/
def RefEquiv (κ : Key → Key) (r r' : MRef) : Prop :=
  r'.coords.Perm (r.coords.map κ) ∧ r'.params.Perm r.params ∧ r'.datum.Perm r.datum ∧
  r'.terms.Perm (r.terms.map (fun tk => (tk.1, tk.2.map κ)))

/-- Two lists related element by element. -/
def Forall2 {α β} (R : α → β → Prop) : List α → List β → Prop
  | [], [] => True
  | a :: as, b :: bs => R a b ∧ Forall2 R as bs
  | _, _ => False

/-- The same coordinate references up to construct keys and order. -/
def RefsEquiv (κ : Key → Key) (rs rs' : List (Key × MRef)) : Prop :=
  ∃ l : List (Key × MRef), l.Perm rs' ∧ Forall2 (fun a b => RefEquiv κ a.2 b.2) rs l

/-- `g` is `f` up to construct keys and insertion order. -/
def Equiv (f g : MField) : Prop :=
  ∃ π κ : Key → Key,
    InjOn π f.axisKeys ∧ InjOn κ (f.cons.map Entry.key) ∧
    g.props.Perm f.props ∧ g.data = f.data ∧ g.dataAxes = f.dataAxes.map π ∧
    (g.axes.map (axisSig id)).Perm (f.axes.map (axisSig π)) ∧
    (g.cons.map (renEntry id id)).Perm (f.cons.map (renEntry π κ)) ∧
    g.cms = f.cms.map (renCM π) ∧
    -- a cell-method axis that is not a domain axis (`area`, a standard name) stays what it is
    (∀ cm ∈ f.cms, ∀ a ∈ cm.axes, a ∉ f.axisKeys → π a = a ∧ a ∉ g.axisKeys) ∧
    RefsEquiv κ f.refs g.refs

/-- Every netCDF variable name of `g` that corresponds to a name set on `f` is that name. -/
def NamesKept (κ : Key → Key) (f g : MField) : Prop :=
  (∀ n, f.ncvar = some n → g.ncvar = some n) ∧
  ∀ e ∈ f.cons, ∀ e' ∈ g.cons, e'.key = κ e.key →
    (∀ n, e.con.ncvar = some n → e'.con.ncvar = some n) ∧
    (∀ b, e.con.bounds = some b → ∀ n, b.ncvar = some n → ∃ b', e'.con.bounds = some b' ∧ b'.ncvar = some n)

/-! ### The proved class -/

/-- Shape of one metadata construct of a well-formed stage-A field. -/
def WFShape (f : MField) (e : Entry) : Prop :=
  e.axes ≠ [] ∧ e.axes.Nodup ∧ (∀ a ∈ e.axes, a ∈ f.axisKeys)
  -- netCDF stores an array per variable; external variables are stage C
  ∧ e.con.data.isSome = true ∧ e.con.external = false
  -- components that exist on their construct type only
  ∧ (e.con.measure.isSome = true ↔ e.con.ctype = .msr)
  ∧ ((e.con.ctype = .msr ∨ e.con.ctype = .fan) → e.con.bounds = none ∧ e.con.climatology = false)

/-- Coordinate-specific conditions. -/
def WFCoord (f : MField) (e : Entry) : Prop :=
  -- the climatology status of a coordinate is what its field's cell methods say (cfdm keeps this
  -- invariant itself: `Constructs._set_climatology`)
  ((e.con.ctype = .dim ∨ e.con.ctype = .aux) → e.con.climatology = (isClim f e && e.con.bounds.isSome))
  -- bounds do not repeat properties of their coordinate (they are inherited, not stored)
  ∧ (∀ b ∈ e.con.bounds.toList, ∀ p ∈ b.props, ¬ (omitBoundsProps.contains p.1 = true ∧ (e.con.props.lookup p.1).isSome = true))
  -- a dimension coordinate spans one axis and is the only one of its axis
  ∧ (e.con.ctype = .dim → e.axes.length = 1 ∧ ∀ a ∈ e.axes, f.dimCoordOf a = some e)

/-- Either every axis is spanned by the data, or the construct is the only one on a size-1 axis
outside the data and CF has a scalar coordinate variable for it: a numeric dimension coordinate
or a string-valued auxiliary coordinate. -/
def WFSpan (f : MField) (e : Entry) : Prop :=
  (∀ a ∈ e.axes, a ∈ f.dataAxes) ∨
    (e.axes.length = 1 ∧ ∀ a ∈ e.axes, a ∉ f.dataAxes ∧ f.spanning a = [e] ∧
       ((e.con.ctype = .dim ∧ (e.con.data.map (·.isStr)) = some false)
        ∨ (e.con.ctype = .aux ∧ (e.con.data.map (·.isStr)) = some true)))

instance (f : MField) (e : Entry) : Decidable (WFShape f e) := by unfold WFShape; infer_instance
instance (f : MField) (e : Entry) : Decidable (WFCoord f e) := by unfold WFCoord; infer_instance
instance (f : MField) (e : Entry) : Decidable (WFSpan f e) := by unfold WFSpan; infer_instance

def WFEntry (f : MField) (e : Entry) : Prop := WFShape f e ∧ WFCoord f e ∧ WFSpan f e

/-- The fields for which the round trip is proved (stage A).

Excluded, each because CF-netCDF has no encoding that `cfdm.read` maps back to the same
construct (see `known_findings.json` for those the writer nevertheless accepts):
* a size-1 axis outside the data spanned by nothing (no variable mentions it), by two or more
  constructs (the writer inserts the axis into the data, the data array changes shape), by a
  construct with further axes, or unlimited / of another size;
* a *numeric* auxiliary coordinate alone on such an axis (CF 5.7: a numeric scalar coordinate
  variable is a coordinate variable — re-read as a dimension coordinate), and a string-valued
  dimension coordinate there (re-read as auxiliary);
* two dimension coordinates on one axis, constructs without data, external cell measures,
  coordinate references and domain ancillaries (stages B, C). -/
def WFField (f : MField) : Prop :=
  f.axisKeys.Nodup ∧ (f.cons.map Entry.key).Nodup ∧ f.dataAxes.Nodup ∧ (∀ a ∈ f.dataAxes, a ∈ f.axisKeys)
  ∧ (∀ e ∈ f.cons, WFEntry f e)
  ∧ (∀ ka ∈ f.axes, ka.1 ∉ f.dataAxes → ka.2.size = 1 ∧ ka.2.unlimited = false ∧ f.spanning ka.1 ≠ [])
  -- stage A: no domain ancillaries, no coordinate references
  ∧ (∀ e ∈ f.cons, e.con.ctype ≠ .dan) ∧ f.refs = []

instance (f : MField) (e : Entry) : Decidable (WFEntry f e) := by unfold WFEntry; infer_instance
instance (f : MField) : Decidable (WFField f) := by unfold WFField; infer_instance

/-! ### The proved class, stage B: coordinate references and domain ancillaries -/

/-- The coordinate constructs that CF associates with a grid mapping by their standard names
(`cf_coordinate_reference_coordinates`). -/
def inferredCoords (f : MField) (name : String) : List Key :=
  ((Cfdm.Generated.coordRefCoordinates.lookup name).getD []).flatMap (fun n =>
    ((f.cons.filter Entry.isCoordinate).filter (fun e => stdName e.con.props == some n)).map Entry.key)

def gmOnly (f : MField) : List (Key × MRef) := f.refs.filter (fun kr => kr.2.isGM)
def ftOnly (f : MField) : List (Key × MRef) := f.refs.filter (fun kr => kr.2.isFT)

/-- The only coordinate of a reference, when it is a coordinate construct of the field. -/
def ownerOf (f : MField) (r : MRef) : Option Entry :=
  match r.coords with
  | [k] => f.coord? k
  | _ => none

/-- What the single grid mapping of a field (short form of the `grid_mapping` attribute) demands. -/
def singleGM (f : MField) (P : Key × MRef → Prop) : Prop :=
  match gmOnly f with
  | [g] => P g
  | _ => True

instance (f : MField) (P : Key × MRef → Prop) [DecidablePred P] : Decidable (singleGM f P) := by
  unfold singleGM; split <;> infer_instance

/-- A parametric vertical coordinate reference that CF-netCDF can hold: its only coordinate is the
1-d coordinate construct of a data axis that has its standard name (and its computed standard
name, if any); every term names a domain ancillary; its datum is the one the grid mappings give it
back on reading. -/
def WFFT (f : MField) (r : MRef) : Prop :=
  r.gmName = none ∧ r.ncvar = none
  ∧ (r.params.map (·.1)).Nodup ∧ (∀ p ∈ r.params, p.1 = "standard_name" ∨ p.1 = "computed_standard_name")
  ∧ (match ownerOf f r with
     | some o => stdName o.con.props = r.sn ∧ o.con.props.lookup "computed_standard_name" = r.csn
                 ∧ o.axes.length = 1 ∧ (∀ z ∈ o.axes, z ∈ f.dataAxes) ∧ isClim f o = false
     | none => False)
  ∧ r.terms ≠ [] ∧ (r.terms.map (·.1)).Nodup ∧ (∀ tk ∈ r.terms, (tk.2.bind f.dan?).isSome = true)
  -- the datum: that of exactly one grid mapping, or none; with a single grid mapping (short form
  -- of the attribute) the reader gives every vertical reference that grid mapping's datum
  ∧ (r.datum ≠ [] → ((gmOnly f).filter (fun g => datumEq g.2.datum r.datum)).length = 1)
  ∧ singleGM f (fun g => g.2.datum = r.datum)

/-- A grid mapping that CF-netCDF can hold. -/
def WFGM (f : MField) (r : MRef) : Prop :=
  r.sn = none ∧ r.terms = []
  ∧ (∀ k ∈ r.coords, (f.coord? k).isSome = true) ∧ r.coords.Nodup
  -- datum and conversion parameters are told apart by their names
  ∧ (∀ p ∈ r.datum, isDatumParam p = true) ∧ (∀ p ∈ r.params, isDatumParam p = false)
  -- a single grid mapping is written in the short form: its coordinates are inferred
  ∧ singleGM f (fun _ => r.coords.Perm (inferredCoords f (r.gmName.getD "")))
  -- one of several grid mappings names its coordinates (with none the reader would infer them)
  ∧ ((gmOnly f).length ≠ 1 → r.coords ≠ [])

instance (f : MField) (r : MRef) : Decidable (WFFT f r) := by
  unfold WFFT
  cases ownerOf f r <;> infer_instance

instance (f : MField) (r : MRef) : Decidable (WFGM f r) := by
  unfold WFGM; infer_instance

/-- The terms of all coordinate references. -/
def allTerms (f : MField) : List (String × Option Key) := f.refs.flatMap (fun kr => kr.2.terms)

/-- The bounds of a domain ancillary have a place in the dataset: the parametric coordinate of the
formula-terms reference that names the domain ancillary has bounds, and the domain ancillary spans
the vertical axis (CF 7.1; otherwise they are lost — finding
`domain-ancillary-bounds-not-named-by-bounds-formula-terms`). -/
def boundsEncodable (f : MField) (e : Entry) : Bool :=
  (ftOnly f).all (fun kr =>
    !kr.2.terms.any (fun tk => tk.2 == some e.key) ||
    (match ownerOf f kr.2 with
     | some o => o.con.bounds.isSome && o.axes.all e.axes.contains
     | none => false))

/-- A domain ancillary that CF-netCDF can hold: the term of exactly one coordinate reference, and
with bounds only where they can be encoded. -/
def WFDan (f : MField) (e : Entry) : Prop :=
  e.con.ctype = .dan →
    e.con.climatology = false
    ∧ ((allTerms f).filter (fun tk => tk.2 == some e.key)).length = 1
    ∧ (e.con.bounds.isSome = true → boundsEncodable f e = true)

instance (f : MField) (e : Entry) : Decidable (WFDan f e) := by unfold WFDan; infer_instance

/-- The fields for which the round trip is proved, stages A and B: as `WFField`, with domain
ancillaries (`WFDan`) and coordinate references — parametric vertical coordinates (`WFFT`) and grid
mappings (`WFGM`) — that CF-netCDF can hold.

Excluded, each a finding of `known_findings.json` when `cfdm.write` accepts it: a term without
domain ancillary, coordinates of a formula-terms reference other than the parametric coordinate, a
`computed_standard_name` that the coordinate does not carry, a vertical datum that no or several
grid mappings share (or that differs from the single grid mapping's), the coordinates of a single
grid mapping other than those CF infers from standard names, bounds of a domain ancillary that the
bounds `formula_terms` cannot name, a scalar parametric coordinate. -/
def WFFieldB (f : MField) : Prop :=
  f.axisKeys.Nodup ∧ (f.cons.map Entry.key).Nodup ∧ f.dataAxes.Nodup ∧ (∀ a ∈ f.dataAxes, a ∈ f.axisKeys)
  ∧ (∀ e ∈ f.cons, WFEntry f e)
  ∧ (∀ ka ∈ f.axes, ka.1 ∉ f.dataAxes → ka.2.size = 1 ∧ ka.2.unlimited = false ∧ f.spanning ka.1 ≠ [])
  ∧ (∀ e ∈ f.cons, WFDan f e)
  ∧ (∀ kr ∈ f.refs, (kr.2.isFT = true ∨ kr.2.isGM = true) ∧ (kr.2.isFT = true → WFFT f kr.2) ∧ (kr.2.isGM = true → WFGM f kr.2))
  ∧ (f.refs.map (·.1)).Nodup
  -- the parametric coordinates of different references are different, and no grid mapping lists one
  ∧ ((ftOnly f).map (fun kr => kr.2.coords)).Nodup
  ∧ (∀ g ∈ gmOnly f, ∀ kr ∈ ftOnly f, ∀ k ∈ kr.2.coords, k ∉ g.2.coords)

instance (f : MField) : Decidable (WFFieldB f) := by unfold WFFieldB; infer_instance

/-- At most one grid mapping, or no vertical datum: the case split of the proof (the short form of the
`grid_mapping` attribute, and the long form without vertical coordinates; the general long form is
`Lemmas/CodecB3.lean`).  Not a hypothesis of the theorems. -/
def GMSimple (f : MField) : Prop := (gmOnly f).length ≤ 1 ∨ ∀ kr ∈ ftOnly f, kr.2.datum = []

instance (f : MField) : Decidable (GMSimple f) := by unfold GMSimple; infer_instance

/-- Stage A is the part of stage B without coordinate references and domain ancillaries. -/
theorem WFField.toB {f : MField} (h : WFField f) : WFFieldB f := by
  obtain ⟨h1, h2, h3, h4, h5, h6, h7, h8⟩ := h
  refine ⟨h1, h2, h3, h4, h5, h6, ?_, ?_, ?_, ?_, ?_⟩
  · intro e he ht; exact absurd ht (h7 e he)
  · rw [h8]; intro kr hkr; cases hkr
  · rw [h8]; exact List.nodup_nil
  · unfold ftOnly; rw [h8]; exact List.nodup_nil
  · unfold gmOnly; rw [h8]; intro g hg; cases hg

end Cfdm.Codec
