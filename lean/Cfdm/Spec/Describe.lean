import Cfdm.Model.Describe
/-
C19 — what the property says, stated on the abstract container independently of
how the formatters / `creation_commands` compute.
-/
namespace Cfdm.Describe

/-- Every domain axis that is *named* (by the field's data axes or by the recorded
data axes of a metadata construct) exists.  This is the referential-integrity part of
the C02 invariant; it does not ask that every construct has had its axes set, so it
holds in the partially built states of *ab initio* creation. -/
def AxesExist (f : MField) : Prop :=
  (∀ a ∈ f.dataAxes.getD [], a ∈ f.axisKeys) ∧
  ∀ e ∈ f.cons, ∀ l, e.axes = some l → ∀ a ∈ l, a ∈ f.axisKeys

/-- Every metadata construct has had its data axes set. -/
def AllAxesSet (f : MField) : Prop := ∀ e ∈ f.cons, e.axes.isSome = true

/-- "Equal with the same netCDF names, up to the identifiers that the emitted commands
do not pin": the rebuilt container `g` has the same domain axes under the same keys in
the same order, for every construct type the same constructs under the same keys in the
same order with the same recorded axes and netCDF names, the same cell methods in the
same order and the same coordinate references in the same order (their keys are
re-allocated from 0), the same data, data axes and netCDF variable name. -/
structure Equiv (g f : MField) : Prop where
  isDomain : g.isDomain = f.isDomain
  ncvar : g.ncvar = f.ncvar
  data : g.data = f.data
  dataAxes : g.dataAxes = f.dataAxes
  axes : g.axes = f.axes
  cons : ∀ t, g.ofType t = f.ofType t
  cms : g.cms.map (·.2) = f.cms.map (·.2)
  cmKeys : g.cms.map (·.1) = List.range f.cms.length
  refs : g.refs.map (·.2) = f.refs.map (·.2)
  refKeys : g.refs.map (·.1) = List.range f.refs.length

end Cfdm.Describe
