import Cfdm.Model.Equality
/-
C05 — what the property says two constructs being "equal" means, stated
declaratively (no loops, no early exits): component by component, index by index,
name by name.  Written from the property statement and the CF data model, not from
the algorithm; `Lemmas/EqualitySpec.lean` proves that the modelled code decides
exactly these relations.
-/
namespace Cfdm.Equality.Spec
open Cfdm.Equality

/-- Two array elements agree: both masked, or both present and close
(numbers) / identical (strings). -/
def ElemEq (close : Int → Int → Bool) (str : Bool) : Option Int → Option Int → Prop
  | none, none => True
  | some a, some b => if str then a = b else close a b = true
  | _, _ => False

/-- Arrays: same shape, same data type unless told to ignore it (strings are exempt),
and elementwise agreement of mask and value. -/
def ArrEq (close : Int → Int → Bool) (ignoreDataType : Bool) (x y : Arr) : Prop :=
  x.shape = y.shape
  ∧ (ignoreDataType = true ∨ x.dtype = y.dtype ∨ x.isStr = true ∨ y.isStr = true)
  ∧ x.vals.length = y.vals.length
  ∧ ∀ i (h0 : i < x.vals.length) (h1 : i < y.vals.length),
      ElemEq close (x.isStr || y.isStr) x.vals[i] y.vals[i]

/-- Both absent, or both present and related. -/
def OptRel {α β} (R : α → β → Prop) : Option α → Option β → Prop
  | none, none => True
  | some a, some b => R a b
  | _, _ => False

/-- Dictionaries keyed by name: the same names, and related values under each name. -/
def DictEq {V W} (R : V → W → Prop) (d0 : List (Nat × V)) (d1 : List (Nat × W)) : Prop :=
  ∀ name, OptRel R (d0.lookup name) (d1.lookup name)

/-- Properties: every name that is not ignored is present on both sides or on
neither, with equal values (data type of a property value never matters). -/
def PropsEq (close : Int → Int → Bool) (ign : List Nat) (p0 p1 : Props) : Prop :=
  ∀ name, name ∉ ign → OptRel (ArrEq close true) (p0.lookup name) (p1.lookup name)

/-- The names `ignore_fill_value` / `ignore_properties` stand for, whatever form
(`None`, `str`, `tuple`, `list`) the latter takes. -/
def ignoredSet (ignoreFillValue : Bool) (ip : IgnoreProps) (name : Nat) : Prop :=
  name ∈ ip.names ∨ (ignoreFillValue = true ∧ (name = nmFillValue ∨ name = nmMissingValue))

def DataEq (close : Int → Int → Bool) (idt ifv ic : Bool) (x y : Data) : Prop :=
  ArrEq close idt x.arr y.arr
  ∧ (idt = true ∨ x.arr.dtype = y.arr.dtype)
  ∧ (ifv = true ∨ x.fill = y.fill)
  ∧ x.units = y.units ∧ x.calendar = y.calendar
  ∧ (ic = true ∨ (x.ctype = y.ctype ∧ (x.ctype = 0 ∨ ArrEq close false x.carr y.carr)))

/-- Bounds / interior ring: properties (only the fill-value names can be ignored) and data. -/
def SubEq (o : Opts) (x y : Sub) : Prop :=
  PropsEq o.close (if o.ignoreFillValue then [nmFillValue, nmMissingValue] else []) x.props y.props
  ∧ OptRel (DataEq o.close o.ignoreDataType o.ignoreFillValue o.ignoreCompression) x.data y.data

/-- Two metadata constructs of the same class. -/
def ConstructEq (o : Opts) (x y : Construct) : Prop :=
  (∀ name, ¬ ignoredSet o.ignoreFillValue o.ignoreProps name →
      OptRel (ArrEq o.close true) (x.props.lookup name) (y.props.lookup name))
  ∧ OptRel (DataEq o.close o.ignoreDataType o.ignoreFillValue o.ignoreCompression) x.data y.data
  ∧ (hasBoundsAPI x.cls = true →
       x.geometry = y.geometry ∧ OptRel (SubEq o) x.bounds y.bounds
       ∧ OptRel (SubEq o) x.interiorRing y.interiorRing)
  ∧ (hasTypeTag x.cls = true → x.measure = y.measure)

/-- Cell methods on their own (axes are interpreted by the containing field only). -/
def CellMethodEq (close : Int → Int → Bool) (x y : CellMethod) : Prop :=
  x.method = y.method
  ∧ DictEq (fun a b => a = b) x.quals y.quals
  ∧ x.intervals.length = y.intervals.length
  ∧ ∀ i (h0 : i < x.intervals.length) (h1 : i < y.intervals.length),
      DataEq close true true true x.intervals[i] y.intervals[i]

def ParamEq (close : Int → Int → Bool) : Option Arr → Option Arr → Prop :=
  OptRel (ArrEq close true)

/-- Coordinate references on their own (construct keys are interpreted by the field only):
as many coordinates, the same conversion and datum parameters, the same terms
pointing (or not) at a domain ancillary. -/
def CoordRefEq (close : Int → Int → Bool) (x y : CoordRef) : Prop :=
  x.coords.length = y.coords.length
  ∧ DictEq (ParamEq close) x.convParams y.convParams
  ∧ DictEq (fun (a b : Option Nat) => a.isSome = b.isSome) x.convAncils y.convAncils
  ∧ DictEq (ParamEq close) x.datumParams y.datumParams

/-- Well-formedness of the dictionaries: a name occurs once. -/
def KeysNodup {V} (d : List (Nat × V)) : Prop := (d.map (·.1)).Nodup

def SubWF (s : Sub) : Prop := KeysNodup s.props
def ConstructWF (c : Construct) : Prop :=
  KeysNodup c.props ∧ (∀ b, c.bounds = some b → SubWF b) ∧ (∀ b, c.interiorRing = some b → SubWF b)
def CellMethodWF (m : CellMethod) : Prop := KeysNodup m.quals
def CoordRefWF (r : CoordRef) : Prop :=
  KeysNodup r.convParams ∧ KeysNodup r.convAncils ∧ KeysNodup r.datumParams

/-- Matching up to order: some rearrangement of `l1` is related to `l0` item by item. -/
def MatchUpToOrder {α β} (r : α → β → Bool) (l0 : List α) (l1 : List β) : Prop :=
  ∃ l1' : List β, l1'.Perm l1 ∧ l0.length = l1'.length ∧
    ∀ i (h0 : i < l0.length) (h1 : i < l1'.length), r l0[i] l1'[i] = true

/-- The property a relation must have for greedy matching to be complete
(every equivalence relation has it; so has every `f a = g b`). -/
def Difunctional {α β} (r : α → β → Bool) : Prop :=
  ∀ a a' b b', r a b = true → r a' b = true → r a' b' = true → r a b' = true

end Cfdm.Equality.Spec
