import Cfdm.Model.Append
/-
C17 — what the property demands, stated on the abstract dataset independently of the writer.
-/
namespace Cfdm.Append

/-- "Everything already in the dataset is preserved": the global attributes are the same, the old
variables (name, dimensions, every attribute, contents) and the old dimensions (name, size,
unlimited or not) are still there, in place, and what was added uses no name of an old variable
(resp. dimension). -/
structure Extends (E E' : Ds) : Prop where
  gattrs : E'.gattrs = E.gattrs
  vars : ∃ nv, E'.vars = E.vars ++ nv ∧ ∀ v ∈ nv, v.name ∉ E.varNames
  dims : ∃ nd, E'.dims = E.dims ++ nd ∧ ∀ d ∈ nd, d.name ∉ E.dimNames

/-- The same dimension, longer at most — and only if it is unlimited. -/
def Dim.grownFrom (D' D : Dim) : Prop :=
  D'.name = D.name ∧ D'.unlim = D.unlim ∧ D.size ≤ D'.size ∧ (D.unlim = false → D'.size = D.size)

/-- Position by position. -/
def DimsGrown : List Dim → List Dim → Prop
  | [], [] => True
  | D' :: t', D :: t => D'.grownFrom D ∧ DimsGrown t' t
  | _, _ => False

/-- What netCDF alone guarantees of any sequence of `createDimension` / `createVariable` / data writes on an open
dataset: as `Extends`, except that an unlimited dimension may have become longer (every variable on it is
then padded: the old variables are *not* what they were). -/
structure ExtendsGrown (E E' : Ds) : Prop where
  gattrs : E'.gattrs = E.gattrs
  vars : ∃ nv, E'.vars = E.vars ++ nv ∧ ∀ v ∈ nv, v.name ∉ E.varNames
  dims : ∃ old nd, E'.dims = old ++ nd ∧ DimsGrown old E.dims ∧ ∀ d ∈ nd, d.name ∉ E.dimNames

/-- The array written to a new variable has, along every unlimited dimension of the dataset `E`, exactly the
current length of that dimension (position by position; the two lists have the same length). -/
def ShapeOK (E : Ds) : List Name → List Nat → Prop
  | [], [] => True
  | d :: ds, n :: ns => (∀ D ∈ E.dims, D.unlim = true → D.name = d → n = D.size) ∧ ShapeOK E ds ns
  | _, _ => False

/-- The documentation of `cfdm.write(mode='a')`: fields with netCDF groups cannot be appended (the
code can only meet them in a NETCDF4 request); fields whose featureType is incompatible with the
dataset's cannot be appended.  Global attributes are never rewritten, so "incompatible" is: the
batch carries a featureType that is not the dataset's own global attribute, or carries two
different ones. -/
def DocumentedUnsupported (fmtNetcdf4 : Bool) (fileFT : Option String) (S : List FieldReq) : Prop :=
  (fmtNetcdf4 = true ∧ ∃ f ∈ S, f.groups = true) ∨
  (∃ f ∈ S, ∃ t, f.featureType = some t ∧ (fileFT ≠ some t ∨ ∃ g ∈ S, ∃ u, g.featureType = some u ∧ u ≠ t))

/-! ### The reader, abstractly

A reader turns a variable into a field by following references: the names in its reference
attributes and the coordinate variables of its dimensions, transitively, plus the global
attributes.  `refsOf` (which names a variable refers to) is a parameter: the theorems hold for
every such function. -/

/-- Variables reachable from the names `ns` in at most `fuel` rounds (in the order found). -/
def reach (refsOf : Var → List Name) (ds : Ds) : Nat → List Name → List Var
  | 0, _ => []
  | fuel + 1, ns =>
    let vs := ns.filterMap ds.findVar
    vs ++ reach refsOf ds fuel (vs.flatMap (fun v => refsOf v ++ v.dims))

/-- Everything a reader can look at when it builds the field of variable `v`. -/
def footprint (refsOf : Var → List Name) (ds : Ds) (fuel : Nat) (v : Var) :
    List (String × String) × List Var × List (Option Dim) :=
  let vs := reach refsOf ds fuel [v.name]
  (ds.gattrs, vs, (vs.flatMap (·.dims)).map (fun d => ds.dims.find? (·.name == d)))

/-- The dataset is self-contained: the dimensions of every variable exist, and every name a variable
refers to is the name of a variable or of a dimension of the dataset — no dangling reference that a
later variable could capture. -/
structure Closed (refsOf : Var → List Name) (E : Ds) : Prop where
  dims : ∀ v ∈ E.vars, ∀ d ∈ v.dims, d ∈ E.dimNames
  refs : ∀ v ∈ E.vars, ∀ n ∈ refsOf v, n ∈ E.varNames ∨ n ∈ E.dimNames

/-- `v` is returned as a field: every variable that refers to it is itself referred to
(`NetCDFRead.read`: unreferenced, or all referencers referenced). -/
def IsField (refsOf : Var → List Name) (ds : Ds) (v : Var) : Prop :=
  ∀ w ∈ ds.vars, v.name ∈ refsOf w → ∃ u ∈ ds.vars, w.name ∈ refsOf u

end Cfdm.Append
