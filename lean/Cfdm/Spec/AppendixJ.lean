/-
CF conventions, section 8.3 and Appendix J ("Coordinate Interpolation Methods"),
written down independently of cfdm's algorithm: no subarea loop, no `first`
flag, no trimming — only "which two tie points bracket index i, and what does
the named formula give there".  Core Lean only.
-/
namespace Cfdm.Spec.AppendixJ

/-- Appendix J: the interpolation variable `s(ia, ib, i) = (i - ia) / (ib - ia)`. -/
def sParam (ia ib i : Nat) : Rat := ((i : Rat) - (ia : Rat)) / ((ib : Rat) - (ia : Rat))

/-- `linear`: the point dividing `ua → ub` in the ratio `s : 1 - s`. -/
def fl (ua ub s : Rat) : Rat := (1 - s) * ua + s * ub

/-- `bi_linear`: the tensor product of two linear interpolations
(`ua, ub` at `s2 = 0`; `uc, ud` at `s2 = 1`; `ua, uc` at `s1 = 0`). -/
def fbl (ua ub uc ud s2 s1 : Rat) : Rat :=
  (1 - s2) * (1 - s1) * ua + (1 - s2) * s1 * ub + s2 * (1 - s1) * uc + s2 * s1 * ud

/-- `quadratic`: the parabola through `ua` (s = 0) and `ub` (s = 1) whose
deviation from the chord is `4 w s (1 - s)` (so `w` at the midpoint). -/
def fq (ua ub w s : Rat) : Rat := (1 - s) * ua + s * ub + 4 * w * s * (1 - s)

/-- Position along the interpolation subarea dimension of the subarea between
tie points `k` and `k + 1`: the number of earlier adjacent tie point pairs that
are not an area boundary (indices differing by more than one). -/
def subareaIndex : List Nat → Nat → Nat
  | a :: b :: rest, k + 1 => (if b - a ≤ 1 then 0 else 1) + subareaIndex (b :: rest) k
  | _, _ => 0

/-- Tie point `k` is the first of its continuous area, where `first` says so for
`k = 0`: CF 8.3.5 "adjacent tie point indices differing by one mark an area
boundary". -/
def startAt (first : Bool) (t : List Nat) : Nat → Bool
  | 0 => first
  | k + 1 => decide (t.getD (k + 1) 0 - t.getD k 0 ≤ 1)

def areaStart (t : List Nat) (k : Nat) : Bool := startAt true t k

/-- CF 8.3.9 (bounds tie points): vertex index of the bounds tie point of tie
point `k` whose index is `a` when it opens a subarea — the lower vertex of its
cell if it is the first tie point of its continuous area, otherwise the upper
vertex (which the previous subarea ended on). -/
def lowVertex (start : Bool) (a : Nat) : Nat := if start then a else a + 1

/-- The tie point index vector is strictly increasing and every continuous area
has at least two tie points (`first`: the head opens a new area). -/
def wfAreas : Bool → List Nat → Bool
  | _, [] => false
  | first, [_] => !first
  | first, a :: b :: rest =>
    decide (a < b) &&
      (if b - a ≤ 1 then !first && wfAreas true (b :: rest) else wfAreas false (b :: rest))

/-- CF 8.3.9, two subsampled dimensions: the value at vertex `(g0, g1)` of the vertex grid
inside the interpolation subarea whose vertex grid runs from `(v0, v1)` to
`(b0 + 1, b1 + 1)` and whose four bounds tie points are `ua` (at `(v0, v1)`), `ub` (at
`(v0, b1 + 1)`), `uc` (at `(b0 + 1, v1)`), `ud` (at `(b0 + 1, b1 + 1)`). -/
def vertexValue (ua ub uc ud : Rat) (v0 b0 v1 b1 g0 g1 : Nat) : Rat :=
  fbl ua ub uc ud (sParam v0 (b0 + 1) g0) (sParam v1 (b1 + 1) g1)

/-- CF 7.1 / 8.3.9: the four bounds of cell `(p0, p1)` are the vertices `(p0, p1)`,
`(p0, p1 + 1)`, `(p0 + 1, p1 + 1)`, `(p0 + 1, p1)` of the vertex grid, in this order. -/
def cellVertices (V : Nat → Nat → Rat) (p0 p1 : Nat) : List Rat :=
  [V p0 p1, V p0 (p1 + 1), V (p0 + 1) (p1 + 1), V (p0 + 1) p1]

end Cfdm.Spec.AppendixJ
