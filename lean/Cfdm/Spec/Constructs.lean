import Cfdm.Model.Constructs
import Cfdm.Model.Describe
/-
C02 — what the property says, stated on the state of the container independently of how
the operations compute: `Inv s` is the conjunction of the clauses of the property statement.
Every clause is decidable (the driver evaluates `decide (Inv s)` after every operation).
-/
namespace Cfdm.Constructs

/-! ### a dictionary clause `∀ k v, d.get k = some v → P k v` is decidable -/

theorem Dict.get_mem {κ ν} [DecidableEq κ] {d : Dict κ ν} {k : κ} {v : ν} (h : d.get k = some v) : (k, v) ∈ d := by
  induction d with
  | nil => simp [Dict.get] at h
  | cons p r ih =>
    obtain ⟨k', v'⟩ := p
    unfold Dict.get at h
    split at h
    · rename_i hk; cases h; subst hk; exact List.mem_cons_self
    · exact List.mem_cons_of_mem _ (ih h)

theorem Dict.forall_get_iff {κ ν} [DecidableEq κ] (d : Dict κ ν) (P : κ → ν → Prop) :
    (∀ k v, d.get k = some v → P k v) ↔ ∀ p ∈ d, d.get p.1 = some p.2 → P p.1 p.2 :=
  ⟨fun h p _ hp => h p.1 p.2 hp, fun h k v hkv => h (k, v) (Dict.get_mem hkv) hkv⟩

instance Dict.decForallGet {κ ν} [DecidableEq κ] [DecidableEq ν] (d : Dict κ ν) (P : κ → ν → Prop)
    [∀ k v, Decidable (P k v)] : Decidable (∀ k v, d.get k = some v → P k v) :=
  decidable_of_iff _ (Dict.forall_get_iff d P).symm

/-! ### the clauses -/

/-- the domain axes `A` exist, are sized, and their sizes are exactly `shp` -/
def Fits (s : St) (A : List Key) (shp : List Nat) : Prop :=
  A.map (fun a => (s.cons.get (.axis, a)).map (·.size)) = shp.map (fun n => some (some n))

instance (s : St) (A : List Key) (shp : List Nat) : Decidable (Fits s A shp) := by unfold Fits; infer_instance

/-- every named domain axis exists -/
def AxesExist (s : St) (A : List Key) : Prop := ∀ a ∈ A, (s.cons.get (.axis, a)).isSome = true

instance (s : St) (A : List Key) : Decidable (AxesExist s A) := by unfold AxesExist; infer_instance

/-- bounds and interior ring agree with the construct's shape on the leading dimensions -/
def Con.LeadOK (t : CType) (c : Con) : Prop :=
  match c.shape t with
  | none => True
  | some shp =>
    (match c.bounds with | some b => b.take shp.length = shp | none => True) ∧
    (match c.ring with | some r => r.take shp.length = shp | none => True)

instance (t : CType) (c : Con) : Decidable (c.LeadOK t) := by
  unfold Con.LeadOK; split
  · infer_instance
  · refine @instDecidableAnd _ _ ?_ ?_ <;> (split <;> infer_instance)

/-- a dimension coordinate construct has one-dimensional data (what `DimensionCoordinate.set_data` demands) -/
def Con.DimOK (t : CType) (c : Con) : Prop :=
  t = CType.dim → match c.data with
    | some d => d.length = 1
    | none => True

instance (t : CType) (c : Con) : Decidable (c.DimOK t) := by
  unfold Con.DimOK
  refine @instDecidableForall _ _ inferInstance ?_
  split <;> infer_instance

/-- the construct is a consistent construct of its type -/
def Con.WF (t : CType) (c : Con) : Prop := c.LeadOK t ∧ c.DimOK t

instance (t : CType) (c : Con) : Decidable (c.WF t) := by unfold Con.WF; infer_instance

/-- the recorded axes `A` of the construct `c` of type `t`: they exist, and their sizes equal the
construct's shape, the leading dimensions of its bounds and of its interior ring -/
def AxesOK (s : St) (t : CType) (c : Con) (A : List Key) : Prop :=
  AxesExist s A ∧
  match c.shape t with
  | none => True
  | some shp =>
    Fits s A shp ∧
    (match c.bounds with | some b => Fits s A (b.take A.length) | none => True) ∧
    (match c.ring with | some r => Fits s A (r.take A.length) | none => True)

instance (s : St) (t : CType) (c : Con) (A : List Key) : Decidable (AxesOK s t c A) := by
  unfold AxesOK
  refine @instDecidableAnd _ _ inferInstance ?_
  split
  · infer_instance
  · refine @instDecidableAnd _ _ inferInstance (@instDecidableAnd _ _ ?_ ?_) <;> (split <;> infer_instance)

def isCoord (s : St) (k : Key) : Prop :=
  (s.cons.get (.dim, k)).isSome = true ∨ (s.cons.get (.aux, k)).isSome = true

instance (s : St) (k : Key) : Decidable (isCoord s k) := by unfold isCoord; infer_instance

/-- 1a. every stored construct is registered under the type it is stored as -/
def TypeOfStored (s : St) : Prop := ∀ k c, s.cons.get k = some c → s.ctype.get k.2 = some k.1
/-- 1b. every registered key is stored under its registered type (with 1a: key ↔ type is a bijection) -/
def StoredOfType (s : St) : Prop := ∀ k t, s.ctype.get k = some t → (s.cons.get (t, k)).isSome = true
/-- 2. data axes are recorded only for existing constructs; they name existing domain axes whose sizes
equal the construct's shape (bounds and interior ring agreeing on the leading dimensions) -/
def ConstructAxes (s : St) : Prop :=
  ∀ k A, s.caxes.get k = some A →
    match conOf s k with
    | some (t, c) => AxesOK s t c A
    | none => False
/-- 2'. every construct is a consistent construct of the type it is stored as: bounds and interior ring
agree with its data on the leading dimensions, a dimension coordinate is one-dimensional -/
def BoundsLead (s : St) : Prop := ∀ k c, s.cons.get k = some c → c.WF k.1
/-- 3. the field's data axes name existing domain axes and match the data shape; the copy kept by the
constructs (`_field_data_axes`) is in step -/
def FieldAxes (s : St) : Prop :=
  (match s.dataAxes with
   | some A => AxesExist s A ∧ (match s.data with | some shp => Fits s A shp | none => True)
   | none => True) ∧ s.fda = s.dataAxes
/-- 4a. coordinate references name only existing coordinate / domain ancillary constructs -/
def RefsOK (s : St) : Prop :=
  ∀ k c, s.cons.get k = some c → k.1 = CType.ref →
    (∀ x ∈ c.coords, isCoord s x) ∧ ∀ x ∈ c.ancils, match x with
      | some v => (s.cons.get (.dan, v)).isSome = true
      | none => True
/-- 4b. a cell method names only existing domain axes (an axis given as a construct identifier
`<letters><number>` is a reference; free names such as `area` are not) -/
def CellMethodsOK (s : St) : Prop :=
  ∀ k c, s.cons.get k = some c → k.1 = CType.cm →
    ∀ a ∈ c.cmAxes, match a with
      | .key x => (s.cons.get (.axis, x)).isSome = true
      | .name _ => True

def visibleInView (s : St) (k : Key) : Prop :=
  match s.ctype.get k with
  | some t => ignored true t = false
  | none => True

instance (s : St) (k : Key) : Decidable (visibleInView s k) := by unfold visibleInView; split <;> infer_instance

/-- 5. the domain view sees exactly the field's constructs minus the cell methods and field ancillaries -/
def ViewOK (s : St) : Prop :=
  (∀ k ∈ todict s true, k ∈ todict s false ∧ visibleInView s k) ∧
  (∀ k ∈ todict s false, visibleInView s k → k ∈ todict s true)

/-! ### `repr`, `str`, `dump` (the look-ups modelled for C19) -/

def axisKeyList (s : St) : List Key := (s.cons.live.filter (fun p => p.1.1 = .axis)).map (·.1.2)

/-- domain-axis identifiers as numbers: the position among the existing axes (a key that is not an
existing axis gets a number that no existing axis has) -/
def encAxis (s : St) (k : Key) : Nat := (axisKeyList s).idxOf k

def toDescType : CType → Option Describe.CType
  | .dim => some .dim | .aux => some .aux | .msr => some .msr | .dan => some .dan
  | .top => some .top | .con => some .con | .fan => some .fan
  | _ => none

/-- the container as the formatters of C19 see it -/
def toM (s : St) (isDomain : Bool) : Describe.MField :=
  { isDomain := isDomain, ncvar := none,
    data := if isDomain then none else s.data,
    dataAxes := if isDomain then none else s.dataAxes.map (fun A => A.map (encAxis s)),
    axes := (axisKeyList s).map (fun k => (encAxis s k, ⟨((s.cons.get (.axis, k)).map (·.size)).getD none, none⟩)),
    cons := s.cons.live.filterMap (fun p =>
      match toDescType p.1.1 with
      | some t => some ⟨⟨t, p.1.2.num⟩, ⟨p.2.shape p.1.1, none, p.2.bounds.map (fun _ => ⟨true, none⟩)⟩,
                        (s.caxes.get p.1.2).map (fun A => A.map (encAxis s))⟩
      | none => none),
    cms := [], refs := [] }

/-- 6. `repr`, `str` and `dump` of the field and of its domain perform only successful look-ups -/
def DescribeOK (s : St) : Prop :=
  Describe.describe (toM s false) ≠ none ∧ Describe.describe (toM s true) ≠ none

/-- **The invariant of the property.** -/
def Inv (s : St) : Prop :=
  TypeOfStored s ∧ StoredOfType s ∧ ConstructAxes s ∧ BoundsLead s ∧ FieldAxes s ∧ RefsOK s ∧
  CellMethodsOK s ∧ ViewOK s ∧ DescribeOK s

instance (s : St) : Decidable (TypeOfStored s) := by unfold TypeOfStored; infer_instance
instance (s : St) : Decidable (StoredOfType s) := by unfold StoredOfType; infer_instance
instance (s : St) : Decidable (ConstructAxes s) := by
  unfold ConstructAxes
  refine @Dict.decForallGet _ _ _ _ _ _ (fun k A => ?_)
  split <;> infer_instance
instance (s : St) : Decidable (BoundsLead s) := by unfold BoundsLead; infer_instance
instance (s : St) : Decidable (FieldAxes s) := by
  unfold FieldAxes
  refine @instDecidableAnd _ _ ?_ inferInstance
  split
  · refine @instDecidableAnd _ _ inferInstance ?_; split <;> infer_instance
  · infer_instance
instance (s : St) : Decidable (RefsOK s) := by
  unfold RefsOK
  refine @Dict.decForallGet _ _ _ _ _ _ (fun k c => ?_)
  refine @instDecidableForall _ _ inferInstance (@instDecidableAnd _ _ inferInstance ?_)
  refine @List.decidableBAll _ _ (fun x => ?_) _
  split <;> infer_instance
instance (s : St) : Decidable (CellMethodsOK s) := by
  unfold CellMethodsOK
  refine @Dict.decForallGet _ _ _ _ _ _ (fun k c => ?_)
  refine @instDecidableForall _ _ inferInstance ?_
  refine @List.decidableBAll _ _ (fun x => ?_) _
  split <;> infer_instance
instance (s : St) : Decidable (ViewOK s) := by unfold ViewOK; infer_instance
instance (s : St) : Decidable (DescribeOK s) := by unfold DescribeOK; infer_instance
instance (s : St) : Decidable (Inv s) := by unfold Inv; infer_instance

end Cfdm.Constructs
