import Cfdm.Model.Globals
/-
C08 — what the property statement and the `cfdm.write` documentation say about global
attributes and `Conventions`, written without reference to the algorithm.
-/
namespace Cfdm.Globals

/-- Eligible: a description-of-file-contents attribute, named by `global_attributes=`, or
flagged by `nc_set_global_attribute(name)` (value `None`) on some field. -/
def Eligible (o : Opts) (fs : List FieldG) (p : String) : Prop :=
  p ∈ o.descr ∨ p ∈ o.userGlobal ∨ ∃ f ∈ fs, (p, none) ∈ f.ncg

/-- Every field has the property, with the value `v`. -/
def AllEqual (fs : List FieldG) (p : String) (v : Val) : Prop :=
  fs ≠ [] ∧ ∀ f ∈ fs, lookup p f.props = some v

/-- Every field forces the global attribute `p` to the same value `v`
(`nc_set_global_attribute(p, v)`). -/
def Forced (fs : List FieldG) (p : String) (v : Val) : Prop :=
  fs ≠ [] ∧ ∀ f ∈ fs, lookup p f.ncg = some (some v)

/-- Overridden: named by `variable_attributes=`, given as a file descriptor, or forced. -/
def Overridden (o : Opts) (fs : List FieldG) (p : String) : Prop :=
  p ∈ o.varAttrs ∨ p ∈ keys o.fileDesc ∨ ∃ v, Forced fs p v

/-- A CF version entry: somewhere `CF-` is followed by a digit. -/
def IsCF (c : List Char) : Prop := ∃ pre d post, c = pre ++ 'C' :: 'F' :: '-' :: d :: post ∧ d.isDigit = true

/-- Dictionaries have one entry per key. -/
def WFField (f : FieldG) : Prop := (keys f.props).Nodup ∧ (keys f.ncg).Nodup

end Cfdm.Globals
