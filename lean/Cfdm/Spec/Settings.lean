import Cfdm.Model.Settings
/-
Specification vocabulary for C20, written from the property statement (not from the code):
which programs make no lasting change to the log level themselves, so that "exactly as before"
is what the property demands of them.
-/
namespace Cfdm.Settings

/-- The setter call changes the global log level. -/
def SetOp.touchesLog : SetOp → Bool
  | .log (some _) => true
  | _ => false

/-- Programs that never go near the log-level *setting*: any nesting of decorated calls
(any `verbose`, valid or not), opaque cfdm functions, raises, try blocks, equality tests and
tolerance settings / tolerance `with` blocks. -/
def LogFree : Prog → Prop
  | .skip => True
  | .seq p q => LogFree p ∧ LogFree q
  | .set op => op.touchesLog = false
  | .cfg c => c.l = none
  | .withSet op body => op.key ≠ .log ∧ LogFree body     -- the exit of a log_level block re-derives the logging state
  | .withCfg _ _ => False                                -- … and so does the exit of a configuration block
  | .call _ body => LogFree body
  | .real _ _ _ => True
  | .try_ body => LogFree body
  | .raise _ => True
  | .eq _ _ _ => True
  | .verdict _ _ _ => True

/-- Programs in which every change of the log level is made by a `with` block (of `log_level`
or of `configuration`), at any depth and in any interleaving with decorated calls. -/
def Balanced : Prog → Prop
  | .skip => True
  | .seq p q => Balanced p ∧ Balanced q
  | .set op => op.touchesLog = false
  | .cfg c => c.l = none
  | .withSet _ body => Balanced body
  | .withCfg _ body => Balanced body
  | .call _ body => Balanced body
  | .real _ _ _ => True
  | .try_ body => Balanced body
  | .raise _ => True
  | .eq _ _ _ => True
  | .verdict _ _ _ => True

/-- Programs in which *every* change of *any* setting is made by a `with` block (setter or
`configuration`, with any argument, valid or not), at any depth and in any interleaving with
decorated calls, raises and try blocks; plain calls only read (`cfdm.atol()`). -/
def Bracketed : Prog → Prop
  | .skip => True
  | .seq p q => Bracketed p ∧ Bracketed q
  | .set op => op = .atol none ∨ op = .rtol none ∨ op = .log none
  | .cfg c => c.a = none ∧ c.r = none ∧ c.l = none
  | .withSet _ body => Bracketed body
  | .withCfg _ body => Bracketed body
  | .call _ body => Bracketed body
  | .real _ _ _ => True
  | .try_ body => Bracketed body
  | .raise _ => True
  | .eq _ _ _ => True
  | .verdict _ _ _ => True

/-! ### The hypothesis under which the decorator *as coded* (1.11.2.0) is call-scoped

`ctx = none` means "not inside any decorated call" (the private counter is 0); `ctx = some lt`
means "inside an outermost decorated call whose validated verbosity is `lt`".  `g` is the global
log level in force (it cannot change: the trees considered contain no log-level operation). -/

/-- Is this `verbose` outside the three defect classes of the unpatched decorator?
* it is valid (an invalid one leaks the nesting counter);
* for an outermost call: not (global level DISABLE and `verbose` = 0/False/"DISABLE")
  (that combination switches logging back on);
* for a nested call: `None`, or the very verbosity of the outermost call (what cfdm's own
  methods do: `verbose=verbose` is passed through) — any other nested verbosity is never undone. -/
def vOK (ctx : Option (Option Level)) (g : Level) (v : Verbose) : Bool :=
  match v.resolve with
  | .error _ => false
  | .ok lv =>
    match ctx with
    | none => decide (¬ (g = .DISABLE ∧ lv = some .DISABLE))
    | some lt => decide (lv = none ∨ lv = lt)

/-- The context in which the body of a call with this `verbose` runs. -/
def innerCtx (ctx : Option (Option Level)) (v : Verbose) : Option Level :=
  match ctx with
  | some lt => lt
  | none => match v.resolve with | .ok lv => lv | .error _ => none

/-- Decidable guard: a tree of decorated calls (any depth), opaque cfdm functions, raises, try
blocks, equality tests and tolerance settings / blocks (no log-level operation, as in `LogFree`)
all of whose `verbose` arguments pass `vOK`. -/
def guarded (g : Level) : Option (Option Level) → Prog → Bool
  | _, .skip => true
  | c, .seq p q => guarded g c p && guarded g c q
  | _, .set op => !op.touchesLog
  | _, .cfg cf => decide (cf.l = none)
  | c, .withSet op body => decide (op.key ≠ .log) && guarded g c body
  | _, .withCfg _ _ => false
  | c, .call v body => vOK c g v && guarded g (some (innerCtx c v)) body
  | c, .real v _ inner => vOK c g v && vOK (some (innerCtx c v)) g inner
  | c, .try_ body => guarded g c body
  | _, .raise _ => true
  | _, .eq _ _ _ => true
  | _, .verdict _ _ _ => true

/-! ### The hypothesis under which the decorator *after fixes/C20-verbose-scope.patch* is call-scoped

Only one of the three defect classes is left: an **outermost** call with `verbose` =
0/False/"DISABLE" while the global level is DISABLE (the outermost exit is unchanged, and
`test_decorators.py` pins that behaviour).  Invalid values and nested verbosities are unrestricted. -/

/-- `verbose` resolves to 0 while the global level is DISABLE. -/
def zeroUnderDisable (g : Level) (v : Verbose) : Bool :=
  match v.resolve with
  | .ok (some .DISABLE) => decide (g = .DISABLE)
  | _ => false

/-- Is this `verbose` outside the remaining defect class?  (`top`: the call is an outermost one.) -/
def midOK (g : Level) (top : Bool) (v : Verbose) : Bool := !(top && zeroUnderDisable g v)

/-- Decidable guard for the patched decorator: any tree of decorated calls (any depth, any
`verbose` — invalid ones and arbitrary nested ones included), opaque cfdm functions, raises, try
blocks, equality tests and tolerance settings / blocks (no log-level operation, as in `LogFree`)
in which no *outermost* call has `verbose` = 0 under a global DISABLE. -/
def guardedMid (g : Level) : Bool → Prog → Bool
  | _, .skip => true
  | t, .seq p q => guardedMid g t p && guardedMid g t q
  | _, .set op => !op.touchesLog
  | _, .cfg cf => decide (cf.l = none)
  | t, .withSet op body => decide (op.key ≠ .log) && guardedMid g t body
  | _, .withCfg _ _ => false
  | t, .call v body => midOK g t v && guardedMid g false body
  | t, .real v _ _ => midOK g t v
  | t, .try_ body => guardedMid g t body
  | _, .raise _ => true
  | _, .eq _ _ _ => true
  | _, .verdict _ _ _ => true

/-- The context of `Inv`/`Post` that goes with the flag. -/
def ctxOf (top : Bool) : Option (Option Level) := if top then none else some none

/-! ### Vocabulary of the statements about the decorator as coded -/

/-- The logging state that a verbosity `l` in force dictates (`none`: nothing in force). -/
def Absorb (lt : Option Level) (s : State) : Prop :=
  match lt with
  | none => True
  | some l => (l = .DISABLE → s.disable = critical) ∧ (l ≠ .DISABLE → s.disable = 0 ∧ s.root = l.no)

/-- What holds of the `decoOld` state at every point of a guarded run. -/
def Inv (g : Level) (ctx : Option (Option Level)) (s : State) : Prop :=
  s.level = g ∧
  match ctx with
  | none => s.calls = 0 ∧ Consistent s
  | some lt => 1 ≤ s.calls ∧ Absorb lt s

/-- Observational equality of a `decoOld` state and a `decoNew` state. -/
def Rel (so sn : State) : Prop := settings so = settings sn ∧ obsLog so = obsLog sn

/-- What a guarded piece of program guarantees about the `decoOld` state it leaves. -/
def Post (ctx : Option (Option Level)) (so ro : State) : Prop :=
  ro.calls = so.calls ∧ ro.level = so.level ∧
  match ctx with
  | none => Consistent ro
  | some _ => ro.root = so.root ∧ ro.disable = so.disable

end Cfdm.Settings
