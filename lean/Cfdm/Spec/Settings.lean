import Cfdm.Model.Settings
/-
Specification vocabulary for C20, written from the property statement (not from the code):
which programs make no lasting change to the log level themselves, so that "exactly as before"
is what the property demands of them.
-/
namespace Cfdm.Settings

/-- The setter call changes the global log level. -/
def SetOp.touchesLog : SetOp → Bool
  | .log (some _) => true
  | _ => false

/-- Programs that never go near the log-level *setting*: any nesting of decorated calls
(any `verbose`, valid or not), opaque cfdm functions, raises, try blocks, equality tests and
tolerance settings / tolerance `with` blocks. -/
def LogFree : Prog → Prop
  | .skip => True
  | .seq p q => LogFree p ∧ LogFree q
  | .set op => op.touchesLog = false
  | .cfg c => c.l = none
  | .withSet op body => op.key ≠ .log ∧ LogFree body     -- the exit of a log_level block re-derives the logging state
  | .withCfg _ _ => False                                -- … and so does the exit of a configuration block
  | .call _ body => LogFree body
  | .real _ _ _ => True
  | .try_ body => LogFree body
  | .raise _ => True
  | .eq _ _ _ => True

/-- Programs in which every change of the log level is made by a `with` block (of `log_level`
or of `configuration`), at any depth and in any interleaving with decorated calls. -/
def Balanced : Prog → Prop
  | .skip => True
  | .seq p q => Balanced p ∧ Balanced q
  | .set op => op.touchesLog = false
  | .cfg c => c.l = none
  | .withSet _ body => Balanced body
  | .withCfg _ body => Balanced body
  | .call _ body => Balanced body
  | .real _ _ _ => True
  | .try_ body => Balanced body
  | .raise _ => True
  | .eq _ _ _ => True

end Cfdm.Settings
