import Cfdm.Lemmas.EqualityInv
import Mathlib.Tactic.SplitIfs
/-
C05 — equality testing is total, reflexive, order-blind and discriminating.
Property theorems only (helper lemmas: `Lemmas/Greedy.lean`, `Lemmas/EqualitySpec.lean`,
`Lemmas/EqualityField.lean`; model: `Model/Equality.lean`; declarative
specification: `Spec/Equality.lean`).

The model mirrors the code *after* the repairs proposed in `fixes/C05-*.patch`;
`C05_old_code_counterexamples` shows what the unrepaired code does.
-/
namespace Cfdm.Props.C05
open Cfdm.Equality Cfdm.Equality.Spec

/-! ## The matching loop -/

/-- **Greedy matching is complete.**  The loop `for item0: for item1 in remaining: if
item0.equals(item1): remove; break` answers `True` exactly when the two collections agree
up to order — for every relation that is *difunctional* (every equivalence relation is; so is
the key-mapped comparison of coordinate references). -/
theorem C05_greedy_complete {α β} (r : α → β → Bool) (hr : Difunctional r) (l0 : List α) (l1 : List β) :
    greedyMatch r l0 l1 = true ↔ MatchUpToOrder r l0 l1 :=
  greedyMatch_iff_spec r hr l0 l1

/-- Soundness needs no hypothesis on the relation: a `True` always comes with a pairing. -/
theorem C05_greedy_sound {α β} (r : α → β → Bool) (l0 : List α) (l1 : List β)
    (h : greedyMatch r l0 l1 = true) :
    ∃ l1' : List β, l1'.Perm l1 ∧ List.Forall₂ (fun a b => r a b = true) l0 l1' :=
  greedyMatch_sound r l0 l1 h

/-- `|a - b| ≤ 1`: a tolerance, reflexive and symmetric but not transitive. -/
def within1 (a b : Int) : Bool := decide ((a - b).natAbs ≤ 1)

/-- Without difunctionality (numerical tolerance is not transitive) greedy matching can miss
a pairing that exists: 0 ~ 1 ~ 2 with tolerance 1, `[1, 0]` against `[0, 2]`… -/
theorem C05_greedy_incomplete_with_tolerance :
    greedyMatch within1 [1, 0] [0, 2] = false ∧ greedyMatch within1 [1, 0] [2, 0] = true
    ∧ [2, 0].Perm ([0, 2] : List Int) :=
  ⟨by decide, by decide, List.Perm.swap _ _ _⟩

example : Difunctional (fun (a b : Nat) => a % 3 == b % 3) := by
  intro a a' b b' h1 h2 h3
  simp only [beq_iff_eq] at *
  omega
example : greedyMatch (fun (a b : Nat) => a % 3 == b % 3) [1, 5, 3] [6, 4, 2] = true := by decide

/-- **Order-blindness of the matching** (insertion order of the constructs of one type on
one set of axes, on either side). -/
theorem C05_order_blind_arrays {α β} (r : α → β → Bool) (hr : Difunctional r) {l0 l0' : List α} {l1 l1' : List β}
    (h0 : l0.Perm l0') (h1 : l1.Perm l1') : greedyMatch r l0 l1 = greedyMatch r l0' l1' :=
  greedyMatch_perm r hr h0 h1

example : ([1, 5, 3] : List Nat).Perm [3, 1, 5] := by decide

/-- **The matching discriminates**: for an equivalence relation, replacing one item by an item
of another class (or dropping / adding one) is never matched, in either direction — whatever the
order, however many look-alikes the collections contain. -/
theorem C05_matching_discriminates {α} (r : α → α → Bool)
    (hsymm : ∀ a b, r a b = true → r b a = true) (htrans : ∀ a b c, r a b = true → r b c = true → r a c = true)
    (l : List α) (i : Nat) (hi : i < l.length) (c' : α) (hne : r l[i] c' = false) :
    greedyMatch r l (l.set i c') = false ∧ greedyMatch r (l.set i c') l = false
    ∧ greedyMatch r l (l.eraseIdx i) = false ∧ greedyMatch r l (c' :: l) = false :=
  ⟨greedyMatch_replace_false r hsymm htrans l i hi c' hne, greedyMatch_replace_false' r hsymm htrans l i hi c' hne,
   greedyMatch_length r _ _ (by rw [List.length_eraseIdx_of_lt hi]; omega), greedyMatch_length r _ _ (by simp)⟩

example : greedyMatch (fun (a b : Nat) => a % 3 == b % 3) [1, 4, 7, 2] [1, 4, 9, 2] = false := by decide

/-- Domain axis sizes are compared as a multiset. -/
theorem C05_domain_axes_sizes (a0 a1 : List (Nat × Nat)) :
    domainAxesEqual a0 a1 = true ↔ (a0.map (·.2)).Perm (a1.map (·.2)) := by
  simp only [domainAxesEqual, beq_iff_eq]
  exact sortNat_eq_iff_perm _ _

/-! ## One metadata construct against another -/

/-- **The code decides the specification**: for two constructs of one class the verdict is
`True` exactly when every component agrees (properties not ignored, data, bounds,
geometry type, interior ring, measure). -/
theorem C05_construct_spec (o : Opts) (x y : Construct) (hx : ConstructWF x) (hcls : x.cls = y.cls) :
    constructEquals o x y = .ok true ↔ ConstructEq o x y := by
  have : (x.cls == y.cls) = true := by simpa using hcls
  simp only [constructEquals, this, ↓reduceIte, Except.ok.injEq]
  exact constructCore_iff o x y hx

theorem C05_data_spec (o : Opts) (x y : Data) :
    dataObjEquals o x y = .ok true ↔ DataEq o.close o.ignoreDataType o.ignoreFillValue o.ignoreCompression x y := by
  simp only [dataObjEquals, Except.ok.injEq]
  exact dataEquals_iff _ _ _ _ x y

theorem C05_cell_method_spec (o : Opts) (x y : CellMethod) (hx : CellMethodWF x) :
    cellMethodEquals o x y = .ok true ↔ CellMethodEq o.close x y := by
  simp only [cellMethodEquals, Except.ok.injEq]
  exact cellMethodCore_iff _ x y hx

theorem C05_coord_ref_spec (o : Opts) (x y : CoordRef) (hx : CoordRefWF x) :
    coordRefEquals o x y = .ok true ↔ CoordRefEq o.close x y := by
  simp only [coordRefEquals, Except.ok.injEq]
  exact coordRefCore_iff _ x y hx

/-- Reflexivity (a construct and its copy), for every option set, with or without tolerance. -/
theorem C05_refl_construct (o : Opts) (hc : CloseRefl o.close) (x : Construct) (hx : ConstructWF x) :
    constructEquals o x x = .ok true := by
  simp [constructEquals, constructCore_refl hc x hx]

theorem C05_refl_others (o : Opts) (hc : CloseRefl o.close) :
    (∀ d : Data, dataObjEquals o d d = .ok true)
    ∧ (∀ m : CellMethod, CellMethodWF m → cellMethodEquals o m m = .ok true)
    ∧ (∀ r : CoordRef, CoordRefWF r → coordRefEquals o r r = .ok true)
    ∧ (∀ s : Option Nat, domainAxisEquals s s = .ok true) := by
  refine ⟨fun d => ?_, fun m hm => ?_, fun r hr => ?_, fun s => ?_⟩
  · simp [dataObjEquals, dataEquals_refl hc]
  · simp [cellMethodEquals, cellMethodCore_refl hc m hm]
  · simp [coordRefEquals, coordRefCore_refl hc r hr]
  · simp [domainAxisEquals]

/-- Every tolerance of the call (`|x-y| ≤ atol + rtol·|y|`) is reflexive; with `rtol = 0` it is
symmetric; with `rtol = atol = 0` it is exact. -/
theorem C05_tolerance_facts (an ad rn rd k : Nat) :
    CloseRefl (tolClose an ad rn rd k) ∧ CloseSymm (tolClose an ad 0 rd k)
    ∧ (0 < ad → 0 < rd → CloseExact (tolClose 0 ad 0 rd k)) :=
  ⟨tolClose_refl an ad rn rd k, tolClose_symm an ad rd k, tolClose_exact ad rd k⟩

/-- numpy's test is *not* symmetric when `rtol > 0`: 2 vs 4 with rtol = 1/2. -/
theorem C05_tolerance_asymmetric : tolClose 0 1 1 2 0 2 4 = true ∧ tolClose 0 1 1 2 0 4 2 = false := by decide

/-- **Symmetry** when the closeness test is symmetric (no relative tolerance in play): same
class, or different classes without `ignore_type` (both `False`). -/
theorem C05_symm_construct (o : Opts) (hc : CloseSymm o.close) (x y : Construct) (hx : ConstructWF x)
    (hy : ConstructWF y) (ht : o.ignoreType = false ∨ x.cls = y.cls) :
    constructEquals o x y = constructEquals o y x := by
  by_cases hcls : x.cls = y.cls
  · have h1 : (x.cls == y.cls) = true := by simpa using hcls
    have h2 : (y.cls == x.cls) = true := by simpa using hcls.symm
    simp [constructEquals, h1, h2, constructCore_symm hc x y hx hy hcls]
  · have h1 : (x.cls == y.cls) = false := by simpa using hcls
    have h2 : (y.cls == x.cls) = false := by simpa using fun e => hcls e.symm
    rcases ht with ht | ht
    · simp [constructEquals, h1, h2, ht]
    · exact absurd ht hcls

/-- **netCDF names are ignored** (and so is the external-variable status). -/
theorem C05_names_blind (o : Opts) (x y : Construct) (n m : Option Nat) (e e' : Bool) :
    constructEquals o { x with ncvar := n, external := e } { y with ncvar := m, external := e' }
      = constructEquals o x y := by
  simp only [constructEquals, convertTo]
  split_ifs <;> rfl

/-! ## Discrimination, component by component -/

/-- **Discriminating.**  Two constructs of one class that differ in *one* component — a
property that is not ignored, the data (shape, data type, a mask element, a datum beyond
tolerance, fill value, units, calendar), the bounds, the geometry type, the interior ring, the
measure — are unequal. -/
theorem C05_discriminating_construct (o : Opts) (x y : Construct) (hx : ConstructWF x) (hcls : x.cls = y.cls) :
    ((∃ name, ¬ ignoredSet o.ignoreFillValue o.ignoreProps name ∧
        ¬ OptRel (ArrEq o.close true) (x.props.lookup name) (y.props.lookup name))
     ∨ ¬ OptRel (DataEq o.close o.ignoreDataType o.ignoreFillValue o.ignoreCompression) x.data y.data
     ∨ (hasBoundsAPI x.cls = true ∧ (x.geometry ≠ y.geometry ∨ ¬ OptRel (SubEq o) x.bounds y.bounds
          ∨ ¬ OptRel (SubEq o) x.interiorRing y.interiorRing))
     ∨ (x.cls = clsMeasure ∧ x.measure ≠ y.measure))
    → constructEquals o x y = .ok false := by
  intro h
  have h1 : (x.cls == y.cls) = true := by simpa using hcls
  simp only [constructEquals, h1, ↓reduceIte, Except.ok.injEq]
  cases hv : constructCore o x y with
  | false => rfl
  | true =>
    exfalso
    obtain ⟨p1, p2, p3, p4⟩ := (constructCore_iff o x y hx).mp hv
    rcases h with ⟨name, hn, hp⟩ | h | ⟨hb, h⟩ | ⟨hm, h⟩
    · exact hp (p1 name hn)
    · exact h p2
    · obtain ⟨q1, q2, q3⟩ := p3 hb
      rcases h with h | h | h
      · exact h q1
      · exact h q2
      · exact h q3
    · exact h (p4 hm)

/-- What makes two arrays differ: the shape; the data type (unless ignored; strings exempt);
one mask element; one pair of unmasked values that are not close. -/
theorem C05_discriminating_array (close : Int → Int → Bool) (idt : Bool) (x y : Arr) :
    (x.shape ≠ y.shape
     ∨ (idt = false ∧ x.dtype ≠ y.dtype ∧ x.isStr = false ∧ y.isStr = false)
     ∨ (∃ i, ∃ (h0 : i < x.vals.length) (h1 : i < y.vals.length), (x.vals[i]'h0).isSome ≠ (y.vals[i]'h1).isSome)
     ∨ (∃ (i : Nat) (a b : Int), x.vals[i]? = some (some a) ∧ y.vals[i]? = some (some b) ∧ x.isStr = false ∧ y.isStr = false
          ∧ close a b = false))
    → arrEquals close idt x y = false := by
  intro h
  cases hv : arrEquals close idt x y with
  | false => rfl
  | true =>
    exfalso
    obtain ⟨p1, p2, p3, p4⟩ := (arrEquals_iff close idt x y).mp hv
    rcases h with h | ⟨h1, h2, h3, h4⟩ | ⟨i, h0, h1, h⟩ | ⟨i, a, b, ha, hb, hs0, hs1, hcl⟩
    · exact h p1
    · rcases p2 with p | p | p | p
      · rw [h1] at p; exact absurd p (by simp)
      · exact h2 p
      · rw [h3] at p; exact absurd p (by simp)
      · rw [h4] at p; exact absurd p (by simp)
    · have := p4 i h0 h1
      revert this h
      cases x.vals[i] <;> cases y.vals[i] <;> simp [ElemEq]
    · have h0 : i < x.vals.length := by
        by_contra hn; rw [List.getElem?_eq_none (by omega)] at ha; exact absurd ha (by simp)
      have h1 : i < y.vals.length := by
        by_contra hn; rw [List.getElem?_eq_none (by omega)] at hb; exact absurd hb (by simp)
      have := p4 i h0 h1
      rw [List.getElem?_eq_getElem h0] at ha
      rw [List.getElem?_eq_getElem h1] at hb
      rw [Option.some.inj ha, Option.some.inj hb] at this
      simp [ElemEq, hs0, hs1, hcl] at this

/-! ## Each ignore option removes exactly the class of difference it names -/

/-- **Ignore options are exact.**  For a construct `x` with data `d` and a variant that differs
in one named way only:
* only the data type differs  → the verdict is `ignore_data_type`;
* only the fill value differs → the verdict is `ignore_fill_value`;
* only the compression differs (same uncompressed array) → the verdict is `ignore_compression`;
* only the class differs (a class that holds the same components) → the verdict is `ignore_type`;
* only property `name` differs → the verdict is "`name` is among the ignored names". -/
theorem C05_ignore_exact (o : Opts) (hc : CloseRefl o.close) (x : Construct) (hx : ConstructWF x) (d : Data)
    (hd : x.data = some d) :
    (∀ dt, dt ≠ d.arr.dtype → d.arr.isStr = false →
        constructEquals o x { x with data := some { d with arr := { d.arr with dtype := dt } } }
          = .ok o.ignoreDataType)
    ∧ (∀ fv, fv ≠ d.fill →
        constructEquals o x { x with data := some { d with fill := fv } } = .ok o.ignoreFillValue)
    ∧ (∀ ct ca, ct ≠ d.ctype →
        constructEquals o x { x with data := some { d with ctype := ct, carr := ca } } = .ok o.ignoreCompression)
    ∧ (∀ cls, cls ≠ x.cls → hasBoundsAPI x.cls = true → (x.cls = clsDim → d.arr.shape.length = 1) →
        constructEquals o x { x with cls := cls } = .ok o.ignoreType)
    ∧ (∀ name v w, x.props.lookup name = some v → ¬ ArrEq o.close true v w →
        constructEquals o x { x with props := x.props.map (fun kv => if kv.1 == name then (kv.1, w) else kv) }
          = .ok (decide (name ∈ ignoredNames o.ignoreFillValue o.ignoreProps))) := by
  refine ⟨?_, ?_, ?_, ?_, ?_⟩
  · intro dt hdt hstr
    refine constructEquals_eq_ok o x _ hx _ ?_ rfl
    rw [ConstructEq_data_only hc, hd]
    exact DataEq_dtype_only hc _ _ _ d dt hdt hstr
  · intro fv hfv
    refine constructEquals_eq_ok o x _ hx _ ?_ rfl
    rw [ConstructEq_data_only hc, hd]
    exact DataEq_fill_only hc _ _ _ d fv hfv
  · intro ct ca hct
    refine constructEquals_eq_ok o x _ hx _ ?_ rfl
    rw [ConstructEq_data_only hc, hd]
    exact DataEq_compression_only hc _ _ _ d ct ca hct
  · intro cls hcls hb hdim
    apply constructEquals_class_only o hc x hx cls hcls hb
    intro hx' d' hd'
    rw [hd] at hd'
    exact (Option.some.inj hd') ▸ hdim hx'
  · intro name v w hv hne
    refine constructEquals_eq_ok o x _ hx _ ?_ rfl
    rw [ConstructEq_prop_only hc x name v w hv hne, ← mem_ignoredNames]
    simp

/-- A small auxiliary coordinate used in the non-vacuity examples. -/
def exAux : Construct where
  cls := clsAux
  props := [(5, { shape := [], dtype := 0, isStr := true, vals := [some 7] })]
  data := some { arr := { shape := [2], dtype := 1, isStr := false, vals := [some 3, none] }, fill := none,
                 units := some 4, calendar := none, ctype := 0,
                 carr := { shape := [2], dtype := 1, isStr := false, vals := [some 3, none] } }
  external := false
  ncvar := some 9
  geometry := none
  bounds := none
  interiorRing := none
  measure := none

example : ConstructWF exAux := ⟨by simp [KeysNodup, exAux], by simp [exAux], by simp [exAux]⟩
example : constructEquals { close := tolClose 0 1 0 1 0 } exAux exAux = .ok true := by decide

/-! ## Totality -/

/- Full-strength statement (the property): for all x, y and all options, `equals` answers
`True` or `False`.  It is FALSE for the code even after the proposed repairs:
`ignore_type=True` makes `_equals_preprocess` call `type(self)(source=other)`, and a
`DimensionCoordinate` refuses data that are not 1-d (`ValueError`) — see
`C05_total_counterexample`; conversions between unrelated cfdm classes raise in more ways and
are outside the model (`Exn.unmodelled`; known finding
`ignore_type-conversion-of-incompatible-object-raises`).  Proved: totality whenever no conversion
is attempted or the conversion is between fields/constructs that admit it, for cell methods with
0, 1 or len(axes) intervals (`CellMethod.sorted` indexes the intervals by axis position). -/

/-- **Totality** of the repaired code. -/
theorem C05_total_partial (o : Opts) :
    (∀ x y : Field, (∀ m ∈ y.cms, CMIntervalsWF m.2) → (o.ignoreType = false ∨ x.cls = y.cls) →
        ∃ b, fieldEquals o x y = .ok b)
    ∧ (∀ x y : Construct,
        (o.ignoreType = false ∨ x.cls = y.cls ∨ (x.cls = clsDim → ∀ d, y.data = some d → d.arr.shape.length = 1)) →
        ∃ b, constructEquals o x y = .ok b)
    ∧ (∀ x y : Data, ∃ b, dataObjEquals o x y = .ok b)
    ∧ (∀ x y : CellMethod, ∃ b, cellMethodEquals o x y = .ok b)
    ∧ (∀ x y : CoordRef, ∃ b, coordRefEquals o x y = .ok b)
    ∧ (∀ x y : Option Nat, ∃ b, domainAxisEquals x y = .ok b)
    ∧ (∀ x y : Sub, ∃ b, subObjEquals o x y = .ok b) := by
  refine ⟨fun x y h1 h2 => fieldEquals_total o x y h1 h2, ?_, fun _ _ => ⟨_, rfl⟩, fun _ _ => ⟨_, rfl⟩,
    fun _ _ => ⟨_, rfl⟩, fun _ _ => ⟨_, rfl⟩, fun _ _ => ⟨_, rfl⟩⟩
  intro x y h
  unfold constructEquals
  split
  · exact ⟨_, rfl⟩
  · rename_i hne
    split
    · rename_i hit
      rcases h with h | h | h
      · rw [h] at hit; exact absurd hit (by simp)
      · simp [h] at hne
      · rw [convertTo_ok x.cls y h]
        exact ⟨_, rfl⟩
    · exact ⟨_, rfl⟩

/-- Plain options (exact comparison, nothing ignored). -/
def exact : Opts := { close := tolClose 0 1 0 1 0 }

def mkArr (dtype : Nat) (shape : List Nat) (vals : List Int) : Arr :=
  { shape := shape, dtype := dtype, isStr := false, vals := vals.map some }
def mkData (shape : List Nat) (vals : List Int) : Data :=
  { arr := mkArr 1 shape vals, fill := none, units := none, calendar := none, ctype := 0, carr := mkArr 1 shape vals }
/-- A construct of class `cls` named `name` (property 3 = `long_name`). -/
def mkCon (cls name : Nat) (shape : List Nat) (vals : List Int) : Construct :=
  { cls := cls, props := [(3, { shape := [], dtype := 0, isStr := true, vals := [some name] })],
    data := some (mkData shape vals), external := false, ncvar := none, geometry := none, bounds := none,
    interiorRing := none, measure := none }

/-- The witness: a dimension coordinate compared, with `ignore_type=True`, to a 2-d auxiliary
coordinate — `DimensionCoordinate(source=aux)` raises `ValueError`. -/
theorem C05_total_counterexample :
    constructEquals { exact with ignoreType := true } (mkCon clsDim 7 [2] [0, 1]) (mkCon clsAux 7 [1, 2] [0, 1])
      = .error .valueError := by decide

example : (mkCon clsDim 7 [2] [0, 1]).cls ≠ (mkCon clsAux 7 [1, 2] [0, 1]).cls := by decide

/-! ## Fields: reflexivity -/

/- Full-strength statement: `fieldEquals o x x = .ok true` for every well-formed field `x`
(a field equals its copy).  It is FALSE for the code (open finding
`cell-method-axes-unmatched-axis-two-places-before-matched-axis`): the loop in `_equals_cell_method`
keeps iterating over a list it has just removed an item from, and gives up when, in the axes of
one cell method, an axis that no metadata construct spans stands two or more places before one that
is spanned — `C05_refl_field_counterexample`.  Proved: reflexivity for all other fields. -/

/-- **A field (or domain) equals its copy** — every option set, any tolerance — provided no
cell method has an unspanned axis two or more places before a spanned one. -/
theorem C05_refl_field_partial (o : Opts) (hc : CloseRefl o.close) (x : Field) (hx : FieldWF x)
    (hcm : ∀ m ∈ x.cms, CMAxesOK (spanned x) m.2.axes) : fieldEquals o x x = .ok true :=
  fieldEquals_self o hc x hx hcm

/-- Three axes 10, 11, 12 (sizes 2, 3, 4); only axis 12 has a coordinate; one cell method
over (10, 11, 12). -/
def exField3 : Field :=
  { cls := clsField, props := [], data := some (mkData [2, 3, 4] (List.replicate 24 5)), dataAxes := [10, 11, 12],
    axes := [(10, 2), (11, 3), (12, 4)],
    cons := [{ key := 20, axes := [12], c := mkCon clsDim 7 [4] [0, 1, 2, 3] }],
    cms := [(30, { axes := [10, 11, 12], method := some 40, quals := [], intervals := [] })],
    refs := [] }

/-- The witness (reproduced on cfdm: `f.equals(f.copy())` is `False`). -/
theorem C05_refl_field_counterexample : fieldEquals exact exField3 exField3 = .ok false := by decide

/-- Non-vacuity of `C05_refl_field_partial`: the same field with the cell method over (12, 11, 10). -/
def exField3' : Field := { exField3 with cms := [(30, { axes := [12, 11, 10], method := some 40, quals := [], intervals := [] })] }
example : fieldEquals exact exField3' exField3' = .ok true := by decide
example : ∀ m ∈ exField3'.cms, CMAxesOK (spanned exField3') m.2.axes := by
  intro m hm
  simp only [exField3', exField3, List.mem_singleton] at hm
  subst hm
  intro i j hi hj hij
  simp only [List.length_cons, List.length_nil] at hi hj
  have : i = 0 ∧ j = 2 := by omega
  obtain ⟨rfl, rfl⟩ := this
  simp [spanned, exField3', exField3]

/-! ## Fields: other construct keys, other insertion order -/

/- Full-strength statement (the property): for every field `x` and every `y` obtained from `x` by
renaming construct keys (a bijection on the keys of each construct type) and permuting the
insertion order of the constructs (`List.Perm` on `cons`, `axes`, `refs`), `fieldEquals o x y = .ok
true`.  It is FALSE for the code:
* a cell method over an axis that no metadata construct spans is compared by the *key* of that
  axis (`C05_key_blind_counterexample_unspanned_axis`; open finding
  `cell-method-axis-without-data-constructs-compared-by-key`);
* when two axes carry identical constructs, the candidates are matched greedily in insertion order
  without backtracking, and another insertion order can leave an inconsistent axis mapping
  (`C05_order_blind_counterexample_ambiguous`; open finding
  `identical-constructs-on-two-axes-or-keys-matched-greedily-without-backtracking`).
Proved: (1) `C05_key_blind_partial` — any injective renaming of the domain-axis keys, of the keys
of the constructs with data and of the cell-method / coordinate-reference keys, insertion order
kept, cell methods over unspanned axes keeping their axis key; (2) `C05_order_blind_arrays` —
the matching of the constructs of one type on one set of axes does not depend on either
insertion order.  Missing: insertion order of whole axes groups for unambiguous fields. -/

/-- **Key-blindness**: a field equals itself rebuilt under other construct keys. -/
theorem C05_key_blind_partial (o : Opts) (hc : CloseRefl o.close) (x : Field) (hx : FieldWF x)
    (hcm : ∀ m ∈ x.cms, CMAxesOK (spanned x) m.2.axes) (π κ ρ : Nat → Nat) (hr : RenOK π κ x) :
    fieldEquals o x (renField π κ ρ x) = .ok true :=
  fieldEquals_ren o hc x hx hcm π κ ρ hr

/-- One axis (key 10) that nothing spans, one cell method over it … -/
def exBare (k : Nat) : Field :=
  { cls := clsField, props := [], data := some (mkData [2] [1, 2]), dataAxes := [k], axes := [(k, 2)], cons := [],
    cms := [(30, { axes := [k], method := some 40, quals := [], intervals := [] })], refs := [] }

/-- … against the same field with the axis under key 20 (reproduced on cfdm: `False`). -/
theorem C05_key_blind_counterexample_unspanned_axis :
    fieldEquals exact (exBare 10) (exBare 20) = .ok false
    ∧ exBare 20 = renField (fun a => a + 10) id id (exBare 10) := by
  constructor <;> decide

/-- Two axes of size 2 with *identical* coordinates, and a 2-d auxiliary coordinate on both. -/
def exAmbiguous (order : List Nat) : Field :=
  let d0 : Entry := { key := 20, axes := [10], c := mkCon clsDim 7 [2] [0, 1] }
  let d1 : Entry := { key := 21, axes := [11], c := mkCon clsDim 7 [2] [0, 1] }
  let a2 : Entry := { key := 22, axes := [10, 11], c := mkCon clsAux 9 [2, 2] [1, 2, 3, 4] }
  { cls := clsField, props := [], data := none, dataAxes := [], axes := [(10, 2), (11, 2)],
    cons := order.map (fun i => if i = 0 then d0 else if i = 1 then d1 else a2), cms := [], refs := [] }

/-- The same constructs under the same keys inserted in another order compare unequal
(on cfdm today: `ValueError` from the log message; after the repair: `False`). -/
theorem C05_order_blind_counterexample_ambiguous :
    fieldEquals exact (exAmbiguous [0, 1, 2]) (exAmbiguous [1, 0, 2]) = .ok false
    ∧ (exAmbiguous [0, 1, 2]).cons.Perm (exAmbiguous [1, 0, 2]).cons
    ∧ fieldEquals exact (exAmbiguous [0, 1, 2]) (exAmbiguous [0, 1, 2]) = .ok true := by
  refine ⟨by decide, ?_, by decide⟩
  exact List.Perm.swap _ _ _

/-- Two axes with distinct coordinates and a 2-d auxiliary coordinate. -/
def oldSquareLike : Field :=
  { cls := clsField, props := [], data := none, dataAxes := [], axes := [(10, 2), (11, 2)],
    cons := [{ key := 20, axes := [10], c := mkCon clsDim 7 [2] [0, 1] },
             { key := 21, axes := [11], c := mkCon clsDim 8 [2] [5, 6] },
             { key := 22, axes := [10, 11], c := mkCon clsAux 9 [2, 2] [1, 2, 3, 4] }],
    cms := [], refs := [] }

/-- Non-vacuity of `C05_key_blind_partial`: a renaming that meets the side conditions. -/
example : RenOK (fun a => a + 100) (fun k => k + 1000) oldSquareLike := by
  refine ⟨fun a b h => by simpa using h, fun a b h => by simpa using h, ?_, ?_, ?_⟩
  · intro e he; simp [oldSquareLike] at he; rcases he with rfl | rfl | rfl <;> decide
  · intro m hm; simp [oldSquareLike] at hm
  · intro r hr; simp [oldSquareLike] at hr

/-! ## Fields: discrimination -/

/-- **Soundness of `True`** for fields and domains: what a verdict `True` guarantees. -/
theorem C05_field_sound (o : Opts) (x y : Field) (hx : KeysNodup x.props) (h : fieldEquals o x y = .ok true) :
    x.cls = y.cls
    ∧ PropsEq o.close (ignoredNames o.ignoreFillValue (fieldIgnoreProps o.ignoreProps)) x.props y.props
    ∧ OptRel (DataEq o.close o.ignoreDataType o.ignoreFillValue o.ignoreCompression) x.data y.data
    ∧ (x.axes.map (·.2)).Perm (y.axes.map (·.2))
    ∧ (x.cms.length = y.cms.length ∧ ∀ i (h0 : i < x.cms.length) (h1 : i < y.cms.length),
        (x.cms[i]).2.axes.length = (y.cms[i]).2.axes.length ∧ (x.cms[i]).2.method = (y.cms[i]).2.method
          ∧ dictEq (fun a b => a == b) (x.cms[i]).2.quals (y.cms[i]).2.quals = true)
    ∧ (x.refs.length = y.refs.length ∧ ∀ r ∈ x.refs, ∃ r' ∈ y.refs, coordRefCore o.close r.2 r'.2 = true)
    ∧ (∀ e ∈ x.cons, e.c.cls ∈ roles → ∃ e' ∈ y.cons, e'.c.cls = e.c.cls ∧ e'.axes.length = e.axes.length
          ∧ constructCore o.inner e.c e'.c = true) := by
  obtain ⟨h1, h2, h3, h4⟩ := fieldEquals_true_inv o x y h
  refine ⟨h1, (propsEquals_iff _ _ _ _ hx).mp h2, (optDataEquals_iff _ _ _ _ _ _).mp h3, ?_,
    constructsEquals_cell_methods o x y h4, constructsEquals_coord_refs o x y h4,
    fun e he hr => constructsEquals_counterpart o x y h4 e he hr⟩
  exact (C05_domain_axes_sizes _ _).mp (constructsEquals_true_inv o x y h4).1

/- Full-strength statement: whenever exactly one data-model component of `y` differs from `x`, the
verdict is `False`.  It is FALSE for the code in one respect — the axes spanned by the *field's own
data* are never compared (`C05_field_data_axes_counterexample`; open finding
`field-data-axes-not-compared`).  Proved (`C05_discriminating_field_partial`): a differing field
property / field datum / mask / shape / data type (through `DataEq`), a different multiset of
domain-axis sizes, a different number of cell methods, a cell method with another method /
qualifiers / number of axes, a different number of coordinate references, a coordinate reference
without a counterpart with the same parameters and datum, a metadata construct without a
counterpart of its type spanning as many axes (any differing property, datum, mask element, bounds,
geometry type … of that construct, by `C05_discriminating_construct`).  Missing: the identity of the
axes (beyond their number) of a moved construct or cell method, and the coordinate set of a
coordinate reference (both go through the axis/key maps and are covered by the correspondence). -/

/-- **Discriminating** at field level. -/
theorem C05_discriminating_field_partial (o : Opts) (x y : Field) (hx : KeysNodup x.props)
    (hy : ∀ m ∈ y.cms, CMIntervalsWF m.2) (ht : o.ignoreType = false ∨ x.cls = y.cls) :
    (x.cls ≠ y.cls
     ∨ ¬ PropsEq o.close (ignoredNames o.ignoreFillValue (fieldIgnoreProps o.ignoreProps)) x.props y.props
     ∨ ¬ OptRel (DataEq o.close o.ignoreDataType o.ignoreFillValue o.ignoreCompression) x.data y.data
     ∨ ¬ (x.axes.map (·.2)).Perm (y.axes.map (·.2))
     ∨ x.cms.length ≠ y.cms.length
     ∨ (∃ i, ∃ (h0 : i < x.cms.length) (h1 : i < y.cms.length),
          (x.cms[i]).2.method ≠ (y.cms[i]).2.method ∨ (x.cms[i]).2.axes.length ≠ (y.cms[i]).2.axes.length
            ∨ dictEq (fun a b => a == b) (x.cms[i]).2.quals (y.cms[i]).2.quals = false)
     ∨ x.refs.length ≠ y.refs.length
     ∨ (∃ r ∈ x.refs, ∀ r' ∈ y.refs, coordRefCore o.close r.2 r'.2 = false)
     ∨ (∃ e ∈ x.cons, e.c.cls ∈ roles ∧ ∀ e' ∈ y.cons, e'.c.cls = e.c.cls → e'.axes.length = e.axes.length →
          constructCore o.inner e.c e'.c = false))
    → fieldEquals o x y = .ok false := by
  intro h
  obtain ⟨b, hb⟩ := fieldEquals_total o x y hy ht
  cases b with
  | false => exact hb
  | true =>
    exfalso
    obtain ⟨s1, s2, s3, s4, s5, s6, s7⟩ := C05_field_sound o x y hx hb
    rcases h with h | h | h | h | h | ⟨i, h0, h1, h⟩ | h | ⟨r, hr, h⟩ | ⟨e, he, hrole, h⟩
    · exact h s1
    · exact h s2
    · exact h s3
    · exact h s4
    · exact h s5.1
    · obtain ⟨a1, a2, a3⟩ := s5.2 i h0 h1
      rcases h with h | h | h
      · exact h a2
      · exact h a1
      · rw [a3] at h; exact absurd h (by simp)
    · exact h s6.1
    · obtain ⟨r', hr', hc⟩ := s6.2 r hr
      rw [h r' hr'] at hc; exact absurd hc (by simp)
    · obtain ⟨e', he', c1, c2, c3⟩ := s7 e he hrole
      rw [h e' he' c1 c2] at c3; exact absurd c3 (by simp)

/-- A 2×2 field with distinct coordinates on its two axes … -/
def exSquareData : Field :=
  { cls := clsField, props := [], data := some (mkData [2, 2] [1, 2, 3, 4]), dataAxes := [10, 11],
    axes := [(10, 2), (11, 2)],
    cons := [{ key := 20, axes := [10], c := mkCon clsDim 7 [2] [0, 1] },
             { key := 21, axes := [11], c := mkCon clsDim 8 [2] [5, 6] }],
    cms := [], refs := [] }

/-- … equals the field whose data span the axes the other way round (reproduced on cfdm: `True`). -/
theorem C05_field_data_axes_counterexample :
    fieldEquals exact exSquareData { exSquareData with dataAxes := [11, 10] } = .ok true := by decide

/-- Non-vacuity of `C05_discriminating_field_partial`: a changed coordinate value. -/
example : fieldEquals exact exSquareData
    { exSquareData with cons := [{ key := 20, axes := [10], c := mkCon clsDim 7 [2] [0, 9] },
                                 { key := 21, axes := [11], c := mkCon clsDim 8 [2] [5, 6] }] } = .ok false := by decide

/-! ## The unrepaired code -/

/-- A coordinate with bounds. -/
def oldBounded : Construct :=
  { mkCon clsAux 7 [2] [0, 1] with bounds := some { props := [], data := some (mkData [2, 2] [0, 1, 1, 2]) } }

/-- Two axes of size 2 with distinct coordinates and a 2-d auxiliary coordinate on (10, 11) … -/
def oldSquare : Field :=
  { cls := clsField, props := [], data := none, dataAxes := [], axes := [(10, 2), (11, 2)],
    cons := [{ key := 20, axes := [10], c := mkCon clsDim 7 [2] [0, 1] },
             { key := 21, axes := [11], c := mkCon clsDim 8 [2] [5, 6] },
             { key := 22, axes := [10, 11], c := mkCon clsAux 9 [2, 2] [1, 2, 3, 4] }],
    cms := [], refs := [] }
/-- … and the same with that construct on (11, 10). -/
def oldSquareT : Field :=
  { oldSquare with cons := [{ key := 20, axes := [10], c := mkCon clsDim 7 [2] [0, 1] },
             { key := 21, axes := [11], c := mkCon clsDim 8 [2] [5, 6] },
             { key := 22, axes := [11, 10], c := mkCon clsAux 9 [2, 2] [1, 2, 3, 4] }] }

/-- One axis with an auxiliary and a dimension coordinate … -/
def oldExtra : Field :=
  { cls := clsField, props := [], data := none, dataAxes := [], axes := [(10, 2)],
    cons := [{ key := 20, axes := [10], c := mkCon clsAux 7 [2] [0, 1] },
             { key := 21, axes := [10], c := mkCon clsDim 8 [2] [0, 1] }],
    cms := [], refs := [] }
/-- … and the same without the dimension coordinate. -/
def oldPlain : Field :=
  { oldExtra with cons := [{ key := 20, axes := [10], c := mkCon clsAux 7 [2] [0, 1] }] }

/-- **What the code does today** (each repaired by one of `fixes/C05-*.patch`):
1. `ignore_fill_value=True` with `ignore_properties` `None` or a `str`: `TypeError`
   (also reached through the bounds, whose `ignore_properties` is always `None`);
2. fields with different numbers of cell methods: `TypeError` (`logger(` is not callable);
3. an inconsistent axis mapping (a 2-d construct spanning (x, y) against (y, x)): `ValueError`
   from the log message, where the repaired code answers `False`;
4. a construct of a type that `other` has none of: the candidate-axes loop `break`s and then
   tests `not constructs1`, which is `True` when the other types were popped before — so the
   extra construct goes unnoticed, depending on the iteration order of a `set` of strings;
5. `ignore_type=True` across classes: `PropertiesDataBounds.equals` keeps using the
   unconverted `other` (`AttributeError`). -/
theorem C05_old_code_counterexamples :
    ignoredNamesOld true .absent = .error .typeError
    ∧ ignoredNamesOld true (.str (some 5)) = .error .typeError
    ∧ ignoredNames true (.str (some 5)) = [5, nmFillValue, nmMissingValue]
    ∧ constructEqualsOld { exact with ignoreFillValue := true, ignoreProps := .tuple [5] } oldBounded oldBounded
        = .error .typeError
    ∧ constructEquals { exact with ignoreFillValue := true, ignoreProps := .tuple [5] } oldBounded oldBounded = .ok true
    ∧ cellMethodsEqualOld exact.close [] [] [{ axes := [10], method := some 1, quals := [], intervals := [] }] []
        = .error .typeError
    ∧ cellMethodsEqual exact.close [] [] [{ axes := [10], method := some 1, quals := [], intervals := [] }] []
        = .ok false
    ∧ constructsEqualsOld exact roles [clsAux] oldSquare oldSquareT = .error .valueError
    ∧ constructsEquals exact oldSquare oldSquareT = .ok false
    ∧ constructsEqualsOld exact roles.reverse [clsAux] oldExtra oldPlain = .ok true
    ∧ constructsEqualsOld exact roles [clsAux] oldExtra oldPlain = .ok false
    ∧ constructsEquals exact oldExtra oldPlain = .ok false
    ∧ constructEqualsOld { exact with ignoreType := true } (mkCon clsAux 7 [2] [0, 1]) (mkCon clsFieldAnc 7 [2] [0, 1])
        = .error .attributeError
    ∧ constructEquals { exact with ignoreType := true } (mkCon clsAux 7 [2] [0, 1]) (mkCon clsFieldAnc 7 [2] [0, 1])
        = .ok true := by
  refine ⟨by decide, by decide, by decide, by decide, by decide, by decide, by decide, by decide, by decide,
    by decide, by decide, by decide, by decide, by decide⟩

end Cfdm.Props.C05
