import Cfdm.Lemmas.EqualityInv
import Cfdm.Lemmas.EqualityLeaf
import Cfdm.Lemmas.EqualityNames
import Mathlib.Tactic.SplitIfs
/-
C05 — equality testing is total, reflexive, order-blind and discriminating.
Property theorems only (helper lemmas: `Lemmas/Greedy.lean`, `Lemmas/EqualitySpec.lean`,
`Lemmas/EqualityField.lean`; model: `Model/Equality.lean`; declarative
specification: `Spec/Equality.lean`).

The model mirrors the code as it is at /repo HEAD — i.e. after the five repairs of
`fixes/C05-*.patch` that went in as `fix:` commits (8667bf6, 1903869, f5807e8, 4ccece5, ec99d5c);
`C05_old_code_counterexamples` shows what the code did before them — plus the one proposed,
not applied, `fixes/C05-topology-cell-type-compared.patch` (`C05_topology_cell_counterexample`
shows the code without it).  The leaf array comparison is `Model/EqualityLeaf.lean`.
-/
namespace Cfdm.Props.C05
open Cfdm.Equality Cfdm.Equality.Spec

/-! ## The matching loop -/

/-- **Greedy matching is complete.**  The loop `for item0: for item1 in remaining: if
item0.equals(item1): remove; break` answers `True` exactly when the two collections agree
up to order — for every relation that is *difunctional* (every equivalence relation is; so is
the key-mapped comparison of coordinate references). -/
theorem C05_greedy_complete {α β} (r : α → β → Bool) (hr : Difunctional r) (l0 : List α) (l1 : List β) :
    greedyMatch r l0 l1 = true ↔ MatchUpToOrder r l0 l1 :=
  greedyMatch_iff_spec r hr l0 l1

/-- Soundness needs no hypothesis on the relation: a `True` always comes with a pairing. -/
theorem C05_greedy_sound {α β} (r : α → β → Bool) (l0 : List α) (l1 : List β)
    (h : greedyMatch r l0 l1 = true) :
    ∃ l1' : List β, l1'.Perm l1 ∧ List.Forall₂ (fun a b => r a b = true) l0 l1' :=
  greedyMatch_sound r l0 l1 h

/-- `|a - b| ≤ 1`: a tolerance, reflexive and symmetric but not transitive. -/
def within1 (a b : Int) : Bool := decide ((a - b).natAbs ≤ 1)

/-- Without difunctionality (numerical tolerance is not transitive) greedy matching can miss
a pairing that exists: 0 ~ 1 ~ 2 with tolerance 1, `[1, 0]` against `[0, 2]`… -/
theorem C05_greedy_incomplete_with_tolerance :
    greedyMatch within1 [1, 0] [0, 2] = false ∧ greedyMatch within1 [1, 0] [2, 0] = true
    ∧ [2, 0].Perm ([0, 2] : List Int) :=
  ⟨by decide, by decide, List.Perm.swap _ _ _⟩

example : Difunctional (fun (a b : Nat) => a % 3 == b % 3) := by
  intro a a' b b' h1 h2 h3
  simp only [beq_iff_eq] at *
  omega
example : greedyMatch (fun (a b : Nat) => a % 3 == b % 3) [1, 5, 3] [6, 4, 2] = true := by decide

/-- **Order-blindness of the matching** (insertion order of the constructs of one type on
one set of axes, on either side). -/
theorem C05_order_blind_arrays {α β} (r : α → β → Bool) (hr : Difunctional r) {l0 l0' : List α} {l1 l1' : List β}
    (h0 : l0.Perm l0') (h1 : l1.Perm l1') : greedyMatch r l0 l1 = greedyMatch r l0' l1' :=
  greedyMatch_perm r hr h0 h1

example : ([1, 5, 3] : List Nat).Perm [3, 1, 5] := by decide

/-- **The matching discriminates**: for an equivalence relation, replacing one item by an item
of another class (or dropping / adding one) is never matched, in either direction — whatever the
order, however many look-alikes the collections contain. -/
theorem C05_matching_discriminates {α} (r : α → α → Bool)
    (hsymm : ∀ a b, r a b = true → r b a = true) (htrans : ∀ a b c, r a b = true → r b c = true → r a c = true)
    (l : List α) (i : Nat) (hi : i < l.length) (c' : α) (hne : r l[i] c' = false) :
    greedyMatch r l (l.set i c') = false ∧ greedyMatch r (l.set i c') l = false
    ∧ greedyMatch r l (l.eraseIdx i) = false ∧ greedyMatch r l (c' :: l) = false :=
  ⟨greedyMatch_replace_false r hsymm htrans l i hi c' hne, greedyMatch_replace_false' r hsymm htrans l i hi c' hne,
   greedyMatch_length r _ _ (by rw [List.length_eraseIdx_of_lt hi]; omega), greedyMatch_length r _ _ (by simp)⟩

example : greedyMatch (fun (a b : Nat) => a % 3 == b % 3) [1, 4, 7, 2] [1, 4, 9, 2] = false := by decide

/-- Domain axis sizes are compared as a multiset. -/
theorem C05_domain_axes_sizes (a0 a1 : List (Nat × Nat)) :
    domainAxesEqual a0 a1 = true ↔ (a0.map (·.2)).Perm (a1.map (·.2)) := by
  simp only [domainAxesEqual, beq_iff_eq]
  exact sortNat_eq_iff_perm _ _

/-! ## One metadata construct against another -/

/-- **The code decides the specification**: for two constructs of one class the verdict is
`True` exactly when every component agrees (properties not ignored, data, bounds,
geometry type, interior ring, measure). -/
theorem C05_construct_spec (o : Opts) (x y : Construct) (hx : ConstructWF x) (hcls : x.cls = y.cls) :
    constructEquals o x y = .ok true ↔ ConstructEq o x y := by
  have : (x.cls == y.cls) = true := by simpa using hcls
  simp only [constructEquals, this, ↓reduceIte, Except.ok.injEq]
  exact constructCore_iff o x y hx

theorem C05_data_spec (o : Opts) (x y : Data) :
    dataObjEquals o x y = .ok true ↔ DataEq o.close o.ignoreDataType o.ignoreFillValue o.ignoreCompression x y := by
  simp only [dataObjEquals, Except.ok.injEq]
  exact dataEquals_iff _ _ _ _ x y

theorem C05_cell_method_spec (o : Opts) (x y : CellMethod) (hx : CellMethodWF x) :
    cellMethodEquals o x y = .ok true ↔ CellMethodEq o.close x y := by
  simp only [cellMethodEquals, Except.ok.injEq]
  exact cellMethodCore_iff _ x y hx

theorem C05_coord_ref_spec (o : Opts) (x y : CoordRef) (hx : CoordRefWF x) :
    coordRefEquals o x y = .ok true ↔ CoordRefEq o.close x y := by
  simp only [coordRefEquals, Except.ok.injEq]
  exact coordRefCore_iff _ x y hx

/-- Reflexivity (a construct and its copy), for every option set, with or without tolerance. -/
theorem C05_refl_construct (o : Opts) (hc : CloseRefl o.close) (x : Construct) (hx : ConstructWF x) :
    constructEquals o x x = .ok true := by
  simp [constructEquals, constructCore_refl hc x hx]

theorem C05_refl_others (o : Opts) (hc : CloseRefl o.close) :
    (∀ d : Data, dataObjEquals o d d = .ok true)
    ∧ (∀ m : CellMethod, CellMethodWF m → cellMethodEquals o m m = .ok true)
    ∧ (∀ r : CoordRef, CoordRefWF r → coordRefEquals o r r = .ok true)
    ∧ (∀ s : Option Nat, domainAxisEquals s s = .ok true) := by
  refine ⟨fun d => ?_, fun m hm => ?_, fun r hr => ?_, fun s => ?_⟩
  · simp [dataObjEquals, dataEquals_refl hc]
  · simp [cellMethodEquals, cellMethodCore_refl hc m hm]
  · simp [coordRefEquals, coordRefCore_refl hc r hr]
  · simp [domainAxisEquals]

/-- Every tolerance of the call (`|x-y| ≤ atol + rtol·|y|`) is reflexive; with `rtol = 0` it is
symmetric; with `rtol = atol = 0` it is exact. -/
theorem C05_tolerance_facts (an ad rn rd k : Nat) :
    CloseRefl (tolClose an ad rn rd k) ∧ CloseSymm (tolClose an ad 0 rd k)
    ∧ (0 < ad → 0 < rd → CloseExact (tolClose 0 ad 0 rd k)) :=
  ⟨tolClose_refl an ad rn rd k, tolClose_symm an ad rd k, tolClose_exact ad rd k⟩

/-- numpy's test is *not* symmetric when `rtol > 0`: 2 vs 4 with rtol = 1/2. -/
theorem C05_tolerance_asymmetric : tolClose 0 1 1 2 0 2 4 = true ∧ tolClose 0 1 1 2 0 4 2 = false := by decide

/-- **Symmetry** when the closeness test is symmetric (no relative tolerance in play): same
class, or different classes without `ignore_type` (both `False`). -/
theorem C05_symm_construct (o : Opts) (hc : CloseSymm o.close) (x y : Construct) (hx : ConstructWF x)
    (hy : ConstructWF y) (ht : o.ignoreType = false ∨ x.cls = y.cls) :
    constructEquals o x y = constructEquals o y x := by
  by_cases hcls : x.cls = y.cls
  · have h1 : (x.cls == y.cls) = true := by simpa using hcls
    have h2 : (y.cls == x.cls) = true := by simpa using hcls.symm
    simp [constructEquals, h1, h2, constructCore_symm hc x y hx hy hcls]
  · have h1 : (x.cls == y.cls) = false := by simpa using hcls
    have h2 : (y.cls == x.cls) = false := by simpa using fun e => hcls e.symm
    rcases ht with ht | ht
    · simp [constructEquals, h1, h2, ht]
    · exact absurd ht hcls

/-- **netCDF names are ignored** (and so is the external-variable status). -/
theorem C05_names_blind (o : Opts) (x y : Construct) (n m : Option Nat) (e e' : Bool) :
    constructEquals o { x with ncvar := n, external := e } { y with ncvar := m, external := e' }
      = constructEquals o x y := by
  simp only [constructEquals, convertTo]
  split_ifs <;> rfl

/-! ## Discrimination, component by component -/

/-- **Discriminating.**  Two constructs of one class that differ in *one* component — a
property that is not ignored, the data (shape, data type, a mask element, a datum beyond
tolerance, fill value, units, calendar), the bounds, the geometry type, the interior ring, the
type tag of the class (the measure of a cell measure, the cell type of a domain topology, the
connectivity type of a cell connectivity) — are unequal. -/
theorem C05_discriminating_construct (o : Opts) (x y : Construct) (hx : ConstructWF x) (hcls : x.cls = y.cls) :
    ((∃ name, ¬ ignoredSet o.ignoreFillValue o.ignoreProps name ∧
        ¬ OptRel (ArrEq o.close true) (x.props.lookup name) (y.props.lookup name))
     ∨ ¬ OptRel (DataEq o.close o.ignoreDataType o.ignoreFillValue o.ignoreCompression) x.data y.data
     ∨ (hasBoundsAPI x.cls = true ∧ (x.geometry ≠ y.geometry ∨ ¬ OptRel (SubEq o) x.bounds y.bounds
          ∨ ¬ OptRel (SubEq o) x.interiorRing y.interiorRing))
     ∨ (hasTypeTag x.cls = true ∧ x.measure ≠ y.measure))
    → constructEquals o x y = .ok false := by
  intro h
  have h1 : (x.cls == y.cls) = true := by simpa using hcls
  simp only [constructEquals, h1, ↓reduceIte, Except.ok.injEq]
  cases hv : constructCore o x y with
  | false => rfl
  | true =>
    exfalso
    obtain ⟨p1, p2, p3, p4⟩ := (constructCore_iff o x y hx).mp hv
    rcases h with ⟨name, hn, hp⟩ | h | ⟨hb, h⟩ | ⟨hm, h⟩
    · exact hp (p1 name hn)
    · exact h p2
    · obtain ⟨q1, q2, q3⟩ := p3 hb
      rcases h with h | h | h
      · exact h q1
      · exact h q2
      · exact h q3
    · exact h (p4 hm)

/-- What makes two arrays differ: the shape; the data type (unless ignored; strings exempt);
one mask element; one pair of unmasked values that are not close. -/
theorem C05_discriminating_array (close : Int → Int → Bool) (idt : Bool) (x y : Arr) :
    (x.shape ≠ y.shape
     ∨ (idt = false ∧ x.dtype ≠ y.dtype ∧ x.isStr = false ∧ y.isStr = false)
     ∨ (∃ i, ∃ (h0 : i < x.vals.length) (h1 : i < y.vals.length), (x.vals[i]'h0).isSome ≠ (y.vals[i]'h1).isSome)
     ∨ (∃ (i : Nat) (a b : Int), x.vals[i]? = some (some a) ∧ y.vals[i]? = some (some b) ∧ x.isStr = false ∧ y.isStr = false
          ∧ close a b = false))
    → arrEquals close idt x y = false := by
  intro h
  cases hv : arrEquals close idt x y with
  | false => rfl
  | true =>
    exfalso
    obtain ⟨p1, p2, p3, p4⟩ := (arrEquals_iff close idt x y).mp hv
    rcases h with h | ⟨h1, h2, h3, h4⟩ | ⟨i, h0, h1, h⟩ | ⟨i, a, b, ha, hb, hs0, hs1, hcl⟩
    · exact h p1
    · rcases p2 with p | p | p | p
      · rw [h1] at p; exact absurd p (by simp)
      · exact h2 p
      · rw [h3] at p; exact absurd p (by simp)
      · rw [h4] at p; exact absurd p (by simp)
    · have := p4 i h0 h1
      revert this h
      cases x.vals[i] <;> cases y.vals[i] <;> simp [ElemEq]
    · have h0 : i < x.vals.length := by
        by_contra hn; rw [List.getElem?_eq_none (by omega)] at ha; exact absurd ha (by simp)
      have h1 : i < y.vals.length := by
        by_contra hn; rw [List.getElem?_eq_none (by omega)] at hb; exact absurd hb (by simp)
      have := p4 i h0 h1
      rw [List.getElem?_eq_getElem h0] at ha
      rw [List.getElem?_eq_getElem h1] at hb
      rw [Option.some.inj ha, Option.some.inj hb] at this
      simp [ElemEq, hs0, hs1, hcl] at this

/-! ## Each ignore option removes exactly the class of difference it names -/

/-- **Ignore options are exact.**  For a construct `x` with data `d` and a variant that differs
in one named way only:
* only the data type differs  → the verdict is `ignore_data_type`;
* only the fill value differs → the verdict is `ignore_fill_value`;
* only the compression differs (same uncompressed array) → the verdict is `ignore_compression`;
* only the class differs (a class that holds the same components) → the verdict is `ignore_type`;
* only property `name` differs → the verdict is "`name` is among the ignored names". -/
theorem C05_ignore_exact (o : Opts) (hc : CloseRefl o.close) (x : Construct) (hx : ConstructWF x) (d : Data)
    (hd : x.data = some d) :
    (∀ dt, dt ≠ d.arr.dtype → d.arr.isStr = false →
        constructEquals o x { x with data := some { d with arr := { d.arr with dtype := dt } } }
          = .ok o.ignoreDataType)
    ∧ (∀ fv, fv ≠ d.fill →
        constructEquals o x { x with data := some { d with fill := fv } } = .ok o.ignoreFillValue)
    ∧ (∀ ct ca, ct ≠ d.ctype →
        constructEquals o x { x with data := some { d with ctype := ct, carr := ca } } = .ok o.ignoreCompression)
    ∧ (∀ cls, cls ≠ x.cls → hasBoundsAPI x.cls = true → (x.cls = clsDim → d.arr.shape.length = 1) →
        constructEquals o x { x with cls := cls } = .ok o.ignoreType)
    ∧ (∀ name v w, x.props.lookup name = some v → ¬ ArrEq o.close true v w →
        constructEquals o x { x with props := x.props.map (fun kv => if kv.1 == name then (kv.1, w) else kv) }
          = .ok (decide (name ∈ ignoredNames o.ignoreFillValue o.ignoreProps))) := by
  refine ⟨?_, ?_, ?_, ?_, ?_⟩
  · intro dt hdt hstr
    refine constructEquals_eq_ok o x _ hx _ ?_ rfl
    rw [ConstructEq_data_only hc, hd]
    exact DataEq_dtype_only hc _ _ _ d dt hdt hstr
  · intro fv hfv
    refine constructEquals_eq_ok o x _ hx _ ?_ rfl
    rw [ConstructEq_data_only hc, hd]
    exact DataEq_fill_only hc _ _ _ d fv hfv
  · intro ct ca hct
    refine constructEquals_eq_ok o x _ hx _ ?_ rfl
    rw [ConstructEq_data_only hc, hd]
    exact DataEq_compression_only hc _ _ _ d ct ca hct
  · intro cls hcls hb hdim
    apply constructEquals_class_only o hc x hx cls hcls hb
    intro hx' d' hd'
    rw [hd] at hd'
    exact (Option.some.inj hd') ▸ hdim hx'
  · intro name v w hv hne
    refine constructEquals_eq_ok o x _ hx _ ?_ rfl
    rw [ConstructEq_prop_only hc x name v w hv hne, ← mem_ignoredNames]
    simp

/-- A small auxiliary coordinate used in the non-vacuity examples. -/
def exAux : Construct where
  cls := clsAux
  props := [(5, { shape := [], dtype := 0, isStr := true, vals := [some 7] })]
  data := some { arr := { shape := [2], dtype := 1, isStr := false, vals := [some 3, none] }, fill := none,
                 units := some 4, calendar := none, ctype := 0,
                 carr := { shape := [2], dtype := 1, isStr := false, vals := [some 3, none] } }
  external := false
  ncvar := some 9
  geometry := none
  bounds := none
  interiorRing := none
  measure := none

example : ConstructWF exAux := ⟨by simp [KeysNodup, exAux], by simp [exAux], by simp [exAux]⟩
example : constructEquals { close := tolClose 0 1 0 1 0 } exAux exAux = .ok true := by decide

/-! ## Totality -/

/- Full-strength statement (the property): for all x, y and all options, `equals` answers
`True` or `False`.  It is FALSE for the code even after the proposed repairs:
`ignore_type=True` makes `_equals_preprocess` call `type(self)(source=other)`, and a
`DimensionCoordinate` refuses data that are not 1-d (`ValueError`) — see
`C05_total_counterexample`; conversions between unrelated cfdm classes raise in more ways and
are outside the model (`Exn.unmodelled`; known finding
`ignore_type-conversion-of-incompatible-object-raises`).  Proved: totality whenever no conversion
is attempted or the conversion is between fields/constructs that admit it, for cell methods with
0, 1 or len(axes) intervals (`CellMethod.sorted` indexes the intervals by axis position). -/

/-- **Totality** of the repaired code. -/
theorem C05_total_partial (o : Opts) :
    (∀ x y : Field, (∀ m ∈ y.cms, CMIntervalsWF m.2) → (o.ignoreType = false ∨ x.cls = y.cls) →
        ∃ b, fieldEquals o x y = .ok b)
    ∧ (∀ x y : Construct,
        (o.ignoreType = false ∨ x.cls = y.cls ∨ (x.cls = clsDim → ∀ d, y.data = some d → d.arr.shape.length = 1)) →
        ∃ b, constructEquals o x y = .ok b)
    ∧ (∀ x y : Data, ∃ b, dataObjEquals o x y = .ok b)
    ∧ (∀ x y : CellMethod, ∃ b, cellMethodEquals o x y = .ok b)
    ∧ (∀ x y : CoordRef, ∃ b, coordRefEquals o x y = .ok b)
    ∧ (∀ x y : Option Nat, ∃ b, domainAxisEquals x y = .ok b)
    ∧ (∀ x y : Sub, ∃ b, subObjEquals o x y = .ok b) := by
  refine ⟨fun x y h1 h2 => fieldEquals_total o x y h1 h2, ?_, fun _ _ => ⟨_, rfl⟩, fun _ _ => ⟨_, rfl⟩,
    fun _ _ => ⟨_, rfl⟩, fun _ _ => ⟨_, rfl⟩, fun _ _ => ⟨_, rfl⟩⟩
  intro x y h
  unfold constructEquals
  split
  · exact ⟨_, rfl⟩
  · rename_i hne
    split
    · rename_i hit
      rcases h with h | h | h
      · rw [h] at hit; exact absurd hit (by simp)
      · simp [h] at hne
      · rw [convertTo_ok x.cls y h]
        exact ⟨_, rfl⟩
    · exact ⟨_, rfl⟩

/-- Plain options (exact comparison, nothing ignored). -/
def exact : Opts := { close := tolClose 0 1 0 1 0 }

def mkArr (dtype : Nat) (shape : List Nat) (vals : List Int) : Arr :=
  { shape := shape, dtype := dtype, isStr := false, vals := vals.map some }
def mkData (shape : List Nat) (vals : List Int) : Data :=
  { arr := mkArr 1 shape vals, fill := none, units := none, calendar := none, ctype := 0, carr := mkArr 1 shape vals }
/-- A construct of class `cls` named `name` (property 3 = `long_name`). -/
def mkCon (cls name : Nat) (shape : List Nat) (vals : List Int) : Construct :=
  { cls := cls, props := [(3, { shape := [], dtype := 0, isStr := true, vals := [some name] })],
    data := some (mkData shape vals), external := false, ncvar := none, geometry := none, bounds := none,
    interiorRing := none, measure := none }

/-- The witness: a dimension coordinate compared, with `ignore_type=True`, to a 2-d auxiliary
coordinate — `DimensionCoordinate(source=aux)` raises `ValueError`. -/
theorem C05_total_counterexample :
    constructEquals { exact with ignoreType := true } (mkCon clsDim 7 [2] [0, 1]) (mkCon clsAux 7 [1, 2] [0, 1])
      = .error .valueError := by decide

example : (mkCon clsDim 7 [2] [0, 1]).cls ≠ (mkCon clsAux 7 [1, 2] [0, 1]).cls := by decide

/-! ## Fields: netCDF names -/

/-- **netCDF names are ignored at field level too**: two fields (or domains) that differ from `x`
and `y` only in the netCDF variable names and the external status of their metadata constructs
get the verdict of `x` against `y` — whatever the names are, on one side or both, set or unset. -/
theorem C05_names_blind_field (o : Opts) (x x' y y' : Field) (hx : x'.strip = x.strip) (hy : y'.strip = y.strip) :
    fieldEquals o x' y' = fieldEquals o x y := by
  rw [← fieldEquals_strip o x' y', ← fieldEquals_strip o x y, hx, hy]

/-- Non-vacuity: `oldSquare`-like field with one construct renamed and one made external. -/
example :
    let e0 : Entry := { key := 20, axes := [10], c := mkCon clsDim 7 [2] [0, 1] }
    let e1 : Entry := { key := 21, axes := [10], c := mkCon clsMeasure 8 [2] [5, 6] }
    let f : Field := { cls := clsField, props := [], data := none, dataAxes := [], axes := [(10, 2)], cons := [e0, e1], cms := [], refs := [] }
    let f' : Field := { f with cons := [{ e0 with c := { e0.c with ncvar := some 99 } }, { e1 with c := { e1.c with external := true } }] }
    f'.strip = f.strip := by decide

/-! ## Fields: reflexivity -/

/- Full-strength statement: `fieldEquals o x x = .ok true` for every well-formed field `x`
(a field equals its copy).  It is FALSE for the code (open finding
`cell-method-axes-unmatched-axis-two-places-before-matched-axis`): the loop in `_equals_cell_method`
keeps iterating over a list it has just removed an item from, and gives up when, in the axes of
one cell method, an axis that no metadata construct spans stands two or more places before one that
is spanned — `C05_refl_field_counterexample`.  Proved: reflexivity for all other fields. -/

/-- **A field (or domain) equals its copy** — every option set, any tolerance — provided no
cell method has an unspanned axis two or more places before a spanned one. -/
theorem C05_refl_field_partial (o : Opts) (hc : CloseRefl o.close) (x : Field) (hx : FieldWF x)
    (hcm : ∀ m ∈ x.cms, CMAxesOK (spanned x) m.2.axes) : fieldEquals o x x = .ok true :=
  fieldEquals_self o hc x hx hcm

/-- Three axes 10, 11, 12 (sizes 2, 3, 4); only axis 12 has a coordinate; one cell method
over (10, 11, 12). -/
def exField3 : Field :=
  { cls := clsField, props := [], data := some (mkData [2, 3, 4] (List.replicate 24 5)), dataAxes := [10, 11, 12],
    axes := [(10, 2), (11, 3), (12, 4)],
    cons := [{ key := 20, axes := [12], c := mkCon clsDim 7 [4] [0, 1, 2, 3] }],
    cms := [(30, { axes := [10, 11, 12], method := some 40, quals := [], intervals := [] })],
    refs := [] }

/-- The witness (reproduced on cfdm: `f.equals(f.copy())` is `False`). -/
theorem C05_refl_field_counterexample : fieldEquals exact exField3 exField3 = .ok false := by decide

/-- Non-vacuity of `C05_refl_field_partial`: the same field with the cell method over (12, 11, 10). -/
def exField3' : Field := { exField3 with cms := [(30, { axes := [12, 11, 10], method := some 40, quals := [], intervals := [] })] }
example : fieldEquals exact exField3' exField3' = .ok true := by decide
example : ∀ m ∈ exField3'.cms, CMAxesOK (spanned exField3') m.2.axes := by
  intro m hm
  simp only [exField3', exField3, List.mem_singleton] at hm
  subst hm
  intro i j hi hj hij
  simp only [List.length_cons, List.length_nil] at hi hj
  have : i = 0 ∧ j = 2 := by omega
  obtain ⟨rfl, rfl⟩ := this
  simp [spanned, exField3', exField3]

/-! ## Fields: other construct keys, other insertion order -/

/- Full-strength statement (the property): for every field `x` and every `y` obtained from `x` by
renaming construct keys (a bijection on the keys of each construct type) and permuting the
insertion order of the constructs (`List.Perm` on `cons`, `axes`, `refs`), `fieldEquals o x y = .ok
true`.  It is FALSE for the code:
* a cell method over an axis that no metadata construct spans is compared by the *key* of that
  axis (`C05_key_blind_counterexample_unspanned_axis`; open finding
  `cell-method-axis-without-data-constructs-compared-by-key`);
* when two axes carry identical constructs, the candidates are matched greedily in insertion order
  without backtracking, and another insertion order can leave an inconsistent axis mapping
  (`C05_order_blind_counterexample_ambiguous`; open finding
  `identical-constructs-on-two-axes-or-keys-matched-greedily-without-backtracking`).
Proved: (1) `C05_key_blind_partial` — any injective renaming of the domain-axis keys, of the keys
of the constructs with data and of the cell-method / coordinate-reference keys, insertion order
kept, cell methods over unspanned axes keeping their axis key; (2) `C05_order_blind_arrays` —
the matching of the constructs of one type on one set of axes does not depend on either
insertion order.  Missing: insertion order of whole axes groups for unambiguous fields. -/

/-- **Key-blindness**: a field equals itself rebuilt under other construct keys. -/
theorem C05_key_blind_partial (o : Opts) (hc : CloseRefl o.close) (x : Field) (hx : FieldWF x)
    (hcm : ∀ m ∈ x.cms, CMAxesOK (spanned x) m.2.axes) (π κ ρ : Nat → Nat) (hr : RenOK π κ x) :
    fieldEquals o x (renField π κ ρ x) = .ok true :=
  fieldEquals_ren o hc x hx hcm π κ ρ hr

/-- One axis (key 10) that nothing spans, one cell method over it … -/
def exBare (k : Nat) : Field :=
  { cls := clsField, props := [], data := some (mkData [2] [1, 2]), dataAxes := [k], axes := [(k, 2)], cons := [],
    cms := [(30, { axes := [k], method := some 40, quals := [], intervals := [] })], refs := [] }

/-- … against the same field with the axis under key 20 (reproduced on cfdm: `False`). -/
theorem C05_key_blind_counterexample_unspanned_axis :
    fieldEquals exact (exBare 10) (exBare 20) = .ok false
    ∧ exBare 20 = renField (fun a => a + 10) id id (exBare 10) := by
  constructor <;> decide

/-- Two axes of size 2 with *identical* coordinates, and a 2-d auxiliary coordinate on both. -/
def exAmbiguous (order : List Nat) : Field :=
  let d0 : Entry := { key := 20, axes := [10], c := mkCon clsDim 7 [2] [0, 1] }
  let d1 : Entry := { key := 21, axes := [11], c := mkCon clsDim 7 [2] [0, 1] }
  let a2 : Entry := { key := 22, axes := [10, 11], c := mkCon clsAux 9 [2, 2] [1, 2, 3, 4] }
  { cls := clsField, props := [], data := none, dataAxes := [], axes := [(10, 2), (11, 2)],
    cons := order.map (fun i => if i = 0 then d0 else if i = 1 then d1 else a2), cms := [], refs := [] }

/-- The same constructs under the same keys inserted in another order compare unequal
(on cfdm today: `ValueError` from the log message; after the repair: `False`). -/
theorem C05_order_blind_counterexample_ambiguous :
    fieldEquals exact (exAmbiguous [0, 1, 2]) (exAmbiguous [1, 0, 2]) = .ok false
    ∧ (exAmbiguous [0, 1, 2]).cons.Perm (exAmbiguous [1, 0, 2]).cons
    ∧ fieldEquals exact (exAmbiguous [0, 1, 2]) (exAmbiguous [0, 1, 2]) = .ok true := by
  refine ⟨by decide, ?_, by decide⟩
  exact List.Perm.swap _ _ _

/-- Two axes with distinct coordinates and a 2-d auxiliary coordinate. -/
def oldSquareLike : Field :=
  { cls := clsField, props := [], data := none, dataAxes := [], axes := [(10, 2), (11, 2)],
    cons := [{ key := 20, axes := [10], c := mkCon clsDim 7 [2] [0, 1] },
             { key := 21, axes := [11], c := mkCon clsDim 8 [2] [5, 6] },
             { key := 22, axes := [10, 11], c := mkCon clsAux 9 [2, 2] [1, 2, 3, 4] }],
    cms := [], refs := [] }

/-- Non-vacuity of `C05_key_blind_partial`: a renaming that meets the side conditions. -/
example : RenOK (fun a => a + 100) (fun k => k + 1000) oldSquareLike := by
  refine ⟨fun a b h => by simpa using h, fun a b h => by simpa using h, ?_, ?_, ?_⟩
  · intro e he; simp [oldSquareLike] at he; rcases he with rfl | rfl | rfl <;> decide
  · intro m hm; simp [oldSquareLike] at hm
  · intro r hr; simp [oldSquareLike] at hr

/-! ## Fields: discrimination -/

/-- **Soundness of `True`** for fields and domains: what a verdict `True` guarantees. -/
theorem C05_field_sound (o : Opts) (x y : Field) (hx : KeysNodup x.props) (h : fieldEquals o x y = .ok true) :
    x.cls = y.cls
    ∧ PropsEq o.close (ignoredNames o.ignoreFillValue (fieldIgnoreProps o.ignoreProps)) x.props y.props
    ∧ OptRel (DataEq o.close o.ignoreDataType o.ignoreFillValue o.ignoreCompression) x.data y.data
    ∧ (x.axes.map (·.2)).Perm (y.axes.map (·.2))
    ∧ (x.cms.length = y.cms.length ∧ ∀ i (h0 : i < x.cms.length) (h1 : i < y.cms.length),
        (x.cms[i]).2.axes.length = (y.cms[i]).2.axes.length ∧ (x.cms[i]).2.method = (y.cms[i]).2.method
          ∧ dictEq (fun a b => a == b) (x.cms[i]).2.quals (y.cms[i]).2.quals = true)
    ∧ (x.refs.length = y.refs.length ∧ ∀ r ∈ x.refs, ∃ r' ∈ y.refs, coordRefCore o.close r.2 r'.2 = true)
    ∧ (∀ e ∈ x.cons, e.c.cls ∈ roles → ∃ e' ∈ y.cons, e'.c.cls = e.c.cls ∧ e'.axes.length = e.axes.length
          ∧ constructCore o.inner e.c e'.c = true) := by
  obtain ⟨h1, h2, h3, h4⟩ := fieldEquals_true_inv o x y h
  refine ⟨h1, (propsEquals_iff _ _ _ _ hx).mp h2, (optDataEquals_iff _ _ _ _ _ _).mp h3, ?_,
    constructsEquals_cell_methods o x y h4, constructsEquals_coord_refs o x y h4,
    fun e he hr => constructsEquals_counterpart o x y h4 e he hr⟩
  exact (C05_domain_axes_sizes _ _).mp (constructsEquals_true_inv o x y h4).1

/- Full-strength statement: whenever exactly one data-model component of `y` differs from `x`, the
verdict is `False`.  It is FALSE for the code in one respect — the axes spanned by the *field's own
data* are never compared (`C05_field_data_axes_counterexample`; open finding
`field-data-axes-not-compared`).  Proved (`C05_discriminating_field_partial`): a differing field
property / field datum / mask / shape / data type (through `DataEq`), a different multiset of
domain-axis sizes, a different number of cell methods, a cell method with another method /
qualifiers / number of axes, a different number of coordinate references, a coordinate reference
without a counterpart with the same parameters and datum, a metadata construct without a
counterpart of its type spanning as many axes (any differing property, datum, mask element, bounds,
geometry type … of that construct, by `C05_discriminating_construct`).  Missing: the identity of the
axes (beyond their number) of a moved construct or cell method, and the coordinate set of a
coordinate reference (both go through the axis/key maps and are covered by the correspondence). -/

/-- **Discriminating** at field level. -/
theorem C05_discriminating_field_partial (o : Opts) (x y : Field) (hx : KeysNodup x.props)
    (hy : ∀ m ∈ y.cms, CMIntervalsWF m.2) (ht : o.ignoreType = false ∨ x.cls = y.cls) :
    (x.cls ≠ y.cls
     ∨ ¬ PropsEq o.close (ignoredNames o.ignoreFillValue (fieldIgnoreProps o.ignoreProps)) x.props y.props
     ∨ ¬ OptRel (DataEq o.close o.ignoreDataType o.ignoreFillValue o.ignoreCompression) x.data y.data
     ∨ ¬ (x.axes.map (·.2)).Perm (y.axes.map (·.2))
     ∨ x.cms.length ≠ y.cms.length
     ∨ (∃ i, ∃ (h0 : i < x.cms.length) (h1 : i < y.cms.length),
          (x.cms[i]).2.method ≠ (y.cms[i]).2.method ∨ (x.cms[i]).2.axes.length ≠ (y.cms[i]).2.axes.length
            ∨ dictEq (fun a b => a == b) (x.cms[i]).2.quals (y.cms[i]).2.quals = false)
     ∨ x.refs.length ≠ y.refs.length
     ∨ (∃ r ∈ x.refs, ∀ r' ∈ y.refs, coordRefCore o.close r.2 r'.2 = false)
     ∨ (∃ e ∈ x.cons, e.c.cls ∈ roles ∧ ∀ e' ∈ y.cons, e'.c.cls = e.c.cls → e'.axes.length = e.axes.length →
          constructCore o.inner e.c e'.c = false))
    → fieldEquals o x y = .ok false := by
  intro h
  obtain ⟨b, hb⟩ := fieldEquals_total o x y hy ht
  cases b with
  | false => exact hb
  | true =>
    exfalso
    obtain ⟨s1, s2, s3, s4, s5, s6, s7⟩ := C05_field_sound o x y hx hb
    rcases h with h | h | h | h | h | ⟨i, h0, h1, h⟩ | h | ⟨r, hr, h⟩ | ⟨e, he, hrole, h⟩
    · exact h s1
    · exact h s2
    · exact h s3
    · exact h s4
    · exact h s5.1
    · obtain ⟨a1, a2, a3⟩ := s5.2 i h0 h1
      rcases h with h | h | h
      · exact h a2
      · exact h a1
      · rw [a3] at h; exact absurd h (by simp)
    · exact h s6.1
    · obtain ⟨r', hr', hc⟩ := s6.2 r hr
      rw [h r' hr'] at hc; exact absurd hc (by simp)
    · obtain ⟨e', he', c1, c2, c3⟩ := s7 e he hrole
      rw [h e' he' c1 c2] at c3; exact absurd c3 (by simp)

/-- A 2×2 field with distinct coordinates on its two axes … -/
def exSquareData : Field :=
  { cls := clsField, props := [], data := some (mkData [2, 2] [1, 2, 3, 4]), dataAxes := [10, 11],
    axes := [(10, 2), (11, 2)],
    cons := [{ key := 20, axes := [10], c := mkCon clsDim 7 [2] [0, 1] },
             { key := 21, axes := [11], c := mkCon clsDim 8 [2] [5, 6] }],
    cms := [], refs := [] }

/-- … equals the field whose data span the axes the other way round (reproduced on cfdm: `True`). -/
theorem C05_field_data_axes_counterexample :
    fieldEquals exact exSquareData { exSquareData with dataAxes := [11, 10] } = .ok true := by decide

/-- Non-vacuity of `C05_discriminating_field_partial`: a changed coordinate value. -/
example : fieldEquals exact exSquareData
    { exSquareData with cons := [{ key := 20, axes := [10], c := mkCon clsDim 7 [2] [0, 9] },
                                 { key := 21, axes := [11], c := mkCon clsDim 8 [2] [5, 6] }] } = .ok false := by decide

/-! ## The leaf: `Container._equals` on two numpy arrays, as coded -/

section Leaf
open Cfdm.Equality.Leaf

/-- **The leaf comparison decides "same shape, same mask, all unmasked pairs within
tolerance"** — for all arrays (any shape, masked array or plain `ndarray` on either side, `nomask`
or a mask array, numbers with NaN / ±inf, strings, objects): the code — shape test, data-type test
with its exemption for strings, the comparison of the whole masks *before* any value is looked at,
`np.allclose` / `np.ma.allclose` as numpy codes them (the separate treatment of infinities
included) and the `x == y` fallback after their `TypeError` — answers `True` exactly when the
shapes are equal, the data types are compatible, and at every flat position the mask bits agree
and, where unmasked, the two values are close (numbers, both arrays numeric: the tolerance of the
call; anything else: identical; NaN is close to nothing, an infinity only to itself). -/
theorem C05_leaf_spec (close : Int → Int → Bool) (hc : CloseRefl close) (rp idt : Bool) (x y : LArr)
    (hx : x.WF) (hy : y.WF) :
    leafEquals close rp idt x y = true ↔
      x.shape = y.shape
      ∧ (idt = true ∨ x.dtype = y.dtype ∨ x.kind = Kind.str ∨ y.kind = Kind.str)
      ∧ ∀ i (h0 : i < x.vals.length) (h1 : i < y.vals.length),
          x.maskAt i = y.maskAt i
          ∧ (x.maskAt i = false → ValClose close (bothNumeric x y) x.vals[i] y.vals[i]) := by
  rw [leafEquals_iff close hc rp idt x y hx hy]
  unfold LeafEq
  constructor
  · rintro ⟨h1, h2, h3⟩
    exact ⟨h1, h2, (forall_cells_iff x y hx hy h1 _).mp h3⟩
  · rintro ⟨h1, h2, h3⟩
    exact ⟨h1, h2, (forall_cells_iff x y hx hy h1 _).mpr h3⟩

/-- `[1.5, --, inf]` (masked array) and `[1.5, --, inf]` with another value under the mask. -/
def exLeafX : LArr :=
  { shape := [3], dtype := 1, kind := Kind.numeric, isMA := true, mask := some [false, true, false],
    vals := [Val.num 3, Val.num 7, Val.pinf] }
def exLeafY : LArr := { exLeafX with vals := [Val.num 3, Val.nan, Val.pinf] }
/-- `['a', --, 'c']` and `['a', 'b', 'c']` (the pair of seeded change C05-5). -/
def exStrMasked : LArr :=
  { shape := [3], dtype := 2, kind := Kind.str, isMA := true, mask := some [false, true, false],
    vals := [Val.tok 1, Val.tok 2, Val.tok 3] }
def exStrPlain : LArr :=
  { shape := [3], dtype := 2, kind := Kind.str, isMA := false, mask := none, vals := [Val.tok 1, Val.tok 2, Val.tok 3] }

example : exLeafX.WF := ⟨by decide, by intro m hm; cases hm; decide, by simp [exLeafX], by decide⟩
example : leafEquals (tolClose 0 1 0 1 1) false false exLeafX exLeafY = true := by decide
example : leafEquals (tolClose 0 1 0 1 1) false false exStrMasked exStrPlain = false := by decide
example : leafEquals (tolClose 0 1 0 1 1) false false exStrPlain { exStrPlain with isMA := true } = true := by decide

/-- **Discrimination at the leaf**: one differing mask element, or one commonly unmasked pair
that is not close, makes the arrays unequal — whatever else they hold, for every option. -/
theorem C05_leaf_discriminating (close : Int → Int → Bool) (hc : CloseRefl close) (rp idt : Bool) (x y : LArr)
    (hx : x.WF) (hy : y.WF) :
    (x.shape ≠ y.shape
     ∨ (∃ i, i < x.vals.length ∧ i < y.vals.length ∧ x.maskAt i ≠ y.maskAt i)
     ∨ (∃ i, ∃ (h0 : i < x.vals.length) (h1 : i < y.vals.length), x.maskAt i = false ∧
          ¬ ValClose close (bothNumeric x y) x.vals[i] y.vals[i]))
    → leafEquals close rp idt x y = false := by
  intro h
  cases hv : leafEquals close rp idt x y with
  | false => rfl
  | true =>
    exfalso
    obtain ⟨p1, _, p3⟩ := (C05_leaf_spec close hc rp idt x y hx hy).mp hv
    rcases h with h | ⟨i, h0, h1, h⟩ | ⟨i, h0, h1, hm, h⟩
    · exact h p1
    · exact h (p3 i h0 h1).1
    · exact h ((p3 i h0 h1).2 hm)

/-- **What the mask hides is never looked at**: replacing the data under masked positions of one
operand (by anything: another number, NaN, an infinity) does not change the verdict. -/
theorem C05_leaf_hidden_values_irrelevant (close : Int → Int → Bool) (hc : CloseRefl close) (rp idt : Bool)
    (x x' y : LArr) (hx : x.WF) (hx' : x'.WF) (hy : y.WF)
    (hsh : x'.shape = x.shape) (hdt : x'.dtype = x.dtype) (hk : x'.kind = x.kind) (hma : x'.isMA = x.isMA)
    (hmask : x'.mask = x.mask)
    (hv : ∀ i (h : i < x.vals.length) (h' : i < x'.vals.length), x.maskAt i = false → x'.vals[i] = x.vals[i]) :
    leafEquals close rp idt x' y = leafEquals close rp idt x y := by
  have hlen : x'.vals.length = x.vals.length := by rw [hx.size, hx'.size, hsh]
  have hmk : ∀ i, x'.maskAt i = x.maskAt i := by
    intro i; simp only [LArr.maskAt, LArr.maskArr, hma, hmask, hlen]
  have hbn : bothNumeric x' y = bothNumeric x y := by simp only [bothNumeric, hk]
  apply Bool.eq_iff_iff.mpr
  rw [C05_leaf_spec close hc rp idt x' y hx' hy, C05_leaf_spec close hc rp idt x y hx hy, hsh, hdt, hk, hbn]
  constructor
  · rintro ⟨h1, h2, h3⟩
    refine ⟨h1, h2, fun i h0 h1' => ?_⟩
    have h0' : i < x'.vals.length := by rw [hlen]; exact h0
    obtain ⟨a, b⟩ := h3 i h0' h1'
    rw [hmk] at a b
    refine ⟨a, fun hm => ?_⟩
    have := b hm
    rwa [hv i h0 h0' hm] at this
  · rintro ⟨h1, h2, h3⟩
    refine ⟨h1, h2, fun i h0' h1' => ?_⟩
    have h0 : i < x.vals.length := by rw [← hlen]; exact h0'
    obtain ⟨a, b⟩ := h3 i h0 h1'
    rw [hmk]
    refine ⟨a, fun hm => ?_⟩
    rw [hv i h0 h0' hm]
    exact b hm

example : exLeafY.shape = exLeafX.shape ∧ exLeafY.mask = exLeafX.mask := ⟨rfl, rfl⟩

/-- **Reflexivity at the leaf** holds exactly for arrays without a visible NaN … -/
theorem C05_leaf_refl_iff_no_nan (close : Int → Int → Bool) (hc : CloseRefl close) (rp idt : Bool) (x : LArr) (hx : x.WF) :
    leafEquals close rp idt x x = true ↔ NoVisibleNaN x :=
  leafEquals_refl_iff close hc rp idt x hx

/-- … and the hypothesis cannot be dropped: `[nan, 1.0]` does not equal itself (numpy: `nan != nan`;
reproduced on cfdm: `Data([nan, 1.]).equals(Data([nan, 1.]))` is `False` — open finding
`nan-datum-never-equal-even-to-its-copy`), while a masked NaN is harmless. -/
theorem C05_leaf_nan_counterexample :
    leafEquals (tolClose 0 1 0 1 0) false false
      { shape := [2], dtype := 1, kind := Kind.numeric, isMA := false, mask := none, vals := [Val.nan, Val.num 1] }
      { shape := [2], dtype := 1, kind := Kind.numeric, isMA := false, mask := none, vals := [Val.nan, Val.num 1] } = false
    ∧ leafEquals (tolClose 0 1 0 1 0) false false
      { shape := [2], dtype := 1, kind := Kind.numeric, isMA := true, mask := some [true, false], vals := [Val.nan, Val.num 1] }
      { shape := [2], dtype := 1, kind := Kind.numeric, isMA := true, mask := some [true, false], vals := [Val.nan, Val.num 1] } = true := by
  constructor <;> decide

/-- **Symmetry at the leaf** whenever the closeness test is (no relative tolerance). -/
theorem C05_leaf_symm (close : Int → Int → Bool) (hc : CloseRefl close) (hs : CloseSymm close) (rp idt : Bool)
    (x y : LArr) (hx : x.WF) (hy : y.WF) : leafEquals close rp idt x y = leafEquals close rp idt y x :=
  leafEquals_symm close hc hs rp idt x y hx hy

/-- The array comparison inside the construct / field model (`arrEquals`, masked = `none`) *is*
the leaf algorithm run on masked arrays of finite values. -/
theorem C05_arr_is_leaf (close : Int → Int → Bool) (hc : CloseRefl close) (rp idt : Bool) (x y : Arr)
    (hx : x.vals.length = listProd x.shape) (hy : y.vals.length = listProd y.shape) (hk : x.isStr = y.isStr) :
    arrEquals close idt x y = leafEquals close rp idt (embed x) (embed y) :=
  arrEquals_eq_leaf close hc rp idt x y hx hy hk

example : arrEquals (tolClose 0 1 0 1 0) false (mkArr 1 [2] [4, 5]) (mkArr 1 [2] [4, 5]) = true := by decide

/-- **`Data.equals` with its options** on top of the leaf (uncompressed data): equal shapes, equal
fill values unless `ignore_fill_value`, *equal* data types unless `ignore_data_type` (no exemption
for strings at this level), equal units and calendar strings, and the leaf relation on `.array`;
symmetric when the closeness test is; reflexive when neither the array shows nor the fill value is
a NaN. -/
theorem C05_data_leaf_spec (close : Int → Int → Bool) (hc : CloseRefl close) (rp idt ifv : Bool) (x y : LData)
    (hx : x.arr.WF) (hy : y.arr.WF) :
    (dataLeafEquals close rp idt ifv x y = true ↔ LDataEq close idt ifv x y)
    ∧ (CloseSymm close → dataLeafEquals close rp idt ifv x y = dataLeafEquals close rp idt ifv y x)
    ∧ (NoVisibleNaN x.arr → x.fill ≠ some Val.nan → dataLeafEquals close rp idt ifv x x = true) :=
  ⟨dataLeafEquals_iff close hc rp idt ifv x y hx hy,
   fun hs => dataLeafEquals_symm close hc hs rp idt ifv x y hx hy,
   fun hn hf => dataLeafEquals_refl close hc rp idt ifv x hx hn hf⟩

/-- `['a','b']` as `<U1` and as `<U5`: equal for the leaf (property values), unequal as `Data`
unless `ignore_data_type`. -/
example :
    let a : LArr := { shape := [2], dtype := 5, kind := Kind.str, isMA := false, mask := none, vals := [Val.tok 1, Val.tok 2] }
    let b : LArr := { a with dtype := 6 }
    leafEquals (tolClose 0 1 0 1 0) false false a b = true
    ∧ dataLeafEquals (tolClose 0 1 0 1 0) false false false ⟨a, none, none, none⟩ ⟨b, none, none, none⟩ = false
    ∧ dataLeafEquals (tolClose 0 1 0 1 0) false true false ⟨a, none, none, none⟩ ⟨b, none, none, none⟩ = true := by
  decide

end Leaf

/-! ## Symmetry and reflexivity of the other classes -/

/-- **Symmetry** of `Data.equals`, `Bounds.equals` / `InteriorRing.equals` (`PropertiesData`),
`CellMethod.equals`, `CoordinateReference.equals`, `Datum.equals` / `CoordinateConversion.equals`
(parameters) and `DomainAxis.equals`, whenever the closeness test is symmetric — for every option set. -/
theorem C05_symm_others (o : Opts) (hc : CloseSymm o.close) :
    (∀ x y : Data, dataObjEquals o x y = dataObjEquals o y x)
    ∧ (∀ x y : Sub, SubWF x → SubWF y → subObjEquals o x y = subObjEquals o y x)
    ∧ (∀ x y : CellMethod, CellMethodWF x → CellMethodWF y → cellMethodEquals o x y = cellMethodEquals o y x)
    ∧ (∀ x y : CoordRef, CoordRefWF x → CoordRefWF y → coordRefEquals o x y = coordRefEquals o y x)
    ∧ (∀ p q : Params, KeysNodup p → KeysNodup q → paramsEquals o.close p q = paramsEquals o.close q p)
    ∧ (∀ x y : Option Nat, domainAxisEquals x y = domainAxisEquals y x) := by
  refine ⟨fun x y => ?_, fun x y hx hy => subObjEquals_symm o hc x y hx hy, fun x y hx hy => ?_, fun x y hx hy => ?_,
    fun p q hp hq => paramsEquals_symm hc p q hp hq, domainAxisEquals_symm⟩
  · simp only [dataObjEquals, dataEquals_symm hc]
  · simp only [cellMethodEquals, cellMethodCore_symm hc x y hx hy]
  · simp only [coordRefEquals, coordRefCore_symm hc x y hx hy]

/-- **Reflexivity** of the component classes not covered by `C05_refl_others`. -/
theorem C05_refl_components (o : Opts) (hc : CloseRefl o.close) :
    (∀ s : Sub, SubWF s → subObjEquals o s s = .ok true)
    ∧ (∀ p : Params, KeysNodup p → paramsEquals o.close p p = true) :=
  ⟨fun s hs => subObjEquals_refl o hc s hs, fun p hp => paramsEquals_refl hc p hp⟩

example : SubWF { props := [(3, mkArr 0 [] [1])], data := some (mkData [2] [1, 2]) } := by
  simp [SubWF, KeysNodup]
example : subObjEquals exact { props := [(3, mkArr 0 [] [1])], data := some (mkData [2] [1, 2]) }
    { props := [(3, mkArr 0 [] [1])], data := some (mkData [2] [1, 2]) } = .ok true := by decide

/-- **The component classes decide their specification**: `Bounds`, `InteriorRing`, `Count`, `Index`,
`List` (`PropertiesData.equals`) and `NodeCountProperties`, `PartNodeCountProperties`
(`Properties.equals`: no data on either side) are equal exactly when every property that is not
ignored agrees and the data agree. -/
theorem C05_component_spec (o : Opts) (x y : Sub) (hx : SubWF x) :
    subObjEquals o x y = .ok true ↔ SubObjEq o x y := by
  simp only [subObjEquals, Except.ok.injEq]
  exact subObjCore_iff o x y hx

/-! ## `CellMethod.equals(..., ignore_qualifiers=…)` -/

/-- **`ignore_qualifiers` is exact**: without names it is the plain comparison; a cell method
and its variant that differs only in the value of qualifier `q` are equal exactly when `q` is
named; a variant that differs only in its intervals is equal exactly when `'interval'` is named. -/
theorem C05_ignore_qualifiers_exact (close : Int → Int → Bool) (hc : CloseRefl close) (x : CellMethod)
    (hx : CellMethodWF x) (iq : List Nat) (ii : Bool) :
    (∀ y, cellMethodCoreIQ close [] false x y = cellMethodCore close x y)
    ∧ (∀ q v w, x.quals.lookup q = some v → w ≠ v →
        cellMethodCoreIQ close iq ii x { x with quals := x.quals.map (fun kv => if kv.1 == q then (kv.1, w) else kv) }
          = decide (q ∈ iq))
    ∧ (∀ ivs, ¬ (x.intervals.length = ivs.length ∧
          ∀ i (h0 : i < x.intervals.length) (h1 : i < ivs.length), DataEq close true true true x.intervals[i] ivs[i]) →
        cellMethodCoreIQ close iq ii x { x with intervals := ivs } = ii) :=
  ⟨fun y => cellMethodCoreIQ_nil close x y,
   fun q v w hv hne => cellMethodCoreIQ_qualifier_only hc iq ii x hx q v w hv hne,
   fun ivs hne => cellMethodCoreIQ_intervals_only hc iq ii x hx ivs hne⟩

/-- `mean where land (interval: 3)` against `mean where sea`, `where` (60) ignored or not. -/
example :
    let m : CellMethod := { axes := [10], method := some 40, quals := [(60, 70)], intervals := [mkData [] [3]] }
    let m' : CellMethod := { m with quals := [(60, 71)] }
    cellMethodCoreIQ exact.close [60] false m m' = true ∧ cellMethodCoreIQ exact.close [] false m m' = false
    ∧ cellMethodCoreIQ exact.close [] true m { m with intervals := [] } = true
    ∧ cellMethodCoreIQ exact.close [60] false m { m with intervals := [] } = false := by decide

/-! ## Domain topology and cell connectivity: the type tag -/

/-- A face-node domain topology of two triangles … -/
def exTopology (cell : Nat) : Construct :=
  { cls := clsTopology, props := [], data := some (mkData [2, 3] [0, 1, 2, 1, 2, 3]), external := false, ncvar := none,
    geometry := none, bounds := none, interiorRing := none, measure := some cell }

/-- … with `cell` `face` (50) against `edge` (51): the code as it is answers `True` (reproduced on
cfdm with `example_field(8)`; open finding `domain-topology-cell-or-connectivity-type-not-compared`),
the code after `fixes/C05-topology-cell-type-compared.patch` answers `False`. -/
theorem C05_topology_cell_counterexample :
    constructCoreUntagged exact (exTopology 50) (exTopology 51) = true
    ∧ constructEquals exact (exTopology 50) (exTopology 51) = .ok false
    ∧ constructEquals exact (exTopology 50) (exTopology 50) = .ok true := by
  refine ⟨by decide, by decide, by decide⟩

/-! ## The unrepaired code -/

/-- A coordinate with bounds. -/
def oldBounded : Construct :=
  { mkCon clsAux 7 [2] [0, 1] with bounds := some { props := [], data := some (mkData [2, 2] [0, 1, 1, 2]) } }

/-- Two axes of size 2 with distinct coordinates and a 2-d auxiliary coordinate on (10, 11) … -/
def oldSquare : Field :=
  { cls := clsField, props := [], data := none, dataAxes := [], axes := [(10, 2), (11, 2)],
    cons := [{ key := 20, axes := [10], c := mkCon clsDim 7 [2] [0, 1] },
             { key := 21, axes := [11], c := mkCon clsDim 8 [2] [5, 6] },
             { key := 22, axes := [10, 11], c := mkCon clsAux 9 [2, 2] [1, 2, 3, 4] }],
    cms := [], refs := [] }
/-- … and the same with that construct on (11, 10). -/
def oldSquareT : Field :=
  { oldSquare with cons := [{ key := 20, axes := [10], c := mkCon clsDim 7 [2] [0, 1] },
             { key := 21, axes := [11], c := mkCon clsDim 8 [2] [5, 6] },
             { key := 22, axes := [11, 10], c := mkCon clsAux 9 [2, 2] [1, 2, 3, 4] }] }

/-- One axis with an auxiliary and a dimension coordinate … -/
def oldExtra : Field :=
  { cls := clsField, props := [], data := none, dataAxes := [], axes := [(10, 2)],
    cons := [{ key := 20, axes := [10], c := mkCon clsAux 7 [2] [0, 1] },
             { key := 21, axes := [10], c := mkCon clsDim 8 [2] [0, 1] }],
    cms := [], refs := [] }
/-- … and the same without the dimension coordinate. -/
def oldPlain : Field :=
  { oldExtra with cons := [{ key := 20, axes := [10], c := mkCon clsAux 7 [2] [0, 1] }] }

/-- **What the code does today** (each repaired by one of `fixes/C05-*.patch`):
1. `ignore_fill_value=True` with `ignore_properties` `None` or a `str`: `TypeError`
   (also reached through the bounds, whose `ignore_properties` is always `None`);
2. fields with different numbers of cell methods: `TypeError` (`logger(` is not callable);
3. an inconsistent axis mapping (a 2-d construct spanning (x, y) against (y, x)): `ValueError`
   from the log message, where the repaired code answers `False`;
4. a construct of a type that `other` has none of: the candidate-axes loop `break`s and then
   tests `not constructs1`, which is `True` when the other types were popped before — so the
   extra construct goes unnoticed, depending on the iteration order of a `set` of strings;
5. `ignore_type=True` across classes: `PropertiesDataBounds.equals` keeps using the
   unconverted `other` (`AttributeError`). -/
theorem C05_old_code_counterexamples :
    ignoredNamesOld true .absent = .error .typeError
    ∧ ignoredNamesOld true (.str (some 5)) = .error .typeError
    ∧ ignoredNames true (.str (some 5)) = [5, nmFillValue, nmMissingValue]
    ∧ constructEqualsOld { exact with ignoreFillValue := true, ignoreProps := .tuple [5] } oldBounded oldBounded
        = .error .typeError
    ∧ constructEquals { exact with ignoreFillValue := true, ignoreProps := .tuple [5] } oldBounded oldBounded = .ok true
    ∧ cellMethodsEqualOld exact.close [] [] [{ axes := [10], method := some 1, quals := [], intervals := [] }] []
        = .error .typeError
    ∧ cellMethodsEqual exact.close [] [] [{ axes := [10], method := some 1, quals := [], intervals := [] }] []
        = .ok false
    ∧ constructsEqualsOld exact roles [clsAux] oldSquare oldSquareT = .error .valueError
    ∧ constructsEquals exact oldSquare oldSquareT = .ok false
    ∧ constructsEqualsOld exact roles.reverse [clsAux] oldExtra oldPlain = .ok true
    ∧ constructsEqualsOld exact roles [clsAux] oldExtra oldPlain = .ok false
    ∧ constructsEquals exact oldExtra oldPlain = .ok false
    ∧ constructEqualsOld { exact with ignoreType := true } (mkCon clsAux 7 [2] [0, 1]) (mkCon clsFieldAnc 7 [2] [0, 1])
        = .error .attributeError
    ∧ constructEquals { exact with ignoreType := true } (mkCon clsAux 7 [2] [0, 1]) (mkCon clsFieldAnc 7 [2] [0, 1])
        = .ok true := by
  refine ⟨by decide, by decide, by decide, by decide, by decide, by decide, by decide, by decide, by decide,
    by decide, by decide, by decide, by decide, by decide⟩

end Cfdm.Props.C05
