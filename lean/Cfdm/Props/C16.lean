import Cfdm.Lemmas.Subsample
import Cfdm.Lemmas.SubsampleGen
import Cfdm.Lemmas.SubsampleIx
import Cfdm.Lemmas.SubsampleParam
import Cfdm.Lemmas.SubsampleRead
import Cfdm.Lemmas.SubsampleGeo
/-
C16 — subsampled coordinates are reconstituted by the stated interpolation.
Property theorems only.

Models (core Lean, mirroring the code as it performs it):
* `Cfdm/Model/Subsample.lean`      the subarea loop, `_s`, `_trim`, `_broadcast_bounds`, block assignment,
                                   linear / bi_linear / quadratic formulas;
* `Cfdm/Model/SubsampleIx.lean`    `__getitem__`: first/last element shortcut + orthogonal subspace;
* `Cfdm/Model/SubsampleParam.lean` `_conformed_parameters`, `_conformed_dependent_tie_points`, `_select_parameter`;
* `Cfdm/Model/SubsampleRead.lean`  the netCDF reader's bookkeeping;
* `Cfdm/Model/SubsampleGeo.lean`   quadratic_latitude_longitude, bi_quadratic_latitude_longitude over uninterpreted
                                   trigonometric primitives (`Geo`).
Specification: `Cfdm/Spec/AppendixJ.lean` (CF 8.3 / Appendix J, no loop, no `first` flag).
Arithmetic is exact (`Rat`); floats are not modelled.

Hypotheses used below
* `t.Pairwise (· < ·)`      the tie point index vector is strictly increasing;
* `wfAreas true t = true`    … and every continuous area has at least two tie points
                             (adjacent indices differing by one = area boundary);
* `∀ x ∈ t, x < n`           every tie point index addresses the target dimension;
* `RoundTrip G latitude tp`  (latitude/longitude methods) the tie points survive the conversion to a unit
                             vector and back — a hypothesis on `Geo`, not an axiom.

Where /repo HEAD differs from the model a patch is proposed (fixes/C16-*.patch, open entries of
known_findings.json) and the behaviour of HEAD is kept as a `…Old` definition / `bcast = false` with a
`decide` witness: `C16_parameter_broadcast_counterexample`, `C16_old_qll_noncartesian_counterexample`,
`C16_old_dependent_dimensions_counterexample`, `C16_old_flags_not_conformed_counterexample` (the
fifth open finding, float32 tie points, is outside an exact-arithmetic model); repaired earlier: `C16_old_last_shortcut_counterexample`,
`C16_old_getitem_2d_bounds_counterexample`, `C16_old_conform_counterexample`.
-/
namespace Cfdm.Props.C16
open Cfdm.Subsample Cfdm.Spec.AppendixJ Cfdm.PySlice Cfdm.Arr

/-- A 1-d method reproduces its end values at `s = 0` and `s = 1`. -/
def Endpoints (F : Method) : Prop := (∀ j a b, F j a b 0 = a) ∧ (∀ j a b, F j a b 1 = b)

theorem linearM_endpoints : Endpoints linearM := by
  constructor <;> intro j a b <;> simp [linearM, linear]

theorem quadraticM_endpoints (w : Option (List Rat)) : Endpoints (quadraticM w) := by
  constructor <;> intro j a b <;> cases w <;> simp [quadraticM, quadraticOpt, quadratic, linear]

/-! ### the integer bookkeeping -/

/-- **Partition.**  For every well-formed tie point index vector that starts at 0
and ends at `n - 1`, the `u_indices` slices of the subareas, in loop order,
enumerate `0, 1, …, n - 1`: each target position is written exactly once, no
overlap, no hole (whatever the number and sizes of areas and subareas). -/
theorem C16_partition (t : List Nat) (n : Nat) (h : wfAreas true t = true)
    (h0 : t.head? = some 0) (hl : t.getLast? = some (n - 1)) (hn : 0 < n) :
    covered (subs t) = List.range n := by
  have := (covered_subsGo t 0 true 0 0 (n - 1) h h0 hl).2
  rw [subs, this, List.range_eq_range']
  simp only [lowVertex, if_true]
  congr 1
  omega

example : wfAreas true [0, 4, 7, 8, 11] = true := by decide
example : covered (subs [0, 4, 7, 8, 11]) = List.range 12 := by decide
example : (subs [0, 4, 7, 8, 11]).map (fun s => (s.uStart, s.uStop, s.tp, s.first, s.loc)) =
    [(0, 5, 0, true, 0), (5, 8, 1, false, 1), (8, 12, 3, true, 2)] := by decide
/-- not well-formed: the area {4} has a single tie point; not strictly increasing -/
example : wfAreas true [0, 3, 4, 5, 8] = false := by decide
example : wfAreas true [0, 3, 3, 6] = false := by decide

/-- **Shape.**  The reconstituted array has the target shape, for any index
vectors, tie points and method (coordinates and bounds, one and two subsampled
dimensions). -/
theorem C16_shape (F : Method) (n n0 n1 : Nat) (t t0 t1 : List Nat) (tp : List Rat)
    (tp2 : List (List Rat)) :
    (recon1 F n t tp).length = n ∧ (recon1b F n t tp).length = n ∧
    ((recon2 n0 n1 t0 t1 tp2).length = n0 ∧ ∀ row ∈ recon2 n0 n1 t0 t1 tp2, row.length = n1) ∧
    ((recon2b n0 n1 t0 t1 tp2).length = n0 ∧ ∀ row ∈ recon2b n0 n1 t0 t1 tp2, row.length = n1) := by
  refine ⟨?_, ?_, ?_, ?_⟩
  · simp [recon1, assemble1_length]
  · simp [recon1b, assemble1b_length]
  · exact foldl_writeBlock2_shape n0 n1 (subs t0) (subs t1) (·.uStart) (·.uStart) (block2 tp2) _
      (by simp) (by intro row hrow; simp only [List.mem_replicate] at hrow; simp [hrow.2])
  · exact foldl_writeBlock2_shape n0 n1 (subs t0) (subs t1) (·.uStart) (·.uStart) (block2b tp2) _
      (by simp) (by intro row hrow; simp only [List.mem_replicate] at hrow; simp [hrow.2])

example : (recon1 linearM 12 [0, 4, 7, 8, 11] [15, 135, 225, 255, 345]).length = 12 := by decide +kernel

/-! ### reconstitution = CF Appendix J -/

/-- **Reconstitution, coordinates, one subsampled dimension.**  For every strictly
increasing tie point index vector, every pair of tie points `k`, `k + 1` that is
not an area boundary (`a + 2 ≤ b`), and every target index `p` with `a ≤ p ≤ b`,
the element of the assembled array is the method's value at the Appendix J
interpolation variable `s(a, b, p) = (p - a) / (b - a)`, with the parameters of
that interpolation subarea (`subareaIndex`).  The code's `first` flag, the trimming
of the first point of non-first subareas and the order of assignments do not
appear in the statement. -/
theorem C16_reconstitution (F : Method) (hF : Endpoints F) (t : List Nat) (n : Nat) (tp : List Rat)
    (hinc : t.Pairwise (· < ·)) (hn : ∀ x ∈ t, x < n)
    (k a b : Nat) (ha : t[k]? = some a) (hb : t[k + 1]? = some b) (hgap : a + 2 ≤ b)
    (p : Nat) (hap : a ≤ p) (hpb : p ≤ b) :
    (recon1 F n t tp)[p]? =
      some (some (F (subareaIndex t k) (tp.getD k 0) (tp.getD (k + 1) 0) (sParam a b p))) := by
  have := (assemble1_get F hF.1 hF.2 tp t 0 true 0 (List.replicate n none) hinc
    (by simpa using hn)).2 k a b ha hb hgap p hap hpb (fun _ _ => rfl)
  rw [recon1, subs, this]
  simp only [Nat.zero_add, sParam]
  rw [Nat.cast_sub hap, Nat.cast_sub (by omega : a ≤ b)]

example : ([0, 4, 7, 8, 11] : List Nat).Pairwise (· < ·) := by decide
example : (recon1 linearM 12 [0, 4, 7, 8, 11] [15, 135, 225, 255, 345])[5]? = some (some 165) := by
  decide +kernel

/-- **`linear` is the stated formula**: the code's `ua + s (ub - ua)` is the point
dividing `ua → ub` in the ratio `s : 1 - s`. -/
theorem C16_linear_formula (ua ub s : Rat) : linear ua ub s = fl ua ub s := by
  simp only [linear, fl]; ring

/-- Linear reconstitution in Appendix J's own terms. -/
theorem C16_linear (t : List Nat) (n : Nat) (tp : List Rat)
    (hinc : t.Pairwise (· < ·)) (hn : ∀ x ∈ t, x < n)
    (k a b : Nat) (ha : t[k]? = some a) (hb : t[k + 1]? = some b) (hgap : a + 2 ≤ b)
    (p : Nat) (hap : a ≤ p) (hpb : p ≤ b) :
    (recon1 linearM n t tp)[p]? = some (some (fl (tp.getD k 0) (tp.getD (k + 1) 0) (sParam a b p))) := by
  rw [C16_reconstitution linearM linearM_endpoints t n tp hinc hn k a b ha hb hgap p hap hpb]
  simp only [linearM, C16_linear_formula]

/-- **`bi_linear` is the tensor product** of two linear interpolations (so the order
in which the code interpolates the two dimensions is immaterial). -/
theorem C16_bilinear_formula (ua ub uc ud s2 s1 : Rat) :
    bilinear ua ub uc ud s2 s1 = fbl ua ub uc ud s2 s1 ∧
    bilinear ua ub uc ud s2 s1 = linear (linear ua ub s1) (linear uc ud s1) s2 := by
  simp only [bilinear, linear, fbl]
  constructor <;> ring

/-- **`quadratic` with its coefficient**: the code's formula is the parabola through the
two tie points deviating from the chord by `4 w s (1 - s)`; at the subarea's midpoint the
deviation is `w`; `_fw` recovers `w` from any interior point; without `w` the method is
`linear` (`w = 0`). -/
theorem C16_quadratic_formula (ua ub w s : Rat) :
    quadratic ua ub w s = fq ua ub w s ∧
    quadratic ua ub w (1 / 2) = (ua + ub) / 2 + w ∧
    (s ≠ 0 → s ≠ 1 → fw ua ub (quadratic ua ub w s) s = w) ∧
    quadraticOpt none ua ub s = fq ua ub 0 s := by
  refine ⟨?_, ?_, ?_, ?_⟩
  · simp only [quadratic, fq]; ring
  · simp only [quadratic]; ring
  · intro h0 h1
    have h1' : 1 - s ≠ 0 := fun h => h1 (by linarith)
    simp only [fw, quadratic]
    field_simp
    ring
  · simp only [quadraticOpt, linear, fq]; ring

/-- Quadratic reconstitution in Appendix J's terms, the coefficient taken from the
subarea's position along the interpolation subarea dimension. -/
theorem C16_quadratic (w : List Rat) (t : List Nat) (n : Nat) (tp : List Rat)
    (hinc : t.Pairwise (· < ·)) (hn : ∀ x ∈ t, x < n)
    (k a b : Nat) (ha : t[k]? = some a) (hb : t[k + 1]? = some b) (hgap : a + 2 ≤ b)
    (p : Nat) (hap : a ≤ p) (hpb : p ≤ b) :
    (recon1 (quadraticM (some w)) n t tp)[p]? =
      some (some (fq (tp.getD k 0) (tp.getD (k + 1) 0) (w.getD (subareaIndex t k) 0) (sParam a b p))) := by
  rw [C16_reconstitution _ (quadraticM_endpoints _) t n tp hinc hn k a b ha hb hgap p hap hpb]
  simp only [quadraticM, quadraticOpt, Option.map_some, (C16_quadratic_formula _ _ _ _).1]

example : subareaIndex [0, 4, 7, 8, 11] 3 = 2 := by decide
example : (recon1 (quadraticM (some [5, 10, 5])) 12 [0, 4, 7, 8, 11] [15, 135, 225, 255, 345])[1]? =
    some (some (195 / 4)) := by decide +kernel

/-- **Every tie point is reproduced exactly at its tie point index** (well-formed
vectors; any method with the end-point property). -/
theorem C16_tie_exact (F : Method) (hF : Endpoints F) (t : List Nat) (n : Nat) (tp : List Rat)
    (hwf : wfAreas true t = true) (hn : ∀ x ∈ t, x < n) (k a : Nat) (ha : t[k]? = some a) :
    (recon1 F n t tp)[a]? = some (some (tp.getD k 0)) := by
  have hinc := wfAreas_pairwise t true hwf
  rcases wfAreas_pair t true hwf k a ha with ⟨_, hf⟩ | ⟨b, hb, hab⟩ | ⟨k', a', hk, ha', haa⟩
  · simp at hf
  · rw [C16_reconstitution F hF t n tp hinc hn k a b ha hb hab a (Nat.le_refl _) (by omega)]
    simp [sParam, hF.1]
  · subst hk
    rw [C16_reconstitution F hF t n tp hinc hn k' a' a ha' ha haa a (by omega) (Nat.le_refl _)]
    have : sParam a' a a = 1 := by
      have h : ((a : Rat) - (a' : Rat)) ≠ 0 := by
        have : (a' : Rat) < (a : Rat) := by exact_mod_cast (by omega : a' < a)
        linarith
      simp only [sParam]
      field_simp
    rw [this, hF.2]

example : (recon1 linearM 12 [0, 4, 7, 8, 11] [15, 135, 225, 255, 345])[7]? = some (some 225) := by
  decide +kernel

/-- Without the hypothesis on the areas the statement fails in the model exactly as in
cfdm: the single tie point of the area {4} is left masked. -/
theorem C16_single_tie_point_area_not_reproduced :
    (recon1 linearM 9 [0, 3, 4, 5, 8] [0, 30, 40, 50, 80])[4]? = some none := by decide +kernel

/-- **Adjacent subareas agree at a shared tie point**: the element at the shared index
`b` is both the left subarea's value at `s = 1` and the right subarea's value at
`s = 0` (and the tie point itself), so trimming the first point of the right
subarea loses nothing. -/
theorem C16_shared_agree (F : Method) (hF : Endpoints F) (t : List Nat) (n : Nat) (tp : List Rat)
    (hinc : t.Pairwise (· < ·)) (hn : ∀ x ∈ t, x < n)
    (k a b c : Nat) (ha : t[k]? = some a) (hb : t[k + 1]? = some b) (hc : t[k + 2]? = some c)
    (hab : a + 2 ≤ b) (hbc : b + 2 ≤ c) :
    (recon1 F n t tp)[b]? =
        some (some (F (subareaIndex t k) (tp.getD k 0) (tp.getD (k + 1) 0) (sParam a b b))) ∧
    (recon1 F n t tp)[b]? =
        some (some (F (subareaIndex t (k + 1)) (tp.getD (k + 1) 0) (tp.getD (k + 2) 0) (sParam b c b))) ∧
    (recon1 F n t tp)[b]? = some (some (tp.getD (k + 1) 0)) := by
  have h1 := C16_reconstitution F hF t n tp hinc hn k a b ha hb hab b (by omega) (Nat.le_refl _)
  have h2 := C16_reconstitution F hF t n tp hinc hn (k + 1) b c hb hc hbc b (Nat.le_refl _) (by omega)
  refine ⟨h1, h2, ?_⟩
  rw [h2]
  simp [sParam, hF.1]

example : ([0, 4, 7, 8, 11] : List Nat)[0 + 2]? = some 7 := by decide

/-- **Reconstitution, two subsampled dimensions (`bi_linear`).**  For strictly increasing
index vectors along both dimensions, tie point pairs `k0` (indices `a0`, `b0`) and `k1`
(`a1`, `b1`) that are not area boundaries, and every target position `(p0, p1)` in
`[a0, b0] × [a1, b1]`, the assembled array holds the tensor-product interpolation of the
four surrounding tie points at `(s(a0, b0, p0), s(a1, b1, p1))` — whatever the code's
product order of subareas, `first` flags and trimming in either dimension. -/
theorem C16_bilinear_reconstitution (t0 t1 : List Nat) (n0 n1 : Nat) (tp : List (List Rat))
    (hinc0 : t0.Pairwise (· < ·)) (hinc1 : t1.Pairwise (· < ·))
    (hn0 : ∀ x ∈ t0, x < n0) (hn1 : ∀ x ∈ t1, x < n1)
    (k0 a0 b0 : Nat) (ha0 : t0[k0]? = some a0) (hb0 : t0[k0 + 1]? = some b0) (hg0 : a0 + 2 ≤ b0)
    (k1 a1 b1 : Nat) (ha1 : t1[k1]? = some a1) (hb1 : t1[k1 + 1]? = some b1) (hg1 : a1 + 2 ≤ b1)
    (p0 : Nat) (h0 : a0 ≤ p0) (h0' : p0 ≤ b0) (p1 : Nat) (h1 : a1 ≤ p1) (h1' : p1 ≤ b1) :
    ∃ row, (recon2 n0 n1 t0 t1 tp)[p0]? = some row ∧
      row[p1]? = some (some (fbl (get2 tp k0 k1) (get2 tp k0 (k1 + 1)) (get2 tp (k0 + 1) k1)
        (get2 tp (k0 + 1) (k1 + 1)) (sParam a0 b0 p0) (sParam a1 b1 p1))) := by
  have hk1 : k1 + 1 < t1.length := by
    rcases Nat.lt_or_ge (k1 + 1) t1.length with h | h
    · exact h
    · rw [List.getElem?_eq_none h] at hb1; cases hb1
  have hss : ∀ s1 ∈ subs t1, s1.tp + 1 < t1.length := by
    intro s1 hs1
    have := subsGo_tp_lt t1 0 true 0 s1 hs1
    omega
  have hrow := (outer_get tp t1.length (subs t1) hss (List.replicate n1 none) t0 0 true 0
    (List.replicate n0 (List.replicate n1 none)) hinc0 (by simpa using hn0)
    (by
      intro p a _ _ hp
      simp only [List.length_replicate] at hp
      simp [List.getElem?_replicate, hp])).2 k0 a0 b0 ha0 hb0 hg0 p0 h0 h0' (fun _ _ => rfl)
  refine ⟨_, hrow, ?_⟩
  have := C16_reconstitution linearM linearM_endpoints t1 n1
    (tpRowL tp (0 + k0) (((p0 - a0 : Nat) : Rat) / ((b0 - a0 : Nat) : Rat)) t1.length)
    hinc1 hn1 k1 a1 b1 ha1 hb1 hg1 p1 h1 h1'
  rw [recon1] at this
  rw [this]
  simp only [linearM, Nat.zero_add]
  rw [tpRowL_getD _ _ _ _ _ (by omega), tpRowL_getD _ _ _ _ _ hk1]
  have e : (((p0 - a0 : Nat) : Rat) / ((b0 - a0 : Nat) : Rat)) = sParam a0 b0 p0 := by
    simp only [sParam]
    rw [Nat.cast_sub h0, Nat.cast_sub (by omega : a0 ≤ b0)]
  rw [e, ← (C16_bilinear_formula _ _ _ _ _ _).1]
  rfl

example : ((recon2 6 7 [0, 2, 3, 5] [0, 3, 6] [[0, 1, 2], [3, 4, 5], [6, 7, 8], [9, 10, 11]])[1]?.bind (·[4]?)) =
    some (some (17 / 6)) := by decide +kernel

/-- Appendix J's interpolation variable is 0 at the first and 1 at the second tie point. -/
theorem sParam_ends (a b : Nat) (h : a < b) : sParam a b a = 0 ∧ sParam a b b = 1 := by
  have hne : ((b : Rat) - (a : Rat)) ≠ 0 := by
    have : (a : Rat) < (b : Rat) := by exact_mod_cast h
    linarith
  constructor
  · simp [sParam]
  · simp only [sParam]; field_simp

/-- **The four tie points of a 2-d interpolation subarea are reproduced exactly** at the
corners of the subarea. -/
theorem C16_bilinear_corners (t0 t1 : List Nat) (n0 n1 : Nat) (tp : List (List Rat))
    (hinc0 : t0.Pairwise (· < ·)) (hinc1 : t1.Pairwise (· < ·))
    (hn0 : ∀ x ∈ t0, x < n0) (hn1 : ∀ x ∈ t1, x < n1)
    (k0 a0 b0 : Nat) (ha0 : t0[k0]? = some a0) (hb0 : t0[k0 + 1]? = some b0) (hg0 : a0 + 2 ≤ b0)
    (k1 a1 b1 : Nat) (ha1 : t1[k1]? = some a1) (hb1 : t1[k1 + 1]? = some b1) (hg1 : a1 + 2 ≤ b1) :
    ((recon2 n0 n1 t0 t1 tp)[a0]?.bind (·[a1]?)) = some (some (get2 tp k0 k1)) ∧
    ((recon2 n0 n1 t0 t1 tp)[a0]?.bind (·[b1]?)) = some (some (get2 tp k0 (k1 + 1))) ∧
    ((recon2 n0 n1 t0 t1 tp)[b0]?.bind (·[a1]?)) = some (some (get2 tp (k0 + 1) k1)) ∧
    ((recon2 n0 n1 t0 t1 tp)[b0]?.bind (·[b1]?)) = some (some (get2 tp (k0 + 1) (k1 + 1))) := by
  have e0 := sParam_ends a0 b0 (by omega)
  have e1 := sParam_ends a1 b1 (by omega)
  have key := fun p0 h0 h0' p1 h1 h1' => C16_bilinear_reconstitution t0 t1 n0 n1 tp hinc0 hinc1 hn0 hn1
    k0 a0 b0 ha0 hb0 hg0 k1 a1 b1 ha1 hb1 hg1 p0 h0 h0' p1 h1 h1'
  refine ⟨?_, ?_, ?_, ?_⟩
  · obtain ⟨row, hr, hv⟩ := key a0 (Nat.le_refl _) (by omega) a1 (Nat.le_refl _) (by omega)
    rw [hr, Option.bind_some, hv, e0.1, e1.1]; simp [fbl]
  · obtain ⟨row, hr, hv⟩ := key a0 (Nat.le_refl _) (by omega) b1 (by omega) (Nat.le_refl _)
    rw [hr, Option.bind_some, hv, e0.1, e1.2]; simp [fbl]
  · obtain ⟨row, hr, hv⟩ := key b0 (by omega) (Nat.le_refl _) a1 (Nat.le_refl _) (by omega)
    rw [hr, Option.bind_some, hv, e0.2, e1.1]; simp [fbl]
  · obtain ⟨row, hr, hv⟩ := key b0 (by omega) (Nat.le_refl _) b1 (by omega) (Nat.le_refl _)
    rw [hr, Option.bind_some, hv, e0.2, e1.2]; simp [fbl]

/-! ### bounds -/

/-- **Reconstitution of bounds, one subsampled dimension.**  In the subarea between tie
points `k`, `k + 1` (indices `a`, `b`, not an area boundary) the vertex grid runs from
`v0`, the low vertex of the subarea — vertex `a` if tie point `k` is the first of its
continuous area, else vertex `a + 1` — to vertex `b + 1`; cell `p` gets the vertices `p`
and `p + 1`, interpolated between the two bounds tie points with `s = (g - v0) / (b + 1 - v0)`. -/
theorem C16_bounds_reconstitution (F : Method) (t : List Nat) (n : Nat) (btp : List Rat)
    (hinc : t.Pairwise (· < ·)) (hn : ∀ x ∈ t, x < n)
    (k a b : Nat) (ha : t[k]? = some a) (hb : t[k + 1]? = some b) (hgap : a + 2 ≤ b)
    (p : Nat) (hap : lowVertex (areaStart t k) a ≤ p) (hpb : p ≤ b) :
    (recon1b F n t btp)[p]? =
      some (some [F (subareaIndex t k) (btp.getD k 0) (btp.getD (k + 1) 0)
                    (sParam (lowVertex (areaStart t k) a) (b + 1) p),
                  F (subareaIndex t k) (btp.getD k 0) (btp.getD (k + 1) 0)
                    (sParam (lowVertex (areaStart t k) a) (b + 1) (p + 1))]) := by
  have := (assemble1b_get F btp t 0 true 0 (List.replicate n none) hinc
    (by simpa using hn)).2 k a b ha hb hgap p hap hpb
  rw [recon1b, subs, this]
  have hv : lowVertex (areaStart t k) a ≤ b := by
    simp only [lowVertex]; split <;> omega
  unfold areaStart at hap hv ⊢
  generalize lowVertex (startAt true t k) a = v0 at hap hv ⊢
  simp only [Nat.zero_add, sParam]
  rw [Nat.cast_sub hap, Nat.cast_sub (show v0 ≤ p + 1 by omega),
    Nat.cast_sub (show v0 ≤ b + 1 by omega)]

example : areaStart [0, 4, 7, 8, 11] 1 = false ∧ areaStart [0, 4, 7, 8, 11] 3 = true := by decide
example : (recon1b linearM 12 [0, 4, 7, 8, 11] [0, 150, 240, 240, 360])[5]? = some (some [150, 180]) := by
  decide +kernel

/-- **Bounds are contiguous inside a continuous area and hit the bounds tie points**: the
last cell of a subarea ends on the bounds tie point `k + 1`, on which the first cell of
the next subarea of the same area starts. -/
theorem C16_bounds_contiguous (F : Method) (hF : Endpoints F) (t : List Nat) (n : Nat) (btp : List Rat)
    (hinc : t.Pairwise (· < ·)) (hn : ∀ x ∈ t, x < n)
    (k a b c : Nat) (ha : t[k]? = some a) (hb : t[k + 1]? = some b) (hc : t[k + 2]? = some c)
    (hab : a + 2 ≤ b) (hbc : b + 2 ≤ c) :
    (∃ x, (recon1b F n t btp)[b]? = some (some [x, btp.getD (k + 1) 0])) ∧
    (∃ y, (recon1b F n t btp)[b + 1]? = some (some [btp.getD (k + 1) 0, y])) := by
  constructor
  · have hlv : lowVertex (areaStart t k) a ≤ b := by simp only [lowVertex]; split <;> omega
    have h := C16_bounds_reconstitution F t n btp hinc hn k a b ha hb hab b hlv (Nat.le_refl _)
    have : sParam (lowVertex (areaStart t k) a) (b + 1) (b + 1) = 1 := by
      have hne : (((b + 1 : Nat) : Rat) - ((lowVertex (areaStart t k) a : Nat) : Rat)) ≠ 0 := by
        have : ((lowVertex (areaStart t k) a : Nat) : Rat) < ((b + 1 : Nat) : Rat) := by
          exact_mod_cast (by omega : lowVertex (areaStart t k) a < b + 1)
        linarith
      simp only [sParam]
      field_simp
    rw [h, this, hF.2]
    exact ⟨_, rfl⟩
  · have hst : areaStart t (k + 1) = false := by
      have e1 : t.getD (k + 1) 0 = b := by simp [List.getD, hb]
      have e2 : t.getD k 0 = a := by simp [List.getD, ha]
      simp only [areaStart, startAt, e1, e2, decide_eq_false_iff_not]
      omega
    have h := C16_bounds_reconstitution F t n btp hinc hn (k + 1) b c hb hc hbc (b + 1)
      (by rw [hst]; simp [lowVertex]) (by omega)
    rw [h, hst]
    simp only [lowVertex, Bool.false_eq_true, if_false, sParam, sub_self, zero_div, hF.1]
    exact ⟨_, rfl⟩

/-! ### bounds over two subsampled dimensions (`bi_linear` bounds tie points) -/

/-- The vertex grid value of CF 8.3.9 inside the 2-d interpolation subarea `(k0, k1)`. -/
def V2 (btp : List (List Rat)) (t0 t1 : List Nat) (k0 a0 b0 k1 a1 b1 : Nat) (g0 g1 : Nat) : Rat :=
  vertexValue (get2 btp k0 k1) (get2 btp k0 (k1 + 1)) (get2 btp (k0 + 1) k1) (get2 btp (k0 + 1) (k1 + 1))
    (lowVertex (areaStart t0 k0) a0) b0 (lowVertex (areaStart t1 k1) a1) b1 g0 g1

/-- **Reconstitution of bounds, two subsampled dimensions.**  For strictly increasing index
vectors along both dimensions, tie point pairs `k0` (indices `a0`, `b0`) and `k1` (`a1`, `b1`)
that are not area boundaries, and every cell `(p0, p1)` of that interpolation subarea (from
the subarea's low vertex — `a` if tie point `k` opens its continuous area, else `a + 1` — up
to `b`, in each dimension): the four bounds of the cell are the vertices `(p0, p1)`,
`(p0, p1 + 1)`, `(p0 + 1, p1 + 1)`, `(p0 + 1, p1)` of the vertex grid, in this order, each the
bi-linear interpolation of the four bounds tie points of the subarea at
`s = (g - v) / (b + 1 - v)` in each dimension.  Product order of the subareas, `first` flags,
`_broadcast_bounds` slicing and `_trim` do not appear in the statement. -/
theorem C16_bilinear_bounds_reconstitution (t0 t1 : List Nat) (n0 n1 : Nat) (btp : List (List Rat))
    (hinc0 : t0.Pairwise (· < ·)) (hinc1 : t1.Pairwise (· < ·))
    (hn0 : ∀ x ∈ t0, x < n0) (hn1 : ∀ x ∈ t1, x < n1)
    (k0 a0 b0 : Nat) (ha0 : t0[k0]? = some a0) (hb0 : t0[k0 + 1]? = some b0) (hg0 : a0 + 2 ≤ b0)
    (k1 a1 b1 : Nat) (ha1 : t1[k1]? = some a1) (hb1 : t1[k1 + 1]? = some b1) (hg1 : a1 + 2 ≤ b1)
    (p0 : Nat) (h0 : lowVertex (areaStart t0 k0) a0 ≤ p0) (h0' : p0 ≤ b0)
    (p1 : Nat) (h1 : lowVertex (areaStart t1 k1) a1 ≤ p1) (h1' : p1 ≤ b1) :
    ((recon2b n0 n1 t0 t1 btp)[p0]?.bind (·[p1]?)) =
      some (some (cellVertices (V2 btp t0 t1 k0 a0 b0 k1 a1 b1) p0 p1)) := by
  obtain ⟨row, hr, hv⟩ := recon2b_get t0 t1 n0 n1 btp hinc0 hinc1 hn0 hn1 k0 a0 b0 ha0 hb0 hg0
    k1 a1 b1 ha1 hb1 hg1 p0 h0 h0' p1 h1 h1'
  rw [hr, Option.bind_some, hv]
  simp only [cellVertices, V2]
  have e0 : p0 - lowVertex (areaStart t0 k0) a0 + 1 = p0 + 1 - lowVertex (areaStart t0 k0) a0 := by omega
  have e1 : p1 - lowVertex (areaStart t1 k1) a1 + 1 = p1 + 1 - lowVertex (areaStart t1 k1) a1 := by omega
  rw [e0, e1]
  rw [vertex2_eq_spec btp k0 _ a0 b0 k1 _ a1 b1 _ _ hg0 hg1 p0 p1 h0 h1,
    vertex2_eq_spec btp k0 _ a0 b0 k1 _ a1 b1 _ _ hg0 hg1 p0 (p1 + 1) h0 (by omega),
    vertex2_eq_spec btp k0 _ a0 b0 k1 _ a1 b1 _ _ hg0 hg1 (p0 + 1) (p1 + 1) (by omega) (by omega),
    vertex2_eq_spec btp k0 _ a0 b0 k1 _ a1 b1 _ _ hg0 hg1 (p0 + 1) p1 (by omega) h1]

example : ((recon2b 3 3 [0, 2] [0, 2] [[0, 1], [2, 4]])[2]?.bind (·[2]?)) =
    some (some [22 / 9, 3, 4, 10 / 3]) := by decide +kernel
example : cellVertices (V2 [[0, 1], [2, 4]] [0, 2] [0, 2] 0 0 2 0 0 2) 2 2 = [22 / 9, 3, 4, 10 / 3] := by
  decide +kernel
/-- two subareas in each dimension, the second not opening its area -/
example : ((recon2b 5 5 [0, 2, 4] [0, 2, 4] [[0, 1, 2], [3, 4, 5], [6, 7, 9]])[3]?.bind (·[4]?)) =
    some (some (cellVertices (V2 [[0, 1, 2], [3, 4, 5], [6, 7, 9]] [0, 2, 4] [0, 2, 4] 1 2 4 1 2 4) 3 4)) := by
  decide +kernel

/-- `vertexValue` at the corners of the vertex grid of a subarea is the bounds tie point. -/
theorem vertexValue_corners (ua ub uc ud : Rat) (v0 b0 v1 b1 : Nat) (h0 : v0 ≤ b0) (h1 : v1 ≤ b1) :
    vertexValue ua ub uc ud v0 b0 v1 b1 v0 v1 = ua ∧
    vertexValue ua ub uc ud v0 b0 v1 b1 v0 (b1 + 1) = ub ∧
    vertexValue ua ub uc ud v0 b0 v1 b1 (b0 + 1) v1 = uc ∧
    vertexValue ua ub uc ud v0 b0 v1 b1 (b0 + 1) (b1 + 1) = ud := by
  have e0 := sParam_ends v0 (b0 + 1) (by omega)
  have e1 := sParam_ends v1 (b1 + 1) (by omega)
  simp only [vertexValue, e0.1, e0.2, e1.1, e1.2, fbl]
  refine ⟨by ring, by ring, by ring, by ring⟩

/-- **The four bounds tie points of a 2-d interpolation subarea are reproduced exactly** at
the corner vertices of its vertex grid: the first bound of its first cell, the second bound
of the last cell of its first row, the third bound of its last cell and the fourth bound of
the first cell of its last row. -/
theorem C16_bilinear_bounds_corners (t0 t1 : List Nat) (n0 n1 : Nat) (btp : List (List Rat))
    (hinc0 : t0.Pairwise (· < ·)) (hinc1 : t1.Pairwise (· < ·))
    (hn0 : ∀ x ∈ t0, x < n0) (hn1 : ∀ x ∈ t1, x < n1)
    (k0 a0 b0 : Nat) (ha0 : t0[k0]? = some a0) (hb0 : t0[k0 + 1]? = some b0) (hg0 : a0 + 2 ≤ b0)
    (k1 a1 b1 : Nat) (ha1 : t1[k1]? = some a1) (hb1 : t1[k1 + 1]? = some b1) (hg1 : a1 + 2 ≤ b1) :
    let v0 := lowVertex (areaStart t0 k0) a0
    let v1 := lowVertex (areaStart t1 k1) a1
    let cell := fun p0 p1 => ((recon2b n0 n1 t0 t1 btp)[p0]?.bind (·[p1]?))
    (∃ x y z, cell v0 v1 = some (some [get2 btp k0 k1, x, y, z])) ∧
    (∃ x y z, cell v0 b1 = some (some [x, get2 btp k0 (k1 + 1), y, z])) ∧
    (∃ x y z, cell b0 b1 = some (some [x, y, get2 btp (k0 + 1) (k1 + 1), z])) ∧
    (∃ x y z, cell b0 v1 = some (some [x, y, z, get2 btp (k0 + 1) k1])) := by
  intro v0 v1 cell
  have hv0 : v0 ≤ b0 := by simp only [v0, lowVertex]; split <;> omega
  have hv1 : v1 ≤ b1 := by simp only [v1, lowVertex]; split <;> omega
  have key := fun p0 h0 h0' p1 h1 h1' => C16_bilinear_bounds_reconstitution t0 t1 n0 n1 btp hinc0 hinc1
    hn0 hn1 k0 a0 b0 ha0 hb0 hg0 k1 a1 b1 ha1 hb1 hg1 p0 h0 h0' p1 h1 h1'
  have c := vertexValue_corners (get2 btp k0 k1) (get2 btp k0 (k1 + 1)) (get2 btp (k0 + 1) k1)
    (get2 btp (k0 + 1) (k1 + 1)) v0 b0 v1 b1 hv0 hv1
  refine ⟨?_, ?_, ?_, ?_⟩
  · simp only [cell]
    rw [key v0 (Nat.le_refl _) hv0 v1 (Nat.le_refl _) hv1]
    simp only [cellVertices, V2]
    rw [c.1]
    exact ⟨_, _, _, rfl⟩
  · simp only [cell]
    rw [key v0 (Nat.le_refl _) hv0 b1 hv1 (Nat.le_refl _)]
    simp only [cellVertices, V2]
    rw [c.2.1]
    exact ⟨_, _, _, rfl⟩
  · simp only [cell]
    rw [key b0 hv0 (Nat.le_refl _) b1 hv1 (Nat.le_refl _)]
    simp only [cellVertices, V2]
    rw [c.2.2.2]
    exact ⟨_, _, _, rfl⟩
  · simp only [cell]
    rw [key b0 hv0 (Nat.le_refl _) v1 (Nat.le_refl _) hv1]
    simp only [cellVertices, V2]
    rw [c.2.2.1]
    exact ⟨_, _, _, rfl⟩

/-- A tie point that follows a subarea does not open a continuous area. -/
theorem areaStart_after_gap (t : List Nat) (k a b : Nat) (ha : t[k]? = some a) (hb : t[k + 1]? = some b)
    (hab : a + 2 ≤ b) : areaStart t (k + 1) = false := by
  have e1 : t.getD (k + 1) 0 = b := by simp [List.getD, hb]
  have e2 : t.getD k 0 = a := by simp [List.getD, ha]
  simp only [areaStart, startAt, e1, e2, decide_eq_false_iff_not]
  omega

/-- **2-d bounds are contiguous across interpolation subareas along the second subsampled
dimension**: in every row `p0` of the subarea row `k0`, the last cell of subarea `k1` and the
first cell of subarea `k1 + 1` (same continuous area) share their common edge — bounds 1, 2 of
the former are bounds 0, 3 of the latter — and that edge lies on the line between the two
bounds tie points `(k0, k1 + 1)`, `(k0 + 1, k1 + 1)`. -/
theorem C16_bilinear_bounds_contiguous_1 (t0 t1 : List Nat) (n0 n1 : Nat) (btp : List (List Rat))
    (hinc0 : t0.Pairwise (· < ·)) (hinc1 : t1.Pairwise (· < ·))
    (hn0 : ∀ x ∈ t0, x < n0) (hn1 : ∀ x ∈ t1, x < n1)
    (k0 a0 b0 : Nat) (ha0 : t0[k0]? = some a0) (hb0 : t0[k0 + 1]? = some b0) (hg0 : a0 + 2 ≤ b0)
    (k1 a1 b1 c1 : Nat) (ha1 : t1[k1]? = some a1) (hb1 : t1[k1 + 1]? = some b1)
    (hc1 : t1[k1 + 2]? = some c1) (hg1 : a1 + 2 ≤ b1) (hg1' : b1 + 2 ≤ c1)
    (p0 : Nat) (h0 : lowVertex (areaStart t0 k0) a0 ≤ p0) (h0' : p0 ≤ b0) :
    let e := fun g0 => fl (get2 btp k0 (k1 + 1)) (get2 btp (k0 + 1) (k1 + 1))
      (sParam (lowVertex (areaStart t0 k0) a0) (b0 + 1) g0)
    (∃ x w, ((recon2b n0 n1 t0 t1 btp)[p0]?.bind (·[b1]?)) = some (some [x, e p0, e (p0 + 1), w])) ∧
    (∃ y z, ((recon2b n0 n1 t0 t1 btp)[p0]?.bind (·[b1 + 1]?)) = some (some [e p0, y, z, e (p0 + 1)])) := by
  intro e
  have hst := areaStart_after_gap t1 k1 a1 b1 ha1 hb1 hg1
  have hv1 : lowVertex (areaStart t1 k1) a1 ≤ b1 := by simp only [lowVertex]; split <;> omega
  have s1 := sParam_ends (lowVertex (areaStart t1 k1) a1) (b1 + 1) (by omega)
  have s2 := sParam_ends (b1 + 1) (c1 + 1) (by omega)
  have hA : ∀ g0, V2 btp t0 t1 k0 a0 b0 k1 a1 b1 g0 (b1 + 1) = e g0 := by
    intro g0
    simp only [V2, vertexValue, s1.2, e, fbl, fl]
    ring
  have hB : ∀ g0, V2 btp t0 t1 k0 a0 b0 (k1 + 1) b1 c1 g0 (b1 + 1) = e g0 := by
    intro g0
    simp only [V2, vertexValue, hst, lowVertex, Bool.false_eq_true, if_false, s2.1, e, fbl, fl]
    ring
  constructor
  · rw [C16_bilinear_bounds_reconstitution t0 t1 n0 n1 btp hinc0 hinc1 hn0 hn1 k0 a0 b0 ha0 hb0 hg0
      k1 a1 b1 ha1 hb1 hg1 p0 h0 h0' b1 hv1 (Nat.le_refl _)]
    simp only [cellVertices, hA]
    exact ⟨_, _, rfl⟩
  · rw [C16_bilinear_bounds_reconstitution t0 t1 n0 n1 btp hinc0 hinc1 hn0 hn1 k0 a0 b0 ha0 hb0 hg0
      (k1 + 1) b1 c1 hb1 hc1 hg1' p0 h0 h0' (b1 + 1) (by rw [hst]; simp [lowVertex]) (by omega)]
    simp only [cellVertices, hB]
    exact ⟨_, _, rfl⟩

/-- … and **along the first subsampled dimension**: the last row of cells of subarea row `k0`
and the first row of subarea row `k0 + 1` share their common edge (bounds 3, 2 of the former
are bounds 0, 1 of the latter), which lies between the bounds tie points `(k0 + 1, k1)`,
`(k0 + 1, k1 + 1)`. -/
theorem C16_bilinear_bounds_contiguous_0 (t0 t1 : List Nat) (n0 n1 : Nat) (btp : List (List Rat))
    (hinc0 : t0.Pairwise (· < ·)) (hinc1 : t1.Pairwise (· < ·))
    (hn0 : ∀ x ∈ t0, x < n0) (hn1 : ∀ x ∈ t1, x < n1)
    (k0 a0 b0 c0 : Nat) (ha0 : t0[k0]? = some a0) (hb0 : t0[k0 + 1]? = some b0)
    (hc0 : t0[k0 + 2]? = some c0) (hg0 : a0 + 2 ≤ b0) (hg0' : b0 + 2 ≤ c0)
    (k1 a1 b1 : Nat) (ha1 : t1[k1]? = some a1) (hb1 : t1[k1 + 1]? = some b1) (hg1 : a1 + 2 ≤ b1)
    (p1 : Nat) (h1 : lowVertex (areaStart t1 k1) a1 ≤ p1) (h1' : p1 ≤ b1) :
    let e := fun g1 => fl (get2 btp (k0 + 1) k1) (get2 btp (k0 + 1) (k1 + 1))
      (sParam (lowVertex (areaStart t1 k1) a1) (b1 + 1) g1)
    (∃ x w, ((recon2b n0 n1 t0 t1 btp)[b0]?.bind (·[p1]?)) = some (some [x, w, e (p1 + 1), e p1])) ∧
    (∃ y z, ((recon2b n0 n1 t0 t1 btp)[b0 + 1]?.bind (·[p1]?)) = some (some [e p1, e (p1 + 1), y, z])) := by
  intro e
  have hst := areaStart_after_gap t0 k0 a0 b0 ha0 hb0 hg0
  have hv0 : lowVertex (areaStart t0 k0) a0 ≤ b0 := by simp only [lowVertex]; split <;> omega
  have s1 := sParam_ends (lowVertex (areaStart t0 k0) a0) (b0 + 1) (by omega)
  have s2 := sParam_ends (b0 + 1) (c0 + 1) (by omega)
  have hA : ∀ g1, V2 btp t0 t1 k0 a0 b0 k1 a1 b1 (b0 + 1) g1 = e g1 := by
    intro g1
    simp only [V2, vertexValue, s1.2, e, fbl, fl]
    ring
  have hB : ∀ g1, V2 btp t0 t1 (k0 + 1) b0 c0 k1 a1 b1 (b0 + 1) g1 = e g1 := by
    intro g1
    simp only [V2, vertexValue, hst, lowVertex, Bool.false_eq_true, if_false, s2.1, e, fbl, fl]
    ring
  constructor
  · rw [C16_bilinear_bounds_reconstitution t0 t1 n0 n1 btp hinc0 hinc1 hn0 hn1 k0 a0 b0 ha0 hb0 hg0
      k1 a1 b1 ha1 hb1 hg1 b0 hv0 (Nat.le_refl _) p1 h1 h1']
    simp only [cellVertices, hA]
    exact ⟨_, _, rfl⟩
  · rw [C16_bilinear_bounds_reconstitution t0 t1 n0 n1 btp hinc0 hinc1 hn0 hn1 (k0 + 1) b0 c0 hb0 hc0 hg0'
      k1 a1 b1 ha1 hb1 hg1 (b0 + 1) (by rw [hst]; simp [lowVertex]) (by omega) p1 h1 h1']
    simp only [cellVertices, hB]
    exact ⟨_, _, rfl⟩

example : ([0, 2, 4] : List Nat)[0 + 2]? = some 4 := by decide

/-! ### the first / last element shortcut -/

/-- `_first_or_last_element` is sound for one subsampled dimension: the last tie point is
the last element of the coordinates. -/
theorem C16_last_shortcut_1d (F : Method) (hF : Endpoints F) (t : List Nat) (n : Nat) (tp : List Rat)
    (hwf : wfAreas true t = true) (hn : ∀ x ∈ t, x < n) (hlen : tp.length = t.length)
    (hl : t.getLast? = some (n - 1)) :
    (recon1 F n t tp)[n - 1]? = some (some (lastShortcut1 tp)) := by
  have hne : t ≠ [] := by intro h; subst h; simp [wfAreas] at hwf
  have hk : t[t.length - 1]? = some (n - 1) := by
    rw [← hl, List.getLast?_eq_getElem?]
  rw [C16_tie_exact F hF t n tp hwf hn (t.length - 1) (n - 1) hk]
  simp only [lastShortcut1, List.getLast?_eq_getElem?, hlen, List.getD_eq_getElem?_getD]

/-- For bounds over two subsampled dimensions the shortcut was wrong in the code as read
(the last vertex of the last cell is vertex (j+1, i), not the last bounds tie point
(j+1, i+1)); the proposed patch takes the shortcut out for that case. -/
theorem C16_old_last_shortcut_counterexample :
    lastOf2b (recon2b 3 3 [0, 2] [0, 2] [[0, 1], [2, 4]]) = some (10 / 3) ∧
    lastShortcut2 [[0, 1], [2, 4]] = 4 := by decide +kernel

/-! ### `__getitem__`: the first/last element shortcut and subspaces -/

theorem head_eq_getElem_zero {α} (l : List α) : l.head? = l[0]? := by cases l <;> rfl

/-- **`SubsampledArray.__getitem__` = subspace of the reconstituted array, coordinates, one
subsampled dimension.**  For every well-formed tie point index vector that starts at 0 and ends
at `n - 1` and EVERY index (slice with any start/stop/step, integer list), what `__getitem__`
returns — through the first/last element shortcut, which never uncompresses, or through the
general path — is the orthogonal subspace of the reconstituted array. -/
theorem C16_getitem_1d (F : Method) (hF : Endpoints F) (t : List Nat) (n : Nat) (tp : List Rat)
    (hwf : wfAreas true t = true) (hn : ∀ x ∈ t, x < n) (hlen : tp.length = t.length)
    (h0 : t.head? = some 0) (hl : t.getLast? = some (n - 1)) (ix : Sel) :
    getitem1 F n t tp ix = sub1 none (recon1 F n t tp) n ix := by
  have hpos : 0 < n := by
    cases t with
    | nil => simp at h0
    | cons a t => have := hn a (by simp); omega
  unfold getitem1
  split
  · rename_i h
    rw [(allFirst_one ix).mp h, sub1, firstSel_positions n hpos]
    have := C16_tie_exact F hF t n tp hwf hn 0 0 (by rw [← head_eq_getElem_zero]; exact h0)
    have e := gather_single (none : Option Rat) (recon1 F n t tp) 0 _ this
    simp only [Nat.cast_zero] at e
    rw [e, firstShortcut1, head_eq_getElem_zero, List.getD_eq_getElem?_getD]
  · split
    · rename_i h
      rw [(allLast_one ix).mp h, sub1, lastSel_positions n hpos]
      have := C16_last_shortcut_1d F hF t n tp hwf hn hlen hl
      rw [gather_single (none : Option Rat) (recon1 F n t tp) (n - 1) _ this]
    · rfl

example : getitem1 linearM 12 [0, 4, 7, 8, 11] [15, 135, 225, 255, 345] lastSel = [some 345] := by
  decide +kernel
example : getitem1 linearM 12 [0, 4, 7, 8, 11] [15, 135, 225, 255, 345] (.slice (some 9) none (some (-3))) =
    [some 285, some 195, some 105, some 15] := by decide +kernel

/-- The hypothesis "the first tie point index is 0" cannot be dropped: cfdm (and the model)
return the first tie point for `[0:1:1]` although element 0 of the array is masked. -/
theorem C16_getitem_first_needs_index_zero :
    getitem1 linearM 6 [1, 5] [10, 50] firstSel = [some 10] ∧
    sub1 none (recon1 linearM 6 [1, 5] [10, 50]) 6 firstSel = [none] := by decide +kernel

/-- **Every element of every subspace is the Appendix J value at the selected position**
(coordinates, one subsampled dimension): if the `i`-th selected position of the index is `p`
and `p` lies between the tie point indices `a`, `b` of a tie point pair that is not an area
boundary, element `i` of `x[ix]` is the method's value at `s(a, b, p)`. -/
theorem C16_subspace_1d (F : Method) (hF : Endpoints F) (t : List Nat) (n : Nat) (tp : List Rat)
    (hwf : wfAreas true t = true) (hn : ∀ x ∈ t, x < n) (hlen : tp.length = t.length)
    (h0 : t.head? = some 0) (hl : t.getLast? = some (n - 1)) (ix : Sel)
    (i p : Nat) (hi : (ix.positions n)[i]? = some (p : Int))
    (k a b : Nat) (ha : t[k]? = some a) (hb : t[k + 1]? = some b) (hgap : a + 2 ≤ b)
    (hap : a ≤ p) (hpb : p ≤ b) :
    (getitem1 F n t tp ix)[i]? =
      some (some (F (subareaIndex t k) (tp.getD k 0) (tp.getD (k + 1) 0) (sParam a b p))) := by
  rw [C16_getitem_1d F hF t n tp hwf hn hlen h0 hl ix]
  have := C16_reconstitution F hF t n tp (wfAreas_pairwise t true hwf) hn k a b ha hb hgap p hap hpb
  simp only [sub1, gather, List.getElem?_map, hi, Option.map_some, Int.toNat_natCast,
    List.getD_eq_getElem?_getD, this, Option.getD_some]

example : (Sel.slice (some 9) none (some (-3))).positions 12 = [9, 6, 3, 0] := by decide +kernel

/-- **`__getitem__` on bounds, one subsampled dimension** (array of shape `(n, 2)`): the
shortcut returns the first / last bounds tie point, which is the first bound of the first
cell / the second bound of the last cell; every other index takes the general path. -/
theorem C16_getitem_1d_bounds (F : Method) (hF : Endpoints F) (t : List Nat) (n : Nat) (btp : List Rat)
    (hwf : wfAreas true t = true) (hn : ∀ x ∈ t, x < n) (hlen : btp.length = t.length)
    (h0 : t.head? = some 0) (hl : t.getLast? = some (n - 1)) (ix ixb : Sel) :
    getitem1b F n t btp ix ixb =
      (sub1 none (recon1b F n t btp) n ix).map (fun c => gather none (cellList 2 c) (ixb.positions 2)) := by
  have hinc := wfAreas_pairwise t true hwf
  have hpos : 0 < n := by
    cases t with
    | nil => simp at h0
    | cons a t => have := hn a (by simp); omega
  have ht0 : t[0]? = some 0 := by rw [← head_eq_getElem_zero]; exact h0
  unfold getitem1b
  split
  · rename_i h
    obtain ⟨h1, h2⟩ := (allFirst_two ix ixb).mp h
    obtain ⟨b, hb, hab⟩ := wfAreas_first_gap t hwf 0 ht0
    have hst : areaStart t 0 = true := rfl
    have := C16_bounds_reconstitution F t n btp hinc hn 0 0 b ht0 hb hab 0
      (by rw [hst]; simp [lowVertex]) (by omega)
    rw [hst] at this
    simp only [lowVertex, if_true, sParam, Nat.cast_zero, sub_self, zero_div, hF.1] at this
    rw [h1, h2, sub1, firstSel_positions n hpos, firstSel_positions 2 (by omega)]
    have e := gather_single (none : Option (List Rat)) (recon1b F n t btp) 0 _ this
    simp only [Nat.cast_zero] at e
    rw [e]
    simp [cellList, gather, firstShortcut1, head_eq_getElem_zero, List.getD_eq_getElem?_getD]
  · split
    · rename_i h
      obtain ⟨h1, h2⟩ := (allLast_two ix ixb).mp h
      have hk : t[t.length - 1]? = some (n - 1) := by rw [← hl, List.getLast?_eq_getElem?]
      obtain ⟨k, a, hk2, hka, hal⟩ := wfAreas_last_gap t hwf (n - 1) hk
      have hkb : t[k + 1]? = some (n - 1) := by rw [← hk]; congr 1; omega
      have hlv : lowVertex (areaStart t k) a ≤ n - 1 := by simp only [lowVertex]; split <;> omega
      have := C16_bounds_reconstitution F t n btp hinc hn k a (n - 1) hka hkb hal (n - 1) hlv (Nat.le_refl _)
      have e1 : sParam (lowVertex (areaStart t k) a) (n - 1 + 1) (n - 1 + 1) = 1 :=
        (sParam_ends _ _ (by omega)).2
      rw [e1, hF.2] at this
      rw [h1, h2, sub1, lastSel_positions n hpos, lastSel_positions 2 (by omega),
        gather_single (none : Option (List Rat)) (recon1b F n t btp) (n - 1) _ this]
      simp only [List.map_cons, List.map_nil, cellList, gather, lastShortcut1,
        List.getLast?_eq_getElem?, hlen]
      simp [List.getD_eq_getElem?_getD, show t.length - 1 = k + 1 by omega]
    · rfl

example : getitem1b linearM 12 [0, 4, 7, 8, 11] [0, 150, 240, 240, 360] lastSel lastSel = [[some 360]] := by
  decide +kernel
example : getitem1b linearM 12 [0, 4, 7, 8, 11] [0, 150, 240, 240, 360] (.list [5, -1]) (.slice none none (some (-1))) =
    [[some 180, some 150], [some 360, some 330]] := by decide +kernel

/-- **`__getitem__`, coordinates, two subsampled dimensions**: the shortcut (first / last tie
point of the 2-d tie point array) is the corner element of the reconstituted array. -/
theorem C16_getitem_2d (t0 t1 : List Nat) (n0 n1 : Nat) (tp : List (List Rat))
    (hwf0 : wfAreas true t0 = true) (hwf1 : wfAreas true t1 = true)
    (hn0 : ∀ x ∈ t0, x < n0) (hn1 : ∀ x ∈ t1, x < n1)
    (hlen0 : tp.length = t0.length) (hlen1 : ∀ row ∈ tp, row.length = t1.length)
    (h00 : t0.head? = some 0) (hl0 : t0.getLast? = some (n0 - 1))
    (h01 : t1.head? = some 0) (hl1 : t1.getLast? = some (n1 - 1)) (ix0 ix1 : Sel) :
    getitem2 n0 n1 t0 t1 tp ix0 ix1 = sub2 none (recon2 n0 n1 t0 t1 tp) n0 n1 ix0 ix1 := by
  have hinc0 := wfAreas_pairwise t0 true hwf0
  have hinc1 := wfAreas_pairwise t1 true hwf1
  have hpos0 : 0 < n0 := by
    cases t0 with
    | nil => simp at h00
    | cons a t => have := hn0 a (by simp); omega
  have hpos1 : 0 < n1 := by
    cases t1 with
    | nil => simp at h01
    | cons a t => have := hn1 a (by simp); omega
  have ht00 : t0[0]? = some 0 := by rw [← head_eq_getElem_zero]; exact h00
  have ht01 : t1[0]? = some 0 := by rw [← head_eq_getElem_zero]; exact h01
  unfold getitem2
  split
  · rename_i h
    obtain ⟨e0, e1⟩ := (allFirst_two ix0 ix1).mp h
    obtain ⟨b0, hb0, hab0⟩ := wfAreas_first_gap t0 hwf0 0 ht00
    obtain ⟨b1, hb1, hab1⟩ := wfAreas_first_gap t1 hwf1 0 ht01
    have c := (C16_bilinear_corners t0 t1 n0 n1 tp hinc0 hinc1 hn0 hn1 0 0 b0 ht00 hb0 hab0
      0 0 b1 ht01 hb1 hab1).1
    rw [e0, e1, sub2, firstSel_positions n0 hpos0, firstSel_positions n1 hpos1]
    cases hr : (recon2 n0 n1 t0 t1 tp)[0]? with
    | none => rw [hr] at c; simp at c
    | some row =>
      rw [hr, Option.bind_some] at c
      have e := gather_single ([] : List (Option Rat)) (recon2 n0 n1 t0 t1 tp) 0 row hr
      have e' := gather_single (none : Option Rat) row 0 _ c
      simp only [Nat.cast_zero] at e e'
      rw [e, List.map_cons, List.map_nil, e']
      simp [firstShortcut2, get2, head_eq_getElem_zero, List.getD_eq_getElem?_getD]
  · split
    · rename_i h
      obtain ⟨e0, e1⟩ := (allLast_two ix0 ix1).mp h
      have hk0 : t0[t0.length - 1]? = some (n0 - 1) := by rw [← hl0, List.getLast?_eq_getElem?]
      have hk1 : t1[t1.length - 1]? = some (n1 - 1) := by rw [← hl1, List.getLast?_eq_getElem?]
      obtain ⟨k0, a0, hk02, hka0, hal0⟩ := wfAreas_last_gap t0 hwf0 (n0 - 1) hk0
      obtain ⟨k1, a1, hk12, hka1, hal1⟩ := wfAreas_last_gap t1 hwf1 (n1 - 1) hk1
      have hkb0 : t0[k0 + 1]? = some (n0 - 1) := by rw [← hk0]; congr 1; omega
      have hkb1 : t1[k1 + 1]? = some (n1 - 1) := by rw [← hk1]; congr 1; omega
      have c := (C16_bilinear_corners t0 t1 n0 n1 tp hinc0 hinc1 hn0 hn1 k0 a0 (n0 - 1) hka0 hkb0 hal0
        k1 a1 (n1 - 1) hka1 hkb1 hal1).2.2.2
      rw [e0, e1, sub2, lastSel_positions n0 hpos0, lastSel_positions n1 hpos1]
      cases hr : (recon2 n0 n1 t0 t1 tp)[n0 - 1]? with
      | none => rw [hr] at c; simp at c
      | some row =>
        rw [hr, Option.bind_some] at c
        rw [gather_single ([] : List (Option Rat)) (recon2 n0 n1 t0 t1 tp) (n0 - 1) row hr,
          List.map_cons, List.map_nil, gather_single (none : Option Rat) row (n1 - 1) _ c]
        have hrow : ∀ r, tp[k0 + 1]? = some r → r.length = t1.length :=
          fun r hr => hlen1 r (List.mem_of_getElem? hr)
        simp only [lastShortcut2, get2, List.getLast?_eq_getElem?, hlen0,
          show t0.length - 1 = k0 + 1 by omega, List.getD_eq_getElem?_getD]
        cases hq : tp[k0 + 1]? with
        | none => simp
        | some r =>
          simp only [Option.getD_some, hrow r hq, show t1.length - 1 = k1 + 1 by omega]
    · rfl

example : getitem2 6 7 [0, 2, 3, 5] [0, 3, 6] [[0, 1, 2], [3, 4, 5], [6, 7, 8], [9, 10, 11]] lastSel lastSel =
    [[some 11]] := by decide +kernel

/-- **Bounds over two subsampled dimensions take no shortcut** (`getitem2b` is the general path by
definition); with the shortcut of the code before /repo commit d99716a `last_element()` was the
last bounds tie point instead of bound 3 of the last cell. -/
theorem C16_old_getitem_2d_bounds_counterexample :
    getitem2bOld 3 3 [0, 2] [0, 2] [[0, 1], [2, 4]] lastSel lastSel lastSel = [[[some 4]]] ∧
    getitem2b 3 3 [0, 2] [0, 2] [[0, 1], [2, 4]] lastSel lastSel lastSel = [[[some (10 / 3)]]] := by
  decide +kernel

/-! ### interpolation parameters stored in their own dimension order -/

/-- **`_conformed_parameters` = "index the stored array in its own dimension order".**  For a
parameter whose dimensions correspond to the distinct tie point dimensions `pdims` (in ANY order,
spanning ANY subset of the `D` tie point dimensions), the conformed array — transposed to tie
point dimension order, the dimensions it does not span inserted as size 1 axes, lowest first —
has one axis per tie point dimension (the parameter's own size where it spans the dimension,
else 1), and its element at the tie point multi-index `idx` is the stored element whose index
along the parameter's `q`-th dimension is `idx[pdims[q]]`. -/
theorem C16_conform_parameter {α} (D : Nat) (pdims : List Nat) (P : Arr α) (hnd : pdims.Nodup)
    (hlt : ∀ d ∈ pdims, d < D) (hP : P.shape.length = pdims.length) :
    (conform D pdims P).shape =
      (List.range D).map (fun d => if pdims.contains d then P.shape.getD (pdims.idxOf d) 0 else 1) ∧
    ∀ idx : List Nat, idx.length = D →
      (conform D pdims P).get idx = P.get (pdims.map (fun d => idx.getD d 0)) :=
  ⟨conform_shape D pdims P hnd hlt hP, fun idx hidx => conform_get D pdims P hnd hlt hP idx hidx⟩

/-- `w(subarea, x)` for tie points `(x, tp)`: `parameter_dimensions = (1, 0)` -/
example : (conform 2 [1, 0] (ofFlat [2, 3] [1, 2, 3, 4, 5, 6])).shape = [3, 2] ∧
    (conform 2 [1, 0] (ofFlat [2, 3] [1, 2, 3, 4, 5, 6])).get [2, 1] = 6 ∧
    (conform 2 [1, 0] (ofFlat [2, 3] [1, 2, 3, 4, 5, 6])).get [0, 1] = 4 := by decide +kernel
/-- `w(subarea)` for tie points `(x, tp, y)`: two inserted axes -/
example : (conform 3 [1] (ofFlat [2] [7, 9])).shape = [1, 2, 1] ∧
    (conform 3 [1] (ofFlat [2] [7, 9])).get [0, 1, 0] = 9 := by decide +kernel

/-- The test before /repo commit c954b8c (`sorted(parameter_dims) == dims`) left a parameter
stored in another dimension order untransposed. -/
theorem C16_old_conform_counterexample :
    (conformOld 2 [1, 0] (ofFlat [2, 2] [1, 2, 3, 4])).get [0, 1] = 2 ∧
    (conform 2 [1, 0] (ofFlat [2, 2] [1, 2, 3, 4])).get [0, 1] = 3 ∧
    (ofFlat [2, 2] [1, 2, 3, 4]).get ([1, 0].map (fun d => [0, 1].getD d 0)) = 3 := by decide +kernel

/-- **The coefficient of interpolation subarea `j` in row `e` is the value stored at the
parameter's own index order** (`_conformed_parameters` + `_select_parameter`, one subsampled
dimension at position `d1` of the tie point array): for a parameter whose `q`-th dimension is the
interpolation subarea dimension (size `nsub`) if `pdims[q] = d1` and otherwise the non-interpolated
tie point dimension `pdims[q]`, the list of coefficients that `QuadraticSubarray` receives for the
row with indices `e` along the non-interpolated dimensions is
`[P[q ↦ if pdims[q] = d1 then j else e[pdims[q]]] | j < nsub]`.

`bcast = false` is /repo HEAD, which needs the parameter to span the subsampled dimension (or a
single subarea); `bcast = true` (fixes/C16-parameter-broadcast.patch) needs nothing. -/
theorem C16_parameter_row (bcast : Bool) (D : Nat) (pdims : List Nat) (P : Arr Rat) (tpShape : List Nat)
    (d1 nsub : Nat) (e : List Nat)
    (hnd : pdims.Nodup) (hlt : ∀ d ∈ pdims, d < D) (hP : P.shape.length = pdims.length)
    (hD : tpShape.length = D)
    (hshape : ∀ q (hq : q < pdims.length),
      P.shape.getD q 0 = if pdims[q] = d1 then nsub else tpShape.getD pdims[q] 0)
    (hns : nsub ≠ tpShape.getD d1 0)
    (hb : bcast = true ∨ d1 ∈ pdims ∨ nsub ≤ 1) :
    paramRow bcast D pdims P tpShape d1 nsub e =
      some ((List.range nsub).map (fun j =>
        P.get (pdims.map (fun d => if d = d1 then j else e.getD d 0)))) :=
  paramRow_eq bcast D pdims P tpShape d1 nsub e hnd hlt hP hD hshape hns hb

/-- tie points `(x=2, tp=3)`, two subareas, `w(subarea, x)`, row `x = 1` -/
example : paramRow false 2 [1, 0] (ofFlat [2, 2] [1, 2, 3, 4]) [2, 3] 1 2 [1, 0] = some [2, 4] := by
  decide +kernel

/-- The hypothesis of `C16_parameter_row` for /repo HEAD cannot be dropped: a parameter that does
not span the subsampled dimension (here a scalar `w`, two subareas) is indexed with `slice(1, 2)`
on its size 1 axis for the second subarea — an empty selection (cfdm then raises ValueError when
broadcasting); with the proposed patch the single value is used for every subarea. -/
theorem C16_parameter_broadcast_counterexample :
    paramRow false 1 [] (ofFlat [] [5]) [3] 0 2 [0] = none ∧
    paramRow true 1 [] (ofFlat [] [5]) [3] 0 2 [0] = some [5, 5] := by decide +kernel

/-- `interpolation_subarea_flags` at /repo HEAD are taken as stored, not conformed: for tie points
`(x = 2, tp = 3)` and flags stored per subarea only (`parameter_dimensions = (1,)`) the stored array
has rank 1 while `_select_parameter` indexes it with the two indices of the tie point rank (numpy:
IndexError); the conformed array (proposed patch: the flags are derived from the conformed
parameter) has the tie point rank and the row-independent values. -/
theorem C16_old_flags_not_conformed_counterexample :
    (ofFlat [2] [1, 0]).shape.length = 1 ∧
    (conform 2 [1] (ofFlat [2] [1, 0])).shape = [1, 2] ∧
    paramRow true 2 [1] (ofFlat [2] [1, 0]) [2, 3] 1 2 [1, 0] = some [1, 0] := by decide +kernel

/-- **Quadratic reconstitution with the coefficient taken from the stored parameter**: the
element at target index `p` between tie points `k`, `k + 1` of row `e` is Appendix J's `fq` with
`w = P[own index order]` of that row and that interpolation subarea. -/
theorem C16_quadratic_stored_parameter (bcast : Bool) (D : Nat) (pdims : List Nat) (P : Arr Rat)
    (tpShape : List Nat) (d1 : Nat) (e : List Nat)
    (hnd : pdims.Nodup) (hlt : ∀ d ∈ pdims, d < D) (hP : P.shape.length = pdims.length)
    (hD : tpShape.length = D) (t : List Nat) (n : Nat) (tp : List Rat)
    (hshape : ∀ q (hq : q < pdims.length),
      P.shape.getD q 0 = if pdims[q] = d1 then (subs t).length else tpShape.getD pdims[q] 0)
    (hns : (subs t).length ≠ tpShape.getD d1 0)
    (hb : bcast = true ∨ d1 ∈ pdims ∨ (subs t).length ≤ 1)
    (hinc : t.Pairwise (· < ·)) (hn : ∀ x ∈ t, x < n)
    (k a b : Nat) (ha : t[k]? = some a) (hb' : t[k + 1]? = some b) (hgap : a + 2 ≤ b)
    (hk : subareaIndex t k < (subs t).length)
    (p : Nat) (hap : a ≤ p) (hpb : p ≤ b) :
    (recon1 (quadraticM (paramRow bcast D pdims P tpShape d1 (subs t).length e)) n t tp)[p]? =
      some (some (fq (tp.getD k 0) (tp.getD (k + 1) 0)
        (P.get (pdims.map (fun d => if d = d1 then subareaIndex t k else e.getD d 0)))
        (sParam a b p))) := by
  rw [C16_parameter_row bcast D pdims P tpShape d1 _ e hnd hlt hP hD hshape hns hb,
    C16_quadratic _ t n tp hinc hn k a b ha hb' hgap p hap hpb]
  simp [List.getD_eq_getElem?_getD, List.getElem?_map, List.getElem?_range hk]

example : (subs [0, 4, 7, 8, 11]).length = 3 ∧ subareaIndex [0, 4, 7, 8, 11] 3 = 2 := by decide

/-! ### the netCDF reader's bookkeeping -/

/-- **`tie_point_mapping` (and `interpolation_parameters`) parse back**: for every list of
groups `key: value value …` with at least one value each, `_parse_x` of the attribute text
returns exactly the groups, in order. -/
theorem C16_parse_mapping_roundtrip (gs : List (String × List String)) (hv : ∀ g ∈ gs, g.2 ≠ []) :
    parseX (renderGroups gs) = gs := by
  have h := parseGroupsGo_render gs hv none [] (by intro g hg; cases hg)
  have hp : parseGroups (renderGroups gs) = some gs := by simpa [parseGroups, closeCur] using h
  cases gs with
  | nil => rfl
  | cons g gs =>
    have : ∀ w, renderGroups (g :: gs) ≠ [Tok.word w] := by
      intro w h0
      simp [renderGroups] at h0
    unfold parseX
    split
    · rename_i w hw
      exact absurd hw (this w)
    · rw [hp]; rfl

example : parseX [.key "u0", .word "idx0", .word "tp0", .word "sa0", .key "u1", .word "idx1", .word "tp1"] =
    [("u0", ["idx0", "tp0", "sa0"]), ("u1", ["idx1", "tp1"])] := by decide
/-- a key without values, a value before any key: no match -/
example : parseX [.key "u0", .key "u1", .word "a"] = [] ∧ parseX [.word "a", .key "u0", .word "b"] = [] := by
  decide
example : parseX [.word "w"] = [("w", [])] := by decide

/-- **`coordinate_interpolation` parses back** to `{interpolation variable: tie point coordinate
variables}` for distinct interpolation variables. -/
theorem C16_coordinate_interpolation_roundtrip (gs : List (String × List String))
    (hnd : (gs.map (·.1)).Nodup) : coordInterp (renderCI gs) = gs := by
  have := coordInterpGo_render gs [] hnd (by intro g _ x hx; simp at hx)
  simpa [coordInterp] using this

example : coordInterp [.coord "lat", .coord "lon", .interp "bl", .coord "time", .interp "lin"] =
    [("bl", ["lat", "lon"]), ("lin", ["time"])] := by decide

/-- Specification of `parameter_dimensions`: tie point dimension position `i` corresponds to the
parameter dimension `x` when it is that dimension, or the subsampled dimension of which `x` is the
interpolation subarea dimension. -/
def Corresponds (rec : List SubDim) (dimensions : List String) (x : String) (i : Nat) : Prop :=
  dimensions[i]? = some x ∨
    (x ∉ dimensions ∧ ∃ s ∈ rec, s.subarea = some x ∧ dimensions[i]? = some s.subsampled)

theorem paramPosition_spec (rec : List SubDim) (dimensions : List String) (x : String)
    (hrec : ∀ s ∈ rec, s.subsampled ∈ dimensions)
    (hx : x ∈ dimensions ∨ ∃ s ∈ rec, s.subarea = some x) :
    ∃ i, paramPosition rec dimensions x = some i ∧ i < dimensions.length ∧ Corresponds rec dimensions x i := by
  unfold paramPosition
  by_cases hc : x ∈ dimensions
  · have hcb : dimensions.contains x = true := by simpa using hc
    refine ⟨_, by rw [if_pos hcb], List.idxOf_lt_length_of_mem hc, Or.inl ?_⟩
    rw [List.getElem?_eq_getElem (List.idxOf_lt_length_of_mem hc), List.getElem_idxOf]
  · have hcb : ¬ dimensions.contains x = true := by simpa using hc
    rcases hx with hx | ⟨s, hs, hsx⟩
    · exact absurd hx hc
    · have hsome : (rec.find? (fun s => s.subarea == some x)).isSome := by
        rw [List.find?_isSome]
        exact ⟨s, hs, by simp [hsx]⟩
      obtain ⟨s', hs'⟩ := Option.isSome_iff_exists.mp hsome
      have hmem : s' ∈ rec := List.mem_of_find?_eq_some hs'
      have hsub : s'.subarea = some x := by simpa using List.find?_some hs'
      have hin := hrec s' hmem
      refine ⟨_, by rw [if_neg hcb, hs'], List.idxOf_lt_length_of_mem hin, Or.inr ⟨hc, s', hmem, hsub, ?_⟩⟩
      rw [List.getElem?_eq_getElem (List.idxOf_lt_length_of_mem hin), List.getElem_idxOf]

/-- **`parameter_dimensions` as read from a dataset keep the parameter's own dimension order**:
if every dimension of the interpolation parameter variable is a dimension of the tie point
variable or the interpolation subarea dimension of one of its subsampled dimensions, the
reader records exactly one position per parameter dimension, in the parameter variable's own
dimension order, each a valid tie point dimension position that `Corresponds` to it. -/
theorem C16_read_parameter_dimensions (rec : List SubDim) (dimensions paramDims : List String)
    (hrec : ∀ s ∈ rec, s.subsampled ∈ dimensions)
    (hall : ∀ x ∈ paramDims, x ∈ dimensions ∨ ∃ s ∈ rec, s.subarea = some x) :
    (readParameterDimensions rec dimensions paramDims).length = paramDims.length ∧
    (∀ i ∈ readParameterDimensions rec dimensions paramDims, i < dimensions.length) ∧
    ∀ (q : Nat) (x : String), paramDims[q]? = some x →
      ∃ i, (readParameterDimensions rec dimensions paramDims)[q]? = some i ∧
        Corresponds rec dimensions x i := by
  have hmap : readParameterDimensions rec dimensions paramDims =
      paramDims.map (fun x => (paramPosition rec dimensions x).getD 0) := by
    unfold readParameterDimensions
    induction paramDims with
    | nil => rfl
    | cons x l ih =>
      obtain ⟨i, hi, _, _⟩ := paramPosition_spec rec dimensions x hrec (hall x (by simp))
      rw [List.filterMap_cons, hi, List.map_cons, hi, ih (fun y hy => hall y (by simp [hy]))]
      rfl
  refine ⟨by rw [hmap]; simp, ?_, ?_⟩
  · intro i hi
    rw [hmap, List.mem_map] at hi
    obtain ⟨x, hx, rfl⟩ := hi
    obtain ⟨i, hi, hlt, _⟩ := paramPosition_spec rec dimensions x hrec (hall x hx)
    rw [hi]; exact hlt
  · intro q x hq
    obtain ⟨i, hi, _, hc⟩ := paramPosition_spec rec dimensions x hrec (hall x (List.mem_of_getElem? hq))
    exact ⟨i, by rw [hmap, List.getElem?_map, hq, Option.map_some, hi]; rfl, hc⟩

/-- tie points `c(x0, tp0)`, `tie_point_mapping = "u0: idx0 tp0 sa0"`, parameter `w(sa0, x0)` -/
example : readParameterDimensions
    (subsampledRecord [("u0", ["idx0", "tp0", "sa0"])]) ["x0", "tp0"] ["sa0", "x0"] = [1, 0] := by decide

/-- … and the positions are pairwise distinct (what `_conformed_parameters` needs) when the
parameter variable's dimensions are distinct and it does not span both a subsampled dimension
and that dimension's interpolation subarea dimension. -/
theorem C16_read_parameter_dimensions_nodup (rec : List SubDim) (dimensions paramDims : List String)
    (hrec : ∀ s ∈ rec, s.subsampled ∈ dimensions)
    (hall : ∀ x ∈ paramDims, x ∈ dimensions ∨ ∃ s ∈ rec, s.subarea = some x)
    (hp : paramDims.Nodup)
    (hkeys : ∀ a ∈ rec, ∀ b ∈ rec, a.subsampled = b.subsampled → a = b)
    (hboth : ∀ s ∈ rec, ∀ x, s.subarea = some x → x ∈ paramDims → s.subsampled ∉ paramDims) :
    (readParameterDimensions rec dimensions paramDims).Nodup := by
  have hmap : readParameterDimensions rec dimensions paramDims =
      paramDims.map (fun x => (paramPosition rec dimensions x).getD 0) := by
    unfold readParameterDimensions
    induction paramDims with
    | nil => rfl
    | cons x l ih =>
      obtain ⟨i, hi, _, _⟩ := paramPosition_spec rec dimensions x hrec (hall x (by simp))
      rw [List.filterMap_cons, hi, List.map_cons, hi,
        ih (fun y hy => hall y (by simp [hy])) (List.nodup_cons.mp hp).2
          (fun s hs x hx hxl => fun h => hboth s hs x hx (by simp [hxl]) (by simp [h]))]
      rfl
  rw [hmap]
  apply List.Nodup.map_on _ hp
  intro x hx y hy hxy
  obtain ⟨i, hi, hil, hci⟩ := paramPosition_spec rec dimensions x hrec (hall x hx)
  obtain ⟨j, hj, hjl, hcj⟩ := paramPosition_spec rec dimensions y hrec (hall y hy)
  simp only [hi, hj, Option.getD_some] at hxy
  subst hxy
  rcases hci with h1 | ⟨hxn, s, hs, hsx, h1⟩ <;> rcases hcj with h2 | ⟨hyn, s', hs', hsy, h2⟩
  · rw [h1] at h2; exact Option.some.inj h2
  · rw [h1] at h2
    have : x = s'.subsampled := Option.some.inj h2
    exact absurd (this ▸ hx) (hboth s' hs' y hsy hy)
  · rw [h1] at h2
    have : s.subsampled = y := Option.some.inj h2
    exact absurd (this ▸ hy) (hboth s hs x hsx hx)
  · rw [h1] at h2
    have hss : s = s' := hkeys s hs s' hs' (Option.some.inj h2)
    subst hss
    rw [hsx] at hsy
    exact Option.some.inj hsy

/-- **Tie point indices as read**: position `i` of the tie point variable's dimensions gets the
tie point index variable `v` exactly when that dimension is a subsampled dimension of the
`tie_point_mapping` whose index variable is `v`. -/
theorem C16_read_tie_point_indices (rec : List SubDim) (dimensions : List String) (i : Nat) (v : String) :
    (i, v) ∈ readTiePointIndices rec dimensions ↔
      ∃ d s, dimensions[i]? = some d ∧ lookupSub rec d = some s ∧ s.indexVar = v := by
  unfold readTiePointIndices
  simp only [List.mem_filterMap, Prod.exists, Option.map_eq_some_iff, Prod.mk.injEq]
  constructor
  · rintro ⟨d, i', hmem, s, hs, hi, hv⟩
    subst hi
    exact ⟨d, s, by simpa [List.mem_zipIdx_iff_getElem?] using hmem, hs, hv⟩
  · rintro ⟨d, s, hd, hs, hv⟩
    exact ⟨d, i, by simpa [List.mem_zipIdx_iff_getElem?] using hd, s, hs, rfl, hv⟩

example : readTiePointIndices (subsampledRecord [("u0", ["idx0", "tp0", "sa0"]), ("u1", ["idx1", "tp1"])])
    ["tp0", "x0", "tp1"] = [(0, "idx0"), (2, "idx1")] := by decide

/-- **The uncompressed shape as read is the shape of the target domain**: one entry per tie point
dimension — the size of the interpolated dimension where the dimension is subsampled, else its
own size — plus, for bounds tie points, a trailing dimension of twice the number of subsampled
dimensions. -/
theorem C16_read_shape (rec : List SubDim) (dimensions : List String) (sizes : List (String × Nat))
    (bounds : Bool) :
    readShape rec dimensions sizes bounds =
      dimensions.map (fun d => match lookupSub rec d with
        | some s => sizeOf sizes s.interpolated
        | none => sizeOf sizes d) ++
      (if bounds then [2 * (dimensions.filter (fun d => (lookupSub rec d).isSome)).length] else []) := by
  unfold readShape uncompressedDims
  rw [List.map_map]
  congr 1
  apply List.map_congr_left
  intro d _
  simp only [Function.comp]
  cases lookupSub rec d <;> rfl

example : readShape (subsampledRecord [("u0", ["idx0", "tp0", "sa0"]), ("u1", ["idx1", "tp1"])])
    ["tp0", "x0", "tp1"] [("tp0", 3), ("x0", 2), ("tp1", 4), ("u0", 12), ("u1", 20)] true = [12, 2, 20, 4] := by
  decide

/-! ### quadratic_latitude_longitude and bi_quadratic_latitude_longitude

The algebra of the two methods is modelled exactly; `_fll2v`, `_fv2lat`, `_fv2lon`, `_fsqrt` are
the uninterpreted fields of `Geo`.  `RoundTrip G latitude tp` says that the tie points survive
latitude/longitude → unit vector → latitude/longitude (true of the real functions for latitudes
in [-90, 90] off the poles and longitudes in (-180, 180]). -/

/-- The tie points survive the conversion to a vector and back. -/
def RoundTrip (G : Geo) (latitude : Bool) (tp : List LL) : Prop :=
  ∀ i, G.v2ll latitude (G.ll2v (llAt tp i).1 (llAt tp i).2) = pick latitude (llAt tp i)

theorem toyGeo_roundTrip (latitude : Bool) (tp : List LL) : RoundTrip toyGeo latitude tp := by
  intro i; cases latitude <;> rfl

/-- **Reconstitution, `quadratic_latitude_longitude`.**  For every strictly increasing tie point
index vector, every tie point pair `k`, `k + 1` that is not an area boundary and every target
index `p` between their indices, the reconstituted latitude (longitude) is Appendix J's
`quadratic_latitude_longitude` value at `s(a, b, p)` — interpolation in 3-d cartesian or in
latitude-longitude coordinates as the subarea's `location_use_3d_cartesian` flag says, with
that subarea's `ce`, `ca` — computed from the latitude AND longitude tie points `k`, `k + 1`. -/
theorem C16_qll_reconstitution (G : Geo) (latitude : Bool) (tp : List LL) (P : QParams)
    (hrt : RoundTrip G latitude tp) (t : List Nat) (n : Nat)
    (hinc : t.Pairwise (· < ·)) (hn : ∀ x ∈ t, x < n)
    (k a b : Nat) (ha : t[k]? = some a) (hb : t[k + 1]? = some b) (hgap : a + 2 ≤ b)
    (p : Nat) (hap : a ≤ p) (hpb : p ≤ b) :
    (recon1G (qllM G latitude tp P) n t)[p]? =
      some (some (qllPoint G latitude (P.cart.getD (subareaIndex t k) false) (llAt tp k) (llAt tp (k + 1))
        (P.ce.map (·.getD (subareaIndex t k) 0)) (P.ca.map (·.getD (subareaIndex t k) 0)) (sParam a b p))) :=
  recon1G_get (qllM G latitude tp P) (fun i => pick latitude (llAt tp i))
    (fun j i => qllPoint_zero G latitude _ _ _ _ _ (hrt i))
    (fun j i => qllPoint_one G latitude _ _ _ _ _ (hrt (i + 1)))
    t n hinc hn k a b ha hb hgap p hap hpb

/-- **Every latitude (longitude) tie point is reproduced exactly at its tie point index**, in
both branches of the method and whatever the coefficients. -/
theorem C16_qll_tie_exact (G : Geo) (latitude : Bool) (tp : List LL) (P : QParams)
    (hrt : RoundTrip G latitude tp) (t : List Nat) (n : Nat)
    (hwf : wfAreas true t = true) (hn : ∀ x ∈ t, x < n) (k a : Nat) (ha : t[k]? = some a) :
    (recon1G (qllM G latitude tp P) n t)[a]? = some (some (pick latitude (llAt tp k))) := by
  have hinc := wfAreas_pairwise t true hwf
  rcases wfAreas_pair t true hwf k a ha with ⟨_, hf⟩ | ⟨b, hb, hab⟩ | ⟨k', a', hk, ha', haa⟩
  · simp at hf
  · rw [C16_qll_reconstitution G latitude tp P hrt t n hinc hn k a b ha hb hab a (Nat.le_refl _) (by omega),
      (sParam_ends a b (by omega)).1]
    exact congrArg (fun x => some (some x)) (qllPoint_zero G latitude _ _ _ _ _ (hrt k))
  · subst hk
    rw [C16_qll_reconstitution G latitude tp P hrt t n hinc hn k' a' a ha' ha haa a (by omega) (Nat.le_refl _),
      (sParam_ends a' a (by omega)).2]
    exact congrArg (fun x => some (some x)) (qllPoint_one G latitude _ _ _ _ _ (hrt (k' + 1)))

example : (recon1G (qllM toyGeo true [(10, 5), (20, 15), (35, 30)] ⟨some [1 / 8, 1 / 4], none, [true, false]⟩)
    9 [0, 4, 8])[4]? = some (some 20) := by decide +kernel
example : (recon1G (qllM toyGeo true [(10, 5), (20, 15), (35, 30)] ⟨some [1 / 8, 1 / 4], none, [true, false]⟩)
    9 [0, 4, 8])[2]? = some (some ((-311135 : Rat) / 64)) := by decide +kernel

/-- The latitude-longitude branch of /repo HEAD raises (TypeError) instead of returning a value;
the patched branch interpolates quadratically between the tie points through the mid point of
the cartesian curve. -/
theorem C16_old_qll_noncartesian_counterexample :
    qllPointOld toyGeo true false (10, 5) (20, 15) (some (1 / 8)) none (1 / 2) = none ∧
    qllPoint toyGeo true false (10, 5) (20, 15) (some (1 / 8)) none (1 / 2) =
      qllPoint toyGeo true true (10, 5) (20, 15) (some (1 / 8)) none (1 / 2) := by decide +kernel

/-- The tie points of a 2-d tie point array survive the round trip. -/
def RoundTrip2 (G : Geo) (latitude : Bool) (tp : List (List LL)) : Prop :=
  ∀ i j, G.v2ll latitude (G.ll2v (llAt2 tp i j).1 (llAt2 tp i j).2) = pick latitude (llAt2 tp i j)

/-- **Reconstitution, `bi_quadratic_latitude_longitude`**: the element at `(p0, p1)`, in the part
of the target domain that the interpolation subarea `(k0, k1)` writes (from its low index —
`a` when tie point `k` opens its continuous area, else `a + 1` — to `b` in each dimension), is
Appendix J's `bi_quadratic_latitude_longitude` value at `(s(a0, b0, p0), s(a1, b1, p1))` with
the four tie points of the subarea, `ce1`/`ca1` taken at the two tie point rows and this
subarea column, `ce2`/`ca2` at this subarea row and the two tie point columns, `ce3`/`ca3` and the
flag at this subarea. -/
theorem C16_bqll_reconstitution (G : Geo) (latitude : Bool) (tp : List (List LL)) (P : BQParams)
    (t0 t1 : List Nat) (n0 n1 : Nat)
    (hinc0 : t0.Pairwise (· < ·)) (hinc1 : t1.Pairwise (· < ·))
    (hn0 : ∀ x ∈ t0, x < n0) (hn1 : ∀ x ∈ t1, x < n1)
    (k0 a0 b0 : Nat) (ha0 : t0[k0]? = some a0) (hb0 : t0[k0 + 1]? = some b0) (hg0 : a0 + 2 ≤ b0)
    (k1 a1 b1 : Nat) (ha1 : t1[k1]? = some a1) (hb1 : t1[k1 + 1]? = some b1) (hg1 : a1 + 2 ≤ b1)
    (p0 : Nat) (h0 : lowVertex (areaStart t0 k0) a0 ≤ p0) (h0' : p0 ≤ b0)
    (p1 : Nat) (h1 : lowVertex (areaStart t1 k1) a1 ≤ p1) (h1' : p1 ≤ b1) :
    ((recon2G (bqllM G latitude tp P) n0 n1 t0 t1)[p0]?.bind (·[p1]?)) =
      some (some (bqllM G latitude tp P (subareaIndex t0 k0) (subareaIndex t1 k1) k0 k1
        (sParam a0 b0 p0) (sParam a1 b1 p1))) :=
  recon2G_owned (bqllM G latitude tp P) t0 t1 n0 n1 hinc0 hinc1 hn0 hn1 k0 a0 b0 ha0 hb0 hg0
    k1 a1 b1 ha1 hb1 hg1 p0 h0 h0' p1 h1 h1'

/-- **The tie point at the far corner of every 2-d interpolation subarea is reproduced exactly**
(and so are the other three corners where the subarea opens a continuous area in that
dimension — in a well-formed index vector every tie point is such a corner of some subarea). -/
theorem C16_bqll_corners (G : Geo) (latitude : Bool) (tp : List (List LL)) (P : BQParams)
    (hrt : RoundTrip2 G latitude tp) (t0 t1 : List Nat) (n0 n1 : Nat)
    (hinc0 : t0.Pairwise (· < ·)) (hinc1 : t1.Pairwise (· < ·))
    (hn0 : ∀ x ∈ t0, x < n0) (hn1 : ∀ x ∈ t1, x < n1)
    (k0 a0 b0 : Nat) (ha0 : t0[k0]? = some a0) (hb0 : t0[k0 + 1]? = some b0) (hg0 : a0 + 2 ≤ b0)
    (k1 a1 b1 : Nat) (ha1 : t1[k1]? = some a1) (hb1 : t1[k1 + 1]? = some b1) (hg1 : a1 + 2 ≤ b1) :
    let u := recon2G (bqllM G latitude tp P) n0 n1 t0 t1
    (u[b0]?.bind (·[b1]?)) = some (some (pick latitude (llAt2 tp (k0 + 1) (k1 + 1)))) ∧
    (areaStart t0 k0 = true → (u[a0]?.bind (·[b1]?)) = some (some (pick latitude (llAt2 tp k0 (k1 + 1))))) ∧
    (areaStart t1 k1 = true → (u[b0]?.bind (·[a1]?)) = some (some (pick latitude (llAt2 tp (k0 + 1) k1)))) ∧
    (areaStart t0 k0 = true → areaStart t1 k1 = true →
      (u[a0]?.bind (·[a1]?)) = some (some (pick latitude (llAt2 tp k0 k1)))) := by
  intro u
  have e0 := sParam_ends a0 b0 (by omega)
  have e1 := sParam_ends a1 b1 (by omega)
  have hv0 : lowVertex (areaStart t0 k0) a0 ≤ b0 := by simp only [lowVertex]; split <;> omega
  have hv1 : lowVertex (areaStart t1 k1) a1 ≤ b1 := by simp only [lowVertex]; split <;> omega
  have key := fun p0 h0 h0' p1 h1 h1' => C16_bqll_reconstitution G latitude tp P t0 t1 n0 n1 hinc0 hinc1
    hn0 hn1 k0 a0 b0 ha0 hb0 hg0 k1 a1 b1 ha1 hb1 hg1 p0 h0 h0' p1 h1 h1'
  have c := fun cart ce1 ca1 ce2 ca2 ce3 ca3 => bqllPoint_corners G latitude cart
    (llAt2 tp k0 k1) (llAt2 tp k0 (k1 + 1)) (llAt2 tp (k0 + 1) k1) (llAt2 tp (k0 + 1) (k1 + 1))
    ce1 ca1 ce2 ca2 ce3 ca3 (hrt _ _) (hrt _ _) (hrt _ _) (hrt _ _)
  refine ⟨?_, ?_, ?_, ?_⟩
  · simp only [u]
    rw [key b0 hv0 (Nat.le_refl _) b1 hv1 (Nat.le_refl _), e0.2, e1.2]
    exact congrArg (fun x => some (some x)) (c _ _ _ _ _ _ _).2.2.2
  · intro hs0
    simp only [u]
    rw [key a0 (by rw [hs0]; simp [lowVertex]) (by omega) b1 hv1 (Nat.le_refl _), e0.1, e1.2]
    exact congrArg (fun x => some (some x)) (c _ _ _ _ _ _ _).2.1
  · intro hs1
    simp only [u]
    rw [key b0 hv0 (Nat.le_refl _) a1 (by rw [hs1]; simp [lowVertex]) (by omega), e0.2, e1.1]
    exact congrArg (fun x => some (some x)) (c _ _ _ _ _ _ _).2.2.1
  · intro hs0 hs1
    simp only [u]
    rw [key a0 (by rw [hs0]; simp [lowVertex]) (by omega) a1 (by rw [hs1]; simp [lowVertex]) (by omega),
      e0.1, e1.1]
    exact congrArg (fun x => some (some x)) (c _ _ _ _ _ _ _).1

/-- In a well-formed index vector every tie point closes an interpolation subarea or opens a
continuous area (and then an interpolation subarea). -/
theorem wf_owner (t : List Nat) (hwf : wfAreas true t = true) (k a : Nat) (ha : t[k]? = some a) :
    (∃ k' a', k = k' + 1 ∧ t[k']? = some a' ∧ a' + 2 ≤ a) ∨
    (areaStart t k = true ∧ ∃ b, t[k + 1]? = some b ∧ a + 2 ≤ b) := by
  have hinc := wfAreas_pairwise t true hwf
  cases hst : areaStart t k with
  | false => exact Or.inl (prev_gap t hinc k a ha hst)
  | true =>
    rcases wfAreas_pair t true hwf k a ha with ⟨_, hf⟩ | ⟨b, hb, hab⟩ | ⟨k', a', hk, ha', haa⟩
    · simp at hf
    · exact Or.inr ⟨rfl, b, hb, hab⟩
    · exact Or.inl ⟨k', a', hk, ha', haa⟩

/-- **Every latitude (longitude) tie point of a 2-d tie point array is reproduced exactly at its
pair of tie point indices** (`bi_quadratic_latitude_longitude`, well-formed index vectors, both
branches of the method, any coefficients). -/
theorem C16_bqll_tie_exact (G : Geo) (latitude : Bool) (tp : List (List LL)) (P : BQParams)
    (hrt : RoundTrip2 G latitude tp) (t0 t1 : List Nat) (n0 n1 : Nat)
    (hwf0 : wfAreas true t0 = true) (hwf1 : wfAreas true t1 = true)
    (hn0 : ∀ x ∈ t0, x < n0) (hn1 : ∀ x ∈ t1, x < n1)
    (k0 a0 : Nat) (ha0 : t0[k0]? = some a0) (k1 a1 : Nat) (ha1 : t1[k1]? = some a1) :
    ((recon2G (bqllM G latitude tp P) n0 n1 t0 t1)[a0]?.bind (·[a1]?)) =
      some (some (pick latitude (llAt2 tp k0 k1))) := by
  have hinc0 := wfAreas_pairwise t0 true hwf0
  have hinc1 := wfAreas_pairwise t1 true hwf1
  have corners := fun k0 a0 b0 ha0 hb0 hg0 k1 a1 b1 ha1 hb1 hg1 =>
    C16_bqll_corners G latitude tp P hrt t0 t1 n0 n1 hinc0 hinc1 hn0 hn1 k0 a0 b0 ha0 hb0 hg0
      k1 a1 b1 ha1 hb1 hg1
  rcases wf_owner t0 hwf0 k0 a0 ha0 with ⟨k0', a0', hk0, ha0', hg0⟩ | ⟨hs0, b0, hb0, hg0⟩ <;>
    rcases wf_owner t1 hwf1 k1 a1 ha1 with ⟨k1', a1', hk1, ha1', hg1⟩ | ⟨hs1, b1, hb1, hg1⟩
  · subst hk0 hk1
    exact (corners k0' a0' a0 ha0' ha0 hg0 k1' a1' a1 ha1' ha1 hg1).1
  · subst hk0
    exact (corners k0' a0' a0 ha0' ha0 hg0 k1 a1 b1 ha1 hb1 hg1).2.2.1 hs1
  · subst hk1
    exact (corners k0 a0 b0 ha0 hb0 hg0 k1' a1' a1 ha1' ha1 hg1).2.1 hs0
  · exact (corners k0 a0 b0 ha0 hb0 hg0 k1 a1 b1 ha1 hb1 hg1).2.2.2 hs0 hs1

example : wfAreas true [0, 2] = true ∧ ([0, 2] : List Nat)[1]? = some 2 := by decide

example : ((recon2G (bqllM toyGeo false [[(0, 0), (1, 10)], [(5, 2), (7, 13)]]
      ⟨some (fun _ _ => 1 / 4), none, none, some (fun _ _ => 1 / 2), none, none, fun _ _ => false⟩)
    3 3 [0, 2] [0, 2])[2]?.bind (·[2]?)) = some (some 13) := by decide +kernel

/-! ### dependent tie points as handed over by the reader -/

theorem conformDep_eq_conform {α} (D : Nat) (tdims : List Nat) (T : Arr α) (h : tdims.length = D) :
    conformDep D tdims T = conform D tdims T := by
  unfold conformDep conform conformGo
  split
  · rfl
  · simp [h]

/-- **The dependent tie points of a multivariate method are matched dimension by dimension**: for
a coordinate whose tie point array has the (distinct) dimensions `axes` and a dependent coordinate
storing the same dimensions in ANY order `a`, the dependent array conformed with the dimensions the
reader records has, at the coordinate's own multi-index `idx`, the stored element whose index along
its own dimension `a[q]` is `idx` at the position of that dimension in `axes`. -/
theorem C16_read_dependent_tie_points {α} (axes a : List String) (T : Arr α)
    (hnd : a.Nodup) (hsub : ∀ x ∈ a, x ∈ axes) (hlen : a.length = axes.length)
    (hT : T.shape.length = a.length) (idx : List Nat) (hidx : idx.length = axes.length) :
    (conformDep axes.length (readDependentDims axes a) T).get idx =
      T.get (a.map (fun x => idx.getD (axes.idxOf x) 0)) := by
  have hl : (readDependentDims axes a).length = axes.length := by simp [readDependentDims, hlen]
  rw [conformDep_eq_conform _ _ _ hl]
  have hnd' : (readDependentDims axes a).Nodup := by
    unfold readDependentDims
    apply List.Nodup.map_on _ hnd
    intro x hx y hy hxy
    have h1 : axes[axes.idxOf x]'(List.idxOf_lt_length_of_mem (hsub x hx)) = x := List.getElem_idxOf _
    have h2 : axes[axes.idxOf y]'(List.idxOf_lt_length_of_mem (hsub y hy)) = y := List.getElem_idxOf _
    rw [← h1, ← h2]
    congr 1
  have hlt : ∀ d ∈ readDependentDims axes a, d < axes.length := by
    intro d hd
    simp only [readDependentDims, List.mem_map] at hd
    obtain ⟨x, hx, rfl⟩ := hd
    exact List.idxOf_lt_length_of_mem (hsub x hx)
  rw [conform_get _ _ T hnd' hlt (by rw [hT, hl, hlen]) idx hidx]
  simp only [readDependentDims, List.map_map]
  rfl

/-- latitude tie points `(x, tp0, tp1)`, longitude tie points stored `(tp0, tp1, x)`: the reader
of /repo HEAD records the inverse permutation `(2, 0, 1)`, with which the element asked for at
`(x, tp0, tp1) = (1, 0, 2)` is not the stored `lon[tp0 = 0, tp1 = 2, x = 1]`. -/
theorem C16_old_dependent_dimensions_counterexample :
    readDependentDimsOld ["x", "tp0", "tp1"] ["tp0", "tp1", "x"] = [2, 0, 1] ∧
    readDependentDims ["x", "tp0", "tp1"] ["tp0", "tp1", "x"] = [1, 2, 0] ∧
    (conformDep 3 [1, 2, 0] (iota [2, 3, 2])).get [1, 0, 2] = (iota [2, 3, 2]).get [0, 2, 1] ∧
    (conformDep 3 [2, 0, 1] (iota [2, 3, 2])).get [1, 0, 2] ≠ (iota [2, 3, 2]).get [0, 2, 1] := by
  decide

end Cfdm.Props.C16
