import Cfdm.Lemmas.Subsample
/-
C16 — subsampled coordinates are reconstituted by the stated interpolation.
Property theorems only.  Model: `Cfdm/Model/Subsample.lean` (the code's subarea
loop, `_s`, `_trim`, `_broadcast_bounds`, block assignment); specification:
`Cfdm/Spec/AppendixJ.lean` (CF 8.3 / Appendix J, no loop, no `first` flag).
Arithmetic is exact (`Rat`); floats are not modelled.

Hypotheses used below
* `t.Pairwise (· < ·)`      the tie point index vector is strictly increasing;
* `wfAreas true t = true`    … and every continuous area has at least two tie points
                             (adjacent indices differing by one = area boundary);
* `∀ x ∈ t, x < n`           every tie point index addresses the target dimension.
-/
namespace Cfdm.Props.C16
open Cfdm.Subsample Cfdm.Spec.AppendixJ

/-- A 1-d method reproduces its end values at `s = 0` and `s = 1`. -/
def Endpoints (F : Method) : Prop := (∀ j a b, F j a b 0 = a) ∧ (∀ j a b, F j a b 1 = b)

theorem linearM_endpoints : Endpoints linearM := by
  constructor <;> intro j a b <;> simp [linearM, linear]

theorem quadraticM_endpoints (w : Option (List Rat)) : Endpoints (quadraticM w) := by
  constructor <;> intro j a b <;> cases w <;> simp [quadraticM, quadraticOpt, quadratic, linear]

/-! ### the integer bookkeeping -/

/-- **Partition.**  For every well-formed tie point index vector that starts at 0
and ends at `n - 1`, the `u_indices` slices of the subareas, in loop order,
enumerate `0, 1, …, n - 1`: each target position is written exactly once, no
overlap, no hole (whatever the number and sizes of areas and subareas). -/
theorem C16_partition (t : List Nat) (n : Nat) (h : wfAreas true t = true)
    (h0 : t.head? = some 0) (hl : t.getLast? = some (n - 1)) (hn : 0 < n) :
    covered (subs t) = List.range n := by
  have := (covered_subsGo t 0 true 0 0 (n - 1) h h0 hl).2
  rw [subs, this, List.range_eq_range']
  simp only [lowVertex, if_true]
  congr 1
  omega

example : wfAreas true [0, 4, 7, 8, 11] = true := by decide
example : covered (subs [0, 4, 7, 8, 11]) = List.range 12 := by decide
example : (subs [0, 4, 7, 8, 11]).map (fun s => (s.uStart, s.uStop, s.tp, s.first, s.loc)) =
    [(0, 5, 0, true, 0), (5, 8, 1, false, 1), (8, 12, 3, true, 2)] := by decide
/-- not well-formed: the area {4} has a single tie point; not strictly increasing -/
example : wfAreas true [0, 3, 4, 5, 8] = false := by decide
example : wfAreas true [0, 3, 3, 6] = false := by decide

/-- **Shape.**  The reconstituted array has the target shape, for any index
vectors, tie points and method (coordinates and bounds, one and two subsampled
dimensions). -/
theorem C16_shape (F : Method) (n n0 n1 : Nat) (t t0 t1 : List Nat) (tp : List Rat)
    (tp2 : List (List Rat)) :
    (recon1 F n t tp).length = n ∧ (recon1b F n t tp).length = n ∧
    ((recon2 n0 n1 t0 t1 tp2).length = n0 ∧ ∀ row ∈ recon2 n0 n1 t0 t1 tp2, row.length = n1) ∧
    ((recon2b n0 n1 t0 t1 tp2).length = n0 ∧ ∀ row ∈ recon2b n0 n1 t0 t1 tp2, row.length = n1) := by
  refine ⟨?_, ?_, ?_, ?_⟩
  · simp [recon1, assemble1_length]
  · simp [recon1b, assemble1b_length]
  · exact foldl_writeBlock2_shape n0 n1 (subs t0) (subs t1) (·.uStart) (·.uStart) (block2 tp2) _
      (by simp) (by intro row hrow; simp only [List.mem_replicate] at hrow; simp [hrow.2])
  · exact foldl_writeBlock2_shape n0 n1 (subs t0) (subs t1) (·.uStart) (·.uStart) (block2b tp2) _
      (by simp) (by intro row hrow; simp only [List.mem_replicate] at hrow; simp [hrow.2])

example : (recon1 linearM 12 [0, 4, 7, 8, 11] [15, 135, 225, 255, 345]).length = 12 := by decide +kernel

/-! ### reconstitution = CF Appendix J -/

/-- **Reconstitution, coordinates, one subsampled dimension.**  For every strictly
increasing tie point index vector, every pair of tie points `k`, `k + 1` that is
not an area boundary (`a + 2 ≤ b`), and every target index `p` with `a ≤ p ≤ b`,
the element of the assembled array is the method's value at the Appendix J
interpolation variable `s(a, b, p) = (p - a) / (b - a)`, with the parameters of
that interpolation subarea (`subareaIndex`).  The code's `first` flag, the trimming
of the first point of non-first subareas and the order of assignments do not
appear in the statement. -/
theorem C16_reconstitution (F : Method) (hF : Endpoints F) (t : List Nat) (n : Nat) (tp : List Rat)
    (hinc : t.Pairwise (· < ·)) (hn : ∀ x ∈ t, x < n)
    (k a b : Nat) (ha : t[k]? = some a) (hb : t[k + 1]? = some b) (hgap : a + 2 ≤ b)
    (p : Nat) (hap : a ≤ p) (hpb : p ≤ b) :
    (recon1 F n t tp)[p]? =
      some (some (F (subareaIndex t k) (tp.getD k 0) (tp.getD (k + 1) 0) (sParam a b p))) := by
  have := (assemble1_get F hF.1 hF.2 tp t 0 true 0 (List.replicate n none) hinc
    (by simpa using hn)).2 k a b ha hb hgap p hap hpb (fun _ _ => rfl)
  rw [recon1, subs, this]
  simp only [Nat.zero_add, sParam]
  rw [Nat.cast_sub hap, Nat.cast_sub (by omega : a ≤ b)]

example : ([0, 4, 7, 8, 11] : List Nat).Pairwise (· < ·) := by decide
example : (recon1 linearM 12 [0, 4, 7, 8, 11] [15, 135, 225, 255, 345])[5]? = some (some 165) := by
  decide +kernel

/-- **`linear` is the stated formula**: the code's `ua + s (ub - ua)` is the point
dividing `ua → ub` in the ratio `s : 1 - s`. -/
theorem C16_linear_formula (ua ub s : Rat) : linear ua ub s = fl ua ub s := by
  simp only [linear, fl]; ring

/-- Linear reconstitution in Appendix J's own terms. -/
theorem C16_linear (t : List Nat) (n : Nat) (tp : List Rat)
    (hinc : t.Pairwise (· < ·)) (hn : ∀ x ∈ t, x < n)
    (k a b : Nat) (ha : t[k]? = some a) (hb : t[k + 1]? = some b) (hgap : a + 2 ≤ b)
    (p : Nat) (hap : a ≤ p) (hpb : p ≤ b) :
    (recon1 linearM n t tp)[p]? = some (some (fl (tp.getD k 0) (tp.getD (k + 1) 0) (sParam a b p))) := by
  rw [C16_reconstitution linearM linearM_endpoints t n tp hinc hn k a b ha hb hgap p hap hpb]
  simp only [linearM, C16_linear_formula]

/-- **`bi_linear` is the tensor product** of two linear interpolations (so the order
in which the code interpolates the two dimensions is immaterial). -/
theorem C16_bilinear_formula (ua ub uc ud s2 s1 : Rat) :
    bilinear ua ub uc ud s2 s1 = fbl ua ub uc ud s2 s1 ∧
    bilinear ua ub uc ud s2 s1 = linear (linear ua ub s1) (linear uc ud s1) s2 := by
  simp only [bilinear, linear, fbl]
  constructor <;> ring

/-- **`quadratic` with its coefficient**: the code's formula is the parabola through the
two tie points deviating from the chord by `4 w s (1 - s)`; at the subarea's midpoint the
deviation is `w`; `_fw` recovers `w` from any interior point; without `w` the method is
`linear` (`w = 0`). -/
theorem C16_quadratic_formula (ua ub w s : Rat) :
    quadratic ua ub w s = fq ua ub w s ∧
    quadratic ua ub w (1 / 2) = (ua + ub) / 2 + w ∧
    (s ≠ 0 → s ≠ 1 → fw ua ub (quadratic ua ub w s) s = w) ∧
    quadraticOpt none ua ub s = fq ua ub 0 s := by
  refine ⟨?_, ?_, ?_, ?_⟩
  · simp only [quadratic, fq]; ring
  · simp only [quadratic]; ring
  · intro h0 h1
    have h1' : 1 - s ≠ 0 := fun h => h1 (by linarith)
    simp only [fw, quadratic]
    field_simp
    ring
  · simp only [quadraticOpt, linear, fq]; ring

/-- Quadratic reconstitution in Appendix J's terms, the coefficient taken from the
subarea's position along the interpolation subarea dimension. -/
theorem C16_quadratic (w : List Rat) (t : List Nat) (n : Nat) (tp : List Rat)
    (hinc : t.Pairwise (· < ·)) (hn : ∀ x ∈ t, x < n)
    (k a b : Nat) (ha : t[k]? = some a) (hb : t[k + 1]? = some b) (hgap : a + 2 ≤ b)
    (p : Nat) (hap : a ≤ p) (hpb : p ≤ b) :
    (recon1 (quadraticM (some w)) n t tp)[p]? =
      some (some (fq (tp.getD k 0) (tp.getD (k + 1) 0) (w.getD (subareaIndex t k) 0) (sParam a b p))) := by
  rw [C16_reconstitution _ (quadraticM_endpoints _) t n tp hinc hn k a b ha hb hgap p hap hpb]
  simp only [quadraticM, quadraticOpt, Option.map_some, (C16_quadratic_formula _ _ _ _).1]

example : subareaIndex [0, 4, 7, 8, 11] 3 = 2 := by decide
example : (recon1 (quadraticM (some [5, 10, 5])) 12 [0, 4, 7, 8, 11] [15, 135, 225, 255, 345])[1]? =
    some (some (195 / 4)) := by decide +kernel

/-- **Every tie point is reproduced exactly at its tie point index** (well-formed
vectors; any method with the end-point property). -/
theorem C16_tie_exact (F : Method) (hF : Endpoints F) (t : List Nat) (n : Nat) (tp : List Rat)
    (hwf : wfAreas true t = true) (hn : ∀ x ∈ t, x < n) (k a : Nat) (ha : t[k]? = some a) :
    (recon1 F n t tp)[a]? = some (some (tp.getD k 0)) := by
  have hinc := wfAreas_pairwise t true hwf
  rcases wfAreas_pair t true hwf k a ha with ⟨_, hf⟩ | ⟨b, hb, hab⟩ | ⟨k', a', hk, ha', haa⟩
  · simp at hf
  · rw [C16_reconstitution F hF t n tp hinc hn k a b ha hb hab a (Nat.le_refl _) (by omega)]
    simp [sParam, hF.1]
  · subst hk
    rw [C16_reconstitution F hF t n tp hinc hn k' a' a ha' ha haa a (by omega) (Nat.le_refl _)]
    have : sParam a' a a = 1 := by
      have h : ((a : Rat) - (a' : Rat)) ≠ 0 := by
        have : (a' : Rat) < (a : Rat) := by exact_mod_cast (by omega : a' < a)
        linarith
      simp only [sParam]
      field_simp
    rw [this, hF.2]

example : (recon1 linearM 12 [0, 4, 7, 8, 11] [15, 135, 225, 255, 345])[7]? = some (some 225) := by
  decide +kernel

/-- Without the hypothesis on the areas the statement fails in the model exactly as in
cfdm: the single tie point of the area {4} is left masked. -/
theorem C16_single_tie_point_area_not_reproduced :
    (recon1 linearM 9 [0, 3, 4, 5, 8] [0, 30, 40, 50, 80])[4]? = some none := by decide +kernel

/-- **Adjacent subareas agree at a shared tie point**: the element at the shared index
`b` is both the left subarea's value at `s = 1` and the right subarea's value at
`s = 0` (and the tie point itself), so trimming the first point of the right
subarea loses nothing. -/
theorem C16_shared_agree (F : Method) (hF : Endpoints F) (t : List Nat) (n : Nat) (tp : List Rat)
    (hinc : t.Pairwise (· < ·)) (hn : ∀ x ∈ t, x < n)
    (k a b c : Nat) (ha : t[k]? = some a) (hb : t[k + 1]? = some b) (hc : t[k + 2]? = some c)
    (hab : a + 2 ≤ b) (hbc : b + 2 ≤ c) :
    (recon1 F n t tp)[b]? =
        some (some (F (subareaIndex t k) (tp.getD k 0) (tp.getD (k + 1) 0) (sParam a b b))) ∧
    (recon1 F n t tp)[b]? =
        some (some (F (subareaIndex t (k + 1)) (tp.getD (k + 1) 0) (tp.getD (k + 2) 0) (sParam b c b))) ∧
    (recon1 F n t tp)[b]? = some (some (tp.getD (k + 1) 0)) := by
  have h1 := C16_reconstitution F hF t n tp hinc hn k a b ha hb hab b (by omega) (Nat.le_refl _)
  have h2 := C16_reconstitution F hF t n tp hinc hn (k + 1) b c hb hc hbc b (Nat.le_refl _) (by omega)
  refine ⟨h1, h2, ?_⟩
  rw [h2]
  simp [sParam, hF.1]

example : ([0, 4, 7, 8, 11] : List Nat)[0 + 2]? = some 7 := by decide

/-- **Reconstitution, two subsampled dimensions (`bi_linear`).**  For strictly increasing
index vectors along both dimensions, tie point pairs `k0` (indices `a0`, `b0`) and `k1`
(`a1`, `b1`) that are not area boundaries, and every target position `(p0, p1)` in
`[a0, b0] × [a1, b1]`, the assembled array holds the tensor-product interpolation of the
four surrounding tie points at `(s(a0, b0, p0), s(a1, b1, p1))` — whatever the code's
product order of subareas, `first` flags and trimming in either dimension. -/
theorem C16_bilinear_reconstitution (t0 t1 : List Nat) (n0 n1 : Nat) (tp : List (List Rat))
    (hinc0 : t0.Pairwise (· < ·)) (hinc1 : t1.Pairwise (· < ·))
    (hn0 : ∀ x ∈ t0, x < n0) (hn1 : ∀ x ∈ t1, x < n1)
    (k0 a0 b0 : Nat) (ha0 : t0[k0]? = some a0) (hb0 : t0[k0 + 1]? = some b0) (hg0 : a0 + 2 ≤ b0)
    (k1 a1 b1 : Nat) (ha1 : t1[k1]? = some a1) (hb1 : t1[k1 + 1]? = some b1) (hg1 : a1 + 2 ≤ b1)
    (p0 : Nat) (h0 : a0 ≤ p0) (h0' : p0 ≤ b0) (p1 : Nat) (h1 : a1 ≤ p1) (h1' : p1 ≤ b1) :
    ∃ row, (recon2 n0 n1 t0 t1 tp)[p0]? = some row ∧
      row[p1]? = some (some (fbl (get2 tp k0 k1) (get2 tp k0 (k1 + 1)) (get2 tp (k0 + 1) k1)
        (get2 tp (k0 + 1) (k1 + 1)) (sParam a0 b0 p0) (sParam a1 b1 p1))) := by
  have hk1 : k1 + 1 < t1.length := by
    rcases Nat.lt_or_ge (k1 + 1) t1.length with h | h
    · exact h
    · rw [List.getElem?_eq_none h] at hb1; cases hb1
  have hss : ∀ s1 ∈ subs t1, s1.tp + 1 < t1.length := by
    intro s1 hs1
    have := subsGo_tp_lt t1 0 true 0 s1 hs1
    omega
  have hrow := (outer_get tp t1.length (subs t1) hss (List.replicate n1 none) t0 0 true 0
    (List.replicate n0 (List.replicate n1 none)) hinc0 (by simpa using hn0)
    (by
      intro p a _ _ hp
      simp only [List.length_replicate] at hp
      simp [List.getElem?_replicate, hp])).2 k0 a0 b0 ha0 hb0 hg0 p0 h0 h0' (fun _ _ => rfl)
  refine ⟨_, hrow, ?_⟩
  have := C16_reconstitution linearM linearM_endpoints t1 n1
    (tpRowL tp (0 + k0) (((p0 - a0 : Nat) : Rat) / ((b0 - a0 : Nat) : Rat)) t1.length)
    hinc1 hn1 k1 a1 b1 ha1 hb1 hg1 p1 h1 h1'
  rw [recon1] at this
  rw [this]
  simp only [linearM, Nat.zero_add]
  rw [tpRowL_getD _ _ _ _ _ (by omega), tpRowL_getD _ _ _ _ _ hk1]
  have e : (((p0 - a0 : Nat) : Rat) / ((b0 - a0 : Nat) : Rat)) = sParam a0 b0 p0 := by
    simp only [sParam]
    rw [Nat.cast_sub h0, Nat.cast_sub (by omega : a0 ≤ b0)]
  rw [e, ← (C16_bilinear_formula _ _ _ _ _ _).1]
  rfl

example : ((recon2 6 7 [0, 2, 3, 5] [0, 3, 6] [[0, 1, 2], [3, 4, 5], [6, 7, 8], [9, 10, 11]])[1]?.bind (·[4]?)) =
    some (some (17 / 6)) := by decide +kernel

/-- Appendix J's interpolation variable is 0 at the first and 1 at the second tie point. -/
theorem sParam_ends (a b : Nat) (h : a < b) : sParam a b a = 0 ∧ sParam a b b = 1 := by
  have hne : ((b : Rat) - (a : Rat)) ≠ 0 := by
    have : (a : Rat) < (b : Rat) := by exact_mod_cast h
    linarith
  constructor
  · simp [sParam]
  · simp only [sParam]; field_simp

/-- **The four tie points of a 2-d interpolation subarea are reproduced exactly** at the
corners of the subarea. -/
theorem C16_bilinear_corners (t0 t1 : List Nat) (n0 n1 : Nat) (tp : List (List Rat))
    (hinc0 : t0.Pairwise (· < ·)) (hinc1 : t1.Pairwise (· < ·))
    (hn0 : ∀ x ∈ t0, x < n0) (hn1 : ∀ x ∈ t1, x < n1)
    (k0 a0 b0 : Nat) (ha0 : t0[k0]? = some a0) (hb0 : t0[k0 + 1]? = some b0) (hg0 : a0 + 2 ≤ b0)
    (k1 a1 b1 : Nat) (ha1 : t1[k1]? = some a1) (hb1 : t1[k1 + 1]? = some b1) (hg1 : a1 + 2 ≤ b1) :
    ((recon2 n0 n1 t0 t1 tp)[a0]?.bind (·[a1]?)) = some (some (get2 tp k0 k1)) ∧
    ((recon2 n0 n1 t0 t1 tp)[a0]?.bind (·[b1]?)) = some (some (get2 tp k0 (k1 + 1))) ∧
    ((recon2 n0 n1 t0 t1 tp)[b0]?.bind (·[a1]?)) = some (some (get2 tp (k0 + 1) k1)) ∧
    ((recon2 n0 n1 t0 t1 tp)[b0]?.bind (·[b1]?)) = some (some (get2 tp (k0 + 1) (k1 + 1))) := by
  have e0 := sParam_ends a0 b0 (by omega)
  have e1 := sParam_ends a1 b1 (by omega)
  have key := fun p0 h0 h0' p1 h1 h1' => C16_bilinear_reconstitution t0 t1 n0 n1 tp hinc0 hinc1 hn0 hn1
    k0 a0 b0 ha0 hb0 hg0 k1 a1 b1 ha1 hb1 hg1 p0 h0 h0' p1 h1 h1'
  refine ⟨?_, ?_, ?_, ?_⟩
  · obtain ⟨row, hr, hv⟩ := key a0 (Nat.le_refl _) (by omega) a1 (Nat.le_refl _) (by omega)
    rw [hr, Option.bind_some, hv, e0.1, e1.1]; simp [fbl]
  · obtain ⟨row, hr, hv⟩ := key a0 (Nat.le_refl _) (by omega) b1 (by omega) (Nat.le_refl _)
    rw [hr, Option.bind_some, hv, e0.1, e1.2]; simp [fbl]
  · obtain ⟨row, hr, hv⟩ := key b0 (by omega) (Nat.le_refl _) a1 (Nat.le_refl _) (by omega)
    rw [hr, Option.bind_some, hv, e0.2, e1.1]; simp [fbl]
  · obtain ⟨row, hr, hv⟩ := key b0 (by omega) (Nat.le_refl _) b1 (by omega) (Nat.le_refl _)
    rw [hr, Option.bind_some, hv, e0.2, e1.2]; simp [fbl]

/-! ### bounds -/

/-- **Reconstitution of bounds, one subsampled dimension.**  In the subarea between tie
points `k`, `k + 1` (indices `a`, `b`, not an area boundary) the vertex grid runs from
`v0`, the low vertex of the subarea — vertex `a` if tie point `k` is the first of its
continuous area, else vertex `a + 1` — to vertex `b + 1`; cell `p` gets the vertices `p`
and `p + 1`, interpolated between the two bounds tie points with `s = (g - v0) / (b + 1 - v0)`. -/
theorem C16_bounds_reconstitution (F : Method) (t : List Nat) (n : Nat) (btp : List Rat)
    (hinc : t.Pairwise (· < ·)) (hn : ∀ x ∈ t, x < n)
    (k a b : Nat) (ha : t[k]? = some a) (hb : t[k + 1]? = some b) (hgap : a + 2 ≤ b)
    (p : Nat) (hap : lowVertex (areaStart t k) a ≤ p) (hpb : p ≤ b) :
    (recon1b F n t btp)[p]? =
      some (some [F (subareaIndex t k) (btp.getD k 0) (btp.getD (k + 1) 0)
                    (sParam (lowVertex (areaStart t k) a) (b + 1) p),
                  F (subareaIndex t k) (btp.getD k 0) (btp.getD (k + 1) 0)
                    (sParam (lowVertex (areaStart t k) a) (b + 1) (p + 1))]) := by
  have := (assemble1b_get F btp t 0 true 0 (List.replicate n none) hinc
    (by simpa using hn)).2 k a b ha hb hgap p hap hpb
  rw [recon1b, subs, this]
  have hv : lowVertex (areaStart t k) a ≤ b := by
    simp only [lowVertex]; split <;> omega
  unfold areaStart at hap hv ⊢
  generalize lowVertex (startAt true t k) a = v0 at hap hv ⊢
  simp only [Nat.zero_add, sParam]
  rw [Nat.cast_sub hap, Nat.cast_sub (show v0 ≤ p + 1 by omega),
    Nat.cast_sub (show v0 ≤ b + 1 by omega)]

example : areaStart [0, 4, 7, 8, 11] 1 = false ∧ areaStart [0, 4, 7, 8, 11] 3 = true := by decide
example : (recon1b linearM 12 [0, 4, 7, 8, 11] [0, 150, 240, 240, 360])[5]? = some (some [150, 180]) := by
  decide +kernel

/-- **Bounds are contiguous inside a continuous area and hit the bounds tie points**: the
last cell of a subarea ends on the bounds tie point `k + 1`, on which the first cell of
the next subarea of the same area starts. -/
theorem C16_bounds_contiguous (F : Method) (hF : Endpoints F) (t : List Nat) (n : Nat) (btp : List Rat)
    (hinc : t.Pairwise (· < ·)) (hn : ∀ x ∈ t, x < n)
    (k a b c : Nat) (ha : t[k]? = some a) (hb : t[k + 1]? = some b) (hc : t[k + 2]? = some c)
    (hab : a + 2 ≤ b) (hbc : b + 2 ≤ c) :
    (∃ x, (recon1b F n t btp)[b]? = some (some [x, btp.getD (k + 1) 0])) ∧
    (∃ y, (recon1b F n t btp)[b + 1]? = some (some [btp.getD (k + 1) 0, y])) := by
  constructor
  · have hlv : lowVertex (areaStart t k) a ≤ b := by simp only [lowVertex]; split <;> omega
    have h := C16_bounds_reconstitution F t n btp hinc hn k a b ha hb hab b hlv (Nat.le_refl _)
    have : sParam (lowVertex (areaStart t k) a) (b + 1) (b + 1) = 1 := by
      have hne : (((b + 1 : Nat) : Rat) - ((lowVertex (areaStart t k) a : Nat) : Rat)) ≠ 0 := by
        have : ((lowVertex (areaStart t k) a : Nat) : Rat) < ((b + 1 : Nat) : Rat) := by
          exact_mod_cast (by omega : lowVertex (areaStart t k) a < b + 1)
        linarith
      simp only [sParam]
      field_simp
    rw [h, this, hF.2]
    exact ⟨_, rfl⟩
  · have hst : areaStart t (k + 1) = false := by
      have e1 : t.getD (k + 1) 0 = b := by simp [List.getD, hb]
      have e2 : t.getD k 0 = a := by simp [List.getD, ha]
      simp only [areaStart, startAt, e1, e2, decide_eq_false_iff_not]
      omega
    have h := C16_bounds_reconstitution F t n btp hinc hn (k + 1) b c hb hc hbc (b + 1)
      (by rw [hst]; simp [lowVertex]) (by omega)
    rw [h, hst]
    simp only [lowVertex, Bool.false_eq_true, if_false, sParam, sub_self, zero_div, hF.1]
    exact ⟨_, rfl⟩

/-! ### the first / last element shortcut -/

/-- `_first_or_last_element` is sound for one subsampled dimension: the last tie point is
the last element of the coordinates. -/
theorem C16_last_shortcut_1d (F : Method) (hF : Endpoints F) (t : List Nat) (n : Nat) (tp : List Rat)
    (hwf : wfAreas true t = true) (hn : ∀ x ∈ t, x < n) (hlen : tp.length = t.length)
    (hl : t.getLast? = some (n - 1)) :
    (recon1 F n t tp)[n - 1]? = some (some (lastShortcut1 tp)) := by
  have hne : t ≠ [] := by intro h; subst h; simp [wfAreas] at hwf
  have hk : t[t.length - 1]? = some (n - 1) := by
    rw [← hl, List.getLast?_eq_getElem?]
  rw [C16_tie_exact F hF t n tp hwf hn (t.length - 1) (n - 1) hk]
  simp only [lastShortcut1, List.getLast?_eq_getElem?, hlen, List.getD_eq_getElem?_getD]

/-- For bounds over two subsampled dimensions the shortcut was wrong in the code as read
(the last vertex of the last cell is vertex (j+1, i), not the last bounds tie point
(j+1, i+1)); the proposed patch takes the shortcut out for that case. -/
theorem C16_old_last_shortcut_counterexample :
    lastOf2b (recon2b 3 3 [0, 2] [0, 2] [[0, 1], [2, 4]]) = some (10 / 3) ∧
    lastShortcut2 [[0, 1], [2, 4]] = 4 := by decide +kernel

end Cfdm.Props.C16
