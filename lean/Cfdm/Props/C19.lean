import Cfdm.Lemmas.Describe
import Cfdm.Lemmas.DescribeExec
import Cfdm.Spec.Describe
/-
C19 — inspection always works; creation commands rebuild the construct.
Property theorems only.
-/
namespace Cfdm.Props.C19
open Cfdm.Describe

/-- **Inspection is total (patched code).**  With `construct_data_axes.get(cid, ())` in
place of `construct_data_axes[cid]`, `repr`, `str` and `dump` of a field or domain perform
only look-ups that succeed, in every state in which the axes that are named exist —
including the partially built states of *ab initio* creation in which a metadata
construct has no data axes yet. -/
theorem C19_describe_total (f : MField) (h : AxesExist f) : describe f ≠ none := by
  rw [opt_unit_ne_none]
  exact describeWith_new_ok f h

example : AxesExist ⟨false, none, some [3], some [0], [(0, ⟨some 3, none⟩)],
    [⟨⟨.aux, 0⟩, ⟨some [3], none, none⟩, none⟩, ⟨⟨.dim, 0⟩, ⟨some [3], none, none⟩, some [0]⟩], [], []⟩ := by
  refine ⟨by decide, ?_⟩
  intro e he l hl a ha
  simp only [List.mem_cons, List.not_mem_nil, or_false] at he
  rcases he with rfl | rfl
  · simp at hl
  · simp only [Option.some.injEq] at hl; subst hl; simpa [MField.axisKeys] using ha

/-- a field with data (3) on one axis, a dimension and an auxiliary coordinate, all with axes -/
def exSmall : MField := ⟨false, none, some [3], some [0], [(0, ⟨some 3, none⟩)],
    [⟨⟨.aux, 0⟩, ⟨some [3], none, none⟩, some [0]⟩, ⟨⟨.dim, 0⟩, ⟨some [3], none, none⟩, some [0]⟩], [], []⟩

/-- **Inspection as the code is.**  The unpatched formatters are total exactly under the
additional hypothesis that every construct has had its data axes set. -/
theorem C19_describeOld_total_partial (f : MField) (h : AxesExist f) (hs : AllAxesSet f) :
    describeOld f ≠ none := by
  rw [opt_unit_ne_none]
  exact describeWith_old_ok f h hs

example : AxesExist exSmall ∧ AllAxesSet exSmall := by
  refine ⟨⟨by decide, ?_⟩, by unfold AllAxesSet; decide⟩
  intro e he l hl a ha
  simp only [exSmall, List.mem_cons, List.not_mem_nil, or_false] at he
  rcases he with rfl | rfl <;>
    simp only [Option.some.injEq] at hl <;> subst hl <;> simpa [MField.axisKeys, exSmall] using ha

/-- … and that hypothesis is necessary: the unpatched `dump` raises `KeyError` for
*every* state that holds a construct without data axes (field ancillaries of a
`Domain` aside: a domain does not show them). -/
theorem C19_describeOld_needs_axes (f : MField) (h : describeOld f ≠ none) :
    ∀ e ∈ f.cons, (f.isDomain = false ∨ e.key.t ≠ CType.fan) → e.axes.isSome = true := by
  rw [opt_unit_ne_none] at h
  exact describeOld_needs f h

example : describeOld exSmall ≠ none := by decide

/-- The full-strength statement `∀ f, AxesExist f → describeOld f ≠ none` is false for the
code as it is: a field with one domain axis and an auxiliary coordinate inserted with
`f.set_construct(aux)` (no `axes=`).  `str(f)` and `f.dump()` raise `KeyError`. -/
theorem C19_describeOld_counterexample :
    let f : MField := ⟨false, none, none, none, [(0, ⟨some 3, none⟩)],
      [⟨⟨.aux, 0⟩, ⟨some [3], none, none⟩, none⟩], [], []⟩
    reprF f = some () ∧ strF axesOld f = none ∧ dumpF axesOld f = none ∧ describeOld f = none ∧
      describe f = some () := by
  decide

/-- The hypothesis of `C19_describe_total` is not idle: `repr` of a field looks up every
data axis, so a field whose data axes name a missing domain axis cannot be described
(this is the C02 invariant; e.g. `Field().set_data_axes(['domainaxis9'])`). -/
theorem C19_describe_needs_data_axes (f : MField) (hd : f.isDomain = false) (h : describe f ≠ none) :
    ∀ a ∈ f.dataAxes.getD [], a ∈ f.axisKeys := by
  rw [opt_unit_ne_none] at h
  exact describe_needs_dataAxes f hd h

example : describe ⟨false, none, none, some [9], [], [], [], []⟩ = none := by decide


/-- `repr` of a domain as the code is: the unused `sorted(sizes)` of `Domain.__repr__` raises
`TypeError` for a domain with two domain axes one of which has no size yet, a state in which
the patched formatters (and the unpatched `str` and `dump`) all work. -/
theorem C19_reprOld_counterexample :
    let f : MField := ⟨true, none, none, none, [(0, ⟨some 3, none⟩), (1, ⟨none, none⟩)], [], [], []⟩
    AxesExist f ∧ reprFOld f = none ∧ strF axesOld f = some () ∧ dumpF axesOld f = some () ∧
      describe f = some () := by
  refine ⟨⟨by decide, by intro e he; simp at he⟩, by decide, by decide, by decide, by decide⟩

/-- … and it is total exactly when it has nothing to mis-compare: every axis sized, or fewer
than two axes. -/
theorem C19_reprOld_partial (f : MField)
    (h : (∀ p ∈ f.axes, p.2.size.isSome = true) ∨ f.axes.length < 2) : reprDomainOld f ≠ none := by
  simp only [reprDomainOld]
  rcases h with h | h
  · have : f.axes.any (fun p => p.2.size.isNone) = false := by
      rw [List.any_eq_false]
      intro p hp
      have := h p hp
      cases hs : p.2.size <;> simp_all
    simp [this]
  · have : decide (2 ≤ f.axes.length) = false := by simp; omega
    simp [this]

example : reprDomainOld ⟨true, none, none, none, [(0, ⟨some 3, none⟩), (1, ⟨some 1, none⟩)], [], [], []⟩ ≠ none := by
  decide

/-! ## creation commands -/

/-- A field in the shape of `cfdm.example_field(1)`, cut down: data (1, 3, 2) over three
axes with netCDF dimension names, dimension / auxiliary coordinates with bounds and netCDF
variable names, a domain ancillary, a cell measure, a field ancillary, two cell methods
whose keys are not consecutive, a coordinate reference under key 1 naming coordinates and a
domain ancillary, and one auxiliary coordinate that has not had its axes set. -/
def exField : MField :=
  { isDomain := false, ncvar := some "ta", data := some [1, 3, 2], dataAxes := some [0, 1, 2],
    axes := [(0, ⟨some 1, some "z"⟩), (1, ⟨some 3, some "y"⟩), (2, ⟨some 2, none⟩)],
    cons := [⟨⟨.dim, 0⟩, ⟨some [1], some "z", some ⟨true, some "z_bnds"⟩⟩, some [0]⟩,
             ⟨⟨.aux, 0⟩, ⟨some [3, 2], some "lat", none⟩, some [1, 2]⟩,
             ⟨⟨.fan, 0⟩, ⟨some [3, 2], none, none⟩, some [1, 2]⟩,
             ⟨⟨.dim, 1⟩, ⟨some [3], some "y", some ⟨true, none⟩⟩, some [1]⟩,
             ⟨⟨.dan, 0⟩, ⟨some [3, 2], some "orog", none⟩, some [1, 2]⟩,
             ⟨⟨.msr, 0⟩, ⟨none, some "areacella", none⟩, some [2, 1]⟩,
             ⟨⟨.aux, 3⟩, ⟨some [7], none, none⟩, none⟩],
    cms := [(1, ⟨some ["domainaxis1", "domainaxis2"], some "mean"⟩), (4, ⟨some ["area"], some "maximum"⟩)],
    refs := [(1, ⟨some "rotated_pole", ["auxiliarycoordinate0", "dimensioncoordinate1"],
                  [("orog", some "domainancillary0"), ("a", none)]⟩)] }

/-- **Creation commands rebuild the construct (patched code: `axes=` of a construct without
data axes is emitted as `None`).**  For every well-formed field or domain `f` (the C02
invariant: distinct keys, every recorded axes tuple names existing sized axes whose sizes are
the construct's shape, field data axes matching the data shape; constructs without axes are
allowed), and for every order in which the `_constructs` dictionary happens to list the
construct types (it comes from a Python `set`), executing the emitted commands in a fresh
namespace succeeds and builds a container equivalent to `f`: same axes, same constructs
under the same keys with the same axes and the same netCDF names, same cell methods and
coordinate references in the same order under keys re-allocated by `new_identifier`. -/
theorem C19_commands_roundtrip (order : List CType) (f : MField) (hord : order.Nodup)
    (hall : ∀ t, t ≠ CType.fan → t ∈ order) (h : wf f = true) :
    ∃ g, exec (creationCommands order f) = some g ∧ Equiv g f :=
  ⟨rebuilt order f, exec_creationCommands order f hord h, rebuilt_equiv order f hord hall h⟩

example : wf exField = true := by decide
example : AxesExist exField := by
  refine ⟨by decide, ?_⟩
  intro e he l hl a ha
  simp only [exField, List.mem_cons, List.not_mem_nil, or_false] at he
  rcases he with rfl | rfl | rfl | rfl | rfl | rfl | rfl <;>
    simp only [Option.some.injEq, reduceCtorEq] at hl <;> subst hl <;>
    simp [MField.axisKeys, exField] at ha ⊢ <;> omega

/-- The rebuilt container is *exactly* the original when the original already lists its
constructs type by type in `order` and numbers its cell methods and coordinate references
0, 1, 2, … (which is what a freshly read or freshly built field does). -/
theorem C19_commands_roundtrip_exact (order : List CType) (f : MField) (hord : order.Nodup)
    (h : wf f = true)
    (hc : f.cons = domainCons order f ++ (if f.isDomain then [] else f.ofType CType.fan))
    (hm : f.cms.map (·.1) = List.range f.cms.length)
    (hr : f.refs.map (·.1) = List.range f.refs.length) :
    exec (creationCommands order f) = some f := by
  rw [exec_creationCommands order f hord h]
  have e1 := renum_eq_self 0 f.cms (by simpa [List.range_eq_range'] using hm)
  have e2 := renum_eq_self 0 f.refs (by simpa [List.range_eq_range'] using hr)
  simp only [rebuilt, e1, e2, ← hc]

/-- `exSmall` meets the hypotheses of the exact round trip for the order dim, aux, … -/
example : wf exSmall = true ∧
    exSmall.cons = domainCons [.aux, .dim, .msr, .dan, .top, .con] exSmall ++
      (if exSmall.isDomain then [] else exSmall.ofType CType.fan) ∧
    exSmall.cms.map (·.1) = List.range exSmall.cms.length ∧
    exSmall.refs.map (·.1) = List.range exSmall.refs.length := by decide

/-- the interpreter on the example: keys 1, 4 of the cell methods become 0, 1; the
coordinate reference 1 becomes 0; the auxiliary coordinate without axes comes back without
axes; every netCDF name is kept -/
example : (exec (creationCommands [.aux, .dim, .dan, .fan, .msr, .top, .con] exField)).map (·.cms.map (·.1)) =
    some [0, 1] := by decide

/-- The full-strength statement fails for the code as it is: `Domain.creation_commands`
calls `self.get_data_axes(key)` with no default, so a field holding a construct without data
axes has no creation commands at all (`ValueError`), although the patched commands rebuild
it exactly. -/
theorem C19_commandsOld_counterexample :
    let f : MField := ⟨false, none, none, none, [(0, ⟨some 3, none⟩)],
      [⟨⟨.aux, 0⟩, ⟨some [3], none, none⟩, none⟩], [], []⟩
    let order := [CType.dim, .aux, .msr, .dan, .top, .con]
    wf f = true ∧ creationCommandsOld order f = none ∧ exec (creationCommands order f) = some f := by
  decide

/-- What holds for the code as it is: under the additional hypothesis that every construct
has had its axes set, the commands are emitted and rebuild the container. -/
theorem C19_commandsOld_roundtrip_partial (order : List CType) (f : MField) (hord : order.Nodup)
    (hall : ∀ t, t ≠ CType.fan → t ∈ order) (h : wf f = true) (hs : AllAxesSet f) :
    ∃ cmds g, creationCommandsOld order f = some cmds ∧ exec cmds = some g ∧ Equiv g f := by
  refine ⟨creationCommands order f, rebuilt order f, ?_, exec_creationCommands order f hord h,
    rebuilt_equiv order f hord hall h⟩
  have : f.cons.all (fun e => e.axes.isSome) = true := List.all_eq_true.mpr hs
  simp [creationCommandsOld, this]

example : wf exSmall = true ∧ AllAxesSet exSmall := by unfold AllAxesSet; decide

/-- `Constructs.new_identifier` on the keys `0 … k-1` returns `k` (the allocation rule the
re-numbering of cell methods and coordinate references rests on). -/
theorem C19_new_identifier_consecutive (k : Nat) : newId (List.range k) = k := newId_range k

example : newId [0, 2, 5] = 3 := by decide
example : newId [1, 2] = 3 := by decide

end Cfdm.Props.C19
