import Cfdm.Lemmas.Describe
import Cfdm.Lemmas.DescribeExec
import Cfdm.Spec.Describe
import Cfdm.Lemmas.EmitRef
import Cfdm.Lemmas.DataStr
/-
C19 — inspection always works; creation commands rebuild the construct.
Property theorems only.
-/
namespace Cfdm.Props.C19
open Cfdm.Describe

/-- **Inspection is total** (the code at /repo HEAD, since repair fabc4b1).  With
`construct_data_axes.get(cid, ())` in place of `construct_data_axes[cid]`, `repr`, `str` and `dump` of a field or domain perform
only look-ups that succeed, in every state in which the axes that are named exist —
including the partially built states of *ab initio* creation in which a metadata
construct has no data axes yet. -/
theorem C19_describe_total (f : MField) (h : AxesExist f) : describe f ≠ none := by
  rw [opt_unit_ne_none]
  exact describeWith_new_ok f h

example : AxesExist ⟨false, none, some [3], some [0], [(0, ⟨some 3, none⟩)],
    [⟨⟨.aux, 0⟩, ⟨some [3], none, none⟩, none⟩, ⟨⟨.dim, 0⟩, ⟨some [3], none, none⟩, some [0]⟩], [], []⟩ := by
  refine ⟨by decide, ?_⟩
  intro e he l hl a ha
  simp only [List.mem_cons, List.not_mem_nil, or_false] at he
  rcases he with rfl | rfl
  · simp at hl
  · simp only [Option.some.injEq] at hl; subst hl; simpa [MField.axisKeys] using ha

/-- a field with data (3) on one axis, a dimension and an auxiliary coordinate, all with axes -/
def exSmall : MField := ⟨false, none, some [3], some [0], [(0, ⟨some 3, none⟩)],
    [⟨⟨.aux, 0⟩, ⟨some [3], none, none⟩, some [0]⟩, ⟨⟨.dim, 0⟩, ⟨some [3], none, none⟩, some [0]⟩], [], []⟩

/-- **Inspection before repair fabc4b1.**  The formatters as they were are total exactly under the
additional hypothesis that every construct has had its data axes set. -/
theorem C19_describeOld_total_partial (f : MField) (h : AxesExist f) (hs : AllAxesSet f) :
    describeOld f ≠ none := by
  rw [opt_unit_ne_none]
  exact describeWith_old_ok f h hs

example : AxesExist exSmall ∧ AllAxesSet exSmall := by
  refine ⟨⟨by decide, ?_⟩, by unfold AllAxesSet; decide⟩
  intro e he l hl a ha
  simp only [exSmall, List.mem_cons, List.not_mem_nil, or_false] at he
  rcases he with rfl | rfl <;>
    simp only [Option.some.injEq] at hl <;> subst hl <;> simpa [MField.axisKeys, exSmall] using ha

/-- … and that hypothesis is necessary: the `dump` of before the repair raises `KeyError` for
*every* state that holds a construct without data axes (field ancillaries of a
`Domain` aside: a domain does not show them). -/
theorem C19_describeOld_needs_axes (f : MField) (h : describeOld f ≠ none) :
    ∀ e ∈ f.cons, (f.isDomain = false ∨ e.key.t ≠ CType.fan) → e.axes.isSome = true := by
  rw [opt_unit_ne_none] at h
  exact describeOld_needs f h

example : describeOld exSmall ≠ none := by decide

/-- The full-strength statement `∀ f, AxesExist f → describeOld f ≠ none` is false for the
code before the repair: a field with one domain axis and an auxiliary coordinate inserted with
`f.set_construct(aux)` (no `axes=`).  `str(f)` and `f.dump()` raise `KeyError`. -/
theorem C19_describeOld_counterexample :
    let f : MField := ⟨false, none, none, none, [(0, ⟨some 3, none⟩)],
      [⟨⟨.aux, 0⟩, ⟨some [3], none, none⟩, none⟩], [], []⟩
    reprF f = some () ∧ strF axesOld f = none ∧ dumpF axesOld f = none ∧ describeOld f = none ∧
      describe f = some () := by
  decide

/-- The hypothesis of `C19_describe_total` is not idle: `repr` of a field looks up every
data axis, so a field whose data axes name a missing domain axis cannot be described
(this is the C02 invariant; e.g. `Field().set_data_axes(['domainaxis9'])`). -/
theorem C19_describe_needs_data_axes (f : MField) (hd : f.isDomain = false) (h : describe f ≠ none) :
    ∀ a ∈ f.dataAxes.getD [], a ∈ f.axisKeys := by
  rw [opt_unit_ne_none] at h
  exact describe_needs_dataAxes f hd h

example : describe ⟨false, none, none, some [9], [], [], [], []⟩ = none := by decide


/-- `repr` of a domain before repair f9edab4: the unused `sorted(sizes)` of `Domain.__repr__` raised
`TypeError` for a domain with two domain axes one of which has no size yet, a state in which
the formatters at /repo HEAD (and the earlier `str` and `dump`) all work. -/
theorem C19_reprOld_counterexample :
    let f : MField := ⟨true, none, none, none, [(0, ⟨some 3, none⟩), (1, ⟨none, none⟩)], [], [], []⟩
    AxesExist f ∧ reprFOld f = none ∧ strF axesOld f = some () ∧ dumpF axesOld f = some () ∧
      describe f = some () := by
  refine ⟨⟨by decide, by intro e he; simp at he⟩, by decide, by decide, by decide, by decide⟩

/-- … and it is total exactly when it has nothing to mis-compare: every axis sized, or fewer
than two axes. -/
theorem C19_reprOld_partial (f : MField)
    (h : (∀ p ∈ f.axes, p.2.size.isSome = true) ∨ f.axes.length < 2) : reprDomainOld f ≠ none := by
  simp only [reprDomainOld]
  rcases h with h | h
  · have : f.axes.any (fun p => p.2.size.isNone) = false := by
      rw [List.any_eq_false]
      intro p hp
      have := h p hp
      cases hs : p.2.size <;> simp_all
    simp [this]
  · have : decide (2 ≤ f.axes.length) = false := by simp; omega
    simp [this]

example : reprDomainOld ⟨true, none, none, none, [(0, ⟨some 3, none⟩), (1, ⟨some 1, none⟩)], [], [], []⟩ ≠ none := by
  decide

/-! ## creation commands -/

/-- A field in the shape of `cfdm.example_field(1)`, cut down: data (1, 3, 2) over three
axes with netCDF dimension names, dimension / auxiliary coordinates with bounds and netCDF
variable names, a domain ancillary, a cell measure, a field ancillary, two cell methods
whose keys are not consecutive, a coordinate reference under key 1 naming coordinates and a
domain ancillary, and one auxiliary coordinate that has not had its axes set. -/
def exField : MField :=
  { isDomain := false, ncvar := some "ta", data := some [1, 3, 2], dataAxes := some [0, 1, 2],
    axes := [(0, ⟨some 1, some "z"⟩), (1, ⟨some 3, some "y"⟩), (2, ⟨some 2, none⟩)],
    cons := [⟨⟨.dim, 0⟩, ⟨some [1], some "z", some ⟨true, some "z_bnds"⟩⟩, some [0]⟩,
             ⟨⟨.aux, 0⟩, ⟨some [3, 2], some "lat", none⟩, some [1, 2]⟩,
             ⟨⟨.fan, 0⟩, ⟨some [3, 2], none, none⟩, some [1, 2]⟩,
             ⟨⟨.dim, 1⟩, ⟨some [3], some "y", some ⟨true, none⟩⟩, some [1]⟩,
             ⟨⟨.dan, 0⟩, ⟨some [3, 2], some "orog", none⟩, some [1, 2]⟩,
             ⟨⟨.msr, 0⟩, ⟨none, some "areacella", none⟩, some [2, 1]⟩,
             ⟨⟨.aux, 3⟩, ⟨some [7], none, none⟩, none⟩],
    cms := [(1, ⟨some ["domainaxis1", "domainaxis2"], some "mean"⟩), (4, ⟨some ["area"], some "maximum"⟩)],
    refs := [(1, ⟨some "rotated_pole", ["auxiliarycoordinate0", "dimensioncoordinate1"],
                  [("orog", some "domainancillary0"), ("a", none)]⟩)] }

/-- **Creation commands rebuild the construct** (the code at /repo HEAD, since repair fabc4b1: `axes=`
of a construct without data axes is emitted as `None`).  For every well-formed field or domain `f` (the C02
invariant: distinct keys, every recorded axes tuple names existing sized axes whose sizes are
the construct's shape, field data axes matching the data shape; constructs without axes are
allowed), and for every order in which the `_constructs` dictionary happens to list the
construct types (it comes from a Python `set`), executing the emitted commands in a fresh
namespace succeeds and builds a container equivalent to `f`: same axes, same constructs
under the same keys with the same axes and the same netCDF names, same cell methods and
coordinate references in the same order under keys re-allocated by `new_identifier`. -/
theorem C19_commands_roundtrip (order : List CType) (f : MField) (hord : order.Nodup)
    (hall : ∀ t, t ≠ CType.fan → t ∈ order) (h : wf f = true) :
    ∃ g, exec (creationCommands order f) = some g ∧ Equiv g f :=
  ⟨rebuilt order f, exec_creationCommands order f hord h, rebuilt_equiv order f hord hall h⟩

example : wf exField = true := by decide
example : AxesExist exField := by
  refine ⟨by decide, ?_⟩
  intro e he l hl a ha
  simp only [exField, List.mem_cons, List.not_mem_nil, or_false] at he
  rcases he with rfl | rfl | rfl | rfl | rfl | rfl | rfl <;>
    simp only [Option.some.injEq, reduceCtorEq] at hl <;> subst hl <;>
    simp [MField.axisKeys, exField] at ha ⊢ <;> omega

/-- The rebuilt container is *exactly* the original when the original already lists its
constructs type by type in `order` and numbers its cell methods and coordinate references
0, 1, 2, … (which is what a freshly read or freshly built field does). -/
theorem C19_commands_roundtrip_exact (order : List CType) (f : MField) (hord : order.Nodup)
    (h : wf f = true)
    (hc : f.cons = domainCons order f ++ (if f.isDomain then [] else f.ofType CType.fan))
    (hm : f.cms.map (·.1) = List.range f.cms.length)
    (hr : f.refs.map (·.1) = List.range f.refs.length) :
    exec (creationCommands order f) = some f := by
  rw [exec_creationCommands order f hord h]
  have e1 := renum_eq_self 0 f.cms (by simpa [List.range_eq_range'] using hm)
  have e2 := renum_eq_self 0 f.refs (by simpa [List.range_eq_range'] using hr)
  simp only [rebuilt, e1, e2, ← hc]

/-- `exSmall` meets the hypotheses of the exact round trip for the order dim, aux, … -/
example : wf exSmall = true ∧
    exSmall.cons = domainCons [.aux, .dim, .msr, .dan, .top, .con] exSmall ++
      (if exSmall.isDomain then [] else exSmall.ofType CType.fan) ∧
    exSmall.cms.map (·.1) = List.range exSmall.cms.length ∧
    exSmall.refs.map (·.1) = List.range exSmall.refs.length := by decide

/-- the interpreter on the example: keys 1, 4 of the cell methods become 0, 1; the
coordinate reference 1 becomes 0; the auxiliary coordinate without axes comes back without
axes; every netCDF name is kept -/
example : (exec (creationCommands [.aux, .dim, .dan, .fan, .msr, .top, .con] exField)).map (·.cms.map (·.1)) =
    some [0, 1] := by decide

/-- The full-strength statement failed for the code before repair fabc4b1: `Domain.creation_commands`
called `self.get_data_axes(key)` with no default, so a field holding a construct without data
axes had no creation commands at all (`ValueError`), although the repaired commands rebuild
it exactly. -/
theorem C19_commandsOld_counterexample :
    let f : MField := ⟨false, none, none, none, [(0, ⟨some 3, none⟩)],
      [⟨⟨.aux, 0⟩, ⟨some [3], none, none⟩, none⟩], [], []⟩
    let order := [CType.dim, .aux, .msr, .dan, .top, .con]
    wf f = true ∧ creationCommandsOld order f = none ∧ exec (creationCommands order f) = some f := by
  decide

/-- What held for the code before the repair: under the additional hypothesis that every construct
has had its axes set, the commands are emitted and rebuild the container. -/
theorem C19_commandsOld_roundtrip_partial (order : List CType) (f : MField) (hord : order.Nodup)
    (hall : ∀ t, t ≠ CType.fan → t ∈ order) (h : wf f = true) (hs : AllAxesSet f) :
    ∃ cmds g, creationCommandsOld order f = some cmds ∧ exec cmds = some g ∧ Equiv g f := by
  refine ⟨creationCommands order f, rebuilt order f, ?_, exec_creationCommands order f hord h,
    rebuilt_equiv order f hord hall h⟩
  have : f.cons.all (fun e => e.axes.isSome) = true := List.all_eq_true.mpr hs
  simp [creationCommandsOld, this]

example : wf exSmall = true ∧ AllAxesSet exSmall := by unfold AllAxesSet; decide

/-- `Constructs.new_identifier` on the keys `0 … k-1` returns `k` (the allocation rule the
re-numbering of cell methods and coordinate references rests on). -/
theorem C19_new_identifier_consecutive (k : Nat) : newId (List.range k) = k := newId_range k

example : newId [0, 2, 5] = 3 := by decide
example : newId [1, 2] = 3 := by decide

/-! ## creation commands of the classes that are not containers

`Cfdm.Emit` models `Data / Properties / PropertiesData / PropertiesDataBounds / CellMethod /
CoordinateReference / DomainAxis.creation_commands` as an emitter into a small command language
and `exec` as an interpreter for it in a namespace that holds the package under one prefix.
`fix = false` is the code as it is, `fix = true` the code with the proposed repair that converts
numpy-valued units / calendar / fill values and writes the fill value with `repr`
(fixes/C19-data-attribute-spelling.patch); the hypotheses `dataOK`,
`leafOK`, … are decidable and each conjunct is shown below to be needed. -/

section Emit
open Cfdm.Emit

/-- **Data.**  For every Data object `d` meeting `dataOK` (mask as long as the values; no
zero-sized dimension followed by another; finite unmasked values; evaluable spelling of units,
calendar and fill value; a fill value for masked data), every name other than `mask` and every
`namespace` keyword: `creation_commands` is emitted, the nested mask constructor and the outer
one both carry the prefix, evaluating the text in a namespace that holds the package under that
prefix succeeds and builds a Data object that is observably `d` (shape, data type, mask, unmasked
values, units, calendar, fill value). -/
theorem C19_emit_data_roundtrip (fix : Bool) (d : MData) (name : String) (ns : Option (List Char))
    (hok : dataOK fix d = true) (hname : name ≠ "mask") :
    ∃ e env', emitDataWith fix d (some name) ns = some e ∧ e.ctorsUse (nsPrefix ns) = true ∧
      Emit.exec (nsPrefix ns) [Stmt.newData name e] = some env' ∧
      (env' name).map Obj.obs = some (Obj.data d).obs := by
  obtain ⟨e, h1, h2, h3⟩ := emitData_eval fix d (some name) ns hok (fun _ h => hname (by simpa using h))
  refine ⟨e, Env.empty.set name (.data (rebuiltData d)), h1, h3, ?_, ?_⟩
  · simp [Emit.exec, Emit.run, Emit.step, h2]
  · simp [Obj.obs, rebuiltData_norm fix d hok]

/-- masked float data with units, a fill value and a numpy-free spelling -/
def exData : MData :=
  ⟨[2, 2], [.num "1.5", .num "2.0", .nonfinite "nan", .num "4.0"], [false, false, true, false],
   some (py (.str "K")), none, some (py (.num "-999.0")), ⟨"f", 8⟩⟩

example : dataOK false exData = true := by decide

/-- the prefix is not idle: the same text fails in a namespace that holds the package under
another prefix (`namespace='xyz'` after `import cfdm`) -/
theorem C19_emit_namespace_needed (e : DataExpr) (pkg : List Char) (h : e.ns ≠ pkg) : e.eval pkg = none := by
  simp [DataExpr.eval, h]

example : ((emitData exData (some "data") (some ['x', 'y'])).bind (·.eval defaultNs)) = none := by decide

/-- **Each conjunct of `dataOK` is needed** (the code as it is):
an unmasked NaN is written as the bare name `nan` (open finding `non-finite-data-value`);
masked Boolean data have no default fill value, so `filled()` raises (open finding
`masked-data-without-default-fill-value`); the list display of shape (0, 3) is `[]`, of shape
(0,) (open finding `zero-size-leading-dimension`); numpy-valued units are written as
`np.int32(1)` (open finding `numpy-valued-units`, repaired by `fix = true`); a string fill value
is written without quotes (open finding `string-fill-value`, repaired by `fix = true`); and masked
data cannot be called `mask`. -/
theorem C19_emit_data_counterexamples :
    -- NaN
    (let d : MData := ⟨[2], [.num "1.0", .nonfinite "nan"], [false, false], none, none, none, ⟨"f", 8⟩⟩
     ∃ e, emitData d (some "data") none = some e ∧ e.eval defaultNs = none) ∧
    -- masked bool
    (let d : MData := ⟨[2], [.num "True", .num "False"], [false, true], none, none, none, ⟨"b", 1⟩⟩
     emitData d (some "data") none = none) ∧
    -- shape (0, 3)
    (let d : MData := ⟨[0, 3], [], [], none, none, none, ⟨"f", 8⟩⟩
     ∃ e d', emitData d (some "data") none = some e ∧ e.eval defaultNs = some d' ∧ d'.norm ≠ d.norm) ∧
    -- numpy-valued units: as the code is / repaired
    (let d : MData := ⟨[1], [.num "1.0"], [false], some ⟨true, .num "1"⟩, none, none, ⟨"f", 8⟩⟩
     (∃ e, emitData d (some "data") none = some e ∧ e.eval defaultNs = none) ∧ dataOK true d = true) ∧
    -- string fill value: as the code is / repaired
    (let d : MData := ⟨[1], [.str "a"], [false], none, none, some (py (.str "x")), ⟨"U", 1⟩⟩
     (∃ e, emitData d (some "data") none = some e ∧ e.eval defaultNs = none) ∧ dataOK true d = true) ∧
    -- name = 'mask'
    emitData exData (some "mask") none = none := by
  refine ⟨⟨_, rfl, by decide⟩, by decide, ⟨_, _, rfl, rfl, by decide⟩, ⟨⟨_, rfl, by decide⟩, by decide⟩,
    ⟨⟨_, rfl, by decide⟩, by decide⟩, by decide⟩

/-- **`Properties` / `PropertiesData` objects** (bounds, interior ring, count / index / list
variable, field ancillary, cell measure, domain topology, cell connectivity, node count …).  For
every stand-alone object meeting `leafOK` (distinct property names, evaluable property values,
`dataOK` of the data as `get_data` shows them), every pair of distinct names and every
`namespace`/`header`: the commands are emitted; every constructor call (also the nested Data and
mask ones) carries the prefix; every name is bound before it is read; `exec` in a fresh namespace
succeeds and binds `name` to an object observably equal to the original — same class, same
properties in the same order (numpy values as numbers), same netCDF variable / dimension / sample
dimension names, same data, same measure / cell / connectivity. -/
theorem C19_emit_leaf_roundtrip (fix : Bool) (x : Leaf) (name dn : String) (ns : Option (List Char)) (header : Bool)
    (hcls : x.cls.isLeaf = true) (hne : name ≠ dn) (hmk : dn ≠ "mask")
    (hw : leafWF x = true) (hinh : x.inherited = []) (hok : leafOK fix x = true) :
    ∃ stmts env', emitLeafWith fix x name dn ns header = some stmts ∧
      stmts.all (fun s => s.ctorsUse (nsPrefix ns)) = true ∧ definedBeforeUse [] stmts = true ∧
      Emit.exec (nsPrefix ns) stmts = some env' ∧ (env' name).map Obj.obs = some (Obj.leaf x).obs := by
  obtain ⟨stmts, env', h1, h2, h3⟩ := run_emitLeaf fix x name dn ns header Env.empty (Or.inl hcls) hne hmk hok
  refine ⟨stmts, env', h1, h3, exec_defined _ _ _ h2.run, h2.run, ?_⟩
  rw [h2.at_name, newObj_withLeaf_leaf _ _ hcls]
  simp [Obj.obs, rebuiltLeaf_obs fix x hw hinh hok]

/-- a bounds object read from a dataset: netCDF variable and dimension names, a numpy-valued
property, masked data -/
def exBounds : Leaf :=
  { cls := .Bounds, props := [("long_name", .atom (py (.str "cell bounds"))), ("valid_range", .arr [.num "0.0", .num "9.0"])],
    ncvar := some "lat_bnds", ncdim := some "bounds2", sampleDim := none,
    data := some ⟨[2, 2], [.num "1.5", .num "2.0", .num "2.0", .num "4.0"], [false, false, true, false],
                 none, none, none, ⟨"f", 8⟩⟩,
    attr := none, inherited := [] }

example : leafWF exBounds = true ∧ leafOK false exBounds = true ∧ exBounds.cls.isLeaf = true := by decide

/-- **Stand-alone is needed** (open finding `bounds-with-inherited-properties`): bounds taken from
their parent (`coord.bounds`) show the parent's units on their data but `creation_commands`
builds bounds without them; the text executes, the rebuilt object is not the original. -/
theorem C19_emit_inherited_counterexample :
    let x : Leaf := { exBounds with inherited := [("units", .atom (py (.str "degrees_north")))] }
    leafWF x = true ∧ leafOK false x = true ∧
    ∃ stmts env', emitLeaf x "c" "data" none true = some stmts ∧ Emit.exec defaultNs stmts = some env' ∧
      (env' "c").map Obj.obs ≠ some (Obj.leaf x).obs := by
  refine ⟨by decide, by decide, ?_⟩
  obtain ⟨stmts, env', h1, h2, _⟩ := run_emitLeaf false
    { exBounds with inherited := [("units", .atom (py (.str "degrees_north")))] } "c" "data" none true Env.empty
    (Or.inl rfl) (by decide) (by decide) (by decide)
  refine ⟨stmts, env', h1, h2.run, ?_⟩
  rw [h2.at_name]
  decide

/-- **Coordinates and domain ancillaries** (`PropertiesDataBounds`, `mixin.Coordinate`).  For every
object meeting `pobjWF` / `pobjOK` (the parent, its bounds as `get_bounds` shows them and its
interior ring meet `leafOK`; the bounds data conform to the parent's, which `set_bounds` checks)
and every keyword setting whose names do not clash (`kwOK`): the commands are emitted, every
constructor call — the parent's, the bounds', the interior ring's, their Data and mask ones —
carries the prefix, every name is bound before it is read, and `exec` binds `name` to an
observably equal object: properties, netCDF names, data, geometry, climatology, node coordinate
variable, bounds (as the rebuilt parent shows them, i.e. with its properties inherited) and
interior ring. -/
theorem C19_emit_pobj_roundtrip (fix : Bool) (x : PObj) (kw : KW)
    (hkw : kwOK kw = true) (hw : pobjWF x = true) (hok : pobjOK fix x = true) :
    ∃ stmts env', emitPObjWith fix x kw = some stmts ∧
      stmts.all (fun s => s.ctorsUse (nsPrefix kw.ns)) = true ∧ definedBeforeUse [] stmts = true ∧
      Emit.exec (nsPrefix kw.ns) stmts = some env' ∧ (env' kw.name).map Obj.obs = some (Obj.pobj x).obs := by
  obtain ⟨stmts, env', h1, h2, h3, h4⟩ := run_emitPObj fix x kw Env.empty hkw hw hok
  refine ⟨stmts, env', h1, h4, exec_defined _ _ _ h2, h2, ?_⟩
  rw [h3]
  simp [Obj.obs, rebuiltPObj_obs fix x hw hok]

/-- a geometry auxiliary coordinate with units, bounds that rely on the parent's units, an interior
ring, a node coordinate variable and netCDF names everywhere -/
def exCoord : PObj :=
  { base := { cls := .AuxiliaryCoordinate,
              props := [("units", .atom (py (.str "degrees_north"))), ("standard_name", .atom (py (.str "latitude")))],
              ncvar := some "lat", ncdim := none, sampleDim := none,
              data := some ⟨[2], [.num "1.0", .num "2.0"], [false, false], none, none, none, ⟨"f", 8⟩⟩,
              attr := none, inherited := [] },
    geometry := some "polygon", climatology := false, nodeVar := some "y",
    bounds := some { exBounds with props := [] },
    ring := some { cls := .InteriorRing, props := [], ncvar := some "interior_ring", ncdim := some "part",
                   sampleDim := none,
                   data := some ⟨[2, 1], [.num "0", .num "1"], [false, false], none, none, none, ⟨"i", 4⟩⟩,
                   attr := none, inherited := [] } }

example : pobjWF exCoord = true ∧ pobjOK false exCoord = true := by decide
example : kwOK {} = true ∧ kwOK { name := "x", dataName := "d", boundsName := "i", ns := some [] } = true := by decide

/-- **The hypotheses on the keywords and on the bounds are needed**: with `name = bounds_name`
(or `data_name`) `creation_commands` refuses (`ValueError`); bounds that do not conform to the
data of their parent (attached before the data were set) are emitted but `set_bounds` refuses them
when the text is executed. -/
theorem C19_emit_pobj_counterexamples :
    emitPObj exCoord { name := "b" } = none ∧ emitPObj exCoord { dataName := "c" } = none ∧
    (let x : PObj := { exCoord with
        base := { exCoord.base with data := some ⟨[3], [.num "1", .num "2", .num "3"], [false, false, false], none, none, none, ⟨"i", 8⟩⟩ } }
     ∃ stmts, emitPObj x {} = some stmts ∧ Emit.exec defaultNs stmts = none) := by
  refine ⟨by decide, by decide, ?_⟩
  refine ⟨_, rfl, ?_⟩
  decide

/-- **Domain axes**: unconditional and exact. -/
theorem C19_emit_axis_roundtrip (a : MAxis) (name : String) (ns : Option (List Char)) (header : Bool) :
    (emitAxis a name ns header).all (fun s => s.ctorsUse (nsPrefix ns)) = true ∧
    definedBeforeUse [] (emitAxis a name ns header) = true ∧
    ∃ env', Emit.exec (nsPrefix ns) (emitAxis a name ns header) = some env' ∧ env' name = some (.axis a) := by
  have h := run_emitAxis a name ns header Env.empty
  exact ⟨emitAxis_ctors a name ns header, exec_defined _ _ _ h, _, h, Env.set_same _ _ _⟩

example : ∃ env', Emit.exec [] (emitAxis ⟨some 5, some "lat", true⟩ "c" (some []) false) = some env' ∧
    env' "c" = some (.axis ⟨some 5, some "lat", true⟩) :=
  (C19_emit_axis_roundtrip ⟨some 5, some "lat", true⟩ "c" (some []) false).2.2

/-- **Cell methods**: for every cell method with distinct qualifier names whose interval Data meet
`dataOK`: emitted, prefixed (also the Data constructors inside `set_qualifier('interval', [...])`),
names bound before use, and `exec` rebuilds the method, the axes and the qualifiers **in their
order**. -/
theorem C19_emit_cm_roundtrip (fix : Bool) (m : MCM) (name : String) (ns : Option (List Char)) (header : Bool)
    (hok : cmOK fix m = true) :
    ∃ stmts env', emitCMWith fix m name ns header = some stmts ∧
      stmts.all (fun s => s.ctorsUse (nsPrefix ns)) = true ∧ definedBeforeUse [] stmts = true ∧
      Emit.exec (nsPrefix ns) stmts = some env' ∧ (env' name).map Obj.obs = some (Obj.cm m).obs := by
  obtain ⟨stmts, env', h1, h2, h3, h4⟩ := run_emitCM fix m name ns header Env.empty hok
  refine ⟨stmts, env', h1, h4, exec_defined _ _ _ h2, h2, ?_⟩
  rw [h3]
  simp [Obj.obs, rebuiltCM_obs fix m hok]

def exCM : MCM :=
  ⟨some "mean", some ["domainaxis1", "area"],
   [("within", .str "years"), ("interval", .interval [⟨[], [.num "1"], [false], some (py (.str "hour")), none, none, ⟨"i", 8⟩⟩]),
    ("comment", .str "a comment")]⟩

example : cmOK false exCM = true := by decide

/-- **Coordinate references**: for every coordinate reference with distinct parameter names and
terms whose parameter values are spelt evaluably (numbers, strings, lists, numpy scalars and
arrays; Data-valued parameters meeting `dataOK`): emitted, prefixed, names bound before use, and
`exec` rebuilds the netCDF variable name, the coordinates, the datum and conversion parameters in
their order and the domain ancillaries. -/
theorem C19_emit_ref_roundtrip (fix : Bool) (r : MRef) (name : String) (ns : Option (List Char)) (header : Bool)
    (hok : refOK fix r = true) :
    ∃ stmts env', emitRefWith fix r name ns header = some stmts ∧
      stmts.all (fun s => s.ctorsUse (nsPrefix ns)) = true ∧ definedBeforeUse [] stmts = true ∧
      Emit.exec (nsPrefix ns) stmts = some env' ∧ (env' name).map Obj.obs = some (Obj.ref r).obs := by
  obtain ⟨stmts, env', h1, h2, h3, h4⟩ := run_emitRef fix r name ns header Env.empty hok
  refine ⟨stmts, env', h1, h4, exec_defined _ _ _ h2, h2, ?_⟩
  rw [h3]
  simp [Obj.obs, rebuiltRef_obs fix r hok]

def exRef : MRef :=
  ⟨some "rotated_pole", ["auxiliarycoordinate0", "dimensioncoordinate1"],
   [("earth_radius", .data ⟨[], [.num "6371007"], [false], some (py (.str "m")), none, none, ⟨"i", 8⟩⟩)],
   [("grid_mapping_name", .val (.atom (py (.str "rotated_latitude_longitude")))),
    ("standard_parallel", .val (.arr [.num "25.0", .num "30.0"])), ("north_pole", .val (.atom ⟨true, .num "38.0"⟩))],
   [("orog", some "domainancillary0"), ("a", none)]⟩

example : refOK false exRef = true := by decide

/-- the name-space rule of every `creation_commands`: applying it twice changes nothing (the
classes hand the processed prefix to their parent class, which processes it again), and the
result is empty or ends with a dot. -/
theorem C19_namespace_prefix (o : Option (List Char)) :
    nsPrefix (some (nsPrefix o)) = nsPrefix o ∧ (nsPrefix o = [] ∨ (nsPrefix o).getLast? = some '.') :=
  ⟨nsPrefix_idem o, nsPrefix_shape o⟩

example : nsPrefix none = "cfdm.".toList ∧ nsPrefix (some "xyz".toList) = "xyz.".toList ∧
    nsPrefix (some "xyz.".toList) = "xyz.".toList ∧ nsPrefix (some []) = [] := by decide

end Emit

/-! ## the display path of data -/

section DataStr
open Cfdm.DataStr

/-- **`str` / `repr` of Data are total.**  For every shape and every list of elements — size 0,
1, 2, 3 along the last axis or not, more; masked or not; reference-time units or not; any units
(also not a string) and calendar — `Data.__str__` and `Data.__repr__` return a string, provided the
date-time conversions raise nothing but the exceptions the code catches: `first_element` on
size 0 is caught, the second element is only asked for when there are exactly three, and the last
element exists whenever there is a first. -/
theorem C19_dataStr_total (cv : Conv) (h : cv.Caught) (d : DData) :
    dataStr cv d ≠ none ∧ dataRepr cv d ≠ none := by
  obtain ⟨s, hs⟩ := dataStr_some cv h d
  simp [dataRepr, hs]

example : dataStr ⟨fun t => .ok t, fun a b => .ok a b⟩ ⟨[0, 3], [], some (.str "m" false), none⟩ = some " m" := by
  decide

/-- the hypothesis is needed: an exception of the conversion that is not caught propagates (this
was finding 591f44a: `AttributeError` for a NaN) -/
example : dataStr ⟨fun _ => .uncaught, fun _ _ => .caught⟩
    ⟨[1], [.val "nan"], some (.str "days since 2001-02-03" true), none⟩ = none := by decide

/-- **Layout.**  For data that are not reference times the text is, for every shape and every
non-empty list of elements of that size: the brackets, every element when there are at most two
or exactly three along the last axis, otherwise the first and the last around `...`, then the
units; a masked element is shown as `--`. -/
theorem C19_dataStr_layout (cv : Conv) (d : DData) (hne : d.elems ≠ []) (hwf : d.elems.length = prod d.shape)
    (hr : d.isRefTime = false) :
    dataStr cv d = some (specStr d (fun i => fmt (d.elems.getD i .masked))) :=
  dataStr_plain cv d hne hwf hr

example : dataStr ⟨fun t => .ok t, fun a b => .ok a b⟩
    ⟨[1, 3], [.val "1.0", .masked, .val "3.0"], some (.str "K" false), none⟩ = some "[[1.0, --, 3.0]] K" := by decide
example : dataStr ⟨fun t => .ok t, fun a b => .ok a b⟩
    ⟨[3, 1], [.val "1.0", .masked, .val "3.0"], none, none⟩ = some "[[1.0, ..., 3.0]]" := by decide
/-- reference times: first and last are converted together, so one value that cannot be converted
blanks both; a masked one is shown as `--` -/
example : dataStr ⟨fun t => .ok ("D" ++ t), fun _ _ => .caught⟩
    ⟨[3], [.val "1e20", .val "2", .val "3"], some (.str "days since 2001-02-03" true), some "noleap"⟩ =
    some "[??, D2, ??] noleap" := by decide
example : dataStr ⟨fun t => .ok ("D" ++ t), fun a b => .ok ("D" ++ a) ("D" ++ b)⟩
    ⟨[2], [.masked, .val "2"], some (.str "days since 2001-02-03" true), none⟩ = some "[--, D2]" := by decide

/-- **`str` / `repr` of the constructs** with the proposed repair
(fixes/C19-non-string-units.patch) are total: for every combination of units / calendar of the
construct and of its bounds, string or not. -/
theorem C19_constructStr_total (identity : String) (dims : Option (List Nat)) (u c bu bc : Option Units) :
    pdbStr identity dims u c bu bc ≠ none ∧ pdStr identity dims u c ≠ none := by
  obtain ⟨s, hs⟩ := pdbStr_some identity dims u c bu bc
  obtain ⟨t, ht⟩ := pdStr_some identity dims u c
  simp [hs, ht]

/-- **As the code is**: `"since" in units` raises `TypeError` for units that are not a string
(a numeric `units` attribute read from a dataset) — open finding `non-string-units`. -/
theorem C19_constructStrOld_counterexample :
    pdbStrOld "latitude" (some [5]) (some (.other "1")) none none none = none ∧
    pdbStr "latitude" (some [5]) (some (.other "1")) none none none = some "latitude(5) 1" ∧
    pdStrOld "x" none (some (.str "days since 2000-01-01" true)) (some (.other "5")) = none := by decide

/-- … and total exactly when units and calendar (the construct's and its bounds') are strings. -/
theorem C19_constructStrOld_total_partial (identity : String) (dims : Option (List Nat)) (u c bu bc : Option Units)
    (hu : optIsStr u = true) (hc : optIsStr c = true) (hbu : optIsStr bu = true) (hbc : optIsStr bc = true) :
    pdbStrOld identity dims u c bu bc ≠ none := by
  obtain ⟨s, hs⟩ := pdbStrOld_some identity dims u c bu bc hu hc hbu hbc
  simp [hs]

example : optIsStr (some (.str "m" false)) = true ∧ optIsStr none = true := by decide

/-- the `Data(…)` line of `dump`: whatever axis names are passed (fewer or more than the data
have dimensions), one label per dimension is printed. -/
theorem C19_dump_dims (names : Option (List String)) (shape : List Nat) :
    (dumpDims names shape).length = shape.length := dumpDims_length names shape

example : dumpDims (some ["time(1)"]) [1, 3, 2] = ["time(1)", "3", "2"] := by decide
example : dumpDims (some ["a", "b", "c"]) [4] = ["a"] := by decide

end DataStr

end Cfdm.Props.C19
