import Cfdm.Lemmas.Groups
import Cfdm.Lemmas.GroupsPlace
import Cfdm.Lemmas.GroupsMulti
/-
C11 — hierarchical groups change the file layout, never the meaning.
Property theorems only.  The un-suffixed model functions are the code as it is in /repo after the
nine C11 `fix:` commits; the code before them (`resolveOld`, `searchRelOld`, `dfs`, `flatNameOld`,
`dictOfPairs`, `varWrittenOld`, `findCoordVarOld`) is refuted by the `…_counterexample` theorems.
For several fields in one dataset and for the reader's base names (last two sections) the
un-suffixed functions are the code after the PROPOSED patches
(fixes/C11-write-group-attributes-several-fields.patch, fixes/C11-read-basename-from-path.patch) and
`writeFieldsNOld`, `readBaseOld` the code as it stands (open findings).

Names are `List Char`; `NoSlash c` (no `/` inside — netCDF forbids it) is the only
hypothesis on names, except for the injectivity of flattened names, which needs
`CleanName` (no `__` inside, no `_` at the end) and is false without it.
-/
namespace Cfdm.Props.C11
open Cfdm.Groups
open Cfdm.Generated.FlatteningRules

/-! ## the regenerated rule table -/

/-- Attributes through which `cfdm.write` refers to other variables or to dimensions. -/
def writerAttrs : List String :=
  ["coordinates", "bounds", "climatology", "cell_methods", "cell_measures", "formula_terms", "grid_mapping",
   "ancillary_variables", "geometry", "node_coordinates", "node_count", "part_node_count", "interior_ring",
   "compress", "sample_dimension", "instance_dimension"]

/-- Facts about `flattening_rules` (re-emitted from flatten/config.py on every run) on which
the model and the theorems rest: `adapt_name` always has a map to look in (the two ranks
differ); a rule that limits variables to scalar coordinates also accepts standard names (so
its unresolved tokens are never errors); the local-apex rule is only used for variable
references; every rule resolves something; names are unique; every referencing attribute the
writer emits is in the table; the separators and the length limit are those the model
hard-codes. -/
theorem C11_rules_table :
    (∀ r ∈ flatteningRules, r.refToDim ≠ r.refToVar) ∧
    (∀ r ∈ flatteningRules, r.limitToScalarCoordinates = true → r.acceptStandardNames = true) ∧
    (∀ r ∈ flatteningRules, r.stopAtLocalApex = true → r.refToDim = 0) ∧
    (∀ r ∈ flatteningRules, (r.resolveKey || r.resolveValue) = true) ∧
    (flatteningRules.map (·.name)).Nodup ∧
    (∀ a ∈ writerAttrs, (findRule a).isSome = true) ∧
    groupSeparator = "/" ∧ flattenerSeparator = "__" ∧ refNotFoundError = "REF_NOT_FOUND" ∧ maxNameLen = 256 := by
  decide

example : (findRule "coordinates").map (·.stopAtLocalApex) = some true := by decide
example : (findRule "cell_methods").map (fun r => (r.refToDim, r.refToVar)) = some (2, 1) := by decide

/-! ## reference resolution -/

/-- **Absolute references.**  `/a/b/x` designates the element `x` of group `/a/b`, whatever
the position of the referring variable: the result does not depend on `at_`; a variable
(dimension) answer is exactly that element and it exists; for a rule that refers to variables
only the answer is that variable iff it exists, and for a rule that prefers dimensions the
answer is that dimension whenever it exists. -/
theorem C11_resolve_sound_absolute (root : Grp) (r : Rules) (strict : Bool) (coords : Option (List Char))
    (at_ : Path) (p : Path) (n : Name) (hp : ∀ c ∈ p, NoSlash c) (hn : NoSlash n) :
    (∀ at', resolve root r strict coords at' (absName p n) = resolve root r strict coords at_ (absName p n)) ∧
    (∀ q m, resolve root r strict coords at_ (absName p n) = .var q m →
        q = p ∧ m = n ∧ hasAt root p false n = true) ∧
    (∀ q m, resolve root r strict coords at_ (absName p n) = .dim q m →
        q = p ∧ m = n ∧ hasAt root p true n = true) ∧
    (r.refToDim = 0 → (resolve root r strict coords at_ (absName p n) = .var p n ↔ hasAt root p false n = true)) ∧
    (r.refToDim > r.refToVar → hasAt root p true n = true →
        resolve root r strict coords at_ (absName p n) = .dim p n) := by
  have key : ∀ at', resolve root r strict coords at' (absName p n) = adaptElem root r strict (absName p n) p n := by
    intro at'
    unfold resolve
    have h1 : (absName p n).head? = some '/' := by simp [absName]
    simp only [h1, ↓reduceIte, parseAbs_absName p n hp hn, postProcess]
    simp
  refine ⟨fun at' => by rw [key, key], ?_, ?_, ?_, ?_⟩
  · intro q m h
    rw [key] at h
    unfold adaptElem at h
    by_cases hd : r.refToDim > r.refToVar <;> by_cases h1 : hasAt root p true n = true <;>
      by_cases h2 : hasAt root p false n = true <;>
      by_cases h3 : (r.refToDim != 0 && r.refToVar != 0) = true <;>
      by_cases h4 : r.acceptStandardNames = true <;> by_cases h5 : strict = true <;>
      simp_all
  · intro q m h
    rw [key] at h
    unfold adaptElem at h
    by_cases hd : r.refToDim > r.refToVar <;> by_cases h1 : hasAt root p true n = true <;>
      by_cases h2 : hasAt root p false n = true <;>
      by_cases h3 : (r.refToDim != 0 && r.refToVar != 0) = true <;>
      by_cases h4 : r.acceptStandardNames = true <;> by_cases h5 : strict = true <;>
      simp_all
  · intro h0
    rw [key]
    unfold adaptElem
    have hd : ¬ r.refToDim > r.refToVar := by omega
    by_cases h2 : hasAt root p false n = true <;>
      by_cases h4 : r.acceptStandardNames = true <;> by_cases h5 : strict = true <;>
      simp_all
  · intro hd h1
    rw [key]
    unfold adaptElem
    simp_all

/-- **Relative references.**  `'../' * k + 'g1/…/gm/x'` from a variable in group `at_`
designates the element `x` of the group reached by going up `k` groups and down
`g1/…/gm` (Unix path arithmetic on the absolute path of the referrer): found iff `k` does
not leave the root and that group exists and holds `x`. -/
theorem C11_resolve_sound_relative (root : Grp) (sd : Bool) (k : Nat) (down : Path) (n : Name) (at_ : Path)
    (hd : ∀ c ∈ down, NoSlash c) (hn : NoSlash n) (hup : NoUp (joinWith ['/'] (down ++ [n]))) :
    searchRel root sd (upsStr k ++ joinWith ['/'] (down ++ [n])) at_.reverse =
      if k ≤ at_.length ∧ hasAt root (at_.take (at_.length - k) ++ down) sd n = true
      then some (at_.take (at_.length - k) ++ down, n) else none := by
  unfold searchRel searchRelOld
  rw [stripUps_ups k _ _ hup]
  by_cases hk : k ≤ at_.length
  · have hsplit : splitOn '/' (joinWith ['/'] (down ++ [n])) = down ++ [n] := by
      apply splitOn_joinWith
      · simp
      · intro w hw
        simp at hw
        rcases hw with hw | rfl
        · exact hd w hw
        · exact hn
    have hrev : (List.drop k at_.reverse).reverse = at_.take (at_.length - k) := by
      rw [List.drop_reverse]; simp
    simp only [List.length_reverse, hk, ↓reduceIte, hsplit, dropLast_snoc', getLastD_snoc, hrev, true_and]
    by_cases hh : hasAt root (at_.take (at_.length - k) ++ down) sd n = true
    · simp [hh, hasAt_groupAt hh]
    · by_cases hg : groupAt root (at_.take (at_.length - k) ++ down) = true <;> simp [hh, hg]
  · simp [hk]

example : NoUp (joinWith ['/'] ([['g']] ++ [['x']])) := by
  intro t h; simp [joinWith] at h

/-- The code as it stands: a missing final element raises `KeyError` instead of "not found",
and the second search of a dimension-or-variable rule dies on `self.groupp`. -/
theorem C11_old_relative_counterexample :
    let root : Grp := ⟨{ name := [], dims := ["t".toList] }, .cons { name := "g".toList, vars := ["v".toList] } .nil .nil⟩
    searchRelOld root false "../lat".toList ["g".toList] = .keyError
    ∧ searchRel root false "../lat".toList ["g".toList] = none
    ∧ (findRule "cell_methods").map (fun r => resolveOld root r false none ["g".toList] "sub/t".toList)
        = some (.raised "AttributeError")
    ∧ (findRule "cell_methods").map (fun r => resolve root r false none ["g".toList] "sub/t".toList)
        = some (.asis "sub/t".toList)
    ∧ (findRule "cell_methods").map (fun r => resolveOld root r false none ["g".toList] "../t".toList)
        = some (.dim [] "t".toList) := by
  decide

/-- **Search by proximity** (no coordinate special case): a bare name designates the element
of that name in the *nearest* enclosing group — the referring group itself or the closest
ancestor that has one; nothing is found iff no enclosing group has one. -/
theorem C11_resolve_sound_proximal (root : Grp) (sd : Bool) (ref : Name) (p : Path) :
    (∀ q, searchProx root sd false ref p = some q ↔
      (q <+: p ∧ hasAt root q sd ref = true ∧
        ∀ q', q' <+: p → hasAt root q' sd ref = true → q'.length ≤ q.length)) ∧
    (searchProx root sd false ref p = none ↔ ∀ q, q <+: p → hasAt root q sd ref = false) :=
  searchProx_plain_spec root sd ref p

/-- **Coordinate variables: local apex and lateral search** (CF 2.7.1, the rule of the
`coordinates` attribute).  The ancestor search runs only up to the local apex — the nearest
enclosing group that defines a dimension of that name; an element found on the way (nearest
first) is the answer; otherwise the answer is an element of that name *below* the local apex
at minimal depth ("width-wise through each level of groups"); nothing is found iff there is
no local apex (and no element on the way to the root), or nothing of that name lies below it.
The search is by structural recursion on the path and on the group tree. -/
theorem C11_resolve_sound_lateral (root : Grp) (sd : Bool) (ref : Name) (p : Path) :
    (∀ q, searchProx root sd true ref p = some q →
      ∃ a, IsStop root sd ref p a ∧
        ((hasAt root a sd ref = true ∧ q = a) ∨
         (hasAt root a sd ref = false ∧ ∃ rel m, q = a ++ rel ∧ Occ (kidsAt root a) rel m ∧ m.has sd ref = true ∧
            ∀ rel' m', Occ (kidsAt root a) rel' m' → m'.has sd ref = true → rel.length ≤ rel'.length))) ∧
    (searchProx root sd true ref p = none →
      (∀ a, a <+: p → stops root sd ref a = false) ∨
      (∃ a, IsStop root sd ref p a ∧ hasAt root a sd ref = false ∧
        ∀ rel m, Occ (kidsAt root a) rel m → m.has sd ref = false)) :=
  searchProx_coord_spec root sd ref p

/-- `/` {dimension lat; variable time} ⊃ `/g` {variable lat} ⊃ `/g/h` {}. -/
def exRoot : Grp :=
  ⟨{ name := [], dims := ["lat".toList], vars := ["time".toList] },
   .cons { name := "g".toList, vars := ["lat".toList] } (.cons { name := "h".toList } .nil .nil) .nil⟩

example : searchProx exRoot false false "lat".toList ["g".toList, "h".toList] = some ["g".toList] := by decide
example : searchProx exRoot false false "time".toList ["g".toList, "h".toList] = some [] := by decide
example : searchProx exRoot false false "lon".toList ["g".toList, "h".toList] = none := by decide
-- lateral: from the root (local apex of `lat`) down to `/g`
example : searchProx exRoot false true "lat".toList [] = some ["g".toList] := by decide
example : IsStop exRoot false "lat".toList [] [] := by
  refine ⟨List.nil_prefix, by decide, ?_⟩
  intro a ha _
  have : a = [] := by simpa using ha
  simp [this]
example : searchRel exRoot false "../../time".toList ["h".toList, "g".toList] = some ([], "time".toList) := by decide
example : (findRule "coordinates").map (fun r => resolve exRoot r false none ["g".toList, "h".toList] "/g/lat".toList)
    = some (.var ["g".toList] "lat".toList) := by decide

/-- The lateral descent as it is coded is depth-first: with `lat` below `/a/b` and below `/c`
(local apex = root) it answers `/a/b/lat`, at depth 2, although `/c/lat` is at depth 1. -/
theorem C11_old_lateral_counterexample :
    let lat := "lat".toList
    let root : Grp := ⟨{ name := [], dims := [lat] },
      .cons { name := "a".toList } (.cons { name := "b".toList, vars := [lat] } .nil .nil)
        (.cons { name := "c".toList, vars := [lat] } .nil .nil)⟩
    searchProxOld root false true lat [] = some ["a".toList, "b".toList]
    ∧ searchProx root false true lat [] = some ["c".toList]
    ∧ Occ root.kids ["c".toList] { name := "c".toList, vars := [lat] } := by
  refine ⟨by decide, by decide, ?_⟩
  exact Occ.next Occ.here

/-- **The coordinate variable of a dimension** (`_find_coordinate_variable`, patched).  For a
data variable in group `fg`, a dimension defined in the enclosing group `dg`, and the groups
`cs` of the same-named variables that span exactly that dimension (pairwise different, the one
in the dimension's own group flagged by `apexVar`): the reader's choice is the CF 2.7.1
designation — the candidate nearest to the data variable among its group and its ancestors down
to the local apex; only if there is none, the candidate below the apex that is strictly nearest
to it — and it finds nothing exactly when nothing is designated (no candidate, or a tie in the
lateral search). -/
theorem C11_coordinate_variable_sound (apexVar : Bool) (fg dg : Path) (cs : List Path)
    (hnd : cs.Nodup) (hapex : apexVar = true → dg ∈ cs) :
    (∀ q, findCoordVar apexVar fg dg cs = some q → Designated fg dg cs q) ∧
    (findCoordVar apexVar fg dg cs = none → ∀ q, ¬ Designated fg dg cs q) :=
  findCoordVar_spec apexVar fg dg cs hnd hapex

-- dimension in the root, candidates /g1 and /g1/g2, data variable in /g1/g2/g3: the deeper one
example : findCoordVar false ["g1".toList, "g2".toList, "g3".toList] []
    [["g1".toList], ["g1".toList, "g2".toList]] = some ["g1".toList, "g2".toList] := by decide
-- lateral: only candidates beside the data variable; the shallower one
example : findCoordVar false ["a".toList] [] [["b".toList, "c".toList], ["c".toList]] = some ["c".toList] := by decide
-- lateral tie
example : findCoordVar false ["a".toList] [] [["b".toList], ["c".toList]] = none := by decide

/-- The reader as it stands lets a variable in the dimension's own group win even when a
same-named variable spanning the dimension is nearer to the data variable. -/
theorem C11_old_coordinate_variable_counterexample :
    findCoordVarOld true ["g1".toList] [] [[], ["g1".toList]] = some []
    ∧ findCoordVar true ["g1".toList] [] [[], ["g1".toList]] = some ["g1".toList]
    ∧ ¬ Designated ["g1".toList] [] [[], ["g1".toList]] [] := by
  refine ⟨by decide, by decide, ?_⟩
  rintro ⟨_, h | h⟩
  · have := h.2 ["g1".toList] ⟨by simp, List.nil_prefix⟩ (List.prefix_refl _)
    simp at this
  · exact h.1 [] ⟨by simp, List.nil_prefix⟩ List.nil_prefix

/-! ## flattened names -/

/-- **Flattened names are injective** on clean names: two elements whose group names and own
names contain no `__` and do not end in `_`, and whose concatenated names stay under the
255-character limit, get the same flattened name only if they are the same element — for the
code as it is (`flatNameOld`) and for the patched allocator whenever the concatenated name is
not already taken. -/
theorem C11_flatten_injective (h : List Char → List Char) (p p' : Path) (n n' : Name)
    (c : ∀ w ∈ p ++ [n], CleanName w) (c' : ∀ w ∈ p' ++ [n'], CleanName w)
    (s : (fullName p n).length < 256) (s' : (fullName p' n').length < 256) :
    (flatNameOld h p n = flatNameOld h p' n' → p = p' ∧ n = n') ∧
    (∀ u u', fullName p n ∉ u → fullName p' n' ∉ u' → flatName h u p n = flatName h u' p' n' → p = p' ∧ n = n') := by
  have inj : fullName p n = fullName p' n' → p = p' ∧ n = n' := by
    intro e
    have := joinWith_uu_injective (p ++ [n]) (p' ++ [n']) (by simp) (by simp) c c' e
    have hlen : p.length = p'.length := by
      have := congrArg List.length this
      simp at this; exact this
    have := List.append_inj this hlen
    exact ⟨this.1, by simpa using this.2⟩
  constructor
  · intro e
    rw [flatNameOld_short h p n s, flatNameOld_short h p' n' s'] at e
    exact inj e
  · intro u u' hu hu' e
    rw [flatName_short h u p n s hu, flatName_short h u' p' n' s' hu'] at e
    exact inj e

example : ∀ w ∈ [["forecast".toList], ["model".toList]].flatten ++ ["air_temperature".toList], CleanName w := by
  intro w hw
  simp at hw
  rcases hw with rfl | rfl | rfl <;> refine ⟨by simp [NoUU], by decide⟩

/-- Without the hypothesis the code as it stands maps different elements to one name —
`b__c` in `/a` and `c` in `/a/b`; `b` in `/a_` and `_b` in `/a` — and `createVariable` fails;
the patched allocator gives the later one its hashed name. -/
theorem C11_old_flatten_name_counterexample :
    flatNameOld id ["a".toList] "b__c".toList = flatNameOld id ["a".toList, "b".toList] "c".toList
    ∧ flatNameOld id ["a_".toList] "b".toList = flatNameOld id ["a".toList] "_b".toList
    ∧ allocNames (fun s => 'H' :: s) [(["a".toList], "b__c".toList), (["a".toList, "b".toList], "c".toList)] []
        = ["a__b__c".toList, "H/a/b__c".toList] := by
  decide

/-- The patched allocator returns a name that is already in use only in its last resort
(the hash of the whole concatenated name).

Full statement (not provable without assuming that sha1 digests do not collide with names in
use): `(allocNames h xs []).Nodup` for every list `xs` of distinct elements. -/
theorem C11_flatten_alloc_partial (h : List Char → List Char) (u : List (List Char)) (p : Path) (n : Name)
    (hp : p ≠ []) (hin : flatName h u p n ∈ u) : flatName h u p n = h (fullName p n) := by
  cases p with
  | nil => exact absurd rfl hp
  | cons c cs =>
    simp only [flatName] at hin ⊢
    split at hin
    · split at hin
      · rename_i h1 h2; simp only [h1, h2, ↓reduceIte]
      · rename_i h1 h2
        simp only [Bool.or_eq_true, decide_eq_true_eq, not_or, List.contains_eq_mem] at h2
        exact absurd hin h2.2
    · rename_i h1
      simp only [Bool.or_eq_true, decide_eq_true_eq, not_or, List.contains_eq_mem] at h1
      exact absurd hin h1.2

example : flatName (fun s => 'H' :: s) ["a__b".toList] ["a".toList] "b".toList = "H/a__b".toList := by decide

/-! ## `parse_attribute` -/

/-- A dict keeps one entry per key: the cell methods `time: minimum time: mean` lose the
first method when the flattener as it stands re-writes the attribute; the patched code keeps
the list of pairs. -/
theorem C11_old_parse_attribute_counterexample :
    dictOfPairs [("time".toList, ["minimum".toList]), ("time".toList, ["mean".toList])]
      = [("time".toList, ["mean".toList])] := by
  decide

/-! ## the writer's dimension-visibility check -/

/-- **A variable is only placed where its dimensions are visible.**  The writer's test —
`groups(variable).startswith(groups(dimension))` on the strings `''`, `'/a/'`, `'/a/b/'` —
accepts a layout iff every dimension of every variable lives in the variable's group or in
one of its ancestors (list prefix on group paths): the trailing slash makes the string prefix
test exact (`/forecast2/` does not start with `/forecast/`). -/
theorem C11_dim_visible (L : Layout)
    (hv : ∀ v ∈ L.vars, (∀ c ∈ v.grp, NoSlash c) ∧ NoSlash v.base)
    (hd : ∀ d ∈ L.dims, (∀ c ∈ d.grp, NoSlash c) ∧ NoSlash d.base) :
    accepts L = true ↔ ∀ v ∈ L.vars, ∀ i ∈ v.dims, ∀ d, L.dims[i]? = some d → d.grp <+: v.grp := by
  unfold accepts
  simp only [List.all_eq_true]
  constructor
  · intro h v hvm i hi d hdi
    have := h v hvm i hi
    have hdm : d ∈ L.dims := List.mem_of_getElem? hdi
    unfold Layout.dimName PVar.ncName at this
    rw [hdi] at this
    exact (dimVisible_ncName v.grp d.grp v.base d.base (hv v hvm).1 (hd d hdm).1 (hv v hvm).2 (hd d hdm).2).mp this
  · intro h v hvm i hi
    unfold Layout.dimName PVar.ncName
    cases hdi : L.dims[i]? with
    | none =>
      simp only [dimVisible]
      have : groupsStr [] = [] := by decide
      rw [this]; simp
    | some d =>
      have hdm : d ∈ L.dims := List.mem_of_getElem? hdi
      exact (dimVisible_ncName v.grp d.grp v.base d.base (hv v hvm).1 (hd d hdm).1 (hv v hvm).2 (hd d hdm).2).mpr
        (h v hvm i hi d hdi)

example : dimVisible "/forecast2/q".toList "/forecast/lat".toList = false := by decide
example : dimVisible "/forecast/model/q".toList "/forecast/lat".toList = true := by decide
example : accepts { dims := [⟨["a".toList], "lat".toList⟩], vars := [⟨["a".toList, "g".toList], "q".toList, [0], []⟩] } = true := by
  decide

/-! ## flattening undoes the placement -/

/-- What a reference token of `v` must satisfy for the placement theorem: it sits in an
attribute of the rule table whose rule has the shape the writer uses it with (a variable-only
rule without the scalar-coordinate limit for variable targets, a dimension-first rule without
the local-apex stop for dimension targets), and — when the target lives in the root group and
is therefore named without a path — no element of the same base name lives in a non-root
group on the way from the referrer to the root (nothing shadows it). -/
def RefOk (L : Layout) (v : PVar) (r : PRef) : Prop :=
  ∃ rule, findRule r.attr = some rule ∧
    if r.isDim then
      ∃ d, L.dims[r.idx]? = some d ∧ rule.refToDim > rule.refToVar ∧ rule.stopAtLocalApex = false ∧
        (d.grp = [] → ∀ d' ∈ L.dims, d'.base = d.base → d'.grp <+: v.grp → d'.grp = [])
    else
      ∃ w, L.vars[r.idx]? = some w ∧ rule.refToDim = 0 ∧ rule.limitToScalarCoordinates = false ∧
        (w.grp = [] → (∀ w' ∈ L.vars, w'.base = w.base → w'.grp <+: v.grp → w'.grp = []) ∧
          (rule.stopAtLocalApex = true → ∀ d' ∈ L.dims, d'.base = w.base → d'.grp <+: v.grp → d'.grp = []))

structure Placed (L : Layout) (v : PVar) : Prop where
  mem : v ∈ L.vars
  slashV : ∀ w ∈ L.vars, (∀ c ∈ w.grp, NoSlash c) ∧ NoSlash w.base
  slashD : ∀ d ∈ L.dims, (∀ c ∈ d.grp, NoSlash c) ∧ NoSlash d.base
  dimsOk : ∀ i ∈ v.dims, (L.dims[i]?).isSome = true
  refsOk : ∀ r ∈ v.refs, RefOk L v r
  /-- no dimension of the same base name between a dimension's group and the variable's -/
  dimShadow : ∀ i ∈ v.dims, ∀ d, L.dims[i]? = some d → ∀ d' ∈ L.dims, d'.base = d.base →
    d'.grp <+: v.grp → d'.grp.length ≤ d.grp.length

/-- **Flattening undoes the placement.**  For every layout the writer accepts and every
variable `v` of it (names without `/`, references through attributes used as the writer uses
them, nothing of the same base name shadowing a dimension or a root-group target): the variable
of the grouped file `buildTree L`, flattened — its dimensions found by netCDF's nearest-enclosing
rule, its reference tokens (absolute paths for elements in groups, bare names for elements of
the root group) resolved by the flattener — names exactly the dimensions and the targets the
flat file names.  Together with `C11_flatten_injective` (distinct elements keep distinct names)
the flattened grouped file is the flat file up to the recorded renaming, hence is read as the
same constructs. -/
theorem C11_flatten_places (L : Layout) (v : PVar) (hacc : accepts L = true) (hp : Placed L v) :
    flattenVar L v = flatSpecVar L v := by
  have hvis := (C11_dim_visible L hp.slashV hp.slashD).mp hacc
  have e2 : (flattenVar L v).dims = (flatSpecVar L v).dims := by
    simp only [flattenVar, flatSpecVar]
    apply List.map_congr_left
    intro i hi
    cases hd : L.dims[i]? with
    | none => have := hp.dimsOk i hi; simp [hd] at this
    | some d =>
      simp only [Option.map_some]
      have hdm : d ∈ L.dims := List.mem_of_getElem? hd
      have hpre : d.grp <+: v.grp := hvis v hp.mem i hi d hd
      have hfind : ncFindDim (buildTree L) v.grp d.base = some d.grp := by
        unfold ncFindDim
        apply ((C11_resolve_sound_proximal (buildTree L) true d.base v.grp).1 d.grp).mpr
        refine ⟨hpre, (hasAt_buildTree_dim L d.grp d.base).mpr ⟨d, hdm, rfl, rfl⟩, ?_⟩
        intro q' hq' hh
        obtain ⟨d', hd'm, hg, hb⟩ := (hasAt_buildTree_dim L q' d.base).mp hh
        have := hp.dimShadow i hi d hd d' hd'm hb (by rw [hg]; exact hq')
        rw [hg] at this; exact this
      rw [hfind]; simp
  have e3 : (flattenVar L v).refs = (flatSpecVar L v).refs := by
    simp only [flattenVar, flatSpecVar]
    apply List.map_congr_left
    intro r hr
    obtain ⟨rule, hrule, hcase⟩ := hp.refsOk r hr
    simp only [hrule, Option.getD_some]
    by_cases hdim : r.isDim = true
    · simp only [hdim, ↓reduceIte] at hcase ⊢
      obtain ⟨d, hd, hgt, hstop, hsh⟩ := hcase
      have hdm : d ∈ L.dims := List.mem_of_getElem? hd
      have hhas : hasAt (buildTree L) d.grp true d.base = true :=
        (hasAt_buildTree_dim L d.grp d.base).mpr ⟨d, hdm, rfl, rfl⟩
      simp only [refToken, hdim, ↓reduceIte, Layout.dimName, hd]
      cases hg : d.grp with
      | cons c cs =>
        have := (C11_resolve_sound_absolute (buildTree L) rule false (coordsOf L v) v.grp d.grp d.base
          (hp.slashD d hdm).1 (hp.slashD d hdm).2).2.2.2.2 hgt hhas
        rw [hg] at this
        simpa [ncName] using this
      | nil =>
        rw [hg] at hhas
        obtain ⟨h1, h2⟩ := noSlash_bare (hp.slashD d hdm).2
        have hsp : searchProx (buildTree L) true false d.base v.grp = some [] := by
          apply searchProx_root_plain _ _ _ _ hhas
          intro q hq hh
          obtain ⟨d', hd'm, hg', hb'⟩ := (hasAt_buildTree_dim L q d.base).mp hh
          have := hsh hg d' hd'm hb' (by rw [hg']; exact hq)
          rw [← hg']; exact this
        have hdf : decide (rule.refToDim > rule.refToVar) = true := by simpa using hgt
        simp only [ncName, resolve, h1, h2, hdf, hstop, hsp, postProcess, tyOf, ↓reduceIte]
        simp [adaptElem, hdf, hhas]
    · have hdim' : r.isDim = false := by simpa using hdim
      simp only [hdim', Bool.false_eq_true, ↓reduceIte] at hcase ⊢
      obtain ⟨w, hw, h0, hlim, hsh⟩ := hcase
      have hwm : w ∈ L.vars := List.mem_of_getElem? hw
      have hhas : hasAt (buildTree L) w.grp false w.base = true :=
        (hasAt_buildTree_var L w.grp w.base).mpr ⟨w, hwm, rfl, rfl⟩
      simp only [refToken, hdim', Bool.false_eq_true, ↓reduceIte, hw, PVar.ncName]
      cases hg : w.grp with
      | cons c cs =>
        have := ((C11_resolve_sound_absolute (buildTree L) rule false (coordsOf L v) v.grp w.grp w.base
          (hp.slashV w hwm).1 (hp.slashV w hwm).2).2.2.2.1 h0).mpr hhas
        rw [hg] at this
        simpa [ncName] using this
      | nil =>
        rw [hg] at hhas
        obtain ⟨h1, h2⟩ := noSlash_bare (hp.slashV w hwm).2
        obtain ⟨hsv, hsd⟩ := hsh hg
        have hsp : searchProx (buildTree L) false rule.stopAtLocalApex w.base v.grp = some [] := by
          cases hst : rule.stopAtLocalApex with
          | false =>
            apply searchProx_root_plain _ _ _ _ hhas
            intro q hq hh
            obtain ⟨w', hw'm, hg', hb'⟩ := (hasAt_buildTree_var L q w.base).mp hh
            have := hsv w' hw'm hb' (by rw [hg']; exact hq)
            rw [← hg']; exact this
          | true =>
            apply searchProx_root_coord _ _ _ _ hhas
            intro q hq hh
            simp only [stops, Bool.or_eq_true] at hh
            rcases hh with hh | hh
            · obtain ⟨w', hw'm, hg', hb'⟩ := (hasAt_buildTree_var L q w.base).mp hh
              have := hsv w' hw'm hb' (by rw [hg']; exact hq)
              rw [← hg']; exact this
            · obtain ⟨d', hd'm, hg', hb'⟩ := (hasAt_buildTree_dim L q w.base).mp hh
              have := hsd hst d' hd'm hb' (by rw [hg']; exact hq)
              rw [← hg']; exact this
        have hdf : decide (rule.refToDim > rule.refToVar) = false := by simp [h0]
        simp only [ncName, resolve, h1, h2, hdf, hsp, postProcess, tyOf, hlim, ↓reduceIte]
        simp [adaptElem, hdf, hhas]
  have e1 : (flattenVar L v).path = (flatSpecVar L v).path := rfl
  cases h1 : flattenVar L v
  cases h2 : flatSpecVar L v
  simp_all

/-- A layout of the kind the correspondence generates: `q(x, y)` in `/a/g` with `y` and the
auxiliary coordinate `aux(y)` in `/a`, `x` and the scalar coordinate `time` in the root. -/
def exLayout : Layout :=
  { dims := [⟨[], "x".toList⟩, ⟨["a".toList], "y".toList⟩]
    vars := [⟨[], "time".toList, [], []⟩, ⟨["a".toList], "aux".toList, [1], []⟩,
             ⟨["a".toList, "g".toList], "q".toList, [0, 1],
               [⟨"coordinates", false, 0⟩, ⟨"coordinates", false, 1⟩, ⟨"cell_methods", true, 1⟩, ⟨"cell_methods", true, 0⟩]⟩] }

def exVar : PVar := ⟨["a".toList, "g".toList], "q".toList, [0, 1],
  [⟨"coordinates", false, 0⟩, ⟨"coordinates", false, 1⟩, ⟨"cell_methods", true, 1⟩, ⟨"cell_methods", true, 0⟩]⟩

instance : DecidablePred NoSlash := fun c => inferInstanceAs (Decidable ('/' ∉ c))

example : accepts exLayout = true := by decide

example : Placed exLayout exVar where
  mem := by decide
  slashV := by decide
  slashD := by decide
  dimsOk := by decide
  dimShadow := by decide
  refsOk := by
    intro r hr
    simp only [exVar, List.mem_cons, List.not_mem_nil, or_false] at hr
    rcases hr with rfl | rfl | rfl | rfl
    · exact ⟨_, rfl, ⟨_, rfl, by decide, by decide, by decide⟩⟩
    · exact ⟨_, rfl, ⟨_, rfl, by decide, by decide, by decide⟩⟩
    · exact ⟨_, rfl, ⟨_, rfl, by decide, by decide, by decide⟩⟩
    · exact ⟨_, rfl, ⟨_, rfl, by decide, by decide, by decide⟩⟩

example : (flattenVar exLayout exVar).refs =
    [.var [] "time".toList, .var ["a".toList] "aux".toList, .dim ["a".toList] "y".toList, .dim [] "x".toList] := by decide +kernel

/-- Without the no-shadowing hypotheses the statement is false, and so is the property for the
code as it stands (open findings): a variable `time` in `/a` captures the bare reference to
the root-group `time`; a dimension `x` in `/a` captures the dimension name `x` of `/x`. -/
theorem C11_shadow_counterexample :
    let L : Layout :=
      { dims := [⟨[], "x".toList⟩, ⟨["a".toList], "x".toList⟩]
        vars := [⟨[], "time".toList, [], []⟩, ⟨["a".toList], "time".toList, [], []⟩,
                 ⟨["a".toList, "g".toList], "q".toList, [0, 1], [⟨"coordinates", false, 0⟩]⟩] }
    let v : PVar := ⟨["a".toList, "g".toList], "q".toList, [0, 1], [⟨"coordinates", false, 0⟩]⟩
    accepts L = true
    ∧ (flattenVar L v).refs = [.var ["a".toList] "time".toList]
    ∧ (flatSpecVar L v).refs = [.var [] "time".toList]
    ∧ (flattenVar L v).dims = [some (["a".toList], "x".toList), some (["a".toList], "x".toList)]
    ∧ (flatSpecVar L v).dims = [some ([], "x".toList), some (["a".toList], "x".toList)] := by
  decide +kernel

/-! ## recorded groups reproduce the layout -/

/-- **Regrouping.**  For an element `b` of group `p`: the name the reader records from the
flattener's map (`/p…/b`, without the slash for the root group) is `ncName p b`; the API
stores it unchanged; its recorded groups (`nc_variable_groups`, `nc_dimension_groups`) are
`p`; and the writer, given that name, creates base name `b` in exactly the group `p` — so
writing what was read with `group=True` reproduces the membership.  `nc_set_*_groups(p')`
moves the same base name to `p'`. -/
theorem C11_regroup (p : Path) (b : Name) (hp : ∀ c ∈ p, NoSlash c ∧ c ≠ []) (hb : NoSlash b) (hne : b ≠ []) :
    readName (absName p b) = ncName p b ∧
    ncSet (ncName p b) = some (ncName p b) ∧
    ncGroups (ncName p b) = p ∧
    baseName (ncName p b) = b ∧
    parentGroup (ncName p b) = some p ∧
    (∀ p' : Path, (∀ c ∈ p', NoSlash c) → ncSetGroups (ncName p b) p' = some (ncName p' b)) := by
  have hp1 : ∀ c ∈ p, NoSlash c := fun c hc => (hp c hc).1
  exact ⟨readName_absName p b hp1 hb, ncSet_ncName p b hp hb hne, ncGroups_ncName p b hp1 hb,
    baseName_ncName p b hp1 hb, parentGroup_ncName p b hp1 hb,
    fun p' hp' => ncSetGroups_ncName p p' b hp1 hp' hb hne⟩

example : ncGroups (ncName ["forecast".toList, "model".toList] "ta".toList) = ["forecast".toList, "model".toList] := by decide
example : readName "/lat".toList = "lat".toList ∧ parentGroup "lat".toList = some [] := by decide

/-- What `cfdm.read` records for a variable / dimension of the grouped file: the absolute path
in the flattener's map, slash dropped for the root group; the writer later splits that name
again. -/
def recordVar (v : PVar) : PVar :=
  let nm := readName (absName v.grp v.base)
  { v with grp := ncGroups nm, base := baseName nm }

def recordDim (d : PDim) : PDim :=
  let nm := readName (absName d.grp d.base)
  { grp := ncGroups nm, base := baseName nm }

def recordLayout (L : Layout) : Layout := { dims := L.dims.map recordDim, vars := L.vars.map recordVar }

/-- **Writing what was read reproduces the layout.**  For every layout (names without `/`,
non-empty): the group membership recorded on read, handed to the writer again with
`group=True`, is the same layout — same group tree, same acceptance. -/
theorem C11_regroup_layout (L : Layout)
    (hv : ∀ v ∈ L.vars, (∀ c ∈ v.grp, NoSlash c ∧ c ≠ []) ∧ NoSlash v.base ∧ v.base ≠ [])
    (hd : ∀ d ∈ L.dims, (∀ c ∈ d.grp, NoSlash c ∧ c ≠ []) ∧ NoSlash d.base ∧ d.base ≠ []) :
    recordLayout L = L ∧ buildTree (recordLayout L) = buildTree L ∧ accepts (recordLayout L) = accepts L := by
  have h : recordLayout L = L := by
    unfold recordLayout
    have h1 : L.dims.map recordDim = L.dims := by
      conv => rhs; rw [← List.map_id L.dims]
      apply List.map_congr_left
      intro d hdm
      obtain ⟨h1, h2, h3⟩ := hd d hdm
      obtain ⟨r1, _, r3, r4, _, _⟩ := C11_regroup d.grp d.base h1 h2 h3
      simp only [recordDim, r1, r3, r4, id]
    have h2 : L.vars.map recordVar = L.vars := by
      conv => rhs; rw [← List.map_id L.vars]
      apply List.map_congr_left
      intro v hvm
      obtain ⟨h1, h2, h3⟩ := hv v hvm
      obtain ⟨r1, _, r3, r4, _, _⟩ := C11_regroup v.grp v.base h1 h2 h3
      simp only [recordVar, r1, r3, r4, id]
    rw [h1, h2]
  rw [h]
  exact ⟨rfl, rfl, rfl⟩

example : (recordLayout exLayout).vars = exLayout.vars ∧ (recordLayout exLayout).dims = exLayout.dims := by decide

/-! ## group attributes -/

/-- **Group attributes never change the meaning** (patched writer), at every depth.  For every
group path of the data variable — the root group (depth 0) included —, every set `G` of global
(description-of-file-contents) attribute names, every set of properties and every
`nc_group_attributes()` dictionary (`None` values, values equal to the property, values
*different* from the property, names that are not properties): what the writer puts in the
global, group and variable attributes is read back (variable over group over global) as exactly
the original properties. -/
theorem C11_group_attributes_meaning (fieldGrp : Path) (G : List Name) (P : List (Name × Name))
    (GA : List (Name × Option Name)) (a : Name) :
    readProp3 (writeProps fieldGrp G P GA) a = alookup P a :=
  readProp3_writeProps fieldGrp G P GA a

example : readProp3 (writeProps ["forecast".toList] ["comment".toList]
    [("foo".toList, "baz".toList), ("comment".toList, "c".toList)]
    [("foo".toList, some "bar".toList), ("comment".toList, some "other".toList)]) "comment".toList = some "c".toList := by
  decide

/-- **Depth 0.**  A field whose data variable is in the root group writes no group attributes,
so a recorded `nc_group_attributes()` must not take anything off the variable: every property
that is not a global attribute stays a variable attribute, whatever the dictionary says. -/
theorem C11_group_attributes_root (G : List Name) (P : List (Name × Name)) (GA : List (Name × Option Name)) :
    (writeProps [] G P GA).grp = [] ∧
    (writeProps [] G P GA).var = P.filter (fun kv => !G.contains kv.1) ∧
    ∀ a, a ∉ G → alookup (writeProps [] G P GA).var a = alookup P a := by
  refine ⟨rfl, rfl, ?_⟩
  intro a ha
  have h := alookup_filter P (fun k => !G.contains k) a
  have : (writeProps [] G P GA).var = P.filter (fun kv => (fun k => !G.contains k) kv.1) := rfl
  rw [this, h]
  simp [ha]

/-- Were the omission applied at depth 0 as well (group attributes are not written there), the
property would be in no attribute at all. -/
example : readProp3 ⟨[], [], List.filter (fun kv => !omitted ["g".toList] [] [("project".toList, none)] kv.1)
      [("project".toList, "p".toList)]⟩ "project".toList = none := by
  decide

example : readProp3 (writeProps [] [] [("project".toList, "p".toList)] [("project".toList, none)]) "project".toList
    = some "p".toList := by decide

/-- The writer as it stands drops the property from the data variable even when the group
attribute has another value: the field comes back with the group's value. -/
theorem C11_old_group_attribute_counterexample :
    readProp (groupWritten [("foo".toList, "baz".toList)] [("foo".toList, some "bar".toList)])
      (varWrittenOld [("foo".toList, "baz".toList)] [("foo".toList, some "bar".toList)]) "foo".toList
      = some "bar".toList := by
  decide


/-! ## group attributes of several fields in one dataset -/

/-- **Every group attribute lands in exactly its group.**  `_write_group_attributes` walks, for
each distinct group path in turn, from the ROOT of the dataset down that path (creating the groups
that are missing) and sets the attributes there.  For every dataset tree to start with and every
list of pairwise different paths: afterwards the group at `q` carries the attributes listed for `q`
(merged into what it had) if `q` is listed and is unchanged otherwise; the groups of the dataset are
those there were plus the listed paths and their ancestors — nothing else is created; and no
dimension or variable is touched. -/
theorem C11_group_attributes_placement (t : Grp) (xs : List (Path × List (Name × Name)))
    (hnd : (xs.map (·.1)).Nodup) (q : Path) :
    attrsAt (writeGroupAttrs t xs) q =
      (match xs.find? (fun x => x.1 == q) with
       | some x => dictUpdate (attrsAt t q) x.2
       | none => attrsAt t q) ∧
    groupAt (writeGroupAttrs t xs) q = (groupAt t q || xs.any (fun x => q.isPrefixOf x.1)) ∧
    (∀ sd n, hasAt (writeGroupAttrs t xs) q sd n = hasAt t q sd n) :=
  ⟨(writeGroupAttrs_spec xs t hnd q).1, (writeGroupAttrs_spec xs t hnd q).2,
    fun sd n => hasAt_writeGroupAttrs xs t q sd n⟩

/-- Three fields in `/model/run1`, `/obs` and `/climatology`. -/
def exWalk : List (Path × List (Name × Name)) :=
  [(["model".toList, "run1".toList], [("comment".toList, "m".toList)]),
   (["obs".toList], [("comment".toList, "o".toList), ("source".toList, "s".toList)]),
   (["climatology".toList], [("comment".toList, "c".toList)])]

example : (exWalk.map (·.1)).Nodup := by decide
example : attrsAt (writeGroupAttrs emptyRoot exWalk) ["obs".toList] =
    [("comment".toList, "o".toList), ("source".toList, "s".toList)] := by decide
example : (writeGroupAttrs emptyRoot exWalk).groupPaths =
    [[], ["model".toList], ["model".toList, "run1".toList], ["obs".toList], ["climatology".toList]] := by decide

/-- The walk has to start at the root every time: with `nc = g["netcdf"]` hoisted out of the loop
the second and third walks continue from where the previous one ended — the attributes of `/obs`
land in the spurious group `/model/run1/obs`, and `/obs` itself gets none. -/
theorem C11_walk_must_restart_at_root_counterexample :
    attrsAt (writeGroupAttrsHoisted emptyRoot [] exWalk) ["obs".toList] = []
    ∧ attrsAt (writeGroupAttrsHoisted emptyRoot [] exWalk) ["model".toList, "run1".toList, "obs".toList]
        = [("comment".toList, "o".toList), ("source".toList, "s".toList)]
    ∧ groupAt (writeGroupAttrsHoisted emptyRoot [] exWalk)
        ["model".toList, "run1".toList, "obs".toList, "climatology".toList] = true
    ∧ groupAt (writeGroupAttrs emptyRoot exWalk) ["model".toList, "run1".toList, "obs".toList] = false := by
  decide

/-- **The groups of a dataset written for N fields, and their attributes.**  For every list of fields:
the group at path `q` of the written dataset carries, under name `a`, exactly the value the
selection rule gives that attribute in group `q` (`groupAttr`: the merged `nc_group_attributes()`
entry of the fields of `q`, kept only if it is a property with one value for all the fields of `q`
that no field in a sub-group lacks) when some field lives in `q`, and nothing otherwise; and the
groups of the dataset are the root and the groups of the fields with their ancestors. -/
theorem C11_group_attributes_of_fields (fs : List MField) (q : Path) (a : Name) :
    alookup (attrsAt (groupTreeWith true fs) q) a =
      (if q ∈ groupKeys fs then groupAttr true fs q a else none) ∧
    groupAt (groupTreeWith true fs) q =
      (decide (q = []) || fs.any (fun f => !f.grp.isEmpty && q.isPrefixOf f.grp)) := by
  constructor
  · rw [alookup_attrsAt_groupTree]
    unfold dictLook
    by_cases hq : q ∈ groupKeys fs
    · simp [hq, alookup_selectedWith]
    · simp [hq]
  · unfold groupTreeWith
    have hnd : (((groupKeys fs).map (fun g => (g, selectedWith true fs g))).map (·.1)).Nodup := by
      simp only [List.map_map]
      have : ((fun x : Path × List (Name × Name) => x.1) ∘ fun g => (g, selectedWith true fs g)) = id := by
        funext g; rfl
      rw [this]; simpa using groupKeys_nodup fs
    rw [(writeGroupAttrs_spec _ emptyRoot hnd q).2, groupAt_emptyRoot]
    congr 1
    rw [Bool.eq_iff_iff]
    simp only [List.any_map, List.any_eq_true, Function.comp, Bool.and_eq_true, Bool.not_eq_eq_eq_not, Bool.not_true,
      List.isEmpty_eq_false_iff]
    constructor
    · rintro ⟨g, hg, hpre⟩
      obtain ⟨hne, f, hf, e⟩ := (mem_groupKeys fs g).mp hg
      exact ⟨f, hf, by rw [e]; exact hne, by rw [e]; exact hpre⟩
    · rintro ⟨f, hf, hne, hpre⟩
      exact ⟨f.grp, (mem_groupKeys fs f.grp).mpr ⟨hne, f, hf, rfl⟩, hpre⟩

/-- **Group attributes of several fields never change any field's meaning** (patched writer).  For
every list of fields written by one call — any group paths (equal, nested, unrelated, the root),
any properties, any `nc_group_attributes()` dictionaries (`None`, own values, conflicting records,
names that are not properties) — and every set `D` of description-of-file-contents names: each
field reads back, through "variable attribute, else the nearest enclosing group's attribute, else
the global attribute", exactly its own properties.  The reader looks in the written dataset
(`groupTreeWith`), the writer decides what to leave off a variable from its own record
(`dictLook`); `C11_group_attributes_placement` is what makes the two agree. -/
theorem C11_group_attributes_several_fields (D : List Name) (fs : List MField) (f : MField) (hf : f ∈ fs)
    (a : Name) :
    readPropN (writeFieldsN D fs) f.grp
      (f.props.filter (fun kv => !omittedN (globalNames D fs) (dictLook true fs) f kv.1)) a = alookup f.props a := by
  unfold readPropN
  simp only [writeFieldsN]
  rw [alookup_filter f.props (fun k => !omittedN (globalNames D fs) (dictLook true fs) f k) a,
    inherited_groupTree true fs f.grp a, alookup_globalsOf D fs f hf a]
  generalize hI : inheritedFrom (dictLook true fs) f.grp a f.grp.length = inh
  by_cases hom : omittedN (globalNames D fs) (dictLook true fs) f a = true
  · simp only [hom, Bool.not_true, Bool.false_eq_true, ↓reduceIte]
    unfold omittedN at hom
    by_cases hroot : f.grp.isEmpty = true
    · simp only [hroot, ↓reduceIte] at hom
      have hnil : f.grp = [] := by simpa using hroot
      rw [hnil] at hI
      simp only [List.length_nil, inheritedFrom] at hI
      subst hI
      have hm : a ∈ globalNames D fs := by simpa using hom
      simp [hm]
    · simp only [hroot, Bool.false_eq_true, ↓reduceIte, hI, Bool.and_eq_true] at hom
      cases inh with
      | some v =>
        have := hom.2
        simp only [beq_iff_eq] at this
        simp [this]
      | none =>
        have hm : a ∈ globalNames D fs := by simpa using hom.2
        simp [hm]
  · have hom' : omittedN (globalNames D fs) (dictLook true fs) f a = false := by simpa using hom
    simp only [hom', Bool.not_false, ↓reduceIte]
    cases hp : alookup f.props a with
    | some v => rfl
    | none =>
      have hinh : inh = none := by
        cases inh with
        | none => rfl
        | some v =>
          exfalso
          obtain ⟨k, _, _, hl⟩ := inheritedFrom_some _ _ _ _ _ hI
          have := keepAttr_covers fs (f.grp.take k) a (dictLook_some fs _ a v hl) f hf k rfl
          simp [hp] at this
      have hglob : a ∉ globalNames D fs := by
        intro hg
        obtain ⟨v, hv⟩ := globalNames_mem D fs a hg
        rw [hv f hf] at hp
        exact absurd hp (by simp)
      simp [hinh, hglob]

/-- `q1` in `/a` records `comment` as a group attribute (`None`) and `project` with a value of its
own; `q2` in `/a` has another `comment`; `q3` in `/a/b` has no `comment` at all. -/
def exFields : List MField :=
  [⟨["a".toList], "q1".toList, [("comment".toList, "one".toList), ("project".toList, "p".toList)],
      [("comment".toList, none), ("project".toList, some "other".toList)]⟩,
   ⟨["a".toList], "q2".toList, [("comment".toList, "two".toList), ("project".toList, "p".toList)], []⟩,
   ⟨["a".toList, "b".toList], "q3".toList, [("project".toList, "p".toList)], []⟩]

example : (writeFieldsN ["comment".toList] exFields).vars =
    [[("comment".toList, "one".toList), ("project".toList, "p".toList)],
     [("comment".toList, "two".toList), ("project".toList, "p".toList)],
     [("project".toList, "p".toList)]] := by decide
example : attrsAt (writeFieldsN ["comment".toList] exFields).tree ["a".toList] = [("project".toList, "other".toList)] := by
  decide

/-- The writer as it stands (`writeFieldsNOld`): (1) two fields of one group record `comment` as a
group attribute but disagree on its value — the attribute is not written to the group, yet both
variables leave it off: the property is lost; (2) a field in `/a/b` without the property is given
the attribute of `/a` on read; (3) a group attribute with a value of its own hides the equal-valued
global attribute of the other field of the group.  The patched writer returns the originals. -/
theorem C11_old_several_fields_counterexample :
    let c := "comment".toList
    let a := "a".toList
    let fs1 : List MField := [⟨[a], "q1".toList, [(c, "one".toList)], [(c, none)]⟩,
                              ⟨[a], "q2".toList, [(c, "two".toList)], [(c, none)]⟩]
    let fs2 : List MField := [⟨[a], "q1".toList, [(c, "one".toList)], [(c, none)]⟩,
                              ⟨[a, "b".toList], "q2".toList, [], []⟩]
    let fs3 : List MField := [⟨[a], "q1".toList, [(c, "c".toList)], [(c, some "other".toList)]⟩,
                              ⟨[a], "q2".toList, [(c, "c".toList)], []⟩]
    (writeFieldsNOld [] fs1).vars = [[], []] ∧ attrsAt (writeFieldsNOld [] fs1).tree [a] = []
    ∧ (writeFieldsN [] fs1).vars = [[(c, "one".toList)], [(c, "two".toList)]]
    ∧ readPropN (writeFieldsNOld [] fs2) [a, "b".toList] [] c = some "one".toList
    ∧ readPropN (writeFieldsN [] fs2) [a, "b".toList] [] c = none
    ∧ (writeFieldsNOld [c] fs3).vars = [[(c, "c".toList)], []]
    ∧ readPropN (writeFieldsNOld [c] fs3) [a] [] c = some "other".toList
    ∧ (writeFieldsN [c] fs3).vars = [[(c, "c".toList)], [(c, "c".toList)]] := by
  decide


/-- **Sub-groups supersede their parents.**  The reader collects the attributes of the enclosing
groups of a data variable with `group_attributes.update(...)`, outermost group first.  For every
dataset tree whose groups have dictionaries of attributes (distinct names) and every group path:
what the loop leaves under name `a` is the attribute of the NEAREST enclosing group that has one
(the root excluded).  In particular this holds in every dataset the writer produces for N fields,
so `C11_group_attributes_several_fields` speaks about the reader as coded. -/
theorem C11_reader_group_attribute_precedence (t : Grp) (grp : Path) (a : Name)
    (h : ∀ k, (keys (attrsAt t (grp.take k))).Nodup) :
    inheritedLoop t grp a = inherited t grp a ∧
    (∀ fs : List MField, inheritedLoop (groupTreeWith true fs) grp a = inherited (groupTreeWith true fs) grp a) :=
  ⟨inheritedLoop_eq t grp a h,
   fun fs => inheritedLoop_eq _ grp a (fun k => attrsAt_groupTree_nodup true fs (grp.take k))⟩

example : inheritedLoop (writeGroupAttrs emptyRoot
      [(["a".toList], [("c".toList, "outer".toList), ("d".toList, "x".toList)]),
       (["a".toList, "b".toList], [("c".toList, "inner".toList)])])
    ["a".toList, "b".toList] "c".toList = some "inner".toList := by decide
example : inheritedLoop (writeGroupAttrs emptyRoot
      [(["a".toList], [("c".toList, "outer".toList), ("d".toList, "x".toList)]),
       (["a".toList, "b".toList], [("c".toList, "inner".toList)])])
    ["a".toList, "b".toList] "d".toList = some "x".toList := by decide

/-! ## the reader's base names -/

/-- **Base names.**  The reader compares the base name of a dimension with the base names of the
variables that span it to find its coordinate variable.  Patched, the base name is the last
component of the absolute path recorded by the flattener: for every element it is the element's
own name.  As it stands the reader strips `g1__g2__` from the FLATTENED name: that is the own name
when the flattened name is the plain concatenation (short enough, not already in use) — and not
when the flattener had to fall back on a hash (`a/b__c` before `a/b/c`). -/
theorem C11_reader_base_name (p : Path) (n : Name) (hp : ∀ c ∈ p, NoSlash c) (hn : NoSlash n) :
    readBase (absName p n) = n ∧
    (∀ (h : List Char → List Char) (u : List (List Char)), p ≠ [] → (fullName p n).length < 256 → fullName p n ∉ u →
      readBaseOld p (flatName h u p n) = n) := by
  constructor
  · unfold readBase
    rw [splitOn_absName p n hp hn]
    have : ([] : List Char) :: (p ++ [n]) = ([] :: p) ++ [n] := by simp
    rw [this, getLastD_snoc]
  · intro h u hne hs hu
    rw [flatName_short h u p n hs hu]
    cases p with
    | nil => exact absurd rfl hne
    | cons c cs =>
      simp only [readBaseOld]
      rw [fullName_cons_snoc]
      simp

example : readBase "/forecast/model/lat".toList = "lat".toList := by decide
example : readBaseOld ["forecast".toList, "model".toList] "forecast__model__lat".toList = "lat".toList := by decide

/-- With `/a/b__c` flattened first, `/a/b/c` gets a hashed name and the code as it stands takes the
hash for its base name. -/
theorem C11_old_reader_base_name_counterexample :
    let h : List Char → List Char := fun s => 'H' :: s
    flatName h ["a__b__c".toList] ["a".toList, "b".toList] "c".toList = "H/a/b__c".toList
    ∧ readBaseOld ["a".toList, "b".toList] (flatName h ["a__b__c".toList] ["a".toList, "b".toList] "c".toList) ≠ "c".toList
    ∧ readBase (absName ["a".toList, "b".toList] "c".toList) = "c".toList := by
  decide

end Cfdm.Props.C11
